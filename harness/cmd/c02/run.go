// C02 harness, part 2: runs a case on the REAL code (core.ApplyMessage on a logging
// vm.StateDB wrapper around the real *state.StateDB, with a vm.Tracer), and rebuilds the
// balance-relevant effect tree from what the tracer saw (opcodes with their stack
// arguments) and the shape of the primitive log.
package main

import (
	"encoding/hex"
	"fmt"
	"math/big"
	"time"

	"github.com/dominant-strategies/go-quai/common"
	"github.com/dominant-strategies/go-quai/core"
	"github.com/dominant-strategies/go-quai/core/rawdb"
	"github.com/dominant-strategies/go-quai/core/state"
	"github.com/dominant-strategies/go-quai/core/types"
	"github.com/dominant-strategies/go-quai/core/vm"
	"github.com/dominant-strategies/go-quai/crypto"
	"github.com/dominant-strategies/go-quai/log"
	"github.com/dominant-strategies/go-quai/params"
)

// loc: the location of the node for the case being generated / run.  It is a property of the process
// in production (vm.InitializePrecompiles fills package-level tables once); setLoc switches it the way a
// fresh process of the other location would find it: the three tables are emptied and filled again.
var loc = common.Location{0, 0}
var locReady bool

// the locations the generator draws from (none with byte prefix 0x01, see addrBytes)
var otherLocs = [][]int{{0, 2}, {1, 0}, {2, 1}, {1, 2}}

func setLoc(l []int) {
	nl := common.Location{0, 0}
	if len(l) == 2 {
		nl = common.Location{byte(l[0]), byte(l[1])}
	}
	if locReady && nl.Equal(loc) {
		return
	}
	for k := range vm.PrecompiledContracts {
		delete(vm.PrecompiledContracts, k)
	}
	for k := range vm.PrecompiledAddresses {
		delete(vm.PrecompiledAddresses, k)
	}
	for k := range vm.LockupContractAddresses {
		delete(vm.LockupContractAddresses, k)
	}
	loc = nl
	vm.InitializePrecompiles(loc)
	locReady = true
}

func locOf(c *Case) []int {
	if len(c.Loc) == 2 {
		return c.Loc
	}
	return []int{0, 0}
}

const (
	evOp = iota
	evOpErr
	evFault
	evSub
	evAdd
	evSuicide
	evCreate
	evSnap
	evRevert
)

type event struct {
	kind     int
	op       vm.OpCode
	depth    int
	self     common.Address
	stack    []*big.Int // top first (at most 10)
	cacheLen int
	addr     common.InternalAddress
	amt      *big.Int
	id       int
}

type recorder struct {
	evs      []event
	negative string // first transiently negative balance seen right after a SubBalance
	startGas uint64
	usedGas  uint64
	ended    bool
}

// ---------- logging vm.StateDB ----------

type logDB struct {
	*state.StateDB
	rec    *recorder
	bypass bool
}

// TransitionDb passes vm.Config.Debug as the "bypass access-list checks" flag; the tracer this
// harness needs would therefore switch enforcement off.  The wrapper restores what a node
// without tracer passes (false) unless the case asks for no enforcement.
func (w *logDB) PrepareAccessList(sender common.Address, dst *common.Address, precompiles []common.Address, list types.AccessList, debug bool) {
	w.StateDB.PrepareAccessList(sender, dst, precompiles, list, w.bypass)
}

func (w *logDB) AddBalance(a common.InternalAddress, v *big.Int) {
	w.rec.evs = append(w.rec.evs, event{kind: evAdd, addr: a, amt: new(big.Int).Set(v)})
	w.StateDB.AddBalance(a, v)
}
func (w *logDB) SubBalance(a common.InternalAddress, v *big.Int) {
	w.rec.evs = append(w.rec.evs, event{kind: evSub, addr: a, amt: new(big.Int).Set(v)})
	w.StateDB.SubBalance(a, v)
	if w.rec.negative == "" && w.StateDB.GetBalance(a).Sign() < 0 {
		w.rec.negative = fmt.Sprintf("%x after SubBalance(%s): %s", a.Bytes(), v, w.StateDB.GetBalance(a))
	}
}
func (w *logDB) Suicide(a common.InternalAddress) bool {
	w.rec.evs = append(w.rec.evs, event{kind: evSuicide, addr: a})
	return w.StateDB.Suicide(a)
}
func (w *logDB) CreateAccount(a common.InternalAddress) {
	w.rec.evs = append(w.rec.evs, event{kind: evCreate, addr: a})
	w.StateDB.CreateAccount(a)
}
func (w *logDB) Snapshot() int {
	id := w.StateDB.Snapshot()
	w.rec.evs = append(w.rec.evs, event{kind: evSnap, id: id})
	return id
}
func (w *logDB) RevertToSnapshot(id int) {
	w.rec.evs = append(w.rec.evs, event{kind: evRevert, id: id})
	w.StateDB.RevertToSnapshot(id)
}

// ---------- tracer ----------

func (r *recorder) CaptureStart(env *vm.EVM, from common.Address, to common.Address, create bool, input []byte, gas uint64, value *big.Int) {
	r.startGas = gas
}
func (r *recorder) CaptureEnd(output []byte, gasUsed uint64, d time.Duration, err error) {
	r.usedGas = gasUsed
	r.ended = true
}
func (r *recorder) CaptureFault(env *vm.EVM, pc uint64, op vm.OpCode, gas, cost uint64, scope *vm.ScopeContext, depth int, err error) {
	r.evs = append(r.evs, event{kind: evFault, op: op, depth: depth, cacheLen: len(env.ETXCache)})
}
func (r *recorder) CaptureState(env *vm.EVM, pc uint64, op vm.OpCode, gas, cost uint64, scope *vm.ScopeContext, rData []byte, depth int, err error, l common.Location) {
	e := event{kind: evOp, op: op, depth: depth, self: scope.Contract.Address(), cacheLen: len(env.ETXCache)}
	if err != nil {
		e.kind = evOpErr
	}
	switch op {
	case vm.CALL, vm.CALLCODE, vm.DELEGATECALL, vm.STATICCALL, vm.CREATE, vm.CREATE2, vm.SELFDESTRUCT, vm.ETX, vm.CONVERT:
		data := scope.Stack.Data()
		for i := len(data) - 1; i >= 0 && len(e.stack) < 10; i-- {
			e.stack = append(e.stack, data[i].ToBig())
		}
	default:
		// runs of uninteresting opcodes collapse into their first entry (which still tells the ETX
		// cache length and the word a preceding CREATE pushed)
		if n := len(r.evs); err == nil && n > 0 && r.evs[n-1].kind == evOp && r.evs[n-1].depth == depth && !relevant(r.evs[n-1].op) {
			return
		}
		data := scope.Stack.Data()
		if len(data) > 0 {
			e.stack = []*big.Int{data[len(data)-1].ToBig()}
		}
	}
	r.evs = append(r.evs, e)
}

// blockTracer: one EVM serves the whole block (as in Process); every message has its own recorder
type blockTracer struct{ cur *recorder }

func (b *blockTracer) CaptureStart(env *vm.EVM, from common.Address, to common.Address, create bool, input []byte, gas uint64, value *big.Int) {
	b.cur.CaptureStart(env, from, to, create, input, gas, value)
}
func (b *blockTracer) CaptureEnd(output []byte, gasUsed uint64, d time.Duration, err error) {
	b.cur.CaptureEnd(output, gasUsed, d, err)
}
func (b *blockTracer) CaptureFault(env *vm.EVM, pc uint64, op vm.OpCode, gas, cost uint64, scope *vm.ScopeContext, depth int, err error) {
	b.cur.CaptureFault(env, pc, op, gas, cost, scope, depth, err)
}
func (b *blockTracer) CaptureState(env *vm.EVM, pc uint64, op vm.OpCode, gas, cost uint64, scope *vm.ScopeContext, rData []byte, depth int, err error, l common.Location) {
	b.cur.CaptureState(env, pc, op, gas, cost, scope, rData, depth, err, l)
}

func relevant(op vm.OpCode) bool {
	switch op {
	case vm.CALL, vm.CALLCODE, vm.DELEGATECALL, vm.STATICCALL, vm.CREATE, vm.CREATE2, vm.SELFDESTRUCT, vm.ETX, vm.CONVERT:
		return true
	}
	return false
}

// ---------- the effect tree (mirrors Model/C02.v action) ----------

type Act struct {
	K       string `json:"k"` // call calletx frame create selfd etx other
	From    int    `json:"from,omitempty"`
	To      int    `json:"to,omitempty"`
	V       string `json:"v,omitempty"`
	Fee     string `json:"fee,omitempty"`
	Reach   int    `json:"reach,omitempty"`
	Mk      bool   `json:"mk,omitempty"`
	Checked bool   `json:"checked,omitempty"`
	Body    []Act  `json:"body,omitempty"`
	Rev     bool   `json:"rev,omitempty"`
	Out     int    `json:"out,omitempty"`
	PreOK   bool   `json:"preok,omitempty"`
	Emitted bool   `json:"emitted,omitempty"`
	// Facts read off the tracer only (opcode, stack, len(EVM.ETXCache)); never printed into the Coq
	// term: they feed the model-independent outbound-ETX monitors (etxMonitors).
	Op      string `json:"op,omitempty"`      // the opcode (or "top") that opened the frame / issued the send
	Flag    int    `json:"flag,omitempty"`    // word the call-like opcode pushed: 1 = success, 2 = failure (0 pushed), 0 = not observed
	C0      int    `json:"c0,omitempty"`      // len(EVM.ETXCache) when the opcode was about to execute
	C1      int    `json:"c1,omitempty"`      // ... at the next opcode of the same frame (-1: not observed)
	Debited bool   `json:"debited,omitempty"` // send opcode: a SubBalance followed
	Lockup  bool   `json:"lockup,omitempty"`  // CALL to the lockup contract
}

type Prim struct {
	K string `json:"k"` // sub add suicide create snap revert
	A int    `json:"a,omitempty"`
	V string `json:"v,omitempty"`
}

type Obs struct {
	Invalid  bool     `json:"invalid"`
	ErrClass string   `json:"errclass"` // for the report only
	Used     uint64   `json:"used"`
	Failed   bool     `json:"failed"`
	Fees     string   `json:"fees"` // ExecutionResult.QuaiFees
	Post     []string `json:"post"` // balances of the universe after ApplyMessage
	Fin      []string `json:"fin"`  // after Finalize (+ zero-address reset for an inbound ETX)
	Sui      []int    `json:"sui"`
	Etx      []string `json:"etx"`
	EtxOther int      `json:"etxother"` // ETXs of lockup types (value not taken from a balance)
	Trace    []Prim   `json:"trace"`
}

// univ: the address universe of a block, shared (append-only) by the runs of its messages so that
// account numbers mean the same thing in every transaction of the block
type univ struct {
	universe []common.InternalAddress
	index    map[common.InternalAddress]int
}

type Run struct {
	c *Case
	*univ
	pre      []*big.Int
	rec      *recorder
	top      Act
	obs      Obs
	// message facts
	from      int
	create    bool
	nz, z     int
	al, keys  int
	kind      string // normal kquai suicide
	kquaiErr  bool
	suicBen   int // -1: not an in-zone Quai address
	preOK     bool
	gleft     uint64
	refctr    uint64
	topErr    bool
	rentGas   uint64
	anomaly   string
	panicked  string
	aliased   string // a StateDB left behind by Copy() changed while the block went on on the copy
	persist   [][2]string // (view, what): the copied / committed-and-reopened state differs from the executing one
	selfdOps  int // SELFDESTRUCT opcodes executed (for the pre-fork credit bound)
	sendOps   int // ETX / CONVERT opcodes executed
	vmErr     error
	etxAll    int // len(ExecutionResult.Etxs), every type (TransitionDb dumps EVM.ETXCache into it)
	etxRealFin []string // balances after the real core.ApplyTransaction (inbound ETX only)
	etxRealErr string
	// block shape
	pool   uint64     // gas left in the block's GasPool when this message was applied
	prev   []*Run     // the runs of the messages applied before this one in the same block (c.Before)
	blkPre []*big.Int // balances of the (final) universe at the start of the block
}

func (r *univ) idx(a common.InternalAddress) int {
	if i, ok := r.index[a]; ok {
		return i
	}
	i := len(r.universe)
	r.universe = append(r.universe, a)
	r.index[a] = i
	return i
}

func internalOf(b []byte) (common.InternalAddress, bool) {
	ia, err := common.BytesToAddress(b, loc).InternalAndQuaiAddress()
	return ia, err == nil
}

func word20(x *big.Int) []byte {
	b := x.Bytes()
	out := make([]byte, 20)
	if len(b) > 20 {
		b = b[len(b)-20:]
	}
	copy(out[20-len(b):], b)
	return out
}

var kQuaiSetting = common.HexToAddress("0x00640d82EF6552085e494DF2a2EAec18D8215913", common.Location{0, 0})

// ---------- execution ----------

func newState(c *Case, logger *log.Logger) (*state.StateDB, state.Database) {
	db := rawdb.NewMemoryDatabase(logger)
	sdb := state.NewDatabase(db)
	statedb, err := state.New(types.EmptyRootHash, types.EmptyRootHash, big.NewInt(0), sdb, state.NewDatabase(db), nil, loc, logger)
	if err != nil {
		panic(err)
	}
	for _, a := range c.Accts {
		ia, ok := internalOf(addrBytes(a.Addr))
		if !ok {
			panic("account not an in-zone Quai address: " + a.Addr)
		}
		if b := bi(a.Bal); b.Sign() > 0 {
			statedb.SetBalance(ia, b)
		}
		if a.Nonce > 0 {
			statedb.SetNonce(ia, a.Nonce)
		}
		if len(a.Code) > 0 {
			statedb.SetCode(ia, assemble(a.Code))
		}
		for k, v := range a.Storage {
			kb, _ := hex.DecodeString(k)
			vb, _ := hex.DecodeString(v)
			statedb.SetState(ia, common.BytesToHash(kb), common.BytesToHash(vb))
		}
	}
	statedb.Finalize(false) // what was written becomes the committed ("original") state of the transaction
	return statedb, sdb
}

// kept: a StateDB the block left behind when it went on on a copy, with the balances it had then
type kept struct {
	db   *state.StateDB
	at   int
	bals []*big.Int
}

func blockCtx(c *Case) vm.BlockContext {
	return vm.BlockContext{
		CanTransfer:         core.CanTransfer,
		Transfer:            core.Transfer,
		GetHash:             func(uint64) common.Hash { return common.Hash{} },
		CheckIfEtxEligible:  func(common.Hash, common.Location) bool { return c.Elig },
		PrimaryCoinbase:     common.BytesToAddress(addrBytes("0000000000000000000000000000000000000c0b"), loc),
		GasLimit:            c.BlockGas,
		BlockNumber:         new(big.Int).SetUint64(c.Block),
		Time:                big.NewInt(1700000000),
		Difficulty:          big.NewInt(1000000),
		BaseFee:             bi(c.BaseFee),
		QuaiStateSize:       bi(c.StateSize),
		EtxEligibleSlices:   common.Hash{},
		PrimeTerminusNumber: c.PTN,
	}
}

func dataOf(c *Case) []byte {
	if c.To == "" || (c.Inbound && c.To == zeroHex) {
		if len(c.Init) > 0 {
			return assemble(c.Init)
		}
	}
	d, _ := hex.DecodeString(c.Data)
	return d
}

const zeroHex = "0000000000000000000000000000000000000000"

// accessListOf lists every declared account (contracts with their storage keys 1..3), the
// precompiles / lockup contract and the addresses a dry run discovered (created contracts,
// beneficiaries): with enforcement on, the EVM refuses to touch anything else.
func accessListOf(c *Case, extra []common.InternalAddress) types.AccessList {
	if !c.ACL {
		return nil
	}
	var al types.AccessList
	seen := map[common.AddressBytes]bool{}
	keys := []common.Hash{common.BytesToHash([]byte{1}), common.BytesToHash([]byte{2}), common.BytesToHash([]byte{3})}
	for _, a := range c.Accts {
		t := types.AccessTuple{Address: common.BytesToAddress(addrBytes(a.Addr), loc)}
		if len(a.Code) > 0 {
			t.StorageKeys = keys
		}
		seen[t.Address.Bytes20()] = true
		al = append(al, t)
	}
	for i := 1; i <= 10; i++ {
		b := make([]byte, 20)
		b[0], b[19] = loc.BytePrefix(), byte(i)
		ad := common.BytesToAddress(b, loc)
		seen[ad.Bytes20()] = true
		al = append(al, types.AccessTuple{Address: ad})
	}
	// the address pools of the generator (EOAs, fresh accounts, out-of-zone and Qi targets, zero address)
	for _, h := range poolAddrs() {
		ad := common.BytesToAddress(addrBytes(h), loc)
		if !seen[ad.Bytes20()] {
			seen[ad.Bytes20()] = true
			al = append(al, types.AccessTuple{Address: ad})
		}
	}
	for _, ia := range extra {
		ad := common.BytesToAddress(ia.Bytes(), loc)
		if !seen[ad.Bytes20()] {
			seen[ad.Bytes20()] = true
			al = append(al, types.AccessTuple{Address: ad})
		}
	}
	if c.ALDrop > 0 && len(al) > 0 {
		i := c.ALDrop % len(al)
		al = append(al[:i:i], al[i+1:]...) // one entry missing: whoever touches it gets ErrInvalidAccessList
	}
	return al
}

// runCase: with access-list enforcement on (production behaviour) the messages must name every
// address they will touch, including contracts they create; a dry run of the whole block without
// enforcement finds them.
func runCase(c *Case, logger *log.Logger) *Run {
	if c.Inbound {
		c.ACL = true // the real core.ApplyTransaction (vm.Config.Debug off) always enforces
	}
	for _, b := range c.Before {
		if b.Inbound {
			c.ACL = true
		}
	}
	if !c.ACL {
		return execute(c, nil, logger)
	}
	c.ACL = false
	dry := execute(c, nil, logger)
	c.ACL = true
	if dry.panicked != "" {
		return dry
	}
	return execute(c, dry.universe, logger)
}

// materialize: message m of the block described by c as a case of its own (environment and accounts
// of c, message fields of m)
func materialize(c *Case, m *Case) *Case {
	mc := *c
	mc.Before = nil
	mc.Note = m.Note
	mc.Inbound, mc.From, mc.To, mc.Value, mc.Gas, mc.Price = m.Inbound, m.From, m.To, m.Value, m.Gas, m.Price
	mc.Nonce, mc.RelNonce, mc.Data, mc.Init, mc.ALDrop = m.Nonce, m.RelNonce, m.Data, m.Init, m.ALDrop
	return &mc
}

// execute applies the messages c.Before ++ [c] to ONE StateDB through ONE EVM, the way a block is
// processed: Prepare, EVM.Reset, ApplyMessage, Finalize(true) per message, nothing else in between
// (no Commit, no reload).  It returns the run of the last message (the case proper); the runs of the
// earlier ones hang off it (prev) for the block-level model check and monitors.
func execute(c *Case, extra []common.InternalAddress, logger *log.Logger) (r *Run) {
	setLoc(c.Loc)
	statedb, sdb := newState(c, logger)
	blkState := statedb.Copy()
	var left []kept
	u := &univ{index: map[common.InternalAddress]int{}}
	// universe: zero address, declared accounts, precompiles 1..9, lockup contract
	u.idx(common.ZeroInternal(loc))
	for _, a := range c.Accts {
		ia, _ := internalOf(addrBytes(a.Addr))
		u.idx(ia)
	}
	for i := 1; i <= 10; i++ {
		b := make([]byte, 20)
		b[0], b[19] = loc.BytePrefix(), byte(i)
		ia, _ := internalOf(b)
		u.idx(ia)
	}
	bctx := blockCtx(c)
	bt := &blockTracer{}
	wrapped := &logDB{StateDB: statedb, bypass: !c.ACL}
	cfg := &params.ChainConfig{ChainID: big.NewInt(1), Location: loc}
	evm := vm.NewEVM(bctx, vm.TxContext{}, wrapped, cfg, vm.Config{Debug: true, Tracer: bt}, nil)
	gp := new(types.GasPool).AddGas(c.Pool)

	var msgs []*Case
	for _, b := range c.Before {
		msgs = append(msgs, materialize(c, b))
	}
	msgs = append(msgs, c)
	var prev []*Run
	for i, mc := range msgs {
		last := i == len(msgs)-1
		r = &Run{c: mc, univ: u, rec: &recorder{}, suicBen: -1}
		bt.cur, wrapped.rec = r.rec, r.rec
		r.pool = gp.Gas()
		r.rentGas = params.CallNewAccountGas(bctx.QuaiStateSize)
		// Process: statedb.Prepare(tx.Hash(), i) in front of every transaction (fresh access list); the copy
		// (used for the pre-balances and for the real core.ApplyTransaction of an inbound ETX) is taken after it
		statedb.Prepare(common.BytesToHash([]byte{0xc0, 0x02, byte(i + 1)}), i)
		preState := statedb.Copy()
		snap := -1
		if !last {
			snap = statedb.Snapshot() // worker.commitTransaction: a refused message is rolled back
		}
		r.apply(mc, statedb, wrapped, preState, evm, gp, bctx, extra, logger)
		if r.panicked != "" {
			return r
		}
		if !last && r.obs.Invalid {
			statedb.RevertToSnapshot(snap)
			gp = new(types.GasPool).AddGas(r.pool)
		}
		if !last {
			switch c.Between {
			case "reload":
				// end of a block / restart: everything is committed and a new StateDB opened at the root; no
				// state object, journal entry or cached deleted account survives
				root, err := statedb.Commit(true)
				if err != nil {
					r.panicked = "StateDB.Commit between two messages: " + err.Error()
					return r
				}
				reopened, err := state.New(root, types.EmptyRootHash, big.NewInt(0), sdb, state.NewDatabase(rawdb.NewMemoryDatabase(logger)), nil, loc, logger)
				if err != nil {
					r.panicked = "state.New at the committed root: " + err.Error()
					return r
				}
				statedb = reopened
				wrapped.StateDB = statedb
			case "copy":
				k := kept{db: statedb, at: i + 1}
				for _, a := range u.universe {
					k.bals = append(k.bals, new(big.Int).Set(statedb.GetBalance(a)))
				}
				left = append(left, k)
				statedb = statedb.Copy()
				wrapped.StateDB = statedb
			}
		}
		if last {
			r.prev = prev
			for _, a := range u.universe {
				r.blkPre = append(r.blkPre, new(big.Int).Set(blkState.GetBalance(a)))
			}
			// what the chain keeps: the state a Copy() of this StateDB shows, and the state a node reads after
			// Commit and re-opening at the new root (next block / restart), must carry the balances the executing
			// StateDB showed after the message - for every case, single messages included
			if !r.obs.Invalid && r.panicked == "" {
				r.persistence(statedb, sdb, logger)
			}
			// a StateDB the block was copied from is not touched by what ran on the copy
			for _, k := range left {
				for j, b := range k.bals {
					if now := k.db.GetBalance(u.universe[j]); now.Cmp(b) != 0 && r.aliased == "" {
						r.aliased = fmt.Sprintf("account #%d of the StateDB left behind after message %d went %s -> %s while the block ran on its Copy()", j, k.at, b, now)
					}
				}
			}
		}
		prev = append(prev, r)
	}
	return r
}

// persistence compares the balances (and the payer's nonce) of the executing StateDB after the last
// message with (1) StateDB.Copy() and (2) the state re-opened from the root Commit(true) returns.
func (r *Run) persistence(statedb *state.StateDB, sdb state.Database, logger *log.Logger) {
	defer func() {
		if p := recover(); p != nil {
			r.persist = append(r.persist, [2]string{"panic", fmt.Sprint("Copy / Commit / re-open panicked: ", p)})
		}
	}()
	type view struct {
		name string
		db   *state.StateDB
	}
	var nonces []uint64
	for _, a := range r.universe {
		nonces = append(nonces, statedb.GetNonce(a))
	}
	views := []view{{"copy", statedb.Copy()}}
	root, err := statedb.Commit(true)
	if err != nil {
		r.persist = append(r.persist, [2]string{"commit", "StateDB.Commit: " + err.Error()})
		return
	}
	reopened, err := state.New(root, types.EmptyRootHash, big.NewInt(0), sdb, state.NewDatabase(rawdb.NewMemoryDatabase(logger)), nil, loc, logger)
	if err != nil {
		r.persist = append(r.persist, [2]string{"commit", "state.New at the committed root: " + err.Error()})
		return
	}
	views = append(views, view{"reload", reopened})
	for _, v := range views {
		for j, a := range r.universe {
			if j >= len(r.obs.Fin) {
				break
			}
			if got := v.db.GetBalance(a).String(); got != r.obs.Fin[j] {
				r.persist = append(r.persist, [2]string{v.name, fmt.Sprintf("account #%d holds %s after the message on the executing StateDB but %s in the state seen through %s", j, r.obs.Fin[j], got, v.name)})
				break
			}
			if got := v.db.GetNonce(a); got != nonces[j] {
				r.persist = append(r.persist, [2]string{v.name + "-nonce", fmt.Sprintf("account #%d has nonce %d on the executing StateDB but %d in the state seen through %s", j, nonces[j], got, v.name)})
				break
			}
		}
	}
}

// apply runs one message of the block on the shared state and fills in the run.
func (r *Run) apply(c *Case, statedb *state.StateDB, wrapped *logDB, preState *state.StateDB, evm *vm.EVM, gp *types.GasPool,
	bctx vm.BlockContext, extra []common.InternalAddress, logger *log.Logger) {
	// the message
	data := dataOf(c)
	for _, b := range data {
		if b != 0 {
			r.nz++
		} else {
			r.z++
		}
	}
	al := accessListOf(c, extra)
	r.al, r.keys = len(al), al.StorageKeys()
	var msg types.Message
	var etxTx *types.Transaction
	var toAddr *common.Address
	if c.To != "" {
		t := common.BytesToAddress(addrBytes(c.To), loc)
		toAddr = &t
	}
	value := bi(c.Value)
	if c.Inbound {
		if toAddr == nil {
			z := common.ZeroAddress(loc)
			toAddr = &z
		}
		sender := common.BytesToAddress(addrBytes("0100000000000000000000000000000000000e7c"), loc)
		etxTx = types.NewTx(&types.ExternalTx{Value: value, To: toAddr, Sender: sender, EtxType: uint64(types.DefaultType),
			OriginatingTxHash: common.BytesToHash([]byte{0xc0, 0x02, byte(len(r.prev))}), ETXIndex: 0, Gas: c.Gas, Data: data, AccessList: al})
		m, err := etxTx.AsMessage(types.NewSigner(big.NewInt(1), loc), bi(c.BaseFee))
		if err != nil {
			panic(err)
		}
		msg = m
		r.create = toAddr.Equal(common.ZeroAddress(loc))
		r.from = 0
	} else {
		from := common.BytesToAddress(addrBytes(c.From), loc)
		fi, ok := internalOf(addrBytes(c.From))
		if !ok {
			panic("sender not in-zone Quai")
		}
		nonce := c.Nonce
		if c.RelNonce {
			nonce += statedb.GetNonce(fi)
		}
		msg = types.NewMessage(from, toAddr, nonce, value, c.Gas, bi(c.Price), data, al, false)
		r.create = toAddr == nil
		r.from = r.idx(fi)
		// preCheck facts the model takes as opaque: nonce and sender-is-EOA
		ch := statedb.GetCodeHash(fi)
		r.preOK = statedb.GetNonce(fi) == nonce && (ch == (common.Hash{}) || ch == crypto.Keccak256Hash(nil))
	}
	// kind of message, as TransitionDb classifies it
	r.kind = "normal"
	if msg.From().Equal(kQuaiSetting) {
		r.kind = "kquai"
	} else if !c.Inbound && !r.create && len(data) == 27 && string(data[:7]) == "Suicide" && toAddr.Equal(msg.From()) {
		r.kind = "suicide"
		if ia, ok := internalOf(data[7:27]); ok {
			r.suicBen = r.idx(ia)
		}
	}
	r.pre = make([]*big.Int, len(r.universe))
	for i, a := range r.universe {
		r.pre[i] = new(big.Int).Set(statedb.GetBalance(a))
	}

	// real run
	evm.Reset(core.NewEVMTxContext(msg), wrapped)
	var prevZero *big.Int
	if c.Inbound {
		prevZero = new(big.Int).Set(core.VerifC02PrepareApplyETX(statedb, msg.Value(), loc))
	}
	var res *core.ExecutionResult
	var err error
	func() {
		defer func() {
			if p := recover(); p != nil {
				r.panicked = fmt.Sprint(p)
			}
		}()
		res, err = core.ApplyMessage(evm, msg, gp)
	}()
	if r.panicked != "" {
		return
	}
	r.refctr = statedb.GetRefund()
	if res != nil {
		r.etxAll = len(res.Etxs)
	}
	o := &r.obs
	o.Invalid = err != nil
	if err != nil {
		o.ErrClass = "invalid"
	} else {
		o.Used = res.UsedGas
		o.Failed = res.Failed()
		o.Fees = "0"
		if res.QuaiFees != nil {
			o.Fees = res.QuaiFees.String()
		}
		r.vmErr = res.Err
		switch {
		case res.Err == nil:
			o.ErrClass = "ok"
		case res.Err == vm.ErrExecutionReverted:
			o.ErrClass = "reverted"
		case res.Err == vm.ErrCodeStoreOutOfGas:
			o.ErrClass = "codestore-oog"
		case res.Err == vm.ErrOutOfGas:
			o.ErrClass = "oog"
		case res.Err == vm.ErrInsufficientBalance:
			o.ErrClass = "insufficient-balance"
		default:
			o.ErrClass = "other-error"
		}
		for _, tx := range res.Etxs {
			if tx.EtxType() == types.DefaultType || tx.EtxType() == types.ConversionType {
				o.Etx = append(o.Etx, tx.Value().String())
			} else {
				o.EtxOther++
			}
		}
	}
	// register every address the primitives touched
	for _, e := range r.rec.evs {
		switch e.kind {
		case evSub, evAdd, evSuicide, evCreate:
			if _, ok := r.index[e.addr]; !ok {
				r.idx(e.addr)
			}
		}
	}
	r.buildTree(msg, toAddr)
	// pre-balances of the addresses discovered while running / building the tree
	for i := len(r.pre); i < len(r.universe); i++ {
		r.pre = append(r.pre, new(big.Int).Set(preState.GetBalance(r.universe[i])))
	}
	for _, a := range r.universe {
		o.Post = append(o.Post, statedb.GetBalance(a).String())
	}
	for i, a := range r.universe {
		if statedb.HasSuicided(a) {
			o.Sui = append(o.Sui, i)
		}
	}
	if err == nil {
		wrapped.Finalize(true) // applyTransaction
	}
	if c.Inbound {
		statedb.SetBalance(common.ZeroInternal(loc), prevZero) // ApplyTransaction / Process
	}
	for _, a := range r.universe {
		o.Fin = append(o.Fin, statedb.GetBalance(a).String())
	}
	// the primitive log, normalised
	first := -1
	for _, e := range r.rec.evs {
		switch e.kind {
		case evSub:
			o.Trace = append(o.Trace, Prim{"sub", r.index[e.addr], e.amt.String()})
		case evAdd:
			o.Trace = append(o.Trace, Prim{"add", r.index[e.addr], e.amt.String()})
		case evSuicide:
			o.Trace = append(o.Trace, Prim{K: "suicide", A: r.index[e.addr]})
		case evCreate:
			o.Trace = append(o.Trace, Prim{K: "create", A: r.index[e.addr]})
		case evSnap:
			if first < 0 {
				first = e.id
			}
			o.Trace = append(o.Trace, Prim{K: "snap", A: e.id - first})
		case evRevert:
			o.Trace = append(o.Trace, Prim{K: "revert", A: e.id - first})
		}
	}
	// the real ApplyTransaction on a copy of the state in front of this message (inbound ETX only)
	if c.Inbound {
		r.realApplyTransaction(preState, etxTx, logger)
	}
}


// ---------- rebuilding the effect tree ----------

type parser struct {
	r  *Run
	ev []event
	i  int
}

func (p *parser) peek() *event {
	if p.i < len(p.ev) {
		return &p.ev[p.i]
	}
	return nil
}
func (p *parser) is(kind int) bool { e := p.peek(); return e != nil && e.kind == kind }

// frameTail parses what follows the opcode of a call-like action: snapshot, (account creation,)
// value movement, body, revert.  moves = number of balance primitives the frame entry issues.
func (p *parser) frameTail(a *Act, d int, wantCreate bool, moves int) {
	if !p.is(evSnap) {
		a.Reach = 0
		return
	}
	snap := p.peek().id
	p.i++
	a.Reach = 1
	if p.is(evCreate) {
		a.Mk = true
		if a.K == "create" {
			a.To = p.r.idx(p.peek().addr)
		}
		p.i++
	}
	switch moves {
	case 2:
		if p.is(evSub) && p.i+1 < len(p.ev) && p.ev[p.i+1].kind == evAdd {
			p.i += 2
			a.Reach = 2
		}
	case 1:
		if p.is(evSub) {
			p.i++
			a.Reach = 2
		}
	case 0:
		a.Reach = 2
	}
	if a.Reach == 2 && a.K != "calletx" {
		a.Body = p.ops(d + 1)
	}
	if e := p.peek(); e != nil && e.kind == evRevert && e.id == snap {
		a.Rev = true
		p.i++
	}
}

// observe records, for the call-like opcode e that produced action a, what the tracer alone tells
// about its outcome: the word it pushed (seen on top of the stack at the next opcode of the same
// frame) and the ETX cache length before and after.
func (p *parser) observe(a *Act, e *event, d int) {
	a.Op, a.C0, a.C1, a.Flag = e.op.String(), e.cacheLen, -1, 0
	if n := p.nextAtDepth(d); n != nil {
		a.C1 = n.cacheLen
		if n.kind != evFault && len(n.stack) > 0 {
			if n.stack[0].Sign() == 0 {
				a.Flag = 2
			} else {
				a.Flag = 1
			}
		}
	}
}

func (p *parser) nextAtDepth(d int) *event {
	for j := p.i; j < len(p.ev); j++ {
		e := &p.ev[j]
		if (e.kind == evOp || e.kind == evOpErr || e.kind == evFault) && e.depth == d {
			return e
		}
		if (e.kind == evOp || e.kind == evOpErr || e.kind == evFault) && e.depth < d {
			return nil
		}
	}
	return nil
}

func (p *parser) callAct(from common.Address, toW []byte, v *big.Int, d int) Act {
	fi, _ := from.InternalAndQuaiAddress()
	a := Act{From: p.r.idx(fi), V: v.String()}
	to := common.BytesToAddress(toW, loc)
	lockup := vm.LockupContractAddresses[[2]byte{loc[0], loc[1]}]
	if !to.Equal(lockup) {
		// EVM.precompile: an address whose tail names a precompile is translated into this zone
		var tr common.AddressBytes
		copy(tr[:], toW)
		if _, ok := vm.PrecompiledContracts[tr]; !ok {
			tr[0] = loc.BytePrefix()
			if _, ok := vm.PrecompiledContracts[tr]; ok {
				to = common.BytesToAddress(tr[:], loc)
			}
		}
	}
	if ti, err := to.InternalAndQuaiAddress(); err == nil || to.Equal(lockup) {
		a.K = "call"
		a.To = p.r.idx(ti)
		a.Lockup = to.Equal(lockup)
		p.frameTail(&a, d, false, 2)
	} else {
		a.K = "calletx"
		p.frameTail(&a, d, false, 1)
	}
	return a
}

func (p *parser) createAct(from common.Address, v *big.Int, d int) Act {
	fi, _ := from.InternalAndQuaiAddress()
	a := Act{K: "create", From: p.r.idx(fi), V: v.String()}
	p.frameTail(&a, d, true, 2)
	if a.Reach == 1 {
		a.Reach = 0
		p.r.anomaly = "create took a snapshot but moved no value"
	}
	if a.Rev {
		a.Out = 1
	}
	return a
}

func two256() *big.Int { return new(big.Int).Lsh(big.NewInt(1), 256) }

// ops parses the executed opcodes of one frame (depth d).
func (p *parser) ops(d int) []Act {
	var acts []Act
	for {
		e := p.peek()
		if e == nil {
			return acts
		}
		if e.kind == evFault && e.depth == d {
			p.i++
			continue
		}
		if e.kind == evOpErr && e.depth == d {
			p.i++ // the opcode did not execute; the frame fails
			continue
		}
		if e.kind != evOp || e.depth != d {
			return acts
		}
		p.i++
		st := e.stack
		switch e.op {
		case vm.CALL:
			a := p.callAct(e.self, word20(st[1]), st[2], d)
			p.observe(&a, e, d)
			acts = append(acts, a)
		case vm.CALLCODE, vm.DELEGATECALL, vm.STATICCALL:
			si, _ := e.self.InternalAndQuaiAddress()
			a := Act{K: "frame", From: p.r.idx(si), V: "0"}
			if e.op == vm.CALLCODE {
				a.Checked = true
				a.V = st[2].String()
			}
			p.frameTail(&a, d, false, 0)
			p.observe(&a, e, d)
			acts = append(acts, a)
		case vm.CREATE, vm.CREATE2:
			a := p.createAct(e.self, st[0], d)
			if a.Reach == 2 && !a.Rev {
				// error without revert (ErrCodeStoreOutOfGas) shows as a zero word pushed by the opcode
				if n := p.nextAtDepth(d); n != nil && n.kind != evFault && len(n.stack) > 0 && n.stack[0].Sign() == 0 {
					a.Out = 2
				}
			}
			p.observe(&a, e, d)
			acts = append(acts, a)
		case vm.SELFDESTRUCT:
			si, _ := e.self.InternalAndQuaiAddress()
			bi_, ok := internalOf(word20(st[0]))
			if n := p.peek(); !ok || (n != nil && n.kind == evFault && n.depth == d) {
				continue // beneficiary outside the zone's Quai ledger / not in the access list: the opcode errors before touching anything
			}
			p.r.selfdOps++
			acts = append(acts, Act{K: "selfd", From: p.r.idx(si), To: p.r.idx(bi_)})
			for p.is(evAdd) {
				p.i++
			}
			if p.is(evSuicide) {
				p.i++
			}
		case vm.ETX, vm.CONVERT:
			a := p.sendAct(e)
			a.Op, a.C0, a.C1 = e.op.String(), e.cacheLen, -1
			if p.is(evSub) {
				p.i++
				a.Debited = true
			}
			if n := p.nextAtDepth(d); n != nil {
				a.Emitted = n.cacheLen == e.cacheLen+1
				a.C1 = n.cacheLen
			} else {
				p.r.anomaly = "no trace entry after a send opcode"
			}
			p.r.sendOps++
			acts = append(acts, a)
		}
	}
}

// sendAct computes, following opETX / opConvert, the amount the opcode debits and whether
// every check that does not look at a balance passes.
func (p *parser) sendAct(e *event) Act {
	si, _ := e.self.InternalAndQuaiAddress()
	a := Act{K: "etx", From: p.r.idx(si), V: "0", Fee: "0"}
	c := p.r.c
	st := e.stack
	postFork := c.PTN >= params.SelfDestructRefundForkBlock
	maxU64 := new(big.Int).SetUint64(^uint64(0))
	mod := two256()
	to := common.BytesToAddress(word20(st[1]), loc)
	value := st[2]
	gl := st[3]
	var fee *big.Int
	ok := true
	if e.op == vm.ETX {
		if common.IsInChainScope(to.Bytes(), loc) {
			ok = false
		}
		fee = new(big.Int).Add(st[4], st[5])
		if fee.Cmp(mod) >= 0 {
			if postFork {
				ok = false
			}
			fee.Mod(fee, mod)
		}
		fee.Mul(fee, gl)
	} else {
		if !common.IsInChainScope(to.Bytes(), loc) || !to.IsInQiLedgerScope() || value.Cmp(params.MinQuaiConversionAmount) < 0 {
			ok = false
		}
		if c.PTN < params.ControllerKickInBlock ||
			(c.PTN >= params.KawPowForkBlock && c.PTN < params.KawPowForkBlock+params.KQuaiChangeHoldInterval) ||
			(c.PTN >= params.ShaEquivalentDifficultyForkBlock && c.PTN < params.ShaEquivalentDifficultyForkBlock+params.KQuaiChangeHoldInterval) {
			ok = false
		}
		fee = new(big.Int).Mul(bi(c.Price), gl)
		if c.Inbound {
			fee = new(big.Int)
		}
	}
	if fee.Cmp(mod) >= 0 {
		if postFork {
			ok = false
		}
		fee.Mod(fee, mod)
	}
	total := new(big.Int).Add(value, fee)
	if total.Cmp(mod) >= 0 {
		ok = false // (pre-fork the sum wraps: the generator never produces such arguments)
	}
	if gl.Cmp(maxU64) > 0 || new(big.Int).And(gl, maxU64).Uint64() < params.TxGas {
		ok = false
	}
	a.V, a.Fee, a.PreOK = value.String(), fee.String(), ok
	return a
}

func (r *Run) buildTree(msg types.Message, toAddr *common.Address) {
	p := &parser{r: r, ev: r.rec.evs}
	o := &r.obs
	r.top = Act{K: "other"}
	if !r.c.Inbound && p.is(evSub) {
		p.i++ // buyGas
	}
	switch r.kind {
	case "kquai":
		r.kquaiErr = o.Failed
	case "suicide":
		if p.is(evSuicide) {
			p.i++
		}
		if p.is(evAdd) {
			p.i++
		}
	default:
		if r.create {
			r.top = p.createAct(msg.From(), msg.Value(), 0)
			if r.top.Reach == 2 && !r.top.Rev && o.Failed {
				r.top.Out = 2
			}
		} else {
			r.top = p.callAct(msg.From(), toAddr.Bytes(), msg.Value(), 0)
		}
		if p.is(evAdd) {
			p.i++ // refundGas
		}
		r.top.Op, r.top.C0, r.top.C1, r.top.Flag = "top", 0, r.etxAll, 1
		if o.Failed {
			r.top.Flag = 2
		}
	}
	if p.i != len(p.ev) && r.anomaly == "" && !o.Invalid {
		e := p.ev[p.i]
		r.anomaly = fmt.Sprintf("event %d of %d not explained by any action (kind %d op %v depth %d)", p.i, len(p.ev), e.kind, e.op, e.depth)
	}
	// opaque facts
	r.topErr = o.Failed
	if o.Invalid {
		return
	}
	if r.kind == "normal" {
		gfinal := r.c.Gas - o.Used // st.gas after the refund
		if r.rec.ended {
			r.gleft = r.rec.startGas - r.rec.usedGas
		} else {
			if r.refctr != 0 {
				r.anomaly = "refund counter set although no code ran"
			}
			r.gleft = gfinal
		}
	}
}


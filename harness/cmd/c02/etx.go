// C02 harness, part 3: an inbound ETX is also run through the REAL core.ApplyTransaction
// (prepareApplyETX + applyTransaction + zero-address reset, on the real *state.StateDB, no
// wrapper) on a copy of the pre-state; the resulting balances must equal those of the
// instrumented run, which replays the same three steps around core.ApplyMessage.
package main

import (
	"fmt"
	"os"
	"time"
	"math/big"

	"github.com/dominant-strategies/go-quai/common"
	"github.com/dominant-strategies/go-quai/consensus"
	"github.com/dominant-strategies/go-quai/core"
	"github.com/dominant-strategies/go-quai/core/state"
	"github.com/dominant-strategies/go-quai/core/types"
	"github.com/dominant-strategies/go-quai/core/vm"
	"github.com/dominant-strategies/go-quai/log"
	"github.com/dominant-strategies/go-quai/params"
)

type mockChain struct {
	parent *types.WorkObject
	elig   bool
}

func (m *mockChain) Engine(*types.WorkObjectHeader) consensus.Engine                { return nil }
func (m *mockChain) GetHeaderOrCandidateByHash(common.Hash) *types.WorkObject       { return m.parent }
func (m *mockChain) NodeCtx() int                                                   { return common.ZONE_CTX }
func (m *mockChain) IsGenesisHash(common.Hash) bool                                 { return false }
func (m *mockChain) GetHeaderByHash(common.Hash) *types.WorkObject                  { return m.parent }
func (m *mockChain) GetBlockByHash(common.Hash) *types.WorkObject                   { return m.parent }
func (m *mockChain) CheckIfEtxIsEligible(common.Hash, common.Location) bool         { return m.elig }
func (m *mockChain) CheckInCalcOrderCache(common.Hash) (*big.Int, int, bool)        { return nil, 0, false }
func (m *mockChain) AddToCalcOrderCache(common.Hash, int, *big.Int)                 {}
func (m *mockChain) CalcBaseFee(*types.WorkObject) *big.Int                         { return big.NewInt(1) }
func (m *mockChain) CalcOrder(*types.WorkObject) (*big.Int, int, error)             { return big.NewInt(0), common.PRIME_CTX, nil }

func (r *Run) realApplyTransaction(pre *state.StateDB, tx *types.Transaction, logger *log.Logger) {
	defer func() {
		if p := recover(); p != nil {
			r.etxRealErr = fmt.Sprint("panic: ", p)
		}
	}()
	c := r.c
	parent := types.EmptyWorkObject(common.ZONE_CTX)
	parent.WorkObjectHeader().SetNumber(new(big.Int).SetUint64(c.Block - 1))
	parent.WorkObjectHeader().SetLocation(loc)
	parent.WorkObjectHeader().SetDifficulty(big.NewInt(1000000))
	parent.WorkObjectHeader().SetPrimeTerminusNumber(new(big.Int).SetUint64(c.PTN))
	parent.Header().SetQuaiStateSize(bi(c.StateSize))
	parent.Header().SetBaseFee(bi(c.BaseFee))
	parent.Header().SetGasLimit(c.BlockGas)
	header := types.EmptyWorkObject(common.ZONE_CTX)
	header.WorkObjectHeader().SetNumber(new(big.Int).SetUint64(c.Block))
	header.WorkObjectHeader().SetLocation(loc)
	header.WorkObjectHeader().SetDifficulty(big.NewInt(1000000))
	header.WorkObjectHeader().SetPrimeTerminusNumber(new(big.Int).SetUint64(c.PTN))
	header.WorkObjectHeader().SetPrimaryCoinbase(common.BytesToAddress(addrBytes("0000000000000000000000000000000000000c0b"), loc))
	header.WorkObjectHeader().SetTime(1700000000)
	header.Header().SetBaseFee(bi(c.BaseFee))
	header.Header().SetGasLimit(c.BlockGas)
	header.Header().SetQuaiStateSize(bi(c.StateSize))
	chain := &mockChain{parent: parent, elig: c.Elig}
	cfg := &params.ChainConfig{ChainID: big.NewInt(1), Location: loc}
	statedb := pre
	gp := new(types.GasPool).AddGas(r.pool) // what is left of the block's pool in front of this message
	var usedGas, usedState uint64
	rl, pl := ^uint64(0), ^uint64(0)
	vmcfg := vm.Config{}
	if os.Getenv("C02_DEBUG") != "" {
		vmcfg = vm.Config{Debug: true, Tracer: &dbgTracer{}}
	}
	rcpt, _, err := core.ApplyTransaction(cfg, parent, common.PRIME_CTX, chain, nil, gp, statedb, header, tx, &usedGas, &usedState, vmcfg, &rl, &pl, nil, logger)
	if err != nil {
		r.etxRealErr = "error"
	}
	if os.Getenv("C02_DEBUG") != "" {
		fmt.Fprintf(os.Stderr, "real ApplyTransaction: err=%v receipt=%+v usedGas=%d\n", err, rcpt, usedGas)
	}
	for _, a := range r.universe {
		r.etxRealFin = append(r.etxRealFin, statedb.GetBalance(a).String())
	}
}

type dbgTracer struct{}

func (d *dbgTracer) CaptureStart(env *vm.EVM, from common.Address, to common.Address, create bool, input []byte, gas uint64, value *big.Int) {
	fmt.Fprintf(os.Stderr, "start from=%x to=%x gas=%d value=%s\n", from.Bytes(), to.Bytes(), gas, value)
}
func (d *dbgTracer) CaptureEnd(output []byte, gasUsed uint64, t time.Duration, err error) {
	fmt.Fprintf(os.Stderr, "end used=%d err=%v\n", gasUsed, err)
}
func (d *dbgTracer) CaptureFault(env *vm.EVM, pc uint64, op vm.OpCode, gas, cost uint64, scope *vm.ScopeContext, depth int, err error) {
	fmt.Fprintf(os.Stderr, "fault pc=%d op=%v depth=%d err=%v\n", pc, op, depth, err)
}
func (d *dbgTracer) CaptureState(env *vm.EVM, pc uint64, op vm.OpCode, gas, cost uint64, scope *vm.ScopeContext, rData []byte, depth int, err error, l common.Location) {
	fmt.Fprintf(os.Stderr, "op pc=%d %v gas=%d cost=%d depth=%d err=%v\n", pc, op, gas, cost, depth, err)
}

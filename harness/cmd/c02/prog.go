// C02 harness, part 1: replayable case description and the assembler that turns the
// small instruction language into EVM bytecode.
package main

import (
	"encoding/hex"
	"math/big"

	"github.com/dominant-strategies/go-quai/core/vm"
)

// Instr is one balance-relevant step of a generated contract.
//
//	call|callcode|delegatecall|staticcall  T(arget) V(alue) G(as, "" = all) In(put size)
//	create|create2                         V Code(init code) Salt
//	selfdestruct                           T(beneficiary)
//	etx                                    T V GL Tip Fee
//	convert                                T V GL
//	sstore                                 K X
//	return                                 N (size of the returned zero bytes)
//	stop | revert | invalid | burn (a loop that runs out of gas)
//	stopifvalue                            STOP when CALLVALUE != 0, fall through otherwise
type Instr struct {
	Op   string  `json:"op"`
	T    string  `json:"t,omitempty"`
	V    string  `json:"v,omitempty"`
	G    string  `json:"g,omitempty"`
	In   int     `json:"in,omitempty"`
	Code []Instr `json:"code,omitempty"`
	Salt string  `json:"salt,omitempty"`
	GL   string  `json:"gl,omitempty"`
	Tip  string  `json:"tip,omitempty"`
	Fee  string  `json:"fee,omitempty"`
	K    string  `json:"k,omitempty"`
	X    string  `json:"x,omitempty"`
	N    int     `json:"n,omitempty"`
}

type Acct struct {
	Addr    string            `json:"addr"` // 40 hex digits
	Bal     string            `json:"bal"`
	Nonce   uint64            `json:"nonce,omitempty"`
	Code    []Instr           `json:"code,omitempty"`
	Storage map[string]string `json:"storage,omitempty"` // committed storage (hex key -> hex value)
}

type Case struct {
	ID   int    `json:"id"`
	Note string `json:"note"`
	// environment
	PTN       uint64 `json:"ptn"`
	Block     uint64 `json:"block"`
	BaseFee   string `json:"basefee"`
	StateSize string `json:"statesize"`
	BlockGas  uint64 `json:"blockgas"`
	Pool      uint64 `json:"pool"`
	Elig      bool   `json:"elig"` // answer of CheckIfEtxEligible
	ACL       bool   `json:"acl"`  // access-list enforcement on (the message then lists every known address)
	ALDrop    int    `json:"aldrop,omitempty"` // >0: leave entry (ALDrop mod length) out of the access list
	Accts     []Acct `json:"accts"`
	// message
	Inbound bool    `json:"inbound"` // inbound ETX (From is ignored: the zone's zero address)
	From    string  `json:"from"`
	To      string  `json:"to"` // "" = contract creation
	Value   string  `json:"value"`
	Gas     uint64  `json:"gas"`
	Price   string  `json:"price"`
	Nonce   uint64  `json:"nonce"`
	Data    string  `json:"data,omitempty"` // hex; for a creation the init code is Init
	Init    []Instr `json:"init,omitempty"`
	// block shape: the messages applied before this one on the SAME StateDB, with only Finalize(true)
	// in between (as Process / the worker do inside one block; a message refused with a consensus error
	// is rolled back to the snapshot taken in front of it, as worker.commitTransaction does).  Only the
	// message fields (and Note, ALDrop, RelNonce) of these entries are used; environment and accounts
	// are those of this case.
	Before   []*Case `json:"before,omitempty"`
	RelNonce bool    `json:"relnonce,omitempty"` // Nonce is an offset to the sender's nonce in the state when the message is applied
	// Between: what happens to the StateDB between two messages of a block (after Finalize): "" = nothing
	// (one StateDB, as inside Process), "reload" = Commit(true) and a fresh StateDB opened at the new root
	// (the next block / a restart: nothing cached survives), "copy" = the block goes on on StateDB.Copy()
	// (the worker's pending-block copies) and the original must stay as it was.
	Between string `json:"between,omitempty"`
	// Loc: the zone this node runs ([region, zone]; empty = [0,0]).  Addresses in a case are written for
	// zone [0,0] (first byte 0x00 = this zone, 0x01 = another zone) and translated by addrBytes into the
	// zone of the case: every case can be run at every location.
	Loc []int `json:"loc,omitempty"`
}

func bi(s string) *big.Int {
	if s == "" {
		return new(big.Int)
	}
	x, ok := new(big.Int).SetString(s, 10)
	if !ok {
		panic("bad number " + s)
	}
	return x
}

func addrBytes(h string) []byte {
	b, err := hex.DecodeString(h)
	if err != nil || len(b) != 20 {
		panic("bad address " + h)
	}
	// canonical form -> the location the harness currently runs (setLoc): first byte 0x00 = an address of
	// this zone (also the zero address, the precompiles, the lockup contract), 0x01 = an address of another
	// zone.  Addresses computed from real ones (CREATE2) already carry the real prefix and pass unchanged
	// (no location with prefix 0x00 / 0x01 other than [0,0] is ever used).
	switch b[0] {
	case 0x00:
		b[0] = loc.BytePrefix()
	case 0x01:
		b[0] = therePrefix()
	}
	return b
}

// therePrefix: first byte of the addresses of "another zone" for the current location
func therePrefix() byte {
	if loc.BytePrefix() == 0x00 {
		return 0x01
	}
	return 0x00 // seen from any other zone, [0,0] is the other zone (another region for [1,x] / [2,x])
}

// ---------- assembler ----------

type asmBuf struct{ b []byte }

func (a *asmBuf) op(o vm.OpCode) { a.b = append(a.b, byte(o)) }
func (a *asmBuf) push(x *big.Int) {
	w := x.Bytes()
	if len(w) == 0 {
		w = []byte{0}
	}
	if len(w) > 32 {
		w = w[len(w)-32:]
	}
	a.b = append(a.b, byte(vm.PUSH1)+byte(len(w)-1))
	a.b = append(a.b, w...)
}
func (a *asmBuf) pushN(n int64) { a.push(big.NewInt(n)) }
func (a *asmBuf) pushAddr(h string) {
	a.b = append(a.b, byte(vm.PUSH20))
	a.b = append(a.b, addrBytes(h)...)
}
func (a *asmBuf) gas(g string) {
	if g == "" {
		a.op(vm.GAS)
	} else {
		a.push(bi(g))
	}
}

// memInit stores blob at memory offset 0 with PUSH32/MSTORE chunks.
func (a *asmBuf) memInit(blob []byte) {
	for off := 0; off < len(blob); off += 32 {
		chunk := make([]byte, 32)
		copy(chunk, blob[off:])
		a.b = append(a.b, byte(vm.PUSH32))
		a.b = append(a.b, chunk...)
		a.pushN(int64(off))
		a.op(vm.MSTORE)
	}
}

func assemble(code []Instr) []byte {
	a := &asmBuf{}
	for _, in := range code {
		switch in.Op {
		case "call", "callcode":
			// stack (top first): gas addr value inOff inSize retOff retSize
			a.pushN(0)
			a.pushN(0)
			a.pushN(int64(in.In))
			a.pushN(0)
			a.push(bi(in.V))
			a.pushAddr(in.T)
			a.gas(in.G)
			if in.Op == "call" {
				a.op(vm.CALL)
			} else {
				a.op(vm.CALLCODE)
			}
			a.op(vm.POP)
		case "delegatecall", "staticcall":
			a.pushN(0)
			a.pushN(0)
			a.pushN(int64(in.In))
			a.pushN(0)
			a.pushAddr(in.T)
			a.gas(in.G)
			if in.Op == "delegatecall" {
				a.op(vm.DELEGATECALL)
			} else {
				a.op(vm.STATICCALL)
			}
			a.op(vm.POP)
		case "create":
			init := assemble(in.Code)
			a.memInit(init)
			a.pushN(int64(len(init)))
			a.pushN(0)
			a.push(bi(in.V))
			a.op(vm.CREATE)
			a.op(vm.POP)
		case "create2":
			init := assemble(in.Code)
			a.memInit(init)
			a.push(bi(in.Salt))
			a.pushN(int64(len(init)))
			a.pushN(0)
			a.push(bi(in.V))
			a.op(vm.CREATE2)
			a.op(vm.POP)
		case "selfdestruct":
			a.pushAddr(in.T)
			a.op(vm.SELFDESTRUCT)
		case "etx":
			// stack (top first): temp addr value gasLimit tip feeCap inOff inSize alOff alSize
			a.pushN(0)
			a.pushN(0)
			a.pushN(0)
			a.pushN(0)
			a.push(bi(in.Fee))
			a.push(bi(in.Tip))
			a.push(bi(in.GL))
			a.push(bi(in.V))
			a.pushAddr(in.T)
			a.pushN(0)
			a.op(vm.ETX)
			a.op(vm.POP)
		case "convert":
			// stack (top first): temp addr value gasLimit
			a.push(bi(in.GL))
			a.push(bi(in.V))
			a.pushAddr(in.T)
			a.pushN(0)
			a.op(vm.CONVERT)
			a.op(vm.POP)
		case "sstore":
			a.push(bi(in.X))
			a.push(bi(in.K))
			a.op(vm.SSTORE)
		case "return":
			a.pushN(int64(in.N))
			a.pushN(0)
			a.op(vm.RETURN)
		case "stop":
			a.op(vm.STOP)
		case "stopifvalue":
			// CALLVALUE ISZERO PUSH2 dest JUMPI STOP JUMPDEST
			dest := len(a.b) + 7
			a.op(vm.CALLVALUE)
			a.op(vm.ISZERO)
			a.b = append(a.b, byte(vm.PUSH2), byte(dest>>8), byte(dest))
			a.op(vm.JUMPI)
			a.op(vm.STOP)
			a.op(vm.JUMPDEST)
		case "revert":
			a.pushN(0)
			a.pushN(0)
			a.op(vm.REVERT)
		case "invalid":
			a.b = append(a.b, 0xfe)
		case "burn":
			// JUMPDEST PUSH1 0 JUMP : spins until out of gas
			a.b = append(a.b, byte(vm.JUMPDEST))
			dest := len(a.b) - 1
			a.pushN(int64(dest))
			a.op(vm.JUMP)
		default:
			panic("instr " + in.Op)
		}
	}
	return a.b
}

// C02 harness, part 5: block-shaped cases.  A block is a world (environment + accounts) and 2-4
// messages applied to ONE StateDB through ONE EVM with only Finalize(true) in between (no Commit, no
// reload), as Process / the worker do.  Every prefix of the block is a case of its own (the last
// message is the one checked per transaction; the earlier ones are replayed in front of it), so each
// transaction of the block gets the per-transaction monitors and its own comparison with the model,
// and every case additionally gets the block-level ones (blockMonitors, Model/C02.v blk_ok).
package main

import (
	"encoding/hex"
	"fmt"

	"github.com/dominant-strategies/go-quai/common"
	"github.com/dominant-strategies/go-quai/crypto"

	"verifharness/hlib"
)

// blockCases: the prefixes P1 = [m1], P2 = [m1, m2], ... of the block as cases
var blockSeq int

func blockCases(w *Case, ms []*Case) []*Case {
	// what happens to the StateDB between the messages: corpus blocks rotate (2 of 4 stay on one StateDB),
	// generated blocks have drawn theirs already
	if w.Between == "" {
		w.Between = []string{"", "reload", "", "copy"}[blockSeq%4]
		blockSeq++
	} else if w.Between == "same" {
		w.Between = ""
	}
	var out []*Case
	for i, m := range ms {
		m.RelNonce = true
		c := materialize(w, m)
		c.Note = fmt.Sprintf("block: %s [%d/%d] %s", w.Note, i+1, len(ms), m.Note)
		c.Before = ms[:i:i]
		out = append(out, c)
	}
	return out
}

func msgTo(note, from, to, value string) *Case {
	return &Case{Note: note, From: from, To: to, Value: value, Gas: 1500000, Price: "2"}
}
func msgInbound(note, to, value string) *Case {
	return &Case{Note: note, Inbound: true, To: to, Value: value, Gas: 500000, Price: "0"}
}

func create2Addr(creator, salt string, init []Instr) string {
	var s [32]byte
	bi(salt).FillBytes(s[:])
	a := crypto.CreateAddress2(common.BytesToAddress(addrBytes(creator), loc), s, crypto.Keccak256(assemble(init)), loc)
	return hex.EncodeToString(a.Bytes())
}

// ---------- destroy an account while it holds value, then bring the address back ----------

// A world in which the first message leaves account A self-destructed AND holding `refund` wei when the
// transaction ends (Finalize removes it: the wei are burnt), by one of several routes; driver = the
// contract the first message has to call.  A sits at the CREATE2 address of factory F (salt, init), so a
// later message can also re-create it by redeploying.
type resurrect struct {
	world   *Case
	a       string // the account that is destroyed
	first   *Case  // the message that destroys it
	factory string
	route   string
}

const (
	cDriver  = 41
	cOther   = 42
	cFactory = 43
	cRelay   = 44
	cDonor   = 45
	cAgain   = 46
)

var destroyRoutes = []string{"refunded by CALL", "refunded as SELFDESTRUCT beneficiary", "created and destroyed by init code, then funded", "destroyed through DELEGATECALL, refunded by re-entry"}

// addResurrect adds the accounts of the scenario to world w (contract numbers 41..46 are reserved for it).
func addResurrect(w *Case, route int, refund string, r *hlib.Rng) *resurrect {
	init := []Instr{{Op: "return", N: 2}}
	if route == 2 {
		init = []Instr{selfd(eoa(3))}
	}
	salt := grindSalt(r, contract(cFactory), assemble(init))
	a := create2Addr(contract(cFactory), salt, init)
	rs := &resurrect{world: w, a: a, factory: contract(cFactory), route: destroyRoutes[route]}
	redeploy := Instr{Op: "create2", V: "3", Code: init, Salt: salt}
	acctA := func(code ...Instr) Acct {
		return Acct{Addr: a, Bal: "300", Nonce: 1, Code: code, Storage: map[string]string{"01": "01"}}
	}
	switch route {
	case 0: // A self-destructs when called without value and just stops when called with value
		w.with(acctA(Instr{Op: "stopifvalue"}, selfd(eoa(3))),
			ca(cDriver, rich, call(a, "0"), call(a, refund), stop()),
			ca(cFactory, rich, redeploy, stop()))
	case 1: // A self-destructs; another contract then self-destructs with A as beneficiary (no code of A runs)
		w.with(acctA(selfd(eoa(3))),
			ca(cOther, refund, selfd(a)),
			ca(cDriver, rich, call(a, "0"), call(contract(cOther), "0"), stop()),
			ca(cFactory, rich, redeploy, stop()))
	case 2: // the factory creates A with init code that self-destructs, then sends value to the (codeless, marked) account
		w.with(ca(cFactory, rich, redeploy, call(a, refund), stop()),
			ca(cDriver, rich, call(contract(cFactory), "0"), stop()))
	default: // A runs SELFDESTRUCT through DELEGATECALL-ed code and is paid afterwards by a contract it calls
		w.with(acctA(Instr{Op: "stopifvalue"}, Instr{Op: "delegatecall", T: contract(cOther)}, call(contract(cRelay), "0"), stop()),
			ca(cOther, "0", selfd(eoa(3))),
			ca(cRelay, rich, call(a, refund), stop()),
			ca(cDriver, rich, call(a, "0"), stop()),
			ca(cFactory, rich, redeploy, stop()))
	}
	w.with(ca(cDonor, "40", selfd(a)), ca(cAgain, rich, call(a, "7"), call(a, "2"), stop()))
	if !w.has(eoa(3)) {
		w.with(ea(3, "0"))
	}
	rs.first = msgTo("account A is self-destructed and ends the transaction holding value ("+rs.route+")", eoa(1), contract(cDriver), "0")
	return rs
}

var recreateRoutes = []string{"plain transfer", "nested CALL with value", "inbound ETX", "CREATE2 redeploy", "SELFDESTRUCT beneficiary", "transfer of 0", "transaction-level Suicide beneficiary"}

// recreate: a message that brings the address of A back into the state
func (rs *resurrect) recreate(how int, sender string) *Case {
	note := "the destroyed address comes back: " + recreateRoutes[how]
	switch how {
	case 0:
		return msgTo(note, sender, rs.a, "7")
	case 1:
		return msgTo(note, sender, contract(cAgain), "0")
	case 2:
		return msgInbound(note, rs.a, "900")
	case 3:
		return msgTo(note, sender, rs.factory, "0")
	case 4:
		return msgTo(note, sender, contract(cDonor), "0")
	case 5:
		return msgTo(note, sender, rs.a, "0")
	default:
		m := msgTo(note, sender, sender, "0")
		m.Data = suicideData(rs.a)
		return m
	}
}

func blockWorld(note string, i int) *Case {
	w := baseCase(note)
	w.with(ea(1, rich), ea(2, rich))
	if i%2 == 1 {
		w.PTN = ptnPre
	}
	w.ACL = i%3 == 0
	return w
}

func blockCorpus() []*Case {
	var cs []*Case
	n := 0
	// every route of destruction x every route of re-creation, followed by one more transfer to the address
	for d := range destroyRoutes {
		for h := range recreateRoutes {
			w := blockWorld(fmt.Sprintf("A %s; then %s", destroyRoutes[d], recreateRoutes[h]), n)
			rs := addResurrect(w, d, "5000", hlib.NewRng(uint64(500+n)))
			ms := []*Case{rs.first, rs.recreate(h, eoa(2)), msgTo("one more transfer to the address", eoa(1), rs.a, "11")}
			if h == 5 {
				ms = []*Case{rs.first, rs.recreate(5, eoa(2)), rs.recreate(0, eoa(2)), rs.recreate(3, eoa(1))}
			}
			// P1 (the destroying message alone) once per route of destruction; the rest only with their prefix
			all := blockCases(w, ms)
			if h > 0 {
				all = all[1:]
			}
			cs = append(cs, all...)
			n++
		}
	}
	// the same destruction without any value left on the account (nothing to resurrect), and twice in a row
	{
		w := blockWorld("A destroyed holding nothing, redeployed, destroyed again", 0)
		rs := addResurrect(w, 0, "0", hlib.NewRng(900))
		cs = append(cs, blockCases(w, []*Case{rs.first, rs.recreate(3, eoa(2)), rs.recreate(0, eoa(1))})[1:]...)
		w = blockWorld("A created and destroyed by init code in two consecutive messages, funded both times", 1)
		rs = addResurrect(w, 2, "5000", hlib.NewRng(901))
		cs = append(cs, blockCases(w, []*Case{rs.first, msgTo("again", eoa(2), contract(cDriver), "0"), rs.recreate(0, eoa(1))})[1:]...)
	}
	// other block shapes
	add := func(w *Case, ms ...*Case) { cs = append(cs, blockCases(w, ms)[1:]...) }
	{
		w := blockWorld("two senders, three transfers", 0).with(ea(3, "5"))
		add(w, msgTo("transfer", eoa(1), eoa(3), "5"), msgTo("transfer", eoa(2), eoa(3), "6"), msgTo("transfer", eoa(1), fresh(1), "7"))
		w = blockWorld("a refused message (gas below intrinsic gas: the gas purchase is rolled back) between two transfers", 1).with(ea(3, "5"))
		bad := msgTo("refused", eoa(1), eoa(3), "1")
		bad.Gas = 20000
		add(w, msgTo("transfer", eoa(1), eoa(3), "5"), bad, msgTo("transfer", eoa(1), eoa(3), "6"))
		w = blockWorld("the block's gas pool runs dry", 2).with(ea(3, "5"), ca(1, "50", call(eoa(3), "1"), stop()))
		w.Pool = 2400000
		add(w, msgTo("call", eoa(1), contract(1), "0"), msgTo("gas limit above what is left of the pool", eoa(2), contract(1), "0"), msgTo("transfer that fits", eoa(1), eoa(3), "6"))
	}
	{
		// ETX cache between messages of one EVM: sends inside a failed transaction, inside failed frames, then a clean message
		w := blockWorld("sends in a failed transaction and in failed frames, then a plain message on the same EVM", 0).with(
			ca(1, rich, append(sendSet(), revert())...),
			ca(2, rich, invoke("delegatecall", contract(3), "450000"), invoke("callcode", contract(3), "450000"), etxI(extQuai(3), "7", "21000", "0", "0"), stop()),
			ca(3, rich, append(sendSet(), Instr{Op: "invalid"})...), ea(3, "0"))
		add(w, msgTo("top frame sends and reverts", eoa(1), contract(1), "0"), msgTo("sends inside failing frames, one survives", eoa(2), contract(2), "0"),
			msgTo("plain transfer", eoa(1), eoa(3), "5"), msgTo("sends again", eoa(2), contract(2), "0"))
	}
	for i, ptn := range []uint64{ptnPost, ptnPre} {
		w := blockWorld(fmt.Sprintf("a contract self-destructs in two consecutive messages (ptn %d)", ptn), 2+i).with(
			ca(1, "0", call(contract(2), "5"), call(contract(2), "7"), stop()), ca(2, "100", selfd(eoa(3))), ea(3, "0"))
		w.PTN = ptn
		add(w, msgTo("contract 2 self-destructs (called twice)", eoa(1), contract(1), "0"),
			msgTo("the same calls hit an account that is gone", eoa(2), contract(1), "0"), msgTo("transfer to it", eoa(1), contract(2), "3"))
	}
	{
		w := blockWorld("a factory creates by CREATE in consecutive messages; creation with code-store out of gas keeps its endowment", 1).with(
			ca(1, "500", Instr{Op: "create", V: "20", Code: []Instr{call(eoa(3), "4"), {Op: "return", N: 3}}},
				Instr{Op: "create", V: "5", Code: []Instr{call(eoa(3), "1"), {Op: "return", N: 32000}}}, stop()), ea(3, "0"))
		oog := &Case{Note: "top-level creation: code storage out of gas", From: eoa(2), To: "", Value: "77", Gas: 400000, Price: "2",
			Init: []Instr{call(eoa(3), "7"), {Op: "return", N: 24000}}}
		add(w, msgTo("factory", eoa(1), contract(1), "0"), oog, msgTo("factory again", eoa(2), contract(1), "0"))
		w = blockWorld("inbound ETXs and a transaction spending what arrived", 0).with(ea(3, "0"), ca(1, "5", call(eoa(3), "3"), revert()))
		spend := msgTo("the recipient spends it", eoa(3), eoa(2), "100")
		spend.Gas = 21000
		add(w, msgInbound("inbound ETX to an EOA", eoa(3), "900000"), spend, msgInbound("inbound ETX to a contract that reverts (value lost)", contract(1), "900"),
			msgInbound("inbound ETX to a new account", fresh(3), "900"))
		w = blockWorld("a sender self-destructs at transaction level, is paid by an inbound ETX and sends again", 1).with(ea(3, "0"))
		su := msgTo("transaction-level Suicide", eoa(2), eoa(2), "0")
		su.Data = suicideData(eoa(3))
		spend2 := msgTo("the re-created sender sends", eoa(2), eoa(3), "100")
		spend2.Gas = 21000
		add(w, su, msgInbound("inbound ETX to the destroyed sender", eoa(2), "900000"), spend2)
	}
	return cs
}

// ---------- random blocks ----------

func genBlock(r *hlib.Rng) []*Case {
	w, g := genWorld(r)
	w.Between = []string{"same", "reload", "copy"}[hlib.NewRng(uint64(r.Intn(1<<30))).Pick(55, 30, 15)]
	if !w.has(eoa(2)) || r.Chance(70) {
		for i := range w.Accts {
			if w.Accts[i].Addr == eoa(2) {
				w.Accts[i].Bal = rich // a second sender that can pay
			}
		}
	}
	sender := func() string {
		if r.Chance(35) {
			return eoa(2)
		}
		return eoa(1)
	}
	random := func() *Case {
		m := &Case{Note: "generated"}
		genMessage(g, w, m)
		if !m.Inbound && m.From == eoa(1) {
			m.From = sender()
			if m.To == eoa(1) && m.Data != "" {
				m.To = m.From // transaction-level Suicide is addressed to the sender
			}
		}
		return m
	}
	var ms []*Case
	if r.Chance(45) {
		// destruction of a funded account and its re-creation, with generated messages around
		w.Note = "generated, with an account destroyed while holding value and brought back"
		refund := fmt.Sprint(1 + r.Intn(100000))
		if r.Chance(10) {
			refund = "0"
		}
		rs := addResurrect(w, r.Intn(len(destroyRoutes)), refund, r)
		rs.first.From = sender()
		if r.Chance(30) {
			ms = append(ms, random())
		}
		ms = append(ms, rs.first)
		if r.Chance(30) {
			ms = append(ms, random())
		}
		ms = append(ms, rs.recreate(r.Pick(25, 15, 12, 22, 10, 6, 10), sender()))
		if len(ms) < 4 && r.Chance(50) {
			if r.Chance(50) {
				ms = append(ms, rs.recreate(r.Pick(30, 20, 10, 30, 10, 0, 0), sender()))
			} else {
				ms = append(ms, random())
			}
		}
		for _, m := range ms {
			if m.Price != "0" {
				m.Price = g.price
			}
		}
	} else {
		n := 2 + r.Pick(45, 35, 20)
		for i := 0; i < n; i++ {
			ms = append(ms, random())
		}
		if r.Chance(40) {
			ms[len(ms)-1] = ms[r.Intn(len(ms)-1)].clone() // the same message again (contracts it destroyed are gone now)
		}
	}
	return blockCases(w, ms)
}

func (c *Case) clone() *Case {
	d := *c
	return &d
}

// C02 harness, part 4: the fixed corpus of targeted cases and the random generator.
package main

import (
	"encoding/hex"
	"fmt"
	"math/big"
	"strings"

	"github.com/dominant-strategies/go-quai/common"
	"github.com/dominant-strategies/go-quai/crypto"
	"github.com/dominant-strategies/go-quai/params"

	"verifharness/hlib"
)

func hx(prefix byte, second byte, i int) string {
	b := make([]byte, 20)
	b[0], b[1], b[2] = prefix, second, 0xee
	b[18], b[19] = byte(i>>8), byte(i)
	return hex.EncodeToString(b)
}
func eoa(i int) string      { return hx(0x00, 0x10, i) }
func contract(i int) string { return hx(0x00, 0x20, i) }
func fresh(i int) string    { return hx(0x00, 0x30, i) }
func extQuai(i int) string  { return hx(0x01, 0x00, i) } // another zone, Quai ledger
func qiHere(i int) string   { return hx(0x00, 0x80, i) } // this zone, Qi ledger (conversion)
func qiThere(i int) string  { return hx(0x01, 0x80, i) }
func precompile(i int) string {
	b := make([]byte, 20)
	b[19] = byte(i)
	return hex.EncodeToString(b)
}

func poolAddrs() []string {
	return []string{eoa(1), eoa(2), eoa(3), fresh(1), fresh(2), fresh(3), extQuai(1), extQuai(2), extQuai(3), qiHere(1), qiThere(1), zeroHex}
}

const lockupHex = "000000000000000000000000000000000000000a"
const kquaiHex = "00640d82ef6552085e494df2a2eaec18d8215913"

const (
	ptnPost = 2000000 // after SelfDestructRefundForkBlock
	ptnPre  = 1800000 // before it, conversions allowed
	ptnHold = 1760000 // before it, inside the KQuai hold interval (conversions refused)
)

var rich = "1000000000000000000000" // 1e21
var minConv = params.MinQuaiConversionAmount.String()

func baseCase(note string) *Case {
	return &Case{Note: note, PTN: ptnPost, Block: params.MaxCodeSizeForkHeight + 10, BaseFee: "1", StateSize: "1048576",
		BlockGas: 30000000, Pool: 30000000, Elig: true,
		From: eoa(1), Value: "0", Gas: 1000000, Price: "2"}
}

func (c *Case) with(accts ...Acct) *Case { c.Accts = append(c.Accts, accts...); return c }
func ea(i int, bal string) Acct          { return Acct{Addr: eoa(i), Bal: bal} }
func ca(i int, bal string, code ...Instr) Acct {
	return Acct{Addr: contract(i), Bal: bal, Nonce: 1, Code: code,
		Storage: map[string]string{"01": "01", "02": "01", "03": "01"}}
}
func call(t, v string) Instr             { return Instr{Op: "call", T: t, V: v} }
func callG(t, v, g string) Instr         { return Instr{Op: "call", T: t, V: v, G: g} }
func stop() Instr                        { return Instr{Op: "stop"} }
func revert() Instr                      { return Instr{Op: "revert"} }
func selfd(t string) Instr               { return Instr{Op: "selfdestruct", T: t} }
func etxI(t, v, gl, tip, fee string) Instr { return Instr{Op: "etx", T: t, V: v, GL: gl, Tip: tip, Fee: fee} }

func suicideData(ben string) string { return hex.EncodeToString(append([]byte("Suicide"), addrBytes(ben)...)) }

func corpus(tier string) []*Case {
	var cs []*Case
	add := func(c *Case) { cs = append(cs, c) }
	tx := func(note, to, value string, accts ...Acct) *Case {
		c := baseCase(note)
		c.To, c.Value = to, value
		c.with(ea(1, rich)).with(accts...)
		return c
	}
	// plain transfers and the preCheck / buyGas refusals
	add(tx("transfer EOA->EOA", eoa(2), "5", ea(2, "7")))
	add(tx("transfer to a non-existent account (new-account gas)", fresh(1), "5"))
	add(tx("transfer of 0 to a non-existent account", fresh(1), "0"))
	{
		c := tx("value above balance minus gas: ErrInsufficientFunds", eoa(2), rich)
		add(c)
		c = tx("gas below intrinsic gas: the gas purchase stays debited, (nil, err)", eoa(2), "1")
		c.Gas = 20000
		add(c)
		c = tx("price below base fee", eoa(2), "1")
		c.BaseFee, c.Price = "10", "9"
		add(c)
		c = tx("nonce too high", eoa(2), "1")
		c.Nonce = 3
		add(c)
		c = tx("sender has code", eoa(2), "1")
		c.From = contract(1)
		c.with(ca(1, rich, stop()))
		add(c)
		c = tx("block gas pool smaller than the gas limit", eoa(2), "1")
		c.Pool = 500000
		add(c)
	}
	// guards of nested calls
	add(tx("CALL with value above the contract's balance", contract(1), "0", ca(1, "10", call(eoa(2), "11"), call(eoa(2), "10"), stop()), ea(2, "0")))
	add(tx("CALLCODE with value above balance, then within", contract(1), "0",
		ca(1, "10", Instr{Op: "callcode", T: contract(2), V: "11"}, Instr{Op: "callcode", T: contract(2), V: "10"}, stop()),
		ca(2, "0", call(eoa(2), "3"), stop()), ea(2, "0")))
	add(tx("nested frames, the middle one reverts after moving value", contract(1), "100",
		ca(1, "50", call(contract(2), "30"), call(eoa(2), "1"), stop()),
		ca(2, "5", call(contract(3), "20"), call(eoa(2), "7"), revert()),
		ca(3, "0", call(eoa(2), "2"), stop()), ea(2, "0")))
	add(tx("top frame reverts", contract(1), "9", ca(1, "50", call(eoa(2), "30"), revert()), ea(2, "0")))
	add(tx("callee runs out of gas (small gas argument)", contract(1), "0",
		ca(1, "50", callG(contract(2), "5", "3000"), call(eoa(2), "1"), stop()),
		ca(2, "0", call(eoa(2), "2"), call(eoa(2), "2"), Instr{Op: "burn"}), ea(2, "0")))
	add(tx("DELEGATECALL / STATICCALL around value moves", contract(1), "0",
		ca(1, "50", Instr{Op: "delegatecall", T: contract(2)}, Instr{Op: "staticcall", T: contract(2)}, stop()),
		ca(2, "5", call(eoa(2), "3"), stop()), ea(2, "0")))
	add(tx("precompiles and the lockup contract as CALL targets, with value", contract(1), "0",
		ca(1, "50", call(precompile(2), "3"), call(precompile(4), "0"), Instr{Op: "call", T: lockupHex, V: "2", In: 20},
			Instr{Op: "call", T: lockupHex, V: "0", In: 7}, Instr{Op: "staticcall", T: precompile(1)}, stop())))
	add(tx("top-level call to the lockup contract", lockupHex, "3"))
	add(tx("top-level call to a precompile with value", precompile(2), "3"))
	// self-destruct
	for _, ptn := range []uint64{ptnPost, ptnPre} {
		c := tx(fmt.Sprintf("SELFDESTRUCT to another account, contract called twice (ptn %d)", ptn), contract(1), "0",
			ca(1, "0", call(contract(2), "5"), call(contract(2), "7"), stop()), ca(2, "100", selfd(eoa(2))), ea(2, "0"))
		c.PTN = ptn
		add(c)
		c = tx(fmt.Sprintf("SELFDESTRUCT to self (ptn %d)", ptn), contract(1), "0",
			ca(1, "0", call(contract(2), "5"), call(contract(2), "7"), call(eoa(2), "1"), stop()), ca(2, "100", selfd(contract(2))), ea(2, "0"))
		c.PTN = ptn
		add(c)
		c = tx(fmt.Sprintf("SELFDESTRUCT inside a reverted frame, then again (ptn %d)", ptn), contract(1), "0",
			ca(1, "0", call(contract(2), "0"), call(contract(3), "0"), stop()),
			ca(2, "10", call(contract(3), "1"), revert()), ca(3, "100", selfd(fresh(2))))
		c.PTN = ptn
		add(c)
		c = tx(fmt.Sprintf("transaction-level Suicide to another account (ptn %d)", ptn), eoa(1), "0", ea(2, "1"))
		c.Data = suicideData(eoa(2))
		c.PTN = ptn
		add(c)
	}
	{
		c := tx("transaction-level Suicide to self", eoa(1), "0")
		c.Data = suicideData(eoa(1))
		add(c)
		c = tx("transaction-level Suicide to an out-of-zone beneficiary", eoa(1), "0")
		c.Data = suicideData(extQuai(1))
		add(c)
		c = tx("SELFDESTRUCT via DELEGATECALL (context is the caller)", contract(1), "0",
			ca(1, "40", Instr{Op: "delegatecall", T: contract(2)}, stop()), ca(2, "100", selfd(eoa(2))), ea(2, "0"))
		add(c)
		c = tx("value sent to an account after it self-destructed (deleted by Finalize)", contract(1), "0",
			ca(1, "40", call(contract(2), "0"), call(contract(2), "9"), stop()), ca(2, "100", selfd(eoa(2))), ea(2, "0"))
		add(c)
	}
	// kQuai setting address
	for _, d := range []string{"freeze", "bogus", "unfreeze"} {
		c := baseCase("kQuai setting address: " + d)
		c.From, c.To, c.Data = kquaiHex, eoa(2), hex.EncodeToString([]byte(d))
		c.with(Acct{Addr: kquaiHex, Bal: rich}, ea(2, "0"))
		add(c)
	}
	{
		c := baseCase("kQuai setting address after the first year")
		c.From, c.To, c.Data, c.Block = kquaiHex, eoa(2), hex.EncodeToString([]byte("freeze")), params.BlocksPerYear+5
		c.with(Acct{Addr: kquaiHex, Bal: rich}, ea(2, "0"))
		add(c)
	}
	// creations
	{
		c := baseCase("top-level creation with endowment")
		c.To, c.Value, c.Init = "", "77", []Instr{call(eoa(2), "7"), {Op: "return", N: 10}}
		c.with(ea(1, rich), ea(2, "0"))
		add(c)
		c = baseCase("top-level creation: code storage out of gas (failed, NOT reverted)")
		c.To, c.Value, c.Gas, c.Init = "", "77", 400000, []Instr{call(eoa(2), "7"), {Op: "return", N: 24000}}
		c.with(ea(1, rich), ea(2, "0"))
		add(c)
		c = baseCase("top-level creation: init code reverts")
		c.To, c.Value, c.Init = "", "77", []Instr{call(eoa(2), "7"), revert()}
		c.with(ea(1, rich), ea(2, "0"))
		add(c)
		c = baseCase("top-level creation: endowment above balance")
		c.To, c.Value, c.Init = "", rich, []Instr{stop()}
		c.with(ea(1, rich))
		add(c)
		add(tx("CREATE with endowment above / within balance; nested code-store out of gas", contract(1), "0",
			ca(1, "50", Instr{Op: "create", V: "51", Code: []Instr{stop()}},
				Instr{Op: "create", V: "20", Code: []Instr{call(eoa(2), "4"), {Op: "return", N: 3}}},
				Instr{Op: "create", V: "5", Code: []Instr{call(eoa(2), "1"), {Op: "return", N: 32000}}},
				Instr{Op: "create", V: "6", Code: []Instr{call(eoa(2), "1"), {Op: "return", N: 40000}}}, stop()), ea(2, "0")))
		add(tx("init code self-destructs", contract(1), "0",
			ca(1, "50", Instr{Op: "create", V: "20", Code: []Instr{selfd(eoa(2))}}, stop()), ea(2, "0")))
	}
	// value leaving the zone
	for _, elig := range []bool{true, false} {
		c := tx(fmt.Sprintf("top-level transfer to another zone (eligible=%v)", elig), extQuai(1), "500")
		c.Elig = elig
		add(c)
		c = tx(fmt.Sprintf("ETX opcode, then revert of a later frame (eligible=%v)", elig), contract(1), "0",
			ca(1, "100000000", etxI(extQuai(1), "1000", "30000", "1", "2"), call(contract(2), "0"), etxI(extQuai(2), "50", "21000", "0", "0"), stop()),
			ca(2, "100000000", etxI(extQuai(3), "70", "21000", "1", "1"), revert()))
		c.Elig = elig
		add(c)
	}
	add(tx("top-level transfer to an address of another zone that translates to a precompile of this zone", "0100000000000000000000000000000000000002", "500"))
	add(tx("top-level conversion (Qi address in this zone)", qiHere(1), minConv))
	add(tx("top-level conversion below the minimum", qiHere(1), "5"))
	add(tx("top-level send to a Qi address of another zone", qiThere(1), "5"))
	{
		c := tx("top-level transfer to another zone with too little gas for the ETX", extQuai(1), "500")
		c.Gas = 30000
		add(c)
		c = tx("CONVERT opcode", contract(1), "0", ca(1, rich, Instr{Op: "convert", T: qiHere(1), V: minConv, GL: "30000"},
			Instr{Op: "convert", T: qiHere(1), V: "5", GL: "30000"}, Instr{Op: "convert", T: qiHere(1), V: rich, GL: "30000"}, stop()))
		add(c)
		c = tx("CONVERT opcode inside the KQuai hold interval", contract(1), "0", ca(1, rich, Instr{Op: "convert", T: qiHere(1), V: minConv, GL: "30000"}, stop()))
		c.PTN = ptnHold
		add(c)
		c = tx("ETX opcode: value 0 / above balance / gas limit below TxGas / in-zone target", contract(1), "0",
			ca(1, "1000", etxI(extQuai(1), "0", "21000", "0", "0"), etxI(extQuai(1), "1001", "21000", "0", "0"),
				etxI(extQuai(1), "5", "20999", "0", "0"), etxI(eoa(2), "5", "21000", "0", "0"), etxI(extQuai(1), "5", "21000", "0", "0"), stop()))
		add(c)
		c = tx("nested CALL to another zone", contract(1), "0", ca(1, "1000", call(extQuai(1), "40"), call(extQuai(1), "2000"), call(qiThere(1), "1"), stop()))
		add(c)
	}
	{
		// 1024 nested frames, each moving 1 to itself, until EVM.Call answers ErrDepth
		c := tx("self-recursion down to the call depth limit", contract(1), "0", ca(1, "50", call(contract(1), "1"), stop()))
		c.Gas, c.Pool, c.Price = 5000000000000, 10000000000000, "1"
		if tier != "thorough" {
			// quick tier: the same program starved of gas some 150 frames down (the 1025-deep term is slow to parse)
			c.Note, c.Gas, c.Pool = "self-recursion until the gas runs out", 30000000, 40000000
		}
		add(c)
		init := []Instr{{Op: "return", N: 2}}
		salt := grindSalt(hlib.NewRng(42), contract(1), assemble(init))
		add(tx("CREATE2 twice with the same salt: the second collides", contract(1), "0",
			ca(1, "50", Instr{Op: "create2", V: "3", Code: init, Salt: salt}, Instr{Op: "create2", V: "4", Code: init, Salt: salt}, stop())))
	}
	// refund counter
	add(tx("SSTORE clears give a refund (capped at used/5)", contract(1), "0",
		ca(1, "0", Instr{Op: "sstore", K: "1", X: "0"}, Instr{Op: "sstore", K: "2", X: "0"}, Instr{Op: "sstore", K: "3", X: "0"}, stop())))
	// inbound ETXs
	inb := func(note, to, value string, accts ...Acct) *Case {
		c := baseCase(note)
		c.Inbound, c.To, c.Value, c.Price, c.Gas = true, to, value, "0", 500000
		c.with(accts...)
		return c
	}
	add(inb("inbound ETX to an EOA", eoa(2), "900", ea(2, "1")))
	add(inb("inbound ETX to a new account", fresh(3), "900"))
	add(inb("inbound ETX to a contract that reverts (value lost)", contract(1), "900", ca(1, "5", call(eoa(2), "3"), revert()), ea(2, "0")))
	add(inb("inbound ETX to a contract that forwards part and pays the zero address", contract(1), "900",
		ca(1, "5", call(eoa(2), "3"), call(zeroHex, "4"), stop()), ea(2, "0"), Acct{Addr: zeroHex, Bal: "11"}))
	{
		c := inb("inbound ETX with gas above the limit for ETXs", eoa(2), "900", ea(2, "1"))
		c.Gas = 7000000
		add(c)
		c = inb("inbound ETX creating a contract", zeroHex, "900", ea(2, "0"))
		c.Init = []Instr{call(eoa(2), "7"), {Op: "return", N: 4}}
		add(c)
		c = inb("inbound ETX whose target emits an ETX and self-destructs", contract(1), "900",
			ca(1, "1000", etxI(extQuai(1), "100", "21000", "1", "1"), selfd(eoa(2))), ea(2, "0"))
		add(c)
	}
	cs = append(cs, swallowCorpus()...)
	// access-list enforcement on
	{
		c := tx("access-list enforcement on, every account listed", contract(1), "3",
			ca(1, "50", call(contract(2), "30"), selfd(eoa(2))), ca(2, "5", call(eoa(2), "7"), stop()), ea(2, "0"))
		c.ACL = true
		add(c)
	}
	return cs
}

// ---------- value sent out of the zone inside a frame that fails while the caller carries on ----------

var callKinds = []string{"call", "callcode", "delegatecall", "staticcall"}
var failOps = []string{"revert", "invalid", "burn"}

func convI(t, v, gl string) Instr { return Instr{Op: "convert", T: t, V: v, GL: gl} }

// sendSet: one send of every kind that can append to EVM.ETXCache below the top level: the ETX opcode
// (with and without fee) and the CONVERT opcode.  (A nested CALL to an address outside the zone's Quai
// ledger never reaches EVM.CreateETX: gasCall fails on InternalAndQuaiAddress and the calling frame
// dies; EVM.CreateETX is reachable from the top-level message only.)
func sendSet() []Instr {
	return []Instr{etxI(extQuai(1), "500", "21000", "1", "1"), convI(qiHere(1), minConv, "30000"),
		etxI(extQuai(2), "77", "40000", "0", "0")}
}

// invoke: contract t entered through the given call kind with a bounded amount of gas
func invoke(kind, t, gas string) Instr {
	in := Instr{Op: kind, T: t, G: gas}
	if kind == "call" || kind == "callcode" {
		in.V = "3"
	}
	return in
}

func swallowCorpus() []*Case {
	var cs []*Case
	endow := new(big.Int).Mul(params.MinQuaiConversionAmount, big.NewInt(3)).String()
	mk := func(note string, i int, accts ...Acct) *Case {
		c := baseCase(note)
		c.To, c.Gas = contract(1), 6000000
		c.with(ea(1, rich)).with(accts...)
		// spread over the configurations: fork regime, access-list enforcement
		if i%2 == 1 {
			c.PTN = ptnPre
		}
		c.ACL = i%3 == 0
		return c
	}
	last := etxI(extQuai(3), "7", "21000", "0", "0") // emitted by the surviving outer frame: must be the only ETX
	n := 0
	// A. every call kind x every way of failing: the callee sends, then fails; the caller ignores it
	for _, k := range callKinds {
		drv := []Instr{}
		accts := []Acct{}
		for j, f := range failOps {
			drv = append(drv, invoke(k, contract(2+j), "450000"))
			accts = append(accts, ca(2+j, rich, append(sendSet(), Instr{Op: f})...))
		}
		// ... and once more with the callee starved of gas in the middle of its sends
		drv = append(drv, invoke(k, contract(5), "40000"))
		accts = append(accts, ca(5, rich, append(sendSet(), stop())...))
		drv = append(drv, last, stop())
		cs = append(cs, mk("sends inside a "+strings.ToUpper(k)+" frame that reverts / hits INVALID / runs out of gas; the caller carries on", n,
			append([]Acct{ca(1, rich, drv...)}, accts...)...))
		n++
	}
	// ... and every creation kind (the factory frame survives, the creation inside it fails)
	for _, k := range []string{"create", "create2"} {
		drv := []Instr{}
		accts := []Acct{}
		for j, f := range failOps {
			init := append(sendSet(), Instr{Op: f})
			in := Instr{Op: k, V: endow, Code: init}
			if k == "create2" {
				in.Salt = grindSalt(hlib.NewRng(uint64(100+j)), contract(2+j), assemble(init))
			}
			drv = append(drv, callG(contract(2+j), "0", "900000"))
			accts = append(accts, ca(2+j, rich, in, stop()))
		}
		drv = append(drv, last, stop())
		cs = append(cs, mk("sends inside the init code of a "+strings.ToUpper(k)+" that reverts / hits INVALID / runs out of gas; the factory carries on", n,
			append([]Acct{ca(1, rich, drv...)}, accts...)...))
		n++
	}
	// B. the sends sit in frames that SUCCEED (one per kind, plus a creation), inside an outer frame of
	//    each kind that fails afterwards: the outer revert has to drop what the inner frames recorded
	relay := func(f string) []Instr {
		body := []Instr{}
		for _, k := range callKinds {
			body = append(body, invoke(k, contract(3), "300000"))
		}
		body = append(body, Instr{Op: "create", V: endow, Code: append(sendSet(), Instr{Op: "return", N: 3})},
			etxI(extQuai(1), "9", "21000", "0", "0"), Instr{Op: f})
		return body
	}
	for _, k := range []string{"call", "callcode", "delegatecall"} {
		for _, f := range []string{"revert", "invalid"} {
			cs = append(cs, mk("inner frames of every kind send and succeed, the enclosing "+strings.ToUpper(k)+" frame then fails ("+f+")", n,
				ca(1, rich, invoke(k, contract(2), "3000000"), last, stop()),
				ca(2, rich, relay(f)...), ca(3, rich, append(sendSet(), stop())...)))
			n++
		}
	}
	for _, f := range []string{"revert", "burn"} {
		cs = append(cs, mk("inner frames of every kind send and succeed inside init code that then fails ("+f+")", n,
			ca(1, rich, callG(contract(2), "0", "3000000"), last, stop()),
			ca(2, rich, Instr{Op: "create", V: endow, Code: relay(f)}, stop()), ca(3, rich, append(sendSet(), stop())...)))
		n++
	}
	// C. the same through an inbound ETX, and with an ineligible destination zone
	{
		c := mk("inbound ETX whose target DELEGATECALLs / CALLCODEs code that sends and reverts", 0,
			ca(1, rich, invoke("delegatecall", contract(2), "450000"), invoke("callcode", contract(2), "450000"), last, stop()),
			ca(2, rich, append(sendSet(), revert())...))
		c.Inbound, c.Value, c.Price, c.Gas = true, "900", "0", 3000000
		cs = append(cs, c)
		c = mk("sends to an ineligible zone inside DELEGATECALL / CALLCODE / CALL frames that fail", 2,
			ca(1, rich, invoke("delegatecall", contract(2), "450000"), invoke("callcode", contract(2), "450000"), invoke("call", contract(2), "450000"), last, stop()),
			ca(2, rich, append(sendSet(), Instr{Op: "invalid"})...))
		c.Elig = false
		cs = append(cs, c)
	}
	return cs
}

// ---------- random cases ----------

type gen struct {
	r     *hlib.Rng
	k     int // contracts 1..k
	ptn   uint64
	price string
}

func (g *gen) value() string {
	switch g.r.Pick(35, 40, 8, 10, 7) {
	case 0:
		return "0"
	case 1:
		return fmt.Sprint(1 + g.r.Intn(1000))
	case 2:
		return "1000000000000000000000000000000" // above every balance
	case 3:
		return new(big.Int).Add(params.MinQuaiConversionAmount, big.NewInt(int64(g.r.Intn(1000)))).String()
	default:
		return fmt.Sprint(1000000 + g.r.Intn(1000000))
	}
}

func (g *gen) gasArg() string {
	switch g.r.Pick(75, 10, 15) {
	case 0:
		return ""
	case 1:
		return fmt.Sprint(1 + g.r.Intn(6000))
	default:
		return fmt.Sprint(20000 + g.r.Intn(150000))
	}
}

// target of a call issued by contract self (0 = top level / init code of a top-level creation)
func (g *gen) target(self int) string {
	if self < g.k && g.r.Chance(55) {
		return contract(self + 1 + g.r.Intn(g.k-self))
	}
	switch g.r.Pick(30, 12, 10, 8, 12, 6, 6, 6) {
	case 0:
		return eoa(1 + g.r.Intn(3))
	case 1:
		return fresh(1 + g.r.Intn(3))
	case 2:
		return precompile(1 + g.r.Intn(9))
	case 3:
		return lockupHex
	case 4:
		return extQuai(1 + g.r.Intn(2))
	case 5:
		return qiHere(1)
	case 6:
		return qiThere(1)
	default:
		return zeroHex
	}
}

func (g *gen) beneficiary(self int) string {
	switch g.r.Pick(35, 15, 15, 15, 10, 10) {
	case 0:
		return eoa(1 + g.r.Intn(3))
	case 1:
		return fresh(1 + g.r.Intn(3))
	case 2:
		if self > 0 {
			return contract(self)
		}
		return eoa(1)
	case 3:
		return contract(1 + g.r.Intn(g.k))
	case 4:
		return extQuai(1)
	default:
		return zeroHex
	}
}

func (g *gen) code(self int, depth int, isInit bool) []Instr {
	var code []Instr
	n := 1 + g.r.Intn(4)
	for i := 0; i < n; i++ {
		switch g.r.Pick(32, 7, 8, 6, 8, 3, 7, 9, 5, 6, 11) {
		case 0:
			in := Instr{Op: "call", T: g.target(self), V: g.value(), G: g.gasArg()}
			if in.T == lockupHex {
				in.In = []int{0, 20, 21, 25, 53, 60}[g.r.Intn(6)]
			}
			code = append(code, in)
			if g.r.Chance(25) {
				code = append(code, in) // the same callee again (a second SELFDESTRUCT of one account, repeated transfers)
			}
		case 1:
			code = append(code, Instr{Op: "callcode", T: g.target(self), V: g.value(), G: g.gasArg()})
		case 2:
			code = append(code, Instr{Op: "delegatecall", T: g.target(self), G: g.gasArg()})
		case 3:
			code = append(code, Instr{Op: "staticcall", T: g.target(self), G: g.gasArg()})
		case 4:
			if depth > 0 {
				code = append(code, Instr{Op: "create", V: g.value(), Code: g.code(self, depth-1, true)})
			}
		case 5:
			if depth > 0 && self > 0 {
				init := g.code(self, depth-1, true)
				in := Instr{Op: "create2", V: g.value(), Code: init, Salt: fmt.Sprint(g.r.Intn(1000))}
				if g.r.Chance(75) {
					in.Salt = grindSalt(g.r, contract(self), assemble(init))
				}
				code = append(code, in)
			}
		case 6:
			code = append(code, Instr{Op: "selfdestruct", T: g.beneficiary(self)})
		case 7:
			gl := fmt.Sprint(params.TxGas + uint64(g.r.Intn(50000)))
			if g.r.Chance(8) {
				gl = fmt.Sprint(g.r.Intn(int(params.TxGas)))
			}
			t := extQuai(1 + g.r.Intn(2))
			if g.r.Chance(10) {
				t = g.target(self)
			}
			code = append(code, Instr{Op: "etx", T: t, V: g.value(), GL: gl, Tip: fmt.Sprint(g.r.Intn(4)), Fee: fmt.Sprint(g.r.Intn(4))})
		case 8:
			t := qiHere(1)
			if g.r.Chance(15) {
				t = g.target(self)
			}
			code = append(code, Instr{Op: "convert", T: t, V: g.value(), GL: fmt.Sprint(params.TxGas + uint64(g.r.Intn(50000)))})
		case 9:
			code = append(code, Instr{Op: "sstore", K: fmt.Sprint(1 + g.r.Intn(3)), X: fmt.Sprint(g.r.Intn(2))})
		case 10:
			// a frame of any kind around code that sends value out of the zone and then (mostly) fails,
			// its failure ignored: through one of the auxiliary contracts k+1 (sends, fails), k+2 (sends,
			// stops), k+3 (enters k+2 through some call kind, then fails), or as init code of a creation
			gas := fmt.Sprint(120000 + g.r.Intn(400000))
			if g.r.Chance(15) {
				gas = ""
			}
			switch kind := g.r.Pick(24, 24, 24, 5, 14, 9); kind {
			case 0, 1, 2, 3:
				in := Instr{Op: callKinds[kind], T: contract(g.k + 1 + g.r.Pick(50, 15, 35)), G: gas}
				if kind < 2 {
					in.V = []string{"0", "0", "1", "5"}[g.r.Intn(4)]
				}
				code = append(code, in)
			default:
				if depth == 0 {
					continue
				}
				init := g.auxCode(g.r.Pick(60, 0, 40))
				if g.r.Chance(20) {
					init[len(init)-1] = Instr{Op: "return", N: g.r.Intn(40)} // ... or succeeds
				}
				in := Instr{Op: "create", V: g.auxBalance(), Code: init}
				if kind == 5 && self > 0 {
					in.Op, in.Salt = "create2", grindSalt(g.r, contract(self), assemble(init))
				}
				code = append(code, in)
			}
		}
	}
	if isInit {
		switch g.r.Pick(55, 12, 8, 8, 9, 8) {
		case 0:
			code = append(code, Instr{Op: "return", N: g.r.Intn(40)})
		case 1:
			code = append(code, Instr{Op: "return", N: 20000 + g.r.Intn(8000)}) // expensive to store
		case 2:
			code = append(code, Instr{Op: "return", N: 33000 + g.r.Intn(8000)}) // above the code-size limit
		case 3:
			code = append(code, revert())
		case 4:
			code = append(code, stop())
		default:
			code = append(code, Instr{Op: "invalid"})
		}
		return code
	}
	switch g.r.Pick(58, 17, 8, 6, 6, 5) {
	case 0:
		code = append(code, stop())
	case 1:
		code = append(code, revert())
	case 2:
		code = append(code, Instr{Op: "invalid"})
	case 3:
		code = append(code, Instr{Op: "burn"})
	case 4:
		code = append(code, Instr{Op: "return", N: g.r.Intn(64)})
	}
	return code
}

// sends: n instructions that append to the ETX cache when they succeed (mostly affordable values)
func (g *gen) sends(n int) []Instr {
	var out []Instr
	for i := 0; i < n; i++ {
		v := fmt.Sprint(1 + g.r.Intn(1000))
		if g.r.Chance(12) {
			v = g.value()
		}
		conv := new(big.Int).Add(params.MinQuaiConversionAmount, big.NewInt(int64(g.r.Intn(1000)))).String()
		switch g.r.Pick(58, 34, 5, 3) {
		case 0:
			out = append(out, etxI(extQuai(1+g.r.Intn(2)), v, fmt.Sprint(params.TxGas+uint64(g.r.Intn(30000))), fmt.Sprint(g.r.Intn(4)), fmt.Sprint(g.r.Intn(4))))
		case 1:
			out = append(out, convI(qiHere(1), conv, fmt.Sprint(params.TxGas+uint64(g.r.Intn(30000)))))
		case 2:
			out = append(out, callG(extQuai(1+g.r.Intn(2)), v, fmt.Sprint(43000+g.r.Intn(20000))))
		default: // (a nested CALL out of the zone's Quai ledger kills the calling frame: one more way of failing)
			out = append(out, callG(qiHere(1), conv, fmt.Sprint(43000+g.r.Intn(20000))))
		}
	}
	return out
}

func (g *gen) failOp() Instr { return Instr{Op: failOps[g.r.Pick(50, 25, 25)]} }

// auxCode: 0 = sends then fails, 1 = sends then stops, 2 = enters auxiliary contract k+2 (sends, stops)
// through some call kind, maybe sends itself, then fails
func (g *gen) auxCode(which int) []Instr {
	switch which {
	case 0:
		return append(g.sends(1+g.r.Intn(3)), g.failOp())
	case 1:
		return append(g.sends(1+g.r.Intn(2)), stop())
	}
	in := Instr{Op: callKinds[g.r.Pick(34, 33, 33)], T: contract(g.k + 2), G: fmt.Sprint(100000 + g.r.Intn(150000))}
	if in.Op != "delegatecall" {
		in.V = []string{"0", "2"}[g.r.Intn(2)]
	}
	code := []Instr{in}
	if g.r.Chance(40) {
		code = append(code, g.sends(1)...)
	}
	return append(code, g.failOp())
}

func (g *gen) auxBalance() string {
	if g.r.Chance(75) {
		return rich
	}
	return g.balance()
}

func grindSalt(r *hlib.Rng, creator string, init []byte) string {
	h := crypto.Keccak256(init)
	from := common.BytesToAddress(addrBytes(creator), loc)
	for i := 0; i < 20000; i++ {
		var salt [32]byte
		copy(salt[24:], r.Bytes(8))
		a := crypto.CreateAddress2(from, salt, h, loc)
		if _, err := a.InternalAndQuaiAddress(); err == nil {
			return new(big.Int).SetBytes(salt[:]).String()
		}
	}
	return "1"
}

func (g *gen) balance() string {
	switch g.r.Pick(15, 30, 35, 20) {
	case 0:
		return "0"
	case 1:
		return fmt.Sprint(1 + g.r.Intn(2000))
	case 2:
		return rich
	default:
		return fmt.Sprint(1000000 + g.r.Intn(100000000))
	}
}

func genCase(r *hlib.Rng) *Case {
	c, g := genWorld(r)
	genMessage(g, c, c)
	return c
}

// genWorld: environment and accounts (2-4 generated contracts with an acyclic call graph, the three
// auxiliary contracts, three EOAs)
func genWorld(r *hlib.Rng) (*Case, *gen) {
	g := &gen{r: r, k: 2 + r.Intn(3)}
	c := baseCase("generated")
	c.PTN = []uint64{ptnPost, ptnPost, ptnPost, ptnPre, ptnPre, ptnHold}[r.Intn(6)]
	g.ptn = c.PTN
	c.BaseFee = []string{"1", "1", "7", "1000"}[r.Intn(4)]
	c.Price = new(big.Int).Add(bi(c.BaseFee), big.NewInt(int64(r.Intn(3)))).String()
	g.price = c.Price
	c.Elig = r.Chance(80)
	c.ACL = r.Chance(65)
	c.with(ea(1, rich))
	for i := 2; i <= 3; i++ {
		c.with(ea(i, g.balance()))
	}
	for i := 1; i <= g.k; i++ {
		a := ca(i, g.balance(), g.code(i, 2, false)...)
		c.with(a)
	}
	for w := 0; w < 3; w++ {
		c.with(ca(g.k+1+w, g.auxBalance(), g.auxCode(w)...))
	}
	if r.Chance(30) {
		c.with(Acct{Addr: zeroHex, Bal: fmt.Sprint(r.Intn(50))})
	}
	return c, g
}

// genMessage draws the message fields of c (a message applied to world w; w == c for a single-message case)
func genMessage(g *gen, w *Case, c *Case) {
	r := g.r
	c.From, c.Value, c.Price, c.Gas = eoa(1), "0", g.price, 400000+uint64(r.Intn(3000000))
	if w.ACL && r.Chance(12) {
		c.ALDrop = 1 + r.Intn(40)
	}
	switch r.Pick(50, 10, 9, 10, 5, 3, 13) {
	case 0:
		c.To, c.Value = contract(1+r.Intn(g.k)), g.value()
		if r.Chance(60) {
			c.To = contract(1)
		}
	case 1:
		c.To, c.Value = g.target(g.k), g.value()
	case 2:
		c.To, c.Value = []string{extQuai(1), extQuai(2), qiHere(1), qiThere(1)}[r.Intn(4)], g.value()
	case 3:
		c.To, c.Value, c.Init = "", g.value(), g.code(0, 2, true)
	case 4:
		c.To = eoa(1)
		c.Data = suicideData(g.beneficiary(0))
	case 5:
		c.From, c.To = kquaiHex, eoa(2)
		if !w.has(kquaiHex) {
			w.with(Acct{Addr: kquaiHex, Bal: rich})
		}
		c.Data = hex.EncodeToString([]byte([]string{"freeze", "unfreeze", "bogus", "update\x01"}[r.Intn(4)]))
		if r.Chance(30) {
			w.Block = params.BlocksPerYear + 5
		}
	case 6:
		c.Inbound, c.Price = true, "0"
		c.Value = g.value()
		if c.Value == "1000000000000000000000000000000" {
			c.Value = "12345"
		}
		switch r.Pick(55, 20, 10, 15) {
		case 0:
			c.To = contract(1 + r.Intn(g.k))
		case 1:
			c.To = eoa(2)
		case 2:
			c.To = fresh(2)
		default:
			c.To, c.Init = zeroHex, g.code(0, 2, true)
		}
		c.Gas = 200000 + uint64(r.Intn(2000000))
		if r.Chance(6) {
			c.Gas = 6000001 + uint64(r.Intn(1000000))
		}
	}
	// adversarial message parameters
	if !c.Inbound {
		switch r.Pick(92, 2, 1, 1, 1, 1, 2) {
		case 1:
			c.Gas = 21000 + uint64(r.Intn(40000)) // around the intrinsic gas
		case 2:
			c.Gas = uint64(r.Intn(21000))
		case 3:
			c.Nonce = 1 + uint64(r.Intn(3))
		case 4:
			c.Price = new(big.Int).Sub(bi(w.BaseFee), big.NewInt(1)).String()
		case 5:
			w.Pool = c.Gas - 1
		case 6:
			c.Value = rich // with the gas on top: more than the sender has
		}
	}
}

func (c *Case) has(addr string) bool {
	for _, a := range c.Accts {
		if a.Addr == addr {
			return true
		}
	}
	return false
}

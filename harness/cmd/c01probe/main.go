package main

import (
	"fmt"
	"math/big"

	"github.com/btcsuite/btcd/btcec/v2"
	"github.com/btcsuite/btcd/btcec/v2/schnorr"
	"github.com/btcsuite/btcd/btcec/v2/schnorr/musig2"
	"github.com/dominant-strategies/go-quai/common"
	"github.com/dominant-strategies/go-quai/consensus"
	"github.com/dominant-strategies/go-quai/consensus/misc"
	"github.com/dominant-strategies/go-quai/core"
	"github.com/dominant-strategies/go-quai/core/rawdb"
	"github.com/dominant-strategies/go-quai/core/types"
	"github.com/dominant-strategies/go-quai/crypto"
	"github.com/dominant-strategies/go-quai/params"

	"verifharness/hlib"
)

type mockChain struct{ pt *types.WorkObject }

func (m *mockChain) Engine(*types.WorkObjectHeader) consensus.Engine          { return nil }
func (m *mockChain) GetHeaderOrCandidateByHash(common.Hash) *types.WorkObject { return m.pt }
func (m *mockChain) NodeCtx() int                                             { return common.ZONE_CTX }
func (m *mockChain) IsGenesisHash(common.Hash) bool                           { return false }
func (m *mockChain) GetHeaderByHash(common.Hash) *types.WorkObject            { return m.pt }
func (m *mockChain) GetBlockByHash(common.Hash) *types.WorkObject             { return m.pt }
func (m *mockChain) CheckIfEtxIsEligible(h common.Hash, l common.Location) bool {
	return (*core.HeaderChain)(nil).CheckIfEtxIsEligible(h, l)
}
func (m *mockChain) CheckInCalcOrderCache(common.Hash) (*big.Int, int, bool) { return nil, 0, false }
func (m *mockChain) AddToCalcOrderCache(common.Hash, int, *big.Int)          {}
func (m *mockChain) CalcBaseFee(*types.WorkObject) *big.Int                  { return big.NewInt(1) }
func (m *mockChain) CalcOrder(*types.WorkObject) (*big.Int, int, error)      { return nil, 0, nil }

func grind(r *hlib.Rng, loc common.Location, qi bool) (*btcec.PrivateKey, common.Address) {
	for {
		k, _ := btcec.PrivKeyFromBytes(r.Bytes(32))
		pub := k.PubKey().SerializeUncompressed()
		a := crypto.PubkeyBytesToAddress(pub, loc)
		if !a.Location().Equal(loc) {
			continue
		}
		if a.IsInQiLedgerScope() == qi {
			return k, a
		}
	}
}

func main() {
	logger := hlib.QuietLogs()
	loc := common.Location{0, 0}
	r := hlib.NewRng(1)
	k1, a1 := grind(r, loc, true)
	k2, a2 := grind(r, loc, true)
	_, a3 := grind(r, loc, true)
	fmt.Println(a1.Hex(), a2.Hex(), a3.Hex())
	for _, ptn := range []uint64{0, params.KawPowForkBlock, params.QiWrappingChangeBlock, params.ShaEquivalentDifficultyForkBlock + 30000} {
		func() {
			defer func() {
				if e := recover(); e != nil {
					fmt.Println("ptn", ptn, "PANIC", e)
				}
			}()
			db := rawdb.NewMemoryDatabase(logger)
			h1 := common.BytesToHash(r.Bytes(32))
			rawdb.CreateUTXO(db, h1, 0, &types.UtxoEntry{Denomination: 10, Address: a1.Bytes(), Lock: big.NewInt(0)})
			rawdb.CreateUTXO(db, h1, 1, &types.UtxoEntry{Denomination: 10, Address: a2.Bytes(), Lock: big.NewInt(0)})
			wo := types.EmptyWorkObject(common.ZONE_CTX)
			wo.WorkObjectHeader().SetLocation(loc)
			wo.WorkObjectHeader().SetNumber(big.NewInt(100))
			wo.WorkObjectHeader().SetDifficulty(big.NewInt(1000000000))
			wo.WorkObjectHeader().SetPrimeTerminusNumber(new(big.Int).SetUint64(ptn))
			wo.Header().SetGasLimit(5000000)
			wo.Header().SetBaseFee(big.NewInt(1))
			pt := types.EmptyWorkObject(common.ZONE_CTX)
			pt.Header().SetExchangeRate(big.NewInt(100000000000000))
			var el common.Hash
			for i := range el {
				el[i] = 0xff
			}
			pt.Header().SetEtxEligibleSlices(el)
			chain := &mockChain{pt}
			chainID := big.NewInt(9)
			signer := types.NewSigner(chainID, loc)
			qt := &types.QiTx{ChainID: chainID,
				TxIn: types.TxIns{{PreviousOutPoint: types.OutPoint{TxHash: h1, Index: 0}, PubKey: k1.PubKey().SerializeUncompressed()},
					{PreviousOutPoint: types.OutPoint{TxHash: h1, Index: 1}, PubKey: k2.PubKey().SerializeUncompressed()}},
				TxOut: types.TxOuts{{Denomination: 10, Address: a3.Bytes(), Lock: big.NewInt(0)}}}
			tx := types.NewTx(qt)
			digest := signer.Hash(tx)
			// musig
			keys := []*btcec.PrivateKey{k1, k2}
			pubs := []*btcec.PublicKey{k1.PubKey(), k2.PubKey()}
			sess := make([]*musig2.Session, 2)
			for i, k := range keys {
				c, err := musig2.NewContext(k, false, musig2.WithKnownSigners(pubs))
				if err != nil {
					panic(err)
				}
				sess[i], err = c.NewSession()
				if err != nil {
					panic(err)
				}
			}
			for i := range sess {
				for j := range sess {
					if i != j {
						sess[i].RegisterPubNonce(sess[j].PublicNonce())
					}
				}
			}
			for i := range sess {
				ps, err := sess[i].Sign(digest)
				if err != nil {
					panic(err)
				}
				if i != 0 {
					sess[0].CombineSig(ps)
				}
			}
			sig := sess[0].FinalSig()
			qt.Signature = sig
			tx = types.NewTx(qt)
			_ = schnorr.Sign
			fmt.Println("digest same:", signer.Hash(tx) == digest, "txhash", tx.Hash().Hex())
			batch := db.NewBatch()
			batch.SetPending(true)
			gp := new(types.GasPool).AddGas(wo.GasLimit())
			used := uint64(0)
			rl, pl := params.ETXRLimitMin, params.ETXPLimitMin
			ucd := new(core.UtxosCreatedDeleted)
			sa, sr := big.NewInt(0), big.NewInt(0)
			fee, etxs, rcpt, err, _ := core.ProcessQiTx(tx, chain, true, true, wo, batch, db, gp, &used, signer, loc, *chainID, 5.0, &rl, &pl, ucd, sa, sr, false)
			fmt.Println("ptn", ptn, "fee", fee, "etxs", len(etxs), "rcpt", rcpt != nil, "err", err, "used", used, "R", misc.CalculateQuaiReward(wo.WorkObjectHeader(), wo.Difficulty(), pt.ExchangeRate()), "Q", misc.CalculateQiReward(wo.WorkObjectHeader(), wo.Difficulty()))
		}()
	}
}

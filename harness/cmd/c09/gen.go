package main

import (
	"math/big"

	"github.com/dominant-strategies/go-quai/common"
	"github.com/dominant-strategies/go-quai/params"

	"verifharness/hlib"
)

// ---------- CalcOrder / totals inputs ----------

func zoneThreshold(diff *big.Int) *big.Int {
	return guard(func() *big.Int {
		t := new(big.Int).Div(two256, diff)
		return common.IntrinsicLogEntropy(common.BytesToHash(t.Bytes()))
	})
}

// genOrderSpec: a header whose CalcOrder outcome is spread over err / panic / prime / region / zone and the threshold boundaries
func genOrderSpec(c *ctxT) HSpec {
	s := defaultH()
	s.Nonce = c.rng.Next()
	s.Num, s.NumPrime, s.NumRegion = 1+c.rng.Next()%100000, 1+c.rng.Next()%1000, 1+c.rng.Next()%10000
	if c.rng.Chance(4) {
		s.Num, s.NumPrime, s.NumRegion = 0, 0, 0
	}
	if c.rng.Chance(6) {
		// numbers wider than 64 bits (no width limit on the wire); with the low 64 bits zero CalcOrder's
		// NumberU64()==0 shortcut applies although the number is not zero
		w := new(big.Int).Mul(two64, []*big.Int{big.NewInt(1), big.NewInt(5), two64}[c.rng.Intn(3)]).String()
		s.NumX, s.NumPrimeX = w, w
	}
	var diff *big.Int
	switch c.rng.Pick(2, 2, 3, 10, 10, 1, 1, 1) {
	case 7:
		diff = new(big.Int).Add(two256, randBig(c, 1+c.rng.Intn(64))) // wider than a hash: the target is zero
	case 0:
		diff = big.NewInt(2)
	case 1:
		diff = big.NewInt(int64(3 + c.rng.Intn(20)))
	case 2:
		diff = pow2(1 + c.rng.Intn(60))
	case 3:
		diff = randBig(c, 8+c.rng.Intn(56))
	case 4:
		diff = new(big.Int).Add(bi("1000000"), randBig(c, 1+c.rng.Intn(40)))
	case 5:
		diff = big.NewInt(1) // crop of the target is the zero hash: panic
	default:
		diff = big.NewInt(0) // invalid difficulty: error
	}
	s.Diff = diff.String()
	s.Expansion = []uint8{0, 0, 0, 1, 2, 3, 4, 7, 255}[c.rng.Intn(9)]
	if diff.Sign() <= 0 {
		s.Pow = randBig(c, 200).String()
		return s
	}
	target := new(big.Int).Div(two256, diff)
	var pow *big.Int
	switch c.rng.Pick(2, 2, 2, 1, 12, 12, 2) {
	case 0:
		pow = new(big.Int).Add(target, big.NewInt(1)) // just above: seal error
	case 1:
		pow = new(big.Int).Set(target)
	case 2:
		pow = new(big.Int).Sub(target, big.NewInt(1))
	case 3:
		pow = big.NewInt(0) // zero hash under the target: IntrinsicLogEntropy panics
	case 4:
		pow = powFor(c, target, true)
	case 5:
		pow = powFor(c, target, false)
	default:
		pow = big.NewInt(int64(1 + c.rng.Intn(3)))
	}
	if pow.Sign() < 0 {
		pow.SetInt64(0)
	}
	if pow.BitLen() > 256 {
		pow = new(big.Int).Sub(two256, big.NewInt(1))
	}
	s.Pow = pow.String()
	zt := zoneThreshold(diff)
	if zt == nil || pow.Sign() == 0 {
		s.PD[1], s.PD[2] = randBig(c, 66).String(), randBig(c, 66).String()
		return s
	}
	ie := common.IntrinsicLogEntropy(common.BytesToHash(pow.Bytes()))
	pet := params.PrimeEntropyTarget(s.Expansion)
	ret := params.RegionEntropyTarget(s.Expansion)
	tgtP := new(big.Int).Div(new(big.Int).Mul(pet, zt), big.NewInt(2))
	tgtR := new(big.Int).Div(new(big.Int).Mul(ret, zt), big.NewInt(2))
	nonneg := func(x *big.Int) *big.Int {
		if x.Sign() < 0 {
			return big.NewInt(0)
		}
		return x
	}
	switch c.rng.Pick(3, 3, 3, 3, 4, 4, 5) {
	case 6: // small recorded deltas: a strong hash is region-order at most
		s.PD[1] = randBig(c, 1+c.rng.Intn(60)).String()
		s.PD[2] = randBig(c, 1+c.rng.Intn(60)).String()
	case 0: // exactly at the prime delta target (not above)
		s.PD[1] = "0"
		s.PD[2] = nonneg(new(big.Int).Sub(tgtP, ie)).String()
	case 1: // one above the prime delta target
		rest := nonneg(new(big.Int).Add(new(big.Int).Sub(tgtP, ie), big.NewInt(1)))
		half := new(big.Int).Rsh(rest, 1)
		s.PD[1] = half.String()
		s.PD[2] = new(big.Int).Sub(rest, half).String()
	case 2: // exactly at the region delta target
		s.PD[1] = randBig(c, 60).String()
		s.PD[2] = nonneg(new(big.Int).Sub(tgtR, ie)).String()
	case 3: // one above the region delta target
		s.PD[1] = "0"
		s.PD[2] = nonneg(new(big.Int).Add(new(big.Int).Sub(tgtR, ie), big.NewInt(1))).String()
	case 4: // far above both
		s.PD[1] = new(big.Int).Mul(tgtP, big.NewInt(int64(1+c.rng.Intn(3)))).String()
		s.PD[2] = new(big.Int).Mul(tgtP, big.NewInt(int64(1+c.rng.Intn(3)))).String()
	default:
		s.PD[1] = randBig(c, 1+c.rng.Intn(72)).String()
		s.PD[2] = randBig(c, 1+c.rng.Intn(72)).String()
	}
	return s
}

func genCtx(c *ctxT) int { return []int{common.ZONE_CTX, common.REGION_CTX, common.PRIME_CTX}[c.rng.Pick(7, 2, 1)] }

func genTotals(c *ctxT) Case {
	s := genOrderSpec(c)
	for i := 0; i < 3; i++ {
		s.PE[i] = randBig(c, 1+c.rng.Intn(75)).String()
		s.PUD[i] = randBig(c, 1+c.rng.Intn(70)).String()
	}
	s.Uncled = randBig(c, 1+c.rng.Intn(70)).String()
	s.Genesis = c.rng.Chance(5)
	ctx := genCtx(c)
	if ctx == common.ZONE_CTX && c.rng.Chance(30) {
		s.PTNum = params.KawPowForkBlock + uint64(c.rng.Intn(1000))
		s.NUncles = c.rng.Intn(20)
	}
	return Case{ID: c.next(), Kind: "totals", Z: zs(big.NewInt(int64(ctx))), H: []HSpec{s}}
}

func genCache(c *ctxT) Case {
	n := 2 + c.rng.Intn(4)
	hs := make([]HSpec, n)
	for i := range hs {
		hs[i] = genOrderSpec(c)
	}
	m := 6 + c.rng.Intn(18)
	ops := make([]OpSpec, m)
	for i := range ops {
		k := []string{"call", "evict", "purge"}[c.rng.Pick(14, 4, 1)]
		ops[i] = OpSpec{K: k, I: c.rng.Intn(n)}
	}
	return Case{ID: c.next(), Kind: "cache", H: hs, Ops: ops}
}

// ---------- CalcDifficulty inputs ----------

func genDiff(c *ctxT) Case {
	nets := [][2]string{{"5", "750000000000"}, {"5", "1000000"}, {"5", "150000000"}, {"1", "250000"}, {"5", "100000"}, {"5", "1000"}, {"7", "2"}}
	n := nets[c.rng.Intn(len(nets))]
	mind := bi(n[1])
	var pd *big.Int
	switch c.rng.Pick(10, 4, 3, 2, 1, 1) {
	case 0:
		pd = new(big.Int).Add(mind, randBig(c, 1+c.rng.Intn(mind.BitLen()+10)))
	case 1:
		pd = new(big.Int).Add(mind, big.NewInt(int64(c.rng.Intn(100)))) // near the floor
	case 2:
		pd = randBig(c, 1+c.rng.Intn(256))
	case 3:
		pd = new(big.Int).Sub(mind, big.NewInt(int64(1+c.rng.Intn(10)))) // below the floor
		if pd.Sign() <= 0 {
			pd.SetInt64(1)
		}
	case 4:
		pd = big.NewInt(0)
	default:
		pd = pow2(1 + c.rng.Intn(200))
	}
	pt := 1700000000 + c.rng.Next()%100000
	dts := []int64{0, 1, 2, 3, 4, 5, 6, 7, 8, 10, 20, 50, 99, 100, 101, 200, 100000, -1, -5, -200}
	dt := dts[c.rng.Intn(len(dts))]
	if c.rng.Chance(25) {
		dt = int64(c.rng.Intn(130))
	}
	gpt := uint64(int64(pt) - dt)
	kind := []int64{2, 2, 2, 2, 2, 2, 2, 2, 0, 1}[c.rng.Intn(10)]
	return Case{ID: c.next(), Kind: "diff", Z: zs(bi(n[0]), mind, pd, u(pt), big.NewInt(kind), u(gpt))}
}

func genDiffGen(c *ctxT) Case {
	first, second := c.rng.Chance(30), c.rng.Chance(30)
	pep := big.NewInt(0)
	if c.rng.Chance(30) {
		pep = randBig(c, 1+c.rng.Intn(70))
	}
	return Case{ID: c.next(), Kind: "diffgen", Z: zs(randBig(c, 10+c.rng.Intn(50)), pep, big.NewInt(int64(c.rng.Intn(4)))), B: []bool{first, second}}
}

func genBaseFee(c *ctxT) Case {
	er := randBig(c, 1+c.rng.Intn(75))
	diff := randBig(c, 1+c.rng.Intn(90))
	nums := []uint64{1, 1000, params.QiActivationBlock, params.QiActivationBlock + 1, c.rng.Next() % 3000000, c.rng.Next() % 400000000}
	return Case{ID: c.next(), Kind: "basefee", Z: zs(er, diff, u(nums[c.rng.Intn(len(nums))])), B: []bool{c.rng.Chance(5), c.rng.Chance(30)}}
}

// ---------- corpus: fixed targeted cases, always run first ----------

func corpus(c *ctxT) []Case {
	out := pureCorpus(c)
	// difficulty: the networks' floors and duration limits, time differences around the limit and the cap
	for _, n := range [][2]string{{"5", "750000000000"}, {"1", "250000"}, {"5", "1000"}} {
		mind := bi(n[1])
		for _, pdm := range []int64{0, 1, 1000} {
			pd := new(big.Int).Add(mind, new(big.Int).Mul(mind, big.NewInt(pdm)))
			for _, dt := range []int64{0, 4, 5, 6, 99, 100, 101, 1000, -3} {
				pt := uint64(1700000000)
				out = append(out, Case{ID: c.next(), Kind: "diff", Z: zs(bi(n[0]), mind, pd, u(pt), big.NewInt(2), u(uint64(int64(pt)-dt)))})
			}
		}
		out = append(out, Case{ID: c.next(), Kind: "diff", Z: zs(bi(n[0]), mind, mind, u(1700000000), big.NewInt(0), u(0))})
		out = append(out, Case{ID: c.next(), Kind: "diff", Z: zs(bi(n[0]), mind, mind, u(1700000000), big.NewInt(1), u(1699999990))})
		out = append(out, Case{ID: c.next(), Kind: "diff", Z: zs(bi(n[0]), mind, big.NewInt(0), u(1700000000), big.NewInt(2), u(1699999990))})
	}
	for _, fs := range [][2]bool{{true, false}, {false, true}, {false, false}, {true, true}} {
		out = append(out, Case{ID: c.next(), Kind: "diffgen", Z: zs(bi("123456789"), big.NewInt(0), big.NewInt(1)), B: []bool{fs[0], fs[1]}})
		out = append(out, Case{ID: c.next(), Kind: "diffgen", Z: zs(bi("123456789"), pow2(66), big.NewInt(2)), B: []bool{fs[0], fs[1]}})
	}
	for n := 0; n <= 33; n++ {
		out = append(out, Case{ID: c.next(), Kind: "wspost", Z: zs(big.NewInt(int64(n)))})
	}
	// a fixed set (own PRNG, independent of the run's seed) of CalcOrder / entropy-sum / memo cases: every order class,
	// the threshold boundaries, seal error and the two panics are always present
	saved := c.rng
	c.rng = hlib.NewRng(20240909).Fork()
	for i := 0; i < 60; i++ {
		out = append(out, Case{ID: c.next(), Kind: "order", Z: zs(big.NewInt(int64(genCtx(c)))), H: []HSpec{genOrderSpec(c)}})
	}
	for i := 0; i < 25; i++ {
		out = append(out, genTotals(c))
	}
	for i := 0; i < 6; i++ {
		out = append(out, genCache(c))
	}
	for i := 0; i < 14; i++ {
		out = append(out, genHist(c))
	}
	c.rng = saved
	// one complete deviation sweep per parent shape
	for shape := 0; shape < 7; shape++ {
		out = append(out, verifyCases(c, shape, -1)...)
	}
	// the expansion-number rule: every prime-terminus shape ComputeExpansionNumber distinguishes (shape 7, sub-variants
	// 1..4) at four node locations - the original slice [0,0] and three slices that start from an expansion genesis -
	// with every expansion deviation (+1, -1, = the parent's, = the terminus', = the terminus' + 1) and one more
	for _, loc := range [][]int{nil, {0, 1}, {1, 0}, {2, 2}} {
		for sub := 1; sub <= 4; sub++ {
			c.sub7 = sub
			out = append(out, verifyCasesAt(c, 7, 1, loc, false)...)
			for i := 0; i < 2; i++ { // and the function alone (cheap): other thresholds / expansion numbers
				if pg, _ := genPairAt(c, 7, loc, false); pg != nil {
					out = append(out, Case{ID: c.next(), Kind: "expansion", Env: cloneEnv(&pg.env), H: []HSpec{pg.parent}})
				}
			}
		}
	}
	c.sub7 = 0
	// a second work-share parent and a second wide-number parent (other share distances / other widths)
	out = append(out, verifyCases(c, 5, 12)...)
	out = append(out, verifyCases(c, 6, 12)...)
	out = append(out, Case{ID: c.next(), Kind: "chain", Z: zs(big.NewInt(12), big.NewInt(4711))})
	// the regime after the KawPow fork (own PRNG: the cases above are the ones they were before): the share functions and
	// the fork-aware base fee at every fork height, and verify pairs of the four post-fork parent variants - the first two
	// (moving averages / on the fork block) with every share-field deviation
	saved = c.rng
	c.rng = hlib.NewRng(20260924).Fork()
	for i := 0; i < 45; i++ {
		out = append(out, genShareCase(c, "share"))
	}
	for i := 0; i < 25; i++ {
		out = append(out, genShareCase(c, "basefeex"))
	}
	for v := 1; v <= 4; v++ {
		c.sub8, c.allShareDevs = v, v <= 2
		out = append(out, verifyCasesAt(c, 8, 8, nil, true)...)
	}
	c.sub8, c.allShareDevs = 0, false
	c.rng = saved
	return out
}

// ---------- random generation ----------

const numShapes = 8 // parent shapes of genPair

func generate(c *ctxT, n int, tier string) {
	for i := 0; i < n; i++ {
		switch c.rng.Pick(22, 14, 10, 12, 3, 6, 14, 6, 2, 7) {
		case 0:
			c.run(genPure(c))
		case 1:
			c.run(Case{ID: c.next(), Kind: "order", Z: zs(big.NewInt(int64(genCtx(c)))), H: []HSpec{genOrderSpec(c)}})
		case 2:
			c.run(genTotals(c))
		case 3:
			c.run(genDiff(c))
		case 4:
			c.run(genDiffGen(c))
		case 5:
			c.run(genBaseFee(c))
		case 6:
			shape := c.rng.Pick(6, 4, 2, 2, 1, 5, 3, 4)
			for _, cs := range verifyCases(c, shape, 5) {
				c.run(cs)
			}
		case 7:
			c.run(genCache(c))
		case 9:
			c.run(genHist(c))
		default:
			c.run(Case{ID: c.next(), Kind: "chain", Z: zs(big.NewInt(int64(4+c.rng.Intn(12))), u(c.rng.Next()%1000000))})
		}
	}
	// after the KawPow fork (a stream of its own, forked off at the end: the cases above are unchanged by it)
	c.rng = hlib.NewRng(c.rng.Next()).Fork()
	for i := 0; i < n/20+2; i++ {
		for _, cs := range verifyCases(c, 8, 4) {
			c.run(cs)
		}
		for j := 0; j < 3; j++ {
			c.run(genShareCase(c, "share"))
		}
		c.run(genShareCase(c, "basefeex"))
	}
}

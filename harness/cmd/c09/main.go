// C09 harness: drives the REAL header-extension code of go-quai — common.LogBig /
// IntrinsicLogEntropy / BitsToBigBits, HeaderChain.CalcDifficulty, core.CalcGasLimit,
// misc.CalcStateLimit, HeaderChain.CalcBaseFee / ComputeExpansionNumber / CalcOrder /
// TotalLogEntropy / DeltaLogEntropy / UncledDeltaLogEntropy and the unexported verifyHeader
// (through the verif hook core/verif_c09_export.go) — records the observed results as Coq
// cases (C09.case) for the model comparison, and evaluates model-independent monitors.
package main

import (
	"encoding/json"
	"fmt"
	"math/big"
	"os"
	"runtime/debug"

	"verifharness/hlib"
)

// Case is the replayable description of one case: only INPUTS; every observed value is recomputed.
type Case struct {
	ID   uint64   `json:"id"`
	Kind string   `json:"kind"`
	Z    []string `json:"z,omitempty"`   // integer arguments (decimal)
	B    []bool   `json:"b,omitempty"`   // boolean arguments
	H    []HSpec  `json:"h,omitempty"`   // headers to fabricate
	Env  *EnvSpec `json:"env,omitempty"` // chain environment
	Ops  []OpSpec `json:"ops,omitempty"` // cache history
	Anc  []HSpec  `json:"anc,omitempty"` // stored ancestors (hist cases)
	Dev  string   `json:"dev,omitempty"` // deviation applied to the valid child (verify cases)
	Note string   `json:"note,omitempty"`
}

func bi(s string) *big.Int {
	x, ok := new(big.Int).SetString(s, 10)
	if !ok {
		panic("bad integer " + s)
	}
	return x
}
func zs(xs ...*big.Int) []string {
	out := make([]string, len(xs))
	for i, x := range xs {
		out[i] = x.String()
	}
	return out
}
func u(x uint64) *big.Int { return new(big.Int).SetUint64(x) }
func pow2(k int) *big.Int  { return new(big.Int).Lsh(big.NewInt(1), uint(k)) }

func coqZ(x *big.Int) string { return hlib.CoqBig(x) }
func coqOptZ(x *big.Int) string {
	if x == nil {
		return "None"
	}
	return "(Some " + coqZ(x) + ")"
}

type ctxT struct {
	rep *hlib.Report
	cw  *hlib.CaseWriter
	rng *hlib.Rng
	id  uint64
	// further Coq terms of the case being run (same id: a replay of the case reproduces all of them)
	extra []string
	sub7  int // generator: 1..4 pins the sub-variant of parent shape 7 (0: random)
	sub8  int // generator: 1..4 pins the variant of parent shape 8 (after the fork)
	allShareDevs bool // generator: every share deviation is part of a sampled sweep of shape 8
}

func (c *ctxT) next() uint64 { c.id++; return c.id }

// run executes one case on the real code, writes the Coq term and evaluates the monitors.
func (c *ctxT) run(cs Case) {
	c.rep.Evaluations++
	c.rep.Count("kind:" + cs.Kind)
	c.extra = nil
	var term string
	func() {
		defer func() {
			if r := recover(); r != nil {
				if os.Getenv("C09_STACK") != "" { // development aid
					fmt.Fprintf(os.Stderr, "panic in case %d (%s): %v\n%s\n", cs.ID, cs.Kind, r, debug.Stack())
				}
				c.rep.Fail("harness-panic:"+cs.Kind, fmt.Sprintf("unexpected panic while executing the case: %v", r), cs)
				term = ""
			}
		}()
		switch cs.Kind {
		case "log", "intr", "bits", "tobits", "enttodiff", "kqi":
			term = c.runPure(cs)
		case "gas", "state":
			term = c.runLimit(cs)
		case "diff", "diffgen":
			term = c.runDiff(cs)
		case "basefee":
			term = c.runBaseFee(cs)
		case "share":
			term = c.runShare(cs)
		case "basefeex":
			term = c.runBaseFeeX(cs)
		case "order":
			term = c.runOrder(cs)
		case "totals":
			term = c.runTotals(cs)
		case "wspost":
			term = c.runWsPost(cs)
		case "expansion":
			term = c.runExpansion(cs)
		case "verify":
			term = c.runVerify(cs)
		case "cache":
			term = c.runCache(cs)
		case "hist":
			term = c.runHist(cs)
		case "chain":
			c.runChain(cs) // monitor only (no Coq term)
		case "sorted":
			c.runSorted(cs) // monitor only
		default:
			panic("unknown kind " + cs.Kind)
		}
	}()
	if term != "" {
		c.cw.Add(fmt.Sprintf("(%d%%N, %s)", cs.ID, term), cs)
		c.rep.TracesValidated++
		for _, x := range c.extra {
			c.cw.Add(fmt.Sprintf("(%d%%N, %s)", cs.ID, x), cs)
			c.rep.TracesValidated++
		}
	}
	c.rep.Sample(cs)
}

func main() {
	f := hlib.ParseFlags()
	hlib.QuietLogs()
	rep := hlib.NewReport("C09", "non-trivial = a case whose observed result is not the trivial early outcome: log/entropy of an argument >= 2 that is not a power of two; CalcDifficulty through the retarget formula; CalcOrder that passes the seal check; verifyHeader on a fabricated valid child or a single-field deviation of it; a cache history with at least one hit; fingerprint = kind + outcome class")
	header := "From Coq Require Import List ZArith Bool NArith.\nFrom GQ Require Import Generated.C09Params Model.C09.\nImport ListNotations.\nLocal Open Scope Z_scope.\n"
	cw := hlib.NewCaseWriter(f.Out, header, "C09.case", 60)
	c := &ctxT{rep: rep, cw: cw, rng: hlib.NewRng(f.Seed).Fork()} // Fork: consecutive seeds of hlib.NewRng are shifts of ONE stream; the mixed fork decorrelates them

	if f.Replay != "" {
		var cs Case
		hlib.ReadReplayCase(f.Replay, &cs)
		c.run(cs)
	} else {
		for _, cs := range corpus(c) {
			c.run(cs)
		}
		generate(c, f.N, f.Tier)
	}
	cw.Close()
	rep.Write(f.Out)
}

func mustJSON(x any) string { b, _ := json.Marshal(x); return string(b) }

package main

// The regime after the KawPow fork (header.PrimeTerminusNumber() >= params.KawPowForkBlock): the share-difficulty fields of
// the work-object header (sha / scrypt difficulty, count, uncled; the two share targets; the kawpow difficulty) and the
// fork-aware base fee.  Headers are fabricated WITHOUT AuxPow (ProgPoW blocks of the transition period): the AuxPow checks
// of verifyHeader are outside C09's model.

import (
	"fmt"
	"math/big"
	"strings"

	"github.com/dominant-strategies/go-quai/common"
	"github.com/dominant-strategies/go-quai/core/types"
	"github.com/dominant-strategies/go-quai/params"

	"verifharness/hlib"
)

// ShSpec: the nine share fields of a header in the order verifyHeader compares them (sha difficulty, count, uncled; scrypt
// difficulty, count, uncled; sha share target; scrypt share target; kawpow difficulty); "-" = nil.
type ShSpec [9]string

var shNames = [9]string{"sha-diff", "sha-count", "sha-uncled", "scrypt-diff", "scrypt-count", "scrypt-uncled", "sha-target", "scrypt-target", "kawpow-diff"}

func (s *ShSpec) get(i int) *big.Int {
	if s == nil || s[i] == "-" || s[i] == "" {
		return nil
	}
	return bi(s[i])
}

func nilShares() *ShSpec { return &ShSpec{"-", "-", "-", "-", "-", "-", "-", "-", "-"} }

// AuxShare: one share of a block body that carries an AuxPow (what CountWorkSharesByAlgo classifies)
type AuxShare struct {
	Kind    string `json:"kind"`              // sha-btc sha-bch scrypt kawpow progpow
	Foreign bool   `json:"foreign,omitempty"` // coinbase outside the slice's scope: counted as "uncled"
}

func setShares(wh *types.WorkObjectHeader, s *ShSpec) {
	wh.SetShaDiffAndCount(types.NewPowShareDiffAndCount(s.get(0), s.get(1), s.get(2)))
	wh.SetScryptDiffAndCount(types.NewPowShareDiffAndCount(s.get(3), s.get(4), s.get(5)))
	wh.SetShaShareTarget(s.get(6))
	wh.SetScryptShareTarget(s.get(7))
	wh.SetKawpowDifficulty(s.get(8))
}

// auxShareHeaders fabricates the shares of s.Aux (deterministic)
func auxShareHeaders(s HSpec) []*types.WorkObjectHeader {
	zoneLoc := locOf(s.Loc)
	other := common.Location{(zoneLoc[0] + 1) % 3, zoneLoc[1]}
	us := make([]*types.WorkObjectHeader, len(s.Aux))
	for i, a := range s.Aux {
		uw := types.EmptyWorkObject(common.ZONE_CTX).WorkObjectHeader()
		uw.SetLocation(zoneLoc)
		if a.Foreign {
			uw.SetPrimaryCoinbase(common.BytesToAddress(common.ZeroAddress(other).Bytes(), zoneLoc)) // an address of another slice
		} else {
			uw.SetPrimaryCoinbase(common.ZeroAddress(zoneLoc))
		}
		uw.SetNumber(s.numBig())
		uw.SetTime(s.Time)
		uw.SetDifficulty(z0(s.Diff))
		uw.SetPrimeTerminusNumber(s.ptNumBig())
		uw.SetNonce(types.EncodeNonce(uint64(7000 + i)))
		uw.SetData([]byte{0})
		setShares(uw, &ShSpec{"1", "1", "1", "1", "1", "1", "1", "1", "1"})
		var id types.PowID
		switch a.Kind {
		case "sha-btc":
			id = types.SHA_BTC
		case "sha-bch":
			id = types.SHA_BCH
		case "scrypt":
			id = types.Scrypt
		case "kawpow":
			id = types.Kawpow
		}
		if a.Kind != "progpow" {
			hdr := types.NewBlockHeader(id, 1, [32]byte{byte(i)}, [32]byte{byte(i), 1}, uint32(s.Time), 0x1d00ffff, uint32(i), 100)
			uw.SetAuxPow(types.NewAuxPow(id, hdr, nil, nil, nil, []byte{1, 2, 3, byte(i)}))
		}
		us[i] = uw
	}
	return us
}

// auxCounts: what CountWorkSharesByAlgo must find (computed from the spec, not by the code)
func auxCounts(s HSpec) (sha, shaUncled, scrypt, scryptUncled int) {
	for _, a := range s.Aux {
		switch a.Kind {
		case "sha-btc", "sha-bch":
			sha++
			if a.Foreign {
				shaUncled++
			}
		case "scrypt":
			scrypt++
			if a.Foreign {
				scryptUncled++
			}
		}
	}
	return
}

func psCoq(s HSpec) string {
	v := func(i int) string {
		if x := s.Sh.get(i); x != nil {
			return coqZ(x)
		}
		return "0"
	}
	a, b, c, d := auxCounts(s)
	return fmt.Sprintf("(mkPS %s %s %s %s %s %s %s %s %s %d %d %d %d)", v(0), v(1), v(2), v(3), v(4), v(5), v(6), v(7), v(8), a, b, c, d)
}

func shCoq(s HSpec) string {
	sh := s.Sh
	if sh == nil {
		sh = nilShares()
	}
	parts := make([]string, 9)
	for i := range parts {
		parts[i] = coqOptZ(sh.get(i))
	}
	return "(mkSh " + strings.Join(parts, " ") + ")"
}

func postFork(s HSpec) bool { return s.ptNumBig().Uint64() >= params.KawPowForkBlock }

// ---------- the share functions alone ----------

// genShareData: plausible share data of a block after the fork (difficulties around the initial values and the lower
// bounds, counts / targets around the target and the maximum, in 2^32 units)
func genShareData(c *ctxT) *ShSpec {
	near := func(x *big.Int) *big.Int {
		switch c.rng.Intn(5) {
		case 0:
			return new(big.Int).Set(x)
		case 1:
			return new(big.Int).Add(x, big.NewInt(int64(1+c.rng.Intn(1000))))
		case 2:
			r := new(big.Int).Sub(x, big.NewInt(int64(1+c.rng.Intn(1000))))
			if r.Sign() <= 0 {
				return big.NewInt(1)
			}
			return r
		case 3:
			return new(big.Int).Div(new(big.Int).Mul(x, big.NewInt(int64(50+c.rng.Intn(400)))), big.NewInt(100))
		}
		return randBig(c, 1+c.rng.Intn(x.BitLen()+8))
	}
	pos := func(x *big.Int) *big.Int {
		if x.Sign() <= 0 {
			return big.NewInt(1)
		}
		return x
	}
	cnt := func() *big.Int {
		return []*big.Int{big.NewInt(0), near(params.TargetShaShares), near(params.MaxShaShares), new(big.Int).Mul(common.Big2e32, big.NewInt(int64(c.rng.Intn(12)))), randBig(c, 1+c.rng.Intn(40))}[c.rng.Intn(5)]
	}
	tgt := []*big.Int{new(big.Int).Set(params.TargetShaShares), new(big.Int).Set(params.MaxShaShares), near(params.TargetShaShares), near(params.MaxShaShares)}[c.rng.Intn(4)]
	return &ShSpec{
		pos(near(new(big.Int).Mul(params.ShaDiffLowerBound, big.NewInt(int64(1+c.rng.Intn(4)))))).String(), cnt().String(), cnt().String(),
		pos(near(new(big.Int).Mul(params.ScryptDiffLowerBound, big.NewInt(int64(1+c.rng.Intn(4)))))).String(), cnt().String(), cnt().String(),
		tgt.String(), tgt.String(), pos(near(params.InitialKawpowDiff)).String(),
	}
}

func genAux(c *ctxT) []AuxShare {
	n := []int{0, 0, 1, 2, 3, 5, 9, 16}[c.rng.Intn(8)]
	out := make([]AuxShare, n)
	for i := range out {
		out[i] = AuxShare{Kind: []string{"sha-btc", "sha-bch", "scrypt", "scrypt", "kawpow", "progpow"}[c.rng.Intn(6)], Foreign: c.rng.Chance(30)}
	}
	return out
}

// forkHeights: the prime-terminus numbers at which the share rules switch
func forkHeights(c *ctxT) uint64 {
	f := params.KawPowForkBlock
	hs := []uint64{f, f, f + 1, f + 2, f + params.KawPowTransitionPeriod, params.InclusionDepthChangeBlock - 1, params.InclusionDepthChangeBlock,
		params.InclusionDepthChangeBlock + 1, params.InclusionDepthChangeBlock + params.InclusionDepthUpdatePeriod/2,
		params.InclusionDepthChangeBlock + params.InclusionDepthUpdatePeriod - 1, params.InclusionDepthChangeBlock + params.InclusionDepthUpdatePeriod,
		params.ShaEquivalentDifficultyForkBlock - 1, params.ShaEquivalentDifficultyForkBlock, params.ConversionStabilityForkBlock - 1,
		params.ConversionStabilityForkBlock, params.ConversionStabilityForkBlock + 1, params.SingularityForkBlock,
		f + 1 + c.rng.Next()%params.KawPowTransitionPeriod, f + c.rng.Next()%2000000}
	return hs[c.rng.Intn(len(hs))]
}

func genShareCase(c *ctxT, kind string) Case {
	ps := defaultH()
	ps.Num, ps.Nonce = 1000+c.rng.Next()%100000000, c.rng.Next()
	ps.Diff = []*big.Int{big.NewInt(1), big.NewInt(4), randBig(c, 20+c.rng.Intn(40)), new(big.Int).Add(bi("750000000000"), randBig(c, 45)), randBig(c, 1+c.rng.Intn(90))}[c.rng.Pick(1, 1, 4, 6, 3)].String()
	if z0(ps.Diff).Sign() == 0 {
		ps.Diff = "1"
	}
	ptn := forkHeights(c)
	ps.PTNum = ptn
	ps.Sh = genShareData(c)
	ps.Aux = genAux(c)
	wide := ""
	if c.rng.Chance(6) { // the fork switches read PrimeTerminusNumber().Uint64(): a number wider than 64 bits
		wide = new(big.Int).Mul(two64, big.NewInt(int64(1+c.rng.Intn(5)))).String()
	}
	if kind == "basefeex" {
		if c.rng.Chance(25) {
			ps.PTNum = []uint64{0, 10, params.KawPowForkBlock - 1}[c.rng.Intn(3)] // before the fork: the share data are not read
		}
		nums := []uint64{1, 1000, params.QiActivationBlock, params.QiActivationBlock + 1, c.rng.Next() % 3000000, c.rng.Next() % 400000000}
		ps.Num = nums[c.rng.Intn(len(nums))]
		ps.PTNumX = wide
		return Case{ID: c.next(), Kind: kind, Z: zs(randBig(c, 1+c.rng.Intn(75))), B: []bool{c.rng.Chance(5), c.rng.Chance(30)}, H: []HSpec{ps}}
	}
	return Case{ID: c.next(), Kind: kind, Z: zs(u(ptn), z0(wide)), H: []HSpec{ps}}
}

// runShare: Z = child's prime terminus number (low part, wide part); H[0] = the parent
func (c *ctxT) runShare(cs Case) string {
	ch := chainFor(common.ZONE_CTX, cs.ID)
	ps := cs.H[0]
	parent := ch.add(ps, false)
	hs := defaultH()
	hs.PTNum, hs.PTNumX, hs.Num = bi(cs.Z[0]).Uint64(), cs.Z[1], ps.Num+1
	if cs.Z[1] == "0" {
		hs.PTNumX = ""
	}
	hs.Sh = &ShSpec{"1", "1", "1", "1", "1", "1", "1", "1", "1"}
	header := build(hs)
	ptn := hs.ptNumBig()
	var obs []*big.Int
	func() {
		defer func() {
			if r := recover(); r != nil {
				obs = nil
			}
		}()
		d1, c1, u1 := ch.hc.CalculatePowDiffAndCount(parent, header.WorkObjectHeader(), types.SHA_BTC)
		d2, c2, u2 := ch.hc.CalculatePowDiffAndCount(parent, header.WorkObjectHeader(), types.Scrypt)
		t1 := ch.hc.CalculateShareTarget(parent, header)
		t2 := ch.hc.CalculateShareTarget(parent, header)
		k := ch.hc.CalculateKawpowDifficulty(parent, header)
		obs = []*big.Int{d1, c1, u1, d2, c2, u2, t1, t2, k}
		for i, x := range obs {
			if x == nil {
				panic("nil result")
			}
			obs[i] = new(big.Int).Set(x)
		}
	}()
	// monitor: CountWorkSharesByAlgo finds what the body contains
	_, a, b, cc, d := ch.hc.CountWorkSharesByAlgo(parent)
	wa, wb, wc, wd := auxCounts(ps)
	if a != wa || b != wb || cc != wc || d != wd {
		c.rep.Fail("CountWorkSharesByAlgo:count", fmt.Sprintf("CountWorkSharesByAlgo = sha %d/%d scrypt %d/%d, the body holds sha %d/%d scrypt %d/%d", a, b, cc, d, wa, wb, wc, wd), cs)
	}
	low := ptn.Uint64()
	obsCoq := "None"
	if obs != nil {
		parts := make([]string, len(obs))
		for i, x := range obs {
			parts[i] = coqZ(x)
		}
		obsCoq = "(Some " + hlib.CoqList(parts) + ")"
		// monitors (the protocol's statements about the share fields, independent of the model)
		if obs[6].Cmp(params.TargetShaShares) < 0 || obs[6].Cmp(params.MaxShaShares) > 0 {
			c.rep.Fail("CalculateShareTarget:bounds", "share target outside [TargetShaShares, MaxShaShares]", cs)
		}
		if low == params.KawPowForkBlock {
			if obs[1].Cmp(params.TargetShaShares) != 0 || obs[4].Cmp(params.TargetShaShares) != 0 || obs[2].Sign() != 0 || obs[5].Sign() != 0 ||
				obs[6].Cmp(params.TargetShaShares) != 0 || obs[8].Cmp(params.InitialKawpowDiff) != 0 {
				c.rep.Fail("shares:fork-block-initial-values", "on the fork block the share fields are not the protocol's initial values", cs)
			}
		} else {
			if obs[8].Cmp(ps.Sh.get(8)) != 0 {
				c.rep.Fail("CalculateKawpowDifficulty:no-auxpow-keeps", "a parent without AuxPow changed the kawpow difficulty", cs)
			}
			between := func(x, old *big.Int, n int) bool {
				nw := new(big.Int).Mul(big.NewInt(int64(n)), common.Big2e32)
				lo, hi := old, nw
				if lo.Cmp(hi) > 0 {
					lo, hi = hi, lo
				}
				return x.Cmp(lo) >= 0 && x.Cmp(hi) <= 0
			}
			if !between(obs[1], ps.Sh.get(1), wa) || !between(obs[2], ps.Sh.get(2), wb) || !between(obs[4], ps.Sh.get(4), wc) || !between(obs[5], ps.Sh.get(5), wd) {
				c.rep.Fail("CalculatePowDiffAndCount:average-between", "a share-count average is not between the parent's average and the new sample", cs)
			}
			if obs[0].Cmp(params.ShaDiffLowerBound) < 0 || obs[3].Cmp(params.ScryptDiffLowerBound) < 0 {
				c.rep.Fail("CalculatePowDiffAndCount:lower-bound", "share difficulty below its lower bound", cs)
			}
			// direction: more shares than the target never lowers the share difficulty, fewer never raises it (before the floor)
			dir := func(nd, d *big.Int, n int, tgt, lb *big.Int) bool {
				e := new(big.Int).Sub(new(big.Int).Mul(big.NewInt(int64(n)), common.Big2e32), tgt)
				if e.Sign() >= 0 {
					return nd.Cmp(d) >= 0
				}
				return nd.Cmp(d) <= 0 || nd.Cmp(lb) == 0
			}
			if !dir(obs[0], ps.Sh.get(0), wa, ps.Sh.get(6), params.ShaDiffLowerBound) || !dir(obs[3], ps.Sh.get(3), wc, ps.Sh.get(7), params.ScryptDiffLowerBound) {
				c.rep.Fail("CalculatePowDiffAndCount:direction", "share difficulty moved against the sign of the share-count error", cs)
			}
		}
		c.rep.Nontrivial(fmt.Sprintf("share:%s:%d", forkClass(low), len(ps.Aux)))
	}
	c.rep.Count("share:" + forkClass(low))
	return fmt.Sprintf("CShare %s %s %s %s", coqZ(ptn), coqZ(z0(ps.Diff)), psCoq(ps), obsCoq)
}

func forkClass(ptn uint64) string {
	switch {
	case ptn < params.KawPowForkBlock:
		return "pre-fork"
	case ptn == params.KawPowForkBlock:
		return "fork-block"
	case ptn < params.InclusionDepthChangeBlock:
		return "ema"
	case ptn < params.InclusionDepthChangeBlock+params.InclusionDepthUpdatePeriod:
		return "depth-ramp"
	case ptn < params.ConversionStabilityForkBlock:
		return "max-target"
	}
	return "stability-fork"
}

// runBaseFeeX: Z = exchange rate; B = isGenesis parentIsGenesis; H[0] = the block (its own prime terminus number decides)
func (c *ctxT) runBaseFeeX(cs Case) string {
	er := bi(cs.Z[0])
	isGen, parGen := cs.B[0], cs.B[1]
	ch := chainFor(common.ZONE_CTX, cs.ID)
	pts := defaultH()
	pts.Num, pts.Nonce, pts.ExRate = 3, 77, er.String()
	pt := ch.add(pts, true)
	gps := defaultH()
	gps.Nonce, gps.Genesis = 78, parGen
	gp := ch.add(gps, true)
	bs := cs.H[0]
	bs.Genesis, bs.PTHash, bs.Parent = isGen, pt.Hash().Hex(), gp.Hash().Hex()
	b := ch.add(bs, false)
	r := guard(func() *big.Int { return ch.hc.CalcBaseFee(b) })
	if r != nil && !isGen {
		c.rep.Nontrivial(fmt.Sprintf("basefeex:%s:%v:%d", forkClass(bs.ptNumBig().Uint64()), parGen, r.BitLen()))
	}
	c.rep.Count("basefeex:" + forkClass(bs.ptNumBig().Uint64()))
	return fmt.Sprintf("CBaseFeeX %s %s %s %s %d %s %s %s", hlib.CoqBool(isGen), hlib.CoqBool(parGen), coqZ(er), coqZ(z0(bs.Diff)), bs.Num, coqZ(bs.ptNumBig()), psCoq(bs), coqOptZ(r))
}

// ---------- verify pairs after the fork ----------

// forkParent turns the parent of a fabricated pair into a block of the regime after the fork. variant:
//   0  zone-order parent whose prime terminus number is past the fork block: the child's share fields follow the averages
//   1  zone-order parent ON the fork block: the child is on the fork block too (initial values again)
//   2  prime-order parent with prime number == fork block, itself before the fork (no share fields): the child is the
//      first block of the new regime, its base fee is still derived with the old formula
//   3  prime-order parent past the fork: the child's prime terminus number is the parent's prime number
func forkParent(c *ctxT, e *EnvSpec, ps *HSpec, target *big.Int, variant int) {
	f := params.KawPowForkBlock
	window := params.KawPowTransitionPeriod - 2
	switch variant {
	case 0:
		ps.Pow = powFor(c, target, true).String()
		ps.PTNum = f + 1 + c.rng.Next()%window
	case 1:
		ps.Pow = powFor(c, target, true).String()
		ps.PTNum = f
	case 2, 3:
		ps.Pow = powFor(c, target, false).String()
		big1 := new(big.Int).Mul(two64, big.NewInt(int64(2000+c.rng.Intn(2000))))
		ps.PD[2], ps.PD[1] = big1.String(), new(big.Int).Mul(big1, big.NewInt(3)).String()
		if variant == 2 {
			ps.NumPrime, ps.PTNum = f, f-1-c.rng.Next()%1000
		} else {
			ps.PTNum = f + c.rng.Next()%(window/2)
			ps.NumPrime = ps.PTNum + 1 + c.rng.Next()%(window/2)
		}
	}
	e.PT.NumPrime = ps.PTNum
	if ps.PTNum >= f {
		// no shares with AuxPow in the body of a verify parent: a header with AuxPow does not survive the database round
		// trip of the store scenario unchanged (the fabricated AuxPow is not a complete one); the share counts of
		// CountWorkSharesByAlgo are exercised by the "share" cases
		ps.Sh = genShareData(c)
		if c.rng.Chance(40) {
			ps.NUncles = 1 + c.rng.Intn(6) // ProgPoW shares: counted as kawpow, the post-fork work-share entropy is log2(n)
		}
	}
}

// shareDeviations: every share field of the child moved by one, replaced by the parent's value, and (before the fork)
// present although it must be absent
func shareDeviations() []deviation {
	var out []deviation
	for i := 0; i < 9; i++ {
		i := i
		out = append(out, deviation{shNames[i] + "+1", func(ch *HSpec, e *EnvSpec, ps HSpec) bool {
			if ch.Sh == nil || ch.Sh.get(i) == nil {
				return false
			}
			n := *ch.Sh
			n[i] = new(big.Int).Add(ch.Sh.get(i), big.NewInt(1)).String()
			ch.Sh = &n
			return true
		}})
		out = append(out, deviation{shNames[i] + "-1", func(ch *HSpec, e *EnvSpec, ps HSpec) bool {
			if ch.Sh == nil || ch.Sh.get(i) == nil || ch.Sh.get(i).Sign() <= 0 {
				return false
			}
			n := *ch.Sh
			n[i] = new(big.Int).Sub(ch.Sh.get(i), big.NewInt(1)).String()
			ch.Sh = &n
			return true
		}})
		out = append(out, deviation{shNames[i] + "=parent's", func(ch *HSpec, e *EnvSpec, ps HSpec) bool {
			if ch.Sh == nil || ch.Sh.get(i) == nil || ps.Sh == nil || ps.Sh.get(i) == nil || ps.Sh.get(i).Cmp(ch.Sh.get(i)) == 0 {
				return false
			}
			n := *ch.Sh
			n[i] = ps.Sh.get(i).String()
			ch.Sh = &n
			return true
		}})
		out = append(out, deviation{shNames[i] + "+2^64", func(ch *HSpec, e *EnvSpec, ps HSpec) bool {
			if ch.Sh == nil || ch.Sh.get(i) == nil {
				return false
			}
			n := *ch.Sh
			n[i] = new(big.Int).Add(ch.Sh.get(i), two64).String()
			ch.Sh = &n
			return true
		}})
		out = append(out, deviation{shNames[i] + "-present-before-fork", func(ch *HSpec, e *EnvSpec, ps HSpec) bool {
			if postFork(*ch) {
				return false
			}
			n := nilShares()
			if ch.Sh != nil {
				*n = *ch.Sh
			}
			n[i] = []string{"0", "1", "12884901888"}[i%3]
			ch.Sh = n
			return true
		}})
	}
	return out
}

func isShareDev(name string) bool {
	for _, n := range shNames {
		if strings.HasPrefix(name, n+"+") || strings.HasPrefix(name, n+"-") || strings.HasPrefix(name, n+"=") {
			return true
		}
	}
	return false
}

// forkCase: the case needs the model of both regimes (CVerifyX): a header after the fork, or share fields present
func forkCase(cs Case) bool {
	for _, h := range cs.H[:2] {
		if postFork(h) || h.Sh != nil {
			return true
		}
	}
	return false
}

package main

import (
	"fmt"
	"math/big"
	"sync"

	"github.com/dominant-strategies/go-quai/common"
	"github.com/dominant-strategies/go-quai/consensus"
	"github.com/dominant-strategies/go-quai/core"
	"github.com/dominant-strategies/go-quai/core/rawdb"
	"github.com/dominant-strategies/go-quai/core/types"
	"github.com/dominant-strategies/go-quai/ethdb"
	"github.com/dominant-strategies/go-quai/params"

	"verifharness/hlib"
)

// HSpec describes a header to fabricate (inputs only).
type HSpec struct {
	Genesis    bool      `json:"genesis,omitempty"` // its hash is registered as a genesis hash
	LocEmpty   bool      `json:"loc_empty,omitempty"`
	Num        uint64    `json:"num"`
	NumPrime   uint64    `json:"num_prime,omitempty"`
	NumRegion  uint64    `json:"num_region,omitempty"`
	Time       uint64    `json:"time"`
	Diff       string    `json:"diff"`
	Pow        string    `json:"pow"` // the pow hash the stub engine returns for this header
	PE         [3]string `json:"pe"`
	PD         [3]string `json:"pd"`
	PUD        [3]string `json:"pud"`
	Uncled     string    `json:"uncled"`
	Expansion  uint8     `json:"expansion,omitempty"`
	GasLimit   uint64    `json:"gas_limit,omitempty"`
	GasUsed    uint64    `json:"gas_used,omitempty"`
	StateLimit uint64    `json:"state_limit,omitempty"`
	StateUsed  uint64    `json:"state_used,omitempty"`
	BaseFee    string    `json:"base_fee"`
	PTHash     string    `json:"pt_hash,omitempty"` // hex
	PTNum      uint64    `json:"pt_num,omitempty"`
	Parent     string    `json:"parent,omitempty"` // hex, zone parent hash
	NUncles    int       `json:"n_uncles,omitempty"`
	Nonce      uint64    `json:"nonce,omitempty"`
	Threshold  uint16    `json:"threshold,omitempty"`
	ExRate     string    `json:"ex_rate,omitempty"`
	Extra      int       `json:"extra,omitempty"` // length of the extra-data field
	// header numbers are *big.Int decoded from the wire without a width limit: the parts beyond uint64 (decimal, added
	// to Num / NumPrime / PTNum)
	NumX      string      `json:"num_x,omitempty"`
	NumPrimeX string      `json:"num_prime_x,omitempty"`
	PTNumX    string      `json:"pt_num_x,omitempty"`
	Shares    []ShareSpec `json:"shares,omitempty"` // work shares / uncles in the body (before the KawPow fork)
	// location of the header (and of its coinbase / work shares): nil = [0,0]; LocEmpty wins
	Loc []int `json:"loc,omitempty"`
	// the share-difficulty fields of the work-object header (nil: absent before the fork / the type's defaults after it) and
	// shares with AuxPow in the body (after the KawPow fork; see fork.go)
	Sh  *ShSpec    `json:"sh,omitempty"`
	Aux []AuxShare `json:"aux,omitempty"`

	wsHint string // generator only: WorkShareLogEntropy of the block as observed when the pair was fabricated
}

// ShareSpec describes one work share (uncle header) of a block body.
type ShareSpec struct {
	Parent string `json:"parent"` // hex: the stored block the share was mined on
	Num    uint64 `json:"num"`
	Time   uint64 `json:"time"`
	Diff   string `json:"diff"`
	PTNum  uint64 `json:"pt_num,omitempty"`
	Nonce  uint64 `json:"nonce"`
	Pow    string `json:"pow"` // the pow hash the stub engine returns for the share
}

func addX(lo uint64, x string) *big.Int { return new(big.Int).Add(u(lo), z0(x)) }
func (s HSpec) numBig() *big.Int        { return addX(s.Num, s.NumX) }
func (s HSpec) numPrimeBig() *big.Int   { return addX(s.NumPrime, s.NumPrimeX) }
func (s HSpec) ptNumBig() *big.Int      { return addX(s.PTNum, s.PTNumX) }

// shareHeaders fabricates the work-share headers of s (deterministic: the same spec gives the same hashes).
func shareHeaders(s HSpec) []*types.WorkObjectHeader {
	us := make([]*types.WorkObjectHeader, len(s.Shares))
	zoneLoc := locOf(s.Loc)
	for i, sh := range s.Shares {
		uw := types.EmptyWorkObject(common.ZONE_CTX).WorkObjectHeader()
		uw.SetLocation(zoneLoc)
		uw.SetPrimaryCoinbase(common.ZeroAddress(zoneLoc))
		uw.SetNumber(u(sh.Num))
		uw.SetParentHash(common.HexToHash(sh.Parent))
		uw.SetTime(sh.Time)
		uw.SetDifficulty(z0(sh.Diff))
		uw.SetPrimeTerminusNumber(u(sh.PTNum))
		uw.SetNonce(types.EncodeNonce(sh.Nonce))
		uw.SetData([]byte{0})
		uw.SetShaDiffAndCount(types.NewPowShareDiffAndCount(nil, nil, nil))
		uw.SetScryptDiffAndCount(types.NewPowShareDiffAndCount(nil, nil, nil))
		uw.SetShaShareTarget(nil)
		uw.SetScryptShareTarget(nil)
		uw.SetKawpowDifficulty(nil)
		us[i] = uw
	}
	return us
}

func z0(s string) *big.Int {
	if s == "" {
		return big.NewInt(0)
	}
	return bi(s)
}

func defaultH() HSpec {
	return HSpec{Diff: "1000000", Pow: "1", PE: [3]string{"0", "0", "0"}, PD: [3]string{"0", "0", "0"}, PUD: [3]string{"0", "0", "0"}, Uncled: "0", BaseFee: "0"}
}

var zoneLoc = common.Location{0, 0}

// locOf: a zone location from its spec (nil = [0,0])
func locOf(l []int) common.Location {
	if len(l) != 2 {
		return common.Location{0, 0}
	}
	return common.Location{byte(l[0]), byte(l[1])}
}

func isLoc00(l []int) bool { return len(l) != 2 || (l[0] == 0 && l[1] == 0) }

// build fabricates the WorkObject described by s (zone view object; the prime/region numbers live in the Header()).
func build(s HSpec) *types.WorkObject {
	wo := types.EmptyWorkObject(common.ZONE_CTX)
	wh := wo.WorkObjectHeader()
	h := wo.Header()
	zoneLoc := locOf(s.Loc)
	loc := zoneLoc
	if s.LocEmpty {
		loc = common.Location{}
	}
	wh.SetLocation(loc)
	wh.SetPrimaryCoinbase(common.ZeroAddress(zoneLoc))
	wh.SetNumber(s.numBig())
	wh.SetTime(s.Time)
	wh.SetDifficulty(z0(s.Diff))
	wh.SetPrimeTerminusNumber(s.ptNumBig())
	wh.SetNonce(types.EncodeNonce(s.Nonce))
	wh.SetData([]byte{0})
	wh.SetLock(0)
	if s.Parent != "" {
		wh.SetParentHash(common.HexToHash(s.Parent))
	}
	// before the KawPow fork the share fields must be absent
	if s.Sh != nil {
		setShares(wh, s.Sh)
	} else if s.PTNum < params.KawPowForkBlock {
		wh.SetShaDiffAndCount(types.NewPowShareDiffAndCount(nil, nil, nil))
		wh.SetScryptDiffAndCount(types.NewPowShareDiffAndCount(nil, nil, nil))
		wh.SetShaShareTarget(nil)
		wh.SetScryptShareTarget(nil)
		wh.SetKawpowDifficulty(nil)
	}
	h.SetNumber(s.numPrimeBig(), common.PRIME_CTX)
	h.SetNumber(u(s.NumRegion), common.REGION_CTX)
	for i := 0; i < 3; i++ {
		h.SetParentEntropy(z0(s.PE[i]), i)
		h.SetParentDeltaEntropy(z0(s.PD[i]), i)
		h.SetParentUncledDeltaEntropy(z0(s.PUD[i]), i)
	}
	h.SetUncledEntropy(z0(s.Uncled))
	h.SetExpansionNumber(s.Expansion)
	h.SetGasLimit(s.GasLimit)
	h.SetGasUsed(s.GasUsed)
	h.SetStateLimit(s.StateLimit)
	h.SetStateUsed(s.StateUsed)
	h.SetBaseFee(z0(s.BaseFee))
	if s.PTHash != "" {
		h.SetPrimeTerminusHash(common.HexToHash(s.PTHash))
	}
	h.SetThresholdCount(s.Threshold)
	h.SetExchangeRate(z0(s.ExRate))
	if s.Extra > 0 {
		h.SetExtra(make([]byte, s.Extra))
	}
	if len(s.Aux) > 0 {
		us := auxShareHeaders(s)
		wo.Body().SetUncles(us)
		h.SetUncleHash(types.CalcUncleHash(us))
	} else if len(s.Shares) > 0 {
		us := shareHeaders(s)
		wo.Body().SetUncles(us)
		h.SetUncleHash(types.CalcUncleHash(us))
	} else if s.NUncles > 0 {
		us := make([]*types.WorkObjectHeader, s.NUncles)
		for i := range us {
			uw := types.EmptyWorkObject(common.ZONE_CTX).WorkObjectHeader()
			uw.SetNonce(types.EncodeNonce(uint64(i) + 1))
			uw.SetLocation(zoneLoc)
			us[i] = uw
		}
		wo.Body().SetUncles(us)
		h.SetUncleHash(types.CalcUncleHash(us))
	}
	wh.SetHeaderHash(h.Hash())
	return wo
}

// ---------- stub engine: the PoW functions are not the subject of C09 ----------

type stubEngine struct {
	mu  sync.Mutex
	pow map[common.Hash]common.Hash
}

func (e *stubEngine) Seal(*types.WorkObject, chan<- *types.WorkObject, <-chan struct{}) error { return nil }
func (e *stubEngine) ComputePowHash(h *types.WorkObjectHeader) (common.Hash, error) {
	e.mu.Lock()
	defer e.mu.Unlock()
	if p, ok := e.pow[h.Hash()]; ok {
		return p, nil
	}
	// default: a mid-size hash
	return common.BytesToHash(pow2(200).Bytes()), nil
}
func (e *stubEngine) ComputePowLight(h *types.WorkObjectHeader) (common.Hash, common.Hash) {
	p, _ := e.ComputePowHash(h)
	return common.Hash{}, p
}
func (e *stubEngine) SetThreads(int) {}

var _ consensus.Engine = (*stubEngine)(nil)

// ---------- a minimal chain ----------

type chain struct {
	ctx    int
	db     ethdb.Database
	hc     *core.HeaderChain
	eng    *stubEngine
	prime  map[common.Hash]*types.WorkObject // what fetchPrimeBlock returns
	gen    []common.Hash
	dl     *big.Int
	mind   *big.Int
	gasCap uint64
	cfg    *params.ChainConfig
	pc     params.PowConfig
}

func newChain(ctx int, dl, mind *big.Int, gasCeil uint64) *chain {
	return newChainAt(ctx, nil, dl, mind, gasCeil)
}

// newChainAt: zoneLoc = the node location of a zone node (nil = [0,0]); region / prime nodes sit at [0] / []
func newChainAt(ctx int, zone []int, dl, mind *big.Int, gasCeil uint64) *chain {
	logger := hlib.QuietLogs()
	loc := locOf(zone)
	switch ctx {
	case common.PRIME_CTX:
		loc = common.Location{}
	case common.REGION_CTX:
		loc = common.Location{loc[0]} // the region of the zone location
	}
	ch := &chain{ctx: ctx, db: rawdb.NewMemoryDatabase(logger), eng: &stubEngine{pow: map[common.Hash]common.Hash{}},
		prime: map[common.Hash]*types.WorkObject{}, dl: dl, mind: mind, gasCap: gasCeil}
	cfg := &params.ChainConfig{ChainID: big.NewInt(1337), Location: loc}
	pc := params.PowConfig{PowMode: params.ModeNormal, DurationLimit: dl, MinDifficulty: mind, GasCeil: gasCeil, NodeLocation: loc, WorkShareThreshold: params.WorkSharesThresholdDiff}
	ch.cfg, ch.pc = cfg, pc
	ch.hc = core.VerifC09NewHeaderChain(ch.db, cfg, pc, []consensus.Engine{ch.eng, ch.eng}, func(h common.Hash) *types.WorkObject { return ch.prime[h] }, logger)
	return ch
}

// restart replaces the header chain object by a new one over the SAME database (what a node restart does: every memo is
// gone, the stored blocks, candidates, termini and genesis hashes stay)
func (ch *chain) restart() {
	ch.hc = core.VerifC09NewHeaderChain(ch.db, ch.cfg, ch.pc, []consensus.Engine{ch.eng, ch.eng}, func(h common.Hash) *types.WorkObject { return ch.prime[h] }, hlib.QuietLogs())
}

func (ch *chain) setPow(wo *types.WorkObject, pow *big.Int) {
	ch.eng.mu.Lock()
	ch.eng.pow[wo.Hash()] = common.BytesToHash(pow.Bytes())
	ch.eng.mu.Unlock()
}

// setSharePows registers the pow hashes of the work shares of s with the stub engine.
func (ch *chain) setSharePows(s HSpec) {
	if len(s.Shares) == 0 {
		return
	}
	us := shareHeaders(s)
	ch.eng.mu.Lock()
	for i, uw := range us {
		ch.eng.pow[uw.Hash()] = common.BytesToHash(z0(s.Shares[i].Pow).Bytes())
	}
	ch.eng.mu.Unlock()
}

// put writes the block the way the chain stores appended blocks (termini, number index, header and body).
func (ch *chain) put(wo *types.WorkObject) {
	rawdb.WriteTermini(ch.db, wo.Hash(), types.EmptyTermini())
	rawdb.WriteHeaderNumber(ch.db, wo.Hash(), wo.NumberU64(ch.ctx))
	rawdb.WriteWorkObject(ch.db, wo.Hash(), wo, types.BlockObject, ch.ctx)
}

func (ch *chain) markGenesis(wo *types.WorkObject) {
	ch.gen = append(ch.gen, wo.Hash())
	rawdb.WriteGenesisHashes(ch.db, ch.gen)
}

// add = build + pow registration + optional genesis registration + store
func (ch *chain) add(s HSpec, store bool) *types.WorkObject {
	wo := build(s)
	ch.setPow(wo, z0(s.Pow))
	ch.setSharePows(s)
	if s.Genesis {
		ch.markGenesis(wo)
	}
	if store {
		ch.put(wo)
	}
	return wo
}

// hashZ: the identity of a block in the model = the first 8 bytes of its hash (projection; keeps the Coq terms small)
func hashZ(h common.Hash) *big.Int { return new(big.Int).SetBytes(h.Bytes()[:8]) }

// coqHeader prints the model header for the fabricated object as a node of context ctx sees it.
func coqHeader(ch *chain, wo *types.WorkObject, s HSpec) string {
	ws := big.NewInt(0)
	if ch.ctx == common.ZONE_CTX {
		func() {
			defer func() { recover() }()
			if w, err := ch.hc.WorkShareLogEntropy(wo); err == nil {
				ws = w
			}
		}()
	}
	num := s.numBig()
	switch ch.ctx {
	case common.PRIME_CTX:
		num = s.numPrimeBig()
	case common.REGION_CTX:
		num = u(s.NumRegion)
	}
	return fmt.Sprintf("(mkH %s %s %s %s %d %s %s %s %s %s %s %s %s %s %s %s %d %d %d %d %d %s %s %s)",
		coqZ(hashZ(wo.Hash())), hlib.CoqBool(s.Genesis), coqZ(num), coqZ(s.numPrimeBig()), s.Time, coqZ(z0(s.Diff)), coqZ(z0(s.Pow)), coqZ(ws),
		coqZ(z0(s.PE[0])), coqZ(z0(s.PE[1])), coqZ(z0(s.PE[2])), coqZ(z0(s.PD[1])), coqZ(z0(s.PD[2])),
		coqZ(z0(s.PUD[1])), coqZ(z0(s.PUD[2])), coqZ(z0(s.Uncled)), s.Expansion, s.GasLimit, s.GasUsed, s.StateLimit, s.StateUsed,
		coqZ(z0(s.BaseFee)), coqZ(hashZ(wo.PrimeTerminusHash())), coqZ(s.ptNumBig()))
}

// ---------- CalcOrder ----------

type coRes struct {
	kind    string // ok err panic
	entropy *big.Int
	order   int
}

func (r coRes) coq() string {
	switch r.kind {
	case "ok":
		return fmt.Sprintf("(CoOk %s %d)", coqZ(r.entropy), r.order)
	case "err":
		return "CoErr"
	}
	return "CoPanic"
}
func (r coRes) eq(o coRes) bool {
	if r.kind != o.kind {
		return false
	}
	return r.kind != "ok" || (r.entropy.Cmp(o.entropy) == 0 && r.order == o.order)
}
func (r coRes) class() string {
	if r.kind == "ok" {
		return fmt.Sprintf("ok%d", r.order)
	}
	return r.kind
}

func calcOrder(ch *chain, wo *types.WorkObject) (res coRes) {
	defer func() {
		if r := recover(); r != nil {
			res = coRes{kind: "panic"}
		}
	}()
	e, o, err := ch.hc.CalcOrder(wo)
	if err != nil {
		return coRes{kind: "err"}
	}
	return coRes{kind: "ok", entropy: new(big.Int).Set(e), order: o}
}

func defaultChain(ctx int) *chain {
	return newChain(ctx, big.NewInt(5), big.NewInt(1000), 50000000)
}

// chainFor: the functions of these cases do not depend on WHICH zone / region the node serves; the node location is
// spread over the slices by the case id (replayable) so that a dependence on it shows up as a mismatch with the model
func chainFor(ctx int, id uint64) *chain {
	ch := newChainAt(ctx, nodeLocs[id%uint64(len(nodeLocs))], big.NewInt(5), big.NewInt(1000), 50000000)
	ch.hc.SetCurrentExpansionNumber(nodeExpansion(id))
	return ch
}

// nodeExpansion: the node's OWN "current expansion number" (HeaderChain.SetCurrentExpansionNumber: given at start-up,
// bumped when the tree expands).  It is node-local mutable state; no function of this property may depend on it - the
// thresholds of a block are sized by the expansion number recorded IN the block.  Spread over the cases by their id.
func nodeExpansion(id uint64) uint8 { return []uint8{0, 1, 2, 3, 7, 255, 0, 1, 4}[id%9] }

// sideChain makes the stored blocks of the scenario a NON-canonical branch: the canonical number index
// (rawdb.WriteCanonicalHash, what GetHeaderByNumber / GetCanonicalHash read) names, for every height around the given
// ones, a decoy block with another timestamp / difficulty that is stored like an appended block.  Ancestors are found by
// the parent hash a header records; whatever resolves a block through the number index sees the decoy.
func (ch *chain) sideChain(time uint64, diff string, heights ...uint64) {
	seen := map[uint64]bool{}
	for _, h0 := range heights {
		for d := uint64(0); d < 4; d++ {
			h := h0 + 1 - d // h0+1, h0, h0-1, h0-2 (wraps like the uint64 arithmetic of a lookup would)
			if seen[h] {
				continue
			}
			seen[h] = true
			s := defaultH()
			s.Num, s.Nonce, s.Diff = h, 0xdec0+h%7, diff
			s.Time = time - 7 - 3*(h%5) // never the timestamp of the real ancestor's slot
			wo := ch.add(s, true)
			rawdb.WriteCanonicalHash(ch.db, wo.Hash(), h)
		}
	}
}

func (c *ctxT) runOrder(cs Case) string {
	ctx := int(bi(cs.Z[0]).Int64())
	ch := chainFor(ctx, cs.ID)
	s := cs.H[0]
	wo := ch.add(s, false)
	r1 := calcOrder(ch, wo)
	// monitor: order is a deterministic function of the header — repeated (memoised) and cold-cache calls agree
	r2 := calcOrder(ch, wo)
	ch.hc.VerifC09PurgeCaches()
	r3 := calcOrder(ch, wo)
	ch2 := chainFor(ctx, cs.ID+1) // "restart": a fresh chain object (of the neighbouring slice: the order of a block is the same everywhere)
	wo2 := ch2.add(s, false)
	r4 := calcOrder(ch2, wo2)
	if !r1.eq(r2) || !r1.eq(r3) || !r1.eq(r4) {
		c.rep.Fail("CalcOrder:unstable", fmt.Sprintf("CalcOrder differs across repeated/cold/restarted calls: %s %s %s %s", r1.coq(), r2.coq(), r3.coq(), r4.coq()), cs)
	}
	if r1.kind == "ok" && wo.NumberU64(ctx) != 0 {
		// monitor: an accepted seal has positive entropy and the returned entropy is the intrinsic entropy of the pow hash
		if r1.entropy.Sign() <= 0 && z0(s.Diff).Cmp(big.NewInt(2)) >= 0 {
			c.rep.Fail("CalcOrder:entropy-not-positive", "accepted seal with difficulty >= 2 has entropy <= 0", cs)
		}
		if r1.order < common.PRIME_CTX || r1.order > common.ZONE_CTX {
			c.rep.Fail("CalcOrder:order-range", "order outside {0,1,2}", cs)
		}
		// monitor (the protocol's threshold rule, restated): prime iff entropy > zoneThreshold + log2(primeTarget) and
		// recorded region+zone deltas + entropy > primeTarget*zoneThreshold/2; else region iff the same with the region
		// target and the zone delta only; else zone.  The returned entropy is the intrinsic entropy of the seal.
		ie := common.IntrinsicLogEntropy(common.BytesToHash(z0(s.Pow).Bytes()))
		zt := zoneThreshold(z0(s.Diff))
		if zt != nil {
			pet, ret := params.PrimeEntropyTarget(s.Expansion), params.RegionEntropyTarget(s.Expansion)
			above := func(tgt *big.Int, deltas ...string) bool {
				thr := new(big.Int).Add(zt, common.LogBig(tgt))
				sum := new(big.Int).Set(ie)
				for _, d := range deltas {
					sum.Add(sum, z0(d))
				}
				lim := new(big.Int).Div(new(big.Int).Mul(tgt, zt), big.NewInt(2))
				return ie.Cmp(thr) > 0 && sum.Cmp(lim) > 0
			}
			want := common.ZONE_CTX
			if above(pet, s.PD[1], s.PD[2]) {
				want = common.PRIME_CTX
			} else if above(ret, s.PD[2]) {
				want = common.REGION_CTX
			}
			if r1.order != want {
				c.rep.Fail("CalcOrder:thresholds", fmt.Sprintf("order %d but the threshold rule gives %d", r1.order, want), cs)
			}
			if r1.entropy.Cmp(ie) != 0 {
				c.rep.Fail("CalcOrder:entropy", "returned entropy is not the intrinsic entropy of the pow hash", cs)
			}
		}
		c.rep.Nontrivial("order:" + r1.class())
	}
	c.rep.Count("order:" + r1.class())
	return fmt.Sprintf("COrder %s %s", coqHeader(ch, wo, s), r1.coq())
}

// ---------- Total / Delta / UncledDelta LogEntropy ----------

func (c *ctxT) runTotals(cs Case) string {
	ctx := int(bi(cs.Z[0]).Int64())
	ch := chainFor(ctx, cs.ID)
	s := cs.H[0]
	wo := ch.add(s, false)
	var t, d, ud *big.Int
	ok := true
	func() {
		defer func() {
			if r := recover(); r != nil {
				ok = false
			}
		}()
		t = ch.hc.TotalLogEntropy(wo)
		d = ch.hc.DeltaLogEntropy(wo)
		ud = ch.hc.UncledDeltaLogEntropy(wo)
	}()
	if !ok {
		c.rep.Count("totals:panic")
		return "" // panics of CalcOrder are covered by the order cases
	}
	// monitor: stable across cold caches
	ch.hc.VerifC09PurgeCaches()
	if t2 := ch.hc.TotalLogEntropy(wo); t2.Cmp(t) != 0 {
		c.rep.Fail("TotalLogEntropy:unstable", "TotalLogEntropy differs between warm and cold memo", cs)
	}
	r := calcOrder(ch, wo)
	if r.kind == "ok" && !s.Genesis && wo.NumberU64(ctx) != 0 {
		// monitor (accumulation): total = recorded parent entropy of the block's order (+ recorded deltas) + own entropy (+ work shares in a zone)
		own := new(big.Int).Set(r.entropy)
		if ctx == common.ZONE_CTX {
			if w, err := ch.hc.WorkShareLogEntropy(wo); err == nil {
				own.Add(own, w)
			}
		}
		want := new(big.Int).Set(own)
		switch r.order {
		case common.PRIME_CTX:
			want.Add(want, z0(s.PE[0])).Add(want, z0(s.PD[1])).Add(want, z0(s.PD[2]))
		case common.REGION_CTX:
			want.Add(want, z0(s.PE[1])).Add(want, z0(s.PD[2]))
		default:
			want.Add(want, z0(s.PE[2]))
		}
		if want.Cmp(t) != 0 {
			c.rep.Fail("TotalLogEntropy:accumulation", "TotalLogEntropy != recorded parent entropy (+deltas) + own entropy", cs)
		}
		c.rep.Nontrivial("totals:" + r.class())
	}
	c.rep.Count("totals:" + r.class())
	return fmt.Sprintf("CTotals %d %s %s %s %s", ctx, coqHeader(ch, wo, s), coqZ(t), coqZ(d), coqZ(ud))
}

func (c *ctxT) runWsPost(cs Case) string {
	n := int(bi(cs.Z[0]).Int64())
	ch := chainFor(common.ZONE_CTX, cs.ID)
	s := defaultH()
	s.Num, s.PTNum, s.NUncles = 5, params.KawPowForkBlock+1, n
	wo := ch.add(s, false)
	w, err := ch.hc.WorkShareLogEntropy(wo)
	if err != nil {
		panic(err)
	}
	if w.Sign() < 0 {
		c.rep.Fail("WorkShareLogEntropy:negative", "negative work-share entropy", cs)
	}
	if n > 1 {
		c.rep.Nontrivial(fmt.Sprintf("wspost:%d", n))
	}
	return fmt.Sprintf("CWsPost %d %s", n, coqZ(w))
}

// ---------- CalcDifficulty ----------

func (c *ctxT) runDiff(cs Case) string {
	if cs.Kind == "diffgen" {
		return c.runDiffGen(cs)
	}
	// Z: dl mind pd pt gpKind(0 none,1 genesis,2 time) gpt
	dl, mind, pd, pt := bi(cs.Z[0]), bi(cs.Z[1]), bi(cs.Z[2]), bi(cs.Z[3]).Uint64()
	gpKind, gpt := bi(cs.Z[4]).Int64(), bi(cs.Z[5]).Uint64()
	ch := newChainAt(common.ZONE_CTX, nodeLocs[cs.ID%uint64(len(nodeLocs))], dl, mind, 50000000)
	gs := defaultH()
	gs.Num, gs.Time, gs.Nonce = 7, gpt, 99
	gs.Genesis = gpKind == 1
	gp := ch.add(gs, gpKind != 0)
	ps := defaultH()
	ps.Num, ps.Time, ps.Diff, ps.Parent = 8, pt, pd.String(), gp.Hash().Hex()
	parent := ch.add(ps, true)
	r := guard(func() *big.Int { return ch.hc.CalcDifficulty(parent.WorkObjectHeader(), parent.ExpansionNumber()) })
	// monitor: the difficulty is derived from the parent and the block its parent hash names - not from whatever block
	// the canonical number index holds at that height (the parent may sit on a side chain), not from the node's own
	// expansion number, not from a memo
	ch.sideChain(gpt, pd.String(), 8)
	ch.hc.SetCurrentExpansionNumber(nodeExpansion(cs.ID + 1))
	ch.hc.VerifC09PurgeCaches()
	r2 := guard(func() *big.Int { return ch.hc.CalcDifficulty(parent.WorkObjectHeader(), parent.ExpansionNumber()) })
	if (r == nil) != (r2 == nil) || (r != nil && r.Cmp(r2) != 0) {
		c.rep.Fail("CalcDifficulty:depends-on-node-state", fmt.Sprintf("CalcDifficulty(parent) = %v, and %v once the canonical number index names other blocks at the heights around the parent (the parent on a side chain) and the node's expansion number changed", r, r2), cs)
	}
	gpCoq := "GpNone"
	switch gpKind {
	case 1:
		gpCoq = "GpGenesis"
	case 2:
		gpCoq = fmt.Sprintf("(GpTime %d)", gpt)
	}
	if r != nil && gpKind == 2 && pd.Sign() > 0 {
		// monitors: floor, direction, bounded step (independent of the model)
		if r.Cmp(mind) < 0 {
			c.rep.Fail("CalcDifficulty:floor", "difficulty below MinDifficulty", cs)
		}
		td := int64(pt) - int64(gpt)
		if mind.Cmp(pd) <= 0 && dl.Sign() > 0 {
			if td <= dl.Int64() && r.Cmp(pd) < 0 {
				c.rep.Fail("CalcDifficulty:direction", "block time <= duration limit but difficulty decreased", cs)
			}
			if td >= dl.Int64() && r.Cmp(pd) > 0 {
				c.rep.Fail("CalcDifficulty:direction", "block time >= duration limit but difficulty increased", cs)
			}
		}
		if td >= 0 && dl.Sign() > 0 {
			k := int64(pd.BitLen() - 1)
			fp := new(big.Int).Mul(big.NewInt(params.DifficultyAdjustmentFactor), params.DifficultyAdjustmentPeriod)
			up := new(big.Int).Div(new(big.Int).Mul(pd, big.NewInt(k)), fp)
			up.Add(up, pd)
			if up.Cmp(mind) < 0 {
				up.Set(mind)
			}
			if r.Cmp(up) > 0 {
				c.rep.Fail("CalcDifficulty:step-up", "difficulty rose by more than parent*log2(parent)/(factor*period)", cs)
			}
			worst := params.MaxTimeDiffBetweenBlocks - dl.Int64()
			if worst < 0 {
				worst = 0
			}
			down := new(big.Int).Mul(pd, big.NewInt(k*worst))
			down.Div(down, new(big.Int).Mul(fp, dl))
			lo := new(big.Int).Sub(pd, down)
			lo.Sub(lo, big.NewInt(1))
			if r.Cmp(lo) < 0 {
				c.rep.Fail("CalcDifficulty:step-down", "difficulty fell by more than the bound for the maximal time difference", cs)
			}
		}
		c.rep.Nontrivial(fmt.Sprintf("diff:%d:%d", r.Cmp(pd), r.Cmp(mind)))
	}
	c.rep.Count(fmt.Sprintf("diff:gp%d", gpKind))
	return fmt.Sprintf("CDiff %s %s %s %d %s %s", coqZ(dl), coqZ(mind), coqZ(pd), pt, gpCoq, coqOptZ(r))
}

// genesis parent.  B: first(expansion 0 and empty location) second(genesis expansion > 0 and default genesis hash); Z: pd pe_prime expansionNum
func (c *ctxT) runDiffGen(cs Case) string {
	pd, pep, exp := bi(cs.Z[0]), bi(cs.Z[1]), uint8(bi(cs.Z[2]).Uint64())
	first, second := cs.B[0], cs.B[1]
	ch := chainFor(common.ZONE_CTX, cs.ID)
	gs := defaultH()
	gs.Genesis, gs.Diff, gs.LocEmpty = true, pd.String(), first
	gs.PE[0] = pep.String()
	if second {
		gs.Expansion = 1
	}
	expArg := exp
	if first {
		expArg = 0
	}
	g := ch.add(gs, true)
	if second {
		ch.hc.Config().DefaultGenesisHash = g.Hash()
	}
	r := guard(func() *big.Int { return ch.hc.CalcDifficulty(g.WorkObjectHeader(), expArg) })
	c.rep.Count(fmt.Sprintf("diffgen:%v:%v", first, second))
	return fmt.Sprintf("CDiffGen %s (mkG %s %s %s %d) %s", coqZ(pd), hlib.CoqBool(first), hlib.CoqBool(second), coqZ(pep), expArg, coqOptZ(r))
}

// ---------- CalcBaseFee (pre-fork) ----------

// Z: er diff number ; B: isGenesis parentIsGenesis
func (c *ctxT) runBaseFee(cs Case) string {
	er, diff, number := bi(cs.Z[0]), bi(cs.Z[1]), bi(cs.Z[2]).Uint64()
	isGen, parGen := cs.B[0], cs.B[1]
	ch := chainFor(common.ZONE_CTX, cs.ID)
	pts := defaultH()
	pts.Num, pts.Nonce, pts.ExRate = 3, 77, er.String()
	pt := ch.add(pts, true)
	gps := defaultH()
	gps.Nonce, gps.Genesis = 78, parGen
	gp := ch.add(gps, true)
	bs := defaultH()
	bs.Num, bs.Diff, bs.Genesis, bs.PTHash, bs.Parent, bs.PTNum = number, diff.String(), isGen, pt.Hash().Hex(), gp.Hash().Hex(), 10
	b := ch.add(bs, false)
	r := guard(func() *big.Int { return ch.hc.CalcBaseFee(b) })
	if r == nil {
		panic("CalcBaseFee returned nil / panicked")
	}
	if r.Sign() < 0 {
		c.rep.Fail("CalcBaseFee:negative", "negative base fee", cs)
	}
	if !isGen {
		c.rep.Nontrivial(fmt.Sprintf("basefee:%v:%d", parGen, r.BitLen()))
	}
	return fmt.Sprintf("CBaseFee %s %s %s %s %d %s", hlib.CoqBool(isGen), hlib.CoqBool(parGen), coqZ(er), coqZ(diff), number, coqZ(r))
}

// ---------- CalcOrder memo histories ----------

type OpSpec struct {
	K string `json:"k"` // call evict purge
	I int    `json:"i"` // index into the header pool
}

func (c *ctxT) runCache(cs Case) string {
	ch := chainFor(common.ZONE_CTX, cs.ID)
	wos := make([]*types.WorkObject, len(cs.H))
	for i, s := range cs.H {
		wos[i] = ch.add(s, false)
	}
	first := map[int]coRes{}
	var ops, obs []string
	hits := 0
	for k, o := range cs.Ops {
		if (cs.ID+uint64(k))%4 == 0 { // a tree expansion in the middle of the history (node state; not part of the model)
			ch.hc.SetCurrentExpansionNumber(nodeExpansion(cs.ID + uint64(k) + 1))
		}
		switch o.K {
		case "call":
			before := ch.hc.VerifC09CalcOrderCacheLen()
			_, _, hit := ch.hc.CheckInCalcOrderCache(wos[o.I].Hash())
			r := calcOrder(ch, wos[o.I])
			if hit {
				hits++
			}
			_ = before
			if f, ok := first[o.I]; ok {
				if !f.eq(r) {
					c.rep.Fail("CalcOrder:history-unstable", "the same header got two different CalcOrder results within one history of calls and evictions", cs)
				}
			} else {
				first[o.I] = r
			}
			ops = append(ops, "OpCall "+coqHeader(ch, wos[o.I], cs.H[o.I]))
			obs = append(obs, "Some "+r.coq())
		case "evict":
			ch.hc.VerifC09EvictCalcOrder(wos[o.I].Hash())
			ops = append(ops, fmt.Sprintf("OpEvict %s", coqZ(hashZ(wos[o.I].Hash()))))
			obs = append(obs, "None")
		case "purge":
			ch.hc.VerifC09PurgeCaches()
			ops = append(ops, "OpPurge")
			obs = append(obs, "None")
		}
	}
	if hits > 0 {
		c.rep.Nontrivial(fmt.Sprintf("cache:%d:%d", len(cs.Ops), hits))
	}
	c.rep.Count(fmt.Sprintf("cache:hits<=%d", bucket(hits)))
	return fmt.Sprintf("CCache %s %s", hlib.CoqList(ops), hlib.CoqList(obs))
}

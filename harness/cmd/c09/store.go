package main

// Storage orders: HeaderChain.VerifyHeader (the gate of AppendHeader and of the gossip filter) may skip the rules only
// for a header that has ALREADY BEEN ACCEPTED into the chain (GetHeaderByHash: termini written by Slice.Append).  Blocks
// received from peers are stored as CANDIDATES (Core.WriteBlock -> HeaderChain.WriteBlock) before they are appended, a
// failed append leaves the work object behind, the caches are purged, the node restarts: none of that may change the
// verdict on a (parent, child) pair.
//
// Every verify case is therefore replayed on a fresh chain through VerifyHeader / AppendHeader in several orders
// (fresh; after WriteBlock; after a purge of every memo; after a restart on the same database; after the header was
// committed).  Monitors (model-independent):
//   VerifyHeader:differs-from-verifyHeader / AppendHeader:differs-from-verifyHeader
//        the public entry point on a never-seen header disagrees with verifyHeader(header, stored parent, now)
//   VerifyHeader:verdict-depends-on-candidate-store:<who> / AppendHeader:...
//        the verdict on the same header changed after it was merely stored as a candidate (who = valid | deviation)
//   VerifyHeader:appended-header-reverified-rejected
//        a header with termini (accepted earlier) is not short-circuited (harmless but unexpected; keeps the model honest)
// The same history is compared with C09.store_run inside Coq (case CStore).

import (
	"os"
	"fmt"
	"strings"
	"time"

	"github.com/dominant-strategies/go-quai/common"
	"github.com/dominant-strategies/go-quai/core/rawdb"
	"github.com/dominant-strategies/go-quai/core/types"

	"verifharness/hlib"
)

var storeOpCode = map[string]int{"verify": 0, "append": 1, "write": 2, "purge": 3, "restart": 4, "commit": 5}

// storeOps: the interleaving replayed for a case (derived from the case id: replayable)
func storeOps(id uint64) []string {
	switch id % 4 {
	case 0:
		return []string{"verify", "write", "verify", "purge", "verify", "append", "restart", "verify", "commit", "verify"}
	case 1:
		return []string{"write", "verify", "append", "restart", "append", "purge", "verify"}
	case 2:
		return []string{"append", "verify", "write", "write", "purge", "append", "verify", "restart", "verify"}
	}
	return []string{"verify", "append", "write", "restart", "verify", "purge", "write", "append", "commit", "append"}
}

func topVerdict(f func() error) (ok bool, panicked bool) {
	defer func() {
		if r := recover(); r != nil {
			ok, panicked = false, true
		}
	}()
	err := f()
	if err != nil && os.Getenv("C09_DEBUG") != "" { // development aid
		fmt.Fprintln(os.Stderr, "top-level verdict:", err)
	}
	return err == nil, false
}

// storePaths returns the CStore term of the case ("" when the case is outside the model)
func (c *ctxT) storePaths(cs Case) string {
	e, ps, csp := cs.Env, cs.H[0], cs.H[1]
	sc := buildScenarioPP(e, ps)
	ch := sc.ch
	child := buildChild(cs, true) // commits to the manifest registered below: AppendHeader's own check passes
	ch.setPow(child, z0(csp.Pow))
	rawdb.WriteManifest(ch.db, sc.p.Hash(), types.BlockManifest{sc.p.Hash()})
	// VerifyHeader reads the wall clock; the reference verdict is verifyHeader on the stored parent with the same clock
	// (fabricated times are years in the past or 2^64-1: no verdict sits within seconds of the boundary)
	now := time.Now().Unix()
	if t := int64(child.Time()); (t > now-3600 && t < now+3600) || now < 1700200000 { // (or a machine clock before the fabricated times)
		c.rep.Count("store:skipped-time-near-now")
		return ""
	}
	want, pan := verify(sc, child, uint64(now))
	if pan {
		c.rep.Fail("verifyHeader:panic", "verifyHeader panicked on a fabricated pair (store scenario)", cs)
		return ""
	}
	who := "deviation"
	if cs.Dev == "" || cs.Dev[0] == '=' || cs.Dev == "time-future" { // time-future moves the case's clock, not the child
		who = "valid"
	}
	if who == "valid" && !want {
		c.rep.Fail("verifyHeader:valid-rejected", "the valid child (with its manifest commitment) is rejected under the wall clock", cs)
		return ""
	}
	stored, committed := false, false
	var ops, obs []string
	failed := false
	for _, op := range storeOps(cs.ID) {
		o := "None"
		switch op {
		case "verify", "append":
			fn, name := ch.hc.VerifyHeader, "VerifyHeader"
			if op == "append" {
				fn, name = ch.hc.AppendHeader, "AppendHeader"
			}
			got, p := topVerdict(func() error { return fn(child) })
			o = "(Some " + hlib.CoqBool(got) + ")"
			if failed {
				break
			}
			switch {
			case p:
				failed = true
				c.rep.Fail(name+":panic", name+" panicked on a fabricated child", cs)
			case committed:
				if !got {
					failed = true
					c.rep.Fail(name+":appended-header-reverified-rejected", "a header that is part of the chain (termini written) is rejected by "+name, cs)
				}
			case got != want && !stored:
				failed = true
				c.rep.Fail(name+":differs-from-verifyHeader", fmt.Sprintf("%s on a never-seen header says %v, verifyHeader(header, stored parent, now) says %v", name, got, want), cs)
			case got != want:
				failed = true
				c.rep.Fail(name+":verdict-depends-on-candidate-store:"+who, fmt.Sprintf("%s says %v on a header that was stored as a candidate (HeaderChain.WriteBlock) and %v before: [%s]", name, got, want, strings.Join(ops, " ")), cs)
			}
		case "write":
			ch.hc.WriteBlock(child)
			stored = true
		case "purge":
			ch.hc.VerifC09PurgeCaches()
		case "restart":
			ch.restart()
		case "commit": // what Slice.Append does after AppendHeader succeeded: the header becomes part of the chain
			ch.put(child)
			committed = true
		}
		ops = append(ops, fmt.Sprintf("%d", storeOpCode[op]))
		obs = append(obs, o)
	}
	c.rep.Count(fmt.Sprintf("store:%s:verdict=%v", who, want))
	c.rep.Nontrivial(fmt.Sprintf("store:%s:%v:%d", who, want, cs.ID%4))
	env := *e
	env.Now = uint64(now)
	return fmt.Sprintf("CStore %s %s %s %s %s", envCoq(&env, ps), coqHeader(ch, sc.p, ps), coqHeader(ch, child, csp), hlib.CoqList(ops), hlib.CoqList(obs))
}

var _ = common.ZONE_CTX

package main

import (
	"fmt"
	"math/big"
	"os"
	"strings"

	"github.com/dominant-strategies/go-quai/common"
	"github.com/dominant-strategies/go-quai/consensus/misc"
	"github.com/dominant-strategies/go-quai/core"
	"github.com/dominant-strategies/go-quai/core/types"
	"github.com/dominant-strategies/go-quai/params"
	"github.com/dominant-strategies/go-quai/trie"

	"verifharness/hlib"
)

// EnvSpec: the chain state around the (parent, child) pair of a verify / expansion case.
type EnvSpec struct {
	Now           uint64 `json:"now"`
	DL            string `json:"dl"`
	MinD          string `json:"mind"`
	GasCeil       uint64 `json:"gas_ceil"`
	GPKind        int    `json:"gp_kind"` // 0 absent, 1 genesis, 2 ordinary
	GP            HSpec  `json:"gp"`
	PT            HSpec  `json:"pt"` // the block parent.PrimeTerminusHash() names
	PTStored      bool   `json:"pt_stored"`
	PPT           *HSpec `json:"ppt,omitempty"` // prime parent of the terminus (nil: fetchPrimeBlock finds nothing)
	DefGenesisPar bool   `json:"def_genesis_parent,omitempty"`
	Anc           []HSpec `json:"anc,omitempty"` // further stored ancestors (oldest first) below the parent's parent
	Loc           []int   `json:"loc,omitempty"` // location of the (zone) node: nil = [0,0]
}

// scenario rebuilt from specs: everything literal, so a replay reproduces the same hashes
type scenario struct {
	ch             *chain
	ppt, pt, gp, p *types.WorkObject
}

func pptHashHex(e *EnvSpec) string {
	if e.PPT == nil {
		return common.Hash{1, 2, 3}.Hex()
	}
	return build(*e.PPT).Hash().Hex()
}

// setPrimeParent: HSpec has no field for the PRIME parent hash; it is derived from the env (ppt) at build time.
func withPrimeParent(wo *types.WorkObject, e *EnvSpec) {
	wo.Header().SetParentHash(common.HexToHash(pptHashHex(e)), common.PRIME_CTX)
	wo.WorkObjectHeader().SetHeaderHash(wo.Header().Hash())
}

func ptInfoCoq(found, gen bool, exp uint8, thr uint16, ppt *HSpec) string {
	pf, pe := false, uint8(0)
	if ppt != nil {
		pf, pe = true, ppt.Expansion
	}
	return fmt.Sprintf("(mkPT %s %s %d %d %s %d)", hlib.CoqBool(found), hlib.CoqBool(gen), exp, thr, hlib.CoqBool(pf), pe)
}

func envCoq(e *EnvSpec, ps HSpec) string {
	gp := "GpNone"
	switch e.GPKind {
	case 1:
		gp = "GpGenesis"
	case 2:
		gp = fmt.Sprintf("(GpTime %d)", e.GP.Time)
	}
	first := ps.Expansion == 0 && ps.LocEmpty
	second := ps.Expansion > 0 && e.DefGenesisPar
	gcase := fmt.Sprintf("(mkG %s %s %s %d)", hlib.CoqBool(first), hlib.CoqBool(second), coqZ(z0(ps.PE[0])), ps.Expansion)
	self := ptInfoCoq(true, ps.Genesis, ps.Expansion, ps.Threshold, e.PPT)
	ref := ptInfoCoq(e.PTStored, e.PT.Genesis, e.PT.Expansion, e.PT.Threshold, e.PPT)
	loc := locOf(e.Loc)
	return fmt.Sprintf("(mkEnv %d %s %s %d %s %s %s %s %s (%d, %d))", e.Now, coqZ(bi(e.DL)), coqZ(bi(e.MinD)), e.GasCeil, gp, gcase, self, ref, coqZ(z0(e.PT.ExRate)), loc[0], loc[1])
}

// ---------- ComputeExpansionNumber ----------

func (c *ctxT) runExpansion(cs Case) string {
	sc := buildScenarioPP(cs.Env, cs.H[0])
	var r *big.Int
	func() {
		defer func() { recover() }()
		n, err := sc.ch.hc.ComputeExpansionNumber(sc.p)
		if err == nil {
			r = big.NewInt(int64(n))
		}
	}()
	if r != nil {
		c.rep.Nontrivial(fmt.Sprintf("expansion:%v:%v", cs.Env.PTStored, cs.Env.PPT != nil))
	}
	// monitor: the protocol's rule for the expansion number, restated on the facts of the scenario (which block is the
	// prime terminus, is it a genesis block of this slice, did its threshold count mature, which slice is this node)
	if po := calcOrder(sc.ch, sc.p); po.kind == "ok" {
		want, defined := protocolExpansion(cs.Env, cs.H[0], po.order == common.PRIME_CTX)
		got := -1
		if r != nil {
			got = int(r.Int64())
		}
		if (defined && got != int(want)) || (!defined && r != nil) {
			c.rep.Fail("ComputeExpansionNumber:rule", fmt.Sprintf("ComputeExpansionNumber(parent) = %d (-1: error) but the protocol rule gives %d (defined %v) at node location %v", got, want, defined, locOf(cs.Env.Loc)), cs)
		}
		c.rep.Count("expansion:" + expansionClass(cs.Env, cs.H[0], po.order == common.PRIME_CTX))
	}
	return fmt.Sprintf("CExpansion %s %s %s", envCoq(cs.Env, cs.H[0]), coqHeader(sc.ch, sc.p, cs.H[0]), coqOptZ(r))
}

// protocolExpansion restates ComputeExpansionNumber's protocol rule: the prime terminus of the child is the parent
// itself when the parent is a prime block, else the block the parent names.  Only in the original slice [0,0] a genesis
// terminus hands its expansion number down unchanged; everywhere else (and for ordinary termini) a terminus whose
// threshold count matured (trigger window + wait count) starts the next expansion, otherwise the expansion number is the
// one of the terminus' prime parent.
func protocolExpansion(e *EnvSpec, ps HSpec, parentPrime bool) (uint8, bool) {
	t, stored := e.PT, e.PTStored
	if parentPrime {
		t, stored = ps, true
	}
	if !stored {
		return 0, false
	}
	if t.Genesis && isLoc00(e.Loc) {
		return t.Expansion, true
	}
	if t.Threshold == params.TREE_EXPANSION_TRIGGER_WINDOW+params.TREE_EXPANSION_WAIT_COUNT {
		return t.Expansion + 1, true
	}
	if e.PPT == nil {
		return 0, false
	}
	return e.PPT.Expansion, true
}

// expansionClass: which branch of the rule a scenario exercises (distribution bucket)
func expansionClass(e *EnvSpec, ps HSpec, parentPrime bool) string {
	t, stored := e.PT, e.PTStored
	who := "ref"
	if parentPrime {
		t, stored, who = ps, true, "self"
	}
	l := "loc00"
	if !isLoc00(e.Loc) {
		l = "other-slice"
	}
	switch {
	case !stored:
		return l + ":" + who + ":terminus-missing"
	case t.Genesis && t.Threshold == params.TREE_EXPANSION_TRIGGER_WINDOW+params.TREE_EXPANSION_WAIT_COUNT:
		return l + ":" + who + ":matured-genesis"
	case t.Genesis:
		return l + ":" + who + ":genesis"
	case t.Threshold == params.TREE_EXPANSION_TRIGGER_WINDOW+params.TREE_EXPANSION_WAIT_COUNT:
		return l + ":" + who + ":matured"
	}
	return l + ":" + who + ":ordinary"
}

// buildScenarioPP = buildScenario where the terminus and the parent name the env's ppt as their PRIME parent.
func buildScenarioPP(e *EnvSpec, ps HSpec) *scenario {
	sc := &scenario{ch: newChainAt(common.ZONE_CTX, e.Loc, bi(e.DL), bi(e.MinD), e.GasCeil)}
	ch := sc.ch
	if e.PPT != nil {
		sc.ppt = build(*e.PPT)
		ch.prime[sc.ppt.Hash()] = sc.ppt
	}
	for _, a := range e.Anc {
		ch.add(a, true)
	}
	reg := func(s HSpec, store bool) *types.WorkObject {
		wo := build(s)
		withPrimeParent(wo, e)
		ch.setPow(wo, z0(s.Pow))
		ch.setSharePows(s)
		if s.Genesis {
			ch.markGenesis(wo)
		}
		if store {
			ch.put(wo)
		}
		return wo
	}
	sc.pt = reg(e.PT, e.PTStored)
	if e.GPKind != 0 {
		sc.gp = ch.add(e.GP, true)
	}
	sc.p = reg(ps, true)
	if os.Getenv("C09_DEBUG") != "" { // development aid
		fmt.Fprintln(os.Stderr, "parent hash:", sc.p.Hash().Hex(), "uncle hash:", sc.p.Header().UncleHash().Hex())
	}
	if e.DefGenesisPar {
		ch.hc.Config().DefaultGenesisHash = sc.p.Hash()
	}
	return sc
}

// ---------- verifyHeader ----------

func verify(sc *scenario, child *types.WorkObject, now uint64) (accepted bool, panicked bool) {
	defer func() {
		if r := recover(); r != nil {
			accepted, panicked = false, true
		}
	}()
	err := sc.ch.hc.VerifC09VerifyHeader(child, sc.p, false, int64(now))
	if err != nil && os.Getenv("C09_DEBUG") != "" { // development aid
		fmt.Fprintln(os.Stderr, "verifyHeader:", err)
	}
	return err == nil, false
}

func (c *ctxT) runVerify(cs Case) string {
	e := cs.Env
	ps, csp := cs.H[0], cs.H[1]
	sc := buildScenarioPP(e, ps)
	child := buildChild(cs, false)
	sc.ch.setPow(child, z0(csp.Pow))
	ok, panicked := verify(sc, child, e.Now)
	if panicked {
		c.rep.Fail("verifyHeader:panic", "verifyHeader panicked on a fabricated pair", cs)
		return ""
	}
	// monitor: a child fabricated from the real helper functions is accepted; every single-field deviation flips the verdict
	switch {
	case cs.Dev == "" || cs.Dev[0] == '=':
		if !ok {
			c.rep.Fail("verifyHeader:valid-rejected", "a child fabricated from the real helper functions is rejected ("+cs.Dev+")", cs)
		}
	default:
		if ok {
			c.rep.Fail("verifyHeader:deviation-accepted:"+cs.Dev, "a single-field deviation of a valid child is accepted: "+cs.Dev, cs)
		}
	}
	c.rep.Count("verify:dev:" + cs.Dev)
	c.rep.Count(fmt.Sprintf("verify:accepted:%v", ok))
	po := calcOrder(sc.ch, sc.p)
	c.rep.Count("verify:parent-order:" + po.class())
	c.rep.Nontrivial(fmt.Sprintf("verify:%s:%v:%s:gp%d", cs.Dev, ok, po.class(), e.GPKind))
	if ok {
		// monitors on accepted pairs: entropy strictly increases along zone-order links, recorded parent entropy = accumulated entropy
		tp := sc.ch.hc.TotalLogEntropy(sc.p)
		tc := sc.ch.hc.TotalLogEntropy(child)
		co := calcOrder(sc.ch, child)
		if child.ParentEntropy(common.ZONE_CTX).Cmp(tp) != 0 {
			c.rep.Fail("verifyHeader:parent-entropy-not-accumulated", "accepted child records a parent entropy different from TotalLogEntropy(parent)", cs)
		}
		if co.kind == "ok" && co.order == common.ZONE_CTX && tc.Cmp(tp) <= 0 {
			c.rep.Fail("entropy:not-increasing", "TotalLogEntropy(child) <= TotalLogEntropy(parent) on an accepted zone-order child", cs)
		}
		if child.Number(common.ZONE_CTX).Cmp(expectedNum(ps)) != 0 {
			c.rep.Fail("verifyHeader:number", "accepted child number is not parent+1 (compared as unbounded integers)", cs)
		}
		if child.PrimeTerminusNumber().Cmp(expectedPTNum(po, ps)) != 0 {
			c.rep.Fail("verifyHeader:terminus-number", "accepted child's prime terminus number is not the expected one (unbounded integers)", cs)
		}
		if child.Time() < sc.p.Time() || child.Time() > e.Now+uint64(core.VerifC09AllowedFutureBlockTimeSeconds()) {
			c.rep.Fail("verifyHeader:time", "accepted child violates the time rules", cs)
		}
		if po.kind == "ok" {
			if want, defined := protocolExpansion(e, ps, po.order == common.PRIME_CTX); !defined || child.ExpansionNumber() != want {
				c.rep.Fail("verifyHeader:expansion-number", fmt.Sprintf("accepted child carries expansion number %d, the protocol rule gives %d (defined %v) at node location %v", child.ExpansionNumber(), want, defined, locOf(e.Loc)), cs)
			}
			c.rep.Count("verify:expansion:" + expansionClass(e, ps, po.order == common.PRIME_CTX))
		}
	}
	term := fmt.Sprintf("CVerify %s %s %s %s", envCoq(e, ps), coqHeader(sc.ch, sc.p, ps), coqHeader(sc.ch, child, csp), hlib.CoqBool(ok))
	// the model of both fork regimes (valid_child_x: share-difficulty fields, fork-aware base fee): every pair with a header
	// after the KawPow fork or with share fields present, and an eighth of the others (there both models must agree)
	termX := fmt.Sprintf("CVerifyX %s %s %s %s %s %s", envCoq(e, ps), coqHeader(sc.ch, sc.p, ps), coqHeader(sc.ch, child, csp), psCoq(ps), shCoq(csp), hlib.CoqBool(ok))
	fork := forkCase(cs)
	if fork {
		c.rep.Count("verify:fork:" + forkClass(csp.ptNumBig().Uint64()))
		c.rep.Nontrivial(fmt.Sprintf("verify-fork:%s:%s:%v", forkClass(csp.ptNumBig().Uint64()), cs.Dev, ok))
		if postFork(ps) {
			_, a, b, cc, d := sc.ch.hc.CountWorkSharesByAlgo(sc.p)
			if wa, wb, wc, wd := auxCounts(ps); a != wa || b != wb || cc != wc || d != wd {
				c.rep.Fail("CountWorkSharesByAlgo:count", "CountWorkSharesByAlgo(parent) does not find the shares the body holds", cs)
			}
		}
	}
	c.verifyHistory(cs, sc, child, ok)
	store := c.storePaths(cs)
	if len(cs.Dev) > 1 && cs.Dev[:2] == "x:" {
		return "" // deviation of a rule outside the model: monitor only
	}
	if fork {
		return termX // CVerify / CStore are stated over the model before the fork
	}
	if store != "" && (cs.Dev == "" || cs.ID%4 == 0) { // the model comparison of the store history: a quarter of the cases
		c.extra = append(c.extra, store)
	}
	if cs.ID%8 == 3 {
		c.extra = append(c.extra, termX)
	}
	return term
}

// buildChild fabricates the child of a verify case (H[1] + the deviations that act on the built object).  withManifest:
// the child commits to the one-entry manifest the store scenario registers for the parent (AppendHeader checks it).
func buildChild(cs Case, withManifest bool) *types.WorkObject {
	child := build(cs.H[1])
	if withManifest {
		child.Header().SetManifestHash(types.DeriveSha(types.BlockManifest{common.HexToHash(cs.H[1].Parent)}, trie.NewStackTrie(nil)), common.ZONE_CTX)
		child.WorkObjectHeader().SetHeaderHash(child.Header().Hash())
	}
	if cs.Dev == "x:headerhash" {
		child.WorkObjectHeader().SetHeaderHash(common.Hash{9})
	}
	if cs.Dev == "x:location" {
		l := locOf(cs.H[1].Loc)
		child.WorkObjectHeader().SetLocation(common.Location{(l[0] + 1) % 3, l[1]}) // another region: not in the node's slice
	}
	if cs.Dev == "x:data" {
		child.WorkObjectHeader().SetData(nil)
	}
	return child
}

func expectedNum(ps HSpec) *big.Int {
	if ps.Genesis {
		return big.NewInt(1)
	}
	return new(big.Int).Add(ps.numBig(), big.NewInt(1))
}

func expectedPTNum(po coRes, ps HSpec) *big.Int {
	if (po.kind == "ok" && po.order == common.PRIME_CTX) || ps.Genesis {
		return ps.numPrimeBig()
	}
	return ps.ptNumBig()
}

// fabricateChild computes, with the real helper functions, the child a miner would build on sc.p.
func fabricateChild(c *ctxT, sc *scenario, e *EnvSpec, ps HSpec, zoneOrder bool) (HSpec, bool) {
	hc := sc.ch.hc
	ch := defaultH()
	ok := true
	func() {
		defer func() {
			if r := recover(); r != nil {
				ok = false
			}
		}()
		po := calcOrder(sc.ch, sc.p)
		if po.kind != "ok" {
			ok = false
			return
		}
		ch.Loc = e.Loc // a block of this node's slice
		ch.Num, ch.NumX = ps.Num+1, ps.NumX
		if ps.Num == ^uint64(0) { // carry into the wide part
			ch.Num, ch.NumX = 0, new(big.Int).Add(z0(ps.NumX), two64).String()
		}
		if ps.Genesis {
			ch.Num, ch.NumX = 1, ""
		}
		ch.Time = ps.Time + uint64(c.rng.Intn(12))
		d := hc.CalcDifficulty(sc.p.WorkObjectHeader(), sc.p.ExpansionNumber())
		if d == nil {
			ok = false
			return
		}
		ch.Diff = d.String()
		ch.PE[2] = hc.TotalLogEntropy(sc.p).String()
		if po.order < common.ZONE_CTX {
			ch.PD[2], ch.PUD[2] = "0", "0"
		} else {
			ch.PD[2] = hc.DeltaLogEntropy(sc.p).String()
			ch.PUD[2] = hc.UncledDeltaLogEntropy(sc.p).String()
		}
		exp, err := hc.ComputeExpansionNumber(sc.p)
		if err != nil {
			ok = false
			return
		}
		ch.Expansion = exp
		ch.GasLimit = core.CalcGasLimit(sc.p, e.GasCeil)
		if ch.GasLimit > 0 {
			ch.GasUsed = c.rng.Next() % (ch.GasLimit + 1)
		}
		ch.StateLimit = misc.CalcStateLimit(sc.p, params.StateCeil)
		if ch.StateLimit > 0 {
			ch.StateUsed = c.rng.Next() % (ch.StateLimit + 1)
		}
		bf := hc.CalcBaseFee(sc.p)
		if bf == nil {
			ok = false
			return
		}
		ch.BaseFee = bf.String()
		if po.order == common.PRIME_CTX || ps.Genesis {
			ch.PTHash, ch.PTNum, ch.PTNumX = sc.p.Hash().Hex(), ps.NumPrime, ps.NumPrimeX
		} else {
			ch.PTHash, ch.PTNum, ch.PTNumX = sc.p.PrimeTerminusHash().Hex(), ps.PTNum, ps.PTNumX
		}
		if ch.ptNumBig().Uint64() >= params.KawPowForkBlock {
			// the share-difficulty fields, from the real helper functions (they read the child's prime terminus number only)
			tmp := build(ch)
			d1, c1, u1 := hc.CalculatePowDiffAndCount(sc.p, tmp.WorkObjectHeader(), types.SHA_BTC)
			d2, c2, u2 := hc.CalculatePowDiffAndCount(sc.p, tmp.WorkObjectHeader(), types.Scrypt)
			ch.Sh = &ShSpec{d1.String(), c1.String(), u1.String(), d2.String(), c2.String(), u2.String(),
				hc.CalculateShareTarget(sc.p, tmp).String(), hc.CalculateShareTarget(sc.p, tmp).String(), hc.CalculateKawpowDifficulty(sc.p, tmp).String()}
		}
		ch.Parent = sc.p.Hash().Hex()
		ch.Nonce = c.rng.Next()
		ch.Uncled = randBig(c, 1+c.rng.Intn(70)).String()
		// fields a zone node does not validate
		ch.PE[0], ch.PE[1], ch.PD[1], ch.PUD[1] = randBig(c, 60).String(), randBig(c, 60).String(), randBig(c, 40).String(), randBig(c, 30).String()
		ch.NumPrime, ch.NumRegion = ps.NumPrime+1, ps.NumRegion+1
		target := new(big.Int).Div(two256, d)
		ch.Pow = powFor(c, target, zoneOrder).String()
	}()
	return ch, ok
}

// powFor picks a pow hash under the target: just under it (zone order) or far under it (candidate for a dominant order)
func powFor(c *ctxT, target *big.Int, zone bool) *big.Int {
	if target.Sign() <= 0 {
		return big.NewInt(1)
	}
	if zone {
		half := new(big.Int).Rsh(target, 1)
		r := new(big.Int).Add(half, big.NewInt(1))
		if half.Sign() > 0 {
			r.Add(r, new(big.Int).Mod(randBig(c, 256), half))
		}
		if r.Cmp(target) > 0 {
			r.Set(target)
		}
		return r
	}
	sh := uint(3 + c.rng.Intn(12))
	r := new(big.Int).Rsh(target, sh)
	if r.Sign() == 0 {
		return big.NewInt(1)
	}
	r.Sub(r, new(big.Int).Mod(randBig(c, 200), r))
	if r.Sign() <= 0 {
		r.SetInt64(1)
	}
	return r
}

// ---------- scenario generation ----------

type pairGen struct {
	env    EnvSpec
	parent HSpec
	child  HSpec
	sc     *scenario
}

// genPair builds a random environment + parent and the valid child on top of it. shape selects the parent class.
func genPair(c *ctxT, shape int) (*pairGen, bool) { return genPairAt(c, shape, nil, true) }

// nodeLocs: the node locations the verify sweep runs at ([0,0] = the original slice; the others start from an expansion genesis)
var nodeLocs = [][]int{nil, {0, 1}, {1, 0}, {2, 2}, {1, 2}, {0, 2}}

// genPairAt: loc = node location (pick: derived from the parent's nonce instead, without consuming the case's PRNG)
func genPairAt(c *ctxT, shape int, loc []int, pick bool) (*pairGen, bool) {
	e := EnvSpec{Now: 1700000000 + c.rng.Next()%100000, GasCeil: 50000000, PTStored: true, Loc: loc}
	nets := [][2]string{{"5", "750000000000"}, {"5", "1000000"}, {"5", "150000000"}, {"1", "250000"}, {"5", "100000"}, {"5", "1000"}}
	n := nets[c.rng.Intn(len(nets))]
	e.DL, e.MinD = n[0], n[1]
	if c.rng.Chance(15) {
		e.GasCeil = 30000000 + c.rng.Next()%40000000
	}
	ppt := defaultH()
	ppt.Nonce, ppt.Expansion, ppt.NumPrime = 4242, uint8(c.rng.Intn(4)), 10
	e.PPT = &ppt
	e.PT = defaultH()
	e.PT.Nonce, e.PT.Num, e.PT.NumPrime = 4343, 50, 11
	e.PT.Expansion = ppt.Expansion
	e.PT.ExRate = randBig(c, 30+c.rng.Intn(40)).String()
	switch c.rng.Intn(10) {
	case 0:
		e.PT.Threshold = params.TREE_EXPANSION_TRIGGER_WINDOW + params.TREE_EXPANSION_WAIT_COUNT
	case 1:
		e.PT.Threshold = uint16(c.rng.Intn(2000))
	case 2:
		e.PT.Genesis = true
	}
	mind := bi(e.MinD)
	pd := new(big.Int).Add(mind, randBig(c, 1+c.rng.Intn(mind.BitLen()+8)))
	if c.rng.Chance(15) {
		pd = new(big.Int).Add(mind, big.NewInt(int64(c.rng.Intn(50))))
	}
	ptime := e.Now - 1000 - c.rng.Next()%1000
	ps := defaultH()
	ps.Diff = pd.String()
	ps.Time = ptime
	bpm := params.BlocksPerMonth
	ps.Num = []uint64{2 + c.rng.Next()%1000, params.TimeToStartTx - 2 + c.rng.Next()%4, params.TimeToStartTx + c.rng.Next()%(2*bpm), 2*bpm - 2 + c.rng.Next()%4, 2*bpm + c.rng.Next()%1000000}[c.rng.Pick(3, 2, 4, 2, 3)]
	ps.NumPrime, ps.NumRegion = 12+c.rng.Next()%1000, 100+c.rng.Next()%1000
	ps.PTNum = e.PT.NumPrime
	ps.Expansion = e.PT.Expansion
	ps.GasLimit = []uint64{0, 12000000, e.GasCeil, c.rng.Next() % 60000000}[c.rng.Intn(4)]
	ps.StateLimit = []uint64{0, 12000000, params.StateCeil, c.rng.Next() % 60000000}[c.rng.Intn(4)]
	ps.PE = [3]string{randBig(c, 70).String(), randBig(c, 70).String(), randBig(c, 70).String()}
	ps.PD = [3]string{"0", randBig(c, 68).String(), randBig(c, 68).String()}
	ps.PUD = [3]string{"0", randBig(c, 60).String(), randBig(c, 60).String()}
	ps.Uncled = randBig(c, 66).String()
	ps.Nonce = c.rng.Next()
	ps.Threshold = uint16(c.rng.Intn(3))
	target := new(big.Int).Div(two256, pd)
	e.GPKind = 2
	e.GP = defaultH()
	e.GP.Nonce, e.GP.Num = 4444, ps.Num-1
	dts := []uint64{0, 1, 4, 5, 6, 10, 99, 100, 101, 500}
	e.GP.Time = ptime - dts[c.rng.Intn(len(dts))]
	switch shape {
	case 0: // ordinary zone-order parent
		ps.Pow = powFor(c, target, true).String()
	case 1: // dominant-order parent: small hash and large recorded deltas
		ps.Pow = powFor(c, target, false).String()
		big1 := new(big.Int).Mul(two64, big.NewInt(int64(200+c.rng.Intn(2000))))
		ps.PD[2] = big1.String()
		if c.rng.Bool() {
			ps.PD[1] = new(big.Int).Mul(big1, big.NewInt(3)).String()
		} else {
			ps.PD[1] = "0"
		}
	case 2: // parent of the parent is genesis / absent
		ps.Pow = powFor(c, target, true).String()
		e.GPKind = c.rng.Intn(2)
		e.GP.Genesis = e.GPKind == 1
	case 3: // the parent is a genesis block
		ps = defaultH()
		ps.Genesis, ps.Num, ps.Diff, ps.Time, ps.Nonce = true, 0, pd.String(), ptime, c.rng.Next()
		ps.LocEmpty = c.rng.Bool()
		ps.NumPrime = 0
		ps.Expansion = uint8(c.rng.Intn(2))
		if ps.Expansion > 0 && c.rng.Bool() {
			e.DefGenesisPar = true
		}
		e.GPKind = 0
	case 4: // terminus not in the database / no prime parent
		ps.Pow = powFor(c, target, true).String()
		if c.rng.Bool() {
			e.PTStored = false
		} else {
			e.PPT = nil
		}
	case 5: // a parent that carries work shares (before the fork): its accumulated entropy has a work-share term
		ps.Pow = powFor(c, target, c.rng.Chance(85)).String()
		if ps.Num < 8 {
			ps.Num += 8
			e.GP.Num = ps.Num - 1
		}
		anc := genAncestry(c, ps.Num-2, ptime, ps.Diff) // a0 a1 x a2 ; the parent's parent (e.GP) sits on a2
		e.GP.Parent = build(anc[3]).Hash().Hex()
		e.Anc = anc
		// genShares expects [great-grand parent, grand parent, side block, parent]: the window one block up; the side
		// block x hangs on a0, which is outside the inclusion depth of this block, so a2 takes its place
		win := []HSpec{anc[1], anc[3], anc[3], e.GP}
		ps.Parent = build(e.GP).Hash().Hex()
		ps.Shares = genShares(c, win, ps.Diff, ptime)
	case 7: // the shapes ComputeExpansionNumber distinguishes: which block is the prime terminus of the child (the parent
		// itself: a genesis block / a prime-order block; or the block the parent names), is it a genesis block of
		// this slice, did its threshold count mature (trigger window + wait count: the next expansion starts), else the
		// expansion number of its prime parent
		matured := uint16(params.TREE_EXPANSION_TRIGGER_WINDOW + params.TREE_EXPANSION_WAIT_COUNT)
		thr := []uint16{matured, matured, matured, 0, matured - 1, matured + 1, uint16(c.rng.Intn(2000))}[c.rng.Intn(7)]
		exp := uint8(c.rng.Intn(4))
		if c.rng.Chance(5) {
			exp = 255 // ExpansionNumber()+1 wraps (uint8)
		}
		sub := c.rng.Intn(4)
		if c.sub7 > 0 {
			sub = c.sub7 - 1
		}
		switch sub {
		case 0: // the parent IS a genesis block of the slice (an expansion genesis: a prime block of the old tree)
			ps = defaultH()
			ps.Genesis, ps.Num, ps.Diff, ps.Time, ps.Nonce = true, 0, pd.String(), ptime, c.rng.Next()
			ps.NumPrime = []uint64{0, 4242}[c.rng.Intn(2)]
			ps.Expansion, ps.Threshold = exp, thr
			ps.LocEmpty = c.rng.Chance(30)
			if ps.Expansion > 0 && c.rng.Bool() {
				e.DefGenesisPar = true
			}
			e.GPKind = 0
		case 1: // zone-order parent naming a genesis block as its prime terminus (the first blocks of a slice)
			ps.Pow = powFor(c, target, true).String()
			e.PT.Genesis, e.PT.Expansion, e.PT.Threshold = true, exp, thr
			ps.Expansion = exp
		case 2: // zone-order parent naming an ordinary / matured prime block
			ps.Pow = powFor(c, target, true).String()
			e.PT.Expansion, e.PT.Threshold = exp, thr
			ps.Expansion = exp
		default: // prime-order parent (it is the terminus itself) with its own threshold count
			ps.Pow = powFor(c, target, false).String()
			big1 := new(big.Int).Mul(two64, big.NewInt(int64(2000+c.rng.Intn(2000))))
			ps.PD[2], ps.PD[1] = big1.String(), new(big.Int).Mul(big1, big.NewInt(3)).String()
			ps.Expansion, ps.Threshold = exp, thr
		}
		if c.rng.Chance(10) {
			e.PPT = nil
		}
	case 8: // after the KawPow fork (see fork.go forkParent)
		v := c.rng.Intn(4)
		if c.sub8 > 0 {
			v = c.sub8 - 1
		}
		// the main network's floor: with a difficulty below params.KQuaiDifficultyDivisor the fork-aware reward formula
		// goes negative and so does CalcBaseFee (see design/C09.md, observations) - no header on the wire can match it
		e.DL, e.MinD = "5", "750000000000"
		pd = new(big.Int).Add(bi(e.MinD), randBig(c, 1+c.rng.Intn(48)))
		ps.Diff = pd.String()
		target = new(big.Int).Div(two256, pd)
		forkParent(c, &e, &ps, target, v)
	case 6: // numbers wider than 64 bits (the wire format has no width limit): number, prime number, terminus number
		ps.Pow = powFor(c, target, c.rng.Chance(80)).String()
		wide := func() string {
			k := []*big.Int{big.NewInt(1), big.NewInt(3), two64, pow2(192)}[c.rng.Intn(4)]
			return new(big.Int).Mul(k, two64).String()
		}
		ps.NumX = wide()
		if c.rng.Bool() {
			ps.NumPrimeX = wide()
		}
		if c.rng.Bool() {
			ps.PTNumX = wide()
		}
		switch c.rng.Intn(6) {
		case 0:
			ps.Num = ^uint64(0) // the child's number carries into the wide part
		case 1:
			ps.Num = 0 // the low 64 bits are zero: CalcOrder's NumberU64()==0 shortcut
		}
		e.GP.Num = ps.Num - 1
	}
	if pick {
		// the node location: half of the pairs in the original slice, the others spread over five further slices
		// (derived from the parent's nonce: the PRNG stream of the case is not consumed)
		if k := ps.Nonce % 10; k >= 5 {
			e.Loc = nodeLocs[1+int(k-5)]
		}
	}
	if !ps.Genesis {
		ps.Loc = e.Loc // the parent is a block of this slice (a genesis parent is a prime block of another zone)
	}
	ps.PTHash = func() string { w := build(e.PT); withPrimeParent(w, &e); return w.Hash().Hex() }()
	if e.GPKind != 0 {
		ps.Parent = build(e.GP).Hash().Hex()
	}
	sc := buildScenarioPP(&e, ps)
	child, ok := fabricateChild(c, sc, &e, ps, c.rng.Chance(85))
	if !ok {
		return &pairGen{env: e, parent: ps, sc: sc}, false
	}
	return &pairGen{env: e, parent: ps, child: child, sc: sc}, true
}

type deviation struct {
	name  string
	apply func(ch *HSpec, e *EnvSpec, ps HSpec) bool // false = not applicable
}

func addTo(s string, d int64) string { return new(big.Int).Add(z0(s), big.NewInt(d)).String() }

func deviations() []deviation {
	nz := func(s string) bool { return z0(s).Sign() > 0 }
	return []deviation{
		{"=boundary-time-parent", func(ch *HSpec, e *EnvSpec, ps HSpec) bool { ch.Time = ps.Time; return true }},
		{"=boundary-time-future", func(ch *HSpec, e *EnvSpec, ps HSpec) bool {
			e.Now = ch.Time - uint64(core.VerifC09AllowedFutureBlockTimeSeconds())
			return true
		}},
		{"time-before-parent", func(ch *HSpec, e *EnvSpec, ps HSpec) bool {
			if ps.Time == 0 {
				return false
			}
			ch.Time = ps.Time - 1
			return true
		}},
		{"time-future", func(ch *HSpec, e *EnvSpec, ps HSpec) bool {
			e.Now = ch.Time - uint64(core.VerifC09AllowedFutureBlockTimeSeconds()) - 1
			return true
		}},
		{"difficulty+1", func(ch *HSpec, e *EnvSpec, ps HSpec) bool { ch.Diff = addTo(ch.Diff, 1); return true }},
		{"difficulty-1", func(ch *HSpec, e *EnvSpec, ps HSpec) bool {
			// keep the pow hash under the new target: the seal of the child is not checked by verifyHeader
			ch.Diff = addTo(ch.Diff, -1)
			return nz(ch.Diff)
		}},
		{"difficulty=parent's", func(ch *HSpec, e *EnvSpec, ps HSpec) bool {
			if ch.Diff == ps.Diff {
				return false
			}
			ch.Diff = ps.Diff
			return true
		}},
		{"parent-entropy+1", func(ch *HSpec, e *EnvSpec, ps HSpec) bool { ch.PE[2] = addTo(ch.PE[2], 1); return true }},
		{"parent-entropy-1", func(ch *HSpec, e *EnvSpec, ps HSpec) bool {
			if !nz(ch.PE[2]) {
				return false
			}
			ch.PE[2] = addTo(ch.PE[2], -1)
			return true
		}},
		{"parent-entropy=0", func(ch *HSpec, e *EnvSpec, ps HSpec) bool {
			if !nz(ch.PE[2]) {
				return false
			}
			ch.PE[2] = "0"
			return true
		}},
		{"parent-entropy=parent's-recorded", func(ch *HSpec, e *EnvSpec, ps HSpec) bool {
			if ch.PE[2] == ps.PE[2] {
				return false
			}
			ch.PE[2] = ps.PE[2]
			return true
		}},
		{"parent-delta+1", func(ch *HSpec, e *EnvSpec, ps HSpec) bool { ch.PD[2] = addTo(ch.PD[2], 1); return true }},
		{"parent-delta=0", func(ch *HSpec, e *EnvSpec, ps HSpec) bool {
			if !nz(ch.PD[2]) {
				return false
			}
			ch.PD[2] = "0"
			return true
		}},
		{"parent-delta=region's", func(ch *HSpec, e *EnvSpec, ps HSpec) bool {
			if ch.PD[2] == ch.PD[1] {
				return false
			}
			ch.PD[2] = ch.PD[1]
			return true
		}},
		{"parent-uncled-delta+1", func(ch *HSpec, e *EnvSpec, ps HSpec) bool { ch.PUD[2] = addTo(ch.PUD[2], 1); return true }},
		{"parent-uncled-delta=0", func(ch *HSpec, e *EnvSpec, ps HSpec) bool {
			if !nz(ch.PUD[2]) {
				return false
			}
			ch.PUD[2] = "0"
			return true
		}},
		{"expansion+1", func(ch *HSpec, e *EnvSpec, ps HSpec) bool { ch.Expansion++; return true }},
		{"expansion-1", func(ch *HSpec, e *EnvSpec, ps HSpec) bool { ch.Expansion--; return true }},
		// the expansion number handed down unchanged from the parent / from the block the parent names as terminus
		// (the stale value a node derives when it does not start the next expansion)
		{"expansion=parent's", func(ch *HSpec, e *EnvSpec, ps HSpec) bool {
			if ch.Expansion == ps.Expansion {
				return false
			}
			ch.Expansion = ps.Expansion
			return true
		}},
		{"expansion=terminus'", func(ch *HSpec, e *EnvSpec, ps HSpec) bool {
			if ch.Expansion == e.PT.Expansion {
				return false
			}
			ch.Expansion = e.PT.Expansion
			return true
		}},
		{"expansion=terminus'+1", func(ch *HSpec, e *EnvSpec, ps HSpec) bool {
			if ch.Expansion == e.PT.Expansion+1 {
				return false
			}
			ch.Expansion = e.PT.Expansion + 1
			return true
		}},
		{"gaslimit+1", func(ch *HSpec, e *EnvSpec, ps HSpec) bool { ch.GasLimit++; return true }},
		{"gaslimit-1", func(ch *HSpec, e *EnvSpec, ps HSpec) bool {
			if ch.GasLimit == 0 {
				return false
			}
			ch.GasLimit--
			if ch.GasUsed > ch.GasLimit {
				ch.GasUsed = ch.GasLimit
			}
			return true
		}},
		{"gasused>limit", func(ch *HSpec, e *EnvSpec, ps HSpec) bool { ch.GasUsed = ch.GasLimit + 1; return true }},
		{"statelimit+1", func(ch *HSpec, e *EnvSpec, ps HSpec) bool { ch.StateLimit++; return true }},
		{"statelimit-1", func(ch *HSpec, e *EnvSpec, ps HSpec) bool {
			if ch.StateLimit == 0 {
				return false
			}
			ch.StateLimit--
			if ch.StateUsed > ch.StateLimit {
				ch.StateUsed = ch.StateLimit
			}
			return true
		}},
		{"stateused>limit", func(ch *HSpec, e *EnvSpec, ps HSpec) bool { ch.StateUsed = ch.StateLimit + 1; return true }},
		{"basefee+1", func(ch *HSpec, e *EnvSpec, ps HSpec) bool { ch.BaseFee = addTo(ch.BaseFee, 1); return true }},
		{"basefee-1", func(ch *HSpec, e *EnvSpec, ps HSpec) bool {
			if !nz(ch.BaseFee) {
				return false
			}
			ch.BaseFee = addTo(ch.BaseFee, -1)
			return true
		}},
		{"terminus-hash", func(ch *HSpec, e *EnvSpec, ps HSpec) bool { ch.PTHash = common.Hash{0xab, 0xcd}.Hex(); return true }},
		{"terminus-number+1", func(ch *HSpec, e *EnvSpec, ps HSpec) bool { ch.PTNum++; return true }},
		{"terminus-number-1", func(ch *HSpec, e *EnvSpec, ps HSpec) bool {
			if ch.PTNum == 0 {
				return false
			}
			ch.PTNum--
			return true
		}},
		// the number as a WHOLE (low 64 bits + wide part): with a parent whose low 64 bits are all ones the valid child
		// has low part 0, so moving only the uint64 part is not the named deviation (false alarm "number=0", see design)
		{"number+1", func(ch *HSpec, e *EnvSpec, ps HSpec) bool { setNum(ch, new(big.Int).Add(ch.numBig(), big.NewInt(1))); return true }},
		{"number=parent's", func(ch *HSpec, e *EnvSpec, ps HSpec) bool {
			if ch.numBig().Sign() == 0 {
				return false
			}
			setNum(ch, new(big.Int).Sub(ch.numBig(), big.NewInt(1)))
			return true
		}},
		{"number=0", func(ch *HSpec, e *EnvSpec, ps HSpec) bool {
			if ch.numBig().Sign() == 0 {
				return false
			}
			setNum(ch, big.NewInt(0))
			return true
		}},
		// the parent's work-share entropy claimed once more (what a memo corrupted by an in-place addition would expect)
		{"parent-entropy+parent-ws", func(ch *HSpec, e *EnvSpec, ps HSpec) bool { return inflate(ch, ps, true, false) }},
		{"parent-delta+parent-ws", func(ch *HSpec, e *EnvSpec, ps HSpec) bool { return inflate(ch, ps, false, true) }},
		{"parent-entropy+delta+parent-ws", func(ch *HSpec, e *EnvSpec, ps HSpec) bool { return inflate(ch, ps, true, true) }},
		{"time=max-uint64", func(ch *HSpec, e *EnvSpec, ps HSpec) bool { ch.Time = ^uint64(0); return true }},
		{"gaslimit+2^63", func(ch *HSpec, e *EnvSpec, ps HSpec) bool { ch.GasLimit += 1 << 63; return true }},
		{"statelimit+2^63", func(ch *HSpec, e *EnvSpec, ps HSpec) bool { ch.StateLimit += 1 << 63; return true }},
		// rules outside the model: monitor only
		{"x:extra-too-long", func(ch *HSpec, e *EnvSpec, ps HSpec) bool { ch.Extra = int(params.MaximumExtraDataSize) + 1; return true }},
		{"x:headerhash", func(ch *HSpec, e *EnvSpec, ps HSpec) bool { return true }},
		{"x:location", func(ch *HSpec, e *EnvSpec, ps HSpec) bool { return true }},
		{"x:data", func(ch *HSpec, e *EnvSpec, ps HSpec) bool { return true }},
	}
}

// split an unbounded number into its uint64 part and the decimal rest (HSpec.Num / NumX)
func split(v *big.Int) (uint64, string) {
	lo := new(big.Int).And(v, new(big.Int).Sub(two64, big.NewInt(1)))
	hi := new(big.Int).Sub(v, lo)
	if hi.Sign() == 0 {
		return lo.Uint64(), ""
	}
	return lo.Uint64(), hi.String()
}

func setNum(ch *HSpec, v *big.Int) { ch.Num, ch.NumX = split(v) }

// inflate adds the parent's work-share entropy to the recorded parent entropy and/or delta of the child
func inflate(ch *HSpec, ps HSpec, pe, pd bool) bool {
	if ps.wsHint == "" || z0(ps.wsHint).Sign() <= 0 {
		return false
	}
	if pe {
		ch.PE[2] = new(big.Int).Add(z0(ch.PE[2]), z0(ps.wsHint)).String()
	}
	if pd {
		if z0(ch.PD[2]).Sign() == 0 {
			return pe // after a dominant parent the delta restarts at zero: only the entropy can be inflated
		}
		ch.PD[2] = new(big.Int).Add(z0(ch.PD[2]), z0(ps.wsHint)).String()
	}
	return true
}

// wideDeviations: for EVERY integer field of the child that is a *big.Int on the wire (number, prime terminus number,
// difficulty, parent entropy / delta / uncled delta, base fee) the value moved by 2^64, 2^128, 2^256 and reduced modulo
// 2^64 — a comparison on a truncated value (Uint64(), a 32-byte hash) accepts one of them.
func wideDeviations() []deviation {
	type acc struct {
		name string
		get  func(ch *HSpec) *big.Int
		set  func(ch *HSpec, v *big.Int)
	}
	str := func(p func(ch *HSpec) *string) acc {
		return acc{get: func(ch *HSpec) *big.Int { return z0(*p(ch)) }, set: func(ch *HSpec, v *big.Int) { *p(ch) = v.String() }}
	}
	named := func(n string, a acc) acc { a.name = n; return a }
	fields := []acc{
		{"number", func(ch *HSpec) *big.Int { return ch.numBig() }, func(ch *HSpec, v *big.Int) { ch.Num, ch.NumX = split(v) }},
		{"terminus-number", func(ch *HSpec) *big.Int { return ch.ptNumBig() }, func(ch *HSpec, v *big.Int) { ch.PTNum, ch.PTNumX = split(v) }},
		named("difficulty", str(func(ch *HSpec) *string { return &ch.Diff })),
		named("parent-entropy", str(func(ch *HSpec) *string { return &ch.PE[2] })),
		named("parent-delta", str(func(ch *HSpec) *string { return &ch.PD[2] })),
		named("parent-uncled-delta", str(func(ch *HSpec) *string { return &ch.PUD[2] })),
		named("basefee", str(func(ch *HSpec) *string { return &ch.BaseFee })),
	}
	var out []deviation
	for _, f := range fields {
		f := f
		for _, k := range []int{64, 128, 256} {
			k := k
			out = append(out, deviation{fmt.Sprintf("%s+2^%d", f.name, k), func(ch *HSpec, e *EnvSpec, ps HSpec) bool {
				f.set(ch, new(big.Int).Add(f.get(ch), pow2(k)))
				return true
			}})
		}
		out = append(out, deviation{f.name + "-2^64", func(ch *HSpec, e *EnvSpec, ps HSpec) bool {
			v := f.get(ch)
			if v.Cmp(two64) < 0 {
				return false
			}
			f.set(ch, new(big.Int).Sub(v, two64))
			return true
		}})
		out = append(out, deviation{f.name + "%2^64", func(ch *HSpec, e *EnvSpec, ps HSpec) bool {
			v := f.get(ch)
			if v.Cmp(pow2(65)) < 0 { // below 2^65 this is the -2^64 deviation (or none)
				return false
			}
			f.set(ch, new(big.Int).And(v, new(big.Int).Sub(two64, big.NewInt(1))))
			return true
		}})
	}
	return out
}

// verifyCases: the valid pair plus k single-field deviations of it (all of them when k < 0)
func verifyCases(c *ctxT, shape int, k int) []Case { return verifyCasesAt(c, shape, k, nil, true) }

func verifyCasesAt(c *ctxT, shape int, k int, loc []int, pick bool) []Case {
	pg, ok := genPairAt(c, shape, loc, pick)
	if !ok {
		// no valid child can be fabricated (e.g. terminus missing): the expansion case still documents the verdict
		return []Case{{ID: c.next(), Kind: "expansion", Env: &pg.env, H: []HSpec{pg.parent}}}
	}
	out := []Case{{ID: c.next(), Kind: "verify", Env: cloneEnv(&pg.env), H: []HSpec{pg.parent, pg.child}},
		{ID: c.next(), Kind: "expansion", Env: cloneEnv(&pg.env), H: []HSpec{pg.parent}}}
	devs := append(deviations(), wideDeviations()...)
	nOld := len(devs)
	devs = append(devs, shareDeviations()...)
	if w, err := pg.sc.ch.hc.WorkShareLogEntropy(pg.sc.p); err == nil {
		pg.parent.wsHint = w.String()
	}
	idx := make([]int, nOld)
	for i := range idx {
		idx[i] = i
	}
	// the share-field deviations are chosen with a PRNG of their own (derived from the parent: replayable, and the case's
	// stream is the one it was before they existed): before the fork one or two "present although it must be absent" (all
	// nine in a complete sweep), after the fork a third of them (all when the generator asks for it)
	sr := hlib.NewRng(pg.parent.Nonce ^ 0x5a17e5).Fork()
	var shareIdx []int
	for i := nOld; i < len(devs); i++ {
		switch {
		case strings.HasSuffix(devs[i].name, "-present-before-fork"):
			if k < 0 || sr.Chance(12) {
				shareIdx = append(shareIdx, i)
			}
		case strings.HasSuffix(devs[i].name, "+2^64"):
			if sr.Chance(10) {
				shareIdx = append(shareIdx, i)
			}
		default:
			if c.allShareDevs || sr.Chance(35) {
				shareIdx = append(shareIdx, i)
			}
		}
	}
	if k >= 0 { // random subset
		for i := len(idx) - 1; i > 0; i-- {
			j := c.rng.Intn(i + 1)
			idx[i], idx[j] = idx[j], idx[i]
		}
		if k < len(idx) {
			rest := idx[k:]
			idx = idx[:k]
			// the work-share inflations are always part of the sample when the parent carries work-share entropy
			for _, i := range rest {
				if strings.HasSuffix(devs[i].name, "+parent-ws") || (shape == 7 && strings.HasPrefix(devs[i].name, "expansion")) {
					idx = append(idx, i)
				}
			}
		}
	}
	idx = append(idx, shareIdx...)
	for _, i := range idx {
		ch := pg.child
		e := cloneEnv(&pg.env)
		if !devs[i].apply(&ch, e, pg.parent) {
			continue
		}
		// a deviation must deviate: when the changed spec (and environment) IS the valid one the case is dropped
		// (the x: deviations change the built object, not the spec)
		if !strings.HasPrefix(devs[i].name, "x:") && !strings.HasPrefix(devs[i].name, "=") &&
			mustJSON(ch) == mustJSON(pg.child) && mustJSON(e) == mustJSON(&pg.env) {
			c.rep.Count("verify:dev-is-identity:" + devs[i].name)
			continue
		}
		// H[2] = the honest sibling: verified in between when the verdict is replayed over a history
		out = append(out, Case{ID: c.next(), Kind: "verify", Env: e, H: []HSpec{pg.parent, ch, pg.child}, Dev: devs[i].name})
	}
	return out
}

func cloneEnv(e *EnvSpec) *EnvSpec {
	x := *e
	if e.PPT != nil {
		p := *e.PPT
		x.PPT = &p
	}
	return &x
}

// ---------- chains: entropy strictly increases along every chain of accepted zone-order links ----------

// Z: length seed-ish ; the chain is regenerated deterministically from the case's own rng seed
func (c *ctxT) runChain(cs Case) {
	length := int(bi(cs.Z[0]).Int64())
	r := &ctxT{rng: hlib.NewRng(bi(cs.Z[1]).Uint64()), rep: c.rep}
	// node location of the chain: the corpus chain 4711 (non-vacuity example of Props/C09.v) stays in [0,0]
	pg, ok := genPairAt(r, 0, nodeLocs[int(bi(cs.Z[1]).Uint64()%uint64(len(nodeLocs)))*b2i(bi(cs.Z[1]).Uint64() != 4711)], false)
	if !ok {
		return
	}
	sc, e := pg.sc, pg.env
	parentSpec, childSpec := pg.parent, pg.child
	prevTotal := sc.ch.hc.TotalLogEntropy(sc.p)
	links := 0
	// work shares (from the fourth link on, own PRNG: the first links stay the chain of the non-vacuity example in
	// Props/C09.v): mined on the parent, grand parent or great-grand parent of the block that includes them
	r2 := hlib.NewRng(bi(cs.Z[1]).Uint64() ^ 0x5bd1e995).Fork()
	stored := []*types.WorkObject{sc.gp, sc.p}
	wsLinks := 0
	for i := 0; i < length; i++ {
		child := build(childSpec)
		sc.ch.setPow(child, z0(childSpec.Pow))
		sc.ch.setSharePows(childSpec)
		e.Now = childSpec.Time + uint64(r.rng.Intn(10))
		okv, pan := verify(sc, child, e.Now)
		if pan || !okv {
			c.rep.Fail("chain:valid-rejected", fmt.Sprintf("link %d of a chain fabricated from the real helper functions is rejected", i), cs)
			return
		}
		co := calcOrder(sc.ch, child)
		total := sc.ch.hc.TotalLogEntropy(child)
		if dump := os.Getenv("C09_DUMP_CHAIN"); dump != "" && i < 3 {
			// development aid: the first links as Coq terms (used for the non-vacuity examples of Props/C09.v)
			f, _ := os.OpenFile(dump, os.O_APPEND|os.O_CREATE|os.O_WRONLY, 0o644)
			fmt.Fprintf(f, "(* link %d *)\nenv: %s\nparent: %s\nchild: %s\n", i, envCoq(&e, parentSpec), coqHeader(sc.ch, sc.p, parentSpec), coqHeader(sc.ch, child, childSpec))
			f.Close()
		}
		if co.kind == "ok" && co.order == common.ZONE_CTX {
			if total.Cmp(prevTotal) <= 0 {
				c.rep.Fail("entropy:not-increasing", fmt.Sprintf("accumulated entropy does not increase at link %d of an accepted chain", i), cs)
				return
			}
			ws, wserr := sc.ch.hc.WorkShareLogEntropy(child)
			if wserr != nil {
				c.rep.Fail("harness-panic:chain-shares", "the fabricated work shares of a chain block are not accepted by WorkShareLogEntropy: "+wserr.Error(), cs)
				return
			}
			if ws.Sign() > 0 {
				wsLinks++
			}
			step := new(big.Int).Sub(total, prevTotal)
			want := new(big.Int).Add(common.IntrinsicLogEntropy(common.BytesToHash(z0(childSpec.Pow).Bytes())), ws)
			if step.Cmp(want) != 0 {
				c.rep.Fail("entropy:step", fmt.Sprintf("entropy step at link %d differs from the block's own entropy", i), cs)
				return
			}
		}
		links++
		// the verdict and the totals of an accepted link do not change when they are looked at again (warm memo)
		if okv2, pan2 := verify(sc, child, e.Now); pan2 || !okv2 {
			c.rep.Fail("chain:reverify-rejected", fmt.Sprintf("link %d, accepted a moment ago, is rejected when verified again", i), cs)
			return
		}
		if t2 := sc.ch.hc.TotalLogEntropy(child); t2.Cmp(total) != 0 {
			c.rep.Fail("hist:unstable:total", fmt.Sprintf("TotalLogEntropy of link %d changed between two looks", i), cs)
			return
		}
		if t3 := sc.ch.hc.TotalLogEntropy(sc.p); t3.Cmp(prevTotal) != 0 {
			c.rep.Fail("hist:unstable:total", fmt.Sprintf("TotalLogEntropy of the parent of link %d changed after its child was verified", i), cs)
			return
		}
		// the child becomes the parent: store it, move the window
		stored = append(stored, child)
		sc.ch.put(child)
		sc.gp, sc.p = sc.p, child
		e.GPKind, e.GP = 2, parentSpec
		parentSpec = childSpec
		prevTotal = total
		next, ok2 := fabricateChild(r, sc, &e, parentSpec, true)
		if !ok2 {
			break
		}
		if i+1 >= 3 && r2.Chance(60) {
			target := new(big.Int).Div(two256, z0(next.Diff))
			for k, n := 0, 1+r2.Intn(3); k < n; k++ {
				on := stored[len(stored)-1-r2.Intn(3)]
				if on == nil {
					continue
				}
				pow := new(big.Int).Mul(target, big.NewInt(int64(2+r2.Intn(30))))
				if r2.Chance(20) {
					pow = new(big.Int).Sub(target, big.NewInt(int64(1+r2.Intn(1000))))
				}
				next.Shares = append(next.Shares, ShareSpec{Parent: on.Hash().Hex(), Num: on.NumberU64(common.ZONE_CTX) + 1, Time: next.Time, Diff: next.Diff,
					Nonce: uint64(1000*i + k), Pow: pow.String()})
			}
		}
		childSpec = next
	}
	c.rep.Count(fmt.Sprintf("chain:links<=%d", bucket(links)))
	c.rep.Count(fmt.Sprintf("chain:ws-links<=%d", bucket(wsLinks)))
	if links > 1 {
		c.rep.Nontrivial(fmt.Sprintf("chain:%d", links))
	}
}

func b2i(b bool) int {
	if b {
		return 1
	}
	return 0
}

var _ = types.EmptyTermini

package main

// Histories: the entropy functions of core/poem.go share ONE piece of state, the CalcOrder memo, and CalcOrder hands
// out the memoised *big.Int itself.  "Order / entropy of a block is a deterministic function ... stable across calls,
// caches and restarts" therefore has to hold for every interleaving of CalcOrder / TotalLogEntropy / DeltaLogEntropy /
// UncledDeltaLogEntropy / UncledLogEntropy / WorkShareLogEntropy / verifyHeader(child) calls, evictions and purges —
// in particular on blocks WITH work shares, where the sums add a second term to the memoised value.
//
// Monitors (model-independent):
//   hist:unstable:<fn>          a call returns a value different from the cold (fresh chain, purged memo) value
//   hist:verdict-changed:<who>  verifyHeader of the same (parent, child) pair changes its verdict with the history
//   alias:result-mutated:<fn>   a *big.Int returned by an earlier call was changed by a later call
//   alias:header-mutated        a field of a header passed to the functions was changed

import (
	"fmt"
	"math/big"
	"strings"

	"github.com/dominant-strategies/go-quai/common"
	"github.com/dominant-strategies/go-quai/core/types"
	"github.com/dominant-strategies/go-quai/params"

	"verifharness/hlib"
)

// ---------- calling the functions ----------

type fnRes struct {
	kind  string // z | ok | err | panic
	z     *big.Int
	order int
}

func (r fnRes) eq(o fnRes) bool {
	if r.kind != o.kind {
		return false
	}
	switch r.kind {
	case "z":
		return r.z.Cmp(o.z) == 0
	case "ok":
		return r.z.Cmp(o.z) == 0 && r.order == o.order
	}
	return true
}

func (r fnRes) String() string {
	switch r.kind {
	case "z":
		return r.z.String()
	case "ok":
		return fmt.Sprintf("(%s,%d)", r.z, r.order)
	}
	return r.kind
}

// coq prints the observation of fn as a C09.hist_res
func (r fnRes) coq(fn string) string {
	if fn == "order" && r.kind == "panic" {
		return "(ROrder CoPanic)"
	}
	switch r.kind {
	case "z":
		return "(RZ " + coqZ(r.z) + ")"
	case "ok":
		return fmt.Sprintf("(ROrder (CoOk %s %d))", coqZ(r.z), r.order)
	case "err":
		return "(ROrder CoErr)"
	}
	return "RPanic"
}

var histFns = []string{"order", "total", "delta", "udelta", "uncled", "ws"}

// callFn runs one of the functions on the real chain; ptr is the very object the function returned (for the aliasing monitor)
func callFn(ch *chain, fn string, wo *types.WorkObject) (res fnRes, ptr *big.Int) {
	defer func() {
		if r := recover(); r != nil {
			res, ptr = fnRes{kind: "panic"}, nil
		}
	}()
	var v *big.Int
	switch fn {
	case "order":
		e, o, err := ch.hc.CalcOrder(wo)
		if err != nil {
			return fnRes{kind: "err"}, nil
		}
		return fnRes{kind: "ok", z: new(big.Int).Set(e), order: o}, e
	case "total":
		v = ch.hc.TotalLogEntropy(wo)
	case "delta":
		v = ch.hc.DeltaLogEntropy(wo)
	case "udelta":
		v = ch.hc.UncledDeltaLogEntropy(wo)
	case "uncled":
		v = ch.hc.UncledLogEntropy(wo)
	case "ws":
		w, err := ch.hc.WorkShareLogEntropy(wo)
		if err != nil {
			return fnRes{kind: "err"}, nil
		}
		v = w
	default:
		panic("unknown fn " + fn)
	}
	return fnRes{kind: "z", z: new(big.Int).Set(v)}, v
}

// ---------- aliasing ----------

type tracked struct {
	fn   string
	ptr  *big.Int
	copy *big.Int
}

type aliasMon struct {
	vals  []tracked
	snaps []struct {
		wo   *types.WorkObject
		snap string
	}
}

func (a *aliasMon) keep(fn string, p *big.Int) {
	if p != nil {
		a.vals = append(a.vals, tracked{fn, p, new(big.Int).Set(p)})
	}
}

// mutated returns the function whose earlier result no longer has the value it was returned with
func (a *aliasMon) mutated() (string, bool) {
	for _, t := range a.vals {
		if t.ptr.Cmp(t.copy) != 0 {
			return t.fn, true
		}
	}
	return "", false
}

// snapshot of every integer field of a header the functions read
func snapshot(wo *types.WorkObject) string {
	var b strings.Builder
	h, wh := wo.Header(), wo.WorkObjectHeader()
	fmt.Fprintf(&b, "n=%v d=%v pt=%v t=%d;", wh.Number(), wh.Difficulty(), wh.PrimeTerminusNumber(), wh.Time())
	for i := 0; i < 3; i++ {
		if i < common.ZONE_CTX { // the zone number lives in the work object header
			fmt.Fprintf(&b, "%v/", h.Number(i))
		}
		fmt.Fprintf(&b, "%v/%v/%v;", h.ParentEntropy(i), h.ParentDeltaEntropy(i), h.ParentUncledDeltaEntropy(i))
	}
	fmt.Fprintf(&b, "u=%v bf=%v er=%v x=%d;", h.UncledEntropy(), h.BaseFee(), h.ExchangeRate(), h.ExpansionNumber())
	for _, uw := range wo.Uncles() {
		fmt.Fprintf(&b, "un=%v/%v/%v;", uw.Number(), uw.Difficulty(), uw.PrimeTerminusNumber())
	}
	return b.String()
}

func (a *aliasMon) watch(wo *types.WorkObject) {
	if wo != nil {
		a.snaps = append(a.snaps, struct {
			wo   *types.WorkObject
			snap string
		}{wo, snapshot(wo)})
	}
}

func (a *aliasMon) headersIntact() bool {
	for _, s := range a.snaps {
		if snapshot(s.wo) != s.snap {
			return false
		}
	}
	return true
}

// ---------- histories around a verify pair (monitor only) ----------

func wsClass(ch *chain, wo *types.WorkObject) string {
	r, _ := callFn(ch, "ws", wo)
	if r.kind != "z" {
		return "ws-" + r.kind
	}
	if r.z.Sign() > 0 {
		return "ws>0"
	}
	return "ws=0"
}

// verifyHistory: after the cold verdict ok0 of (sc.p, child), replays a pseudo-random interleaving of entropy-function
// calls on the parent, verifications of the child and of its honest sibling, evictions and purges, in the SAME chain
// object; every value / verdict must equal the one of a fresh, cold chain.
func (c *ctxT) verifyHistory(cs Case, sc *scenario, child *types.WorkObject, ok0 bool) {
	e, ps := cs.Env, cs.H[0]
	var valid *types.WorkObject
	var validNow uint64
	if len(cs.H) > 2 {
		valid = build(cs.H[2])
		validNow = cs.H[2].Time
		sc.ch.setPow(valid, z0(cs.H[2].Pow))
	}
	// cold references: a fresh chain ("restart"), memo purged before every call
	ref := buildScenarioPP(e, ps)
	refv := map[string]fnRes{}
	for _, fn := range histFns {
		ref.ch.hc.VerifC09PurgeCaches()
		refv[fn], _ = callFn(ref.ch, fn, ref.p)
	}
	validOK0 := true
	if valid != nil {
		ref.ch.hc.VerifC09PurgeCaches()
		validOK0, _ = verify(ref, valid, validNow)
		if !validOK0 {
			c.rep.Fail("verifyHeader:valid-rejected", "the honest sibling of a deviating child is rejected on a cold chain", cs)
			return
		}
	}
	am := &aliasMon{}
	am.watch(sc.p)
	am.watch(child)
	am.watch(valid)
	r := hlib.NewRng(cs.ID*0x9e3779b97f4a7c15 + 12345).Fork()
	who := "deviation"
	if cs.Dev == "" || cs.Dev[0] == '=' {
		who = "valid"
	}
	// node-local state no value and no verdict may depend on: the chain of the history becomes a side chain (the
	// canonical number index names decoy blocks at the heights of the child, the parent and its ancestors) and the node's
	// own expansion number moves (a tree expansion); the cold reference chain keeps neither
	sc.ch.sideChain(ps.Time, ps.Diff, ps.numBig().Uint64())
	sc.ch.hc.SetCurrentExpansionNumber(ps.Expansion + 1 + uint8(cs.ID%3))
	sc.ch.hc.VerifC09PurgeCaches()
	if okv, pan := verify(sc, child, e.Now); pan || okv != ok0 {
		c.rep.Fail("verifyHeader:verdict-depends-on-node-state:"+who, fmt.Sprintf("verifyHeader(child, parent) was %v and is %v (panic %v) once the canonical number index names other blocks at the heights around the parent (the parent on a side chain) and the node's own expansion number differs from the block's", ok0, okv, pan), cs)
		return
	}
	for _, fn := range histFns {
		if got, _ := callFn(sc.ch, fn, sc.p); !got.eq(refv[fn]) {
			c.rep.Fail("hist:depends-on-node-state:"+fn, fmt.Sprintf("%s(parent) = %s on a node whose canonical index / expansion number differ, %s on the reference node", fn, got, refv[fn]), cs)
			return
		}
	}
	n := 8 + r.Intn(6)
	for i := 0; i < n; i++ {
		k := r.Pick(9, 3, 3, 1, 1, 2)
		if k == 2 && valid == nil {
			k = 1
		}
		switch k {
		case 5:
			sc.ch.hc.SetCurrentExpansionNumber(nodeExpansion(r.Next()))
		case 0:
			fn := histFns[r.Pick(2, 3, 4, 2, 1, 1)]
			got, ptr := callFn(sc.ch, fn, sc.p)
			if !got.eq(refv[fn]) {
				c.rep.Fail("hist:unstable:"+fn, fmt.Sprintf("%s(parent) = %s after a history of calls, %s on a cold chain", fn, got, refv[fn]), cs)
				return
			}
			am.keep(fn, ptr)
		case 1:
			okv, pan := verify(sc, child, e.Now)
			if pan || okv != ok0 {
				c.rep.Fail("hist:verdict-changed:"+who, fmt.Sprintf("verifyHeader(child, parent) was %v on the cold chain and is %v (panic %v) after a history of calls", ok0, okv, pan), cs)
				return
			}
		case 2:
			okv, pan := verify(sc, valid, validNow)
			if pan || okv != validOK0 {
				c.rep.Fail("hist:verdict-changed:sibling", "the honest sibling, accepted on a cold chain, is rejected after a history of calls", cs)
				return
			}
		case 3:
			sc.ch.hc.VerifC09EvictCalcOrder(sc.p.Hash())
		default:
			sc.ch.hc.VerifC09PurgeCaches()
		}
		if fn, bad := am.mutated(); bad {
			c.rep.Fail("alias:result-mutated:"+fn, "a *big.Int returned by "+fn+" was changed by a later call", cs)
			return
		}
	}
	if !am.headersIntact() {
		c.rep.Fail("alias:header-mutated", "an integer field of a header passed to verifyHeader / the entropy functions was changed", cs)
	}
	c.rep.Count("verify-history:" + wsClass(sc.ch, sc.p))
	if refv["ws"].kind == "z" && refv["ws"].z.Sign() > 0 {
		c.rep.Nontrivial("verify-history:ws>0:" + who)
	}
}

// ---------- ancestry and work shares (before the KawPow fork) ----------

// genAncestry fabricates stored blocks a0 <- a1 <- a2 plus a side block x on a0 (a sibling of a1); a2 has number top.
// Returned oldest first: a0, a1, x, a2 (every spec literal: the Parent fields carry the hashes).
func genAncestry(c *ctxT, top uint64, time uint64, diff string) []HSpec {
	mk := func(num uint64, t uint64, parent string, nonce uint64) HSpec {
		s := defaultH()
		s.Num, s.Time, s.Diff, s.Parent, s.Nonce = num, t, diff, parent, nonce
		s.Pow = powFor(c, new(big.Int).Div(two256, z0(diff)), true).String()
		return s
	}
	hx := func(s HSpec) string { return build(s).Hash().Hex() }
	a0 := mk(top-2, time-20, common.Hash{0xa0}.Hex(), 5000+c.rng.Next()%1000)
	a1 := mk(top-1, time-15, hx(a0), 6000+c.rng.Next()%1000)
	x := mk(top-1, time-14, hx(a0), 7000+c.rng.Next()%1000)
	a2 := mk(top, time-10, hx(a1), 8000+c.rng.Next()%1000)
	return []HSpec{a0, a1, x, a2}
}

// genShares: 1..3 work shares for a block of number num / difficulty diff whose parent is anc[3] (see genAncestry):
// mined on the parent (distance 0), the grand parent (1), the great-grand parent or the side block (2); sub-threshold
// shares (pow above the block target) and uncle-class shares (pow under it)
func genShares(c *ctxT, anc []HSpec, diff string, time uint64) []ShareSpec {
	target := new(big.Int).Div(two256, z0(diff))
	n := 1 + c.rng.Intn(3)
	out := make([]ShareSpec, n)
	for i := range out {
		on := anc[[]int{3, 3, 1, 0, 2}[c.rng.Intn(5)]]
		var pow *big.Int
		if c.rng.Chance(75) {
			pow = new(big.Int).Mul(target, big.NewInt(int64(2+c.rng.Intn(30)))) // 1..5 bits short of a block
			pow.Add(pow, randBig(c, 100))
		} else {
			pow = powFor(c, target, true)
		}
		if pow.BitLen() > 256 {
			pow = new(big.Int).Sub(two256, big.NewInt(1))
		}
		out[i] = ShareSpec{Parent: build(on).Hash().Hex(), Num: on.Num + 1, Time: time - 1, Diff: diff, Nonce: 100 + uint64(i) + c.rng.Next()%1000*10, Pow: pow.String()}
	}
	return out
}

// ---------- pool histories (all node contexts; correspondence case CHist) ----------

func genHist(c *ctxT) Case {
	ctx := genCtx(c)
	n := 2 + c.rng.Intn(3)
	cs := Case{ID: c.next(), Kind: "hist", Z: zs(big.NewInt(int64(ctx)))}
	for i := 0; i < n; i++ {
		s := genOrderSpec(c)
		for k := 0; k < 3; k++ {
			s.PE[k] = randBig(c, 1+c.rng.Intn(75)).String()
			s.PUD[k] = randBig(c, 1+c.rng.Intn(70)).String()
		}
		s.Uncled = randBig(c, 1+c.rng.Intn(70)).String()
		s.Genesis = c.rng.Chance(4)
		if ctx == common.ZONE_CTX {
			switch c.rng.Pick(3, 4, 4) {
			case 1: // after the fork: entropy of the NUMBER of shares
				s.PTNum = params.KawPowForkBlock + uint64(c.rng.Intn(1000))
				s.NUncles = 2 + c.rng.Intn(18)
			case 2: // before the fork: discounted entropy of every share
				if z0(s.Diff).Sign() > 0 {
					if len(cs.Anc) == 0 {
						cs.Anc = genAncestry(c, 1000+c.rng.Next()%100000, 1700000000, "1000000")
					}
					s.Num, s.Parent = cs.Anc[3].Num+1, build(cs.Anc[3]).Hash().Hex()
					s.Shares = genShares(c, cs.Anc, s.Diff, 1700000000)
				}
			}
		}
		cs.H = append(cs.H, s)
	}
	m := 8 + c.rng.Intn(18)
	for i := 0; i < m; i++ {
		k := []string{"order", "total", "delta", "udelta", "uncled", "ws", "evict", "purge"}[c.rng.Pick(5, 6, 8, 3, 1, 1, 2, 1)]
		cs.Ops = append(cs.Ops, OpSpec{K: k, I: c.rng.Intn(n)})
	}
	return cs
}

var histCode = map[string]int{"order": 0, "total": 1, "delta": 2, "udelta": 3, "evict": 4, "purge": 5}

func (c *ctxT) runHist(cs Case) string {
	ctx := int(bi(cs.Z[0]).Int64())
	mk := func() (*chain, []*types.WorkObject) {
		ch := chainFor(ctx, cs.ID)
		for _, a := range cs.Anc {
			ch.add(a, true)
		}
		wos := make([]*types.WorkObject, len(cs.H))
		for i, s := range cs.H {
			wos[i] = ch.add(s, false)
		}
		return ch, wos
	}
	ch, wos := mk()
	refCh, refWos := mk() // the cold view: a fresh chain whose memo is purged before every call
	refv := map[string]fnRes{}
	cold := func(fn string, i int) fnRes {
		key := fmt.Sprintf("%s/%d", fn, i)
		if v, ok := refv[key]; ok {
			return v
		}
		refCh.hc.VerifC09PurgeCaches()
		v, _ := callFn(refCh, fn, refWos[i])
		refv[key] = v
		return v
	}
	am := &aliasMon{}
	for _, wo := range wos {
		am.watch(wo)
	}
	var ops, obs, pool []string
	modelOK := true
	wsPos := false
	for i, wo := range wos {
		pool = append(pool, coqHeader(ch, wo, cs.H[i]))
		if ctx == common.ZONE_CTX {
			w := cold("ws", i)
			if w.kind != "z" {
				modelOK = false // WorkShareLogEntropy fails: the sums log and return 0; not a case of the model
			} else if w.z.Sign() > 0 {
				wsPos = true
			}
		}
	}
	failed := false
	hits := 0
	for k, o := range cs.Ops {
		if (cs.ID+uint64(k))%4 == 0 {
			// a tree expansion in the middle of the history: the node's own expansion number moves; invisible to the model
			// (it has no such state) and to the cold reference
			ch.hc.SetCurrentExpansionNumber(nodeExpansion(cs.ID + uint64(k) + 1))
		}
		switch o.K {
		case "evict":
			ch.hc.VerifC09EvictCalcOrder(wos[o.I].Hash())
		case "purge":
			ch.hc.VerifC09PurgeCaches()
		default:
			if _, _, hit := ch.hc.CheckInCalcOrderCache(wos[o.I].Hash()); hit {
				hits++
			}
			got, ptr := callFn(ch, o.K, wos[o.I])
			if want := cold(o.K, o.I); !got.eq(want) && !failed {
				failed = true
				c.rep.Fail("hist:unstable:"+o.K, fmt.Sprintf("%s(header %d) = %s within a history of calls, %s on a cold chain", o.K, o.I, got, want), cs)
			}
			am.keep(o.K, ptr)
			if code, inModel := histCode[o.K]; inModel {
				ops = append(ops, fmt.Sprintf("(%d,%d)", code, o.I))
				obs = append(obs, "Some "+got.coq(o.K))
			}
		}
		if code, inModel := histCode[o.K]; inModel && code >= 4 {
			ops = append(ops, fmt.Sprintf("(%d,%d)", code, o.I))
			obs = append(obs, "None")
		}
		if fn, bad := am.mutated(); bad && !failed {
			failed = true
			c.rep.Fail("alias:result-mutated:"+fn, "a *big.Int returned by "+fn+" was changed by a later call", cs)
		}
	}
	if !am.headersIntact() {
		c.rep.Fail("alias:header-mutated", "an integer field of a header passed to the entropy functions was changed", cs)
	}
	c.rep.Count(fmt.Sprintf("hist:ctx%d:wspos=%v:hits<=%d", ctx, wsPos, bucket(hits)))
	if hits > 0 {
		c.rep.Nontrivial(fmt.Sprintf("hist:%d:%v:%d", ctx, wsPos, bucket(hits)))
	}
	if !modelOK {
		c.rep.Count("hist:ws-error")
		return ""
	}
	return fmt.Sprintf("CHist %d %s %s %s", ctx, hlib.CoqList(pool), hlib.CoqList(ops), hlib.CoqList(obs))
}

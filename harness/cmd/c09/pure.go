package main

import (
	"fmt"
	"math"
	"math/big"
	"sort"

	"github.com/dominant-strategies/go-quai/common"
	"github.com/dominant-strategies/go-quai/consensus/misc"
	"github.com/dominant-strategies/go-quai/core"
	"github.com/dominant-strategies/go-quai/core/types"
	"github.com/dominant-strategies/go-quai/params"
)

// guarded call: nil result = the code panicked
func guard(f func() *big.Int) (res *big.Int) {
	defer func() {
		if r := recover(); r != nil {
			res = nil
		}
	}()
	return f()
}

var two64 = pow2(64)
var two256 = pow2(256)

// log2 of a positive big integer as float64 (independent of mathutil.BinaryLog)
func approxLog2(x *big.Int) float64 {
	bl := x.BitLen()
	f := new(big.Float).SetPrec(128).SetInt(x)
	f.SetMantExp(f, -(bl - 1)) // f in [1,2)
	m, _ := f.Float64()
	return float64(bl-1) + math.Log2(m)
}

// bigBits (c*2^64+m) as float64 number of bits
func bigBitsFloat(x *big.Int) float64 {
	f := new(big.Float).SetPrec(128).SetInt(x)
	f.Quo(f, new(big.Float).SetInt(two64))
	v, _ := f.Float64()
	return v
}

func hashOfInt(x *big.Int) common.Hash { return common.BytesToHash(x.Bytes()) }

func (c *ctxT) runPure(cs Case) string {
	x := bi(cs.Z[0])
	switch cs.Kind {
	case "log":
		r := guard(func() *big.Int { return common.LogBig(x) })
		// monitors: characteristic bounds, agreement with an independent floating-point log2, lower bound for x >= 2
		if x.Sign() > 0 {
			if r == nil {
				c.rep.Fail("LogBig:panic-positive", "LogBig panics on a positive argument", cs)
			} else {
				cch := int64(x.BitLen() - 1)
				lo := new(big.Int).Mul(big.NewInt(cch), two64)
				hi := new(big.Int).Mul(big.NewInt(cch+1), two64)
				if r.Cmp(lo) < 0 || r.Cmp(hi) >= 0 {
					c.rep.Fail("LogBig:characteristic", fmt.Sprintf("LogBig(x) outside [c*2^64,(c+1)*2^64) for c=%d", cch), cs)
				}
				if d := math.Abs(bigBitsFloat(r) - approxLog2(x)); d > 1e-9 {
					c.rep.Fail("LogBig:value", fmt.Sprintf("LogBig(x)/2^64 differs from log2(x) by %g", d), cs)
				}
				if x.Cmp(big.NewInt(2)) >= 0 && r.Cmp(two64) < 0 {
					c.rep.Fail("LogBig:lower", "LogBig(x) < 2^64 for x >= 2", cs)
				}
				if x.Cmp(big.NewInt(2)) >= 0 && new(big.Int).And(x, new(big.Int).Sub(x, big.NewInt(1))).Sign() != 0 {
					c.rep.Nontrivial(fmt.Sprintf("log:%d", x.BitLen()))
				}
			}
		}
		c.rep.Count(fmt.Sprintf("log:bits<=%d", bucket(x.BitLen())))
		return fmt.Sprintf("CLog %s %s", coqZ(x), coqOptZ(r))
	case "intr":
		// argument is a 256-bit value used as pow hash
		r := guard(func() *big.Int { return common.IntrinsicLogEntropy(hashOfInt(x)) })
		if x.Sign() > 0 && x.BitLen() <= 256 {
			if r == nil {
				c.rep.Fail("IntrinsicLogEntropy:panic-nonzero", "IntrinsicLogEntropy panics on a non-zero hash", cs)
			} else {
				d := new(big.Int).Div(two256, x)
				if diff := math.Abs(bigBitsFloat(r) - approxLog2(d)); diff > 1e-9 {
					c.rep.Fail("IntrinsicLogEntropy:value", fmt.Sprintf("differs from log2(2^256/hash) by %g", diff), cs)
				}
				c.rep.Nontrivial(fmt.Sprintf("intr:%d", x.BitLen()))
			}
		}
		return fmt.Sprintf("CIntr %s %s", coqZ(x), coqOptZ(r))
	case "bits":
		// BitsToBigBits hands its argument to mathutil.BinaryLog, which normalises it IN PLACE: pass a copy
		r := guard(func() *big.Int { return common.BitsToBigBits(new(big.Int).Set(x)) })
		if x.Sign() > 0 && r != nil {
			if l := guard(func() *big.Int { return common.LogBig(x) }); l == nil || l.Cmp(r) != 0 {
				c.rep.Fail("BitsToBigBits:vs-LogBig", "BitsToBigBits(x) != LogBig(x)", cs)
			}
			// round trip: BigBitsToBits(BitsToBigBits(x)) = floor(log2 x)
			if back := common.BigBitsToBits(r); back.Int64() != int64(x.BitLen()-1) {
				c.rep.Fail("BigBitsToBits:roundtrip", "BigBitsToBits(BitsToBigBits(x)) != floor(log2 x)", cs)
			}
		}
		return fmt.Sprintf("CBits %s %s", coqZ(x), coqOptZ(r))
	case "tobits":
		r := common.BigBitsToBits(x)
		return fmt.Sprintf("CToBits %s %s", coqZ(x), coqZ(r))
	case "enttodiff":
		r := common.EntropyBigBitsToDifficultyBits(x)
		return fmt.Sprintf("CEntToDiff %s %s", coqZ(x), coqZ(r))
	case "kqi":
		r := params.OneOverKqi(x.Uint64())
		return fmt.Sprintf("CKqi %s %s", coqZ(x), coqZ(r))
	}
	panic("pure kind")
}

func bucket(n int) int {
	for _, b := range []int{1, 8, 32, 64, 65, 128, 256, 257, 512} {
		if n <= b {
			return b
		}
	}
	return 4096
}

// runSorted: LogBig is monotone on a sorted sample; IntrinsicLogEntropy is antitone in the hash.
func (c *ctxT) runSorted(cs Case) {
	xs := make([]*big.Int, len(cs.Z))
	for i, s := range cs.Z {
		xs[i] = bi(s)
	}
	sort.Slice(xs, func(i, j int) bool { return xs[i].Cmp(xs[j]) < 0 })
	var prev, prevI *big.Int
	for _, x := range xs {
		if x.Sign() <= 0 {
			continue
		}
		l := guard(func() *big.Int { return common.LogBig(x) })
		if l == nil {
			c.rep.Fail("LogBig:panic-positive", "LogBig panics on a positive argument", cs)
			return
		}
		if prev != nil && l.Cmp(prev) < 0 {
			c.rep.Fail("LogBig:monotone", "x <= y but LogBig(x) > LogBig(y)", cs)
			return
		}
		prev = l
		if x.BitLen() <= 256 {
			ie := guard(func() *big.Int { return common.IntrinsicLogEntropy(hashOfInt(x)) })
			if ie == nil {
				c.rep.Fail("IntrinsicLogEntropy:panic-nonzero", "IntrinsicLogEntropy panics on a non-zero hash", cs)
				return
			}
			if prevI != nil && ie.Cmp(prevI) > 0 {
				c.rep.Fail("IntrinsicLogEntropy:antitone", "hash1 <= hash2 but entropy(hash1) < entropy(hash2)", cs)
				return
			}
			prevI = ie
		}
	}
	c.rep.Nontrivial(fmt.Sprintf("sorted:%d", len(xs)))
}

// CalcGasLimit / CalcStateLimit on a fabricated parent
func (c *ctxT) runLimit(cs Case) string {
	pnum, plimit, ceil := bi(cs.Z[0]).Uint64(), bi(cs.Z[1]).Uint64(), bi(cs.Z[2]).Uint64()
	parent := types.EmptyWorkObject(common.ZONE_CTX)
	parent.WorkObjectHeader().SetNumber(u(pnum))
	var r uint64
	var name string
	if cs.Kind == "gas" {
		parent.Header().SetGasLimit(plimit)
		r = core.CalcGasLimit(parent, ceil)
		name = "CGas"
	} else {
		parent.Header().SetStateLimit(plimit)
		r = misc.CalcStateLimit(parent, ceil)
		name = "CState"
	}
	// monitors: schedule properties stated independently of the model
	mgl := params.MinGasLimit(pnum)
	switch {
	case pnum < params.TimeToStartTx:
		if r != 0 {
			c.rep.Fail(name+":before-start", "limit is not 0 before TimeToStartTx", cs)
		}
	case plimit == 0:
		if r != mgl {
			c.rep.Fail(name+":first", "first limit after the start is not the minimum", cs)
		}
	case pnum >= 2*params.BlocksPerMonth:
		if r != ceil {
			c.rep.Fail(name+":ceil", "limit after two months is not the ceiling", cs)
		}
	default:
		if r < mgl {
			c.rep.Fail(name+":min", "limit below the minimum during the ramp", cs)
		}
		// no overflow for realistic ceilings: ramp value is the exact product quotient
		if ceil < 1<<40 {
			want := new(big.Int).Div(new(big.Int).Mul(u(pnum), u(ceil)), u(2*params.BlocksPerMonth)).Uint64()
			if want < mgl {
				want = mgl
			}
			if r != want {
				c.rep.Fail(name+":ramp", "ramp value differs from max(min, number*ceil/(2*BlocksPerMonth))", cs)
			}
		}
		c.rep.Nontrivial(name + ":ramp")
	}
	return fmt.Sprintf("%s %d %d %d %d", name, pnum, plimit, ceil, r)
}

// ---------- generators for the pure part ----------

func randBig(c *ctxT, bits int) *big.Int {
	if bits <= 0 {
		return big.NewInt(0)
	}
	b := c.rng.Bytes((bits + 7) / 8)
	x := new(big.Int).SetBytes(b)
	x.Rsh(x, uint(len(b)*8-bits))
	x.SetBit(x, bits-1, 1)
	return x
}

func boundaryInts() []*big.Int {
	var out []*big.Int
	for _, v := range []int64{-5, -1, 0, 1, 2, 3, 4, 5, 6, 7, 8, 9, 15, 16, 17, 255, 256, 257, 720, 1000} {
		out = append(out, big.NewInt(v))
	}
	for _, k := range []int{31, 32, 33, 63, 64, 65, 66, 96, 127, 128, 129, 130, 191, 192, 255, 256, 257, 300, 511, 512} {
		p := pow2(k)
		out = append(out, new(big.Int).Sub(p, big.NewInt(1)), p, new(big.Int).Add(p, big.NewInt(1)))
	}
	// values around sqrt(2)*2^k: the squaring step lands next to 2.0
	for _, s := range []string{"26087635650665564424", "26087635650665564425", "6074001000", "6074001001", "1518500249", "1518500250", "3037000499", "3037000500",
		"481231938336009023090067544955250113854", "481231938336009023090067544955250113855"} {
		out = append(out, bi(s))
	}
	// 3 * 2^k, 2^k + 2^(k-64) (rounding at the 64th fractional bit), all-ones mantissas
	for _, k := range []int{65, 66, 100, 200, 255} {
		out = append(out, new(big.Int).Mul(big.NewInt(3), pow2(k)))
		out = append(out, new(big.Int).Add(pow2(k), pow2(k-64)))
		out = append(out, new(big.Int).Add(pow2(k), pow2(k-65)))
		out = append(out, new(big.Int).Add(pow2(k), new(big.Int).Sub(pow2(k-65), big.NewInt(1))))
		out = append(out, new(big.Int).Sub(pow2(k+1), pow2(k-64)))
		out = append(out, new(big.Int).Sub(pow2(k+1), pow2(k-65)))
	}
	return out
}

func pureCorpus(c *ctxT) []Case {
	var out []Case
	for _, x := range boundaryInts() {
		out = append(out, Case{ID: c.next(), Kind: "log", Z: zs(x)})
		out = append(out, Case{ID: c.next(), Kind: "bits", Z: zs(x)})
		if x.Sign() >= 0 && x.BitLen() <= 256 {
			out = append(out, Case{ID: c.next(), Kind: "intr", Z: zs(x)})
		}
	}
	// 2^256-1 and hashes just around 2^256/d for small d
	m := new(big.Int).Sub(two256, big.NewInt(1))
	out = append(out, Case{ID: c.next(), Kind: "intr", Z: zs(m)})
	for _, d := range []int64{2, 3, 4, 5, 7, 1000, 1 << 20} {
		t := new(big.Int).Div(two256, big.NewInt(d))
		for _, dd := range []int64{-1, 0, 1} {
			out = append(out, Case{ID: c.next(), Kind: "intr", Z: zs(new(big.Int).Add(t, big.NewInt(dd)))})
		}
	}
	for _, x := range []*big.Int{big.NewInt(0), big.NewInt(1), new(big.Int).Sub(two64, big.NewInt(1)), two64, new(big.Int).Add(two64, big.NewInt(1)),
		new(big.Int).Mul(two64, big.NewInt(37)), new(big.Int).Add(new(big.Int).Mul(two64, big.NewInt(255)), big.NewInt(12345)),
		new(big.Int).Mul(two64, big.NewInt(256)), new(big.Int).Mul(two64, big.NewInt(300))} {
		out = append(out, Case{ID: c.next(), Kind: "tobits", Z: zs(x)})
		out = append(out, Case{ID: c.next(), Kind: "enttodiff", Z: zs(x)})
	}
	dp := (365 * params.BlocksPerDay * 269) / 100
	for _, n := range []uint64{0, 1, 999, params.QiActivationBlock, params.QiActivationBlock + 1, dp - 1, dp, dp + 1, 2*dp - 1, 2 * dp, 2*dp + 1, 5 * dp} {
		out = append(out, Case{ID: c.next(), Kind: "kqi", Z: zs(u(n))})
	}
	// gas / state limit schedule boundaries
	bpm := params.BlocksPerMonth
	for _, pn := range []uint64{0, 1, params.TimeToStartTx - 1, params.TimeToStartTx, params.TimeToStartTx + 1, bpm / 2, bpm, 2*bpm - 1, 2 * bpm, 2*bpm + 1, 10 * bpm} {
		for _, pl := range []uint64{0, 1, 12000000, 50000000} {
			for _, ceil := range []uint64{50000000, 1 << 62} {
				out = append(out, Case{ID: c.next(), Kind: "gas", Z: zs(u(pn), u(pl), u(ceil))})
				out = append(out, Case{ID: c.next(), Kind: "state", Z: zs(u(pn), u(pl), u(ceil))})
			}
		}
	}
	return out
}

func genPure(c *ctxT) Case {
	switch c.rng.Pick(30, 20, 8, 4, 4, 4, 10, 10, 10) {
	case 0:
		bits := []int{3, 10, 33, 64, 65, 80, 128, 200, 256, 257, 400}[c.rng.Intn(11)]
		return Case{ID: c.next(), Kind: "log", Z: zs(randBig(c, 1+c.rng.Intn(bits)))}
	case 1:
		return Case{ID: c.next(), Kind: "intr", Z: zs(randBig(c, 1+c.rng.Intn(256)))}
	case 2:
		return Case{ID: c.next(), Kind: "bits", Z: zs(randBig(c, 1+c.rng.Intn(70)))}
	case 3:
		return Case{ID: c.next(), Kind: "tobits", Z: zs(randBig(c, 1+c.rng.Intn(80)))}
	case 4:
		return Case{ID: c.next(), Kind: "enttodiff", Z: zs(new(big.Int).Add(new(big.Int).Mul(two64, big.NewInt(int64(c.rng.Intn(300)))), randBig(c, 1+c.rng.Intn(64))))}
	case 5:
		return Case{ID: c.next(), Kind: "kqi", Z: zs(u(c.rng.Next() % (40 * 17280 * 365)))}
	case 6, 7:
		bpm := params.BlocksPerMonth
		pn := []uint64{c.rng.Next() % (3 * bpm), params.TimeToStartTx + c.rng.Next()%(2*bpm), c.rng.Next()}[c.rng.Pick(5, 5, 1)]
		pl := []uint64{0, 12000000, c.rng.Next() % 60000000}[c.rng.Intn(3)]
		ceil := []uint64{50000000, 30000000 + c.rng.Next()%40000000, c.rng.Next()}[c.rng.Pick(6, 3, 1)]
		k := "gas"
		if c.rng.Bool() {
			k = "state"
		}
		return Case{ID: c.next(), Kind: k, Z: zs(u(pn), u(pl), u(ceil))}
	default:
		n := 6 + c.rng.Intn(10)
		var xs []*big.Int
		base := randBig(c, 1+c.rng.Intn(256))
		for i := 0; i < n; i++ {
			switch c.rng.Intn(3) {
			case 0:
				xs = append(xs, randBig(c, 1+c.rng.Intn(256)))
			case 1: // close neighbours
				xs = append(xs, new(big.Int).Add(base, big.NewInt(int64(c.rng.Intn(5)))))
			default: // same bit length
				xs = append(xs, randBig(c, base.BitLen()))
			}
		}
		return Case{ID: c.next(), Kind: "sorted", Z: zs(xs...)}
	}
}

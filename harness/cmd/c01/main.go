// C01 harness: Qi UTXO ledger (spent at most once, authorised, conservation, backend
// independent, worker agrees).  Drives the REAL core.ProcessQiTx on leveldb, pebble,
// memorydb and rawdb.NewTable wrappers with one write batch per block and
// batch.SetPending(true) exactly as StateProcessor.Process does, the real
// (*worker).processQiTx through the verif hook core.VerifC01NewWorker, and
// core.ValidateQiTxInputs.  Writes Coq cases for the model comparison (Model/C01.v) and
// evaluates model-independent monitors (see monitors.go header comment below).
package main

import (
	"bytes"
	"encoding/hex"
	"encoding/json"
	"fmt"
	"math/big"
	"os"
	"strings"

	"github.com/dominant-strategies/go-quai/common"
	"github.com/dominant-strategies/go-quai/core/types"
	"github.com/dominant-strategies/go-quai/ethdb"
	"github.com/dominant-strategies/go-quai/params"

	"verifharness/hlib"
)

type bigInt = big.Int

func newBig(x int64) *big.Int { return big.NewInt(x) }

// ---------- Coq printers ----------

// cb prints a byte string as  (hx "a0ff")  (Model/C01.v: hx), which coqc reads much faster than [160;255].
func cb(b []byte) string {
	if len(b) == 0 {
		return "[]"
	}
	return `(hx "` + hex.EncodeToString(b) + `")`
}

func coqEntry(e Entry) string {
	return fmt.Sprintf("(%s, mkU %d %s %s)", cb(e.Key), e.Den, cb(e.Owner), e.Lock)
}
func coqLedger(es []Entry) string {
	items := make([]string, len(es))
	for i, e := range es {
		items[i] = coqEntry(e)
	}
	return hlib.CoqList(items)
}
func coqCtx(c *builtCtx) string {
	s := c.spec
	return fmt.Sprintf("mkCtx %d %d %d %d %d %d %s %s %s %d %d", nodeLoc[0], nodeLoc[1], s.Height, s.PTN, s.GasLimit, s.BaseFee,
		c.R.String(), c.Q.String(), cb(s.Elig), s.RLim, s.PLim)
}
func coqTx(bt *builtTx) string {
	ins := make([]string, len(bt.inKeys))
	for i := range bt.inKeys {
		ins[i] = fmt.Sprintf("mkIn %s %s true", cb(bt.inKeys[i]), cb(bt.pkAddrs[i]))
	}
	outs := make([]string, len(bt.spec.Outs))
	for i, o := range bt.spec.Outs {
		outs[i] = fmt.Sprintf("mkOut %d %s %d", o.Den, cb(o.Addr), o.Lock)
	}
	return fmt.Sprintf("mkTx %s %s %s %s %s %d %s %s", cb(bt.hash[:]), hlib.CoqBool(!bt.spec.BadChain),
		hlib.CoqList(ins), hlib.CoqList(outs), cb(bt.spec.Data), bt.intrinsic, hlib.CoqBool(bt.spec.CheckSig), hlib.CoqBool(bt.sigOK))
}
func coqBools(bs []bool) string {
	items := make([]string, len(bs))
	for i, b := range bs {
		items[i] = hlib.CoqBool(b)
	}
	return hlib.CoqList(items)
}

// poolBackends: pool scenarios run on one engine of each kind (the cache is backend independent; a real pool
// with its goroutines is started per run)
func poolBackends(bks []backend) []backend { return []backend{bks[0], bks[1], bks[2]} }

func coqKeys(ks [][]byte) string {
	items := make([]string, len(ks))
	for i, k := range ks {
		items[i] = cb(k)
	}
	return hlib.CoqList(items)
}
func coqObs(o TxObs) string {
	etxs := make([]string, len(o.Etxs))
	for i, e := range o.Etxs {
		etxs[i] = fmt.Sprintf("mkEtx %d %s %s %d %d", e.Type, cb(e.To), e.Value, e.Index, e.Gas)
	}
	return fmt.Sprintf("mkObs %s %d %s %s %s %s %s", o.Fee, o.Gas, o.Removed, o.Added, hlib.CoqList(etxs), coqKeys(o.Spent), coqKeys(o.Created))
}
func coqBlockObs(b BlockObs) string {
	txs := make([]string, len(b.Txs))
	for i, t := range b.Txs {
		txs[i] = coqObs(t)
	}
	return fmt.Sprintf("(%s, %s, %s)", hlib.CoqList(txs), hlib.CoqBool(b.OK), coqLedger(b.Ledger))
}
func baseEntries(s *Scenario) []Entry {
	// sorted by key as a database iterates them; duplicates (same outpoint twice) keep the last write
	m := map[string]Entry{}
	for _, u := range s.Base {
		var h [32]byte
		copy(h[:], u.Hash)
		k := opKey(h, u.Index)
		m[string(k)] = Entry{Key: k, Den: u.Den, Owner: u.Owner, Lock: fmt.Sprint(u.Lock)}
	}
	ks := hlib.SortedKeys(m)
	out := make([]Entry, len(ks))
	for i, k := range ks {
		out[i] = m[k]
	}
	return out
}

// ---------- case record ----------

type caseJS struct {
	ID       int                   `json:"id"`
	Scenario *Scenario             `json:"scenario"`
	Proc     map[string][]BlockObs `json:"proc,omitempty"`   // per backend
	Worker   *WorkerObs            `json:"worker,omitempty"` // memorydb
	Zone     *ZoneObs              `json:"zone,omitempty"`   // real StateProcessor.Process of a one-zone node
}

func sameJSON(a, b any) bool {
	x, _ := json.Marshal(a)
	y, _ := json.Marshal(b)
	return bytes.Equal(x, y)
}

// ---------- monitors (independent of the Coq model) ----------
//
// Evaluated on every backend for scenarios run with batch.SetPending(true) (the production
// configuration).  They use only the scenario, the databases' contents before/after each
// block and ProcessQiTx's return values -- not the model:
//   spent-once     no outpoint is named by two inputs of the accepted transactions of one block
//   existed-gone   every outpoint consumed by an accepted block was in the DB before the block or was
//                  created earlier in the block, and is not in the DB afterwards; nothing else vanished
//   created        every local output of an accepted block is in the DB afterwards, nothing else appeared
//   authorised     the key carried by each input of an accepted tx hashes to the consumed entry's owner,
//                  the entry was unlocked, and with checkSig the harness had signed with exactly those keys
//   conservation   per accepted tx: value of consumed entries = local outputs + ETX value (+ converted) + fee,
//                  and supplyRemoved - supplyAdded = fee + outbound (modulo the pre-fork wrapping double entry)
//   no-merge-up    accepted non-first tx: for every d>=1 the value of outputs of denomination >= d does not
//                  exceed the value of inputs of denomination >= d
//   rejected-noop  a rejected block leaves the DB untouched
//   backends-agree identical verdicts, effects and final DB on all backends
//   worker-agrees  the list accepted by the worker (minus what the pool would refuse) is accepted by ProcessQiTx as one
//                  block (checkSig=false) with the same fees/ETXs/outpoints, and that block passes all monitors above
//                  (backend name "worker-block/<backend>"); see also monitorsWorker
// Scenarios of kind "pool" (pool.go) put a real TxPool in front of the blocks: checkSig is then computed from the
// pool's senders cache as StateProcessor.Process does, "authorised" demands a signature by the carried keys whatever
// checkSig is, and monitorsPool checks the pool's admissions and the cache itself.

func denVal(d uint8) *big.Int {
	if v, ok := denomSnapshot[d]; ok {
		return v
	}
	return big.NewInt(0)
}

func ledgerMap(es []Entry) map[string]Entry {
	m := map[string]Entry{}
	for _, e := range es {
		m[string(e.Key)] = e
	}
	return m
}

func monitorsProc(rep *hlib.Report, c caseJS, backendName string, s *Scenario, ctxs []*builtCtx, txs [][]*builtTx, obs []BlockObs) {
	fail := func(mon, what string) {
		rep.Fail(fmt.Sprintf("monitor=%s backend=%s", mon, backendName), fmt.Sprintf("scenario %q: %s", s.Name, what), c)
	}
	before := ledgerMap(baseEntries(s))
	for bi, bo := range obs {
		after := ledgerMap(bo.Ledger)
		if bo.Panic != "" {
			fail("panic", "ProcessQiTx panicked: "+bo.Panic)
		}
		if s.Blocks[bi].Gossip {
			// a gossip phase only reads the database
			if !sameJSON(before, after) {
				fail("rejected-noop", fmt.Sprintf("gossip phase %d changed the UTXO records", bi))
			}
			continue
		}
		if !bo.OK {
			if !sameJSON(before, after) {
				fail("rejected-noop", fmt.Sprintf("block %d was rejected but the UTXO records changed", bi))
			}
			continue
		}
		cur := map[string]Entry{} // expected state while walking the block
		for k, v := range before {
			cur[k] = v
		}
		seen := map[string]bool{}
		for ti, bt := range txs[bi] {
			o := bo.Txs[ti]
			in := big.NewInt(0)
			inDens := map[uint8]int64{}
			for ii, k := range bt.inKeys {
				ks := string(k)
				if seen[ks] {
					fail("spent-once", fmt.Sprintf("block %d accepted although outpoint %x is consumed twice (second time by tx %d input %d)", bi, k, ti, ii))
				}
				seen[ks] = true
				e, ok := cur[ks]
				if !ok {
					fail("existed-gone", fmt.Sprintf("block %d tx %d input %d consumes outpoint %x which is not unspent at that point", bi, ti, ii, k))
					continue
				}
				delete(cur, ks)
				in.Add(in, denVal(e.Den))
				inDens[e.Den]++
				if !bytes.Equal(e.Owner, bt.pkAddrs[ii]) {
					fail("authorised", fmt.Sprintf("block %d tx %d input %d: key address %x is not the owner %x", bi, ti, ii, bt.pkAddrs[ii], e.Owner))
				}
				lock, _ := new(big.Int).SetString(e.Lock, 10)
				if lock.Cmp(new(big.Int).SetUint64(ctxs[bi].spec.Height)) > 0 {
					fail("authorised", fmt.Sprintf("block %d tx %d input %d: entry locked until %s spent at height %d", bi, ti, ii, e.Lock, ctxs[bi].spec.Height))
				}
			}
			if bo.CheckSig == nil && bt.spec.CheckSig && !bt.sigOK {
				fail("authorised", fmt.Sprintf("block %d tx %d accepted with checkSig although it was not signed by the keys it carries (%s)", bi, ti, bt.spec.Sign))
			}
			if bo.CheckSig != nil && !bt.sigOK {
				// checkSig came from the node's own senders cache, as in StateProcessor.Process: whatever the pool saw
				// before, a transaction that is not signed by the keys it carries must not be accepted
				fail("authorised", fmt.Sprintf("block %d tx %d accepted (checkSig=%v from the pool's senders cache) although it was not signed by the keys it carries (%s)", bi, ti, bo.CheckSig[ti], bt.spec.Sign))
			}
			// outputs as the DB shows them: local ones are the records tx.Hash()++index
			local := big.NewInt(0)
			outDens := map[uint8]int64{}
			for oi, os := range bt.spec.Outs {
				// which outputs stay in this zone's UTXO set is decided here from the address alone
				// (in-zone Qi address; before QiWrappingChangeBlock also the wrapped output itself);
				// the comparison of cur with the DB after the block checks that this is what was written
				inZone := len(os.Addr) == 20 && os.Addr[0] == nodeLoc.BytePrefix()
				isLocal := inZone && os.Addr[1] > 127
				if inZone && os.Addr[1] <= 127 && len(bt.spec.Data) == 20 && ctxs[bi].spec.PTN < qiWrappingChangeBlock() {
					isLocal = true
				}
				if !isLocal {
					continue
				}
				k := opKey(bt.hash, uint16(oi))
				cur[string(k)] = Entry{Key: k, Den: os.Den, Owner: os.Addr, Lock: "0"}
				local.Add(local, denVal(os.Den))
				if os.Addr[1] > 127 {
					outDens[os.Den]++
				}
			}
			etxv := big.NewInt(0)
			wrapped := big.NewInt(0)
			for _, e := range o.Etxs {
				v, _ := new(big.Int).SetString(e.Value, 10)
				switch e.Type {
				case types.DefaultType:
					etxv.Add(etxv, denVal(uint8(v.Uint64())))
					outDens[uint8(v.Uint64())]++
				case types.WrappingQiType:
					wrapped.Add(wrapped, v)
					etxv.Add(etxv, v)
				default:
					etxv.Add(etxv, v)
				}
			}
			fee, _ := new(big.Int).SetString(o.Fee, 10)
			rhs := new(big.Int).Add(local, etxv)
			rhs.Add(rhs, fee)
			lhs := new(big.Int).Set(in)
			if ctxs[bi].spec.PTN < qiWrappingChangeBlock() {
				lhs.Add(lhs, wrapped) // before the fork a wrapped output is both a (frozen) local record and a claim
			}
			if lhs.Cmp(rhs) != 0 || fee.Sign() < 0 {
				fail("conservation", fmt.Sprintf("block %d tx %d: consumed %s but local outputs %s + outbound %s + fee %s", bi, ti, in, local, etxv, fee))
			}
			rem, _ := new(big.Int).SetString(o.Removed, 10)
			add, _ := new(big.Int).SetString(o.Added, 10)
			if rem.Cmp(in) != 0 || add.Cmp(local) != 0 {
				fail("conservation", fmt.Sprintf("block %d tx %d: supply deltas removed %s added %s but consumed %s created %s", bi, ti, rem, add, in, local))
			}
			if ti > 0 {
				var accIn, accOut big.Int
				for d := int(types.MaxDenomination); d >= 1; d-- {
					accIn.Add(&accIn, new(big.Int).Mul(denVal(uint8(d)), big.NewInt(inDens[uint8(d)])))
					accOut.Add(&accOut, new(big.Int).Mul(denVal(uint8(d)), big.NewInt(outDens[uint8(d)])))
					if accOut.Cmp(&accIn) > 0 {
						fail("no-merge-up", fmt.Sprintf("block %d tx %d merges smaller denominations into denomination >= %d", bi, ti, d))
						break
					}
				}
			}
		}
		if !sameJSON(cur, after) {
			fail("existed-gone", fmt.Sprintf("block %d: UTXO records after the block differ from (before - consumed + created)", bi))
		}
		before = after
	}
}

// monitorsWorker: the property evaluated directly on what the real worker.processQiTx (block assembly) and the
// real ValidateQiTxInputs (pool admission) decided, from the scenario alone:
//   spent-once site=worker   the transactions the worker put into ONE pending block name no outpoint twice
//                            (inside one transaction or across transactions, whatever was rejected in between)
//   existed site=worker      every outpoint they consume is an unlocked record of the committed database
//   authorised site=pool     ValidateQiTxInputs ok => EVERY input (not every distinct key) names an existing,
//                            unlocked record of a legal denomination whose owner is the address of the key the
//                            input carries
func monitorsWorker(rep *hlib.Report, c caseJS, s *Scenario, ctx *builtCtx, txs []*builtTx, wo WorkerObs) {
	base := ledgerMap(baseEntries(s))
	seen := map[string]int{}
	for ti, bt := range txs {
		if ti < len(wo.Mempool) && wo.Mempool[ti] {
			for ii, k := range bt.inKeys {
				e, ok := base[string(k)]
				lock, _ := new(big.Int).SetString(e.Lock, 10)
				switch {
				case !ok:
					rep.Fail("monitor=authorised site=pool", fmt.Sprintf("scenario %q: ValidateQiTxInputs accepts tx %d whose input %d names outpoint %x which is not in the database", s.Name, ti, ii, k), c)
				case !bytes.Equal(e.Owner, bt.pkAddrs[ii]):
					rep.Fail("monitor=authorised site=pool", fmt.Sprintf("scenario %q: ValidateQiTxInputs accepts tx %d input %d: key address %x is not the owner %x", s.Name, ti, ii, bt.pkAddrs[ii], e.Owner), c)
				case lock.Cmp(new(big.Int).SetUint64(ctx.spec.Height)) > 0 || e.Den > types.MaxDenomination:
					rep.Fail("monitor=authorised site=pool", fmt.Sprintf("scenario %q: ValidateQiTxInputs accepts tx %d input %d: entry locked until %s / denomination %d at height %d", s.Name, ti, ii, e.Lock, e.Den, ctx.spec.Height), c)
				}
			}
		}
		if ti >= len(wo.Verdicts) || wo.Verdicts[ti] == nil {
			continue
		}
		for ii, k := range bt.inKeys {
			if prev, dup := seen[string(k)]; dup {
				rep.Fail("monitor=spent-once site=worker", fmt.Sprintf("scenario %q: the worker put tx %d into the pending block although its input %d consumes outpoint %x already consumed by included tx %d", s.Name, ti, ii, k, prev), c)
			}
			seen[string(k)] = ti
			e, ok := base[string(k)]
			if !ok {
				rep.Fail("monitor=existed site=worker", fmt.Sprintf("scenario %q: the worker included tx %d whose input %d names outpoint %x which is not in the committed database", s.Name, ti, ii, k), c)
				continue
			}
			lock, _ := new(big.Int).SetString(e.Lock, 10)
			if lock.Cmp(new(big.Int).SetUint64(ctx.spec.Height)) > 0 {
				rep.Fail("monitor=existed site=worker", fmt.Sprintf("scenario %q: the worker included tx %d input %d: entry locked until %s at height %d", s.Name, ti, ii, e.Lock, ctx.spec.Height), c)
			}
		}
	}
}

// monitorsPool: the senders cache as part of the authorisation path, evaluated on what the REAL pool did with
// the gossiped transactions (the database is the one the blocks are processed on):
//   authorised site=pool-admission     a transaction the pool admits (AddRemotes/AddLocals return nil, or it is reinjected
//                                      after a reorganisation) is signed by exactly the keys it carries and every input names
//                                      an existing, unlocked entry owned by the address of the key that input carries
//   cache-only-verified site=pool      a hash is in the senders cache (which makes Process skip the signature check) only
//                                      if a transaction with that hash was admitted, and never for a transaction that is
//                                      not signed by the keys it carries or whose inputs it does not own
func monitorsPool(rep *hlib.Report, c caseJS, backendName string, s *Scenario, ctxs []*builtCtx, txs [][]*builtTx, obs []BlockObs) {
	fail := func(mon, what string) {
		rep.Fail(fmt.Sprintf("monitor=%s backend=%s", mon, backendName), fmt.Sprintf("scenario %q: %s", s.Name, what), c)
	}
	pctx := firstGossipCtx(s, ctxs)
	before := ledgerMap(baseEntries(s))
	admitted := map[string]bool{}
	for bi, bo := range obs {
		g := bo.Gossip
		if !s.Blocks[bi].Gossip {
			before = ledgerMap(bo.Ledger)
			continue
		}
		if bo.Panic != "" || g == nil {
			fail("panic site=pool", "the pool panicked: "+bo.Panic)
			continue
		}
		if g.Stall {
			fail("stall site=pool", fmt.Sprintf("gossip phase %d: the senders cache writer did not catch up", bi))
		}
		owns := func(bt *builtTx) string {
			for ii, k := range bt.inKeys {
				e, ok := before[string(k)]
				if !ok {
					return fmt.Sprintf("input %d names outpoint %x which is not in the database", ii, k)
				}
				lock, _ := new(big.Int).SetString(e.Lock, 10)
				if !bytes.Equal(e.Owner, bt.pkAddrs[ii]) {
					return fmt.Sprintf("input %d: key address %x is not the owner %x", ii, bt.pkAddrs[ii], e.Owner)
				}
				if lock.Cmp(new(big.Int).SetUint64(pctx.spec.Height)) > 0 {
					return fmt.Sprintf("input %d: entry locked until %s at height %d", ii, e.Lock, pctx.spec.Height)
				}
			}
			if len(bt.inKeys) == 0 {
				return "no inputs"
			}
			return ""
		}
		for i, bt := range txs[bi] {
			if i < len(g.Admitted) && g.Admitted[i] {
				admitted[string(bt.hash[:])] = true
				if !bt.sigOK {
					fail("authorised site=pool-admission", fmt.Sprintf("gossip phase %d: the pool admits tx %d (via %q) which is not signed by the keys it carries (%s)", bi, i, bt.spec.Via, bt.spec.Sign))
				}
				if why := owns(bt); why != "" {
					fail("authorised site=pool-admission", fmt.Sprintf("gossip phase %d: the pool admits tx %d (via %q): %s", bi, i, bt.spec.Via, why))
				}
			}
		}
		for i, bt := range txs[bi] {
			if i < len(g.InPool) && g.InPool[i] && !bt.sigOK {
				fail("authorised site=pool-admission", fmt.Sprintf("gossip phase %d: tx %d (%s) sits in the Qi pool although it is not signed by the keys it carries", bi, i, bt.spec.Sign))
			}
			if i >= len(g.Cached) || !g.Cached[i] {
				continue
			}
			switch {
			case !bt.sigOK:
				fail("cache-only-verified site=pool", fmt.Sprintf("gossip phase %d: the hash of tx %d is in the senders cache (= signature verified, Process will not check it) although the transaction is not signed by the keys it carries (%s)", bi, i, bt.spec.Sign))
			case !admitted[string(bt.hash[:])]:
				fail("cache-only-verified site=pool", fmt.Sprintf("gossip phase %d: the hash of tx %d is in the senders cache although the pool never admitted that transaction", bi, i))
			}
		}
	}
}

func qiWrappingChangeBlock() uint64 { return params.QiWrappingChangeBlock }

// ---------- main ----------

// ---------- shared constants stay what they are ----------
//
// types.Denominations is a package-level map of *big.Int that ProcessQiTx, the worker, the pool and every
// monitor above read: an operation that aliases an entry (x := types.Denominations[d]; x.Add(x, ..)) changes the
// value of money for every later transaction of the process.  The table is copied at start-up and compared after
// every scenario (monitor constants-immutable), and the monitors' denVal reads the copy.

var denomSnapshot = map[uint8]*big.Int{}

func snapshotConstants() {
	for d, v := range types.Denominations {
		denomSnapshot[d] = new(big.Int).Set(v)
	}
}

func monitorConstants(rep *hlib.Report, c caseJS, s *Scenario) {
	bad := len(types.Denominations) != len(denomSnapshot)
	for d, v := range denomSnapshot {
		if cur, ok := types.Denominations[d]; !ok || cur == nil || cur.Cmp(v) != 0 {
			bad = true
		}
	}
	if bad {
		rep.Fail("monitor=constants-immutable site=types.Denominations", fmt.Sprintf("scenario %q: the shared denomination table was modified while the scenario ran", s.Name), c)
		for d, v := range denomSnapshot { // repair, so that one aliasing bug is reported where it happens and not by every later scenario
			types.Denominations[d] = new(big.Int).Set(v)
		}
	}
}

func runScenario(rep *hlib.Report, cw *hlib.CaseWriter, s *Scenario, id int, bks []backend, tmp string, sigRng *hlib.Rng) {
	setLoc(s)
	rep.Count(fmt.Sprintf("location:[%d,%d]", nodeLoc[0], nodeLoc[1]))
	if s.Restart {
		rep.Count("restart-between-blocks")
	}
	defer func() { monitorConstants(rep, caseJS{ID: id, Scenario: s}, s) }()
	keys := make([]keyInfo, len(s.Keys))
	for i, k := range s.Keys {
		keys[i] = mkKey(k)
	}
	if s.Kind == "zone" {
		// no Coq case: the frame of StateProcessor.Process is outside the model (monitors only, zone.go)
		rep.Evaluations++
		rep.Count("kind:zone")
		zo, ztxs := runZone(s, keys, sigRng)
		c := caseJS{ID: id, Scenario: s, Zone: &zo}
		rep.TracesValidated++
		if zo.Setup != "" {
			rep.Count("zone:setup failed")
			rep.Note(fmt.Sprintf("zone scenario %q: node not brought up: %s", s.Name, zo.Setup))
			return
		}
		monitorsZone(rep, c, s, ztxs, zo)
		for _, b := range zo.Bodies {
			if b.OK {
				rep.Nontrivial(fmt.Sprintf("zone/%d", id))
			}
		}
		return
	}
	mkCtxs := func() []*builtCtx {
		cs := make([]*builtCtx, len(s.Blocks))
		for i, b := range s.Blocks {
			cs[i] = buildCtx(b.Ctx)
		}
		return cs
	}
	txs := buildTxs(s, keys, sigRng)
	ctxs := mkCtxs()
	c := caseJS{ID: id, Scenario: s}
	blocksCoq := make([]string, len(s.Blocks))
	for bi := range s.Blocks {
		ts := make([]string, len(txs[bi]))
		for i, bt := range txs[bi] {
			ts[i] = coqTx(bt)
		}
		blocksCoq[bi] = fmt.Sprintf("(%s, %s)", coqCtx(ctxs[bi]), hlib.CoqList(ts))
	}
	rep.Evaluations++
	rep.Count("kind:" + s.Kind)
	rep.Count(fmt.Sprintf("tracks:%v", s.Tracks))
	switch s.Kind {
	case "proc":
		c.Proc = map[string][]BlockObs{}
		var distinct [][]BlockObs
		var first []BlockObs
		for bi, bk := range bks {
			db, closeFn := bk.open(tmp)
			var restart func(ethdb.Database) ethdb.Database
			if bk.restart != nil {
				bk := bk
				restart = func(d ethdb.Database) ethdb.Database { return bk.restart(tmp, d) }
			}
			obs := runProc(db, s, mkCtxs(), txs, restart)
			closeFn()
			c.Proc[bk.name] = obs
			rep.TracesValidated++
			if bi == 0 {
				first = obs
			}
			dup := false
			for _, d := range distinct {
				if sameJSON(d, obs) {
					dup = true
				}
			}
			if !dup {
				distinct = append(distinct, obs)
			}
		}
		for _, bk := range bks {
			obs := c.Proc[bk.name]
			if s.Tracks {
				monitorsProc(rep, c, bk.name, s, ctxs, txs, obs)
				if !sameJSON(obs, first) {
					rep.Fail(fmt.Sprintf("monitor=backends-agree backend=%s", bk.name),
						fmt.Sprintf("scenario %q: %s and %s disagree on verdicts/effects of the same blocks", s.Name, bk.name, bks[0].name), c)
				}
			}
		}
		// distribution / non-triviality
		nacc := 0
		for bi, bo := range first {
			if bo.OK {
				rep.Count("block:accepted")
			} else {
				rep.Count("block:rejected")
				rep.Count("reject:" + errBucket(bo.Err))
				if len(bo.Txs) < len(txs[bi]) {
					rep.Count("reject-at-note:" + txs[bi][len(bo.Txs)].spec.Note)
					if txs[bi][len(bo.Txs)].spec.Note == "valid" {
						rep.Count("valid-rejected-because:" + errBucket(bo.Err))
					}
				}
			}
			nacc += len(bo.Txs)
			for ti, t := range bo.Txs {
				rep.Count(fmt.Sprintf("tx:accepted ins=%d", len(txs[bi][ti].inKeys)))
				if len(t.Etxs) > 0 {
					rep.Count("tx:accepted with etx")
				}
			}
		}
		if nacc > 0 {
			rep.Nontrivial(fmt.Sprintf("proc/%d", id))
		}
		obsCoq := make([]string, len(distinct))
		for i, d := range distinct {
			bl := make([]string, len(d))
			for j, b := range d {
				bl[j] = coqBlockObs(b)
			}
			obsCoq[i] = hlib.CoqList(bl)
		}
		cw.Add(fmt.Sprintf("(%d, CProc %s %s %s %s)", id, hlib.CoqBool(s.Tracks), coqLedger(baseEntries(s)), hlib.CoqList(blocksCoq), hlib.CoqList(obsCoq)), c)
	case "pool":
		c.Proc = map[string][]BlockObs{}
		pbk := poolBackends(bks)
		var first []BlockObs
		for bi, bk := range pbk {
			db, closeFn := bk.open(tmp)
			obs := runProc(db, s, mkCtxs(), txs)
			closeFn()
			c.Proc[bk.name] = obs
			rep.TracesValidated++
			if bi == 0 {
				first = obs
			}
		}
		for _, bk := range pbk {
			obs := c.Proc[bk.name]
			monitorsPool(rep, c, bk.name, s, ctxs, txs, obs)
			monitorsProc(rep, c, bk.name, s, ctxs, txs, obs)
			if !sameJSON(obs, first) {
				rep.Fail(fmt.Sprintf("monitor=backends-agree backend=%s", bk.name),
					fmt.Sprintf("scenario %q: %s and %s disagree on pool verdicts / cache / block effects", s.Name, bk.name, pbk[0].name), c)
			}
		}
		nacc, ncached, nforgedSeen := 0, 0, 0
		steps := make([]string, len(s.Blocks))
		for bi, bo := range first {
			ts := make([]string, len(txs[bi]))
			for i, bt := range txs[bi] {
				ts[i] = coqTx(bt)
			}
			if s.Blocks[bi].Gossip {
				g := bo.Gossip
				if g == nil {
					g = &GossipObs{}
				}
				for i, bt := range txs[bi] {
					rep.Count("gossip-via:" + bt.spec.Via)
					if i < len(g.Cached) && g.Cached[i] {
						ncached++
					}
					if !bt.sigOK {
						nforgedSeen++
						rep.Count("gossip:not signed by the carried keys (" + bt.spec.Sign + ")")
					}
					if i < len(g.Admitted) && g.Admitted[i] {
						rep.Count("gossip:admitted")
					} else {
						rep.Count("gossip:refused")
					}
				}
				steps[bi] = fmt.Sprintf("PGossip (%s) %s %s %s", coqCtx(firstGossipCtx(s, ctxs)), hlib.CoqList(ts), coqBools(g.Admitted), coqBools(g.Cached))
				continue
			}
			if bo.OK {
				rep.Count("pool-block:accepted")
			} else {
				rep.Count("pool-block:rejected")
				rep.Count("reject:" + errBucket(bo.Err))
			}
			nacc += len(bo.Txs)
			for ti := range txs[bi] {
				if ti < len(bo.CheckSig) && !bo.CheckSig[ti] {
					rep.Count("pool-block-tx:checkSig=false (cache hit)")
				} else {
					rep.Count("pool-block-tx:checkSig=true")
				}
			}
			var distinct []string
			seen := map[string]bool{}
			for _, bk := range pbk {
				o := c.Proc[bk.name]
				if bi >= len(o) {
					continue
				}
				t := coqBlockObs(o[bi])
				if !seen[t] {
					seen[t] = true
					distinct = append(distinct, t)
				}
			}
			steps[bi] = fmt.Sprintf("PBlock (%s) %s %s %s", coqCtx(ctxs[bi]), hlib.CoqList(ts), coqBools(bo.CheckSig), hlib.CoqList(distinct))
		}
		if nacc > 0 && ncached > 0 || nforgedSeen > 0 {
			rep.Nontrivial(fmt.Sprintf("pool/%d", id))
		}
		cw.Add(fmt.Sprintf("(%d, CPool %s %s)", id, coqLedger(baseEntries(s)), hlib.CoqList(steps)), c)
	case "worker":
		db, closeFn := bks[2].open(tmp) // memorydb
		wctx := mkCtxs()[0]
		wo := runWorker(db, s, wctx, txs[0])
		closeFn()
		c.Worker = &wo
		rep.TracesValidated++
		if wo.Panic != "" {
			rep.Fail("monitor=panic site=worker", fmt.Sprintf("scenario %q: processQiTx panicked: %s", s.Name, wo.Panic), c)
		}
		monitorsWorker(rep, c, s, wctx, txs[0], wo)
		// monitor worker-agrees: whatever list the worker accepts is replayed through the real ProcessQiTx as
		// ONE block (one batch, SetPending(true), checkSig=false as after a pool hit) on two backends and must be
		// accepted with the same fees / ETXs / outpoints.  The worker does not check keys (ownership is the pool's
		// ValidateQiTxInputs), so accepted transactions the pool would refuse are left out of the replay; leaving
		// transactions out only frees gas, ETX limits and outpoints, and can only move the firstQiTx exemption
		// forward, so the remaining list must still be accepted.
		acc := &Scenario{Kind: "proc", Name: s.Name + "/accepted-by-worker", Tracks: true, Keys: s.Keys, Base: s.Base, Loc: s.Loc,
			Blocks: []BlockSpec{{Ctx: s.Blocks[0].Ctx}}}
		var accTxs []*builtTx
		var accObs []*TxObs
		nacc, unpooled := 0, 0
		for i, v := range wo.Verdicts {
			if v != nil {
				nacc++
				if !wo.Mempool[i] {
					unpooled++
					continue
				}
				accTxs = append(accTxs, txs[0][i])
				accObs = append(accObs, v)
			}
		}
		spenders, maxSp := map[string]int{}, 0
		for _, bt := range txs[0] {
			mine := map[string]bool{}
			for _, k := range bt.inKeys {
				if !mine[string(k)] {
					mine[string(k)] = true
					spenders[string(k)]++
					if spenders[string(k)] > maxSp {
						maxSp = spenders[string(k)]
					}
				}
			}
		}
		rep.Count(fmt.Sprintf("worker:most-spenders-of-one-outpoint=%d", maxSp))
		rep.Count(fmt.Sprintf("worker:accepted=%d", nacc))
		if unpooled > 0 {
			rep.Count("worker:accepted a tx the pool would refuse (left out of the replay)")
		}
		if nacc > 0 {
			rep.Nontrivial(fmt.Sprintf("worker/%d", id))
		}
		if len(accTxs) > 0 {
			rep.Count("worker:replayed through ProcessQiTx")
			for _, bk := range []backend{bks[0], bks[2]} {
				db2, close2 := bk.open(tmp)
				actxs := mkCtxs()[:1]
				obs := runProc(db2, acc, actxs, [][]*builtTx{accTxs})
				close2()
				if !obs[0].OK {
					rep.Fail("monitor=worker-agrees backend="+bk.name,
						fmt.Sprintf("scenario %q: the worker accepted %d Qi txs but ProcessQiTx rejects that block at tx %d", s.Name, len(accTxs), len(obs[0].Txs)), c)
					continue
				}
				for i, o := range obs[0].Txs {
					if o.Fee != accObs[i].Fee || !sameJSON(o.Etxs, accObs[i].Etxs) || !sameJSON(o.Spent, accObs[i].Spent) || !sameJSON(o.Created, accObs[i].Created) {
						rep.Fail("monitor=worker-agrees backend="+bk.name,
							fmt.Sprintf("scenario %q: worker and ProcessQiTx disagree on fee/ETXs/outpoints of accepted tx %d", s.Name, i), c)
					}
				}
				// the block the node assembled, as processed by the node: every property monitor of the processing path
				monitorsProc(rep, c, "worker-block/"+bk.name, acc, actxs, [][]*builtTx{accTxs}, obs)
			}
		}
		vs := make([]string, len(wo.Verdicts))
		for i, v := range wo.Verdicts {
			if v == nil {
				vs[i] = "None"
			} else {
				vs[i] = hlib.CoqSome("(" + coqObs(*v) + ")")
			}
		}
		mp := make([]string, len(wo.Mempool))
		for i, b := range wo.Mempool {
			mp[i] = hlib.CoqBool(b)
		}
		ts := make([]string, len(txs[0]))
		for i, bt := range txs[0] {
			ts[i] = coqTx(bt)
		}
		cw.Add(fmt.Sprintf("(%d, CWorker %s (%s) %s %s %d %d %d %d %s)", id, coqLedger(baseEntries(s)), coqCtx(ctxs[0]), hlib.CoqList(ts),
			hlib.CoqList(vs), wo.GasPool, wo.GasUsed, wo.RLim, wo.PLim, hlib.CoqList(mp)), c)
	}
	if id < 2 {
		rep.Sample(map[string]any{"id": id, "scenario": s.Name, "kind": s.Kind, "blocks": len(s.Blocks)})
	}
}

func main() {
	f := hlib.ParseFlags()
	logger = hlib.QuietLogs()
	rng := hlib.NewRng(f.Seed)
	rep := hlib.NewReport("C01", "scenario = base UTXO set + 1..3 blocks of 1..4 Qi transactions (real secp256k1 keys, Schnorr/MuSig2 signatures) run through the real "+
		"ProcessQiTx on 5 backend configurations with one write batch per block, or one pending block through the real worker.processQiTx + ValidateQiTxInputs; "+
		"~60% valid, the rest adversarial (duplicate outpoints in a tx / block, wrong key, bad signature, locked, denominations, merge-up, out>in, address reuse, "+
		"conversion / wrapping / cross-zone outputs, limits, fork regimes); non-trivial = at least one transaction accepted; distinct by scenario")
	cw := hlib.NewCaseWriter(f.Out, "From Coq Require Import String List NArith Bool.\nFrom GQ Require Import Lib.Key Lib.SMap Model.C01.\nImport ListNotations.\nLocal Open Scope N_scope.\nLocal Open Scope string_scope.\n", "C01.case", 12)
	bks := backends()
	snapshotConstants()
	tmp, _ := os.MkdirTemp("", "verif-c01-")
	defer os.RemoveAll(tmp)
	defer func() {
		cw.Close()
		rep.Write(f.Out)
	}()

	if f.Replay != "" {
		var c caseJS
		hlib.ReadReplayCase(f.Replay, &c)
		if c.Scenario == nil {
			fmt.Fprintln(os.Stderr, "replay file carries no scenario")
			return
		}
		runScenario(rep, cw, c.Scenario, c.ID, bks, tmp, hlib.NewRng(f.Seed))
		return
	}
	p := newPool(rng.Fork(), common.Location{0, 0})
	sigRng := rng.Fork()
	id := 0
	for _, s := range corpus(p, rng.Fork()) {
		rep.Count("corpus")
		runScenario(rep, cw, s, id, bks, tmp, sigRng)
		id++
	}
	// the same targeted shapes at node locations other than [0,0] (region != zone number; zone 0 of another
	// region): everything that decides "local / other zone / other region" and the ledger of an address
	locs := []common.Location{{1, 2}, {2, 0}, {0, 1}, {2, 1}}
	pools := map[string]*pool{string(p.loc): p}
	for _, l := range locs {
		pools[string(l)] = newPool(rng.Fork(), l)
	}
	for li, l := range locs[:2] {
		want := relocated[li]
		for _, s := range corpus(pools[string(l)], rng.Fork()) {
			if !want[s.Name] {
				continue
			}
			s.Name = fmt.Sprintf("%s@[%d,%d]", s.Name, l[0], l[1])
			rep.Count("corpus")
			rep.Count("corpus:relocated")
			runScenario(rep, cw, s, id, bks, tmp, sigRng)
			id++
		}
	}
	// the real StateProcessor.Process of a one-zone node behind its real pool (zone.go)
	// (location [0,0] only: the mini node has no dominant chains and cannot be brought up elsewhere)
	for _, s := range zoneCorpus(p, rng.Fork()) {
		rep.Count("corpus")
		runScenario(rep, cw, s, id, bks, tmp, sigRng)
		id++
	}
	for i := 0; i < f.N/8; i++ {
		s := randomZone(rng.Fork(), p)
		s.Name = fmt.Sprintf("random-zone-%d", i)
		runScenario(rep, cw, s, id, bks, tmp, sigRng)
		id++
	}
	if zoneHonestBodies > 0 && zoneHonestAccepted == 0 {
		rep.Fail("monitor=zone-control site=process", fmt.Sprintf("none of the %d all-honest block bodies was accepted by StateProcessor.Process: the zone monitors are vacuous", zoneHonestBodies), caseJS{ID: id})
	}
	for i := 0; i < f.N; i++ {
		kind := "proc"
		if i%4 == 3 {
			kind = "worker"
		}
		if i%6 == 1 {
			kind = "pool"
		}
		sr := rng.Fork()
		// half of the random scenarios run at [0,0], the others at one of the other locations (pool scenarios:
		// zone 0 of another region -- at expansion number 0 the pool refuses outputs to any other zone number)
		rp := p
		if lr := sr.Fork(); lr.Chance(50) {
			rp = pools[string(locs[lr.Intn(len(locs))])]
			if kind == "pool" {
				rp = pools[string(common.Location{2, 0})]
			}
		}
		var s *Scenario
		if kind == "pool" {
			s = randomScenario(sr, rp, "proc", rep)
			s.Tracks = true
			s.Restart = false
			s = poolify(sr, s, rep)
		} else {
			s = randomScenario(sr, rp, kind, rep)
		}
		s.Name = fmt.Sprintf("random-%d", i)
		for _, b := range s.Blocks {
			rep.Count(fmt.Sprintf("block-txs:%d", len(b.Txs)))
			for _, t := range b.Txs {
				if strings.HasPrefix(t.Note, "valid") {
					rep.Count("gen-tx:valid")
				} else {
					rep.Count("gen-tx:adversarial")
				}
			}
		}
		runScenario(rep, cw, s, id, bks, tmp, sigRng)
		id++
	}
}

// relocated: the corpus scenarios repeated at locs[0] = [1,2] and locs[1] = [2,0]
var relocated = []map[string]bool{
	setOf("valid-1in", "valid-2in", "F1-same-outpoint-twice-in-tx", "same-outpoint-two-txs-one-block", "spend-created-in-same-block",
		"wrong-key", "repeated-key-second-input-foreign", "quai-ledger-key", "bad-signature", "locked-until-1000-at-999", "output-to-input-owner",
		"etx-region", "etx-prime", "etx-to-quai-elsewhere", "etx-ineligible-slice", "etx-region-limit", "etx-prime-limit-exact",
		"conversion", "conversion-aggregated", "conversion-refund-not-qi", "quai-output-without-data", "wrapping-after-fork",
		fmt.Sprintf("wrapping-at-prime-terminus-%d", params.QiWrappingChangeBlock-1), "wrapping-owner-in-qi-ledger", "wrapping-owner-other-zone",
		"merge-up-second-tx-rejected", "entry-owned-in-other-zone-spent-with-its-key", "entry-owned-in-other-zone-spent-with-local-key",
		"etx-same-zone-number-other-region", "conversion-refund-in-other-zone", "conversion-target-in-other-zone", "etx-to-swapped-location",
		"conversion-target-at-swapped-location", "wrapping-owner-at-swapped-location", "etx-swapped-location-ineligible", "etx-only-target-slice-eligible",
		"restart-spend-created-next-block", "worker-valid", "worker-triple-spend", "worker-etx", "worker-conversion", "worker-etx-ineligible-leaks-gas",
		"worker-quai-owned-entry", "worker-etx-to-swapped-location"),
	setOf("valid-1in", "etx-region", "etx-prime", "conversion", "wrapping-after-fork", "wrapping-owner-other-zone", "etx-to-swapped-location",
		"conversion-target-at-swapped-location", "worker-etx", "pool-valid-then-block", `pool-forged-other-via-""-then-block`,
		`pool-forged-bad-via-"reorg"-then-block`, "pool-block-then-forged-spend-of-its-output-then-block"),
}

func setOf(xs ...string) map[string]bool {
	m := map[string]bool{}
	for _, x := range xs {
		m[x] = true
	}
	return m
}

// errBucket maps an error text to a coarse bucket for the distribution report (statistics only).
func errBucket(m string) string {
	for _, k := range []string{"non-existent", "locked", "invalid pubkey", "owned by Quai", "higher than max", "non-zero lock", "Duplicate address",
		"different To addresses", "not in the Qi ledger scope", "not in quai ledger scope", "refund address", "too many cross-region", "too many cross-prime",
		"not eligible", "less than the amount", "insufficient fee", "hold interval", "both a conversion", "combine smaller", "invalid signature",
		"at least one input", "chain ID", "with data", "too much gas", "gas limit reached", "expected Quai address", "panic"} {
		if strings.Contains(m, k) {
			return k
		}
	}
	return "other"
}

// C01 harness, part 3: the pool's senders cache as part of the Qi authorisation path.
//
// StateProcessor.Process asks the transaction pool's senders cache for every Qi transaction of a
// block (PeekSenderNoLock under SendersMu) and calls ProcessQiTx with checkSig=false on a hit: an
// entry of that cache MEANS "the Schnorr/MuSig2 signature of this transaction has been verified".
// Scenarios of kind "pool" therefore interleave gossip phases -- transactions handed to a REAL
// core.TxPool (core.NewTxPool over a mock chain and the scenario's database) through
// AddRemotes / AddRemotesSync / AddLocals (-> addTxs -> addQiTxs) or as the content of a block that
// leaves the chain (reset -> addQiTxsWithoutValidationLocked), each followed by a drain of the
// asynchronous cache writer -- with blocks run through the real ProcessQiTx where checkSig is computed
// from the real cache exactly as Process does.
package main

import (
	"encoding/binary"
	"math"
	"math/big"
	"sync"
	"time"

	"github.com/dominant-strategies/go-quai/common"
	"github.com/dominant-strategies/go-quai/core"
	"github.com/dominant-strategies/go-quai/core/rawdb"
	"github.com/dominant-strategies/go-quai/core/state"
	"github.com/dominant-strategies/go-quai/core/types"
	"github.com/dominant-strategies/go-quai/ethdb"
	"github.com/dominant-strategies/go-quai/event"
	"github.com/dominant-strategies/go-quai/params"
)

// poolChain is the blockChain the pool sees: the header of the gossip phase as current block,
// the prime terminus of the scenario context, and a few registered blocks for head changes.
type poolChain struct {
	*mockChain
	mu     sync.Mutex
	cur    *types.WorkObject
	blocks map[common.Hash]*types.WorkObject
	db     ethdb.Database
	feed   event.Feed
}

func (c *poolChain) CurrentBlock() *types.WorkObject {
	c.mu.Lock()
	defer c.mu.Unlock()
	return c.cur
}
func (c *poolChain) GetBlock(h common.Hash, _ uint64) *types.WorkObject {
	c.mu.Lock()
	defer c.mu.Unlock()
	if b, ok := c.blocks[h]; ok {
		return b
	}
	return nil
}
func (c *poolChain) StateAt(root, etxRoot common.Hash, size *big.Int) (*state.StateDB, error) {
	return state.New(types.EmptyRootHash, types.EmptyRootHash, new(big.Int), state.NewDatabase(c.db), state.NewDatabase(c.db), nil, nodeLoc, logger)
}
func (c *poolChain) SubscribeChainHeadEvent(ch chan<- core.ChainHeadEvent) event.Subscription {
	return c.feed.Subscribe(ch)
}
func (c *poolChain) GetMaxTxInWorkShare() uint64 { return 1 << 20 }

// GossipObs is what a gossip phase shows: per submission whether the transaction is in the Qi pool right
// after its delivery (= admitted, now or by an earlier delivery of the same transaction), and whether its hash
// is in the senders cache / the transaction in the Qi pool once the asynchronous cache writer has caught up at
// the end of the phase.
type GossipObs struct {
	Admitted []bool `json:"admitted"`
	Cached   []bool `json:"cached"`
	InPool   []bool `json:"in_pool"`
	Stall    bool   `json:"stall,omitempty"`
}

type poolRig struct {
	pool   *core.TxPool
	chain  *poolChain
	parent *types.WorkObject
	spec   CtxSpec
	serial uint64
}

func newPoolRig(db ethdb.Database, c0 *builtCtx) *poolRig {
	// From the KawPow fork on a header's hash is the hash of its AuxPow alone (nil here: all blocks would share
	// one hash and the pool could not tell a head from its sibling), so the pool's head lives just before the fork.
	c := c0
	if sp := c0.spec; sp.PTN >= params.KawPowForkBlock {
		sp.PTN = params.KawPowForkBlock - 1
		if ctxUsable(sp) {
			c = buildCtx(sp)
		}
	}
	parent := types.EmptyWorkObject(common.ZONE_CTX)
	parent.WorkObjectHeader().SetLocation(nodeLoc)
	parent.WorkObjectHeader().SetNumber(new(big.Int).SetUint64(c.spec.Height - 1))
	parent.WorkObjectHeader().SetNonce(types.EncodeNonce(7))
	head := buildCtx(c.spec).wo
	head.WorkObjectHeader().SetParentHash(parent.Hash())
	ch := &poolChain{mockChain: c.chain, cur: head, db: db, blocks: map[common.Hash]*types.WorkObject{parent.Hash(): parent, head.Hash(): head}}
	// the pool derives its Qi gas scaling factor from the recorded UTXO set size of its head
	rawdb.WriteUTXOSetSize(db, head.Hash(), uint64(math.Round(math.Exp(c.spec.Scaling))))
	cfg := core.DefaultTxPoolConfig
	cfg.Journal = ""
	cfg.NoLocals = true
	cfg.SendersChBuffer = 4096
	p := core.NewTxPool(cfg, &params.ChainConfig{ChainID: chainID, Location: nodeLoc}, ch, logger, db)
	return &poolRig{pool: p, chain: ch, parent: parent, spec: c.spec}
}

func (r *poolRig) stop() {
	done := make(chan struct{})
	go func() { r.pool.Stop(); close(done) }()
	select {
	case <-done:
	case <-time.After(3 * time.Second):
	}
}

func (r *poolRig) drain() bool {
	r.serial++
	var m common.Hash
	copy(m[:], []byte("verif-c01-drain-marker"))
	binary.BigEndian.PutUint64(m[24:], r.serial)
	return r.pool.VerifC01DrainSenders(m, 20*time.Second)
}

// sibling builds a registered block with the number and parent of the pool's head, carrying txs.
func (r *poolRig) sibling(txs []*types.Transaction) *types.WorkObject {
	r.serial++
	head := r.chain.CurrentBlock()
	// a fresh object (header hashes are cached): same context, same parent, another nonce
	b := buildCtx(r.spec).wo
	b.WorkObjectHeader().SetParentHash(r.parent.Hash())
	b.WorkObjectHeader().SetNonce(types.EncodeNonce(1000 + r.serial))
	b.Body().SetTransactions(txs)
	r.chain.mu.Lock()
	r.chain.blocks[b.Hash()] = b
	r.chain.mu.Unlock()
	rawdb.WriteUTXOSetSize(r.chain.db, b.Hash(), rawdb.ReadUTXOSetSize(r.chain.db, head.Hash()))
	return b
}

func (r *poolRig) setHead(b *types.WorkObject) {
	r.chain.mu.Lock()
	old := r.chain.cur
	r.chain.cur = b
	r.chain.mu.Unlock()
	r.pool.VerifC01Reset(old, b)
}

// gossip hands the transactions of one gossip phase to the pool.  Consecutive transactions with the
// same non-zero Batch go in one call; Via selects the entry point.
func (r *poolRig) gossip(txs []*builtTx) (g GossipObs) {
	g.Admitted = make([]bool, len(txs))
	for i := 0; i < len(txs); {
		j := i + 1
		for j < len(txs) && txs[i].spec.Batch != 0 && txs[j].spec.Batch == txs[i].spec.Batch && txs[j].spec.Via == txs[i].spec.Via {
			j++
		}
		group := make([]*types.Transaction, 0, j-i)
		for _, bt := range txs[i:j] {
			// a fresh transaction object per delivery, as decoded from the wire
			group = append(group, types.NewTx(bt.tx.Inner()))
		}
		// admission is observed as membership of the Qi pool after the call, not from the returned errors: for a
		// call carrying several Qi transactions addTxs attributes addQiTxs' errors (one per REJECTED transaction) to
		// the first free slots, i.e. to the wrong positions (an API wart outside this property)
		switch txs[i].spec.Via {
		case "sync":
			r.pool.AddRemotesSync(group)
		case "locals":
			r.pool.AddLocals(group)
		case "reorg":
			// the transactions sit in a block that becomes head and is then reorganised away:
			// the pool reinjects them (reset -> addQiTxsWithoutValidationLocked)
			home := r.chain.CurrentBlock()
			x := r.sibling(group)
			r.setHead(x)
			r.setHead(home)
		default:
			r.pool.AddRemotes(group)
		}
		if !r.drain() {
			g.Stall = true
		}
		for k, t := range group {
			g.Admitted[i+k] = r.pool.VerifC01QiPoolHas(t.Hash())
		}
		i = j
	}
	for _, bt := range txs {
		g.Cached = append(g.Cached, r.pool.ContainsSender(bt.hash))
		g.InPool = append(g.InPool, r.pool.VerifC01QiPoolHas(bt.hash))
	}
	return g
}

// checkSigs is the sender lookup of StateProcessor.Process for the Qi transactions of a block:
// under SendersMu.RLock, PeekSenderNoLock(tx.Hash()); a hit means checkSig=false.
func (r *poolRig) checkSigs(txs []*builtTx) []bool {
	out := make([]bool, len(txs))
	r.pool.SendersMu.RLock()
	for i, bt := range txs {
		_, hit := r.pool.PeekSenderNoLock(bt.tx.Hash())
		out[i] = !hit
	}
	r.pool.SendersMu.RUnlock()
	return out
}

// firstGossipCtx returns the context of the first gossip phase (the pool's head for the whole scenario).
func firstGossipCtx(s *Scenario, ctxs []*builtCtx) *builtCtx {
	for i, b := range s.Blocks {
		if b.Gossip {
			return ctxs[i]
		}
	}
	return ctxs[0]
}

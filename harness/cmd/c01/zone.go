// C01 harness, part 4: scenarios of kind "zone" drive the REAL StateProcessor.Process of a one-zone node
// (core.VerifNewZone: real HeaderChain + BodyDb + StateProcessor + TxPool + worker over a memory database, stub
// PoW) -- the frame around ProcessQiTx that the other scenario kinds only copy: the lookup of every Qi transaction
// of the block in the pool's senders cache, the per-transaction checkSig / firstQiTx flags, the gas-price floor and
// ordering, the fee totals.  A scenario is: a base UTXO set written to the node's database, a gossip phase (the
// transactions are handed to the node's real pool; admitted ones are cached as "signature verified"), and a list
// of candidate block bodies, each processed by the real Process on a fresh write batch over the same, unchanged
// state (nothing is committed, so every body is judged against the same ledger and the same cache).
//
// Monitors (model-independent; the frame of Process is NOT part of the Coq model, see design/C01.md):
//   authorised site=process    a body accepted by Process contains no transaction that is not signed by exactly the
//                              keys it carries, and every input's key hashes to the owner of the entry it names --
//                              whatever the pool has seen, cached or refused before and wherever the transaction
//                              stands in the body
//   spent-once site=process    an accepted body names no outpoint twice (inside one transaction or across them)
//   existed site=process       every outpoint an accepted body consumes is an unlocked record of the ledger or was
//                              created earlier in the body
//   conservation site=process  an accepted body creates locally no more value than it consumes
//   zone-control site=process  vacuity guard: at least one all-honest body of the run was accepted by Process
package main

import (
	"bytes"
	"fmt"
	"math/big"
	"time"

	"github.com/dominant-strategies/go-quai/common"
	"github.com/dominant-strategies/go-quai/consensus/misc"
	"github.com/dominant-strategies/go-quai/core"
	"github.com/dominant-strategies/go-quai/core/rawdb"
	"github.com/dominant-strategies/go-quai/core/types"
	"github.com/dominant-strategies/go-quai/ethdb/memorydb"
	"github.com/dominant-strategies/go-quai/params"

	"verifharness/hlib"
)

// memorydb has no location: blocks re-read from it would decode in-zone addresses as external (tools/ZONE_RECIPE.md)
type locMem struct {
	*memorydb.Database
	loc common.Location
}

func (d locMem) Location() common.Location { return d.loc }

type ZoneBodyObs struct {
	OK  bool   `json:"ok"`
	Err string `json:"-"`
}
type ZoneObs struct {
	Admitted []bool        `json:"admitted"` // per gossiped transaction
	Cached   [][]bool      `json:"cached"`   // per body, per transaction: hash in the senders cache when the body is processed
	Bodies   []ZoneBodyObs `json:"bodies"`
	Panic    string        `json:"panic,omitempty"`
	Setup    string        `json:"setup,omitempty"` // the node could not be brought up (harness problem, not a verdict)
}

var (
	zoneHonestBodies   int
	zoneHonestAccepted int
)

const zoneInDen, zoneOutDen = 14, 10

// runZone: s.Blocks[0] is the gossip phase (may be empty), every further block one candidate body.
func runZone(s *Scenario, keys []keyInfo, sigRng *hlib.Rng) (obs ZoneObs, txs [][]*builtTx) {
	loc := common.Location{nodeLoc[0], nodeLoc[1]}
	db := rawdb.NewDatabase(locMem{memorydb.New(logger), loc})
	coinbase := make([]byte, 20)
	coinbase[0], coinbase[19] = loc.BytePrefix(), 1
	z, err := core.VerifNewZone(db, core.VerifZoneOptions{Location: loc, QuaiCoinbase: common.BytesToAddress(coinbase, loc),
		GenesisTime: uint64(time.Now().Unix()) - 100}, logger)
	if err != nil {
		obs.Setup = "VerifNewZone: " + err.Error()
		return
	}
	defer z.Close()
	defer func() {
		if e := recover(); e != nil {
			obs.Panic = fmt.Sprint(e)
		}
	}()
	// the transactions are signed for the node's chain id
	saved := chainID
	chainID = new(big.Int).Set(z.Config.ChainID)
	defer func() { chainID = saved }()
	txs = buildTxs(s, keys, sigRng)

	// block 1 (empty) so that the head has a prime terminus the pool can resolve
	b1, err := z.LockedAssemble(false)
	if err == nil {
		err = z.LockedAppend(b1)
	}
	if err != nil {
		obs.Setup = "first block: " + err.Error()
		return
	}
	writeBase(db, s.Base)
	z.ResetPool()

	// gossip phase: one call per transaction, through the synchronous entry point
	for _, bt := range txs[0] {
		z.Pool.AddRemotesSync([]*types.Transaction{types.NewTx(bt.tx.Inner())})
		obs.Admitted = append(obs.Admitted, z.Pool.VerifC01QiPoolHas(bt.hash))
	}
	var marker common.Hash
	copy(marker[:], []byte("verif-c01-zone-drain-marker"))
	if !z.Pool.VerifC01DrainSenders(marker, 20*time.Second) {
		obs.Setup = "senders cache writer did not drain"
		return
	}

	pending, err := z.LockedAssemble(false)
	if err != nil {
		obs.Setup = "pending block: " + err.Error()
		return
	}
	parent := z.Hc.GetBlockByHash(pending.ParentHash(common.ZONE_CTX))
	primeTerminus := z.Hc.GetHeaderByHash(pending.PrimeTerminusHash())
	if parent == nil || primeTerminus == nil {
		obs.Setup = "parent / prime terminus of the pending block not found"
		return
	}
	base := ledgerMap(baseEntries(s))
	for bi := 1; bi < len(s.Blocks); bi++ {
		body := make([]*types.Transaction, len(txs[bi]))
		cached := make([]bool, len(txs[bi]))
		qiFees := new(big.Int)
		for i, bt := range txs[bi] {
			body[i] = types.NewTx(bt.tx.Inner()) // as decoded from the wire
			cached[i] = z.Pool.ContainsSender(bt.hash)
			// the miner's fee statistics: value named by the inputs minus value of the outputs
			for _, k := range bt.inKeys {
				if e, ok := base[string(k)]; ok {
					qiFees.Add(qiFees, denVal(e.Den))
				}
			}
			for _, o := range bt.spec.Outs {
				qiFees.Sub(qiFees, denVal(o.Den))
			}
		}
		if qiFees.Sign() < 0 {
			qiFees.SetInt64(0)
		}
		block := pending.WithBody(types.CopyHeader(pending.Header()), body, pending.OutboundEtxs(), pending.Uncles(), pending.Manifest(), pending.InterlinkHashes())
		half := new(big.Int).Div(qiFees, common.Big2)
		halfInQuai := misc.QiToQuai(block, primeTerminus.ExchangeRate(), block.Difficulty(), half)
		block.Header().SetAvgTxFees(z.Hc.ComputeAverageTxFees(parent, halfInQuai))
		block.Header().SetTotalFees(misc.QiToQuai(block, primeTerminus.ExchangeRate(), block.Difficulty(), qiFees))
		var perr error
		func() {
			defer func() {
				if e := recover(); e != nil {
					perr = fmt.Errorf("panic: %v", e)
					obs.Panic = fmt.Sprint(e)
				}
			}()
			z.Locked(func() {
				batch := db.NewBatch()
				_, _, _, _, _, _, _, _, _, perr = z.Processor().Process(block, batch)
				batch.Reset()
			})
		}()
		bo := ZoneBodyObs{OK: perr == nil}
		if perr != nil {
			bo.Err = perr.Error()
		}
		obs.Cached = append(obs.Cached, cached)
		obs.Bodies = append(obs.Bodies, bo)
	}
	return
}

func monitorsZone(rep *hlib.Report, c caseJS, s *Scenario, txs [][]*builtTx, obs ZoneObs) {
	fail := func(mon, what string) {
		rep.Fail("monitor="+mon+" site=process", fmt.Sprintf("scenario %q: %s", s.Name, what), c)
	}
	if obs.Panic != "" {
		fail("panic", "StateProcessor.Process / the pool panicked: "+obs.Panic)
	}
	base := ledgerMap(baseEntries(s))
	for bi, bo := range obs.Bodies {
		body := txs[bi+1]
		honest := len(body) > 0
		for _, bt := range body {
			if bt.spec.Note != "valid" {
				honest = false
			}
		}
		if honest {
			zoneHonestBodies++
			if bo.OK {
				zoneHonestAccepted++
			}
			rep.Count(fmt.Sprintf("zone:honest body accepted=%v", bo.OK))
		}
		if !bo.OK {
			rep.Count("zone:body rejected: " + errBucket(bo.Err))
			continue
		}
		rep.Count("zone:body accepted")
		seen := map[string]int{}
		created := map[string]Entry{}
		in, out := new(big.Int), new(big.Int)
		for ti, bt := range body {
			if !bt.sigOK {
				fail("authorised", fmt.Sprintf("body %d %v accepted by StateProcessor.Process although tx %d is not signed by the keys it carries (%s); senders-cache hits of the body: %v",
					bi, bodyNotes(body), ti, bt.spec.Sign, obs.Cached[bi]))
			}
			for ii, k := range bt.inKeys {
				if prev, dup := seen[string(k)]; dup {
					fail("spent-once", fmt.Sprintf("body %d accepted although outpoint %x is consumed twice (tx %d and tx %d input %d)", bi, k, prev, ti, ii))
				}
				seen[string(k)] = ti
				e, ok := base[string(k)]
				if !ok {
					e, ok = created[string(k)]
				}
				if !ok {
					fail("existed", fmt.Sprintf("body %d accepted although tx %d input %d consumes outpoint %x which is not unspent", bi, ti, ii, k))
					continue
				}
				in.Add(in, denVal(e.Den))
				if !bytes.Equal(e.Owner, bt.pkAddrs[ii]) {
					fail("authorised", fmt.Sprintf("body %d accepted although tx %d input %d carries a key with address %x and the entry belongs to %x", bi, ti, ii, bt.pkAddrs[ii], e.Owner))
				}
			}
			for oi, o := range bt.spec.Outs {
				if len(o.Addr) == 20 && o.Addr[0] == nodeLoc.BytePrefix() && o.Addr[1] > 127 {
					k := opKey(bt.hash, uint16(oi))
					created[string(k)] = Entry{Key: k, Den: o.Den, Owner: o.Addr, Lock: "0"}
					out.Add(out, denVal(o.Den))
				}
			}
		}
		if out.Cmp(in) > 0 {
			fail("conservation", fmt.Sprintf("body %d accepted although it creates %s qits locally and consumes %s", bi, out, in))
		}
	}
}

func bodyNotes(body []*builtTx) []string {
	out := make([]string, len(body))
	for i, bt := range body {
		out[i] = bt.spec.Note
	}
	return out
}

// ---------- corpus and random generation ----------

// zoneCorpus: T = honest one-input spend of the key's own entry; F = spend of somebody else's entry carrying the
// OWNER's public key (ownership test passes) with a signature by another key / over another digest.  What differs
// between the scenarios is what the pool has seen (cache state) and where the forged transaction stands.
func zoneCorpus(p *pool, r *hlib.Rng) []*Scenario {
	var cs []*Scenario
	dc := defaultCtx()
	fa := func() []byte { return p.freshQi(r) }
	base := func(n int) []UtxoSpec {
		var b []UtxoSpec
		for i := 0; i < n; i++ {
			b = append(b, UtxoSpec{Hash: zoneHash(p, byte(i+1)), Index: 0, Den: zoneInDen, Owner: p.ki[i%nKeys].addr})
		}
		return b
	}
	zin := func(i int) InSpec { return InSpec{RefTx: -1, Hash: zoneHash(p, byte(i+1)), Index: 0, Key: i % nKeys} }
	T := func(i int) TxSpec {
		return TxSpec{Ins: []InSpec{zin(i)}, Outs: []OutSpec{out(zoneOutDen, fa())}, CheckSig: true, Sign: "ok", Note: "valid"}
	}
	F := func(i int, sign string) TxSpec {
		t := T(i)
		t.Sign, t.Note = sign, "forged-"+sign
		return t
	}
	same := func(i int, note string) TxSpec { return TxSpec{Same: i, Sign: "ok", Note: note} }
	blk := func(txs ...TxSpec) BlockSpec { return BlockSpec{Ctx: dc, Txs: txs} }
	add := func(name string, n int, gossip []TxSpec, bodies ...BlockSpec) {
		s := &Scenario{Kind: "zone", Name: name, Tracks: true, Keys: p.keys, Base: base(n), Loc: p.locBytes(),
			Blocks: append([]BlockSpec{{Ctx: dc, Txs: gossip, Gossip: true}}, bodies...)}
		cs = append(cs, s)
	}
	v, f := "valid", "forged-other"
	// the pool has verified T1 only; F2 is new to it; every position
	add("zone-cached-then-forged", 2, []TxSpec{T(0)},
		blk(same(1, v)), blk(F(1, "other")), blk(same(1, v), same(3, f)), blk(same(3, f), same(1, v)))
	// two cached, forged last / in the middle; and a third honest one the pool never saw
	add("zone-two-cached-then-forged", 4, []TxSpec{T(0), T(2)},
		blk(same(1, v), same(2, v), F(1, "other")), blk(same(1, v), same(5, f), same(2, v)), blk(same(1, v), T(3)), blk(same(1, v), same(10, v), same(5, f)))
	// the pool has seen and refused the forged one as well
	add("zone-forged-gossiped-and-refused", 2, []TxSpec{T(0), F(1, "other")}, blk(same(1, v), same(2, f)), blk(same(2, f)))
	add("zone-forged-bad-digest", 2, []TxSpec{T(0)}, blk(same(1, v), F(1, "bad")))
	// nothing gossiped: all signatures are checked; honest bodies are accepted, forged ones refused at any position
	add("zone-nothing-cached", 3, nil, blk(T(0), T(1)), blk(T(0), F(1, "other")), blk(F(1, "other"), T(0)), blk(T(0), T(1), T(2)))
	// wrong key (the spender's own key for a foreign entry, signed by him) after a cached transaction
	wk := TxSpec{Ins: []InSpec{{RefTx: -1, Hash: zoneHash(p, 2), Index: 0, Key: 0}}, Outs: []OutSpec{out(zoneOutDen, fa())}, CheckSig: true, Sign: "ok", Note: "wrong-key"}
	add("zone-cached-then-wrong-key", 2, []TxSpec{T(0)}, blk(same(1, v), wk))
	// the same outpoint in two transactions of one body, both honestly signed, first one cached / both cached
	d1, d2 := T(0), T(0)
	d2.Note = "double-spend"
	add("zone-cached-then-double-spend", 2, []TxSpec{d1}, blk(same(1, v), d2), blk(same(1, v), T(1)))
	// a forged transaction between two cached ones of a longer body
	add("zone-forged-fourth-of-five", 5, []TxSpec{T(0), T(1), T(2), T(4)},
		blk(same(1, v), same(2, v), same(3, v), F(3, "other"), same(4, v)), blk(same(1, v), same(2, v), same(3, v), same(4, v)))
	return cs
}

func zoneHash(p *pool, n byte) []byte {
	h := hashN(n)
	h[0], h[2] = p.loc.BytePrefix(), p.loc.BytePrefix()
	h[1] |= 0x80
	h[3] |= 0x80
	return h
}

// randomZone: 3..6 entries, a random subset of honest spends is gossiped, 2..4 bodies in random order with forged /
// double-spending members at random positions.
func randomZone(r *hlib.Rng, p *pool) *Scenario {
	dc := defaultCtx()
	n := 3 + r.Intn(4)
	s := &Scenario{Kind: "zone", Tracks: true, Keys: p.keys, Loc: p.locBytes()}
	for i := 0; i < n; i++ {
		s.Base = append(s.Base, UtxoSpec{Hash: zoneHash(p, byte(i+1)), Index: 0, Den: zoneInDen, Owner: p.ki[i%nKeys].addr})
	}
	mk := func(i int, sign, note string) TxSpec {
		return TxSpec{Ins: []InSpec{{RefTx: -1, Hash: zoneHash(p, byte(i+1)), Index: 0, Key: i % nKeys}},
			Outs: []OutSpec{out(zoneOutDen, p.freshQi(r))}, CheckSig: true, Sign: sign, Note: note}
	}
	g := BlockSpec{Ctx: dc, Gossip: true}
	idxOf := map[int]int{} // entry -> 1-based index of its gossiped honest spend
	cnt := 0
	for i := 0; i < n; i++ {
		if r.Chance(60) {
			g.Txs = append(g.Txs, mk(i, "ok", "valid"))
			cnt++
			idxOf[i] = cnt
		}
	}
	s.Blocks = append(s.Blocks, g)
	nb := 2 + r.Intn(3)
	for b := 0; b < nb; b++ {
		blk := BlockSpec{Ctx: dc}
		perm := make([]int, n)
		for i := range perm {
			perm[i] = i
		}
		for i := n - 1; i > 0; i-- {
			j := r.Intn(i + 1)
			perm[i], perm[j] = perm[j], perm[i]
		}
		m := 2 + r.Intn(n-1)
		for _, i := range perm[:m] {
			switch {
			case r.Chance(25):
				blk.Txs = append(blk.Txs, mk(i, []string{"other", "bad"}[r.Intn(2)], "forged"))
			case idxOf[i] > 0 && r.Chance(80):
				blk.Txs = append(blk.Txs, TxSpec{Same: idxOf[i], Sign: "ok", Note: "valid"})
			default:
				blk.Txs = append(blk.Txs, mk(i, "ok", "valid"))
			}
			cnt++
		}
		if r.Chance(15) { // re-spend of the first member's outpoint, honestly signed
			first := perm[0]
			blk.Txs = append(blk.Txs, mk(first, "ok", "double-spend"))
			cnt++
		}
		s.Blocks = append(s.Blocks, blk)
	}
	return s
}

func init() {
	// test-network schedule (tools/ZONE_RECIPE.md): Qi transactions are allowed from the first block; set once,
	// before any node is created.  ProcessQiTx / the worker / the pool checks do not read it.
	params.TimeToStartTx = 0
}

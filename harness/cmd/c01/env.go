// C01 harness, part 1: scenario description (replayable JSON), construction of the real
// objects (keys, signed Qi transactions, headers, databases) and execution of the real
// code: core.ProcessQiTx, (*worker).processQiTx (verif hook) and core.ValidateQiTxInputs.
package main

import (
	"bytes"
	"encoding/binary"
	"fmt"
	"math/big"
	"os"
	"path/filepath"
	"strings"

	"github.com/btcsuite/btcd/btcec/v2"
	"github.com/btcsuite/btcd/btcec/v2/schnorr"
	"github.com/btcsuite/btcd/btcec/v2/schnorr/musig2"
	"github.com/dominant-strategies/go-quai/common"
	"github.com/dominant-strategies/go-quai/consensus"
	"github.com/dominant-strategies/go-quai/consensus/misc"
	"github.com/dominant-strategies/go-quai/core"
	"github.com/dominant-strategies/go-quai/core/rawdb"
	"github.com/dominant-strategies/go-quai/core/types"
	"github.com/dominant-strategies/go-quai/crypto"
	"github.com/dominant-strategies/go-quai/ethdb"
	"github.com/dominant-strategies/go-quai/ethdb/leveldb"
	"github.com/dominant-strategies/go-quai/ethdb/pebble"
	"github.com/dominant-strategies/go-quai/log"
	"github.com/dominant-strategies/go-quai/params"

	"verifharness/hlib"
)

var (
	nodeLoc = common.Location{0, 0}
	chainID = big.NewInt(9000)
	logger  *log.Logger
)

// ---------- scenario (everything needed to rebuild the run) ----------

type UtxoSpec struct {
	Hash  []byte `json:"hash"`
	Index uint16 `json:"index"`
	Den   uint8  `json:"den"`
	Owner []byte `json:"owner"`
	Lock  uint64 `json:"lock"`
}

// InSpec names an outpoint either literally or as output Index of the RefTx-th transaction
// of the scenario (counted over all blocks), and the key whose public key the input carries.
type InSpec struct {
	RefTx int    `json:"ref_tx"` // -1: literal
	Hash  []byte `json:"hash,omitempty"`
	Index uint16 `json:"index"`
	Key   int    `json:"key"`
}
type OutSpec struct {
	Den  uint8  `json:"den"`
	Addr []byte `json:"addr"`
	Lock uint64 `json:"lock"`
}
type TxSpec struct {
	Ins      []InSpec  `json:"ins"`
	Outs     []OutSpec `json:"outs"`
	Data     []byte    `json:"data,omitempty"`
	BadChain bool      `json:"bad_chain,omitempty"`
	CheckSig bool      `json:"check_sig"`
	// pool scenarios: Same > 0 reuses the transaction built for the Same-th spec of the scenario (1-based, counted
	// over all blocks; the identical signed transaction, same hash); Via / Batch say how a gossip phase delivers it
	Same  int    `json:"same,omitempty"`
	Via   string `json:"via,omitempty"`   // "" AddRemotes | sync AddRemotesSync | locals AddLocals | reorg (block reorganised away)
	Batch int    `json:"batch,omitempty"` // consecutive equal non-zero values: one call
	Sign  string `json:"sign"`            // ok | bad (valid signature over another digest) | other (valid signature by another key) | drop-last / drop-first (valid signature by a strict subset of the carried keys)
	Note  string `json:"note,omitempty"`
}
type CtxSpec struct {
	Height     uint64  `json:"height"`
	PTN        uint64  `json:"ptn"`
	GasLimit   uint64  `json:"gas_limit"`
	BaseFee    uint64  `json:"base_fee"`
	Difficulty string  `json:"difficulty"`
	Rate       string  `json:"rate"`
	Elig       []byte  `json:"elig"`
	RLim       uint64  `json:"rlim"`
	PLim       uint64  `json:"plim"`
	Scaling    float64 `json:"scaling"`
}
type BlockSpec struct {
	Ctx CtxSpec  `json:"ctx"`
	Txs []TxSpec `json:"txs"`
	// pool scenarios: a gossip phase (the transactions are handed to the pool, nothing is processed)
	Gossip bool `json:"gossip,omitempty"`
}
type Scenario struct {
	Kind   string      `json:"kind"` // proc | worker | pool
	Name   string      `json:"name"`
	Tracks bool        `json:"tracks"`
	// Loc is the node location [region, zone] the scenario runs at (absent: [0,0]); Restart closes and reopens
	// the disk-backed databases between the blocks of a processing scenario (what a node restart does to the
	// store: only what batch.Write() made durable survives)
	Loc     []byte `json:"loc,omitempty"`
	Restart bool   `json:"restart,omitempty"`
	Keys   [][]byte    `json:"keys"` // private keys
	Base   []UtxoSpec  `json:"base"`
	Blocks []BlockSpec `json:"blocks"`
}

// ---------- keys ----------

type keyInfo struct {
	priv *btcec.PrivateKey
	pub  []byte // uncompressed
	addr []byte
}

func mkKey(priv []byte) keyInfo {
	k, _ := btcec.PrivKeyFromBytes(priv)
	pub := k.PubKey().SerializeUncompressed()
	return keyInfo{k, pub, crypto.PubkeyBytesToAddress(pub, nodeLoc).Bytes()}
}

// grindKey returns a private key whose address lies in the zone with the given prefix and the wanted ledger.
func grindKey(r *hlib.Rng, prefix byte, qi bool) []byte {
	for {
		b := r.Bytes(32)
		b[0] &= 0x7f
		k := mkKey(b)
		if k.addr[0] == prefix && (k.addr[1] > 127) == qi {
			return b
		}
	}
}

// setLoc makes the scenario's node location the location every real object of the run is built with.
func setLoc(s *Scenario) {
	if len(s.Loc) == 2 {
		nodeLoc = common.Location{s.Loc[0], s.Loc[1]}
	} else {
		nodeLoc = common.Location{0, 0}
	}
}

// ---------- real objects ----------

type mockChain struct{ pt *types.WorkObject }

func (m *mockChain) Engine(*types.WorkObjectHeader) consensus.Engine          { return nil }
func (m *mockChain) GetHeaderOrCandidateByHash(common.Hash) *types.WorkObject { return m.pt }
func (m *mockChain) NodeCtx() int                                             { return common.ZONE_CTX }
func (m *mockChain) IsGenesisHash(common.Hash) bool                           { return false }
func (m *mockChain) GetHeaderByHash(common.Hash) *types.WorkObject            { return m.pt }
func (m *mockChain) GetBlockByHash(common.Hash) *types.WorkObject             { return m.pt }
func (m *mockChain) CheckIfEtxIsEligible(h common.Hash, l common.Location) bool {
	// the real predicate (it does not read its receiver)
	return (*core.HeaderChain)(nil).CheckIfEtxIsEligible(h, l)
}
func (m *mockChain) CheckInCalcOrderCache(common.Hash) (*big.Int, int, bool) { return nil, 0, false }
func (m *mockChain) AddToCalcOrderCache(common.Hash, int, *big.Int)          {}
func (m *mockChain) CalcBaseFee(*types.WorkObject) *big.Int                  { return big.NewInt(1) }
func (m *mockChain) CalcOrder(*types.WorkObject) (*big.Int, int, error)      { return nil, 0, nil }

type builtCtx struct {
	spec   CtxSpec
	wo, pt *types.WorkObject
	chain  *mockChain
	R, Q   *big.Int
}

func bigOf(s string) *big.Int {
	v, ok := new(big.Int).SetString(s, 10)
	if !ok {
		panic("bad big " + s)
	}
	return v
}

func buildCtx(c CtxSpec) *builtCtx {
	wo := types.EmptyWorkObject(common.ZONE_CTX)
	wo.WorkObjectHeader().SetLocation(nodeLoc)
	wo.WorkObjectHeader().SetNumber(new(big.Int).SetUint64(c.Height))
	wo.WorkObjectHeader().SetDifficulty(bigOf(c.Difficulty))
	wo.WorkObjectHeader().SetPrimeTerminusNumber(new(big.Int).SetUint64(c.PTN))
	wo.Header().SetGasLimit(c.GasLimit)
	wo.Header().SetBaseFee(new(big.Int).SetUint64(c.BaseFee))
	pt := types.EmptyWorkObject(common.ZONE_CTX)
	pt.WorkObjectHeader().SetLocation(nodeLoc)
	pt.Header().SetExchangeRate(bigOf(c.Rate))
	pt.Header().SetEtxEligibleSlices(common.BytesToHash(c.Elig))
	b := &builtCtx{spec: c, wo: wo, pt: pt, chain: &mockChain{pt}}
	b.R = misc.CalculateQuaiReward(wo.WorkObjectHeader(), wo.Difficulty(), pt.ExchangeRate())
	b.Q = misc.CalculateQiReward(wo.WorkObjectHeader(), wo.Difficulty())
	if b.R.Sign() <= 0 || b.Q.Sign() <= 0 {
		panic(fmt.Sprintf("generator: non-positive reward R=%v Q=%v for ptn %d difficulty %s", b.R, b.Q, c.PTN, c.Difficulty))
	}
	return b
}

type builtTx struct {
	spec      TxSpec
	tx        *types.Transaction
	hash      common.Hash
	inKeys    [][]byte // outpoint keys (hash ++ be16 index)
	pkAddrs   [][]byte
	intrinsic uint64
	sigOK     bool
}

func opKey(h common.Hash, idx uint16) []byte {
	k := make([]byte, 34)
	copy(k, h[:])
	binary.BigEndian.PutUint16(k[32:], idx)
	return k
}

type rngReader struct{ r *hlib.Rng }

func (x rngReader) Read(p []byte) (int, error) {
	copy(p, x.r.Bytes(len(p)))
	return len(p), nil
}

// signQi produces a Schnorr (one input) or MuSig2 (several inputs, keys in input order)
// signature over digest with the given private keys.
func signQi(r *hlib.Rng, digest [32]byte, keys []keyInfo) *schnorr.Signature {
	if len(keys) == 1 {
		sig, err := schnorr.Sign(keys[0].priv, digest[:])
		if err != nil {
			panic(err)
		}
		return sig
	}
	pubs := make([]*btcec.PublicKey, len(keys))
	for i, k := range keys {
		pubs[i] = k.priv.PubKey()
	}
	nonces := make([]*musig2.Nonces, len(keys))
	pubNonces := make([][musig2.PubNonceSize]byte, len(keys))
	for i, k := range keys {
		n, err := musig2.GenNonces(musig2.WithCustomRand(rngReader{r}), musig2.WithPublicKey(k.priv.PubKey()))
		if err != nil {
			panic(err)
		}
		nonces[i] = n
		pubNonces[i] = n.PubNonce
	}
	comb, err := musig2.AggregateNonces(pubNonces)
	if err != nil {
		panic(err)
	}
	parts := make([]*musig2.PartialSignature, len(keys))
	for i, k := range keys {
		ps, err := musig2.Sign(nonces[i].SecNonce, k.priv, comb, pubs, digest)
		if err != nil {
			panic(err)
		}
		parts[i] = ps
	}
	return musig2.CombineSigs(parts[0].R, parts)
}

// buildTxs turns the transaction specs of a scenario into signed transactions, in order
// (a later transaction may refer to the hash of an earlier one).
func buildTxs(s *Scenario, keys []keyInfo, r *hlib.Rng) [][]*builtTx {
	signer := types.NewSigner(chainID, nodeLoc)
	var all []*builtTx
	out := make([][]*builtTx, len(s.Blocks))
	for bi, blk := range s.Blocks {
		for _, ts := range blk.Txs {
			if ts.Same > 0 {
				cp := *all[ts.Same-1]
				cp.spec.Same, cp.spec.Via, cp.spec.Batch = ts.Same, ts.Via, ts.Batch
				// the intrinsic gas depends on the scaling factor of the block the transaction is processed in
				cp.intrinsic = types.CalculateIntrinsicQiTxGas(cp.tx, blk.Ctx.Scaling)
				all = append(all, &cp)
				out[bi] = append(out[bi], &cp)
				continue
			}
			bt := &builtTx{spec: ts}
			qt := &types.QiTx{ChainID: new(big.Int).Set(chainID), Data: ts.Data}
			if ts.BadChain {
				qt.ChainID = big.NewInt(1)
			}
			var signKeys []keyInfo
			for _, in := range ts.Ins {
				var h common.Hash
				if in.RefTx >= 0 {
					h = all[in.RefTx].hash
				} else {
					h = common.BytesToHash(in.Hash)
				}
				k := keys[in.Key]
				qt.TxIn = append(qt.TxIn, types.TxIn{PreviousOutPoint: types.OutPoint{TxHash: h, Index: in.Index}, PubKey: k.pub})
				bt.inKeys = append(bt.inKeys, opKey(h, in.Index))
				bt.pkAddrs = append(bt.pkAddrs, k.addr)
				signKeys = append(signKeys, k)
			}
			for _, o := range ts.Outs {
				qt.TxOut = append(qt.TxOut, types.TxOut{Denomination: o.Den, Address: o.Addr, Lock: new(big.Int).SetUint64(o.Lock)})
			}
			// a syntactically valid placeholder signature, replaced below
			if len(signKeys) == 0 {
				signKeys = []keyInfo{keys[0]}
			}
			unsigned := types.NewTx(qt)
			digest := signer.Hash(unsigned)
			switch ts.Sign {
			case "ok":
				qt.Signature = signQi(r, digest, signKeys)
				bt.sigOK = len(ts.Ins) > 0
			case "bad":
				d2 := digest
				d2[0] ^= 1
				qt.Signature = signQi(r, d2, signKeys)
			case "drop-last", "drop-first":
				// a valid signature over the right digest made by a STRICT SUBSET of the carried keys
				// (the holder of some of the keys signs alone); with a single input: by a foreign key
				sub := signKeys
				if len(sub) >= 2 && ts.Sign == "drop-last" {
					sub = sub[:len(sub)-1]
				} else if len(sub) >= 2 {
					sub = sub[1:]
				} else {
					sub = []keyInfo{mkKey(bytes.Repeat([]byte{0x11}, 32))}
				}
				qt.Signature = signQi(r, digest, sub)
			default: // "other": signed by a key that is not carried by the inputs
				other := mkKey(bytes.Repeat([]byte{0x11}, 32))
				qt.Signature = signQi(r, digest, []keyInfo{other})
			}
			bt.tx = types.NewTx(qt)
			bt.hash = bt.tx.Hash()
			bt.intrinsic = types.CalculateIntrinsicQiTxGas(bt.tx, blk.Ctx.Scaling)
			all = append(all, bt)
			out[bi] = append(out[bi], bt)
		}
	}
	return out
}

// ---------- backends ----------

type backend struct {
	name string
	open func(dir string) (ethdb.Database, func())
	// restart closes db and opens the store again from what is on disk (nil: memory only, nothing to reopen)
	restart func(dir string, db ethdb.Database) ethdb.Database
}

func backends() []backend {
	// cur remembers the handle that is open on a path now, so that the close function works after a restart
	cur := map[string]ethdb.Database{}
	lvOpen := func(p string) ethdb.Database {
		d, err := leveldb.New(p, 16, 16, "", false, logger, nodeLoc)
		if err != nil {
			panic(err)
		}
		cur[p] = rawdb.NewDatabase(d)
		return cur[p]
	}
	pbOpen := func(p string) ethdb.Database {
		d, err := pebble.New(p, 16, 16, "", false, logger, nodeLoc)
		if err != nil {
			panic(err)
		}
		cur[p] = rawdb.NewDatabase(d)
		return cur[p]
	}
	lv := func(dir string) (ethdb.Database, func()) {
		p := filepath.Join(dir, "lv")
		return lvOpen(p), func() { cur[p].Close(); os.RemoveAll(p) }
	}
	pb := func(dir string) (ethdb.Database, func()) {
		p := filepath.Join(dir, "pb")
		return pbOpen(p), func() { cur[p].Close(); os.RemoveAll(p) }
	}
	lvRestart := func(dir string, _ ethdb.Database) ethdb.Database {
		p := filepath.Join(dir, "lv")
		cur[p].Close()
		return lvOpen(p)
	}
	pbRestart := func(dir string, _ ethdb.Database) ethdb.Database {
		p := filepath.Join(dir, "pb")
		cur[p].Close()
		return pbOpen(p)
	}
	mem := func(dir string) (ethdb.Database, func()) {
		db := rawdb.NewMemoryDatabase(logger)
		return db, func() { db.Close() }
	}
	table := func(inner func(string) (ethdb.Database, func())) func(string) (ethdb.Database, func()) {
		return func(dir string) (ethdb.Database, func()) {
			db, cl := inner(dir)
			return rawdb.NewTable(db, "c01-", nodeLoc, logger), cl
		}
	}
	tableRestart := func(inner func(string, ethdb.Database) ethdb.Database) func(string, ethdb.Database) ethdb.Database {
		return func(dir string, db ethdb.Database) ethdb.Database {
			return rawdb.NewTable(inner(dir, db), "c01-", nodeLoc, logger)
		}
	}
	return []backend{
		{"leveldb", lv, lvRestart}, {"pebble", pb, pbRestart}, {"memorydb", mem, nil},
		{"table/memorydb", table(mem), nil}, {"table/pebble", table(pb), tableRestart(pbRestart)},
	}
}

// ---------- observations ----------

type Etx struct {
	Type  uint64 `json:"type"`
	To    []byte `json:"to"`
	Value string `json:"value"`
	Index uint16 `json:"index"`
	Gas   uint64 `json:"gas"`
}
type TxObs struct {
	Fee     string   `json:"fee"`
	Gas     uint64   `json:"gas"`
	Removed string   `json:"removed"`
	Added   string   `json:"added"`
	Etxs    []Etx    `json:"etxs"`
	Spent   [][]byte `json:"spent"`
	Created [][]byte `json:"created"`
}
type Entry struct {
	Key   []byte `json:"key"`
	Den   uint8  `json:"den"`
	Owner []byte `json:"owner"`
	Lock  string `json:"lock"`
}
type BlockObs struct {
	Txs    []TxObs `json:"txs"` // accepted prefix
	OK     bool    `json:"ok"`
	Ledger []Entry `json:"ledger"`
	Panic  string  `json:"panic,omitempty"`
	// pool scenarios: the gossip observation of a gossip phase / the checkSig argument computed from the pool's
	// senders cache for each transaction of a processed block
	Gossip   *GossipObs `json:"gossip,omitempty"`
	CheckSig []bool     `json:"check_sig,omitempty"`
	Err      string     `json:"-"` // first error text: used for the input-distribution buckets only, never compared
}

func etxOf(e *types.ExternalTx) Etx {
	return Etx{Type: e.EtxType, To: e.To.Bytes(), Value: e.Value.String(), Index: e.ETXIndex, Gas: e.Gas}
}

// dumpLedger lists the 'ut' records of db in key order (prefix stripped).
func dumpLedger(db ethdb.Database) []Entry {
	it := db.NewIterator(rawdb.UtxoPrefix, nil)
	defer it.Release()
	var out []Entry
	for it.Next() {
		k := it.Key()
		if len(k) != rawdb.UtxoKeyLength {
			continue
		}
		h, idx, err := rawdb.ReverseUtxoKey(k)
		if err != nil {
			continue
		}
		u := rawdb.GetUTXO(db, h, idx)
		if u == nil {
			out = append(out, Entry{Key: opKey(h, idx), Den: 255, Lock: "0"})
			continue
		}
		lock := "0"
		if u.Lock != nil {
			lock = u.Lock.String()
		}
		out = append(out, Entry{Key: opKey(h, idx), Den: u.Denomination, Owner: append([]byte{}, u.Address...), Lock: lock})
	}
	return out
}

func writeBase(db ethdb.Database, base []UtxoSpec) {
	for _, u := range base {
		e := &types.UtxoEntry{Denomination: u.Den, Address: u.Owner, Lock: new(big.Int).SetUint64(u.Lock)}
		if err := rawdb.CreateUTXO(db, common.BytesToHash(u.Hash), u.Index, e); err != nil {
			panic(err)
		}
	}
}

// runProc drives core.ProcessQiTx over the blocks of s on db exactly as
// StateProcessor.Process does for the Qi transactions of a block: one batch per block,
// batch.SetPending(tracks), first error rejects the block (batch dropped), else batch.Write().
func runProc(db ethdb.Database, s *Scenario, ctxs []*builtCtx, txs [][]*builtTx, restart ...func(ethdb.Database) ethdb.Database) (obs []BlockObs) {
	writeBase(db, s.Base)
	signer := types.NewSigner(chainID, nodeLoc)
	var rig *poolRig
	if s.Kind == "pool" {
		rig = newPoolRig(db, firstGossipCtx(s, ctxs))
		defer rig.stop()
	}
	for bi := range s.Blocks {
		c := ctxs[bi]
		bo := BlockObs{OK: true}
		if s.Restart && rig == nil && len(restart) == 1 && restart[0] != nil {
			// node restart before every block (also the first: the base set must have been made durable)
			db = restart[0](db)
		}
		if rig != nil && s.Blocks[bi].Gossip {
			func() {
				defer func() {
					if e := recover(); e != nil {
						bo.Panic = fmt.Sprint(e)
					}
				}()
				g := rig.gossip(txs[bi])
				bo.Gossip = &g
			}()
			bo.Ledger = dumpLedger(db)
			obs = append(obs, bo)
			continue
		}
		var poolSig []bool
		if rig != nil {
			poolSig = rig.checkSigs(txs[bi])
			bo.CheckSig = poolSig
		}
		batch := db.NewBatch()
		batch.SetPending(s.Tracks)
		gp := new(types.GasPool).AddGas(c.wo.GasLimit())
		used := uint64(0)
		rl, pl := c.spec.RLim, c.spec.PLim
		ucd := new(core.UtxosCreatedDeleted)
		added, removed := big.NewInt(0), big.NewInt(0)
		first := true
		for ti, bt := range txs[bi] {
			checkSig := bt.spec.CheckSig
			if poolSig != nil {
				checkSig = poolSig[ti]
			}
			a0, r0 := new(big.Int).Set(added), new(big.Int).Set(removed)
			nd, nc := len(ucd.UtxosDeleted), len(ucd.UtxosCreatedKeys)
			var (
				fee  *big.Int
				etxs []*types.ExternalTx
				rcpt *types.Receipt
				err  error
			)
			func() {
				defer func() {
					if e := recover(); e != nil {
						err = fmt.Errorf("panic: %v", e)
						bo.Panic = fmt.Sprint(e)
					}
				}()
				fee, etxs, rcpt, err, _ = core.ProcessQiTx(bt.tx, c.chain, checkSig, first, c.wo, batch, db, gp, &used, signer, nodeLoc, *chainID, c.spec.Scaling, &rl, &pl, ucd, added, removed, false)
			}()
			if err != nil {
				bo.OK = false
				bo.Err = err.Error()
				break
			}
			first = false
			to := TxObs{Fee: fee.String(), Gas: rcpt.GasUsed,
				Removed: new(big.Int).Sub(removed, r0).String(), Added: new(big.Int).Sub(added, a0).String()}
			for _, e := range etxs {
				to.Etxs = append(to.Etxs, etxOf(e))
			}
			for _, d := range ucd.UtxosDeleted[nd:] {
				to.Spent = append(to.Spent, opKey(d.TxHash, d.Index))
			}
			for _, k := range ucd.UtxosCreatedKeys[nc:] {
				// rawdb.UtxoKeyWithDenomination: prefix ++ hash ++ index ++ denomination
				to.Created = append(to.Created, append([]byte{}, k[len(rawdb.UtxoPrefix):len(k)-1]...))
			}
			bo.Txs = append(bo.Txs, to)
		}
		if bo.OK {
			if err := batch.Write(); err != nil {
				panic(err)
			}
		}
		batch.Reset()
		bo.Ledger = dumpLedger(db)
		obs = append(obs, bo)
	}
	return obs
}

// ---------- worker ----------

type WorkerObs struct {
	Verdicts []*TxObs `json:"verdicts"` // nil = rejected
	GasPool  uint64   `json:"gas_pool"`
	GasUsed  uint64   `json:"gas_used"`
	RLim     uint64   `json:"rlim"`
	PLim     uint64   `json:"plim"`
	Mempool  []bool   `json:"mempool"`
	Panic    string   `json:"panic,omitempty"`
}

// retryClass reproduces the error test of commitTransactions that leaves firstQiTx untouched.
func retryClass(err error) bool {
	m := err.Error()
	return strings.Contains(m, "emits too many") || strings.Contains(m, "double spends") ||
		strings.Contains(m, "combine smaller denominations") || strings.Contains(m, "uses too much gas") ||
		err == types.ErrGasLimitReached
}

func runWorker(db ethdb.Database, s *Scenario, c *builtCtx, txs []*builtTx) WorkerObs {
	writeBase(db, s.Base)
	cfg := &params.ChainConfig{ChainID: chainID, Location: nodeLoc}
	// hash -> outpoint dictionary for the UTXOHash values the worker records
	dict := map[common.Hash][]byte{}
	val := map[string]uint8{}
	for _, u := range s.Base {
		e := &types.UtxoEntry{Denomination: u.Den, Address: u.Owner, Lock: new(big.Int).SetUint64(u.Lock)}
		got := rawdb.GetUTXO(db, common.BytesToHash(u.Hash), u.Index)
		if got != nil {
			e = got
		}
		dict[types.UTXOHash(common.BytesToHash(u.Hash), u.Index, e)] = opKey(common.BytesToHash(u.Hash), u.Index)
		val[string(opKey(common.BytesToHash(u.Hash), u.Index))] = u.Den
	}
	for _, bt := range txs {
		for i, o := range bt.tx.TxOut() {
			o := o
			dict[types.UTXOHash(bt.hash, uint16(i), types.NewUtxoEntry(&o))] = opKey(bt.hash, uint16(i))
			val[string(opKey(bt.hash, uint16(i)))] = o.Denomination
		}
	}
	sumDen := func(keys [][]byte) string {
		t := big.NewInt(0)
		for _, k := range keys {
			if d, ok := types.Denominations[val[string(k)]]; ok {
				t.Add(t, d)
			}
		}
		return t.String()
	}
	w := core.VerifC01NewWorker(db, cfg, c.wo, c.pt, c.pt, c.spec.RLim, c.spec.PLim, c.spec.Scaling)
	var wo WorkerObs
	first := true
	for _, bt := range txs {
		before := w.State()
		var err error
		func() {
			defer func() {
				if e := recover(); e != nil {
					err = fmt.Errorf("panic: %v", e)
					wo.Panic = fmt.Sprint(e)
				}
			}()
			err = w.ProcessQiTx(bt.tx, first)
		}()
		if err != nil {
			wo.Verdicts = append(wo.Verdicts, nil)
			if !retryClass(err) {
				first = false
			}
			continue
		}
		first = false
		after := w.State()
		rc := after.Receipts[len(after.Receipts)-1]
		to := &TxObs{Fee: new(big.Int).Sub(after.UtxoFees, before.UtxoFees).String(), Gas: rc.GasUsed}
		for _, e := range rc.OutboundEtxs {
			to.Etxs = append(to.Etxs, Etx{Type: e.EtxType(), To: e.To().Bytes(), Value: e.Value().String(), Index: e.ETXIndex(), Gas: e.Gas()})
		}
		for _, h := range after.UtxosDelete[len(before.UtxosDelete):] {
			k, ok := dict[h]
			if !ok {
				k = []byte{0xff}
			}
			to.Spent = append(to.Spent, k)
		}
		for _, h := range after.UtxosCreate[len(before.UtxosCreate):] {
			k, ok := dict[h]
			if !ok {
				k = []byte{0xff}
			}
			to.Created = append(to.Created, k)
		}
		to.Removed, to.Added = sumDen(to.Spent), sumDen(to.Created)
		wo.Verdicts = append(wo.Verdicts, to)
	}
	st := w.State()
	wo.GasPool, wo.GasUsed, wo.RLim, wo.PLim = st.GasPool, st.GasUsed, st.EtxRLimit, st.EtxPLimit
	signer := types.NewSigner(chainID, nodeLoc)
	for _, bt := range txs {
		ok := false
		func() {
			defer func() { recover() }()
			_, err := core.ValidateQiTxInputs(bt.tx, c.chain, db, c.wo, signer, nodeLoc, *chainID)
			ok = err == nil
		}()
		wo.Mempool = append(wo.Mempool, ok)
	}
	return wo
}

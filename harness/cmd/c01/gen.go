// C01 harness, part 2: the fixed corpus of targeted scenarios and the random generator.
package main

import (
	"fmt"

	"github.com/dominant-strategies/go-quai/common"
	"github.com/dominant-strategies/go-quai/core/types"
	"github.com/dominant-strategies/go-quai/params"

	"verifharness/hlib"
)

const nKeys = 6

type pool struct {
	loc       common.Location // the node location the keys and addresses are made for
	keys      [][]byte        // private keys; 0..nKeys-1 own in-zone Qi addresses, nKeys owns an in-zone Quai address, nKeys+1 a Qi address in ANOTHER zone of the region
	ki        []keyInfo
	quaiLocal [][]byte // in-zone Quai-ledger addresses (conversion / wrapping targets)
	extRegion [][]byte // Qi addresses in other zones of the same region
	extPrime  [][]byte // Qi addresses in another region (the first one with the node's zone number)
	extQuai   []byte   // Quai address in another zone
	swapQi    []byte   // Qi / Quai address at the location with region and zone number exchanged (nil when they are equal)
	swapQuai  []byte
}

func (p *pool) locBytes() []byte { return []byte{p.loc[0], p.loc[1]} }

// newPool makes keys and addresses for a node at loc: "local" = prefix region<<4|zone, the other zones of the
// region, other regions (one of them with the same zone number), and the location with region and zone exchanged.
func newPool(r *hlib.Rng, loc common.Location) *pool {
	p := &pool{loc: loc}
	pre := loc.BytePrefix()
	reg, zon := byte(loc.Region()), byte(loc.Zone())
	at := func(rg, zn byte) byte { return (rg%3)<<4 | zn%3 }
	for i := 0; i < nKeys; i++ {
		p.keys = append(p.keys, grindKey(r, pre, true))
	}
	p.keys = append(p.keys, grindKey(r, pre, false))
	p.keys = append(p.keys, grindKey(r, at(reg, zon+1), true))
	for _, k := range p.keys {
		p.ki = append(p.ki, mkKey(k))
	}
	mk := func(b0 byte, qi bool) []byte {
		a := r.Bytes(20)
		a[0] = b0
		if qi {
			a[1] |= 0x80
		} else {
			a[1] &= 0x7f
		}
		return a
	}
	p.quaiLocal = [][]byte{mk(pre, false), mk(pre, false)}
	p.extRegion = [][]byte{mk(at(reg, zon+1), true), mk(at(reg, zon+2), true)}
	p.extPrime = [][]byte{mk(at(reg+1, zon), true), mk(at(reg+2, zon+1), true)}
	p.extQuai = mk(at(reg, zon+1), false)
	if reg != zon {
		p.swapQi, p.swapQuai = mk(at(zon, reg), true), mk(at(zon, reg), false)
	}
	return p
}

func (p *pool) freshQi(r *hlib.Rng) []byte {
	a := r.Bytes(20)
	a[0] = p.loc.BytePrefix()
	a[1] |= 0x80
	return a
}

func allElig() []byte {
	e := make([]byte, 32)
	for i := range e {
		e[i] = 0xff
	}
	return e
}

const bigDifficulty = "100000000000000000000" // 1e20: keeps the Quai reward positive in every fork regime

func defaultCtx() CtxSpec {
	return CtxSpec{Height: 1000, PTN: 2000000, GasLimit: 5000000, BaseFee: 1, Difficulty: bigDifficulty,
		Rate: "1000000000000000000000000", Elig: allElig(), RLim: params.ETXRLimitMin, PLim: params.ETXPLimitMin, Scaling: 5.0}
}

func hashN(n byte) []byte {
	h := make([]byte, 32)
	for i := range h {
		h[i] = n
	}
	h[0] = 0xa0
	return h
}

// ---------- corpus ----------

// base ledger used by most corpus cases: key i owns (hashN(i+1), 0) of denomination den[i].
func corpusBase(p *pool, dens ...uint8) []UtxoSpec {
	var b []UtxoSpec
	for i, d := range dens {
		b = append(b, UtxoSpec{Hash: hashN(byte(i + 1)), Index: 0, Den: d, Owner: p.ki[i%nKeys].addr})
	}
	return b
}
func in(i int) InSpec { return InSpec{RefTx: -1, Hash: hashN(byte(i + 1)), Index: 0, Key: i % nKeys} }
func out(d uint8, a []byte) OutSpec { return OutSpec{Den: d, Addr: a} }

func corpus(p *pool, r *hlib.Rng) []*Scenario {
	var cs []*Scenario
	fa := func() []byte { return p.freshQi(r) }
	one := func(name string, tracks bool, base []UtxoSpec, ctx CtxSpec, txs ...TxSpec) {
		cs = append(cs, &Scenario{Kind: "proc", Name: name, Tracks: tracks, Keys: p.keys, Base: base,
			Blocks: []BlockSpec{{Ctx: ctx, Txs: txs}}})
	}
	tx := func(ins []InSpec, outs []OutSpec) TxSpec {
		return TxSpec{Ins: ins, Outs: outs, CheckSig: true, Sign: "ok"}
	}
	dc := defaultCtx()

	// plain valid spends: one input (Schnorr), two and three inputs (MuSig2)
	one("valid-1in", true, corpusBase(p, 6), dc, tx([]InSpec{in(0)}, []OutSpec{out(5, fa()), out(4, fa())}))
	one("valid-2in", true, corpusBase(p, 6, 6), dc, tx([]InSpec{in(0), in(1)}, []OutSpec{out(6, fa()), out(5, fa())}))
	one("valid-3in", true, corpusBase(p, 6, 4, 8), dc, tx([]InSpec{in(0), in(1), in(2)}, []OutSpec{out(8, fa()), out(5, fa()), out(4, fa())}))

	// F1: the same outpoint twice in one transaction (1 UTXO of 1000 -> 2 outputs of 1000)
	dbl := tx([]InSpec{in(0), in(0)}, []OutSpec{out(6, fa()), out(5, fa()), out(4, fa())})
	one("F1-same-outpoint-twice-in-tx", true, corpusBase(p, 6), dc, dbl)
	dbl2 := dbl
	dbl2.CheckSig = false
	one("F1-same-outpoint-twice-in-tx-nosig", true, corpusBase(p, 6), dc, dbl2)
	// the witness of qi_spent_once_refuted_untracked, on a batch without pending tracking
	one("F1-witness-untracked", false, corpusBase(p, 6), dc, dbl2)
	// same outpoint in two transactions of one block (same batch)
	t1 := tx([]InSpec{in(0)}, []OutSpec{out(5, fa())})
	t2 := tx([]InSpec{in(0)}, []OutSpec{out(5, fa()), out(4, fa())})
	one("same-outpoint-two-txs-one-block", true, corpusBase(p, 6), dc, t1, t2)
	one("same-outpoint-two-txs-one-block-untracked", false, corpusBase(p, 6), dc, t1, t2)
	// ... and in two blocks (commit between)
	cs = append(cs, &Scenario{Kind: "proc", Name: "same-outpoint-two-blocks", Tracks: true, Keys: p.keys, Base: corpusBase(p, 6),
		Blocks: []BlockSpec{{Ctx: dc, Txs: []TxSpec{t1}}, {Ctx: dc, Txs: []TxSpec{t2}}}})
	cs = append(cs, &Scenario{Kind: "proc", Name: "same-outpoint-two-blocks-untracked", Tracks: false, Keys: p.keys, Base: corpusBase(p, 6),
		Blocks: []BlockSpec{{Ctx: dc, Txs: []TxSpec{t1}}, {Ctx: dc, Txs: []TxSpec{t2}}}})
	// spend of an output created earlier in the same block, then again (must fail), and in the next block
	c1 := tx([]InSpec{in(0)}, []OutSpec{out(5, p.ki[1].addr), out(4, fa())})
	c2 := TxSpec{Ins: []InSpec{{RefTx: 0, Index: 0, Key: 1}}, Outs: []OutSpec{out(4, fa()), out(4, fa())}, CheckSig: true, Sign: "ok"}
	one("spend-created-in-same-block", true, corpusBase(p, 6), dc, c1, c2)
	one("spend-created-in-same-block-untracked", false, corpusBase(p, 6), dc, c1, c2)
	c3 := TxSpec{Ins: []InSpec{{RefTx: 0, Index: 0, Key: 1}}, Outs: []OutSpec{out(4, fa())}, CheckSig: true, Sign: "ok"}
	one("spend-created-twice-in-same-block", true, corpusBase(p, 6), dc, c1, c2, c3)
	cs = append(cs, &Scenario{Kind: "proc", Name: "spend-created-next-block", Tracks: true, Keys: p.keys, Base: corpusBase(p, 6),
		Blocks: []BlockSpec{{Ctx: dc, Txs: []TxSpec{c1}}, {Ctx: dc, Txs: []TxSpec{c2}}, {Ctx: dc, Txs: []TxSpec{c3}}}})
	// unknown outpoint
	one("unknown-outpoint", true, corpusBase(p, 6), dc, tx([]InSpec{{RefTx: -1, Hash: hashN(77), Index: 0, Key: 0}}, []OutSpec{out(4, fa())}))
	one("unknown-index", true, corpusBase(p, 6), dc, tx([]InSpec{{RefTx: -1, Hash: hashN(1), Index: 1, Key: 0}}, []OutSpec{out(4, fa())}))
	// wrong key; one wrong key among several
	one("wrong-key", true, corpusBase(p, 6), dc, tx([]InSpec{{RefTx: -1, Hash: hashN(1), Key: 1}}, []OutSpec{out(5, fa())}))
	one("one-wrong-key-among-three", true, corpusBase(p, 6, 6, 6), dc,
		tx([]InSpec{in(0), {RefTx: -1, Hash: hashN(2), Key: 3}, in(2)}, []OutSpec{out(6, fa()), out(6, fa())}))
	wk := tx([]InSpec{{RefTx: -1, Hash: hashN(1), Key: 1}}, []OutSpec{out(5, fa())})
	wk.CheckSig = false
	one("wrong-key-nosig", true, corpusBase(p, 6), dc, wk)
	// ownership is a fact about every INPUT, not about every distinct key: a key repeated inside one
	// transaction (the holder of key 0 signs alone, MuSig2 over {k0,k0,..}) where one occurrence names
	// somebody else's output; first / later / middle position; with and without signature check;
	// control: two outputs really owned by the same key are spendable together
	fk := func(i, key int) InSpec { return InSpec{RefTx: -1, Hash: hashN(byte(i + 1)), Index: 0, Key: key} }
	one("repeated-key-second-input-foreign", true, corpusBase(p, 6, 6), dc, tx([]InSpec{in(0), fk(1, 0)}, []OutSpec{out(6, fa()), out(5, fa())}))
	rkn := tx([]InSpec{in(0), fk(1, 0)}, []OutSpec{out(6, fa()), out(5, fa())})
	rkn.CheckSig = false
	one("repeated-key-second-input-foreign-nosig", true, corpusBase(p, 6, 6), dc, rkn)
	one("repeated-key-first-input-foreign", true, corpusBase(p, 6, 6), dc, tx([]InSpec{fk(1, 0), in(0)}, []OutSpec{out(6, fa()), out(5, fa())}))
	one("repeated-key-third-input-foreign", true, corpusBase(p, 6, 6, 6), dc, tx([]InSpec{in(0), in(1), fk(2, 1)}, []OutSpec{out(6, fa()), out(6, fa()), out(5, fa())}))
	ownTwice := []UtxoSpec{{Hash: hashN(1), Den: 6, Owner: p.ki[0].addr}, {Hash: hashN(2), Den: 6, Owner: p.ki[0].addr}, {Hash: hashN(3), Den: 6, Owner: p.ki[1].addr}, {Hash: hashN(4), Den: 6, Owner: p.ki[0].addr}}
	one("repeated-key-own-outputs-valid", true, ownTwice, dc, tx([]InSpec{fk(0, 0), fk(1, 0)}, []OutSpec{out(6, fa()), out(5, fa())}))
	one("repeated-key-own-foreign-own", true, ownTwice, dc, tx([]InSpec{fk(0, 0), fk(2, 0), fk(3, 0)}, []OutSpec{out(6, fa()), out(6, fa()), out(5, fa())}))
	one("repeated-key-own-own-foreign", true, ownTwice, dc, tx([]InSpec{fk(0, 0), fk(1, 0), fk(2, 0)}, []OutSpec{out(6, fa()), out(6, fa()), out(5, fa())}))
	// ... every other per-input condition on a later input carrying an already seen key: locked, denomination, unknown
	ownLocked := []UtxoSpec{{Hash: hashN(1), Den: 6, Owner: p.ki[0].addr}, {Hash: hashN(2), Den: 6, Owner: p.ki[0].addr, Lock: 2000}, {Hash: hashN(3), Den: 15, Owner: p.ki[0].addr}}
	one("repeated-key-second-input-locked", true, ownLocked, dc, tx([]InSpec{fk(0, 0), fk(1, 0)}, []OutSpec{out(6, fa()), out(5, fa())}))
	one("repeated-key-second-input-denomination-15", true, ownLocked, dc, tx([]InSpec{fk(0, 0), fk(2, 0)}, []OutSpec{out(6, fa()), out(5, fa())}))
	one("repeated-key-second-input-unknown", true, ownLocked, dc, tx([]InSpec{fk(0, 0), fk(7, 0)}, []OutSpec{out(6, fa()), out(5, fa())}))
	// ... and not once per key per block / per chain either
	okFirst := tx([]InSpec{in(0)}, []OutSpec{out(5, fa())})
	one("wrong-key-after-valid-use-of-the-key-in-block", true, corpusBase(p, 6, 6), dc, okFirst, tx([]InSpec{fk(1, 0)}, []OutSpec{out(5, fa())}))
	cs = append(cs, &Scenario{Kind: "proc", Name: "wrong-key-after-valid-use-of-the-key-previous-block", Tracks: true, Keys: p.keys, Base: corpusBase(p, 6, 6),
		Blocks: []BlockSpec{{Ctx: dc, Txs: []TxSpec{okFirst}}, {Ctx: dc, Txs: []TxSpec{tx([]InSpec{fk(1, 0)}, []OutSpec{out(5, fa())})}}}})
	// key whose address is in the Quai ledger
	qb := []UtxoSpec{{Hash: hashN(1), Den: 6, Owner: p.ki[nKeys].addr}}
	one("quai-ledger-key", true, qb, dc, tx([]InSpec{{RefTx: -1, Hash: hashN(1), Key: nKeys}}, []OutSpec{out(5, fa())}))
	// signatures: wrong digest, wrong signer, not checked
	bs := tx([]InSpec{in(0)}, []OutSpec{out(5, fa())})
	bs.Sign = "bad"
	one("bad-signature", true, corpusBase(p, 6), dc, bs)
	bs2 := tx([]InSpec{in(0), in(1)}, []OutSpec{out(6, fa())})
	bs2.Sign = "bad"
	one("bad-musig-signature", true, corpusBase(p, 6, 6), dc, bs2)
	os := tx([]InSpec{in(0)}, []OutSpec{out(5, fa())})
	os.Sign = "other"
	one("signed-by-other-key", true, corpusBase(p, 6), dc, os)
	// the right keys are carried, but only some of their holders signed (aggregate of a strict subset)
	for _, sg := range []string{"drop-last", "drop-first"} {
		ps := tx([]InSpec{in(0), in(1)}, []OutSpec{out(6, fa()), out(5, fa())})
		ps.Sign = sg
		one("musig-2-keys-signed-"+sg, true, corpusBase(p, 6, 6), dc, ps)
		ps3 := tx([]InSpec{in(0), in(1), in(2)}, []OutSpec{out(6, fa()), out(6, fa()), out(5, fa())})
		ps3.Sign = sg
		one("musig-3-keys-signed-"+sg, true, corpusBase(p, 6, 6, 6), dc, ps3)
	}
	psr := tx([]InSpec{fk(0, 0), fk(1, 0)}, []OutSpec{out(6, fa()), out(5, fa())})
	psr.Sign = "drop-last"
	one("repeated-key-signed-once", true, ownTwice, dc, psr)
	ns := os
	ns.CheckSig = false
	one("bad-signature-not-checked", true, corpusBase(p, 6), dc, ns)
	// locked output: one block before, at, and after its lock height
	lb := []UtxoSpec{{Hash: hashN(1), Den: 6, Owner: p.ki[0].addr, Lock: 1000}}
	for _, h := range []uint64{999, 1000, 1001} {
		c := dc
		c.Height = h
		one(fmt.Sprintf("locked-until-1000-at-%d", h), true, lb, c, tx([]InSpec{in(0)}, []OutSpec{out(5, fa())}))
	}
	// denominations: stored entry above the maximum; output above the maximum
	one("input-denomination-15", true, corpusBase(p, 15), dc, tx([]InSpec{in(0)}, []OutSpec{out(5, fa())}))
	one("output-denomination-15", true, corpusBase(p, 14), dc, tx([]InSpec{in(0)}, []OutSpec{out(15, fa())}))
	one("output-denomination-255", true, corpusBase(p, 14), dc, tx([]InSpec{in(0)}, []OutSpec{out(255, fa())}))
	one("max-denomination-ok", true, corpusBase(p, 14), dc, tx([]InSpec{in(0)}, []OutSpec{out(13, fa()), out(13, fa())}))
	// outputs > inputs, outputs = inputs (fee 0 < floor)
	one("outputs-exceed-inputs", true, corpusBase(p, 6), dc, tx([]InSpec{in(0)}, []OutSpec{out(6, fa()), out(0, fa())}))
	one("zero-fee", true, corpusBase(p, 6), dc, tx([]InSpec{in(0)}, []OutSpec{out(6, fa())}))
	// merge-up rejected by CheckDenominations unless first Qi tx of the block
	mergeBase := corpusBase(p, 6, 5, 5, 5) // 1000, 500, 500, 500
	first := tx([]InSpec{in(0)}, []OutSpec{out(5, fa())})
	mg := tx([]InSpec{in(1), in(2), in(3)}, []OutSpec{out(6, fa())}) // 3 x 500 -> 1000
	one("merge-up-first-tx-allowed", true, mergeBase, dc, mg)
	one("merge-up-second-tx-rejected", true, mergeBase, dc, first, mg)
	split := tx([]InSpec{in(1), in(2), in(3)}, []OutSpec{out(5, fa()), out(5, fa()), out(4, fa())})
	one("no-merge-second-tx-accepted", true, mergeBase, dc, first, split)
	// carry across the irregular ratio 20000/10000 = 2 and 100000/20000 = 5
	one("split-across-ratios", true, corpusBase(p, 6, 10), dc, first,
		tx([]InSpec{in(1)}, []OutSpec{out(9, fa()), out(9, fa()), out(9, fa()), out(9, fa()), out(8, fa()), out(7, fa())}))
	// address reuse: an output to an input's owner; two outputs to one address
	one("output-to-input-owner", true, corpusBase(p, 6), dc, tx([]InSpec{in(0)}, []OutSpec{out(5, p.ki[0].addr)}))
	same := fa()
	one("two-outputs-same-address", true, corpusBase(p, 6), dc, tx([]InSpec{in(0)}, []OutSpec{out(5, same), out(4, same)}))
	// no inputs, chain id, data length, non-zero output lock
	one("no-inputs", true, corpusBase(p, 6), dc, TxSpec{Outs: []OutSpec{out(4, fa())}, CheckSig: false, Sign: "ok"})
	bc := tx([]InSpec{in(0)}, []OutSpec{out(5, fa())})
	bc.BadChain = true
	one("wrong-chain-id", true, corpusBase(p, 6), dc, bc)
	bd := tx([]InSpec{in(0)}, []OutSpec{out(5, fa())})
	bd.Data = []byte{1, 2, 3}
	one("data-length-3", true, corpusBase(p, 6), dc, bd)
	ol := tx([]InSpec{in(0)}, []OutSpec{{Den: 5, Addr: fa(), Lock: 5}})
	one("output-lock-nonzero", true, corpusBase(p, 6), dc, ol)
	// cross-zone ETX outputs: same region, other region, Quai address elsewhere, ineligible slice, limits
	one("etx-region", true, corpusBase(p, 6), dc, tx([]InSpec{in(0)}, []OutSpec{out(5, p.extRegion[0]), out(4, fa())}))
	one("etx-prime", true, corpusBase(p, 6), dc, tx([]InSpec{in(0)}, []OutSpec{out(5, p.extPrime[0]), out(4, p.extPrime[1])}))
	one("etx-to-quai-elsewhere", true, corpusBase(p, 6), dc, tx([]InSpec{in(0)}, []OutSpec{out(5, p.extQuai)}))
	ie := dc
	ie.Elig = make([]byte, 32)
	one("etx-ineligible-slice", true, corpusBase(p, 6), ie, tx([]InSpec{in(0)}, []OutSpec{out(5, p.extRegion[0])}))
	lr := dc
	lr.RLim = params.TxGas
	one("etx-region-limit", true, corpusBase(p, 6), lr, tx([]InSpec{in(0)}, []OutSpec{out(4, p.extRegion[0]), out(4, p.extRegion[1])}))
	lp := dc
	lp.PLim = params.TxGas
	one("etx-prime-limit", true, corpusBase(p, 6), lp, tx([]InSpec{in(0)}, []OutSpec{out(4, p.extPrime[0]), out(4, p.extPrime[1])}))
	one("etx-prime-limit-exact", true, corpusBase(p, 6), lp, tx([]InSpec{in(0)}, []OutSpec{out(4, p.extPrime[0]), out(4, fa())}))
	// conversion (data = 2 bytes slip ++ refund address in the Qi ledger), aggregation of two outputs, two targets, hold windows
	convData := append([]byte{0, 50}, p.ki[2].addr...)
	cv := tx([]InSpec{in(0)}, []OutSpec{out(5, p.quaiLocal[0]), out(4, fa())})
	cv.Data = convData
	one("conversion", true, corpusBase(p, 6), dc, cv)
	cv2 := tx([]InSpec{in(0)}, []OutSpec{out(5, p.quaiLocal[0]), out(4, p.quaiLocal[0]), out(4, fa())})
	cv2.Data = convData
	one("conversion-aggregated", true, corpusBase(p, 6), dc, cv2)
	cv3 := tx([]InSpec{in(0)}, []OutSpec{out(5, p.quaiLocal[0]), out(4, p.quaiLocal[1])})
	cv3.Data = convData
	one("conversion-two-targets", true, corpusBase(p, 6), dc, cv3)
	cvq := tx([]InSpec{in(0)}, []OutSpec{out(5, p.quaiLocal[0])})
	cvq.Data = append([]byte{0, 50}, p.quaiLocal[1]...)
	one("conversion-refund-not-qi", true, corpusBase(p, 6), dc, cvq)
	one("quai-output-without-data", true, corpusBase(p, 6), dc, tx([]InSpec{in(0)}, []OutSpec{out(5, p.quaiLocal[0])}))
	for _, ptn := range []uint64{params.KawPowForkBlock - 1, params.KawPowForkBlock, params.KawPowForkBlock + params.KQuaiChangeHoldInterval - 1,
		params.KawPowForkBlock + params.KQuaiChangeHoldInterval, params.ShaEquivalentDifficultyForkBlock - 1, params.ShaEquivalentDifficultyForkBlock,
		params.ShaEquivalentDifficultyForkBlock + params.KQuaiChangeHoldInterval - 1, params.ShaEquivalentDifficultyForkBlock + params.KQuaiChangeHoldInterval, 0} {
		c := dc
		c.PTN = ptn
		one(fmt.Sprintf("conversion-at-prime-terminus-%d", ptn), true, corpusBase(p, 6), c, cv)
	}
	lc := dc
	lc.PLim = params.QiToQuaiConversionGas - 1
	one("conversion-prime-limit", true, corpusBase(p, 6), lc, cv)
	// wrapping (data = owner contract, 20 bytes, Quai ledger, in zone): after and before QiWrappingChangeBlock
	wr := tx([]InSpec{in(0)}, []OutSpec{out(5, p.quaiLocal[0]), out(4, fa())})
	wr.Data = p.quaiLocal[1]
	one("wrapping-after-fork", true, corpusBase(p, 6), dc, wr)
	for _, ptn := range []uint64{params.QiWrappingChangeBlock - 1, params.QiWrappingChangeBlock} {
		c := dc
		c.PTN = ptn
		one(fmt.Sprintf("wrapping-at-prime-terminus-%d", ptn), true, corpusBase(p, 6), c, wr)
	}
	wq := tx([]InSpec{in(0)}, []OutSpec{out(5, p.quaiLocal[0])})
	wq.Data = p.ki[2].addr
	one("wrapping-owner-in-qi-ledger", true, corpusBase(p, 6), dc, wq)
	we := tx([]InSpec{in(0)}, []OutSpec{out(5, p.quaiLocal[0])})
	we.Data = p.extQuai
	one("wrapping-owner-other-zone", true, corpusBase(p, 6), dc, we)
	// gas: block gas limit and gas pool
	gl := dc
	gl.GasLimit = 10000
	one("gas-limit-below-intrinsic", true, corpusBase(p, 6), gl, tx([]InSpec{in(0)}, []OutSpec{out(5, fa())}))
	g2 := dc
	g2.GasLimit = 30000
	one("gas-pool-exhausted-by-etx", true, corpusBase(p, 6), g2, tx([]InSpec{in(0)}, []OutSpec{out(5, p.extRegion[0])}))
	g3 := dc
	g3.GasLimit = 30000
	one("gas-pool-second-tx", true, corpusBase(p, 6, 6), g3, tx([]InSpec{in(0)}, []OutSpec{out(5, fa())}), tx([]InSpec{in(1)}, []OutSpec{out(5, fa())}))
	// fee floor boundary: base fee chosen so that a fee of 500 qits is just enough / just short
	for _, d := range []int64{0, 1} {
		c := dc
		c.BaseFee = 0 // filled by floorBaseFee
		s := &Scenario{Kind: "proc", Name: fmt.Sprintf("fee-floor-boundary+%d", d), Tracks: true, Keys: p.keys, Base: corpusBase(p, 6),
			Blocks: []BlockSpec{{Ctx: c, Txs: []TxSpec{tx([]InSpec{in(0)}, []OutSpec{out(5, fa())})}}}}
		floorBaseFee(s, 500, d)
		cs = append(cs, s)
	}
	// scaling factor above the threshold (float path of the intrinsic gas)
	sc := dc
	sc.Scaling = 17.3
	one("scaling-17.3", true, corpusBase(p, 6), sc, tx([]InSpec{in(0)}, []OutSpec{out(5, fa())}))

	// ---- worker corpus
	wone := func(name string, base []UtxoSpec, ctx CtxSpec, txs ...TxSpec) {
		for i := range txs {
			txs[i].CheckSig = false
		}
		cs = append(cs, &Scenario{Kind: "worker", Name: name, Tracks: true, Keys: p.keys, Base: base,
			Blocks: []BlockSpec{{Ctx: ctx, Txs: txs}}})
	}
	wone("worker-valid", corpusBase(p, 6, 6), dc, tx([]InSpec{in(0)}, []OutSpec{out(5, fa())}), tx([]InSpec{in(1)}, []OutSpec{out(5, fa()), out(4, fa())}))
	wone("worker-double-spend-in-tx", corpusBase(p, 6), dc, dbl)
	wone("worker-double-spend-two-txs", corpusBase(p, 6, 6), dc, t1, t2, tx([]InSpec{in(1)}, []OutSpec{out(5, fa())}))
	wone("worker-spend-created-in-block", corpusBase(p, 6), dc, c1, c2)
	wone("worker-failed-tx-keeps-inputs", corpusBase(p, 6, 6), dc,
		tx([]InSpec{in(0), in(1)}, []OutSpec{out(15, fa())}), tx([]InSpec{in(0)}, []OutSpec{out(5, fa())}))
	wone("worker-wrong-key-not-checked", corpusBase(p, 6), dc, wk)
	// three and more pool transactions spending one outpoint (the pool checks inputs against the committed set only):
	// exactly one may enter the pending block, whatever is rejected in between; interleaved with independent
	// ones; conflict on the first / a later input of a multi-input transaction; two conflict groups; a
	// transaction naming the outpoint twice between two spenders
	sp := func(ins []InSpec, dens ...uint8) TxSpec {
		var os []OutSpec
		for _, d := range dens {
			os = append(os, out(d, fa()))
		}
		return tx(ins, os)
	}
	wone("worker-triple-spend", corpusBase(p, 6), dc, sp([]InSpec{in(0)}, 5), sp([]InSpec{in(0)}, 5, 4), sp([]InSpec{in(0)}, 5, 4, 3))
	wone("worker-quintuple-spend", corpusBase(p, 6), dc, sp([]InSpec{in(0)}, 5), sp([]InSpec{in(0)}, 5, 4), sp([]InSpec{in(0)}, 5, 4, 3),
		sp([]InSpec{in(0)}, 4, 4), sp([]InSpec{in(0)}, 4, 3))
	wone("worker-triple-spend-interleaved", corpusBase(p, 6, 6, 6), dc, sp([]InSpec{in(0)}, 5), sp([]InSpec{in(1)}, 5), sp([]InSpec{in(0)}, 5, 4),
		sp([]InSpec{in(2)}, 5), sp([]InSpec{in(0)}, 5, 4, 3))
	wone("worker-triple-spend-conflict-on-later-input", corpusBase(p, 6, 6, 6), dc, sp([]InSpec{in(0)}, 5), sp([]InSpec{in(1), in(0)}, 6, 5),
		sp([]InSpec{in(2), in(0)}, 6, 5), sp([]InSpec{in(1)}, 5))
	wone("worker-triple-spend-conflict-on-first-input", corpusBase(p, 6, 6, 6), dc, sp([]InSpec{in(0), in(1)}, 6, 5), sp([]InSpec{in(0), in(2)}, 6, 5),
		sp([]InSpec{in(0)}, 5), sp([]InSpec{in(2)}, 5))
	wone("worker-two-conflict-groups", corpusBase(p, 6, 6), dc, sp([]InSpec{in(0)}, 5), sp([]InSpec{in(1)}, 5), sp([]InSpec{in(0)}, 5, 4),
		sp([]InSpec{in(1)}, 5, 4), sp([]InSpec{in(1)}, 5, 3), sp([]InSpec{in(0)}, 5, 3))
	wone("worker-spend-twice-in-tx-between-spenders", corpusBase(p, 6), dc, sp([]InSpec{in(0)}, 5), dbl, sp([]InSpec{in(0)}, 5, 4))
	wone("worker-spend-twice-in-tx-then-spender", corpusBase(p, 6), dc, dbl, sp([]InSpec{in(0)}, 5, 4), sp([]InSpec{in(0)}, 5, 3))
	// a spender rejected for another reason (output denomination / fee / ETX limit) between two spenders
	wone("worker-triple-spend-middle-fails-otherwise", corpusBase(p, 6, 6), dc, sp([]InSpec{in(0)}, 5), sp([]InSpec{in(0), in(1)}, 15),
		sp([]InSpec{in(0)}, 5, 4), sp([]InSpec{in(1)}, 6), sp([]InSpec{in(0)}, 4))
	wone("worker-triple-spend-etx-limit", corpusBase(p, 6, 6), lr, sp([]InSpec{in(0)}, 5), tx([]InSpec{in(0)}, []OutSpec{out(4, p.extRegion[0]), out(4, p.extRegion[1])}),
		sp([]InSpec{in(0)}, 5, 4))
	// the pool's ownership check is per input too
	wone("worker-pool-repeated-key-foreign-input", corpusBase(p, 6, 6), dc, tx([]InSpec{in(0), fk(1, 0)}, []OutSpec{out(6, fa()), out(5, fa())}))
	wone("worker-pool-repeated-key-own-outputs", ownTwice, dc, tx([]InSpec{fk(0, 0), fk(1, 0)}, []OutSpec{out(6, fa()), out(5, fa())}))
	wone("worker-merge-after-failure", mergeBase, dc, tx([]InSpec{{RefTx: -1, Hash: hashN(77), Key: 0}}, []OutSpec{out(4, fa())}), mg)
	wone("worker-merge-after-retry-class-failure", mergeBase, lr,
		tx([]InSpec{in(0)}, []OutSpec{out(4, p.extRegion[0]), out(4, p.extRegion[1])}), mg)
	wone("worker-conversion", corpusBase(p, 6), dc, cv)
	wone("worker-etx", corpusBase(p, 6, 6), dc, tx([]InSpec{in(0)}, []OutSpec{out(5, p.extRegion[0])}), tx([]InSpec{in(1)}, []OutSpec{out(5, p.extPrime[0])}))
	wone("worker-etx-ineligible-leaks-gas", corpusBase(p, 6, 6), ie, tx([]InSpec{in(0)}, []OutSpec{out(5, p.extRegion[0])}), tx([]InSpec{in(1)}, []OutSpec{out(5, fa())}))
	g4 := dc
	g4.GasLimit = 40000
	wone("worker-gas-limit", corpusBase(p, 6, 6), g4, tx([]InSpec{in(0)}, []OutSpec{out(5, p.extRegion[0])}), tx([]InSpec{in(1)}, []OutSpec{out(5, fa())}))
	wone("worker-locked", lb, dc, tx([]InSpec{in(0)}, []OutSpec{out(5, fa())}))
	wone("worker-quai-owned-entry", qb, dc, tx([]InSpec{{RefTx: -1, Hash: hashN(1), Key: nKeys}}, []OutSpec{out(5, fa())}))
	// ---- the node location: what is "local" is decided by region AND zone.  A key / an entry / a target whose
	// address lies in another zone of the region, in another region with the same zone number, and (nodes whose
	// region and zone number differ) at the location with the two exchanged.
	fz := nKeys + 1 // key whose Qi address lies in the next zone of the region
	fzBase := []UtxoSpec{{Hash: hashN(1), Den: 6, Owner: p.ki[fz].addr}, {Hash: hashN(2), Den: 6, Owner: p.ki[0].addr}}
	one("entry-owned-in-other-zone-spent-with-its-key", true, fzBase, dc, tx([]InSpec{{RefTx: -1, Hash: hashN(1), Key: fz}}, []OutSpec{out(5, fa())}))
	one("entry-owned-in-other-zone-spent-with-local-key", true, fzBase, dc, tx([]InSpec{{RefTx: -1, Hash: hashN(1), Key: 0}}, []OutSpec{out(5, fa())}))
	one("etx-same-zone-number-other-region", true, corpusBase(p, 6), dc, tx([]InSpec{in(0)}, []OutSpec{out(5, p.extPrime[0]), out(4, fa())}))
	cvr := tx([]InSpec{in(0)}, []OutSpec{out(5, p.quaiLocal[0]), out(4, fa())})
	cvr.Data = append([]byte{0, 50}, p.extRegion[0]...) // refund address in the Qi ledger of another zone
	one("conversion-refund-in-other-zone", true, corpusBase(p, 6), dc, cvr)
	cvx := tx([]InSpec{in(0)}, []OutSpec{out(5, p.extQuai), out(4, fa())})
	cvx.Data = convData
	one("conversion-target-in-other-zone", true, corpusBase(p, 6), dc, cvx)
	if p.swapQi != nil {
		one("etx-to-swapped-location", true, corpusBase(p, 6), dc, tx([]InSpec{in(0)}, []OutSpec{out(5, p.swapQi), out(4, fa())}))
		cvs := tx([]InSpec{in(0)}, []OutSpec{out(5, p.swapQuai), out(4, fa())})
		cvs.Data = convData
		one("conversion-target-at-swapped-location", true, corpusBase(p, 6), dc, cvs)
		ws := tx([]InSpec{in(0)}, []OutSpec{out(5, p.quaiLocal[0])})
		ws.Data = p.swapQuai
		one("wrapping-owner-at-swapped-location", true, corpusBase(p, 6), dc, ws)
		es := dc
		es.Elig = allElig()
		pos := int(p.swapQi[0]>>4)*16 + int(p.swapQi[0]&15)
		es.Elig[pos/8] &^= 1 << (pos % 8) // every slice eligible except the swapped one
		one("etx-swapped-location-ineligible", true, corpusBase(p, 6), es, tx([]InSpec{in(0)}, []OutSpec{out(5, p.swapQi)}))
		eo := dc
		eo.Elig = make([]byte, 32)
		pos = int(p.extPrime[0][0]>>4)*16 + int(p.extPrime[0][0]&15)
		eo.Elig[pos/8] |= 1 << (pos % 8) // only the target slice is eligible
		one("etx-only-target-slice-eligible", true, corpusBase(p, 6), eo, tx([]InSpec{in(0)}, []OutSpec{out(5, p.extPrime[0])}))
		wone("worker-etx-to-swapped-location", corpusBase(p, 6, 6), dc, tx([]InSpec{in(0)}, []OutSpec{out(5, p.swapQi)}), tx([]InSpec{in(1)}, []OutSpec{out(5, fa())}))
	}
	// ---- node restart between blocks (disk backends are closed and reopened): a spent output stays spent, a
	// created one stays spendable, a rejected block left nothing behind
	rs := func(name string, base []UtxoSpec, blocks ...[]TxSpec) {
		s := &Scenario{Kind: "proc", Name: name, Tracks: true, Restart: true, Keys: p.keys, Base: base}
		for _, b := range blocks {
			s.Blocks = append(s.Blocks, BlockSpec{Ctx: dc, Txs: b})
		}
		cs = append(cs, s)
	}
	rs("restart-same-outpoint-two-blocks", corpusBase(p, 6), []TxSpec{t1}, []TxSpec{t2})
	rs("restart-spend-created-next-block", corpusBase(p, 6), []TxSpec{c1}, []TxSpec{c2}, []TxSpec{c3})
	rs("restart-after-rejected-block", corpusBase(p, 6, 6), []TxSpec{t1, t2}, []TxSpec{t1}, []TxSpec{tx([]InSpec{in(1)}, []OutSpec{out(5, fa())}), t2})
	rs("restart-created-spent-in-block-then-respent", corpusBase(p, 6), []TxSpec{c1, c2}, []TxSpec{c3})
	cs = append(cs, poolCorpus(p, r)...)
	for _, s := range cs {
		s.Loc = p.locBytes()
	}
	return cs
}

// poolCorpus: the pool's senders cache in the authorisation path.  A hit makes StateProcessor.Process call
// ProcessQiTx with checkSig=false, so an entry may exist only for a transaction whose signature was verified.
// Gossip phases (transactions handed to the real pool; Same = the identical signed transaction again) alternate
// with processed blocks whose checkSig comes from the real cache.  F = a spend carrying the OWNER's public key
// (ownership test passes) signed by somebody else / over another digest / by a strict subset of the carried keys.
func poolCorpus(p *pool, r *hlib.Rng) []*Scenario {
	var cs []*Scenario
	fa := func() []byte { return p.freshQi(r) }
	dc := defaultCtx()
	tx := func(sign string, ins []InSpec, dens ...uint8) TxSpec {
		var os []OutSpec
		for _, d := range dens {
			os = append(os, out(d, fa()))
		}
		return TxSpec{Ins: ins, Outs: os, CheckSig: true, Sign: sign, Note: "sign=" + sign}
	}
	gsp := func(txs ...TxSpec) BlockSpec { return BlockSpec{Ctx: dc, Txs: txs, Gossip: true} }
	blk := func(txs ...TxSpec) BlockSpec { return BlockSpec{Ctx: dc, Txs: txs} }
	same := func(i int) TxSpec { return TxSpec{Same: i, Sign: "ok"} }
	via := func(t TxSpec, v string) TxSpec { t.Via = v; return t }
	bat := func(t TxSpec, b int) TxSpec { t.Batch = b; return t }
	pone := func(name string, base []UtxoSpec, blocks ...BlockSpec) {
		cs = append(cs, &Scenario{Kind: "pool", Name: name, Tracks: true, Keys: p.keys, Base: base, Blocks: blocks})
	}
	b1, b2, b3 := corpusBase(p, 6), corpusBase(p, 6, 6), corpusBase(p, 6, 6, 6)
	// the legitimate use of the cache: verified by the pool, not verified again in the block
	pone("pool-valid-then-block", b1, gsp(tx("ok", []InSpec{in(0)}, 5, 4)), blk(same(1)))
	pone("pool-valid-musig-then-block", b2, gsp(tx("ok", []InSpec{in(0), in(1)}, 6, 5)), blk(same(1)))
	// rejected by the pool for its signature, then the identical transaction inside a block; every entry point
	for _, v := range []string{"", "sync", "locals", "reorg"} {
		for _, sg := range []string{"other", "bad"} {
			pone(fmt.Sprintf("pool-forged-%s-via-%q-then-block", sg, v), b1, gsp(via(tx(sg, []InSpec{in(0)}, 5, 4), v)), blk(same(1)))
		}
	}
	pone("pool-valid-via-reorg-then-block", b1, gsp(via(tx("ok", []InSpec{in(0)}, 5, 4), "reorg")), blk(same(1)))
	pone("pool-forged-musig-drop-last-then-block", b2, gsp(tx("drop-last", []InSpec{in(0), in(1)}, 6, 5)), blk(same(1)))
	pone("pool-forged-musig-drop-first-then-block", b3, gsp(tx("drop-first", []InSpec{in(0), in(1), in(2)}, 6, 6, 5)), blk(same(1)))
	// seen twice / three times (a copy is answered from what the first sight left behind)
	pone("pool-forged-gossiped-twice-then-block", b1, gsp(tx("other", []InSpec{in(0)}, 5, 4)), gsp(same(1)), blk(same(1)))
	pone("pool-forged-gossiped-thrice-one-phase-then-block", b1, gsp(tx("other", []InSpec{in(0)}, 5, 4), same(1), via(same(1), "sync")), blk(same(1)))
	// orders: forged then the owner's valid spend of the same outpoint (another hash), and the other way round
	pone("pool-forged-then-valid-twin-block-carries-forged", b1, gsp(tx("other", []InSpec{in(0)}, 5, 4)), gsp(tx("ok", []InSpec{in(0)}, 5, 4)), blk(same(1)))
	pone("pool-forged-then-valid-twin-block-carries-valid", b1, gsp(tx("other", []InSpec{in(0)}, 5, 4)), gsp(tx("ok", []InSpec{in(0)}, 5, 4)), blk(same(2)))
	pone("pool-valid-then-forged-twin-block-carries-forged", b1, gsp(tx("ok", []InSpec{in(0)}, 5, 4)), gsp(tx("bad", []InSpec{in(0)}, 5, 3)), blk(same(2)))
	pone("pool-valid-gossiped-forged-never-gossiped", b1, gsp(tx("ok", []InSpec{in(0)}, 5, 4)), blk(tx("other", []InSpec{in(0)}, 5, 3)), blk(same(1)))
	// one call carrying valid and forged transactions
	pone("pool-forged-inside-a-batch", b3, gsp(bat(tx("ok", []InSpec{in(0)}, 5), 1), bat(tx("other", []InSpec{in(1)}, 5), 1), bat(tx("ok", []InSpec{in(2)}, 5), 1)),
		blk(same(1), same(2), same(3)))
	pone("pool-forged-inside-a-batch-block-carries-forged-only", b3, gsp(bat(tx("ok", []InSpec{in(0)}, 5), 1), bat(tx("bad", []InSpec{in(1)}, 5), 1)), blk(same(2)))
	// refused by the pool for another reason first (inputs / outputs), signature never looked at
	fk := func(i, key int) InSpec { return InSpec{RefTx: -1, Hash: hashN(byte(i + 1)), Index: 0, Key: key} }
	pone("pool-wrong-key-signed-by-carried-key-then-block", b2, gsp(tx("ok", []InSpec{fk(1, 0)}, 5)), blk(same(1)))
	pone("pool-wrong-key-forged-then-block", b2, gsp(tx("other", []InSpec{fk(1, 0)}, 5)), blk(same(1)))
	fo := tx("other", []InSpec{in(0)}, 15)
	pone("pool-forged-and-bad-output-then-block", b1, gsp(fo), blk(same(1)))
	fz := tx("other", []InSpec{in(0)}, 6)
	pone("pool-forged-and-zero-fee-then-block", b1, gsp(fz), blk(same(1)))
	// inputs unknown to the pool, forged
	cr := TxSpec{Ins: []InSpec{in(0)}, Outs: []OutSpec{out(5, p.ki[1].addr), out(4, fa())}, CheckSig: true, Sign: "ok"}
	pone("pool-forged-unknown-outpoint-then-block", b1, gsp(tx("other", []InSpec{{RefTx: -1, Hash: hashN(77), Index: 0, Key: 0}}, 4)), blk(same(1)))
	// gossip between blocks: the pool validates against the database after block 1
	fu2 := TxSpec{Ins: []InSpec{{RefTx: 0, Index: 0, Key: 1}}, Outs: []OutSpec{out(4, fa()), out(4, fa())}, CheckSig: true, Sign: "other"}
	vu2 := TxSpec{Ins: []InSpec{{RefTx: 0, Index: 0, Key: 1}}, Outs: []OutSpec{out(4, fa()), out(3, fa())}, CheckSig: true, Sign: "ok"}
	pone("pool-block-then-forged-spend-of-its-output-then-block", b1, blk(cr), gsp(fu2, vu2), blk(same(2)))
	pone("pool-block-then-valid-spend-of-its-output-then-block", b1, blk(cr), gsp(fu2, vu2), blk(same(3)))
	// the forged transaction next to an unrelated valid one, and after an unrelated accepted block
	pone("pool-forged-second-in-block", b2, gsp(tx("other", []InSpec{in(1)}, 5, 4), tx("ok", []InSpec{in(0)}, 5)), blk(same(2), same(1)))
	pone("pool-forged-in-second-block", b2, gsp(tx("other", []InSpec{in(1)}, 5, 4), tx("ok", []InSpec{in(0)}, 5)), blk(same(2)), blk(same(1)))
	// a gossiped valid transaction and a forged re-spend of the same outpoint in one block
	pone("pool-valid-cached-plus-forged-respend-in-block", b1, gsp(tx("ok", []InSpec{in(0)}, 5, 4)), blk(same(1), tx("other", []InSpec{in(0)}, 5, 3)))
	return cs
}

// poolify turns a processing scenario into a pool scenario: before each block some of its transactions are
// gossiped to the pool -- as they are, or as a twin that carries the same keys but is not signed by them -- and the
// block then carries the gossiped object (Same), the twin, or the original.
func poolify(r *hlib.Rng, s *Scenario, rep *hlib.Report) *Scenario {
	ns := &Scenario{Kind: "pool", Name: s.Name, Tracks: true, Keys: s.Keys, Base: s.Base, Loc: s.Loc}
	ctx0 := s.Blocks[0].Ctx
	remap := map[int]int{}
	old, cur := 0, 0
	vias := []string{"", "", "", "sync", "locals", "reorg", "reorg"}
	forge := []string{"other", "bad", "drop-last", "drop-first"}
	for _, b := range s.Blocks {
		g := BlockSpec{Ctx: ctx0, Gossip: true}
		nb := BlockSpec{Ctx: b.Ctx}
		batch := 0
		if r.Chance(40) {
			batch = 1
		}
		blockStart := old
		for _, t := range b.Txs {
			t.CheckSig = true
			mode := r.Pick(4, 5, 3, 2, 2)
			for _, in := range t.Ins {
				if in.RefTx >= blockStart {
					mode = 0 // spends an output created in this very block: cannot be built before its creator
				}
			}
			switch mode {
			case 0: // not gossiped
				nb.Txs = append(nb.Txs, t)
				rep.Count("poolify:not gossiped")
			case 1: // gossiped as it is, the block carries the same object
				t.Via, t.Batch = vias[r.Intn(len(vias))], batch
				g.Txs = append(g.Txs, t)
				nb.Txs = append(nb.Txs, TxSpec{Same: cur + len(g.Txs), Sign: "ok", Note: t.Note})
				rep.Count("poolify:gossiped, block carries it")
			case 2: // a twin not signed by the carried keys is gossiped and carried by the block
				t.Sign, t.Note = forge[r.Intn(len(forge))], "forged-twin"
				t.Via, t.Batch = vias[r.Intn(len(vias))], batch
				g.Txs = append(g.Txs, t)
				if r.Chance(30) {
					g.Txs = append(g.Txs, TxSpec{Same: cur + len(g.Txs), Sign: "ok", Via: vias[r.Intn(len(vias))]})
				}
				nb.Txs = append(nb.Txs, TxSpec{Same: cur + len(g.Txs), Sign: "ok", Note: "forged-twin"})
				rep.Count("poolify:forged twin gossiped, block carries it")
			case 3: // the forged twin and the original are gossiped (either order), the block carries the twin
				f := t
				f.Sign, f.Note = forge[r.Intn(len(forge))], "forged-twin"
				f.Via, f.Batch = vias[r.Intn(len(vias))], batch
				t.Via, t.Batch = vias[r.Intn(len(vias))], batch
				fi := 0
				if r.Chance(50) {
					g.Txs = append(g.Txs, f, t)
					fi = cur + len(g.Txs) - 1
				} else {
					g.Txs = append(g.Txs, t, f)
					fi = cur + len(g.Txs)
				}
				nb.Txs = append(nb.Txs, TxSpec{Same: fi, Sign: "ok", Note: "forged-twin"})
				rep.Count("poolify:forged twin and original gossiped, block carries the twin")
			default: // the original is gossiped, the block carries a forged twin the pool never saw
				f := t
				f.Sign, f.Note = forge[r.Intn(len(forge))], "forged-twin"
				t.Via, t.Batch = vias[r.Intn(len(vias))], batch
				g.Txs = append(g.Txs, t)
				nb.Txs = append(nb.Txs, f)
				rep.Count("poolify:original gossiped, block carries a forged twin")
			}
		}
		if len(g.Txs) > 0 {
			ns.Blocks = append(ns.Blocks, g)
			cur += len(g.Txs)
		}
		for range b.Txs {
			remap[old] = cur
			old++
			cur++
		}
		ns.Blocks = append(ns.Blocks, nb)
	}
	for bi := range ns.Blocks {
		for ti := range ns.Blocks[bi].Txs {
			t := &ns.Blocks[bi].Txs[ti]
			if t.Same > 0 {
				continue
			}
			ins := append([]InSpec{}, t.Ins...)
			for ii := range ins {
				if ins[ii].RefTx >= 0 {
					ins[ii].RefTx = remap[ins[ii].RefTx]
				}
			}
			t.Ins = ins
		}
	}
	return ns
}

// floorBaseFee sets the base fee of block 0 so that a fee of feeQits is exactly at the floor (+delta above it).
func floorBaseFee(s *Scenario, feeQits int64, delta int64) {
	c := s.Blocks[0].Ctx
	c.BaseFee = 1
	b := buildCtx(c)
	keys := make([]keyInfo, len(s.Keys))
	for i, k := range s.Keys {
		keys[i] = mkKey(k)
	}
	txs := buildTxs(s, keys, hlib.NewRng(1))
	req := int64(txs[0][0].intrinsic)
	// feeQuai = R*fee/Q ; floor = req*baseFee ; choose baseFee = feeQuai/req (+delta)
	feeQuai := new(bigInt).Mul(b.R, newBig(feeQits))
	feeQuai.Quo(feeQuai, b.Q)
	bf := new(bigInt).Quo(feeQuai, newBig(req))
	bf.Add(bf, newBig(delta))
	if !bf.IsUint64() || bf.Sign() == 0 {
		panic("floorBaseFee: base fee out of range")
	}
	s.Blocks[0].Ctx.BaseFee = bf.Uint64()
}

// ---------- random scenarios ----------

type mirrorEntry struct {
	ref   InSpec
	den   uint8
	owner int // key index, -1 if nobody in the pool owns it
	lock  uint64
}

type gen struct {
	r      *hlib.Rng
	p      *pool
	mirror []mirrorEntry // the generator's own idea of the unspent set
	spent  []mirrorEntry // entries consumed by the expected-valid transactions of the current block, in order
	ntx    int
}

func (g *gen) pickDen() uint8 {
	switch g.r.Pick(6, 2, 1) {
	case 0:
		return uint8(3 + g.r.Intn(8)) // 3..10
	case 1:
		return uint8(g.r.Intn(3))
	default:
		return uint8(11 + g.r.Intn(4))
	}
}

func (g *gen) base() []UtxoSpec {
	n := 3 + g.r.Intn(8)
	var b []UtxoSpec
	for i := 0; i < n; i++ {
		h := g.r.Bytes(32)
		idx := uint16(g.r.Intn(3))
		if g.r.Chance(3) {
			idx = 65535
		}
		k := g.r.Intn(nKeys)
		u := UtxoSpec{Hash: h, Index: idx, Den: g.pickDen(), Owner: g.p.ki[k].addr}
		if g.r.Chance(8) {
			u.Lock = 990 + uint64(g.r.Intn(20))
		}
		if g.r.Chance(2) {
			u.Den = 15 + uint8(g.r.Intn(3))
		}
		b = append(b, u)
		g.mirror = append(g.mirror, mirrorEntry{ref: InSpec{RefTx: -1, Hash: h, Index: idx, Key: k}, den: u.Den, owner: k, lock: u.Lock})
		// a second output of the same transaction hash
		if g.r.Chance(25) {
			k2 := g.r.Intn(nKeys)
			u2 := UtxoSpec{Hash: h, Index: idx + 1, Den: g.pickDen(), Owner: g.p.ki[k2].addr}
			if idx != 65535 {
				b = append(b, u2)
				g.mirror = append(g.mirror, mirrorEntry{ref: InSpec{RefTx: -1, Hash: h, Index: idx + 1, Key: k2}, den: u2.Den, owner: k2})
			}
		}
	}
	return b
}

// ctxUsable reports whether the header built from c gives positive rewards (the model takes R, Q as naturals).
func ctxUsable(c CtxSpec) (ok bool) {
	defer func() {
		if recover() != nil {
			ok = false
		}
	}()
	buildCtx(c)
	return true
}

func (g *gen) ctx() CtxSpec {
	c := g.ctx0()
	if !ctxUsable(c) {
		d := defaultCtx()
		d.Elig, d.RLim, d.PLim, d.GasLimit = c.Elig, c.RLim, c.PLim, c.GasLimit
		return d
	}
	return c
}

func (g *gen) ctx0() CtxSpec {
	c := defaultCtx()
	c.Height = 1000
	switch g.r.Pick(10, 3, 3, 2, 2, 2) {
	case 0:
	case 1:
		c.PTN = uint64(g.r.Intn(1000000))
	case 2:
		c.PTN = params.QiWrappingChangeBlock - 1 - uint64(g.r.Intn(1000))
	case 3:
		c.PTN = params.KawPowForkBlock + uint64(g.r.Intn(int(params.KQuaiChangeHoldInterval)))
	case 4:
		c.PTN = params.ShaEquivalentDifficultyForkBlock + uint64(g.r.Intn(int(params.KQuaiChangeHoldInterval)))
	case 5:
		c.PTN = params.ShaEquivalentDifficultyForkBlock + params.KQuaiChangeHoldInterval + uint64(g.r.Intn(100000))
	}
	if g.r.Chance(15) {
		c.Scaling = 15 + float64(g.r.Intn(60))/10
	}
	if g.r.Chance(10) {
		c.GasLimit = uint64(20000 + g.r.Intn(120000))
	}
	if g.r.Chance(10) {
		c.RLim = uint64(g.r.Intn(3)) * params.TxGas
	}
	if g.r.Chance(10) {
		c.PLim = uint64(g.r.Intn(8)) * params.TxGas
	}
	if g.r.Chance(20) && ctxUsable(c) {
		// a base fee that puts the fee floor of a plain transaction at a few qits
		b := buildCtx(c)
		perQit := new(bigInt).Quo(b.R, b.Q)
		bf := new(bigInt).Quo(perQit, newBig(int64(4000+g.r.Intn(20000))))
		if bf.IsUint64() && bf.Sign() > 0 {
			c.BaseFee = bf.Uint64()
		}
	}
	if g.r.Chance(8) {
		e := allElig()
		e[0] = byte(g.r.Intn(256))
		e[2] = byte(g.r.Intn(256))
		e[4] = byte(g.r.Intn(256))
		c.Elig = e
	}
	return c
}

// splitDen returns denominations whose values add up to the value of d (one level down), or d itself.
func (g *gen) splitDen(d uint8) []uint8 {
	if d == 0 || d > types.MaxDenomination || g.r.Chance(40) {
		return []uint8{d}
	}
	ratio := new(bigInt).Quo(types.Denominations[d], types.Denominations[d-1]).Int64()
	out := make([]uint8, ratio)
	for i := range out {
		out[i] = d - 1
	}
	if g.r.Chance(30) {
		// split one of the pieces again
		more := g.splitDen(d - 1)
		out = append(out[1:], more...)
	}
	return out
}

// spendable lists the indices of mirror entries a pool key can spend at this height.
func (g *gen) spendable(height uint64) []int {
	var cand []int
	for i, m := range g.mirror {
		if m.owner >= 0 && m.lock <= height && m.den <= types.MaxDenomination {
			cand = append(cand, i)
		}
	}
	return cand
}

// validTx builds a transaction the generator expects to be accepted; nil if nothing is spendable.
func (g *gen) validTx(height uint64, firstInBlock bool) *TxSpec {
	cand := g.spendable(height)
	if len(cand) == 0 {
		return nil
	}
	nin := 1 + g.r.Pick(6, 3, 1)
	if nin > len(cand) {
		nin = len(cand)
	}
	// choose distinct entries
	for i := 0; i < nin; i++ {
		j := i + g.r.Intn(len(cand)-i)
		cand[i], cand[j] = cand[j], cand[i]
	}
	chosen := make([]mirrorEntry, nin)
	for i, ci := range cand[:nin] {
		chosen[i] = g.mirror[ci]
	}
	return g.buildFrom(chosen, firstInBlock)
}

// respendTx builds an otherwise well-formed transaction that consumes again an outpoint already consumed by an
// expected-valid transaction of the current block (biased towards the FIRST consumed one, so that three and
// more mutually conflicting transactions pile up on one outpoint), alone or together with still unspent
// entries placed before or after it.
func (g *gen) respendTx(height uint64) *TxSpec {
	if len(g.spent) == 0 {
		return nil
	}
	x := g.spent[0]
	if g.r.Chance(35) {
		x = g.spent[g.r.Intn(len(g.spent))]
	}
	chosen := []mirrorEntry{x}
	if cand := g.spendable(height); len(cand) > 0 && g.r.Chance(35) {
		y := g.mirror[cand[g.r.Intn(len(cand))]]
		if g.r.Chance(50) {
			chosen = []mirrorEntry{y, x}
		} else {
			chosen = []mirrorEntry{x, y}
		}
	}
	if g.r.Chance(10) && len(g.spent) >= 2 { // two already consumed outpoints
		chosen = append(chosen, g.spent[len(g.spent)-1])
		if chosen[0].ref.RefTx == chosen[len(chosen)-1].ref.RefTx && chosen[0].ref.Index == chosen[len(chosen)-1].ref.Index && string(chosen[0].ref.Hash) == string(chosen[len(chosen)-1].ref.Hash) {
			chosen = chosen[:len(chosen)-1]
		}
	}
	return g.buildFrom(chosen, false)
}

// buildFrom builds a transaction that consumes exactly the given entries (with their owners' keys), outputs
// worth the inputs minus the smallest piece.
func (g *gen) buildFrom(chosen []mirrorEntry, firstInBlock bool) *TxSpec {
	t := &TxSpec{CheckSig: g.r.Chance(70), Sign: "ok"}
	usedOwner := map[int]bool{}
	var dens []uint8
	for _, m := range chosen {
		t.Ins = append(t.Ins, m.ref)
		usedOwner[m.owner] = true
		dens = append(dens, g.splitDen(m.den)...)
	}
	// fee: drop the smallest piece (split first when there is a single piece worth more than one qit)
	if len(dens) == 1 && dens[0] > 0 {
		d := dens[0]
		ratio := new(bigInt).Quo(types.Denominations[d], types.Denominations[d-1]).Int64()
		dens = dens[:0]
		for i := int64(0); i < ratio; i++ {
			dens = append(dens, d-1)
		}
	}
	mi := 0
	for i, d := range dens {
		if d < dens[mi] {
			mi = i
		}
	}
	dens = append(dens[:mi], dens[mi+1:]...)
	if len(dens) > 12 {
		dens = dens[:12]
	}
	// merge-up variant for the first transaction of a block
	if firstInBlock && len(dens) >= 2 && g.r.Chance(10) {
		// replace two equal pieces d,d by one piece of d+1 when the value matches
		for i := 0; i+1 < len(dens); i++ {
			d := dens[i]
			if dens[i+1] == d && d < types.MaxDenomination && new(bigInt).Mul(types.Denominations[d], newBig(2)).Cmp(types.Denominations[d+1]) == 0 {
				dens = append(append(dens[:i:i], d+1), dens[i+2:]...)
				break
			}
		}
	}
	kind := g.r.Pick(14, 3, 2, 2, 2) // plain, region etx, prime etx, conversion, wrapping
	special := -1
	if len(dens) > 0 {
		special = g.r.Intn(len(dens))
	}
	for i, d := range dens {
		var a []byte
		// a spendable owner (a pool key not among this transaction's input owners) or a fresh address
		if g.r.Chance(55) {
			k := g.r.Intn(nKeys)
			if !usedOwner[k] {
				a = g.p.ki[k].addr
				usedOwner[k] = true
			}
		}
		if a == nil {
			a = g.p.freshQi(g.r)
		}
		if i == special {
			switch kind {
			case 1:
				a = g.p.extRegion[g.r.Intn(2)]
			case 2:
				a = g.p.extPrime[g.r.Intn(2)]
			case 3:
				a = g.p.quaiLocal[0]
				t.Data = append([]byte{0, byte(g.r.Intn(100))}, g.p.ki[g.r.Intn(nKeys)].addr...)
			case 4:
				a = g.p.quaiLocal[0]
				t.Data = g.p.quaiLocal[1]
			}
		}
		t.Outs = append(t.Outs, OutSpec{Den: d, Addr: a})
	}
	return t
}

// commitTx updates the generator's mirror as if t (the idx-th transaction of the scenario) was accepted.
func (g *gen) commitTx(t *TxSpec, idx int, ptn uint64) {
	for _, in := range t.Ins {
		for i, m := range g.mirror {
			if m.ref.RefTx == in.RefTx && m.ref.Index == in.Index && string(m.ref.Hash) == string(in.Hash) {
				g.spent = append(g.spent, m)
				g.mirror = append(g.mirror[:i:i], g.mirror[i+1:]...)
				break
			}
		}
	}
	for i, o := range t.Outs {
		if o.Addr[0] != g.p.loc.BytePrefix() || o.Addr[1] <= 127 {
			continue
		}
		owner := -1
		for k := 0; k < nKeys; k++ {
			if string(g.p.ki[k].addr) == string(o.Addr) {
				owner = k
			}
		}
		g.mirror = append(g.mirror, mirrorEntry{ref: InSpec{RefTx: idx, Index: uint16(i), Key: owner}, den: o.Den, owner: owner})
	}
}

// mutate turns an expected-valid transaction into an adversarial one; returns the kind.
func (g *gen) mutate(t *TxSpec, prev []TxSpec) string {
	kinds := []string{"dup-input", "reuse-earlier-input", "wrong-key", "bad-sig", "other-sig", "den-high", "out-exceeds", "zero-fee",
		"addr-reuse", "dup-out-addr", "bad-chain", "bad-data", "out-lock", "quai-elsewhere", "unknown-outpoint", "locked", "no-inputs", "merge-up", "two-conv-targets",
		"repeat-key-foreign", "repeat-key-foreign", "sig-subset"}
	k := kinds[g.r.Intn(len(kinds))]
	switch k {
	case "dup-input":
		j := g.r.Intn(len(t.Ins))
		t.Ins = append(t.Ins, t.Ins[j])
		if g.r.Chance(50) && len(t.Outs) > 0 {
			t.Outs = append(t.Outs, OutSpec{Den: t.Outs[0].Den, Addr: g.p.freshQi(g.r)})
		}
	case "reuse-earlier-input":
		if len(prev) == 0 {
			return "none"
		}
		pi := prev[g.r.Intn(len(prev))]
		if len(pi.Ins) == 0 {
			return "none"
		}
		t.Ins[g.r.Intn(len(t.Ins))] = pi.Ins[g.r.Intn(len(pi.Ins))]
	case "wrong-key":
		j := g.r.Intn(len(t.Ins))
		t.Ins[j].Key = (t.Ins[j].Key + 1 + g.r.Intn(nKeys-1)) % nKeys
	case "bad-sig":
		t.Sign = "bad"
	case "other-sig":
		t.Sign = "other"
	case "den-high":
		if len(t.Outs) == 0 {
			return "none"
		}
		t.Outs[g.r.Intn(len(t.Outs))].Den = uint8(15 + g.r.Intn(241))
	case "out-exceeds":
		t.Outs = append(t.Outs, OutSpec{Den: 14, Addr: g.p.freshQi(g.r)})
	case "zero-fee":
		// put the dropped piece back is not possible here; add outputs of one qit until equal is too long: use a copy of the inputs' worth
		t.Outs = nil
		for range t.Ins {
			t.Outs = append(t.Outs, OutSpec{Den: 14, Addr: g.p.freshQi(g.r)})
		}
	case "addr-reuse":
		if len(t.Outs) == 0 {
			return "none"
		}
		t.Outs[g.r.Intn(len(t.Outs))].Addr = g.p.ki[t.Ins[0].Key].addr
	case "dup-out-addr":
		if len(t.Outs) < 2 {
			return "none"
		}
		t.Outs[1].Addr = t.Outs[0].Addr
	case "bad-chain":
		t.BadChain = true
	case "bad-data":
		t.Data = g.r.Bytes(1 + g.r.Intn(30))
	case "out-lock":
		if len(t.Outs) == 0 {
			return "none"
		}
		t.Outs[g.r.Intn(len(t.Outs))].Lock = 1 + uint64(g.r.Intn(5))
	case "quai-elsewhere":
		if len(t.Outs) == 0 {
			return "none"
		}
		t.Outs[g.r.Intn(len(t.Outs))].Addr = g.p.extQuai
	case "unknown-outpoint":
		t.Ins[g.r.Intn(len(t.Ins))] = InSpec{RefTx: -1, Hash: g.r.Bytes(32), Index: uint16(g.r.Intn(2)), Key: g.r.Intn(nKeys)}
	case "locked":
		for _, m := range g.mirror {
			if m.lock > 1000 && m.owner >= 0 {
				t.Ins = append(t.Ins, m.ref)
				return k
			}
		}
		return "none"
	case "no-inputs":
		t.Ins = nil
		t.CheckSig = false
	case "merge-up":
		// many small outputs replaced by one large one of at most the same value is a merge: 2 x d -> d+1 where exact
		t.Outs = []OutSpec{{Den: 14, Addr: g.p.freshQi(g.r)}}
	case "repeat-key-foreign":
		// the holder of the key of input j adds somebody else's spendable output, carried with HIS key again, at a
		// later position, (half of the time) takes its value, and signs alone with the keys the inputs carry
		j := g.r.Intn(len(t.Ins))
		var cand []mirrorEntry
		for _, m := range g.mirror {
			dup := false
			for _, in := range t.Ins {
				if m.ref.RefTx == in.RefTx && m.ref.Index == in.Index && string(m.ref.Hash) == string(in.Hash) {
					dup = true
				}
			}
			if !dup && m.owner >= 0 && m.owner != t.Ins[j].Key && m.lock <= 1000 && m.den <= types.MaxDenomination {
				cand = append(cand, m)
			}
		}
		if len(cand) == 0 {
			return "none"
		}
		m := cand[g.r.Intn(len(cand))]
		stolen := m.ref
		stolen.Key = t.Ins[j].Key
		pos := j + 1 + g.r.Intn(len(t.Ins)-j)
		t.Ins = append(t.Ins[:pos:pos], append([]InSpec{stolen}, t.Ins[pos:]...)...)
		if g.r.Chance(50) {
			t.Outs = append(t.Outs, OutSpec{Den: m.den, Addr: g.p.freshQi(g.r)})
		}
	case "sig-subset":
		if len(t.Ins) < 2 {
			return "none"
		}
		t.CheckSig = true
		t.Sign = []string{"drop-last", "drop-first"}[g.r.Intn(2)]
	case "two-conv-targets":
		if len(t.Outs) < 2 {
			return "none"
		}
		t.Data = append([]byte{0, 1}, g.p.ki[0].addr...)
		t.Outs[0].Addr = g.p.quaiLocal[0]
		t.Outs[1].Addr = g.p.quaiLocal[1]
	}
	return k
}

func randomScenario(r *hlib.Rng, p *pool, kind string, rep *hlib.Report) *Scenario {
	g := &gen{r: r, p: p}
	s := &Scenario{Kind: kind, Tracks: true, Keys: p.keys, Loc: p.locBytes()}
	s.Base = g.base()
	nblocks := 1 + r.Pick(5, 3, 2)
	if kind == "worker" {
		nblocks = 1
	}
	if kind == "proc" && r.Chance(6) {
		s.Tracks = false
	}
	if kind == "proc" && nblocks > 1 && r.Chance(50) {
		s.Restart = true
	}
	idx := 0
	var prev []TxSpec
	for b := 0; b < nblocks; b++ {
		blk := BlockSpec{Ctx: g.ctx()}
		ntx := 1 + r.Pick(3, 4, 3, 2)
		conflicts := false // a pool with many transactions spending the same outpoints
		if kind == "worker" {
			ntx = 2 + r.Intn(5)
			if r.Chance(50) {
				conflicts = true
				ntx = 4 + r.Intn(5)
			}
		}
		g.spent = nil
		mutAt := -1
		if r.Chance(40) {
			mutAt = r.Intn(ntx)
		}
		snapshot := append([]mirrorEntry{}, g.mirror...)
		rejected := false
		for i := 0; i < ntx; i++ {
			var t *TxSpec
			mk := "valid"
			if conflicts && len(g.spent) > 0 && r.Chance(55) {
				t = g.respendTx(blk.Ctx.Height)
				mk = "conflict"
			}
			if t == nil {
				mk = "valid"
				t = g.validTx(blk.Ctx.Height, i == 0)
			}
			if t == nil {
				break
			}
			if mk == "valid" && (i == mutAt || (kind == "worker" && r.Chance(25))) {
				mk = g.mutate(t, prev)
			}
			if kind == "worker" {
				t.CheckSig = false
			}
			t.Note = mk
			rep.Count("gen:" + mk)
			if mk == "none" {
				mk = "valid"
				t.Note = mk
			}
			if mk == "valid" {
				g.commitTx(t, idx, blk.Ctx.PTN)
			} else if kind == "proc" {
				rejected = true
			}
			blk.Txs = append(blk.Txs, *t)
			prev = append(prev, *t)
			idx++
		}
		if rejected {
			g.mirror = snapshot // the block is expected to be rejected as a whole
		}
		s.Blocks = append(s.Blocks, blk)
	}
	return s
}

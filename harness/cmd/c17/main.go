// C17 harness: lock-step histories on leveldb, pebble, memorydb and the rawdb
// table wrapper over each.  Writes Coq cases (history + observed outputs per
// backend) for the model comparison and evaluates two model-independent
// monitors: a plain Go reference map, and cross-backend equality.
package main

import (
	"bytes"
	"fmt"
	"os"
	"path/filepath"
	"sort"
	"strings"

	"github.com/dominant-strategies/go-quai/common"
	"github.com/dominant-strategies/go-quai/core/rawdb"
	"github.com/dominant-strategies/go-quai/ethdb"
	"github.com/dominant-strategies/go-quai/ethdb/leveldb"
	"github.com/dominant-strategies/go-quai/ethdb/pebble"

	"verifharness/hlib"
)

type Op struct {
	K      string `json:"k"` // kind
	B      int    `json:"b,omitempty"`
	Key    []byte `json:"key,omitempty"`
	Val    []byte `json:"val,omitempty"`
	NilVal bool   `json:"nilval,omitempty"` // the value handed to Put is the nil slice (not an empty non-nil one)
	Prefix []byte `json:"prefix,omitempty"`
	Start  []byte `json:"start,omitempty"`
	Flag   bool   `json:"flag,omitempty"`
	Ws     []Op   `json:"ws,omitempty"` // direct writes issued while an iterator is open (DbIterDuring)
}

type Out struct {
	Kind    string   `json:"kind"` // none val bool list pend num
	Found   bool     `json:"found,omitempty"`
	Val     []byte   `json:"val,omitempty"`
	Bool    bool     `json:"bool,omitempty"`
	Keys    [][]byte `json:"keys,omitempty"`
	Vals    [][]byte `json:"vals,omitempty"`
	Deleted bool     `json:"deleted,omitempty"`
	Num     uint64   `json:"num,omitempty"`
}

func (o Out) String() string {
	switch o.Kind {
	case "none":
		return "none"
	case "val":
		return fmt.Sprintf("val(%v,%x)", o.Found, o.Val)
	case "bool":
		return fmt.Sprintf("bool(%v)", o.Bool)
	case "list":
		var sb strings.Builder
		for i := range o.Keys {
			fmt.Fprintf(&sb, "%x=%x,", o.Keys[i], o.Vals[i])
		}
		return "list(" + sb.String() + ")"
	case "pend":
		return fmt.Sprintf("pend(%v,%v,%x)", o.Deleted, o.Found, o.Val)
	case "num":
		return fmt.Sprintf("num(%d)", o.Num)
	}
	return "?"
}

// val is the slice handed to Put: nil when NilVal, otherwise non-nil (possibly empty); a JSON round trip (replay) keeps the difference
func (o Op) val() []byte {
	if o.NilVal {
		return nil
	}
	if o.Val == nil {
		return []byte{}
	}
	return o.Val
}

func coqB(b int) string { return hlib.CoqBool(b == 1) }

func (o Op) Coq() string {
	switch o.K {
	case "DbPut":
		return fmt.Sprintf("DbPut %s %s", hlib.CoqBytes(o.Key), hlib.CoqBytes(o.Val))
	case "DbDel":
		return "DbDel " + hlib.CoqBytes(o.Key)
	case "DbGet":
		return "DbGet " + hlib.CoqBytes(o.Key)
	case "DbHas":
		return "DbHas " + hlib.CoqBytes(o.Key)
	case "DbIter":
		return fmt.Sprintf("DbIter %s %s", hlib.CoqBytes(o.Prefix), hlib.CoqBytes(o.Start))
	case "BPut":
		return fmt.Sprintf("BPut %s %s %s", coqB(o.B), hlib.CoqBytes(o.Key), hlib.CoqBytes(o.Val))
	case "BDel":
		return fmt.Sprintf("BDel %s %s", coqB(o.B), hlib.CoqBytes(o.Key))
	case "BSetPending":
		return fmt.Sprintf("BSetPending %s %s", coqB(o.B), hlib.CoqBool(o.Flag))
	case "BGetPending":
		return fmt.Sprintf("BGetPending %s %s", coqB(o.B), hlib.CoqBytes(o.Key))
	case "BSize", "BWrite", "BReset", "BReplayDb", "BReplayB":
		return fmt.Sprintf("%s %s", o.K, coqB(o.B))
	case "DbCompact":
		return "DbCompact"
	case "DbIterDuring":
		ws := make([]string, len(o.Ws))
		for i, w := range o.Ws {
			if w.K == "DbPut" {
				ws[i] = fmt.Sprintf("WPut %s %s", hlib.CoqBytes(w.Key), hlib.CoqBytes(w.Val))
			} else {
				ws[i] = "WDel " + hlib.CoqBytes(w.Key)
			}
		}
		return fmt.Sprintf("DbIterDuring %s %s %s", hlib.CoqBytes(o.Prefix), hlib.CoqBytes(o.Start), hlib.CoqList(ws))
	}
	panic("op " + o.K)
}

func (o Out) Coq() string {
	switch o.Kind {
	case "none":
		return "ONone"
	case "val":
		return "OVal " + hlib.CoqOptBytes(o.Val, o.Found)
	case "bool":
		return "OBool " + hlib.CoqBool(o.Bool)
	case "list":
		items := make([]string, len(o.Keys))
		for i := range o.Keys {
			items[i] = hlib.CoqPair(hlib.CoqBytes(o.Keys[i]), hlib.CoqBytes(o.Vals[i]))
		}
		return "OList " + hlib.CoqList(items)
	case "pend":
		return fmt.Sprintf("OPend %s %s", hlib.CoqBool(o.Deleted), hlib.CoqOptBytes(o.Val, o.Found))
	case "num":
		return "ONum " + hlib.CoqN(o.Num)
	}
	panic("out")
}

// ---------- backends ----------

type backend struct {
	name string
	open func(dir string) (ethdb.Database, func())
	// table configurations: the table is opened over an inner database pre-loaded with foreign keys
	openTable func(dir string, pre []kv) (tbl ethdb.Database, inner ethdb.Database, cl func())
}

type kv struct{ K, V []byte }

const tablePrefix = "tbl"

// foreign keys around the table's prefix: they must stay invisible through it and untouched by it
var foreignPool = []kv{{[]byte("t"), []byte{1}}, {[]byte("tbk"), []byte{2}}, {[]byte("tbm"), []byte{3}}, {[]byte("u"), []byte{4}},
	{[]byte("tb"), []byte{5}}, {[]byte("tbk\xff"), []byte{}}, {[]byte{0}, []byte{6}}, {[]byte{1}, []byte{7}}, {[]byte{1, 0}, []byte{8}},
	{[]byte{0xff, 0xff}, []byte{9}}, {[]byte("tbm\x00"), []byte("x")}, {[]byte("Tbl"), []byte("case")}, {[]byte("tbL\x01"), []byte{10}}, {[]byte("a"), []byte{11}}}

func foreignFor(hi int) []kv {
	pre := append([]kv{}, foreignPool[:4]...)
	for j := 4; j < len(foreignPool); j++ {
		if (hi>>(uint(j-4)%8))&1 == 1 || hi%len(foreignPool) == j {
			pre = append(pre, foreignPool[j])
		}
	}
	return pre
}

func backends() []backend {
	logger := hlib.QuietLogs()
	loc := common.Location{0, 0}
	lv := func(dir string) (ethdb.Database, func()) {
		d, err := leveldb.New(filepath.Join(dir, "lv"), 16, 16, "", false, logger, loc)
		if err != nil {
			panic(err)
		}
		db := rawdb.NewDatabase(d)
		return db, func() { db.Close(); os.RemoveAll(filepath.Join(dir, "lv")) }
	}
	pb := func(dir string) (ethdb.Database, func()) {
		d, err := pebble.New(filepath.Join(dir, "pb"), 16, 16, "", false, logger, loc)
		if err != nil {
			panic(err)
		}
		db := rawdb.NewDatabase(d)
		return db, func() { db.Close(); os.RemoveAll(filepath.Join(dir, "pb")) }
	}
	mem := func(dir string) (ethdb.Database, func()) {
		db := rawdb.NewMemoryDatabase(logger)
		return db, func() { db.Close() }
	}
	table := func(inner func(string) (ethdb.Database, func())) func(string, []kv) (ethdb.Database, ethdb.Database, func()) {
		return func(dir string, pre []kv) (ethdb.Database, ethdb.Database, func()) {
			db, cl := inner(dir)
			for _, e := range pre {
				must(db.Put(e.K, e.V))
			}
			return rawdb.NewTable(db, tablePrefix, loc, logger), db, cl
		}
	}
	return []backend{
		{"leveldb", lv, nil}, {"pebble", pb, nil}, {"memorydb", mem, nil},
		{"table/leveldb", nil, table(lv)}, {"table/pebble", nil, table(pb)}, {"table/memorydb", nil, table(mem)},
	}
}

// ---------- running a history on a real backend ----------

func runReal(db ethdb.Database, h []Op) []Out {
	bs := [2]ethdb.Batch{db.NewBatch(), db.NewBatch()}
	outs := make([]Out, 0, len(h))
	for _, o := range h {
		var r Out
		switch o.K {
		case "DbPut":
			must(db.Put(o.Key, o.val()))
			r = Out{Kind: "none"}
		case "DbDel":
			must(db.Delete(o.Key))
			r = Out{Kind: "none"}
		case "DbGet":
			v, err := db.Get(o.Key)
			r = Out{Kind: "val", Found: err == nil, Val: cp(v)}
		case "DbHas":
			ok, err := db.Has(o.Key)
			must(err)
			r = Out{Kind: "bool", Bool: ok}
		case "DbIter":
			it := db.NewIterator(o.Prefix, o.Start)
			r = Out{Kind: "list"}
			for it.Next() {
				r.Keys = append(r.Keys, cp(it.Key()))
				r.Vals = append(r.Vals, cp(it.Value()))
			}
			must(it.Error())
			it.Release()
		case "DbCompact":
			must(db.Compact(nil, nil))
			r = Out{Kind: "none"}
		case "DbIterDuring":
			it := db.NewIterator(o.Prefix, o.Start)
			r = Out{Kind: "list"}
			// read the first entry, then write, then drain: writes ahead of and behind the cursor
			first := it.Next()
			if first {
				r.Keys = append(r.Keys, cp(it.Key()))
				r.Vals = append(r.Vals, cp(it.Value()))
			}
			for _, w := range o.Ws {
				if w.K == "DbPut" {
					must(db.Put(w.Key, w.Val))
				} else {
					must(db.Delete(w.Key))
				}
			}
			for first && it.Next() {
				r.Keys = append(r.Keys, cp(it.Key()))
				r.Vals = append(r.Vals, cp(it.Value()))
			}
			must(it.Error())
			it.Release()
		case "BPut":
			must(bs[o.B].Put(o.Key, o.val()))
			r = Out{Kind: "none"}
		case "BDel":
			must(bs[o.B].Delete(o.Key))
			r = Out{Kind: "none"}
		case "BSetPending":
			bs[o.B].SetPending(o.Flag)
			r = Out{Kind: "none"}
		case "BGetPending":
			del, v := bs[o.B].GetPending(o.Key)
			r = Out{Kind: "pend", Deleted: del, Found: v != nil, Val: cp(v)}
		case "BSize":
			r = Out{Kind: "num", Num: uint64(bs[o.B].ValueSize())}
		case "BWrite":
			must(bs[o.B].Write())
			r = Out{Kind: "none"}
		case "BReset":
			bs[o.B].Reset()
			r = Out{Kind: "none"}
		case "BReplayDb":
			must(bs[o.B].Replay(db))
			r = Out{Kind: "none"}
		case "BReplayB":
			must(bs[o.B].Replay(bs[1-o.B]))
			r = Out{Kind: "none"}
		}
		outs = append(outs, r)
	}
	return outs
}

func must(err error) {
	if err != nil {
		panic(err)
	}
}
func cp(b []byte) []byte { return append([]byte{}, b...) }

// ---------- independent Go reference (monitor) ----------

type refBatch struct {
	ops      []Op
	size     uint64
	tracking bool
	pend     map[string]*[]byte
}
type ref struct {
	db map[string][]byte
	b  [2]*refBatch
}

func (b *refBatch) put(k, v []byte) {
	b.ops = append(b.ops, Op{K: "P", Key: k, Val: v})
	b.size += uint64(len(v))
	if b.tracking {
		vv := cp(v)
		b.pend[string(k)] = &vv
	}
}
func (b *refBatch) del(k []byte) {
	b.ops = append(b.ops, Op{K: "D", Key: k})
	b.size += uint64(len(k))
	if b.tracking {
		b.pend[string(k)] = nil
	}
}
func runRef(h []Op) []Out {
	s := &ref{db: map[string][]byte{}, b: [2]*refBatch{{pend: map[string]*[]byte{}}, {pend: map[string]*[]byte{}}}}
	apply := func(b *refBatch) {
		for _, w := range b.ops {
			if w.K == "P" {
				s.db[string(w.Key)] = cp(w.Val)
			} else {
				delete(s.db, string(w.Key))
			}
		}
	}
	var outs []Out
	for _, o := range h {
		r := Out{Kind: "none"}
		switch o.K {
		case "DbPut":
			s.db[string(o.Key)] = cp(o.Val)
		case "DbDel":
			delete(s.db, string(o.Key))
		case "DbGet":
			v, ok := s.db[string(o.Key)]
			r = Out{Kind: "val", Found: ok, Val: cp(v)}
		case "DbHas":
			_, ok := s.db[string(o.Key)]
			r = Out{Kind: "bool", Bool: ok}
		case "DbIter":
			r = Out{Kind: "list"}
			var ks []string
			lo := string(o.Prefix) + string(o.Start)
			for k := range s.db {
				if strings.HasPrefix(k, string(o.Prefix)) && k >= lo {
					ks = append(ks, k)
				}
			}
			sort.Strings(ks)
			for _, k := range ks {
				r.Keys = append(r.Keys, []byte(k))
				r.Vals = append(r.Vals, cp(s.db[k]))
			}
		case "DbCompact":
		case "DbIterDuring":
			r = Out{Kind: "list"}
			var ks []string
			lo := string(o.Prefix) + string(o.Start)
			for k := range s.db {
				if strings.HasPrefix(k, string(o.Prefix)) && k >= lo {
					ks = append(ks, k)
				}
			}
			sort.Strings(ks)
			for _, k := range ks {
				r.Keys = append(r.Keys, []byte(k))
				r.Vals = append(r.Vals, cp(s.db[k]))
			}
			for _, w := range o.Ws {
				if w.K == "DbPut" {
					s.db[string(w.Key)] = cp(w.Val)
				} else {
					delete(s.db, string(w.Key))
				}
			}
		case "BPut":
			s.b[o.B].put(o.Key, o.Val)
		case "BDel":
			s.b[o.B].del(o.Key)
		case "BSetPending":
			s.b[o.B].tracking = o.Flag
			s.b[o.B].pend = map[string]*[]byte{}
		case "BGetPending":
			r = Out{Kind: "pend"}
			if v, ok := s.b[o.B].pend[string(o.Key)]; ok {
				if v == nil {
					r.Deleted = true
				} else {
					r.Found, r.Val = true, cp(*v)
				}
			}
		case "BSize":
			r = Out{Kind: "num", Num: s.b[o.B].size}
		case "BWrite":
			apply(s.b[o.B])
			s.b[o.B].tracking = false
			s.b[o.B].pend = map[string]*[]byte{}
		case "BReset":
			s.b[o.B] = &refBatch{pend: map[string]*[]byte{}}
		case "BReplayDb":
			apply(s.b[o.B])
		case "BReplayB":
			for _, w := range s.b[o.B].ops {
				if w.K == "P" {
					s.b[1-o.B].put(w.Key, w.Val)
				} else {
					s.b[1-o.B].del(w.Key)
				}
			}
		}
		outs = append(outs, r)
	}
	return outs
}

func outEq(a, b Out) bool {
	if a.Kind != b.Kind || a.Found != b.Found || a.Bool != b.Bool || a.Deleted != b.Deleted || a.Num != b.Num {
		return false
	}
	if !bytes.Equal(a.Val, b.Val) || len(a.Keys) != len(b.Keys) {
		return false
	}
	for i := range a.Keys {
		if !bytes.Equal(a.Keys[i], b.Keys[i]) || !bytes.Equal(a.Vals[i], b.Vals[i]) {
			return false
		}
	}
	return true
}

func kvsEq(a, b []kv) bool {
	if len(a) != len(b) {
		return false
	}
	for i := range a {
		if !bytes.Equal(a[i].K, b[i].K) || !bytes.Equal(a[i].V, b[i].V) {
			return false
		}
	}
	return true
}
func showKVs(l []kv) string {
	var sb strings.Builder
	for _, e := range l {
		fmt.Fprintf(&sb, "%x=%x,", e.K, e.V)
	}
	return "[" + sb.String() + "]"
}

// ---------- generator ----------

// (the last four are made of the bytes of the table prefix "tbl": user keys that look like the prefix, or like a part of it)
var alphabet = [][]byte{{}, {0}, {1}, {1, 0}, {1, 1}, {1, 255}, {2}, {255}, {255, 255}, {1, 1, 1}, {0, 0}, {'a'}, {'a', 'b'}, {'t'}, {'b', 'l'}, {'t', 'b', 'l'}, {'l', 1}}

func genKey(r *hlib.Rng) []byte {
	switch r.Pick(6, 3, 1) {
	case 0:
		k := alphabet[r.Intn(len(alphabet))]
		if len(k) == 0 {
			return []byte{byte(r.Intn(3))}
		}
		return cp(k)
	case 1:
		a := alphabet[r.Intn(len(alphabet))]
		b := alphabet[r.Intn(len(alphabet))]
		k := append(cp(a), b...)
		if len(k) == 0 {
			return []byte{7}
		}
		return k
	default:
		return r.Bytes(1 + r.Intn(4))
	}
}
func genVal(r *hlib.Rng) []byte {
	switch r.Pick(1, 6, 1) {
	case 0:
		return []byte{}
	case 1:
		return r.Bytes(1 + r.Intn(3))
	default:
		return r.Bytes(5 + r.Intn(30))
	}
}

// Usage contract respected by the generator (and by every caller in the repository):
// a batch that has been committed with Write is only read (ValueSize, GetPending) or
// Reset before it is used again -- pebble refuses to re-apply or extend a committed
// batch ("batch already applied"), exactly as upstream go-ethereum's pebble wrapper does.
func genHistory(r *hlib.Rng, n int) []Op {
	h := make([]Op, 0, n)
	var spent [2]bool
	// A third of the histories put EMPTY values (nil slice or empty non-nil slice) into tracked batches: a tracked batch must
	// report such a put as a pending entry with empty data (every backend copies the value into a non-nil slice), so that the
	// caller does not fall through to an older committed value. These histories never replay a batch into a batch: on that
	// path leveldb hands the replayed empty value over as nil (see case 5 below), which is outside the pending contract.
	emptyPend := r.Chance(33)
	for i := 0; i < n; i++ {
		b := r.Intn(2)
		k := r.Pick(8, 4, 8, 3, 6, 14, 8, 4, 12, 0, 4, 1, 2, 2, 3, 4) // ValueSize (9) is a sizing heuristic, not part of the contract: never generated
		if emptyPend && k == 13 {
			k = 8
		}
		if spent[b] && (k == 5 || k == 6 || k == 10 || k == 12 || k == 13) {
			k = 11 // Reset first
		}
		if k == 13 && spent[1-b] {
			k = 8
		}
		if k == 10 {
			spent[b] = true
		}
		if k == 11 {
			spent[b] = false
		}
		switch k {
		case 0:
			v := genVal(r)
			h = append(h, Op{K: "DbPut", Key: genKey(r), Val: v, NilVal: len(v) == 0 && r.Chance(50)})
		case 1:
			h = append(h, Op{K: "DbDel", Key: genKey(r)})
		case 2:
			h = append(h, Op{K: "DbGet", Key: genKey(r)})
		case 3:
			h = append(h, Op{K: "DbHas", Key: genKey(r)})
		case 4:
			p := alphabet[r.Intn(len(alphabet))]
			s := alphabet[r.Intn(len(alphabet))]
			if r.Chance(50) {
				p = []byte{}
			}
			if r.Chance(40) {
				s = []byte{}
			}
			h = append(h, Op{K: "DbIter", Prefix: cp(p), Start: cp(s)})
		case 5:
			// a tracked batch reports "no pending entry" as nil data, so an EMPTY pending value cannot be told from
			// an absent one through GetPending (leveldb even returns nil for an empty value that went through
			// Replay): empty values are outside the pending contract and are only generated for direct puts
			v := genVal(r)
			if emptyPend && r.Chance(25) {
				v = []byte{}
			}
			if len(v) == 0 && !emptyPend {
				v = []byte{0}
			}
			h = append(h, Op{K: "BPut", B: b, Key: genKey(r), Val: v, NilVal: len(v) == 0 && r.Chance(50)})
		case 6:
			h = append(h, Op{K: "BDel", B: b, Key: genKey(r)})
		case 7:
			h = append(h, Op{K: "BSetPending", B: b, Flag: r.Chance(85)})
		case 8:
			h = append(h, Op{K: "BGetPending", B: b, Key: genKey(r)})
		case 9:
			h = append(h, Op{K: "BSize", B: b})
		case 10:
			h = append(h, Op{K: "BWrite", B: b})
		case 11:
			h = append(h, Op{K: "BReset", B: b})
		case 12:
			h = append(h, Op{K: "BReplayDb", B: b})
		case 13:
			h = append(h, Op{K: "BReplayB", B: b})
		case 14:
			h = append(h, Op{K: "DbCompact"})
		case 15:
			p := alphabet[r.Intn(len(alphabet))]
			if r.Chance(60) {
				p = []byte{}
			}
			var ws []Op
			for j := 0; j < 1+r.Intn(5); j++ {
				if r.Chance(60) {
					ws = append(ws, Op{K: "DbPut", Key: genKey(r), Val: genVal(r)})
				} else {
					ws = append(ws, Op{K: "DbDel", Key: genKey(r)})
				}
			}
			h = append(h, Op{K: "DbIterDuring", Prefix: cp(p), Start: []byte{}, Ws: ws})
		}
	}
	return h
}

type caseJS struct {
	ID      int    `json:"id"`
	Backend string `json:"backend"`
	History []Op   `json:"history"`
	Outs    []Out  `json:"outs"`
	Pre     []kv   `json:"pre,omitempty"`       // table configurations: foreign keys pre-loaded into the inner database
	Inner   []kv   `json:"inner_end,omitempty"` // table configurations: full scan of the inner database after the history
}

func scanAll(db ethdb.Database) []kv {
	var l []kv
	it := db.NewIterator(nil, nil)
	for it.Next() {
		l = append(l, kv{cp(it.Key()), cp(it.Value())})
	}
	must(it.Error())
	it.Release()
	return l
}

func coqKVs(l []kv) string {
	items := make([]string, len(l))
	for i, e := range l {
		items[i] = hlib.CoqPair(hlib.CoqBytes(e.K), hlib.CoqBytes(e.V))
	}
	return hlib.CoqList(items)
}

func main() {
	f := hlib.ParseFlags()
	rng := hlib.NewRng(f.Seed)
	rep := hlib.NewReport("C17", "lock-step random histories (1..400 ops, small key alphabet with shared prefixes, empty values) on 6 backend configurations; "+
		"a case is one (backend, history); non-trivial = history contains a batch write/replay into the store or a pending lookup that hits; distinct by history hash")
	cw := hlib.NewCaseWriter(f.Out, "From Coq Require Import List NArith Bool.\nFrom GQ Require Import Lib.Key Lib.SMap Model.C17 Model.C17_Table Model.C17_All.\nImport ListNotations.\nLocal Open Scope N_scope.\n", "C17_All.case", 60)
	bks := backends()
	tmp, _ := os.MkdirTemp("", "verif-c17-")
	defer os.RemoveAll(tmp)

	var histories [][]Op
	corpus := func() [][]Op {
		k1, k2 := []byte("LastHeader"), []byte{1, 1}
		var h1 []Op
		for _, k := range [][]byte{k1, k2} {
			h1 = append(h1, Op{K: "DbPut", Key: k, Val: []byte("v1")}, Op{K: "DbPut", Key: k, Val: []byte("v2")})
		}
		h1 = append(h1, Op{K: "DbCompact"}, Op{K: "DbPut", Key: k1, Val: []byte("v3")},
			Op{K: "BDel", B: 0, Key: k1}, Op{K: "BDel", B: 0, Key: k2}, Op{K: "BWrite", B: 0},
			Op{K: "DbGet", Key: k1}, Op{K: "DbHas", Key: k2}, Op{K: "DbCompact"},
			Op{K: "DbGet", Key: k1}, Op{K: "DbHas", Key: k2}, Op{K: "DbIter", Prefix: []byte{}, Start: []byte{}},
			Op{K: "DbDel", Key: k1}, Op{K: "DbCompact"}, Op{K: "DbGet", Key: k1})
		var h2 []Op
		for i := 0; i < 8; i++ {
			h2 = append(h2, Op{K: "DbPut", Key: []byte{'q', byte('0' + i)}, Val: []byte{byte(i)}})
		}
		h2 = append(h2, Op{K: "DbIterDuring", Prefix: []byte{'q'}, Start: []byte{}, Ws: []Op{
			{K: "DbPut", Key: []byte("q3"), Val: []byte("new3")}, {K: "DbDel", Key: []byte("q4")},
			{K: "DbPut", Key: []byte("q5"), Val: []byte("new5")}, {K: "DbDel", Key: []byte("q0")}, {K: "DbPut", Key: []byte("q9"), Val: []byte("late")}}},
			Op{K: "DbIter", Prefix: []byte{'q'}, Start: []byte{}})
		// prefix ending in 0xff with a live key equal to the incremented prefix
		h3 := []Op{{K: "DbPut", Key: []byte{'a', 0xff, 1}, Val: []byte{1}}, {K: "DbPut", Key: []byte{'b'}, Val: []byte{2}}, {K: "DbPut", Key: []byte{'b', 0}, Val: []byte{3}},
			{K: "DbIter", Prefix: []byte{'a', 0xff}, Start: []byte{}}, {K: "DbIter", Prefix: []byte{0xff}, Start: []byte{}}, {K: "DbPut", Key: []byte{0xff, 0xff}, Val: []byte{4}}, {K: "DbIter", Prefix: []byte{0xff, 0xff}, Start: []byte{}}}
		// pending view: every order of put / delete / overwrite of one key inside a tracked batch, on both batches,
		// with and without an older committed value, before and after Write / Reset / SetPending(false)
		var h4 []Op
		ka, kb, kc := []byte{1, 0}, []byte{1, 1}, []byte{2}
		h4 = append(h4, Op{K: "DbPut", Key: ka, Val: []byte("old-a")}, Op{K: "DbPut", Key: kc, Val: []byte("old-c")})
		for b := 0; b < 2; b++ {
			h4 = append(h4, Op{K: "BSetPending", B: b, Flag: true},
				Op{K: "BPut", B: b, Key: ka, Val: []byte("p1")}, Op{K: "BGetPending", B: b, Key: ka},
				Op{K: "BDel", B: b, Key: ka}, Op{K: "BGetPending", B: b, Key: ka}, // put then delete: tombstone
				Op{K: "BDel", B: b, Key: kb}, Op{K: "BPut", B: b, Key: kb, Val: []byte("p2")}, Op{K: "BGetPending", B: b, Key: kb}, // delete then put
				Op{K: "BPut", B: b, Key: kc, Val: []byte("p3")}, Op{K: "BPut", B: b, Key: kc, Val: []byte("p4")}, Op{K: "BGetPending", B: b, Key: kc}, // overwrite
				Op{K: "BDel", B: b, Key: kc}, Op{K: "BDel", B: b, Key: kc}, Op{K: "BGetPending", B: b, Key: kc},
				Op{K: "BGetPending", B: 1 - b, Key: ka}, Op{K: "DbGet", Key: ka}, // the other batch and the store see nothing
				Op{K: "BWrite", B: b}, Op{K: "BGetPending", B: b, Key: ka}, Op{K: "DbGet", Key: ka}, Op{K: "DbGet", Key: kb}, Op{K: "DbHas", Key: kc},
				Op{K: "BReset", B: b}, Op{K: "BPut", B: b, Key: ka, Val: []byte("untracked")}, Op{K: "BGetPending", B: b, Key: ka},
				Op{K: "BSetPending", B: b, Flag: true}, Op{K: "BGetPending", B: b, Key: ka}, Op{K: "BDel", B: b, Key: ka}, Op{K: "BGetPending", B: b, Key: ka},
				Op{K: "BSetPending", B: b, Flag: false}, Op{K: "BGetPending", B: b, Key: ka}, Op{K: "BReset", B: b},
				Op{K: "DbPut", Key: ka, Val: []byte("old-a")}, Op{K: "DbPut", Key: kc, Val: []byte("old-c")})
		}
		// replay of a tracked batch into the other tracked batch, then reset+refill of the source (aliasing)
		h5 := []Op{{K: "BSetPending", B: 0, Flag: true}, {K: "BSetPending", B: 1, Flag: true},
			{K: "BPut", B: 0, Key: ka, Val: []byte("from-0")}, {K: "BDel", B: 0, Key: kb}, {K: "BReplayB", B: 0},
			{K: "BGetPending", B: 1, Key: ka}, {K: "BGetPending", B: 1, Key: kb},
			{K: "BReset", B: 0}, {K: "BPut", B: 0, Key: kc, Val: []byte("XXXXXX")}, {K: "BPut", B: 0, Key: ka, Val: []byte("YYYYYY")},
			{K: "BGetPending", B: 1, Key: ka}, {K: "BGetPending", B: 1, Key: kb}, {K: "BWrite", B: 1}, {K: "DbGet", Key: ka}, {K: "DbHas", Key: kb}}
		// empty values in a tracked batch (nil slice and empty non-nil slice), over an older committed value and without one
		var h6 []Op
		h6 = append(h6, Op{K: "DbPut", Key: kc, Val: []byte("old-c")}, Op{K: "DbPut", Key: ka, Val: []byte{}, NilVal: true}, Op{K: "DbGet", Key: ka}, Op{K: "DbHas", Key: ka})
		for b := 0; b < 2; b++ {
			h6 = append(h6, Op{K: "BSetPending", B: b, Flag: true},
				Op{K: "BPut", B: b, Key: ka, Val: []byte{}, NilVal: true}, Op{K: "BGetPending", B: b, Key: ka},
				Op{K: "BPut", B: b, Key: kb, Val: []byte{}}, Op{K: "BGetPending", B: b, Key: kb},
				Op{K: "BPut", B: b, Key: kc, Val: []byte{}, NilVal: true}, Op{K: "BGetPending", B: b, Key: kc}, Op{K: "DbGet", Key: kc},
				Op{K: "BWrite", B: b}, Op{K: "DbGet", Key: ka}, Op{K: "DbHas", Key: kb}, Op{K: "DbGet", Key: kc}, Op{K: "DbIter", Prefix: []byte{}, Start: []byte{}},
				Op{K: "BReset", B: b}, Op{K: "DbPut", Key: kc, Val: []byte("old-c")}, Op{K: "DbDel", Key: ka}, Op{K: "DbDel", Key: kb})
		}
		// user keys made of the bytes of the table prefix, iterated and replayed
		var h7 []Op
		for _, k := range [][]byte{[]byte("t"), []byte("tb"), []byte("tbl"), []byte("tblx"), []byte("l"), []byte("b"), []byte("lbt"), []byte("x")} {
			h7 = append(h7, Op{K: "BPut", B: 0, Key: k, Val: append([]byte("v-"), k...)})
		}
		h7 = append(h7, Op{K: "BReplayB", B: 0}, Op{K: "BReplayDb", B: 1}, Op{K: "DbIter", Prefix: []byte{}, Start: []byte{}}, Op{K: "DbIter", Prefix: []byte("t"), Start: []byte("b")},
			Op{K: "BReset", B: 1}, Op{K: "BDel", B: 1, Key: []byte("tb")}, Op{K: "BDel", B: 1, Key: []byte("l")}, Op{K: "BReplayDb", B: 1}, Op{K: "DbIter", Prefix: []byte{}, Start: []byte{}},
			Op{K: "DbGet", Key: []byte("tbl")}, Op{K: "DbHas", Key: []byte("b")})
		return [][]Op{h1, h2, h3, h4, h5, h6, h7}
	}
	if f.Replay == "" {
		histories = append(histories, corpus()...)
	}
	if f.Replay != "" {
		var c caseJS
		hlib.ReadReplayCase(f.Replay, &c)
		histories = append(histories, c.History)
	} else {
		for i := 0; i < f.N; i++ {
			n := 1 + rng.Intn(60)
			if rng.Chance(10) {
				n = 100 + rng.Intn(300)
			}
			histories = append(histories, genHistory(rng.Fork(), n))
		}
	}
	id := 0
	for hi, h := range histories {
		want := runRef(h)
		nontriv := false
		hitPend, wrote := false, false
		for i, o := range h {
			rep.Count("op:" + o.K)
			if o.K == "BGetPending" && (want[i].Found || want[i].Deleted) {
				hitPend = true
			}
			if o.K == "BWrite" || o.K == "BReplayDb" {
				wrote = true
			}
		}
		nontriv = hitPend || wrote
		rep.Count(fmt.Sprintf("len:%d0s", len(h)/10))
		var first []Out
		for bi, bk := range bks {
			var db, inner ethdb.Database
			var closeFn func()
			var pre, innerEnd, tableEnd []kv
			if bk.openTable != nil {
				pre = foreignFor(hi)
				db, inner, closeFn = bk.openTable(tmp, pre)
			} else {
				db, closeFn = bk.open(tmp)
			}
			got := runReal(db, h)
			if inner != nil {
				innerEnd = scanAll(inner)
				tableEnd = scanAll(db)
			}
			closeFn()
			rep.Evaluations++
			rep.TracesValidated++
			c := caseJS{ID: id, Backend: bk.name, History: h, Outs: got, Pre: pre, Inner: innerEnd}
			pairs := make([]string, len(h))
			for i := range h {
				pairs[i] = "(" + h[i].Coq() + ", " + got[i].Coq() + ")"
			}
			if inner != nil {
				cw.Add(fmt.Sprintf("CTable (%d, (%s, %s, %s, %s))", id, hlib.CoqBytes([]byte(tablePrefix)), coqKVs(pre), hlib.CoqList(pairs), coqKVs(innerEnd)), c)
				rep.Count(fmt.Sprintf("table-foreign-keys:%d", len(pre)))
				// monitor 3 (frame, model-independent): the inner database holds the pre-loaded foreign keys unchanged, and under
				// the prefix exactly what the table itself iterates (keys stripped), in ascending byte order
				var foreignNow, own []kv
				for _, e := range innerEnd {
					if bytes.HasPrefix(e.K, []byte(tablePrefix)) {
						own = append(own, kv{e.K[len(tablePrefix):], e.V})
					} else {
						foreignNow = append(foreignNow, e)
					}
				}
				want := append([]kv{}, pre...)
				sort.Slice(want, func(a, b int) bool { return bytes.Compare(want[a].K, want[b].K) < 0 })
				if !kvsEq(foreignNow, want) {
					rep.Fail(fmt.Sprintf("backend=%s table-frame", bk.name), fmt.Sprintf("after the history the inner database's keys outside the table prefix are %s, pre-loaded were %s", showKVs(foreignNow), showKVs(want)), c)
				}
				if !kvsEq(own, tableEnd) {
					rep.Fail(fmt.Sprintf("backend=%s table-view", bk.name), fmt.Sprintf("the inner database holds under the prefix %s but the table iterates %s", showKVs(own), showKVs(tableEnd)), c)
				}
			} else {
				cw.Add(fmt.Sprintf("CStore (%d, %s)", id, hlib.CoqList(pairs)), c)
			}
			if nontriv {
				rep.Nontrivial(fmt.Sprintf("%s/%d", bk.name, hi))
			}
			if hi == 0 && bi < 2 {
				rep.Sample(c)
			}
			// monitor 1: independent Go reference
			for i := range h {
				if !outEq(got[i], want[i]) {
					rep.Fail(fmt.Sprintf("backend=%s op=%s", bk.name, h[i].K),
						fmt.Sprintf("op #%d %s: backend %s answered %s, reference map answers %s", i, h[i].K, bk.name, got[i], want[i]), c)
					break
				}
			}
			// monitor 2: all backends answer identically
			if bi == 0 {
				first = got
			} else {
				for i := range h {
					if !outEq(got[i], first[i]) {
						rep.Fail(fmt.Sprintf("backend=%s op=%s", bk.name, h[i].K),
							fmt.Sprintf("op #%d %s: backend %s answered %s but %s answered %s", i, h[i].K, bk.name, got[i], bks[0].name, first[i]), c)
						break
					}
				}
			}
			id++
		}
	}
	cw.Close()
	rep.Write(f.Out)
}

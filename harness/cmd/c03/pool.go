// C03 harness, pool part: the REAL core.TxPool (NewTxPool over a mock chain, real sendersGoroutine /
// feesGoroutine / reorg loop) driven through histories of adds (single, batch, re-add of a known or a
// rejected transaction), removals and reorg re-injections of valid and forged Qi transactions; after
// every operation the asynchronous caches are drained (barrier through the goroutine's own channel) and
// "block processing" is performed exactly as StateProcessor.Process does it: checkSig := hash NOT in the
// pool's senders cache (SendersMu.RLock + PeekSenderNoLock), then the real core.ProcessQiTx.
//
// The senders cache is not a "seen" set: for a Qi transaction an entry means "Schnorr signature already
// verified". The monitors state the property on that cross-component path: a spend that is not authorised
// by the owners' keys is never accepted by block processing whatever the pool saw before, and the cache
// never holds the hash of a transaction whose signature does not verify under the keys it carries.
package main

import (
	"bytes"
	"errors"
	"fmt"
	"math/big"
	"os"
	"runtime"
	"sync"
	"sync/atomic"
	"time"

	"github.com/btcsuite/btcd/btcec/v2"
	"github.com/btcsuite/btcd/btcec/v2/schnorr"
	"github.com/btcsuite/btcd/btcec/v2/schnorr/musig2"
	"github.com/dominant-strategies/go-quai/common"
	"github.com/dominant-strategies/go-quai/consensus"
	"github.com/dominant-strategies/go-quai/core"
	"github.com/dominant-strategies/go-quai/core/rawdb"
	"github.com/dominant-strategies/go-quai/core/state"
	"github.com/dominant-strategies/go-quai/core/types"
	"github.com/dominant-strategies/go-quai/crypto"
	"github.com/dominant-strategies/go-quai/ethdb"
	"github.com/dominant-strategies/go-quai/event"
	"github.com/dominant-strategies/go-quai/log"
	"github.com/dominant-strategies/go-quai/params"

	"verifharness/hlib"
)

// PTx is one Qi transaction of a case's universe. The UTXO set of the case is fixed: entry j lives
// under outpoint (hashN(j+1), 0), is owned by PoolSpec.Owners[j] and has denomination PoolSpec.Dens[j];
// an input index >= len(Owners) names an outpoint that does not exist.
type PTx struct {
	Label    string   `json:"label"` // key-free class name
	Ins      []int    `json:"ins"`
	Carry    [][]byte `json:"carry"`   // private key whose public key input i carries
	Signers  [][]byte `json:"signers"` // private keys producing the signature
	Outs     []QiOut  `json:"outs"`
	AltOuts  []QiOut  `json:"alt_outs,omitempty"` // the signature is made over these outputs instead
	TxChain  uint64   `json:"tx_chain"`
	SigChain uint64   `json:"sig_chain"`
	RestBad  string   `json:"rest_bad,omitempty"` // "" | overspend | inactive : refused for a reason other than authorisation
}

type POp struct {
	K string `json:"k"` // add | addlocal | proc | remove | reorg
	T []int  `json:"t"`
}

type PoolSpec struct {
	Owners [][]byte `json:"owners"`
	Dens   []uint8  `json:"dens"`
	Txs    []PTx    `json:"txs"`
	Ops    []POp    `json:"ops"`
}

// ---------- spec-level predicates (no code of /repo involved) ----------

// sigForCarried: the signature was produced by exactly the carried keys, in input order, over exactly
// this transaction.
func (t *PTx) sigForCarried() bool {
	if len(t.Signers) != len(t.Carry) || t.AltOuts != nil || t.SigChain != t.TxChain {
		return false
	}
	for i := range t.Carry {
		if !bytes.Equal(t.Carry[i], t.Signers[i]) {
			return false
		}
	}
	return true
}

// authorised: every input consumes an existing entry and carries the key that owns it, the owners (and
// nobody else) signed this very transaction of this chain.
func (p *PoolSpec) authorised(t *PTx) bool {
	if len(t.Ins) == 0 || t.TxChain != 9000 || !t.sigForCarried() {
		return false
	}
	for i, j := range t.Ins {
		if j >= len(p.Owners) || !bytes.Equal(p.Owners[j], t.Carry[i]) {
			return false
		}
	}
	return true
}

// ---------- mock chain for the pool ----------

type pchain struct {
	mu       sync.Mutex
	headMu   sync.Mutex
	db       ethdb.Database
	logger   *log.Logger
	pt       *types.WorkObject
	cur      *types.WorkObject
	posted   *types.WorkObject
	blocks   map[common.Hash]*types.WorkObject
	feed     event.Feed
	serial   uint64
	runs     atomic.Int64
	lastRoot atomic.Value
	funded   []common.Address // accounts with a balance in every state handed to the pool
}

func (c *pchain) makeBlock(parent *types.WorkObject, txs []*types.Transaction) *types.WorkObject {
	c.mu.Lock()
	defer c.mu.Unlock()
	c.serial++
	wo := types.EmptyWorkObject(common.ZONE_CTX)
	wo.WorkObjectHeader().SetLocation(nodeLoc)
	d, _ := new(big.Int).SetString("100000000000000000000", 10)
	wo.WorkObjectHeader().SetDifficulty(d)
	// below params.KawPowForkBlock: from there on WorkObjectHeader.Hash() is the hash of the AuxPow alone
	// (nil here), which would give every block of this chain one hash
	wo.WorkObjectHeader().SetPrimeTerminusNumber(big.NewInt(1000000))
	wo.Header().SetGasLimit(5000000)
	wo.Header().SetBaseFee(big.NewInt(1))
	var root common.Hash
	root[0] = 0xC3
	root[31], root[30] = byte(c.serial), byte(c.serial>>8)
	wo.Header().SetEVMRoot(root)
	wo.WorkObjectHeader().SetTime(c.serial)
	wo.WorkObjectHeader().SetNonce(types.EncodeNonce(c.serial))
	num := uint64(1000)
	if parent != nil {
		wo.WorkObjectHeader().SetParentHash(parent.Hash())
		num = parent.NumberU64(common.ZONE_CTX) + 1
	}
	wo.WorkObjectHeader().SetNumber(new(big.Int).SetUint64(num))
	wo.Body().SetTransactions(txs)
	c.blocks[wo.Hash()] = wo
	rawdb.WriteUTXOSetSize(c.db, wo.Hash(), 148) // ln = 5.0: the scaling factor the other Qi cases use
	return wo
}

func (c *pchain) setHead(b *types.WorkObject) {
	c.headMu.Lock()
	c.mu.Lock()
	c.cur, c.posted = b, b
	c.mu.Unlock()
	c.feed.Send(core.ChainHeadEvent{Block: b})
	c.headMu.Unlock()
}

func (c *pchain) head() *types.WorkObject {
	c.mu.Lock()
	defer c.mu.Unlock()
	return c.cur
}

func (c *pchain) get(h common.Hash) *types.WorkObject {
	c.mu.Lock()
	defer c.mu.Unlock()
	return c.blocks[h]
}

// headers asked for by hash that are not blocks of this chain are the prime terminus
func (c *pchain) getOrPT(h common.Hash) *types.WorkObject {
	if b := c.get(h); b != nil {
		return b
	}
	return c.pt
}

func (c *pchain) CurrentBlock() *types.WorkObject                   { return c.head() }
func (c *pchain) GetBlock(h common.Hash, n uint64) *types.WorkObject { return c.get(h) }
func (c *pchain) StateAt(root, etxRoot common.Hash, quaiStateSize *big.Int) (*state.StateDB, error) {
	sdb, err := state.New(types.EmptyRootHash, types.EmptyRootHash, new(big.Int), state.NewDatabase(c.db), state.NewDatabase(c.db), nil, nodeLoc, c.logger)
	if err != nil {
		return nil, err
	}
	for _, a := range c.funded {
		if in, err := a.InternalAndQuaiAddress(); err == nil {
			sdb.SetBalance(in, new(big.Int).Lsh(big.NewInt(1), 80))
		}
	}
	c.lastRoot.Store(root)
	return sdb, nil
}
func (c *pchain) SubscribeChainHeadEvent(ch chan<- core.ChainHeadEvent) event.Subscription {
	return c.feed.Subscribe(ch)
}
func (c *pchain) IsGenesisHash(common.Hash) bool                               { return false }
func (c *pchain) CheckIfEtxIsEligible(common.Hash, common.Location) bool       { return true }
func (c *pchain) Engine(*types.WorkObjectHeader) consensus.Engine              { return nil }
func (c *pchain) GetHeaderOrCandidateByHash(h common.Hash) *types.WorkObject   { return c.getOrPT(h) }
func (c *pchain) NodeCtx() int                                                 { return common.ZONE_CTX }
func (c *pchain) GetHeaderByHash(h common.Hash) *types.WorkObject              { return c.getOrPT(h) }
func (c *pchain) GetBlockByHash(h common.Hash) *types.WorkObject               { return c.getOrPT(h) }
func (c *pchain) GetMaxTxInWorkShare() uint64                                  { c.runs.Add(1); return 1 << 20 }
func (c *pchain) CheckInCalcOrderCache(common.Hash) (*big.Int, int, bool)      { return nil, 0, false }
func (c *pchain) AddToCalcOrderCache(common.Hash, int, *big.Int)               {}
func (c *pchain) CalcBaseFee(*types.WorkObject) *big.Int                       { return big.NewInt(1) }
func (c *pchain) CalcOrder(*types.WorkObject) (*big.Int, int, error)           { return new(big.Int), common.ZONE_CTX, nil }

// ---------- one pool ----------

type prig struct {
	chain *pchain
	pool  *core.TxPool
	db    ethdb.Database
}

var errPoolStall = errors.New("stall")

func newPRig(e *qiEnv) *prig {
	if os.Getenv("VERIF_C03_DEBUG") != "" {
		e.logger.SetOutput(os.Stderr)
		e.logger.SetLevel(5)
	}
	db := rawdb.NewMemoryDatabase(e.logger)
	ch := &pchain{db: db, logger: e.logger, pt: e.pt, blocks: map[common.Hash]*types.WorkObject{}}
	ch.lastRoot.Store(common.Hash{})
	ch.cur = ch.makeBlock(nil, nil)
	pc := core.TxPoolConfig{
		NoLocals: false, Journal: "", Rejournal: time.Hour, PriceLimit: 1, PriceBump: 10,
		AccountSlots: 16, GlobalSlots: 64, AccountQueue: 16, GlobalQueue: 64,
		MaxSenders: 4096, MaxFeesCached: 1024, SendersChBuffer: 1024, QiPoolSize: 64, QiTxLifetime: time.Hour,
		Lifetime: time.Hour, ReorgFrequency: 250 * time.Microsecond,
	}
	cfg := &params.ChainConfig{ChainID: new(big.Int).Set(nodeChain), Location: nodeLoc}
	return &prig{chain: ch, pool: core.NewTxPool(pc, cfg, ch, e.logger, db), db: db}
}

func (r *prig) stop() {
	done := make(chan struct{})
	go func() { r.pool.Stop(); close(done) }()
	select {
	case <-done:
	case <-time.After(3 * time.Second):
	}
	r.db.Close()
}

// reorgBarrier: every head announcement has been consumed, the pool has been reset to the last announced
// head (every reset reads the new head's state through StateAt) and a reorg run launched after that has
// completed (every run asks GetMaxTxInWorkShare once after releasing the pool lock).
func (r *prig) reorgBarrier(timeout time.Duration) error {
	deadline := time.Now().Add(timeout)
	spin := func(cond func() bool) error {
		for i := 0; !cond(); i++ {
			if time.Now().After(deadline) {
				return errPoolStall
			}
			if i < 50 {
				runtime.Gosched()
			} else {
				time.Sleep(50 * time.Microsecond)
			}
		}
		return nil
	}
	if err := spin(func() bool { return r.pool.VerifC03Backlog() == 0 }); err != nil {
		return err
	}
	r.chain.mu.Lock()
	posted := r.chain.posted
	r.chain.mu.Unlock()
	if posted != nil {
		want := posted.EVMRoot()
		if err := spin(func() bool { return r.chain.lastRoot.Load().(common.Hash) == want && r.pool.VerifC03Backlog() == 0 }); err != nil {
			return err
		}
	}
	c0 := r.chain.runs.Load()
	return spin(func() bool { return r.chain.runs.Load() >= c0+2 })
}

// drain: everything the pool queued for its senders / fees goroutines so far has been stored.
func (r *prig) drain(id uint64, step int) bool {
	s := crypto.Keccak256Hash([]byte(fmt.Sprintf("verif-c03-sentinel-%d-%d", id, step)))
	return r.pool.VerifC03SendersBarrier(s, 5*time.Second) && r.pool.VerifC03FeesBarrier(s, 5*time.Second)
}

// ---------- building the universe ----------

type builtTx struct {
	inner  *types.QiTx
	hash   common.Hash
	items  string // Coq: per input (derived address, in Qi scope, parses, entry owner address or None)
	aggOK  bool
	sigbit bool // independent btcec verdict: the signature verifies under the (aggregate of the) carried keys
	parsed bool
}

func (b *builtTx) fresh() *types.Transaction { return types.NewTx(b.inner) }

func (x *runner) buildPTx(p *PoolSpec, t *PTx, seed uint64) *builtTx {
	signer := types.NewSigner(nodeChain, nodeLoc)
	var ins types.TxIns
	var carried []qkey
	for i, j := range t.Ins {
		c := mkQKey(t.Carry[i])
		carried = append(carried, c)
		ins = append(ins, types.TxIn{PreviousOutPoint: types.OutPoint{TxHash: hashN(byte(j + 1)), Index: 0}, PubKey: c.pub})
	}
	mk := func(chain uint64, outs []QiOut, sig *schnorr.Signature) *types.QiTx {
		return &types.QiTx{ChainID: new(big.Int).SetUint64(chain), TxIn: ins, TxOut: qiOuts(outs), Signature: sig}
	}
	placeholder, _ := schnorr.Sign(carried[0].priv, make([]byte, 32))
	so := t.Outs
	if t.AltOuts != nil {
		so = t.AltOuts
	}
	digest := signer.Hash(types.NewTx(mk(t.SigChain, so, placeholder)))
	var sk []qkey
	for _, b := range t.Signers {
		sk = append(sk, mkQKey(b))
	}
	sig := signQi(hlib.NewRng(seed), digest, sk)
	bt := &builtTx{inner: mk(t.TxChain, t.Outs, sig), aggOK: true}
	tx := bt.fresh()
	bt.hash = tx.Hash()
	var items []string
	var pubs []*btcec.PublicKey
	for i, in := range ins {
		a := crypto.PubkeyBytesToAddress(in.PubKey, nodeLoc).Bytes()
		pk, perr := btcec.ParsePubKey(in.PubKey)
		if perr == nil {
			pubs = append(pubs, pk)
		}
		ent := "None"
		if j := t.Ins[i]; j < len(p.Owners) {
			ent = "Some " + hlib.CoqBytes(mkQKey(p.Owners[j]).addr)
		}
		items = append(items, fmt.Sprintf("(%s, %s, %s, %s)", hlib.CoqBytes(a), hlib.CoqBool(a[1] > 127), hlib.CoqBool(perr == nil), ent))
	}
	bt.items = hlib.CoqList(items)
	bt.parsed = len(pubs) == len(ins)
	if bt.parsed {
		var fk *btcec.PublicKey
		if len(pubs) == 1 {
			fk = pubs[0]
		} else if ak, _, _, err := musig2.AggregateKeys(pubs, false); err != nil {
			bt.aggOK = false
		} else {
			fk = ak.FinalKey
		}
		if fk != nil {
			d := signer.Hash(tx)
			bt.sigbit = sig.Verify(d[:], fk)
		}
	}
	return bt
}

// processLikeABlock mirrors StateProcessor.Process for one Qi transaction of a block: the signature is
// looked at iff the hash is NOT in the pool's senders cache.
func (x *runner) processLikeABlock(r *prig, tx *types.Transaction) (cached, accepted bool) {
	r.pool.SendersMu.RLock()
	_, cached = r.pool.PeekSenderNoLock(tx.Hash())
	r.pool.SendersMu.RUnlock()
	checkSig := !cached
	e := x.qi
	batch := r.db.NewBatch()
	batch.SetPending(true)
	gp := new(types.GasPool).AddGas(e.wo.GasLimit())
	used := uint64(0)
	rl, pl := uint64(params.ETXRLimitMin), uint64(params.ETXPLimitMin)
	ucd := new(core.UtxosCreatedDeleted)
	_, _, _, err, _ := core.ProcessQiTx(tx, e.chain, checkSig, true, e.wo, batch, r.db, gp, &used, types.NewSigner(nodeChain, nodeLoc), nodeLoc, *nodeChain, 5.0, &rl, &pl, ucd, big.NewInt(0), big.NewInt(0), false)
	batch.Reset()
	return cached, err == nil
}

func coqBools(b []bool) string {
	s := make([]string, len(b))
	for i, v := range b {
		s[i] = hlib.CoqBool(v)
	}
	return hlib.CoqList(s)
}

func coqNats(b []int) string {
	s := make([]string, len(b))
	for i, v := range b {
		s[i] = fmt.Sprint(v)
	}
	return hlib.CoqList(s)
}

func (x *runner) runQiPool(s *Spec) string {
	p := s.Pool
	r := newPRig(x.qi)
	defer r.stop()
	for j := range p.Owners {
		o := mkQKey(p.Owners[j])
		if err := rawdb.CreateUTXO(r.db, hashN(byte(j+1)), 0, &types.UtxoEntry{Denomination: p.Dens[j], Address: o.addr, Lock: big.NewInt(0)}); err != nil {
			panic(err)
		}
	}
	built := make([]*builtTx, len(p.Txs))
	var ctxs []string
	for i := range p.Txs {
		t := &p.Txs[i]
		built[i] = x.buildPTx(p, t, s.ID*7919+uint64(i)*131+17)
		b := built[i]
		// the harness's own signing must agree with its spec-level description of the transaction
		if b.parsed && b.aggOK && b.sigbit != t.sigForCarried() {
			x.fail("qipool/harness-signature-spec-mismatch", "independent Schnorr verdict differs from the spec-level description of "+t.Label, s)
		}
		ctxs = append(ctxs, fmt.Sprintf("(mkQi %d [] [] [], %s, %s, %s, %s, %s)", t.TxChain, b.items, hlib.CoqBool(b.aggOK), hlib.CoqBool(b.sigbit),
			hlib.CoqBool(t.RestBad != "overspend"), hlib.CoqBool(t.RestBad != "inactive")))
	}
	n := len(p.Txs)
	everAdded := make([]bool, n)   // the pool was handed the transaction (add or reorg) at least once
	everRefused := make([]bool, n) // ... and refused it at least once
	tookIt := make([]bool, n)      // ... and took it at least once
	vectors := func() (cache, qp, fees []bool) {
		cache, qp, fees = make([]bool, n), make([]bool, n), make([]bool, n)
		for i, b := range built {
			cache[i], qp[i], fees[i] = r.pool.ContainsSender(b.hash), r.pool.VerifC03QiPoolHas(b.hash), r.pool.VerifC03FeeCached(b.hash)
		}
		return
	}
	hist := func(i int) string {
		switch {
		case !everAdded[i]:
			return "never-handed-to-the-pool"
		case everRefused[i]:
			return "after-the-pool-refused-it"
		case tookIt[i]:
			return "after-the-pool-took-it"
		}
		return "after-reorg-reinjection-only"
	}
	var obs []string
	stalled := false
	for step, op := range p.Ops {
		if stalled {
			break
		}
		before, qpBefore, _ := vectors()
		var res []int
		func() {
			defer func() {
				if e := recover(); e != nil {
					x.fail("qipool/panic/"+op.K, fmt.Sprint("panic: ", e), s)
				}
			}()
			switch op.K {
			case "add", "addlocal":
				var txs []*types.Transaction
				for _, i := range op.T {
					txs = append(txs, built[i].fresh())
				}
				var errs []error
				if op.K == "addlocal" {
					errs = r.pool.AddLocals(txs)
				} else {
					errs = r.pool.AddRemotes(txs)
				}
				// verdict per transaction: a single add is judged by its error; in a batch addTxs attributes the Qi
				// errors to the first free slots, not to the refused transactions (error attribution is C19's
				// subject), so a batch is judged by what entered the Qi pool
				_, qpAfter, _ := vectors()
				for k, i := range op.T {
					everAdded[i] = true
					v := 2
					if len(op.T) == 1 {
						if len(errs) == 1 && errs[0] == nil {
							v = 0
						} else if len(errs) == 1 && errors.Is(errs[0], core.ErrAlreadyKnown) {
							v = 1
						}
					} else if qpBefore[i] {
						v = 1
					} else if qpAfter[i] {
						v = 0
					}
					_ = k
					res = append(res, v)
					switch v {
					case 0:
						tookIt[i] = true
						if !p.authorised(&p.Txs[i]) {
							x.fail("qipool/pool-took-unauthorised-spend/"+p.Txs[i].Label, "the pool accepted a Qi spend that is not authorised by the owners' keys ("+p.Txs[i].Label+")", s)
						}
					case 2:
						everRefused[i] = true
						if p.authorised(&p.Txs[i]) && p.Txs[i].RestBad == "" {
							x.fail("qipool/control-refused/pool", "the pool refused a spend signed by exactly the owners of its inputs ("+p.Txs[i].Label+")", s)
						}
					}
				}
			case "remove":
				var hs []*common.Hash
				for _, i := range op.T {
					h := built[i].hash
					hs = append(hs, &h)
				}
				r.pool.RemoveQiTxs(hs)
			case "reorg":
				// a block carrying the transactions becomes the head, then a sibling without them replaces it:
				// the pool re-injects the transactions of the abandoned block
				var txs []*types.Transaction
				for _, i := range op.T {
					txs = append(txs, built[i].fresh())
					everAdded[i] = true
				}
				parent := r.chain.head()
				b1 := r.chain.makeBlock(parent, txs)
				b2 := r.chain.makeBlock(parent, nil)
				r.chain.setHead(b1)
				if err := r.reorgBarrier(5 * time.Second); err != nil {
					stalled = true
				}
				r.chain.setHead(b2)
				if err := r.reorgBarrier(5 * time.Second); err != nil {
					stalled = true
				}
			case "proc":
				i := op.T[0]
				cached, accepted := x.processLikeABlock(r, built[i].fresh())
				res = []int{b2i(cached), b2i(accepted)}
				t := &p.Txs[i]
				x.rep.Count(fmt.Sprintf("qipool/proc/%s/%s/cached=%v/accepted=%v", t.Label, hist(i), cached, accepted))
				if accepted && !p.authorised(t) {
					x.fail("qipool/block-accepted-unauthorised-spend/"+t.Label+"/"+hist(i),
						fmt.Sprintf("block processing (checkSig derived from the pool's senders cache: cached=%v) accepted a Qi spend that is not authorised by the owners' keys (%s, %s)", cached, t.Label, hist(i)), s)
				}
				if !accepted && p.authorised(t) && t.RestBad == "" {
					x.fail("qipool/control-refused/block", "block processing refused a spend signed by exactly the owners of its inputs ("+t.Label+", "+hist(i)+")", s)
				}
				x.rep.Nontrivial(fmt.Sprintf("qipool/proc/%s/%s/%v/%v", t.Label, hist(i), cached, accepted))
			default:
				panic("pool op " + op.K)
			}
		}()
		if !r.drain(s.ID, step) {
			stalled = true
		}
		if stalled {
			x.fail("qipool/stall/"+op.K, "the pool's asynchronous loops did not come to rest within 5 s", s)
			break
		}
		cache, qp, fees := vectors()
		for i, t := range p.Txs {
			b := built[i]
			// the cache entry of a Qi transaction means "signature verified": it must be true
			if cache[i] && !before[i] && !(b.parsed && b.aggOK && b.sigbit) {
				x.fail("qipool/senders-cache-holds-unverified-signature/"+t.Label+"/after-"+op.K,
					"after "+op.K+" the pool's senders cache holds the hash of a Qi transaction whose signature does not verify under the keys it carries ("+t.Label+"): block processing will skip its signature check", s)
			}
			if qp[i] && !qpBefore[i] && !p.authorised(&p.Txs[i]) {
				x.fail("qipool/pool-holds-unauthorised-spend/"+t.Label+"/after-"+op.K, "after "+op.K+" the Qi pool holds a spend that is not authorised by the owners' keys ("+t.Label+")", s)
			}
		}
		if op.K == "add" || op.K == "addlocal" {
			for k, i := range op.T {
				if k < len(res) && res[k] == 2 && cache[i] && !before[i] {
					x.fail("qipool/refused-add-enters-senders-cache/"+p.Txs[i].Label, "a Qi transaction the pool refused ("+p.Txs[i].Label+") was entered into the senders cache (hash -> signature verified)", s)
				}
			}
		}
		x.rep.Count("qipool/op/" + op.K)
		obs = append(obs, fmt.Sprintf("(%s %s, (%s, %s, %s, %s))", map[string]string{"add": "PAdd", "addlocal": "PAdd", "remove": "PRemove", "reorg": "PReorg", "proc": "PProc"}[op.K],
			coqNats(op.T), coqNats(res), coqBools(cache), coqBools(qp), coqBools(fees)))
	}
	x.rep.Nontrivial(fmt.Sprintf("qipool/history/%d/%d", len(p.Txs), len(p.Ops)))
	return fmt.Sprintf("CPool %d %s %s %s", s.ID, nodeChain.String(), hlib.CoqList(ctxs), hlib.CoqList(obs))
}

func b2i(b bool) int {
	if b {
		return 1
	}
	return 0
}

// ---------- the same cache for Quai transactions: tx hash -> sender ----------
// StateProcessor.Process hands senders[tx.Hash()] to AsMessageWithSender without recovering the key, so an
// entry must be the address of the key that really signed exactly this transaction. Monitors only (the
// Coq case emitted is the fresh-object recovery of the first transaction).

type QPTx struct {
	Label  string  `json:"label"`
	Tx     *TxSpec `json:"tx"`
	Signer []byte  `json:"signer,omitempty"` // 20-byte address of the key that produced V,R,S over exactly this content; nil: nobody did
	NotBy  []byte  `json:"not_by,omitempty"` // address of the key whose signature over ANOTHER content / chain is carried: never the sender
	Funded bool    `json:"funded,omitempty"` // that key's account is funded (the pool should take the transaction)
}

// wrongSender: a is not an address this transaction may be attributed to (spec level)
func (t *QPTx) wrongSender(a []byte) bool {
	if t.Signer != nil {
		return !bytes.Equal(a, t.Signer)
	}
	return t.NotBy != nil && bytes.Equal(a, t.NotBy)
}

type QuaiPoolSpec struct {
	Funded [][]byte `json:"funded"` // 20-byte addresses with a balance
	Txs    []QPTx   `json:"txs"`
	Ops    []POp    `json:"ops"`
}

func (x *runner) runQuaiPool(s *Spec) string {
	p := s.QuaiPool
	r := newPRig(x.qi)
	defer r.stop()
	for _, a := range p.Funded {
		r.chain.funded = append(r.chain.funded, common.BytesToAddress(a, nodeLoc))
	}
	// make the pool read the funded state: announce a child of the head
	r.chain.setHead(r.chain.makeBlock(r.chain.head(), nil))
	if err := r.reorgBarrier(5 * time.Second); err != nil {
		x.fail("quaipool/stall/setup", "the pool did not come to rest within 5 s", s)
		return x.runRecover(&Spec{ID: s.ID, Kind: "recover", Tx: p.Txs[0].Tx, SgChain: nodeChain.String(), SgLoc: []byte{0, 0}, Note: "quaipool"})
	}
	n := len(p.Txs)
	hashes := make([]common.Hash, n)
	for i := range p.Txs {
		func() {
			defer func() { recover() }()
			hashes[i] = p.Txs[i].Tx.build().Hash()
		}()
	}
	peek := func() ([]bool, []common.InternalAddress) {
		c, a := make([]bool, n), make([]common.InternalAddress, n)
		for i, h := range hashes {
			a[i], c[i] = r.pool.PeekSender(h)
		}
		return c, a
	}
	for step, op := range p.Ops {
		before, _ := peek()
		refused := map[int]bool{}
		func() {
			defer func() {
				if e := recover(); e != nil {
					x.fail("quaipool/panic/"+op.K, fmt.Sprint("panic: ", e), s)
				}
			}()
			switch op.K {
			case "add", "addlocal":
				var txs []*types.Transaction
				for _, i := range op.T {
					txs = append(txs, p.Txs[i].Tx.build())
				}
				var errs []error
				if op.K == "addlocal" {
					errs = r.pool.AddLocals(txs)
				} else {
					errs = r.pool.AddRemotes(txs)
				}
				for k, i := range op.T {
					t := &p.Txs[i]
					if k < len(errs) && errs[k] != nil && !errors.Is(errs[k], core.ErrAlreadyKnown) {
						refused[i] = true
						if t.Signer != nil && t.Funded && errors.Is(errs[k], core.ErrInvalidSender) {
							x.fail("quaipool/control-refused", "the pool refused a validly signed transaction of a funded account as having an invalid sender ("+t.Label+")", s)
						}
					}
					if k < len(errs) && errs[k] == nil && t.Signer == nil {
						x.fail("quaipool/"+t.Label+"/pool-took-unsigned", "the pool accepted a Quai transaction nobody signed in this form ("+t.Label+")", s)
					}
					x.rep.Count(fmt.Sprintf("quaipool/add/%s/refused=%v", t.Label, refused[i]))
				}
			case "proc":
				// Process: the cached sender, if any, is handed to AsMessageWithSender as is (state_processor.go:
				// senders[tx.Hash()] from PeekSenderNoLock, then tx.AsMessageWithSender(MakeSigner(..), baseFee, sender))
				i := op.T[0]
				t := &p.Txs[i]
				r.pool.SendersMu.RLock()
				a, cached := r.pool.PeekSenderNoLock(hashes[i])
				r.pool.SendersMu.RUnlock()
				var sp *common.InternalAddress
				if cached {
					sp = &a
				}
				cfg := &params.ChainConfig{ChainID: new(big.Int).Set(nodeChain), Location: nodeLoc}
				msg, err := p.Txs[i].Tx.build().AsMessageWithSender(types.MakeSigner(cfg, big.NewInt(1001)), big.NewInt(1), sp)
				if err == nil && t.wrongSender(msg.From().Bytes()) {
					x.fail("quaipool/"+t.Label+"/block-attributes-a-sender-nobody-signed-for", fmt.Sprintf("block processing (sender taken from the pool's cache: cached=%v) attributes a Quai transaction to an account whose key did not sign it for this chain (%s)", cached, t.Label), s)
				}
				// and the cache is transparent: whatever it yields is what the signer check on a fresh object yields
				if fr := uncached(t.Tx, nodeChain, nodeLoc); err == nil && (fr.Class != "ok" || !bytes.Equal(fr.Addr, msg.From().Bytes())) {
					x.fail("quaipool/"+t.Label+"/block-sender-differs-from-signer-check", fmt.Sprintf("block processing (cached=%v) attributes a sender where SignerV1.Sender on a fresh object answers %v (%s)", cached, fr, t.Label), s)
				}
				if err != nil && t.Signer != nil {
					x.fail("quaipool/control-refused/block", "block processing cannot attribute a validly signed Quai transaction ("+t.Label+")", s)
				}
				x.rep.Count(fmt.Sprintf("quaipool/proc/%s/cached=%v", t.Label, cached))
				x.rep.Nontrivial(fmt.Sprintf("quaipool/proc/%s/%v", t.Label, cached))
			}
		}()
		_ = r.reorgBarrier(5 * time.Second)
		if !r.drain(s.ID, step) {
			x.fail("quaipool/stall/"+op.K, "the pool's asynchronous loops did not come to rest within 5 s", s)
			break
		}
		after, addrs := peek()
		for i := range p.Txs {
			t := &p.Txs[i]
			if after[i] && !before[i] {
				if fr := uncached(t.Tx, nodeChain, nodeLoc); t.wrongSender(addrs[i][:]) || fr.Class != "ok" || !bytes.Equal(fr.Addr, addrs[i][:]) {
					x.fail("quaipool/"+t.Label+"/senders-cache-holds-unverified-sender/after-"+op.K, "after "+op.K+" the pool's senders cache maps the hash of a Quai transaction to an address that is not the address of the key that signed it ("+t.Label+")", s)
				}
				if refused[i] {
					x.fail("quaipool/"+t.Label+"/refused-add-enters-senders-cache", "a Quai transaction the pool refused ("+t.Label+") was entered into the senders cache", s)
				}
			}
		}
		x.rep.Count("quaipool/op/" + op.K)
	}
	x.rep.Nontrivial(fmt.Sprintf("quaipool/history/%d/%d", len(p.Txs), len(p.Ops)))
	return x.runRecover(&Spec{ID: s.ID, Kind: "recover", Tx: p.Txs[0].Tx, SgChain: nodeChain.String(), SgLoc: []byte{0, 0}, Note: "quaipool"})
}

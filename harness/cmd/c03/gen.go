// C03 harness: fixed corpus (boundary sweeps, known quirks) and random generation.
package main

import (
	"fmt"
	"math/big"

	"github.com/dominant-strategies/go-quai/crypto"

	"verifharness/hlib"
)

var (
	one   = big.NewInt(1)
	two   = big.NewInt(2)
	p64   = new(big.Int).Lsh(one, 64)
	p256  = new(big.Int).Lsh(one, 256)
	max25 = new(big.Int).Sub(p256, one)
)

func add(a *big.Int, d int64) *big.Int { return new(big.Int).Add(a, big.NewInt(d)) }

// aliasChains: chain ids DIFFERENT from chain that a weakened comparison would take for the same one
// (round 3): equal low 64 / 63 / 32 bits (big.Int.Uint64 / Int64 / uint32 truncation) in both directions,
// equal above 256 bits cut off, a trailing zero byte / decimal digit (prefix comparisons of Bytes() / String()),
// same bit length. Every comparison of chain ids in the signing code must tell all of them apart.
func aliasChains(chain string) []string {
	c := bigOf(chain)
	var out []string
	seen := map[string]bool{chain: true}
	put := func(x *big.Int) {
		if x.Sign() < 0 || seen[x.String()] {
			return
		}
		seen[x.String()] = true
		out = append(out, x.String())
	}
	sh := func(k uint) *big.Int { return new(big.Int).Lsh(one, k) }
	for _, k := range []uint{64, 63, 32, 256} {
		put(new(big.Int).Add(c, sh(k)))
		put(new(big.Int).Mod(c, sh(k))) // the other direction: c itself is the long one
	}
	put(new(big.Int).Add(c, new(big.Int).Mul(big.NewInt(7), sh(200))))
	put(new(big.Int).Add(c, new(big.Int).Mul(new(big.Int).SetUint64(^uint64(0)), sh(64))))
	put(new(big.Int).Lsh(c, 8))
	put(new(big.Int).Mul(c, big.NewInt(10)))
	put(new(big.Int).Xor(c, one))
	return out
}

func randBig(r *hlib.Rng) *big.Int {
	switch r.Pick(2, 3, 2, 2, 2, 1) {
	case 0:
		return big.NewInt(0)
	case 1:
		return big.NewInt(int64(r.Intn(300)))
	case 2:
		return new(big.Int).SetUint64(r.Next())
	case 3:
		return new(big.Int).SetBytes(r.Bytes(1 + r.Intn(32)))
	case 4:
		return []*big.Int{big.NewInt(127), big.NewInt(128), big.NewInt(255), big.NewInt(256), add(p64, -1), p64, add(p64, 1)}[r.Intn(7)]
	}
	return new(big.Int).Set(max25)
}

func randU64(r *hlib.Rng) uint64 {
	switch r.Pick(2, 3, 2, 2) {
	case 0:
		return 0
	case 1:
		return uint64(r.Intn(1000))
	case 2:
		return []uint64{127, 128, 16383, 16384, 1 << 32, 1<<63 - 1, 1 << 63, ^uint64(0)}[r.Intn(8)]
	}
	return r.Next()
}

func randAddr(r *hlib.Rng) []byte {
	a := r.Bytes(20)
	if r.Chance(50) {
		a[0] = 0
	}
	return a
}

func randTx(r *hlib.Rng, chain string) *TxSpec {
	t := &TxSpec{Chain: chain, Nonce: randU64(r), GasPrice: randBig(r).String(), Gas: randU64(r), Value: randBig(r).String(),
		V: "0", R: "0", S: "0"}
	if r.Chance(80) {
		t.To = randAddr(r)
	}
	t.Data = r.Bytes([]int{0, 0, 1, 5, 36, 127, 128, 200}[r.Intn(8)])
	if len(t.Data) == 0 {
		t.Data = nil
	}
	for i, n := 0, r.Pick(3, 3, 2, 1); i < n; i++ {
		tu := ALTuple{Addr: randAddr(r)}
		for j, m := 0, r.Intn(4); j < m; j++ {
			tu.Keys = append(tu.Keys, r.Bytes(32))
		}
		t.AL = append(t.AL, tu)
	}
	if r.Chance(50) {
		t.Parent = r.Bytes(32)
	}
	if r.Chance(50) {
		t.Mix = r.Bytes(32)
	}
	if r.Chance(50) {
		w := randU64(r)
		t.WNonce = &w
	}
	return t
}

type mutation struct {
	field  string
	signed bool
	sigmut bool
	tx     *TxSpec
	chains []string // signer chains to evaluate the mutated transaction with
}

func flip(b []byte, i int) []byte {
	c := append([]byte(nil), b...)
	c[i%len(c)] ^= 0x01
	return c
}

func incStr(s string, d int64) string { return add(bigOf(s), d).String() }

// mutations returns every single-field mutation of the signed transaction base.
func mutations(base *TxSpec, r *hlib.Rng) []mutation {
	n, half := crypto.VerifC03CurveOrder()
	var ms []mutation
	sg := func(field string, f func(t *TxSpec)) {
		t := base.clone()
		f(t)
		ms = append(ms, mutation{field: field, signed: true, tx: t, chains: []string{t.Chain}})
	}
	sig := func(field string, f func(t *TxSpec)) {
		t := base.clone()
		f(t)
		if t.V == base.V && t.R == base.R && t.S == base.S {
			return
		}
		ms = append(ms, mutation{field: field, sigmut: true, tx: t, chains: []string{t.Chain}})
	}
	un := func(field string, f func(t *TxSpec)) {
		t := base.clone()
		f(t)
		ms = append(ms, mutation{field: field, tx: t, chains: []string{t.Chain}})
	}
	// chain ID: evaluated by a signer of the original chain and by one of the new chain
	for _, d := range []int64{1, 3000} {
		t := base.clone()
		t.Chain = incStr(base.Chain, d)
		ms = append(ms, mutation{field: "chain_id", signed: true, tx: t, chains: []string{base.Chain, t.Chain}})
	}
	// ... and to two chain ids a truncating comparison confuses with the original (round 3)
	if al := aliasChains(base.Chain); len(al) > 0 {
		for _, c := range []string{al[0], al[r.Intn(len(al))]} {
			t := base.clone()
			t.Chain = c
			ms = append(ms, mutation{field: "chain_id", signed: true, tx: t, chains: []string{base.Chain, t.Chain}})
		}
	}
	sg("nonce", func(t *TxSpec) { t.Nonce++ })
	sg("nonce", func(t *TxSpec) { t.Nonce ^= 1 << uint(r.Intn(64)) })
	sg("gas_price", func(t *TxSpec) { t.GasPrice = incStr(t.GasPrice, 1) })
	sg("gas", func(t *TxSpec) { t.Gas++ })
	sg("gas", func(t *TxSpec) { t.Gas ^= 1 << uint(r.Intn(64)) })
	sg("value", func(t *TxSpec) { t.Value = incStr(t.Value, 1) })
	if base.To != nil {
		sg("to", func(t *TxSpec) { t.To = flip(t.To, r.Intn(20)) })
		sg("to", func(t *TxSpec) { t.To = nil })
	} else {
		sg("to", func(t *TxSpec) { t.To = randAddr(r) })
	}
	if len(base.Data) > 0 {
		sg("data", func(t *TxSpec) { t.Data = flip(t.Data, r.Intn(len(t.Data))) })
		sg("data", func(t *TxSpec) { t.Data = t.Data[:len(t.Data)-1] })
	}
	sg("data", func(t *TxSpec) { t.Data = append(t.Data, byte(r.Next())) })
	sg("access_list", func(t *TxSpec) { t.AL = append(t.AL, ALTuple{Addr: randAddr(r)}) })
	if len(base.AL) > 0 {
		i := r.Intn(len(base.AL))
		sg("access_list", func(t *TxSpec) { t.AL = append(t.AL[:i:i], t.AL[i+1:]...) })
		sg("access_list", func(t *TxSpec) { t.AL[i].Addr = flip(t.AL[i].Addr, r.Intn(20)) })
		sg("access_list", func(t *TxSpec) { t.AL[i].Keys = append(t.AL[i].Keys, r.Bytes(32)) })
		if len(base.AL[i].Keys) > 0 {
			j := r.Intn(len(base.AL[i].Keys))
			sg("access_list", func(t *TxSpec) { t.AL[i].Keys[j] = flip(t.AL[i].Keys[j], r.Intn(32)) })
			sg("access_list", func(t *TxSpec) { t.AL[i].Keys = t.AL[i].Keys[:len(t.AL[i].Keys)-1] })
		}
		if len(base.AL) > 1 {
			sg("access_list", func(t *TxSpec) { t.AL[0], t.AL[len(t.AL)-1] = t.AL[len(t.AL)-1], t.AL[0] })
			if fmt.Sprint(ms[len(ms)-1].tx.AL) == fmt.Sprint(base.AL) {
				ms = ms[:len(ms)-1]
			}
		}
	}
	// signature values
	v := bigOf(base.V)
	for _, nv := range []*big.Int{new(big.Int).Sub(one, v), add(v, 2), add(v, 27), big.NewInt(228), big.NewInt(229), big.NewInt(255), big.NewInt(256), p64} {
		nv := nv
		sig("V", func(t *TxSpec) { t.V = nv.String() })
	}
	rv, sv := bigOf(base.R), bigOf(base.S)
	for _, nr := range []*big.Int{add(rv, 1), add(rv, -1), big.NewInt(0), add(n, -1), n, add(n, 1), new(big.Int).Add(rv, n), max25} {
		nr := nr
		sig("R", func(t *TxSpec) { t.R = nr.String() })
	}
	twin := new(big.Int).Sub(n, sv)
	for _, ns := range []*big.Int{add(sv, 1), add(sv, -1), big.NewInt(0), half, add(half, 1), add(n, -1), n, new(big.Int).Add(sv, n), twin} {
		ns := ns
		sig("S", func(t *TxSpec) { t.S = ns.String() })
	}
	// the malleable twin (r, n-s, 1-v) is a valid ECDSA signature of the same key: low-S must kill it
	sig("S_twin_V_flip", func(t *TxSpec) { t.S = twin.String(); t.V = new(big.Int).Sub(one, v).String() })
	// unsigned work fields
	un("parent_hash", func(t *TxSpec) {
		if t.Parent == nil {
			t.Parent = r.Bytes(32)
		} else {
			t.Parent = flip(t.Parent, r.Intn(32))
		}
	})
	un("mix_hash", func(t *TxSpec) {
		if t.Mix == nil {
			t.Mix = r.Bytes(32)
		} else {
			t.Mix = nil
		}
	})
	un("work_nonce", func(t *TxSpec) {
		w := uint64(1)
		if t.WNonce != nil {
			w = *t.WNonce + 1
		}
		t.WNonce = &w
	})
	return ms
}

func locs() [][]byte { return [][]byte{{0, 0}, {0, 1}, {1, 0}, {2, 2}} }

func generate(r *hlib.Rng, n int, tier string) []*Spec {
	var out []*Spec
	id := uint64(0)
	push := func(s *Spec) {
		id++
		s.ID = id
		out = append(out, s)
	}
	N, half := crypto.VerifC03CurveOrder()

	// ---- A. ValidateSignatureValues boundary sweep ----
	rnd := new(big.Int).Mod(new(big.Int).SetBytes(r.Bytes(32)), half)
	vals := []*big.Int{big.NewInt(-1), big.NewInt(0), big.NewInt(1), add(half, -1), half, add(half, 1), add(N, -1), N, add(N, 1), max25, rnd}
	names := []string{"-1", "0", "1", "h-1", "h", "h+1", "n-1", "n", "n+1", "max", "rnd"}
	for _, v8 := range []uint8{0, 1, 2, 27, 28, 255} {
		for i, rv := range vals {
			for j, sv := range vals {
				// the full grid for v in {0,1}; a thinner one for the bad recovery ids
				if v8 > 1 && (i+j)%3 != 0 {
					continue
				}
				push(&Spec{Kind: "validate", V8: v8, R: rv.String(), S: sv.String(), Note: fmt.Sprintf("v%d/r=%s/s=%s", v8, names[i], names[j])})
			}
		}
	}

	// ---- keys ----
	keys := []ekey{newKey(r, true), newKey(r, true), newKey(r, false), newKey(r, false)}
	chains := []string{"9000", "9000", "9000", "1", "12000", new(big.Int).Add(p64, big.NewInt(5)).String(), "0"}

	// ---- B. recoverPlain sweep around a real signature ----
	{
		base := randTx(r, "9000")
		sign(base, keys[0])
		rv, sv := bigOf(base.R), bigOf(base.S)
		Vs := []*big.Int{big.NewInt(0), big.NewInt(1), big.NewInt(2), big.NewInt(27), big.NewInt(28), big.NewInt(228), big.NewInt(229), big.NewInt(255),
			big.NewInt(256), big.NewInt(-1), big.NewInt(-27), big.NewInt(-28), big.NewInt(-54), big.NewInt(-55), big.NewInt(-56), big.NewInt(-283), p64, add(p64, 1),
			new(big.Int).Neg(add(p64, 27))}
		type rs struct {
			n    string
			r, s *big.Int
		}
		pairs := []rs{{"real", rv, sv}, {"r=0", big.NewInt(0), sv}, {"s=0", rv, big.NewInt(0)}, {"r=n", N, sv}, {"r=n-1", add(N, -1), sv},
			{"s=h", rv, half}, {"s=h+1", rv, add(half, 1)}, {"s=twin", rv, new(big.Int).Sub(N, sv)}, {"s=n", rv, N}, {"r=-1", big.NewInt(-1), sv},
			{"r=1,s=1", big.NewInt(1), big.NewInt(1)}, {"r=max", max25, sv}}
		for _, V := range Vs {
			for k, p := range pairs {
				if V.Sign() != 0 && V.Cmp(one) != 0 && k > 3 && V.Cmp(big.NewInt(-54)) != 0 {
					continue
				}
				t := base.clone()
				t.V, t.R, t.S = V.String(), p.r.String(), p.s.String()
				push(&Spec{Kind: "recover", Tx: t, SgChain: "9000", SgLoc: []byte{0, 0}, Note: "V=" + V.String() + "/" + p.n})
			}
		}
		// C. the negative-V alias (theorem negative_v_aliases_refuted) with the right and a wrong chain
		for _, V := range []int64{-54, -55} {
			t := base.clone()
			want := big.NewInt(0)
			if V == -55 {
				want = big.NewInt(1)
			}
			if bigOf(base.V).Cmp(want) != 0 {
				continue
			}
			t.V = big.NewInt(V).String()
			push(&Spec{Kind: "recover", Tx: t, SgChain: "9000", SgLoc: []byte{1, 0}, Note: "negV"})
			push(&Spec{Kind: "recover", Tx: t, SgChain: "9001", SgLoc: []byte{0, 0}, Note: "negV/wrong-chain"})
		}
		// wrong chain beats everything else, whatever the values
		for _, c := range append([]string{"9001", "0", "1"}, aliasChains("9000")...) {
			push(&Spec{Kind: "recover", Tx: base.clone(), SgChain: c, SgLoc: []byte{0, 0}, Note: "wrong-chain"})
			t := base.clone()
			t.S = "0"
			push(&Spec{Kind: "recover", Tx: t, SgChain: c, SgLoc: []byte{0, 0}, Note: "wrong-chain/bad-s"})
		}
	}

	// ---- D. random signed transactions: bytes, every single-field mutation, cache histories ----
	for i := 0; i < n; i++ {
		k := keys[r.Intn(len(keys))]
		chain := chains[r.Intn(len(chains))]
		if i == 0 {
			chain = "9000"
		}
		base := randTx(r, chain)
		sign(base, k)
		orig := k.addr()
		loc := locs()[r.Intn(4)]
		push(&Spec{Kind: "signbytes", Tx: base})
		push(&Spec{Kind: "fullbytes", Tx: base})
		// unsigned / unusual shapes for the byte comparison
		if i%2 == 0 {
			t := randTx(r, chain)
			t.V, t.R, t.S = randBig(r).String(), randBig(r).String(), randBig(r).String()
			push(&Spec{Kind: "signbytes", Tx: t})
			push(&Spec{Kind: "fullbytes", Tx: t})
		}
		ms := mutations(base, r)
		for _, m := range ms {
			// quick tier: all signed-field and V mutations, a sample of the R/S boundary values
			if tier == "quick" && i >= 3 && (m.field == "R" || m.field == "S") && !r.Chance(40) {
				continue
			}
			for _, c := range m.chains {
				push(&Spec{Kind: "mut", Tx: m.tx, Base: base, Field: m.field, Signed: m.signed, SigMut: m.sigmut, Orig: orig, SgChain: c, SgLoc: loc})
			}
			if m.signed && r.Chance(15) {
				push(&Spec{Kind: "signbytes", Tx: m.tx})
			}
		}
		// cache histories on one object
		for h := 0; h < 3; h++ {
			t := base.clone()
			note := "valid"
			switch r.Pick(6, 2, 2) {
			case 1:
				t.S = new(big.Int).Sub(N, bigOf(t.S)).String()
				note = "high-s"
			case 2:
				t.R = new(big.Int).Mod(new(big.Int).SetBytes(r.Bytes(32)), N).String()
				note = "random-r"
			}
			others := []string{incStr(t.Chain, 1), "1", "77"}
			if al := aliasChains(t.Chain); len(al) > 0 {
				others = append(others, al[r.Intn(len(al))], al[r.Intn(len(al))], al[0])
			}
			var ops []COp
			for j, m := 0, 3+r.Intn(8); j < m; j++ {
				switch r.Pick(2, 5, 4) {
				case 0:
					ops = append(ops, COp{K: "H"})
				case 1:
					ops = append(ops, COp{K: "S", Chain: t.Chain, Loc: locs()[r.Intn(4)]})
				default:
					c := others[r.Intn(len(others))]
					if c == t.Chain {
						c = "78"
					}
					ops = append(ops, COp{K: "S", Chain: c, Loc: locs()[r.Intn(4)]})
				}
			}
			push(&Spec{Kind: "cache", Tx: t, Ops: ops, Note: note})
		}
	}
	// fixed cache histories: fill with chain A, ask chain B, and the Hash()-then-other-chain order
	{
		base := randTx(r, "9000")
		sign(base, keys[1])
		l0, l1 := []byte{0, 0}, []byte{1, 0}
		push(&Spec{Kind: "cache", Tx: base, Note: "fill-then-cross", Ops: []COp{{K: "S", Chain: "9000", Loc: l0}, {K: "S", Chain: "9001", Loc: l0}, {K: "S", Chain: "9000", Loc: l1}, {K: "S", Chain: "1", Loc: l1}}})
		push(&Spec{Kind: "cache", Tx: base, Note: "hash-then-cross", Ops: []COp{{K: "H"}, {K: "S", Chain: "9001", Loc: l1}, {K: "S", Chain: "9000", Loc: l1}, {K: "H"}, {K: "S", Chain: "9001", Loc: l0}}})
		push(&Spec{Kind: "cache", Tx: base, Note: "cross-first", Ops: []COp{{K: "S", Chain: "9001", Loc: l0}, {K: "H"}, {K: "S", Chain: "9001", Loc: l0}, {K: "S", Chain: "9000", Loc: l0}}})
		// round 3: the cache filled under the transaction's own chain (by Hash() or by Sender), then asked by
		// the signer of every chain id that a truncating / prefix comparison confuses with it - for a
		// transaction of a short chain id and for transactions of long ones (the local chain is then the alias)
		long1 := new(big.Int).Add(p64, big.NewInt(9000)).String()
		long2 := new(big.Int).Add(new(big.Int).Lsh(big.NewInt(7), 200), big.NewInt(9000)).String()
		for bi, ch := range []string{"9000", long1, long2} {
			b := randTx(r, ch)
			sign(b, keys[bi%2])
			for ai, a := range aliasChains(ch) {
				la := locs()[ai%4]
				push(&Spec{Kind: "cache", Tx: b, Note: "alias/hash-then-alias", Ops: []COp{{K: "H"}, {K: "S", Chain: a, Loc: la}, {K: "S", Chain: ch, Loc: l0}}})
				push(&Spec{Kind: "cache", Tx: b, Note: "alias/fill-then-alias", Ops: []COp{{K: "S", Chain: ch, Loc: la}, {K: "S", Chain: a, Loc: l0}, {K: "S", Chain: ch, Loc: l1}, {K: "S", Chain: a, Loc: la}}})
				push(&Spec{Kind: "cache", Tx: b, Note: "alias/alias-first", Ops: []COp{{K: "S", Chain: a, Loc: l0}, {K: "S", Chain: ch, Loc: la}, {K: "H"}, {K: "S", Chain: a, Loc: la}}})
			}
		}
	}

	// ---- E. Qi ----
	qk := [][]byte{grindQi(r, true), grindQi(r, true), grindQi(r, true)}
	att := [][]byte{grindQi(r, true), grindQi(r, true), grindQi(r, true)}
	quaiKey := grindQi(r, false)
	freshQi := func() []byte {
		a := r.Bytes(20)
		a[0] = 0x00
		a[1] |= 0x80
		return a
	}
	shapes := []struct {
		dens []uint8
		outs []uint8
	}{{[]uint8{6}, []uint8{5, 4}}, {[]uint8{6, 6}, []uint8{6, 5}}, {[]uint8{6, 4, 8}, []uint8{8, 5, 4}}}
	rounds := 1
	if tier == "thorough" {
		rounds = 4
	}
	for round := 0; round < rounds; round++ {
		for _, sh := range shapes {
			k := len(sh.dens)
			owners := qk[:k]
			var outs, alt []QiOut
			for _, d := range sh.outs {
				outs = append(outs, QiOut{d, freshQi()})
			}
			alt = append(alt, outs...)
			alt[0] = QiOut{outs[0].Den, freshQi()}
			mkq := func(variant, expect string, f func(q *QiSpec)) {
				for _, path := range []string{"proc", "pool"} {
					q := &QiSpec{Variant: variant, Path: path, CheckSig: true, Expect: expect, Owners: owners, Dens: sh.dens,
						Carry: append([][]byte(nil), owners...), Signers: append([][]byte(nil), owners...), Outs: outs, TxChain: 9000, SigChain: 9000}
					f(q)
					if path == "pool" && !q.CheckSig {
						continue
					}
					push(&Spec{Kind: "qi", Qi: q, Note: variant})
				}
			}
			j := r.Intn(k)
			mkq("owners-sign", "accept", func(q *QiSpec) {})
			mkq("owners-sign-unchecked", "accept", func(q *QiSpec) { q.CheckSig = false })
			mkq("all-inputs-carry-a-non-owning-key", "refuse", func(q *QiSpec) { q.Carry = append([][]byte(nil), att[:k]...); q.Signers = q.Carry })
			mkq("one-input-carries-a-non-owning-key", "refuse", func(q *QiSpec) { q.Carry[j] = att[0]; q.Signers = q.Carry })
			mkq("an-input-carries-a-quai-ledger-key", "refuse", func(q *QiSpec) { q.Carry[j] = quaiKey; q.Signers = q.Carry })
			mkq("signed-by-non-owning-keys", "refuse", func(q *QiSpec) { q.Signers = append([][]byte(nil), att[:k]...) })
			mkq("signature-over-other-outputs", "refuse", func(q *QiSpec) { q.AltOuts = alt })
			mkq("signature-over-other-data", "refuse", func(q *QiSpec) { q.AltData = freshQi() })
			mkq("signature-for-another-chain", "refuse", func(q *QiSpec) { q.SigChain = 1 })
			mkq("transaction-of-another-chain", "refuse", func(q *QiSpec) { q.TxChain = 1; q.SigChain = 1 })
			mkq("non-owning-key-unchecked", "refuse", func(q *QiSpec) { q.CheckSig = false; q.Carry[j] = att[0]; q.Signers = q.Carry })
			// by design: with checkSig=false (hash found in the pool's sender cache) the signature is not looked at
			mkq("bad-signature-unchecked", "accept-unchecked", func(q *QiSpec) { q.CheckSig = false; q.Signers = append([][]byte(nil), att[:k]...) })
			if k > 1 {
				mkq("one-signer-is-not-an-owner", "refuse", func(q *QiSpec) { q.Signers[j] = att[1] })
				mkq("one-owner-did-not-sign", "refuse", func(q *QiSpec) { q.Signers = q.Signers[:k-1] })
				// same owners, other order: MuSig2 aggregation without sorting is order dependent (no expectation, model only)
				mkq("signers-in-another-order", "", func(q *QiSpec) { q.Signers[0], q.Signers[k-1] = q.Signers[k-1], q.Signers[0] })
			}
		}
	}
	// ---- E2. ownership is per INPUT, not per distinct key / owner / previous transaction ----
	// Every assignment of owners and carried keys over two Qi keys {A, V} for 2 and 3 inputs (the
	// carried keys sign, in input order, so only the ownership test stands between the spend and
	// acceptance), on every path: ProcessQiTx checkSig=true / false and the pool. Expected: accepted
	// iff every input carries the key of ITS consumed entry. Covers own,own / own,foreign /
	// foreign,own / same key on entries of two owners / a key repeated after a legitimate first use.
	{
		pool2 := [][]byte{qk[0], att[0]}
		type pathSel struct {
			path  string
			check bool
		}
		paths := []pathSel{{"proc", true}, {"proc", false}, {"pool", true}}
		grid := func(k int, sameTx bool) {
			dens := make([]uint8, k)
			var outs []QiOut
			for i := 0; i < k; i++ {
				dens[i] = 6
				d := uint8(6)
				if i == k-1 {
					d = 5
				}
				outs = append(outs, QiOut{d, freshQi()})
			}
			total := 1
			for i := 0; i < k; i++ {
				total *= len(pool2)
			}
			for oc := 0; oc < total; oc++ {
				for cc := 0; cc < total; cc++ {
					owners, carry := make([][]byte, k), make([][]byte, k)
					for i, o, c := 0, oc, cc; i < k; i, o, c = i+1, o/len(pool2), c/len(pool2) {
						owners[i], carry[i] = pool2[o%len(pool2)], pool2[c%len(pool2)]
					}
					for _, p := range paths {
						push(qiPatternSpec(owners, carry, dens, outs, p.path, p.check, sameTx))
					}
				}
			}
		}
		grid(2, false)
		grid(2, true)
		grid(3, false)
		// random: 2..5 inputs, keys and owners drawn from three Qi keys, shared or distinct previous transaction
		pool3 := [][]byte{qk[0], att[0], qk[1]}
		for i := 0; i < 12+n; i++ {
			k := 2 + r.Intn(4)
			dens := make([]uint8, k)
			var outs []QiOut
			owners, carry := make([][]byte, k), make([][]byte, k)
			honest := r.Chance(25)
			for j := 0; j < k; j++ {
				dens[j] = 6
				d := uint8(6)
				if j == k-1 {
					d = 5
				}
				outs = append(outs, QiOut{d, freshQi()})
				owners[j] = pool3[r.Intn(3)]
				carry[j] = pool3[r.Intn(3)]
				if honest || r.Chance(50) {
					carry[j] = owners[j]
				}
			}
			p := paths[r.Intn(3)]
			push(qiPatternSpec(owners, carry, dens, outs, p.path, p.check, r.Bool()))
		}
	}

	// ---- E3. the pool's senders cache (tx hash -> "signature verified") and block processing ----
	// Real TxPool histories over a fixed UTXO set: entries 0,1 owned by V, 2 by A (the attacker), 3 by W;
	// index 4 names an outpoint that does not exist. Every class of refused transaction (foreign signature,
	// signature over other contents / chain, non-owning key, overspend, wrong chain, missing entry, inactive
	// output) goes through every way a transaction reaches the pool (remote, local, batch, re-add of a refused /
	// known one, reorg re-injection with and without a previous add) and is then "included in a block".
	{
		V, W, A := qk[0], qk[1], att[0]
		owners := [][]byte{V, V, A, W}
		dens := []uint8{6, 6, 6, 6}
		o1 := func() []QiOut { return []QiOut{{5, freshQi()}, {4, freshQi()}} }
		o2 := func() []QiOut { return []QiOut{{6, freshQi()}, {5, freshQi()}} }
		inactive := freshQi()
		inactive[0] = 0x01
		catalog := func() []PTx {
			return []PTx{
				{Label: "owner-signed-1in", Ins: []int{0}, Carry: [][]byte{V}, Signers: [][]byte{V}, Outs: o1(), TxChain: 9000, SigChain: 9000},
				{Label: "owner-signed-2in", Ins: []int{0, 1}, Carry: [][]byte{V, V}, Signers: [][]byte{V, V}, Outs: o2(), TxChain: 9000, SigChain: 9000},
				{Label: "two-owners-signed", Ins: []int{0, 2}, Carry: [][]byte{V, A}, Signers: [][]byte{V, A}, Outs: o2(), TxChain: 9000, SigChain: 9000},
				{Label: "other-owner-signed", Ins: []int{3}, Carry: [][]byte{W}, Signers: [][]byte{W}, Outs: o1(), TxChain: 9000, SigChain: 9000},
				{Label: "owner-key-foreign-signature", Ins: []int{0}, Carry: [][]byte{V}, Signers: [][]byte{A}, Outs: o1(), TxChain: 9000, SigChain: 9000},
				{Label: "owner-keys-foreign-signature-2in", Ins: []int{0, 1}, Carry: [][]byte{V, V}, Signers: [][]byte{A, A}, Outs: o2(), TxChain: 9000, SigChain: 9000},
				{Label: "one-owner-replaced-by-cosigner", Ins: []int{0, 2}, Carry: [][]byte{V, A}, Signers: [][]byte{A, A}, Outs: o2(), TxChain: 9000, SigChain: 9000},
				{Label: "one-owner-did-not-sign", Ins: []int{0, 2}, Carry: [][]byte{V, A}, Signers: [][]byte{A}, Outs: o2(), TxChain: 9000, SigChain: 9000},
				{Label: "signature-over-other-outputs", Ins: []int{0}, Carry: [][]byte{V}, Signers: [][]byte{V}, Outs: o1(), AltOuts: o1(), TxChain: 9000, SigChain: 9000},
				{Label: "signature-for-another-chain", Ins: []int{0}, Carry: [][]byte{V}, Signers: [][]byte{V}, Outs: o1(), TxChain: 9000, SigChain: 1},
				{Label: "foreign-signature-and-overspend", Ins: []int{0}, Carry: [][]byte{V}, Signers: [][]byte{A}, Outs: []QiOut{{7, freshQi()}}, TxChain: 9000, SigChain: 9000, RestBad: "overspend"},
				{Label: "non-owning-key", Ins: []int{0}, Carry: [][]byte{A}, Signers: [][]byte{A}, Outs: o1(), TxChain: 9000, SigChain: 9000},
				{Label: "owner-signed-overspend", Ins: []int{0}, Carry: [][]byte{V}, Signers: [][]byte{V}, Outs: []QiOut{{7, freshQi()}}, TxChain: 9000, SigChain: 9000, RestBad: "overspend"},
				{Label: "transaction-of-another-chain", Ins: []int{0}, Carry: [][]byte{V}, Signers: [][]byte{V}, Outs: o1(), TxChain: 1, SigChain: 1},
				{Label: "missing-entry", Ins: []int{4}, Carry: [][]byte{A}, Signers: [][]byte{A}, Outs: o1(), TxChain: 9000, SigChain: 9000},
				{Label: "owner-signed-inactive-output", Ins: []int{0}, Carry: [][]byte{V}, Signers: [][]byte{V}, Outs: []QiOut{{5, inactive}}, TxChain: 9000, SigChain: 9000, RestBad: "inactive"},
			}
		}
		const nValid = 4
		mkPool := func(note string, txs []PTx, ops []POp) {
			push(&Spec{Kind: "qipool", Note: note, Pool: &PoolSpec{Owners: owners, Dens: dens, Txs: txs, Ops: ops}})
		}
		op := func(k string, t ...int) POp { return POp{K: k, T: t} }
		cat := catalog()
		for f := nValid; f < len(cat); f++ {
			// universe: 0 = an owner-signed spend of the same entry, 1 = the refused class, 2 = another owner's spend
			u := func() []PTx { c := catalog(); return []PTx{c[0], c[f], c[3]} }
			noProc := cat[f].RestBad == "inactive"
			hs := [][]POp{
				{op("proc", 1), op("add", 1), op("proc", 1)},
				{op("add", 1), op("add", 1), op("proc", 1), op("add", 0), op("proc", 1), op("proc", 0)},
				{op("reorg", 1), op("proc", 1)},
				{op("add", 1), op("reorg", 1), op("proc", 1), op("add", 1), op("proc", 1)},
				{op("add", 0, 1, 2), op("proc", 1), op("proc", 0), op("reorg", 0, 1), op("proc", 1), op("proc", 0)},
				{op("addlocal", 1), op("proc", 1), op("remove", 1), op("proc", 1)},
			}
			for hi, h := range hs {
				var ops []POp
				for _, o := range h {
					if noProc && o.K == "proc" && o.T[0] == 1 {
						continue
					}
					ops = append(ops, o)
				}
				mkPool(fmt.Sprintf("%s/h%d", cat[f].Label, hi), u(), ops)
			}
		}
		for g := 0; g < nValid; g++ {
			c := catalog()
			mkPool("valid/"+c[g].Label, []PTx{c[g], c[4]},
				[]POp{op("proc", 0), op("add", 0), op("proc", 0), op("add", 0), op("remove", 0), op("add", 0), op("reorg", 0), op("proc", 0), op("reorg", 0, 1), op("proc", 0), op("proc", 1)})
		}
		for i := 0; i < 14+n; i++ {
			c := catalog()
			var txs []PTx
			perm := make([]int, len(c))
			for j := range perm {
				perm[j] = j
			}
			for j := len(perm) - 1; j > 0; j-- {
				k := r.Intn(j + 1)
				perm[j], perm[k] = perm[k], perm[j]
			}
			for _, j := range perm[:3+r.Intn(4)] {
				txs = append(txs, c[j])
			}
			var ops []POp
			pick := func() int { return r.Intn(len(txs)) }
			for k, m := 0, 5+r.Intn(8); k < m; k++ {
				switch r.Pick(35, 5, 35, 8, 17) {
				case 0, 1:
					o := POp{K: "add"}
					if r.Chance(12) {
						o.K = "addlocal"
					}
					for b, nb := 0, 1+r.Intn(3); b < nb; b++ {
						o.T = append(o.T, pick())
					}
					ops = append(ops, o)
				case 2:
					if j := pick(); txs[j].RestBad != "inactive" {
						ops = append(ops, op("proc", j))
					}
				case 3:
					ops = append(ops, op("remove", pick()))
				case 4:
					o := POp{K: "reorg"}
					for b, nb := 0, 1+r.Intn(2); b < nb; b++ {
						j := pick()
						dup := false
						for _, q := range o.T {
							dup = dup || q == j
						}
						if !dup {
							o.T = append(o.T, j)
						}
					}
					ops = append(ops, o)
				}
			}
			// every transaction is finally "included in a block"
			for j := range txs {
				if txs[j].RestBad != "inactive" {
					ops = append(ops, op("proc", j))
				}
			}
			mkPool("random", txs, ops)
		}
	}

	// ---- E4. the same cache for Quai transactions (tx hash -> sender), monitors only ----
	{
		k0, k1, k2 := keys[0], keys[1], newKey(r, true)
		Ncurve, _ := crypto.VerifC03CurveOrder()
		mk := func(nonce uint64, chain string, k ekey) *TxSpec {
			t := &TxSpec{Chain: chain, Nonce: nonce, GasPrice: "10", Gas: 21000, To: k1.addr(), Value: "1"}
			sign(t, k)
			return t
		}
		universe := func() []QPTx {
			base := mk(0, "9000", k0)
			v, sv := bigOf(base.V), bigOf(base.S)
			mut := func(label string, f func(t *TxSpec)) QPTx {
				t := base.clone()
				f(t)
				return QPTx{Label: label, Tx: t, NotBy: k0.addr()}
			}
			return []QPTx{
				{Label: "signed-funded", Tx: base, Signer: k0.addr(), Funded: true},
				{Label: "signed-funded-next-nonce", Tx: mk(1, "9000", k0), Signer: k0.addr(), Funded: true},
				{Label: "signed-unfunded", Tx: mk(0, "9000", k2), Signer: k2.addr()},
				mut("malleable-twin", func(t *TxSpec) { t.S = new(big.Int).Sub(Ncurve, sv).String(); t.V = new(big.Int).Sub(one, v).String() }),
				mut("v-flipped", func(t *TxSpec) { t.V = new(big.Int).Sub(one, v).String() }),
				mut("value-changed-after-signing", func(t *TxSpec) { t.Value = "2" }),
				mut("nonce-changed-after-signing", func(t *TxSpec) { t.Nonce = 2 }),
				mut("r-zero", func(t *TxSpec) { t.R = "0" }),
				mut("s-plus-one", func(t *TxSpec) { t.S = incStr(t.S, 1) }),
				{Label: "signed-for-another-chain", Tx: mk(0, "1", k0), NotBy: k0.addr()},
				// round 3: a foreign chain id whose low 64 bits are the local chain id
				{Label: "signed-for-an-alias-chain", Tx: mk(0, aliasChains("9000")[0], k0), NotBy: k0.addr()},
			}
		}
		op := func(k string, t ...int) POp { return POp{K: k, T: t} }
		funded := [][]byte{k0.addr()}
		u := universe()
		for f := 2; f < len(u); f++ {
			push(&Spec{Kind: "quaipool", Note: u[f].Label, QuaiPool: &QuaiPoolSpec{Funded: funded, Txs: universe(),
				Ops: []POp{op("proc", f), op("add", f), op("proc", f), op("add", f), op("add", 0), op("proc", f), op("addlocal", f), op("add", 0, f, 1), op("proc", f), op("proc", 0), op("proc", 1)}}})
		}
		for i := 0; i < 4+n/3; i++ {
			var ops []POp
			for k, m := 0, 6+r.Intn(8); k < m; k++ {
				if r.Chance(55) {
					o := POp{K: "add"}
					if r.Chance(15) {
						o.K = "addlocal"
					}
					for b, nb := 0, 1+r.Intn(3); b < nb; b++ {
						o.T = append(o.T, r.Intn(len(u)))
					}
					ops = append(ops, o)
				} else {
					ops = append(ops, op("proc", r.Intn(len(u))))
				}
			}
			for j := range u {
				ops = append(ops, op("proc", j))
			}
			push(&Spec{Kind: "quaipool", Note: "random", QuaiPool: &QuaiPoolSpec{Funded: funded, Txs: universe(), Ops: ops}})
		}
	}

	// Qi signing bytes
	for i := 0; i < 4+n/3; i++ {
		k := 1 + r.Intn(3)
		var outs []QiOut
		for j, m := 0, r.Intn(4); j < m; j++ {
			outs = append(outs, QiOut{uint8(r.Intn(15)), freshQi()})
		}
		var data []byte
		if r.Chance(50) {
			data = r.Bytes([]int{20, 22, 1, 130}[r.Intn(4)])
		}
		ch := []uint64{9000, 1, 0, 1 << 40}[r.Intn(4)]
		push(&Spec{Kind: "qisign", Qi: &QiSpec{Carry: append(append([][]byte(nil), qk...), att...)[:k], Outs: outs, AltData: data, TxChain: ch, Compress: r.Bool()}})
	}
	_ = two
	return out
}

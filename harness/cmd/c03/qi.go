// C03 harness, Qi part: real core.ProcessQiTx and the pool path
// (core.ValidateQiTxInputs + core.ValidateQiTxOutputsAndSignature) on spends whose carried
// public keys, signers or signed digest deviate from "the owners sign exactly this transaction".
package main

import (
	"bytes"
	"fmt"
	"strings"
	"math/big"

	"github.com/btcsuite/btcd/btcec/v2"
	"github.com/btcsuite/btcd/btcec/v2/schnorr"
	"github.com/btcsuite/btcd/btcec/v2/schnorr/musig2"
	"github.com/dominant-strategies/go-quai/common"
	"github.com/dominant-strategies/go-quai/consensus"
	"github.com/dominant-strategies/go-quai/core"
	"github.com/dominant-strategies/go-quai/core/rawdb"
	"github.com/dominant-strategies/go-quai/core/types"
	"github.com/dominant-strategies/go-quai/crypto"
	"github.com/dominant-strategies/go-quai/log"
	"github.com/dominant-strategies/go-quai/params"
	"google.golang.org/protobuf/proto"

	"verifharness/hlib"
)

var (
	nodeLoc   = common.Location{0, 0}
	nodeChain = big.NewInt(9000)
)

type QiOut struct {
	Den  uint8  `json:"den"`
	Addr []byte `json:"addr"`
}

type QiSpec struct {
	Variant  string   `json:"variant"`
	Path     string   `json:"path"` // proc | pool
	CheckSig bool     `json:"check_sig"`
	Expect   string   `json:"expect"` // accept | refuse | accept-unchecked
	Owners   [][]byte `json:"owners"` // private key owning input i
	Dens     []uint8  `json:"dens"`
	Carry    [][]byte `json:"carry"`   // private key whose public key input i carries
	Signers  [][]byte `json:"signers"` // private keys producing the signature
	Outs     []QiOut  `json:"outs"`
	AltOuts  []QiOut  `json:"alt_outs,omitempty"` // outputs of the transaction the signature is made over, if different
	AltData  []byte   `json:"alt_data,omitempty"`
	TxChain  uint64   `json:"tx_chain"`
	SigChain uint64   `json:"sig_chain"` // chain ID of the transaction the signature is made over
	Compress bool     `json:"compress,omitempty"`
	SameTx   bool     `json:"same_tx,omitempty"` // all consumed outputs belong to ONE previous transaction (indexes 0,1,..)
}

// qiPattern names the relation carried key / owner of every input without any key material:
// "own" or "foreign", followed by "=j" when input j < i already carries the same key.
func qiPattern(owners, carry [][]byte) (string, bool) {
	var toks []string
	all := true
	for i := range carry {
		t := "own"
		if !bytes.Equal(carry[i], owners[i]) {
			t, all = "foreign", false
		}
		for j := 0; j < i; j++ {
			if bytes.Equal(carry[j], carry[i]) {
				t += fmt.Sprintf("=%d", j)
				break
			}
		}
		toks = append(toks, t)
	}
	return strings.Join(toks, "_"), all
}

// qiPatternSpec: inputs owned by owners[i], carrying the public key of carry[i]; the carried keys sign
// (in input order) exactly this transaction, so the ownership test alone decides.
func qiPatternSpec(owners, carry [][]byte, dens []uint8, outs []QiOut, path string, checkSig, sameTx bool) *Spec {
	pat, all := qiPattern(owners, carry)
	expect := "refuse"
	if all {
		expect = "accept"
	}
	variant := "keys-" + pat
	if !checkSig {
		variant += "-unchecked"
	}
	if sameTx {
		variant += "-one-prev-tx"
	}
	q := &QiSpec{Variant: variant, Path: path, CheckSig: checkSig, Expect: expect,
		Owners: append([][]byte(nil), owners...), Dens: append([]uint8(nil), dens...),
		Carry: append([][]byte(nil), carry...), Signers: append([][]byte(nil), carry...),
		Outs: outs, TxChain: 9000, SigChain: 9000, SameTx: sameTx}
	return &Spec{Kind: "qi", Qi: q, Note: variant}
}

type qkey struct {
	priv *btcec.PrivateKey
	pub  []byte // uncompressed
	addr []byte
}

func mkQKey(b []byte) qkey {
	k, _ := btcec.PrivKeyFromBytes(b)
	pub := k.PubKey().SerializeUncompressed()
	return qkey{k, pub, crypto.PubkeyBytesToAddress(pub, nodeLoc).Bytes()}
}

// grindQi returns a private key whose address lies in zone (0,0), Qi ledger (qi) or Quai ledger.
func grindQi(r *hlib.Rng, qi bool) []byte {
	for {
		b := r.Bytes(32)
		b[0] &= 0x7f
		if new(big.Int).SetBytes(b).Sign() == 0 {
			continue
		}
		k := mkQKey(b)
		if k.addr[0] == nodeLoc.BytePrefix() && (k.addr[1] > 127) == qi {
			return b
		}
	}
}

type mockChain struct{ pt *types.WorkObject }

func (m *mockChain) Engine(*types.WorkObjectHeader) consensus.Engine          { return nil }
func (m *mockChain) GetHeaderOrCandidateByHash(common.Hash) *types.WorkObject { return m.pt }
func (m *mockChain) NodeCtx() int                                             { return common.ZONE_CTX }
func (m *mockChain) IsGenesisHash(common.Hash) bool                           { return false }
func (m *mockChain) GetHeaderByHash(common.Hash) *types.WorkObject            { return m.pt }
func (m *mockChain) GetBlockByHash(common.Hash) *types.WorkObject             { return m.pt }
func (m *mockChain) CheckIfEtxIsEligible(h common.Hash, l common.Location) bool {
	return (*core.HeaderChain)(nil).CheckIfEtxIsEligible(h, l)
}
func (m *mockChain) CheckInCalcOrderCache(common.Hash) (*big.Int, int, bool) { return nil, 0, false }
func (m *mockChain) AddToCalcOrderCache(common.Hash, int, *big.Int)          {}
func (m *mockChain) CalcBaseFee(*types.WorkObject) *big.Int                  { return big.NewInt(1) }
func (m *mockChain) CalcOrder(*types.WorkObject) (*big.Int, int, error)      { return nil, 0, nil }

type qiEnv struct {
	logger *log.Logger
	wo, pt *types.WorkObject
	chain  *mockChain
}

func newQiEnv() *qiEnv {
	e := &qiEnv{logger: hlib.QuietLogs()}
	wo := types.EmptyWorkObject(common.ZONE_CTX)
	wo.WorkObjectHeader().SetLocation(nodeLoc)
	wo.WorkObjectHeader().SetNumber(big.NewInt(1000))
	d, _ := new(big.Int).SetString("100000000000000000000", 10)
	wo.WorkObjectHeader().SetDifficulty(d)
	wo.WorkObjectHeader().SetPrimeTerminusNumber(big.NewInt(2000000))
	wo.Header().SetGasLimit(5000000)
	wo.Header().SetBaseFee(big.NewInt(1))
	pt := types.EmptyWorkObject(common.ZONE_CTX)
	pt.WorkObjectHeader().SetLocation(nodeLoc)
	rate, _ := new(big.Int).SetString("1000000000000000000000000", 10)
	pt.Header().SetExchangeRate(rate)
	el := make([]byte, 32)
	for i := range el {
		el[i] = 0xff
	}
	pt.Header().SetEtxEligibleSlices(common.BytesToHash(el))
	e.wo, e.pt, e.chain = wo, pt, &mockChain{pt}
	return e
}

func hashN(n byte) common.Hash {
	var h common.Hash
	for i := range h {
		h[i] = n
	}
	h[0] = 0xa0
	return h
}

type rngReader struct{ r *hlib.Rng }

func (x rngReader) Read(p []byte) (int, error) {
	copy(p, x.r.Bytes(len(p)))
	return len(p), nil
}

// signQi: Schnorr for one key, MuSig2 (keys in the given order) for several.
func signQi(r *hlib.Rng, digest [32]byte, keys []qkey) *schnorr.Signature {
	if len(keys) == 1 {
		sig, err := schnorr.Sign(keys[0].priv, digest[:])
		if err != nil {
			panic(err)
		}
		return sig
	}
	pubs := make([]*btcec.PublicKey, len(keys))
	for i, k := range keys {
		pubs[i] = k.priv.PubKey()
	}
	nonces := make([]*musig2.Nonces, len(keys))
	pubNonces := make([][musig2.PubNonceSize]byte, len(keys))
	for i, k := range keys {
		n, err := musig2.GenNonces(musig2.WithCustomRand(rngReader{r}), musig2.WithPublicKey(k.priv.PubKey()))
		if err != nil {
			panic(err)
		}
		nonces[i] = n
		pubNonces[i] = n.PubNonce
	}
	comb, err := musig2.AggregateNonces(pubNonces)
	if err != nil {
		panic(err)
	}
	parts := make([]*musig2.PartialSignature, len(keys))
	for i, k := range keys {
		ps, err := musig2.Sign(nonces[i].SecNonce, k.priv, comb, pubs, digest)
		if err != nil {
			panic(err)
		}
		parts[i] = ps
	}
	return musig2.CombineSigs(parts[0].R, parts)
}

func qiOuts(os []QiOut) types.TxOuts {
	var out types.TxOuts
	for _, o := range os {
		out = append(out, types.TxOut{Denomination: o.Den, Address: o.Addr, Lock: big.NewInt(0)})
	}
	return out
}

func (x *runner) runQi(s *Spec) string {
	q := s.Qi
	e := x.qi
	signer := types.NewSigner(nodeChain, nodeLoc)
	db := rawdb.NewMemoryDatabase(e.logger)
	defer db.Close()
	var ins types.TxIns
	var carried []qkey
	for i := range q.Owners {
		owner := mkQKey(q.Owners[i])
		ent := &types.UtxoEntry{Denomination: q.Dens[i], Address: owner.addr, Lock: big.NewInt(0)}
		op := types.OutPoint{TxHash: hashN(byte(i + 1)), Index: 0}
		if q.SameTx {
			op = types.OutPoint{TxHash: hashN(1), Index: uint16(i)}
		}
		if err := rawdb.CreateUTXO(db, op.TxHash, op.Index, ent); err != nil {
			panic(err)
		}
		c := mkQKey(q.Carry[i])
		carried = append(carried, c)
		pk := c.pub
		if q.Compress {
			pk = c.priv.PubKey().SerializeCompressed()
		}
		ins = append(ins, types.TxIn{PreviousOutPoint: op, PubKey: pk})
	}
	mk := func(chain uint64, outs []QiOut, data []byte, sig *schnorr.Signature) *types.Transaction {
		return types.NewTx(&types.QiTx{ChainID: new(big.Int).SetUint64(chain), TxIn: ins, TxOut: qiOuts(outs), Data: data, Signature: sig})
	}
	// the digest that gets signed
	placeholder, _ := schnorr.Sign(carried[0].priv, make([]byte, 32))
	so, sd := q.Outs, []byte(nil)
	if q.AltOuts != nil {
		so = q.AltOuts
	}
	if q.AltData != nil {
		sd = q.AltData
	}
	digest := signer.Hash(mk(q.SigChain, so, sd, placeholder))
	var sk []qkey
	for _, b := range q.Signers {
		sk = append(sk, mkQKey(b))
	}
	sig := signQi(hlib.NewRng(s.ID*7919+13), digest, sk)
	tx := mk(q.TxChain, q.Outs, nil, sig)

	// independent evaluation of the primitives for the model: derived addresses, parse, aggregate, verify
	var items []string
	var pubs []*btcec.PublicKey
	for i, in := range ins {
		a := crypto.PubkeyBytesToAddress(in.PubKey, nodeLoc).Bytes()
		pk, perr := btcec.ParsePubKey(in.PubKey)
		if perr == nil {
			pubs = append(pubs, pk)
		}
		owner := mkQKey(q.Owners[i])
		items = append(items, fmt.Sprintf("(%s, %s, %s, Some %s)", hlib.CoqBytes(a), hlib.CoqBool(a[1] > 127), hlib.CoqBool(perr == nil), hlib.CoqBytes(owner.addr)))
	}
	aggOK, sigbit := true, false
	if len(pubs) == len(ins) {
		var fk *btcec.PublicKey
		if len(pubs) == 1 {
			fk = pubs[0]
		} else {
			ak, _, _, err := musig2.AggregateKeys(pubs, false)
			if err != nil {
				aggOK = false
			} else {
				fk = ak.FinalKey
			}
		}
		if fk != nil {
			d := signer.Hash(tx)
			sigbit = sig.Verify(d[:], fk)
		}
	}

	cs := q.CheckSig || q.Path == "pool"
	accepted := false
	func() {
		defer func() {
			if r := recover(); r != nil {
				x.fail("qi/panic/"+q.Variant, fmt.Sprint("panic: ", r), s)
			}
		}()
		switch q.Path {
		case "proc":
			batch := db.NewBatch()
			batch.SetPending(true)
			gp := new(types.GasPool).AddGas(e.wo.GasLimit())
			used := uint64(0)
			rl, pl := uint64(params.ETXRLimitMin), uint64(params.ETXPLimitMin)
			ucd := new(core.UtxosCreatedDeleted)
			_, _, _, err, _ := core.ProcessQiTx(tx, e.chain, q.CheckSig, true, e.wo, batch, db, gp, &used, signer, nodeLoc, *nodeChain, 5.0, &rl, &pl, ucd, big.NewInt(0), big.NewInt(0), false)
			accepted = err == nil
		case "pool":
			total, err := core.ValidateQiTxInputs(tx, e.chain, db, e.wo, signer, nodeLoc, *nodeChain)
			if err == nil {
				_, err = core.ValidateQiTxOutputsAndSignature(tx, e.chain, total, e.wo, signer, nodeLoc, *nodeChain, 5.0, params.ETXRLimitMin, params.ETXPLimitMin)
			}
			accepted = err == nil
		}
	}()
	x.rep.Count(fmt.Sprintf("qi/%s/%s/accepted=%v", q.Path, q.Variant, accepted))
	// the property itself, whatever the variant: accepted => EVERY input carries the key that owns the
	// entry THAT input consumes (spec level: same private key), and - where the signature is looked at -
	// the signature verifies under the (aggregated) key of exactly the carried keys over this transaction
	if accepted {
		how := q.Path
		if !cs {
			how += "-unchecked"
		}
		for i := range q.Owners {
			if !bytes.Equal(q.Owners[i], q.Carry[i]) {
				rep := "first-use-of-the-key"
				for j := 0; j < i; j++ {
					if bytes.Equal(q.Carry[j], q.Carry[i]) {
						rep = "key-already-used-by-an-earlier-input"
					}
				}
				x.fail("qi/accepted-input-not-owned/"+rep+"/"+how, fmt.Sprintf("a Qi spend was accepted although input %d of %d consumes an entry not owned by the key it carries (%s)", i, len(ins), q.Variant), s)
				break
			}
		}
		if cs && !sigbit {
			x.fail("qi/accepted-bad-signature/"+how, "a Qi spend was accepted with a signature that does not verify under the key(s) carried by its inputs ("+q.Variant+")", s)
		}
	}
	switch q.Expect {
	case "accept":
		if !accepted {
			x.fail("qi/control-refused/"+q.Path, "a spend signed by exactly the owners of its inputs was refused ("+q.Variant+")", s)
		}
	case "refuse":
		if accepted {
			x.fail("qi/accepted/"+q.Variant+"/"+q.Path, "a Qi spend was accepted although "+q.Variant, s)
		}
	}
	x.rep.Nontrivial(fmt.Sprintf("qi/%s/%s/%d/%v", q.Path, q.Variant, len(ins), accepted))
	f := fmt.Sprintf("(mkQi %d [] [] [])", q.TxChain)
	return fmt.Sprintf("CQi %d %s %s %s %s %s %s true %s", s.ID, nodeChain.String(), hlib.CoqBool(cs), f,
		hlib.CoqList(items), hlib.CoqBool(aggOK), hlib.CoqBool(sigbit), hlib.CoqBool(accepted))
}

// ---------- Qi signing bytes ----------

func (x *runner) runQiSign(s *Spec) string {
	q := s.Qi
	var ins types.TxIns
	var cins []string
	for i := range q.Carry {
		c := mkQKey(q.Carry[i])
		h := hashN(byte(i + 1))
		h[5] = byte(s.ID)
		idx := uint16(s.ID*31+uint64(i)*7) % 1024
		pk := c.pub
		if q.Compress {
			pk = c.priv.PubKey().SerializeCompressed()
		}
		ins = append(ins, types.TxIn{PreviousOutPoint: types.OutPoint{TxHash: h, Index: idx}, PubKey: pk})
		cins = append(cins, fmt.Sprintf("(%s, %d, %s)", hlib.CoqBytes(h[:]), idx, hlib.CoqBytes(c.priv.PubKey().SerializeCompressed())))
	}
	var couts []string
	for _, o := range q.Outs {
		couts = append(couts, fmt.Sprintf("(%d, Some %s, 0)", o.Den, hlib.CoqBytes(o.Addr)))
	}
	placeholder, _ := schnorr.Sign(mkQKey(q.Carry[0]).priv, make([]byte, 32))
	tx := types.NewTx(&types.QiTx{ChainID: new(big.Int).SetUint64(q.TxChain), TxIn: ins, TxOut: qiOuts(q.Outs), Data: q.AltData, Signature: placeholder})
	data, err := proto.Marshal(tx.ProtoEncodeTxSigningData())
	if err != nil {
		x.fail("bytes/marshal-error", err.Error(), s)
	}
	if types.NewSigner(nodeChain, nodeLoc).Hash(tx) != crypto.Keccak256Hash(data) {
		x.fail("sighash/not-keccak-of-signing-bytes", "SignerV1.Hash differs from keccak256(proto(ProtoEncodeTxSigningData)) for a Qi transaction", s)
	}
	x.rep.Nontrivial(fmt.Sprintf("qisign/%d/%d/%d", len(ins), len(q.Outs), len(q.AltData)))
	return fmt.Sprintf("CQiSignBytes %d (mkQi %d %s %s %s) %s", s.ID, q.TxChain, hlib.CoqList(cins), hlib.CoqList(couts),
		hlib.CoqBytes(q.AltData), hlib.CoqBytes(data))
}

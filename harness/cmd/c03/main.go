// C03 harness: only the key holder can authorise a transaction; no replay across chains.
//
// Drives the REAL code of /repo (crypto.ValidateSignatureValues, types.SignTx,
// SignerV1.Sender, types.Sender with its per-object cache, Transaction.Hash,
// proto.Marshal(ProtoEncodeTxSigningData / ProtoEncode), core.ProcessQiTx,
// core.ValidateQiTxInputs + core.ValidateQiTxOutputsAndSignature) on a fixed corpus of
// boundary cases and on random signed transactions with every single-field mutation.
// Each spec yields one Coq case (model comparison inside Coq) and is judged by monitors
// that do not depend on the model.
package main

import (
	"bytes"
	"crypto/ecdsa"
	"errors"
	"fmt"
	"math/big"

	"github.com/dominant-strategies/go-quai/common"
	"github.com/dominant-strategies/go-quai/core/types"
	"github.com/dominant-strategies/go-quai/crypto"
	"google.golang.org/protobuf/proto"

	"verifharness/hlib"
)

// ---------- replayable descriptions ----------

type ALTuple struct {
	Addr []byte   `json:"addr"`
	Keys [][]byte `json:"keys,omitempty"`
}

// TxSpec is a Quai transaction, every field explicit (big integers in decimal).
type TxSpec struct {
	Chain    string    `json:"chain"`
	Nonce    uint64    `json:"nonce"`
	GasPrice string    `json:"gas_price"`
	Gas      uint64    `json:"gas"`
	To       []byte    `json:"to,omitempty"` // nil: contract creation
	Value    string    `json:"value"`
	Data     []byte    `json:"data,omitempty"`
	AL       []ALTuple `json:"al,omitempty"`
	V        string    `json:"v"`
	R        string    `json:"r"`
	S        string    `json:"s"`
	Parent   []byte    `json:"parent,omitempty"`
	Mix      []byte    `json:"mix,omitempty"`
	WNonce   *uint64   `json:"wnonce,omitempty"`
}

type COp struct {
	K     string `json:"k"` // S = types.Sender(signer{chain,loc}, tx), H = tx.Hash()
	Chain string `json:"chain,omitempty"`
	Loc   []byte `json:"loc,omitempty"`
}

type Spec struct {
	ID   uint64 `json:"id"`
	Kind string `json:"kind"` // validate | recover | mut | signbytes | fullbytes | cache | qisign | qi | qipool
	Note string `json:"note,omitempty"`
	// validate
	V8 uint8  `json:"v8,omitempty"`
	R  string `json:"r,omitempty"`
	S  string `json:"s,omitempty"`
	// recover / mut / bytes / cache
	Tx      *TxSpec `json:"tx,omitempty"`
	SgChain string  `json:"sg_chain,omitempty"`
	SgLoc   []byte  `json:"sg_loc,omitempty"`
	// mut: Tx is the mutated transaction, Base the validly signed original
	Base   *TxSpec `json:"base,omitempty"`
	Field  string  `json:"field,omitempty"`
	Signed bool    `json:"signed,omitempty"` // the mutated field belongs to the signing payload
	SigMut bool    `json:"sig_mut,omitempty"`
	Orig   []byte  `json:"orig,omitempty"` // address of the key that signed Base (derived from the key, not recovered)
	// cache
	Ops []COp `json:"ops,omitempty"`
	// qi
	Qi *QiSpec `json:"qi,omitempty"`
	// qipool
	Pool     *PoolSpec     `json:"pool,omitempty"`
	QuaiPool *QuaiPoolSpec `json:"quai_pool,omitempty"`
}

// ---------- helpers ----------

func bigOf(s string) *big.Int {
	v, ok := new(big.Int).SetString(s, 10)
	if !ok {
		panic("bad big " + s)
	}
	return v
}

func locOf(b []byte) common.Location {
	if len(b) != 2 {
		return common.Location{0, 0}
	}
	return common.Location{b[0], b[1]}
}

func (t *TxSpec) clone() *TxSpec {
	c := *t
	c.To = append([]byte(nil), t.To...)
	if t.To == nil {
		c.To = nil
	}
	c.Data = append([]byte(nil), t.Data...)
	c.AL = nil
	for _, tu := range t.AL {
		n := ALTuple{Addr: append([]byte(nil), tu.Addr...)}
		for _, k := range tu.Keys {
			n.Keys = append(n.Keys, append([]byte(nil), k...))
		}
		c.AL = append(c.AL, n)
	}
	if t.Parent != nil {
		c.Parent = append([]byte(nil), t.Parent...)
	}
	if t.Mix != nil {
		c.Mix = append([]byte(nil), t.Mix...)
	}
	if t.WNonce != nil {
		w := *t.WNonce
		c.WNonce = &w
	}
	return &c
}

// build constructs a fresh *types.Transaction (no caches populated).
func (t *TxSpec) build() *types.Transaction {
	loc := common.Location{0, 0}
	q := &types.QuaiTx{
		ChainID: bigOf(t.Chain), Nonce: t.Nonce, GasPrice: bigOf(t.GasPrice), Gas: t.Gas,
		Value: bigOf(t.Value), Data: t.Data, V: bigOf(t.V), R: bigOf(t.R), S: bigOf(t.S),
	}
	if t.To != nil {
		a := common.BytesToAddress(t.To, loc)
		q.To = &a
	}
	for _, tu := range t.AL {
		at := types.AccessTuple{Address: common.BytesToAddress(tu.Addr, loc)}
		for _, k := range tu.Keys {
			at.StorageKeys = append(at.StorageKeys, common.BytesToHash(k))
		}
		q.AccessList = append(q.AccessList, at)
	}
	if t.Parent != nil {
		h := common.BytesToHash(t.Parent)
		q.ParentHash = &h
	}
	if t.Mix != nil {
		h := common.BytesToHash(t.Mix)
		q.MixHash = &h
	}
	if t.WNonce != nil {
		n := types.EncodeNonce(*t.WNonce)
		q.WorkNonce = &n
	}
	return types.NewTx(q)
}

// ---------- Coq printers ----------

func coqZ(x *big.Int) string { return "(" + x.String() + ")%Z" }

func coqOptBytes(b []byte) string {
	if b == nil {
		return "None"
	}
	return hlib.CoqSome(hlib.CoqBytes(b))
}

func (t *TxSpec) coqS() string {
	var tus []string
	for _, tu := range t.AL {
		var ks []string
		for _, k := range tu.Keys {
			ks = append(ks, hlib.CoqBytes(k))
		}
		tus = append(tus, hlib.CoqPair(hlib.CoqBytes(tu.Addr), hlib.CoqList(ks)))
	}
	return fmt.Sprintf("(mkS %s %d %s %d %s %s %s %s)", t.Chain, t.Nonce, t.GasPrice, t.Gas,
		coqOptBytes(t.To), t.Value, hlib.CoqBytes(t.Data), hlib.CoqList(tus))
}

func (t *TxSpec) coqQ() string {
	wn := "None"
	if t.WNonce != nil {
		wn = fmt.Sprintf("(Some %d)", *t.WNonce)
	}
	return fmt.Sprintf("(mkQ %s %s %s %s %s %s %s)", t.coqS(), coqZ(bigOf(t.V)), coqZ(bigOf(t.R)), coqZ(bigOf(t.S)),
		coqOptBytes(t.Parent), coqOptBytes(t.Mix), wn)
}

// ---------- observation of Sender ----------

type obs struct {
	Class string // ok | chain | sig | other | panic
	Addr  []byte
}

func classify(a common.Address, err error) obs {
	switch {
	case err == nil:
		return obs{"ok", a.Bytes()}
	case errors.Is(err, types.ErrInvalidChainId):
		return obs{"chain", nil}
	case errors.Is(err, types.ErrInvalidSig):
		return obs{"sig", nil}
	default:
		return obs{"other", nil}
	}
}

func (o obs) coq() string {
	switch o.Class {
	case "ok":
		return "(OOk " + hlib.CoqBytes(o.Addr) + ")"
	case "chain":
		return "OErrChain"
	case "sig":
		return "OErrSig"
	}
	return "OErrOther"
}

func (o obs) String() string { return fmt.Sprintf("%s:%x", o.Class, o.Addr) }

// uncached runs SignerV1.Sender on a fresh object.
func uncached(t *TxSpec, chain *big.Int, loc common.Location) (o obs) {
	defer func() {
		if e := recover(); e != nil {
			o = obs{"panic", nil}
		}
	}()
	tx := t.build()
	a, err := types.NewSigner(chain, loc).Sender(tx)
	return classify(a, err)
}

// ---------- the run ----------

type runner struct {
	rep *hlib.Report
	cw  *hlib.CaseWriter
	rng *hlib.Rng
	qi  *qiEnv
}

func (x *runner) fail(sig, what string, s *Spec) { x.rep.Fail(sig, what, s) }

func (x *runner) run(s *Spec) {
	x.rep.Evaluations++
	x.rep.Count("kind/" + s.Kind)
	x.rep.Sample(s)
	var term string
	switch s.Kind {
	case "validate":
		term = x.runValidate(s)
	case "recover":
		term = x.runRecover(s)
	case "mut":
		term = x.runMut(s)
	case "signbytes", "fullbytes":
		term = x.runBytes(s)
	case "cache":
		term = x.runCache(s)
	case "qisign":
		term = x.runQiSign(s)
	case "qi":
		term = x.runQi(s)
	case "qipool":
		term = x.runQiPool(s)
	case "quaipool":
		term = x.runQuaiPool(s)
	default:
		panic("kind " + s.Kind)
	}
	x.cw.Add(term, s)
	x.rep.TracesValidated++
}

func (x *runner) runValidate(s *Spec) string {
	r, sv := bigOf(s.R), bigOf(s.S)
	got := crypto.ValidateSignatureValues(s.V8, r, sv)
	// monitor: the property's clause, stated directly on the compiled curve order
	n, half := crypto.VerifC03CurveOrder()
	want := r.Sign() > 0 && sv.Sign() > 0 && r.Cmp(n) < 0 && sv.Cmp(half) <= 0 && (s.V8 == 0 || s.V8 == 1)
	if got && !want {
		x.fail("validate/accepts-bad-values", fmt.Sprintf("ValidateSignatureValues(%d, %s, %s) = true", s.V8, s.R, s.S), s)
	}
	if !got && want {
		x.fail("validate/rejects-good-values", fmt.Sprintf("ValidateSignatureValues(%d, %s, %s) = false", s.V8, s.R, s.S), s)
	}
	x.rep.Count(fmt.Sprintf("validate/%v", got))
	if got {
		x.rep.Nontrivial("validate/accept/" + s.Note)
	}
	return fmt.Sprintf("CValidate %d %d %s %s %s", s.ID, s.V8, coqZ(r), coqZ(sv), hlib.CoqBool(got))
}

func recOf(o obs) string {
	if o.Class == "ok" {
		return hlib.CoqSome(hlib.CoqBytes(o.Addr))
	}
	return "None"
}

func (x *runner) runRecover(s *Spec) string {
	chain := bigOf(s.SgChain)
	o := uncached(s.Tx, chain, locOf(s.SgLoc))
	x.rep.Count("recover/" + o.Class)
	if o.Class == "panic" {
		x.fail("recover/panic", "SignerV1.Sender panicked", s)
	}
	// monitor: an attributed sender requires in-range values and the right chain
	if o.Class == "ok" {
		n, half := crypto.VerifC03CurveOrder()
		v, r, sv := bigOf(s.Tx.V), bigOf(s.Tx.R), bigOf(s.Tx.S)
		bad := r.Sign() <= 0 || sv.Sign() <= 0 || r.Cmp(n) >= 0 || sv.Cmp(half) > 0 || bigOf(s.Tx.Chain).Cmp(chain) != 0
		// V: 0 / 1; the negative aliases -54 / -55 are the documented in-memory quirk (see design/C03.md)
		if v.Sign() >= 0 && v.Cmp(big.NewInt(1)) > 0 {
			bad = true
		}
		if bad {
			x.fail("recover/sender-from-bad-values", "a sender was attributed although V/R/S/chain are out of range", s)
		}
		x.rep.Nontrivial("recover/ok/" + s.Note)
	} else if o.Class == "other" {
		x.rep.Nontrivial("recover/ecrecover-failed/" + s.Note)
	}
	return fmt.Sprintf("CRecover %d %s %s %s %s", s.ID, s.Tx.coqQ(), s.SgChain, recOf(o), o.coq())
}

// runMut: Base is validly signed by the key whose address is Orig; Tx differs from Base in one field.
func (x *runner) runMut(s *Spec) string {
	loc := locOf(s.SgLoc)
	chain := bigOf(s.SgChain)
	baseChain := bigOf(s.Base.Chain)
	// positive control: the key holder is the attributed sender of the unmodified transaction
	bo := uncached(s.Base, baseChain, loc)
	if bo.Class != "ok" || !bytes.Equal(bo.Addr, s.Orig) {
		x.fail("base/sender-is-not-the-signing-key", fmt.Sprintf("validly signed transaction attributed to %v, key address %x", bo, s.Orig), s)
	}
	o := uncached(s.Tx, chain, loc)
	x.rep.Count("mut/" + s.Field + "/" + o.Class)
	if o.Class == "panic" {
		x.fail("mut/panic/"+s.Field, "Sender panicked on a mutated transaction", s)
	}
	same := o.Class == "ok" && bytes.Equal(o.Addr, s.Orig)
	if (s.Signed || s.SigMut) && same {
		x.fail("mut/same-sender/"+s.Field, "after changing "+s.Field+" the original sender is still attributed", s)
	}
	if !s.Signed && !s.SigMut && !same {
		// work fields are not part of the payload: the sender must be unaffected
		x.fail("mut/unsigned-field-changes-sender/"+s.Field, "changing the unsigned field "+s.Field+" changed the attributed sender", s)
	}
	// signing hash changes iff a signed field changed; the transaction hash changes always
	sg := types.NewSigner(chain, loc)
	bt, mt := s.Base.build(), s.Tx.build()
	hb, hm := sg.Hash(bt), sg.Hash(mt)
	if s.Signed && hb == hm {
		x.fail("sighash/unchanged/"+s.Field, "signing hash does not cover "+s.Field, s)
	}
	if !s.Signed && hb != hm {
		x.fail("sighash/changed-by-unsigned/"+s.Field, "signing hash depends on "+s.Field+", which is not in the reviewed signed set", s)
	}
	var tb, tm common.Hash
	func() {
		defer func() {
			if e := recover(); e != nil {
				x.fail("txhash/panic/"+s.Field, "Transaction.Hash panicked", s)
			}
		}()
		tb, tm = bt.Hash(), mt.Hash()
	}()
	// bytes 0..3 of a Quai tx hash are overwritten with location bits derived from the sender, so
	// only bytes 4.. bind the content: they must differ (as must the hash under an explicit location)
	if bytes.Equal(tb[4:], tm[4:]) {
		x.fail("txhash/unchanged/"+s.Field, "tx.Hash() (the pool's sender-cache key) does not cover "+s.Field, s)
	}
	func() {
		defer func() { recover() }()
		if s.Base.build().Hash(0, 0) == s.Tx.build().Hash(0, 0) {
			x.fail("txhash/unchanged/"+s.Field, "tx.Hash(location) does not cover "+s.Field, s)
		}
	}()
	x.rep.Nontrivial("mut/" + s.Field + "/" + o.Class)
	return fmt.Sprintf("CRecover %d %s %s %s %s", s.ID, s.Tx.coqQ(), s.SgChain, recOf(o), o.coq())
}

func (x *runner) runBytes(s *Spec) string {
	tx := s.Tx.build()
	var data []byte
	var err error
	if s.Kind == "signbytes" {
		data, err = proto.Marshal(tx.ProtoEncodeTxSigningData())
	} else {
		var p *types.ProtoTransaction
		p, err = tx.ProtoEncode()
		if err == nil {
			data, err = proto.Marshal(p)
		}
	}
	if err != nil {
		x.fail("bytes/marshal-error", err.Error(), s)
	}
	// monitor: the signing hash is keccak of exactly these bytes
	if s.Kind == "signbytes" {
		if types.NewSigner(bigOf(s.Tx.Chain), common.Location{0, 0}).Hash(tx) != crypto.Keccak256Hash(data) {
			x.fail("sighash/not-keccak-of-signing-bytes", "SignerV1.Hash differs from keccak256(proto(ProtoEncodeTxSigningData))", s)
		}
	}
	x.rep.Count(fmt.Sprintf("%s/len<%d", s.Kind, (len(data)/128+1)*128))
	x.rep.Nontrivial(fmt.Sprintf("%s/%d", s.Kind, len(data)))
	if s.Kind == "signbytes" {
		return fmt.Sprintf("CSignBytes %d %s %s", s.ID, s.Tx.coqS(), hlib.CoqBytes(data))
	}
	return fmt.Sprintf("CFullBytes %d %s %s", s.ID, s.Tx.coqQ(), hlib.CoqBytes(data))
}

func (x *runner) runCache(s *Spec) string {
	txChain := bigOf(s.Tx.Chain)
	fresh := uncached(s.Tx, txChain, common.Location{0, 0})
	tx := s.Tx.build() // the one object the history runs on
	var items []string
	answered := 0
	for i, op := range s.Ops {
		if op.K == "H" {
			func() {
				defer func() {
					if e := recover(); e != nil {
						x.fail("cache/hash-panic", "Transaction.Hash panicked", s)
					}
				}()
				tx.Hash()
			}()
			items = append(items, "(OHash, None)")
			continue
		}
		chain := bigOf(op.Chain)
		var o obs
		func() {
			defer func() {
				if e := recover(); e != nil {
					o = obs{"panic", nil}
				}
			}()
			a, err := types.Sender(types.NewSigner(chain, locOf(op.Loc)), tx)
			o = classify(a, err)
		}()
		x.rep.Count("cache/op/" + o.Class)
		if o.Class == "panic" {
			x.fail("cache/panic", "types.Sender panicked", s)
		}
		if chain.Cmp(txChain) != 0 {
			if o.Class != "chain" {
				x.fail("cache/answer-for-another-chain", fmt.Sprintf("op %d: signer of chain %s got %v for a transaction of chain %s", i, op.Chain, o, s.Tx.Chain), s)
			}
		} else {
			answered++
			if o.Class != fresh.Class || !bytes.Equal(o.Addr, fresh.Addr) {
				x.fail("cache/differs-from-uncached", fmt.Sprintf("op %d: cached path answered %v, a fresh object answers %v", i, o, fresh), s)
			}
		}
		lo := locOf(op.Loc)
		items = append(items, fmt.Sprintf("(OSender %s %d, Some %s)", op.Chain, int(lo[0])*16+int(lo[1]), o.coq()))
	}
	x.rep.Nontrivial(fmt.Sprintf("cache/%s/%d/%d", fresh.Class, len(s.Ops), answered))
	return fmt.Sprintf("CCache %d %s %s %s", s.ID, s.Tx.coqQ(), recOf(fresh), hlib.CoqList(items))
}

// ---------- keys ----------

type ekey struct {
	priv *ecdsa.PrivateKey
	raw  []byte
}

func newKey(r *hlib.Rng, grind bool) ekey {
	for {
		b := r.Bytes(32)
		k, err := crypto.ToECDSA(b)
		if err != nil {
			continue
		}
		if grind {
			a := crypto.PubkeyToAddress(k.PublicKey, common.Location{0, 0}).Bytes()
			if a[0] != 0x00 || a[1] > 127 { // zone (0,0), Quai ledger
				continue
			}
		}
		return ekey{k, b}
	}
}

func (k ekey) addr() []byte {
	return crypto.PubkeyToAddress(k.priv.PublicKey, common.Location{0, 0}).Bytes()
}

// sign fills V, R, S of t with a real signature by k (types.SignTx with the signer of t's chain).
func sign(t *TxSpec, k ekey) {
	t.V, t.R, t.S = "0", "0", "0"
	tx := t.build()
	signed, err := types.SignTx(tx, types.NewSigner(bigOf(t.Chain), common.Location{0, 0}), k.priv)
	if err != nil {
		panic(err)
	}
	v, r, s := signed.GetEcdsaSignatureValues()
	t.V, t.R, t.S = v.String(), r.String(), s.String()
}

func main() {
	f := hlib.ParseFlags()
	hlib.QuietLogs()
	rep := hlib.NewReport("C03", "non-trivial = the real code got past the first guard: ECDSA recovery / Schnorr verification was reached, "+
		"signing bytes were produced, or a cache history answered from the cache; fingerprint = kind/mutated field/verdict class (or byte length / history shape)")
	header := "From Coq Require Import List NArith ZArith Bool.\nFrom GQ Require Import Lib.C03_TLV Model.C03.\nImport ListNotations.\nLocal Open Scope N_scope.\n"
	cw := hlib.NewCaseWriter(f.Out, header, "C03.case", 100)
	x := &runner{rep: rep, cw: cw, rng: hlib.NewRng(f.Seed)}
	x.qi = newQiEnv()
	if f.Replay != "" {
		var s Spec
		hlib.ReadReplayCase(f.Replay, &s)
		x.run(&s)
	} else {
		for _, s := range generate(x.rng, f.N, f.Tier) {
			x.run(s)
		}
	}
	cw.Close()
	rep.Write(f.Out)
}

package main

// Part (e): the recovery path of a dominant node that MISSED the pending ETXs (region) / pending ETX
// rollup (prime) of a manifest entry.  The node is built with the recovery path wired as in NewSlice
// (hook core.VerifC04NewDom: the header chain's fetchers are the slice's own retry-gated
// GetPEtxRollupAfterRetryThreshold / GetPEtxAfterRetryThreshold, production-size retry cache) and with
// subordinate clients that answer the question "send me the bundle of hash h again" with data of several
// qualities:
//
//	valid      the bundle the header of h commits to
//	superset   the right header with MORE than it commits to (what a region really answers: its whole,
//	           unfiltered sub rollup -- known finding route-region:rollup-for-dom:unfiltered)
//	subset / empty / reordered / garbage   the right header with other content
//	foreign    a perfectly valid bundle -- of another block
//	error      no answer;   none: no client at all (a region that does not run the zone falls back to
//	           the body of its own copy of the block)
//
// Every block's collection is retried past the retry threshold.  Property (model independent): whatever the
// subordinate answers, only content that passed the commitment check of its header (PendingEtxs.IsValid /
// PendingEtxsRollup.IsValid, i.e. the validated store) may ever enter CollectSubRollup /
// CollectNewlyConfirmedEtxs: a collection either fails with "pending ETXs not found" or gives exactly what
// the forward simulation over the COMMITTED contents says; a valid answer must lead to recovery; nothing
// invalid may be stored.  Tie: case CF (the model's state-passing collection with the retry gate and the
// validated add, replayed round by round).

import (
	"fmt"
	"strings"

	"github.com/dominant-strategies/go-quai/common"
	"github.com/dominant-strategies/go-quai/core"
	"github.com/dominant-strategies/go-quai/core/types"

	"verifharness/hlib"
)

var badAnswers = []string{"superset", "subset", "reordered", "foreign", "garbage", "error", "empty"}

func isRecover(shape string) bool { return strings.HasPrefix(shape, "recover") }

// markRecover chooses the entries the node never received and what the subordinate answers for each.
func markRecover(h *rHist, d Desc, r *hlib.Rng, mkExtra func(owner *rBlock) *rEtx) {
	owner := map[*rZone]*rBlock{}
	users := map[*rZone]int{}
	for _, b := range h.blocks {
		for _, z := range b.manifest {
			if z == h.genesis {
				continue
			}
			if owner[z] == nil {
				owner[z] = b
			}
			users[z]++
		}
		if owner[b.own] == nil {
			owner[b.own] = b
		}
	}
	var cand []*rZone
	for _, z := range h.zones {
		if users[z] > 0 { // an entry no manifest refers to is never asked for
			cand = append(cand, z)
		}
	}
	if len(cand) == 0 {
		return
	}
	want := 1 + r.Intn(3)
	if d.Shape == "recover-bad" {
		want = 3
	}
	keys := 0 // blocks whose manifest holds a missing entry = keys of the (10 entry) retry cache
	var picked []*rZone
	for tries := 0; tries < 20 && len(picked) < want; tries++ {
		z := cand[r.Intn(len(cand))]
		if z.missing || keys+users[z] > 8 {
			continue
		}
		z.missing = true
		keys += users[z]
		picked = append(picked, z)
	}
	for i, z := range picked {
		for k := 1 + r.Intn(2); k > 0; k-- {
			z.extra = append(z.extra, mkExtra(owner[z]))
		}
		switch d.Shape {
		case "recover-valid":
			z.answer = "valid"
		case "recover-bad":
			z.answer = badAnswers[(3*int(d.Sub%7)+i)%len(badAnswers)]
		case "recover-noclient":
			z.answer = "none"
		default:
			if r.Chance(50) {
				z.answer = "valid"
			} else {
				z.answer = badAnswers[r.Intn(len(badAnswers))]
			}
		}
		// qualities that need something the entry does not have fall back to another invalid one
		switch {
		case z.answer == "subset" && len(z.etxs) == 0, z.answer == "empty" && len(z.etxs) == 0, z.answer == "reordered" && len(z.etxs) < 2:
			z.answer = "superset"
		case z.answer == "foreign":
			var others []*rZone
			for _, o := range h.zones {
				if o != z && users[o]+boolInt(owner[o] != nil) > 0 {
					others = append(others, o)
				}
			}
			if len(others) == 0 {
				z.answer = "error"
			} else {
				z.foreign = others[r.Intn(len(others))]
			}
		}
	}
}

func boolInt(b bool) int {
	if b {
		return 1
	}
	return 0
}

// answerOf: the bundle the subordinate sends for the missing entry z: whose header, which content.
func answerOf(z *rZone) (hdrOf *rZone, content []*rEtx, ok bool) {
	switch z.answer {
	case "valid":
		return z, z.etxs, true
	case "superset": // the committed content with more in front, inside and behind
		l := []*rEtx{z.extra[0]}
		l = append(l, z.etxs...)
		l = append(l, z.extra[1:]...)
		return z, l, true
	case "subset":
		return z, z.etxs[1:], true
	case "empty":
		return z, nil, true
	case "reordered":
		return z, append(append([]*rEtx{}, z.etxs[1:]...), z.etxs[0]), true
	case "garbage":
		return z, z.extra, true
	case "foreign":
		return z.foreign, z.foreign.etxs, true
	}
	return nil, nil, false // error, none
}

type recCtx struct {
	level    string // "region" or "prime"
	ctxN     int    // the Coq name of the node context: 1 region, 0 prime
	node     *core.VerifC04Region
	h        *rHist
	d        Desc
	idOfHash map[common.Hash]int
	fail     func(sig, what string)
	cw       *hlib.CaseWriter
	guard    *aliasGuard // alias.go: content of the handed objects, and an Append-like use of every collected set
}

func txsOfZone(z *rZone) types.Transactions {
	l := types.Transactions{}
	for _, e := range z.etxs {
		l = append(l, e.tx)
	}
	return l
}

func coqEtxs(l []*rEtx) string {
	var s []string
	for _, e := range l {
		s = append(s, e.coq())
	}
	return "[" + strings.Join(s, ";") + "]"
}

// recoverPhase retries the collection of every block past the retry threshold and returns, per block of
// the node's own order, every successful answer seen on the way (compared with the forward simulation by
// the caller).  Entries that were recovered (validated and stored by the node) are no longer `missing`
// afterwards, so that the caller's ordinary observations, tie and monitors run on the recovered store.
func recoverPhase(c *recCtx) map[*rBlock][]types.Transactions {
	h, node, sig := c.h, c.node, "route-"+c.level+":recover:"
	T := core.VerifC04RetryThreshold()
	coqID := map[*rZone]int{h.genesis: rGenesisID}
	for _, z := range h.zones {
		coqID[z] = z.id
	}
	for _, b := range h.blocks {
		coqID[b.own] = b.id
	}
	byHash := map[common.Hash]*rZone{}
	var missing []*rZone
	for _, z := range h.zones {
		if z.hdr == nil {
			continue // never referred to by a manifest
		}
		byHash[z.hash] = z
		if z.missing {
			missing = append(missing, z)
			rep.Count("recover:" + c.level + ":answer:" + z.answer)
		}
	}
	asked := 0
	lookup := func(hash common.Hash) (*types.WorkObject, types.Transactions, error) {
		asked++
		z := byHash[hash]
		if z == nil || !z.missing && !z.recovered {
			// (a subordinate asked for something the node was given: answer honestly)
			if z != nil {
				return z.hdr.ConvertToPEtxView(), txsOfZone(z), nil
			}
			return nil, nil, fmt.Errorf("verif: unknown hash")
		}
		z.asked++
		hz, content, ok := answerOf(z)
		if !ok {
			return nil, nil, fmt.Errorf("verif: the subordinate cannot serve it")
		}
		l := types.Transactions{}
		for _, e := range content {
			l = append(l, e.tx)
		}
		return hz.hdr.ConvertToPEtxView(), l, nil
	}
	answers := &core.VerifC04SubAnswers{
		Rollup: func(hash common.Hash, _ common.Location) (types.PendingEtxsRollup, error) {
			hdr, l, err := lookup(hash)
			if err != nil {
				return types.PendingEtxsRollup{}, err
			}
			return types.PendingEtxsRollup{Header: hdr, EtxsRollup: l}, nil
		},
		PEtxs: func(hash common.Hash, _ common.Location) (types.PendingEtxs, error) {
			hdr, l, err := lookup(hash)
			if err != nil {
				return types.PendingEtxs{}, err
			}
			return types.PendingEtxs{Header: hdr, OutboundEtxs: l}, nil
		},
	}
	if c.d.Shape != "recover-noclient" {
		for i := 0; i < common.MaxWidth; i++ {
			node.SetSubClient(i, answers)
		}
	}
	// the Coq case: initial store, commitments, answers
	var blocks, pend0, cm, ans []string
	blocks = append(blocks, fmt.Sprintf("mkRB %d 0 [] 0 0 [] []", rGenesisID))
	pend0 = append(pend0, fmt.Sprintf("(%d,[])", rGenesisID))
	for _, b := range h.blocks {
		parent := rGenesisID
		if b.parent != nil {
			parent = b.parent.id
		}
		var man []string
		for _, z := range b.manifest {
			man = append(man, fmt.Sprint(coqID[z]))
		}
		blocks = append(blocks, fmt.Sprintf("mkRB %d %d %s %d %d [%s] %s", b.id, parent, coqLoc(b.loc), b.order, b.exp, strings.Join(man, ";"), coqEtxs(b.inbound)))
	}
	for _, z := range h.zones {
		var ids []string
		for _, e := range z.etxs {
			ids = append(ids, fmt.Sprint(e.id))
		}
		cm = append(cm, fmt.Sprintf("(%d,[%s])", coqID[z], strings.Join(ids, ";")))
		if !z.missing {
			pend0 = append(pend0, fmt.Sprintf("(%d,%s)", coqID[z], coqEtxs(z.etxs)))
		} else if hz, content, ok := answerOf(z); ok && c.d.Shape != "recover-noclient" {
			ans = append(ans, fmt.Sprintf("(%d,(%d,%s))", coqID[z], coqID[hz], coqEtxs(content)))
		}
	}

	idsOf := func(l types.Transactions) string {
		var s []string
		for _, tx := range l {
			id, known := c.idOfHash[tx.Hash()]
			if !known {
				id = unknownID
			}
			s = append(s, fmt.Sprint(id))
		}
		return "[" + strings.Join(s, ";") + "]"
	}
	// success => every entry of the block's own manifest is in the validated store with the committed content
	checkStore := func(b *rBlock, what string) {
		for _, z := range b.manifest {
			if z == h.genesis {
				continue
			}
			present, valid, etxs := node.StoredPending(z.hash, b.loc)
			if !present || !valid || !sameHashes(etxs, txsOfZone(z)) {
				c.fail(sig+"unvalidated-entry-used", fmt.Sprintf("%s of block %d succeeds although the node's validated store does not hold the committed bundle of manifest entry %d (present %v, valid %v; the subordinate's answer for it was %q): content that never passed the header commitment check entered the inbound ETX computation", what, b.id, coqID[z], present, valid, z.answer))
				return
			}
		}
	}
	var rounds []string
	success := map[*rBlock][]types.Transactions{}
	succeeded := map[*rBlock]bool{}
	maxRounds := (T+3)*len(missing) + 3
	for _, b := range h.blocks {
		for i := 0; i < maxRounds; i++ {
			if i == 3 || i == T+2 { // the bare sub rollup goes through the same gate
				roll, err := node.CollectSubRollup(b.wo)
				if err != nil {
					rounds = append(rounds, fmt.Sprintf("(%d,9,2,[])", b.id))
				} else {
					rounds = append(rounds, fmt.Sprintf("(%d,9,0,%s)", b.id, idsOf(roll)))
					checkStore(b, "CollectSubRollup")
					var want types.Transactions
					for _, z := range b.manifest {
						want = append(want, txsOfZone(z)...)
					}
					if !sameHashes(roll, want) {
						c.fail(sig+"sub-rollup:content", fmt.Sprintf("the sub rollup of block %d obtained during recovery is not the concatenation of what the headers of its manifest commit to", b.id))
					}
				}
			}
			l, err := node.CollectNewlyConfirmedEtxs(b.wo, b.order)
			if c.guard != nil {
				c.guard.use(l, fmt.Sprintf("CollectNewlyConfirmedEtxs of block %d during recovery", b.id))
			}
			cls := classifyCollectErr(err)
			rounds = append(rounds, fmt.Sprintf("(%d,%d,%d,%s)", b.id, b.order, cls, idsOf(l)))
			if cls == 0 {
				succeeded[b] = true
				checkStore(b, "CollectNewlyConfirmedEtxs")
				if b.order == c.ctxN {
					success[b] = append(success[b], l)
				}
				break
			}
			if cls != 2 {
				c.fail(sig+"error", fmt.Sprintf("collection of block %d fails with something else than pending-ETXs-not-found during recovery: %v", b.id, err))
				break
			}
		}
	}
	if len(missing) > 0 && c.h.blocks != nil && asked == 0 && c.d.Shape != "recover-noclient" {
		c.fail(sig+"sub-never-asked", fmt.Sprintf("a manifest entry is missing and every collection was retried %d times (threshold %d), but the subordinate was never asked for it", maxRounds, T))
	}
	rep.CountN("recover:"+c.level+":sub-asked", asked)
	// restart: the caches are gone, the database must hold what was recovered
	if hlib.NewRng(c.d.Sub ^ 0xcafe).Fork().Chance(40) {
		node.PurgePendingCaches()
	}
	var final []string
	for _, z := range missing {
		loc := common.Location{}
		for _, b := range h.blocks {
			if b.own == z {
				loc = b.loc
			}
			for _, m := range b.manifest {
				if m == z {
					loc = b.loc
				}
			}
		}
		present, valid, etxs := node.StoredPending(z.hash, loc)
		final = append(final, fmt.Sprintf("(%d,%v)", coqID[z], present))
		switch {
		case present && (!valid || !sameHashes(etxs, txsOfZone(z))):
			c.fail(sig+"invalid-entry-stored", fmt.Sprintf("after the subordinate answered %q the node's store holds, for entry %d, a bundle that does not match the commitment of its header (passes its own header's check: %v, %d ETXs stored, %d committed)", z.answer, coqID[z], valid, len(etxs), len(z.etxs)))
		case present:
			z.missing, z.recovered = false, true
			rep.Count("recover:" + c.level + ":recovered")
		default:
			rep.Count("recover:" + c.level + ":still-missing")
		}
	}
	// a valid answer must lead to recovery: every block on whose chain all missing entries could be served
	for _, b := range h.blocks {
		servable := c.d.Shape != "recover-noclient"
		for a := b; a != nil; a = a.parent {
			for _, z := range a.manifest {
				if (z.missing || z.recovered) && z.answer != "valid" {
					servable = false
				}
			}
		}
		if servable && !succeeded[b] {
			c.fail(sig+"not-recovered", fmt.Sprintf("every missing entry on the chain of block %d is served validly by the subordinate, but %d retries (threshold %d) did not make its collection succeed", b.id, maxRounds, T))
		}
	}
	c.cw.Add(fmt.Sprintf("CF %d %d [%d] [%s] [%s] [%s] [%s] %d [%s] [%s]", c.d.ID, c.ctxN, rGenesisID, strings.Join(blocks, "; "), strings.Join(pend0, "; "),
		strings.Join(cm, "; "), strings.Join(ans, "; "), T, strings.Join(rounds, "; "), strings.Join(final, "; ")), c.d)
	rep.CountN("recover:"+c.level+":rounds", len(rounds))
	return success
}

// compareRecovered: a successful answer obtained during recovery against what is due by the forward
// simulation over the committed contents.
func compareRecovered(c *recCtx, b *rBlock, due []*rEtx, answers []types.Transactions, chain string) {
	want := map[int]int{}
	for _, e := range due {
		want[e.id]++
	}
	for _, l := range answers {
		got := map[int]int{}
		bad := ""
		for _, tx := range l {
			id, known := c.idOfHash[tx.Hash()]
			if !known {
				bad = "an ETX nobody emitted"
				break
			}
			got[id]++
		}
		if bad == "" {
			for id, w := range want {
				if got[id] < w {
					bad = fmt.Sprintf("ETX %d is due but missing (lost)", id)
				}
			}
			for id, g := range got {
				if g > want[id] {
					bad = fmt.Sprintf("ETX %d is handed down %d times, due %d times (duplicated / foreign / not due)", id, g, want[id])
				}
			}
		}
		if bad != "" {
			c.fail("route-"+c.level+":recover:answer-differs-from-committed", fmt.Sprintf("block %d: the collection that succeeded during recovery is not what the headers commit to: %s; chain %s", b.id, bad, chain))
			return
		}
	}
}

// Round-3 strengthening (seeded/C04_6): "none is altered in transit" evaluated on the CONTENT of the ETX objects, not on
// their memoised hash.
//
// Every routing monitor of part (d) names an ETX by tx.Hash(), which types.Transaction memoises at first use. An ETX
// object whose fields are rewritten in place behind that memo (because a "copy" of it shares mutable state with it, or
// because some consumer writes into the object the caches hold) keeps its name and is invisible to all of them, although
// the pending-ETX caches of the dominant chains hold exactly these objects and hand them out again at the next use
// (retry of an Append, sibling block on a fork, a peer asking for the rollup).
//
// Two monitors, both independent of the Coq model:
//
//  1. aliasGuard (used by the region, prime and two-node scenarios): the content fingerprint of every emitted ETX is
//     recorded at creation, from freshly read fields. Every list the real CollectNewlyConfirmedEtxs / CollectSubRollup
//     returns is (a) compared field by field with the emitted content and (b) then USED the way Slice.Append uses a
//     collected set at prime level: private copies through types.NewTx(etx.Inner()), the copies re-ordered and rewritten
//     through every setter of types.Transaction (SetValue = the conversion repricing, SetTo, SetEtxType) and through the
//     slices their getters expose (Data, AccessList). Afterwards the returned objects (= the cache entries) must still
//     carry the emitted content; all later collections of the scenario (the determinism calls, other blocks on forks,
//     recovery rounds) run on the caches after that use, and the store is re-validated at the end.
//  2. runCopyIndependence (once per run): types.NewTx(x.Inner()) and Transaction-level copies for an ETX of every type
//     and boundary amounts (nil, 0, 1, 2^64, 2^256-1): writing through every setter / exposed slice of one side never
//     shows on the other side, in both directions.
package main

import (
	"fmt"
	"math/big"
	"sort"
	"strings"

	"github.com/dominant-strategies/go-quai/common"
	"github.com/dominant-strategies/go-quai/core/types"
)

// etxFP reads every field of an ETX afresh (nothing memoised) and renders it.
func etxFP(tx *types.Transaction) string {
	if tx == nil {
		return "<nil>"
	}
	to := "<nil>"
	if tx.To() != nil {
		to = fmt.Sprintf("%x", tx.To().Bytes())
	}
	var al []string
	for _, t := range tx.AccessList() {
		s := fmt.Sprintf("%x", t.Address.Bytes())
		for _, k := range t.StorageKeys {
			s += fmt.Sprintf("/%x", k.Bytes())
		}
		al = append(al, s)
	}
	return fmt.Sprintf("type=%d etxtype=%d to=%s value=%s gas=%d data=%x origin=%x index=%d sender=%x al=[%s]",
		tx.Type(), tx.EtxType(), to, tx.Value().String(), tx.Gas(), tx.Data(), tx.OriginatingTxHash().Bytes(), tx.ETXIndex(), tx.ETXSender().Bytes(), strings.Join(al, ","))
}

// scribble rewrites an ETX object through every mutator the types package offers and through the slices its getters
// expose. It is only ever applied to objects the harness obtained as COPIES.
func scribble(c *types.Transaction, salt int) {
	v := c.Value()
	// the shape of the conversion repricing of Slice.Append: SetValue with an amount derived from the current one
	c.SetValue(new(big.Int).Add(new(big.Int).Div(v, big.NewInt(3)), big.NewInt(int64(7+salt))))
	var a [20]byte
	if c.To() != nil {
		copy(a[:], c.To().Bytes())
	}
	a[19] ^= 0x5a
	a[10] ^= byte(1 + salt)
	c.SetTo(common.BytesToAddress(a[:], common.Location{0, 0}))
	c.SetEtxType((c.EtxType() + 1) % 7)
	if d := c.Data(); len(d) > 0 {
		d[0] ^= 0xff
		d[len(d)-1] ^= 0x0f
	}
	if al := c.AccessList(); len(al) > 0 {
		// the tuple only: the storage-key slices of an access list are shared by copy() on the unchanged tree (shallow
		// copy, nothing in the routing code writes into them), so they are deliberately left alone
		al[0].Address = common.BytesToAddress(a[:], common.Location{0, 0})
	}
}

type aliasGuard struct {
	level  string
	byHash map[common.Hash]string // memoised name -> emitted content
	idOf   map[common.Hash]int
	fail   func(sig, what string)
	seen   map[string]bool
	uses   int
}

func newAliasGuard(level string, etxs []*rEtx, fail func(sig, what string)) *aliasGuard {
	g := &aliasGuard{level: level, byHash: map[common.Hash]string{}, idOf: map[common.Hash]int{}, fail: fail, seen: map[string]bool{}}
	for _, e := range etxs {
		g.byHash[e.tx.Hash()] = etxFP(e.tx)
		g.idOf[e.tx.Hash()] = e.id
	}
	return g
}

func (g *aliasGuard) add(tx *types.Transaction, id int) {
	if _, ok := g.byHash[tx.Hash()]; !ok {
		g.byHash[tx.Hash()] = etxFP(tx)
		g.idOf[tx.Hash()] = id
	}
}

func (g *aliasGuard) once(sig, what string) {
	if g.seen[sig] { // one report per class and scenario: the classes below repeat on every later call
		return
	}
	g.seen[sig] = true
	g.fail(sig, what)
}

// check compares the content of every known ETX of a list handed out by the node with what was emitted.
func (g *aliasGuard) check(l types.Transactions, where string) {
	for _, tx := range l {
		want, known := g.byHash[tx.Hash()]
		if !known {
			continue // unknown objects are the business of the `altered` / `unknown` monitors on names
		}
		if got := etxFP(tx); got != want {
			g.once("route-"+g.level+":altered:content", fmt.Sprintf("%s hands out ETX %d under its original hash but with other content: now {%s}, emitted {%s}", where, g.idOf[tx.Hash()], got, want))
		}
	}
}

// use does with a collected set what Slice.Append (prime) does with newInboundEtxs: copy, then reorder and rewrite the copies.
func (g *aliasGuard) use(l types.Transactions, where string) {
	g.check(l, where)
	if len(l) == 0 {
		return
	}
	g.uses++
	before := make([]string, len(l))
	for i, tx := range l {
		before[i] = etxFP(tx)
	}
	cp := make(types.Transactions, len(l))
	for i, tx := range l {
		cp[i] = types.NewTx(tx.Inner())
	}
	sort.SliceStable(cp, func(i, j int) bool { return cp[i].Value().Cmp(cp[j].Value()) > 0 })
	for i, c := range cp {
		scribble(c, i%5)
	}
	for i, tx := range l {
		if got := etxFP(tx); got != before[i] {
			g.once("route-"+g.level+":altered:shared-with-copy", fmt.Sprintf("%s: after the set was copied with types.NewTx(etx.Inner()) and the COPIES were rewritten (repricing, as Slice.Append does at prime), the object held by the node's caches changed: now {%s}, before {%s}", where, got, before[i]))
		}
	}
}

// final: every emitted object (the very objects the pending caches hold) still carries what was emitted.
func (g *aliasGuard) final(etxs []*rEtx) {
	for _, e := range etxs {
		if want := g.byHash[e.tx.Hash()]; etxFP(e.tx) != want {
			g.once("route-"+g.level+":altered:emitted-object", fmt.Sprintf("ETX %d as held by the pending caches at the end of the scenario is {%s}, emitted {%s}", e.id, etxFP(e.tx), want))
		}
	}
	rep.CountN(g.level+":append-like-uses", g.uses)
}

// runCopyIndependence: the copy primitives the routing code relies on, for every ETX type and boundary amounts.
func runCopyIndependence() {
	fail := func(sig, what string) { rep.Fail(sig, what, Desc{ID: 0, Kind: "copy", Shape: "independence"}) }
	defer func() {
		if p := recover(); p != nil {
			fail("etx-copy:panic", fmt.Sprintf("copying an ETX panicked: %v", p))
		}
	}()
	max256 := new(big.Int).Sub(new(big.Int).Lsh(big.NewInt(1), 256), big.NewInt(1))
	vals := []*big.Int{nil, big.NewInt(0), big.NewInt(1), new(big.Int).Lsh(big.NewInt(1), 64), max256, big.NewInt(9000000)}
	reported := map[string]bool{}
	once := func(sig, what string) {
		if !reported[sig] {
			reported[sig] = true
			fail(sig, what)
		}
	}
	n := 0
	for typ := uint64(0); typ < 7; typ++ {
		for vi, v := range vals {
			for _, withData := range []bool{false, true} {
				to := addr(byte(0x10+typ), typ%2 == 1, byte(vi))
				snd := addr(0x00, false, byte(typ))
				var oh common.Hash
				oh[31], oh[30] = byte(typ), byte(vi)
				inner := &types.ExternalTx{OriginatingTxHash: oh, ETXIndex: uint16(typ*10 + uint64(vi)), Gas: 21000 + typ, To: &to, Sender: snd, EtxType: typ}
				if v != nil {
					inner.Value = new(big.Int).Set(v)
				}
				if withData {
					inner.Data = []byte{1, 2, 3, byte(typ)}
					inner.AccessList = types.AccessList{{Address: to, StorageKeys: []common.Hash{oh}}}
				}
				mk := map[string]func(x *types.Transaction) *types.Transaction{
					"NewTx(Inner)": func(x *types.Transaction) *types.Transaction { return types.NewTx(x.Inner()) },
				}
				for name, cpf := range mk {
					n++
					rep.Evaluations++
					// the harness's struct -> orig is itself a copy (NewTx): writing into the struct must not show either
					orig := types.NewTx(inner)
					f0 := etxFP(orig)
					if inner.Value != nil {
						inner.Value.Add(inner.Value, big.NewInt(11))
					}
					if len(inner.Data) > 0 {
						inner.Data[0] ^= 0x80
					}
					if etxFP(orig) != f0 {
						once("etx-copy:aliasing:constructor", fmt.Sprintf("types.NewTx(inner) (ETX type %d): writing into the caller's struct afterwards changes the transaction: {%s} -> {%s}", typ, f0, etxFP(orig)))
						f0 = etxFP(orig)
					}
					h0 := orig.Hash()
					c := cpf(orig)
					if etxFP(c) != f0 {
						once("etx-copy:not-equal", fmt.Sprintf("%s of an ETX of type %d differs from the original: {%s} vs {%s}", name, typ, etxFP(c), f0))
						continue
					}
					scribble(c, vi)
					fc := etxFP(c)
					if got := etxFP(orig); got != f0 {
						once("etx-copy:aliasing:copy-to-original", fmt.Sprintf("%s (ETX type %d, amount %v): rewriting the copy changes the original, whose hash %x stays memoised: {%s} -> {%s}", name, typ, v, h0.Bytes()[:4], f0, got))
					}
					// other direction: a second copy taken now, then the original's copy-source rewritten
					c2 := cpf(orig)
					f2 := etxFP(c2)
					scribble(orig, vi+1)
					if etxFP(c2) != f2 {
						once("etx-copy:aliasing:original-to-copy", fmt.Sprintf("%s (ETX type %d, amount %v): rewriting the original changes an earlier copy: {%s} -> {%s}", name, typ, v, f2, etxFP(c2)))
					}
					if etxFP(c) != fc {
						once("etx-copy:aliasing:original-to-copy", fmt.Sprintf("%s (ETX type %d, amount %v): rewriting the original changes an earlier, already rewritten copy", name, typ, v))
					}
				}
			}
		}
	}
	rep.CountN("copy:independence-cases", n)
	rep.TracesValidated++
}

// ---- forged bundle first (seeded/C04_5) -------------------------------------------------------------------------------
//
// The order of arrival the recovery scenarios do not produce: a bundle for the right header whose content the header does
// not commit to reaches AddPendingEtxs / AddPendingEtxsRollup BEFORE the genuine one (gossip / a peer's answer). It must be
// refused, must leave no trace in cache or database, and the genuine bundle that follows must be accepted and be what
// every later collection of the scenario (all the part (d) monitors and the CH tie) is computed from.

func alteredEtx(tx *types.Transaction) *types.Transaction {
	to := *tx.To()
	return types.NewTx(&types.ExternalTx{OriginatingTxHash: tx.OriginatingTxHash(), ETXIndex: tx.ETXIndex(), Gas: tx.Gas(), To: &to,
		Value: new(big.Int).Add(tx.Value(), big.NewInt(4999995)), Data: tx.Data(), Sender: tx.ETXSender(), EtxType: tx.EtxType(), AccessList: tx.AccessList()})
}

var forgedKinds = []string{"empty", "extra-behind", "extra-in-front", "altered-amount", "dropped-one", "reordered", "other-content"}

// forgedFirst sends, with probability pct %, one forged bundle for the header before the caller sends the genuine one.
// add wraps the real AddPendingEtxs / AddPendingEtxsRollup for that header; stored reads the node's store through the
// production getters. Returns the quality used ("" = none).
func forgedFirst(level string, r interface{ Intn(int) int }, pct int, genuine types.Transactions, pool []*rEtx, add func(types.Transactions) error,
	stored func() (bool, bool, types.Transactions), fail func(sig, what string)) string {
	if r.Intn(100) >= pct {
		return ""
	}
	in := map[common.Hash]bool{}
	for _, tx := range genuine {
		in[tx.Hash()] = true
	}
	var extra *types.Transaction
	for i, n := 0, len(pool); i < n; i++ {
		if e := pool[(i+r.Intn(n))%n]; !in[e.tx.Hash()] {
			extra = e.tx
			break
		}
	}
	kind := forgedKinds[r.Intn(len(forgedKinds))]
	var forged types.Transactions
	switch {
	case kind == "empty" && len(genuine) > 0:
		forged = types.Transactions{}
	case kind == "extra-behind" && extra != nil:
		forged = append(append(types.Transactions{}, genuine...), extra)
	case kind == "extra-in-front" && extra != nil:
		forged = append(types.Transactions{extra}, genuine...)
	case kind == "altered-amount" && len(genuine) > 0:
		forged = append(types.Transactions{}, genuine...)
		i := r.Intn(len(forged))
		forged[i] = alteredEtx(forged[i])
	case kind == "dropped-one" && len(genuine) > 0:
		i := r.Intn(len(genuine))
		forged = append(append(types.Transactions{}, genuine[:i]...), genuine[i+1:]...)
	case kind == "reordered" && len(genuine) > 1:
		forged = append(append(types.Transactions{}, genuine[1:]...), genuine[0])
	case extra != nil:
		kind, forged = "other-content", types.Transactions{extra}
	default:
		return ""
	}
	rep.Count(level + ":forged-first:" + kind)
	if err := add(forged); err == nil {
		fail("route-"+level+":forged-bundle:accepted", fmt.Sprintf("a bundle (%s: %d ETXs) that the header does not commit to (%d ETXs) is accepted", kind, len(forged), len(genuine)))
	}
	if stored != nil {
		if present, _, _ := stored(); present {
			fail("route-"+level+":forged-bundle:kept", fmt.Sprintf("a refused bundle (%s) can afterwards be read from the node's pending store (cache or database) under the block's hash", kind))
		}
	}
	return kind
}

// afterGenuine: the genuine bundle has been sent (after a forged one): it must be what the store serves.
func afterGenuine(level, kind string, genuine types.Transactions, err error, stored func() (bool, bool, types.Transactions), fail func(sig, what string)) {
	if kind == "" {
		return
	}
	if err != nil {
		fail("route-"+level+":forged-bundle:genuine-refused", fmt.Sprintf("the genuine bundle is turned away (%v) because a forged one (%s) for the same header arrived first", err, kind))
	}
	if stored != nil {
		present, valid, etxs := stored()
		if !present || !valid || !sameHashes(etxs, genuine) {
			fail("route-"+level+":forged-bundle:store", fmt.Sprintf("after a forged bundle (%s) followed by the genuine one the store serves: present %v, passes the commitment check %v, %d ETXs (genuine %d)", kind, present, valid, len(etxs), len(genuine)))
		}
	}
}

package main

// Part (d), prime level: the same real functions (Slice.CollectNewlyConfirmedEtxs with nodeCtx = PRIME,
// the prime branch of HeaderChain.CollectSubRollup over the pending ETX rollups received from the
// regions) on a prime node fed random prime chains: 2-3 regions, 5-12 prime blocks of random slices,
// forks, 0-3 region blocks between coincident blocks, rollups holding ETXs of every type for every
// region (also regions that produce no block, and -- which a correct region never sends -- ETXs that
// stay inside their region).  Tie: case CH with ctx = 0.  Monitor: forward simulation -- every ETX of
// a rollup is due exactly once, at the first prime block of its destination region at or after the
// block that refers to the rollup.

import (
	"fmt"
	"math/big"
	"sort"
	"strings"

	"github.com/dominant-strategies/go-quai/common"
	"github.com/dominant-strategies/go-quai/core"
	"github.com/dominant-strategies/go-quai/core/rawdb"
	"github.com/dominant-strategies/go-quai/core/types"
	"github.com/dominant-strategies/go-quai/trie"

	"verifharness/hlib"
)

var primeShapes = []string{"round-robin", "one-region-run", "forks", "expansion", "missing-rollup", "recover-valid", "recover-bad", "recover-mixed", "recover-noclient", "recover-two-nodes", "rand"}

func genPrime(d Desc) *rHist {
	r := hlib.NewRng(d.Sub).Fork()
	u := newUni(r.Fork())
	h := &rHist{nz: 2 + r.Intn(2)} // nz = number of regions that produce blocks
	zid, eid := 100, 0
	mkEtx := func(prefix byte, typ uint64, from byte) *rEtx {
		eid++
		u.serial++
		tx := u.build(u.serial, prefix, r.Chance(40), typ, int64(1+r.Intn(1<<30)), 21000+uint64(r.Intn(50000)), nil, r.Chance(20), from, r.Chance(40))
		e := &rEtx{tx: tx, id: eid, prefix: prefix, typ: typ}
		h.etxs = append(h.etxs, e)
		return e
	}
	rollup := func(region int, n int) []*rEtx {
		var l []*rEtx
		for i := 0; i < n; i++ {
			typ := uint64(r.Intn(7))
			var dest int
			switch r.Pick(60, 25, 15) {
			case 0: // leaves the region
				dest = (region + 1 + r.Intn(h.nz)) % (h.nz + 1)
				if dest == region {
					dest = (dest + 1) % (h.nz + 1)
				}
			case 1: // conversion / coinbase, any region including its own
				typ = uint64(1 + r.Intn(2))
				dest = r.Intn(h.nz)
			default: // whatever (also what a correct region keeps inside)
				dest = r.Intn(h.nz + 1)
			}
			l = append(l, mkEtx(byte(dest)<<4|byte(r.Intn(3)), typ, byte(region)<<4))
		}
		return l
	}
	newZone := func(etxs []*rEtx) *rZone {
		zid++
		z := &rZone{id: zid, etxs: etxs}
		h.zones = append(h.zones, z)
		return z
	}
	h.genesis = &rZone{id: rGenesisID}
	n := 5 + r.Intn(8)
	forkPct := 15
	if d.Shape == "forks" {
		forkPct = 40
	}
	for i := 0; i < n; i++ {
		b := &rBlock{id: 10 + i, exp: 4, order: common.PRIME_CTX}
		if len(h.blocks) > 0 {
			b.parent = h.blocks[len(h.blocks)-1]
			if r.Chance(forkPct) {
				if k := r.Intn(len(h.blocks) + 1); k == len(h.blocks) {
					b.parent = nil
				} else {
					b.parent = h.blocks[k]
				}
			}
		}
		reg := r.Intn(h.nz)
		switch d.Shape {
		case "round-robin":
			reg = i % h.nz
		case "one-region-run":
			if i > 0 && r.Chance(65) {
				reg = int(h.blocks[len(h.blocks)-1].loc[0])
			}
		case "expansion":
			b.exp = uint8(r.Intn(6))
		}
		b.loc = common.Location{byte(reg), byte(r.Intn(3))}
		var prev *rBlock
		for a := b.parent; a != nil; a = a.parent {
			if a.loc.Region() == b.loc.Region() {
				prev = a
				break
			}
		}
		if prev != nil {
			b.manifest = append(b.manifest, prev.own)
		} else if r.Chance(50) {
			b.manifest = append(b.manifest, h.genesis)
		}
		for k := r.Intn(4); k > 0; k-- {
			b.manifest = append(b.manifest, newZone(rollup(reg, r.Intn(4))))
		}
		b.own = newZone(rollup(reg, r.Intn(3)))
		h.blocks = append(h.blocks, b)
	}
	if d.Shape == "missing-rollup" {
		h.zones[r.Intn(len(h.zones))].missing = true
	}
	if isRecover(d.Shape) {
		// the extras are what a region keeps inside: ordinary ETXs between its own zones
		markRecover(h, d, r, func(owner *rBlock) *rEtx {
			return mkEtx(owner.loc[0]<<4|byte(r.Intn(3)), types.DefaultType, owner.loc[0]<<4|byte(r.Intn(3)))
		})
	}
	return h
}

func runPrime(d Desc, cw *hlib.CaseWriter) {
	if d.Shape == "recover-two-nodes" {
		runTwoNodes(d, cw)
		return
	}
	fail := func(sig, what string) { rep.Fail(sig, what, d) }
	defer func() {
		if p := recover(); p != nil {
			fail("route-prime:panic", fmt.Sprintf("the prime routing scenario panicked: %v", p))
		}
	}()
	rep.Evaluations++
	h := genPrime(d)
	slices := []common.Location{}
	for reg := 0; reg < h.nz; reg++ {
		for z := 0; z < 3; z++ {
			slices = append(slices, common.Location{byte(reg), byte(z)})
		}
	}
	newNode := core.VerifC04NewRegion
	if isRecover(d.Shape) {
		newNode = core.VerifC04NewDom // the recovery path wired as in NewSlice
	}
	node, err := newNode(rawdb.NewMemoryDatabase(logger), common.Location{}, slices, 4, logger)
	if err != nil {
		fail("route-prime:setup", "cannot build the prime node: "+err.Error())
		return
	}
	defer node.Close()
	h.genesis.hash = node.Genesis.Hash()
	if err := node.AddPendingEtxsRollup(types.PendingEtxsRollup{Header: node.Genesis, EtxsRollup: types.Transactions{}}); err != nil {
		fail("route-prime:setup", "cannot register the empty rollup of the genesis block: "+err.Error())
		return
	}
	nonce := uint64(d.Sub<<8) | 1
	idOfHash := map[common.Hash]int{}
	for _, e := range h.etxs {
		idOfHash[e.tx.Hash()] = e.id
	}
	guard := newAliasGuard("prime", h.etxs, fail)
	defer guard.final(h.etxs)
	txsOf := func(z *rZone) types.Transactions {
		l := types.Transactions{}
		for _, e := range z.etxs {
			l = append(l, e.tx)
		}
		return l
	}
	forgeRng := hlib.NewRng(d.Sub ^ 0xf0e1d2).Fork() // its own stream: the generated history does not depend on it
	register := func(z *rZone, wo *types.WorkObject) bool {
		pr := types.PendingEtxsRollup{Header: wo.ConvertToPEtxView(), EtxsRollup: txsOf(z)}
		z.hash, z.hdr = pr.Header.Hash(), wo
		// alias.go: in a share of the rollups a forged one for the same header arrives first
		genuine := txsOf(z)
		stored := func() (bool, bool, types.Transactions) { return node.StoredPending(z.hash, wo.Location()) }
		forged := forgedFirst("prime", forgeRng, 30, genuine, h.etxs, func(l types.Transactions) error {
			return node.AddPendingEtxsRollup(types.PendingEtxsRollup{Header: wo.ConvertToPEtxView(), EtxsRollup: l})
		}, stored, fail)
		if z.missing {
			return true
		}
		err := node.AddPendingEtxsRollup(pr)
		afterGenuine("prime", forged, genuine, err, stored, fail)
		if err != nil {
			fail("route-prime:setup", "AddPendingEtxsRollup refused a well formed rollup: "+err.Error())
			return false
		}
		return true
	}
	isBlock := map[*rZone]bool{h.genesis: true}
	for _, b := range h.blocks {
		isBlock[b.own] = true
	}
	for _, b := range h.blocks {
		for _, z := range b.manifest {
			if isBlock[z] {
				continue
			}
			nonce++
			wo := types.EmptyWorkObject(common.REGION_CTX)
			wo.WorkObjectHeader().SetLocation(b.loc)
			wo.WorkObjectHeader().SetNonce(types.EncodeNonce(nonce))
			wo.Header().SetEtxRollupHash(types.DeriveSha(txsOf(z), trie.NewStackTrie(nil)))
			sealWO(wo)
			if !register(z, wo) {
				return
			}
		}
		nonce++
		wo := types.EmptyWorkObject(common.PRIME_CTX)
		wo.WorkObjectHeader().SetLocation(b.loc)
		wo.WorkObjectHeader().SetNonce(types.EncodeNonce(nonce))
		wo.Header().SetExpansionNumber(b.exp)
		wo.Header().SetEtxRollupHash(types.DeriveSha(txsOf(b.own), trie.NewStackTrie(nil)))
		parentHash, parentNum := node.Genesis.Hash(), node.Genesis.Number(common.PRIME_CTX)
		if b.parent != nil {
			parentHash, parentNum = b.parent.wo.Hash(), b.parent.wo.Number(common.PRIME_CTX)
		}
		wo.SetParentHash(parentHash, common.PRIME_CTX)
		wo.SetNumber(new(big.Int).Add(parentNum, common.Big1), common.PRIME_CTX)
		man := types.BlockManifest{}
		for _, z := range b.manifest {
			man = append(man, z.hash)
		}
		wo.Body().SetManifest(man)
		sealWO(wo)
		got, err := node.StoreBlock(wo, b.order)
		if err != nil {
			fail("route-prime:setup", err.Error())
			return
		}
		if len(got.Manifest()) != len(man) || !got.Location().Equal(b.loc) || got.ParentHash(common.PRIME_CTX) != parentHash || got.ExpansionNumber() != b.exp {
			fail("route-prime:setup", "a stored prime block reads back differently")
			return
		}
		b.wo = got
		if !register(b.own, got) {
			return
		}
		if b.own.hash != got.Hash() {
			fail("route-prime:setup", "rollup key of a coincident block differs from the block hash")
			return
		}
	}
	idsOf := func(l types.Transactions) string {
		var s []string
		for _, tx := range l {
			id, known := idOfHash[tx.Hash()]
			if !known {
				id = unknownID
			}
			s = append(s, fmt.Sprint(id))
		}
		return "[" + strings.Join(s, ";") + "]"
	}
	var rc *recCtx
	var recAns map[*rBlock][]types.Transactions
	if isRecover(d.Shape) {
		rc = &recCtx{level: "prime", ctxN: common.PRIME_CTX, node: node, h: h, d: d, idOfHash: idOfHash, fail: fail, cw: cw, guard: guard}
		recAns = recoverPhase(rc)
	}
	r := hlib.NewRng(d.Sub ^ 0x9e37).Fork()
	var rollQ, ncQ []string
	handed := map[*rBlock]rObs{}
	for _, b := range h.blocks {
		roll, err := node.CollectSubRollup(b.wo)
		guard.use(roll, fmt.Sprintf("CollectSubRollup of prime block %d", b.id))
		var want types.Transactions
		complete := true
		for _, z := range b.manifest {
			if z.missing {
				complete = false
			}
			want = append(want, txsOf(z)...)
		}
		if err != nil {
			rollQ = append(rollQ, fmt.Sprintf("(%d,None)", b.id))
			if complete {
				fail("route-prime:sub-rollup:error", "CollectSubRollup fails although prime holds the rollup of every block of the manifest: "+err.Error())
			}
		} else {
			rollQ = append(rollQ, fmt.Sprintf("(%d,Some %s)", b.id, idsOf(roll)))
			if complete && !sameHashes(roll, want) {
				fail("route-prime:sub-rollup:content", "the sub rollup of a prime block is not the concatenation, in manifest order, of the rollups of its region blocks")
			}
			if !complete {
				fail("route-prime:sub-rollup:incomplete", "CollectSubRollup succeeds although the rollup of a region block of the manifest was never received")
			}
		}
		l, err := node.CollectNewlyConfirmedEtxs(b.wo, b.order)
		guard.use(l, fmt.Sprintf("CollectNewlyConfirmedEtxs of prime block %d", b.id))
		o := rObs{classifyCollectErr(err), l}
		ncQ = append(ncQ, fmt.Sprintf("(%d,%d,%d,%s)", b.id, b.order, o.class, idsOf(o.list)))
		l2, err2 := node.CollectNewlyConfirmedEtxs(b.wo, b.order)
		if r.Chance(30) {
			node.PurgeSubRollupCache()
		}
		l3, err3 := node.CollectNewlyConfirmedEtxs(b.wo, b.order)
		guard.check(l2, fmt.Sprintf("the second CollectNewlyConfirmedEtxs of prime block %d (an Append retried after the first attempt used the set)", b.id))
		guard.check(l3, fmt.Sprintf("the third CollectNewlyConfirmedEtxs of prime block %d", b.id))
		if classifyCollectErr(err2) != o.class || classifyCollectErr(err3) != o.class || !sameHashes(l, l2) || !sameHashes(l, l3) {
			fail("route-prime:not-deterministic", "CollectNewlyConfirmedEtxs gives different answers for the same prime block (memo of sub rollups)")
		}
		for _, other := range []int{common.REGION_CTX, common.ZONE_CTX} {
			if r.Chance(25) {
				lo, erro := node.CollectNewlyConfirmedEtxs(b.wo, other)
				ncQ = append(ncQ, fmt.Sprintf("(%d,%d,%d,%s)", b.id, other, classifyCollectErr(erro), idsOf(lo)))
			}
		}
		handed[b] = o
	}
	rep.TracesValidated++

	coqID := map[*rZone]int{h.genesis: rGenesisID}
	for _, z := range h.zones {
		coqID[z] = z.id
	}
	for _, b := range h.blocks {
		coqID[b.own] = b.id
	}
	blocks := []string{fmt.Sprintf("mkRB %d 0 [] 0 0 [] []", rGenesisID)}
	pend := []string{fmt.Sprintf("(%d,[])", rGenesisID)}
	for _, b := range h.blocks {
		parent := rGenesisID
		if b.parent != nil {
			parent = b.parent.id
		}
		var man []string
		for _, z := range b.manifest {
			man = append(man, fmt.Sprint(coqID[z]))
		}
		blocks = append(blocks, fmt.Sprintf("mkRB %d %d %s %d %d [%s] []", b.id, parent, coqLoc(b.loc), b.order, b.exp, strings.Join(man, ";")))
	}
	for _, z := range h.zones {
		if z.missing {
			continue
		}
		var l []string
		for _, e := range z.etxs {
			l = append(l, e.coq())
		}
		pend = append(pend, fmt.Sprintf("(%d,[%s])", coqID[z], strings.Join(l, ";")))
	}
	cw.Add(fmt.Sprintf("CH %d 0 [%d] [%s] [%s] [%s] [%s]", d.ID, rGenesisID, strings.Join(blocks, "; "), strings.Join(pend, "; "), strings.Join(rollQ, "; "), strings.Join(ncQ, "; ")), d)

	// ---- monitor
	nDue := 0
	for _, b := range h.blocks {
		var path []*rBlock
		for a := b; a != nil; a = a.parent {
			path = append([]*rBlock{a}, path...)
		}
		ok, structOK := true, true
		for _, a := range path {
			for _, z := range a.manifest {
				if z.missing {
					ok = false
				}
			}
			if a != b {
				regs, zs := common.GetHierarchySizeForExpansionNumber(a.exp)
				if b.loc.Region() > int(regs) || b.loc.Zone() > int(zs) {
					ok, structOK = false, false // the slice of b is not active under that ancestor: the search ends there by design
				}
			}
		}
		got := handed[b]
		if !ok && (!structOK || len(recAns[b]) == 0) {
			rep.Count("prime:monitor:not-applicable")
			continue
		}
		if ok && got.class != 0 {
			fail("route-prime:error-on-complete-history", fmt.Sprintf("CollectNewlyConfirmedEtxs fails (class %d) on a complete prime history", got.class))
			continue
		}
		pending := map[int][]*rEtx{}
		delivered := map[int]bool{}
		var due []*rEtx
		for _, a := range path {
			for _, z := range a.manifest {
				for _, e := range z.etxs {
					reg := int(e.prefix >> 4)
					pending[reg] = append(pending[reg], e)
				}
			}
			due = pending[a.loc.Region()]
			delete(pending, a.loc.Region())
			if a != b {
				for _, e := range due {
					delivered[e.id] = true
				}
			}
		}
		if len(recAns[b]) > 0 {
			compareRecovered(rc, b, due, recAns[b], pathString(path))
		}
		if !ok {
			rep.Count("prime:monitor:not-applicable")
			continue
		}
		nDue += len(due)
		want, gotc := map[int]int{}, map[int]int{}
		byID := map[int]*rEtx{}
		for _, e := range due {
			want[e.id]++
			byID[e.id] = e
		}
		for _, tx := range got.list {
			id, known := idOfHash[tx.Hash()]
			if !known {
				fail("route-prime:altered", fmt.Sprintf("prime block %d hands down an ETX that no rollup holds", b.id))
				continue
			}
			gotc[id]++
			if tx.To().Location().Region() != b.loc.Region() {
				fail("route-prime:wrong-region", fmt.Sprintf("ETX %d destined to %v is handed to region %d", id, *tx.To().Location(), b.loc.Region()))
			}
		}
		var ids []int
		for id := range want {
			ids = append(ids, id)
		}
		for id := range gotc {
			if want[id] == 0 {
				ids = append(ids, id)
			}
		}
		sort.Ints(ids)
		for _, id := range ids {
			w, g := want[id], gotc[id]
			switch {
			case g < w:
				fail("route-prime:lost", fmt.Sprintf("ETX %d (type %d, to %v) is due at prime block %d (slice %v: the first prime block of its destination region at or after the block that refers to its rollup) but is not handed down; chain %s", id, byID[id].typ, byID[id].dest(), b.id, b.loc, pathString(path)))
			case g > w && (delivered[id] || w > 0):
				fail("route-prime:duplicated", fmt.Sprintf("ETX %d is handed down again by prime block %d; chain %s", id, b.id, pathString(path)))
			case g > w:
				fail("route-prime:not-due", fmt.Sprintf("ETX %d is handed down by prime block %d (slice %v) where it is not due; chain %s", id, b.id, b.loc, pathString(path)))
			}
		}
	}
	rep.Count("prime:shape:" + d.Shape)
	rep.Count("prime:blocks:" + bucket(len(h.blocks)))
	rep.CountN("prime:due-items", nDue)
	if nDue > 0 {
		rep.Nontrivial(fmt.Sprintf("prime/%s/%d", d.Shape, d.Sub))
	}
}

package main

// Part (d): routing across region blocks.  A region-level node (core.VerifC04NewRegion: the real
// HeaderChain over a memory database, block order supplied through the calc-order cache) is fed
// random region chains -- 2-3 zones, 5-12 region blocks, prime-coincident blocks at random
// positions, forks, 0-3 zone blocks between coincident blocks, ETXs of every type to zones of
// this region, to zones that do not exist and to other regions, ETX sets handed down by prime
// (also "returning" coinbase/conversion ETXs emitted earlier in this region) -- and for every
// region block the REAL Slice.CollectNewlyConfirmedEtxs / HeaderChain.CollectSubRollup are run.
//
//   tie:     the whole history and every observed result go to the Coq model (case CH).
//   monitor: forward simulation of the property itself (independent of the backward walk of the
//            code): along the chain ending in each block, every ETX for a zone Z of this region
//            is due exactly once, at the first region block of zone Z that is at or after the
//            block that rolled it up (for what prime handed down: the prime-order block itself if
//            it is of zone Z); what a block hands down must be exactly what is due.

import (
	"errors"
	"fmt"
	"math/big"
	"sort"
	"strings"

	"github.com/dominant-strategies/go-quai/common"
	"github.com/dominant-strategies/go-quai/core"
	"github.com/dominant-strategies/go-quai/core/rawdb"
	"github.com/dominant-strategies/go-quai/core/types"
	"github.com/dominant-strategies/go-quai/trie"

	"verifharness/hlib"
)

type rEtx struct {
	tx     *types.Transaction
	id     int
	prefix byte
	typ    uint64
}

func (e *rEtx) standard() bool { return e.typ != types.CoinbaseType && e.typ != types.ConversionType }
func (e *rEtx) dest() common.Location {
	return common.Location{e.prefix >> 4, e.prefix & 15}
}
func (e *rEtx) coq() string { return fmt.Sprintf("(%d,%d,%d)", e.id, e.prefix, e.typ) }

type rZone struct { // a zone block known to the region by the ETXs it emitted
	id      int
	hash    common.Hash
	etxs    []*rEtx
	missing bool // the region never received its pending ETXs
	hdr     *types.WorkObject
	// recovery scenarios (recover.go): what the subordinate answers when asked again for this entry
	answer    string
	extra     []*rEtx // ETXs the header does not commit to, used by the invalid answers
	foreign   *rZone  // the other block whose (valid) bundle is sent instead
	asked     int
	recovered bool
}

type rBlock struct {
	id       int
	parent   *rBlock // nil: genesis (or an unknown parent if orphan)
	orphan   bool
	loc      common.Location
	order    int
	exp      uint8
	manifest []*rZone
	inbound  []*rEtx // what prime handed down with this block (stored for blocks of prime order)
	own      *rZone  // this block as a zone block: what it emitted itself
	wo       *types.WorkObject
	depth    int
}

type rHist struct {
	region  byte
	nz      int
	blocks  []*rBlock
	zones   []*rZone // every zone block (fresh ones and the region blocks themselves)
	etxs    []*rEtx
	genesis *rZone // the genesis as an entry of manifests
}

const (
	rGenesisID = 1
)

// the answer-to-prime finding is reported once per run (it shows on most blocks and would crowd the report)
var rollupForDomReported bool

var regionShapes = []string{"demo-prime-between", "prime-heavy", "single-zone-run", "forks", "expansion", "missing-pending", "orphan", "recover-valid", "recover-bad", "recover-mixed", "recover-noclient", "rand"}

// genRegion builds a history as a deterministic function of the descriptor.
func genRegion(d Desc) *rHist {
	r := hlib.NewRng(d.Sub).Fork()
	u := newUni(r.Fork())
	h := &rHist{region: byte(r.Intn(3)), nz: 2 + r.Intn(2)}
	if d.Shape == "demo-prime-between" {
		h.nz = 3
	}
	zid, eid := 100, 0
	mkEtx := func(prefix byte, typ uint64, from byte) *rEtx {
		eid++
		u.serial++
		var data []byte
		if r.Chance(30) {
			data = r.Bytes(r.Intn(20))
		}
		tx := u.build(u.serial, prefix, r.Chance(40), typ, int64(1+r.Intn(1<<30)), 21000+uint64(r.Intn(50000)), data, r.Chance(20), from, r.Chance(40))
		e := &rEtx{tx: tx, id: eid, prefix: prefix, typ: typ}
		h.etxs = append(h.etxs, e)
		return e
	}
	pickType := func() uint64 {
		switch r.Pick(50, 12, 12, 26) {
		case 0:
			return types.DefaultType
		case 1:
			return types.CoinbaseType
		case 2:
			return types.ConversionType
		}
		return uint64(3 + r.Intn(4)) // lockup, wrapping, conversion revert, unwrap
	}
	inRegion := func(z int) byte { return h.region<<4 | byte(z) }
	pickDest := func() byte {
		switch r.Pick(62, 10, 28) {
		case 0:
			return inRegion(r.Intn(h.nz))
		case 1:
			return inRegion(h.nz + r.Intn(2)) // a zone of this region that produces no block here
		}
		reg := byte(r.Intn(3))
		if reg == h.region {
			reg = (reg + 1) % 3
		}
		return reg<<4 | byte(r.Intn(3))
	}
	emit := func(from byte, n int) []*rEtx {
		var l []*rEtx
		for i := 0; i < n; i++ {
			l = append(l, mkEtx(pickDest(), pickType(), from))
		}
		return l
	}
	newZone := func(etxs []*rEtx) *rZone {
		zid++
		z := &rZone{id: zid, etxs: etxs}
		h.zones = append(h.zones, z)
		return z
	}
	h.genesis = &rZone{id: rGenesisID}

	n := 5 + r.Intn(8)
	primePct, forkPct, maxBetween := 25, 15, 3
	switch d.Shape {
	case "demo-prime-between":
		n = 7
	case "prime-heavy":
		primePct = 55
	case "single-zone-run":
		forkPct = 0
	case "forks":
		forkPct = 40
	}
	for i := 0; i < n; i++ {
		b := &rBlock{id: 10 + i, exp: 4}
		// parent
		if len(h.blocks) > 0 {
			b.parent = h.blocks[len(h.blocks)-1]
			if r.Chance(forkPct) {
				k := r.Intn(len(h.blocks) + 1)
				if k == len(h.blocks) {
					b.parent = nil
				} else {
					b.parent = h.blocks[k]
				}
			}
		}
		if b.parent != nil {
			b.depth = b.parent.depth + 1
		}
		z := r.Intn(h.nz)
		b.order = common.REGION_CTX
		if r.Chance(primePct) {
			b.order = common.PRIME_CTX
		}
		switch d.Shape {
		case "demo-prime-between": // zone 1, zone 0, PRIME zone 1, zone 2, zone 1, zone 0, zone 2
			z = []int{1, 0, 1, 2, 1, 0, 2}[i]
			b.order = common.REGION_CTX
			if i == 2 {
				b.order = common.PRIME_CTX
			}
		case "single-zone-run": // long runs of the same zone with prime blocks of that zone inside
			if i > 0 && r.Chance(60) {
				z = int(h.blocks[len(h.blocks)-1].loc[1])
			}
		case "expansion":
			b.exp = uint8(r.Intn(6))
		}
		b.loc = common.Location{h.region, byte(z)}
		// manifest: the previous coincident block of this zone on the path (or the genesis), then fresh zone blocks
		var prev *rBlock
		for a := b.parent; a != nil; a = a.parent {
			if a.loc.Equal(b.loc) {
				prev = a
				break
			}
		}
		if prev != nil {
			b.manifest = append(b.manifest, prev.own)
		} else if r.Chance(50) {
			b.manifest = append(b.manifest, h.genesis)
		}
		for k := r.Intn(maxBetween + 1); k > 0; k-- {
			b.manifest = append(b.manifest, newZone(emit(inRegion(z), r.Intn(4))))
		}
		if d.Shape == "demo-prime-between" && len(b.manifest) > 0 {
			// make sure something standard for every other zone is pending when the prime block arrives
			last := b.manifest[len(b.manifest)-1]
			if last != h.genesis && (prev == nil || last != prev.own) {
				for oz := 0; oz < h.nz; oz++ {
					if oz != z {
						last.etxs = append(last.etxs, mkEtx(inRegion(oz), types.DefaultType, inRegion(z)))
					}
				}
			}
		}
		b.own = newZone(emit(inRegion(z), r.Intn(3)))
		// what prime hands down with a block of prime order
		if b.order == common.PRIME_CTX || r.Chance(5) { // (rarely a decoy set on a region-order block: must be ignored)
			for k := r.Intn(5); k > 0; k-- {
				switch r.Pick(55, 25, 12, 8) {
				case 0: // from another region to a zone of this one
					src := ((h.region+1)%3)<<4 | byte(r.Intn(3))
					b.inbound = append(b.inbound, mkEtx(inRegion(r.Intn(h.nz)), pickType(), src))
				case 1: // a coinbase/conversion ETX emitted earlier on this path comes back from prime
					var cand []*rEtx
					seen := map[int]bool{}
					for a := b.parent; a != nil; a = a.parent {
						for _, e := range a.inbound {
							seen[e.id] = true
						}
					}
					for _, e := range b.inbound {
						seen[e.id] = true
					}
					for a := b.parent; a != nil; a = a.parent {
						for _, zb := range a.manifest {
							for _, e := range zb.etxs {
								if !e.standard() && e.prefix>>4 == h.region && !seen[e.id] {
									cand = append(cand, e)
								}
							}
						}
					}
					if len(cand) > 0 {
						b.inbound = append(b.inbound, cand[r.Intn(len(cand))])
					}
				case 2: // to a zone of this region that produces no block here
					b.inbound = append(b.inbound, mkEtx(inRegion(h.nz+r.Intn(2)), pickType(), 0x33))
				case 3: // something prime would not send here (another region): must not be handed to any zone
					b.inbound = append(b.inbound, mkEtx(((h.region+2)%3)<<4|byte(r.Intn(3)), pickType(), 0x33))
				}
			}
		}
		h.blocks = append(h.blocks, b)
	}
	switch d.Shape {
	case "missing-pending":
		var fresh []*rZone
		for _, z := range h.zones {
			fresh = append(fresh, z)
		}
		fresh[r.Intn(len(fresh))].missing = true
	case "orphan":
		h.blocks[r.Intn(len(h.blocks))].orphan = true
	}
	if isRecover(d.Shape) {
		markRecover(h, d, r, func(owner *rBlock) *rEtx { return mkEtx(pickDest(), pickType(), owner.loc[0]<<4|owner.loc[1]) })
	}
	return h
}

// ------------------------------------------------------------------ running the real code

type rObs struct {
	class int // 0 ok, 1 parent not found, 2 pending ETXs not found, 3 other error
	list  types.Transactions
}

func classifyCollectErr(err error) int {
	switch {
	case err == nil:
		return 0
	case errors.Is(err, core.ErrPendingEtxNotFound):
		return 2
	case strings.Contains(err.Error(), "unable to find parent"):
		return 1
	}
	return 3
}

func sameHashes(a, b types.Transactions) bool {
	if len(a) != len(b) {
		return false
	}
	for i := range a {
		if a[i].Hash() != b[i].Hash() {
			return false
		}
	}
	return true
}

func runRegion(d Desc, cw *hlib.CaseWriter) {
	fail := func(sig, what string) { rep.Fail(sig, what, d) }
	defer func() {
		if p := recover(); p != nil {
			fail("route-region:panic", fmt.Sprintf("the region routing scenario panicked: %v", p))
		}
	}()
	rep.Evaluations++
	h := genRegion(d)
	nodeLocR := common.Location{h.region}
	slices := []common.Location{}
	for z := 0; z < h.nz; z++ {
		slices = append(slices, common.Location{h.region, byte(z)})
	}
	newNode := core.VerifC04NewRegion
	if isRecover(d.Shape) {
		newNode = core.VerifC04NewDom // the recovery path wired as in NewSlice
	}
	node, err := newNode(rawdb.NewMemoryDatabase(logger), nodeLocR, slices, 4, logger)
	if err != nil {
		fail("route-region:setup", "cannot build the region node: "+err.Error())
		return
	}
	defer node.Close()
	h.genesis.hash = node.Genesis.Hash()
	// like Slice.WriteGenesisBlock: an empty pending-ETX entry for the genesis block
	if err := node.AddPendingEtxs(types.PendingEtxs{Header: node.Genesis, OutboundEtxs: types.Transactions{}}); err != nil {
		fail("route-region:setup", "cannot register the empty pending ETXs of the genesis block: "+err.Error())
		return
	}
	nonce := uint64(d.Sub<<8) | 1
	guard := newAliasGuard("region", h.etxs, fail)
	defer guard.final(h.etxs)
	idOfHash := map[common.Hash]int{}
	for _, e := range h.etxs {
		idOfHash[e.tx.Hash()] = e.id
	}
	if len(idOfHash) != len(h.etxs) {
		fail("route-region:setup", "generated ETXs are not distinct")
		return
	}
	forgeRng := hlib.NewRng(d.Sub ^ 0xf0e1d2).Fork() // its own stream: the generated history does not depend on it
	// zone blocks: the region learns the ETXs each emitted through the real AddPendingEtxs
	register := func(z *rZone, wo *types.WorkObject) bool {
		etxs := types.Transactions{}
		for _, e := range z.etxs {
			etxs = append(etxs, e.tx)
		}
		pe := types.PendingEtxs{Header: wo.ConvertToPEtxView(), OutboundEtxs: etxs}
		z.hash, z.hdr = pe.Header.Hash(), wo
		// alias.go: in a share of the bundles a forged one for the same header arrives first (also for the ones that then stay missing)
		stored := func() (bool, bool, types.Transactions) { return node.StoredPending(z.hash, wo.Location()) }
		forged := forgedFirst("region", forgeRng, 30, etxs, h.etxs, func(l types.Transactions) error {
			return node.AddPendingEtxs(types.PendingEtxs{Header: wo.ConvertToPEtxView(), OutboundEtxs: l})
		}, stored, fail)
		if z.missing {
			return true
		}
		err := node.AddPendingEtxs(pe)
		afterGenuine("region", forged, etxs, err, stored, fail)
		if err != nil {
			fail("route-region:setup", "AddPendingEtxs refused a well formed bundle: "+err.Error())
			return false
		}
		return true
	}
	outHash := func(z *rZone) common.Hash {
		etxs := types.Transactions{}
		for _, e := range z.etxs {
			etxs = append(etxs, e.tx)
		}
		return types.DeriveSha(etxs, trie.NewStackTrie(nil))
	}
	isRegionBlock := map[*rZone]bool{h.genesis: true}
	for _, b := range h.blocks {
		isRegionBlock[b.own] = true
	}
	for _, b := range h.blocks {
		// fresh zone blocks of the manifest
		for _, z := range b.manifest {
			if isRegionBlock[z] {
				continue
			}
			nonce++
			wo := types.EmptyWorkObject(common.ZONE_CTX)
			wo.WorkObjectHeader().SetLocation(b.loc)
			wo.WorkObjectHeader().SetNonce(types.EncodeNonce(nonce))
			wo.Header().SetOutboundEtxHash(outHash(z))
			sealWO(wo)
			if !register(z, wo) {
				return
			}
		}
		nonce++
		wo := types.EmptyWorkObject(common.REGION_CTX)
		wo.WorkObjectHeader().SetLocation(b.loc)
		wo.WorkObjectHeader().SetNonce(types.EncodeNonce(nonce))
		wo.Header().SetExpansionNumber(b.exp)
		wo.Header().SetOutboundEtxHash(outHash(b.own))
		parentHash, parentNum := node.Genesis.Hash(), node.Genesis.Number(common.REGION_CTX)
		if b.parent != nil {
			parentHash, parentNum = b.parent.wo.Hash(), b.parent.wo.Number(common.REGION_CTX)
		}
		if b.orphan {
			parentHash = common.BytesToHash([]byte{0xde, 0xad, byte(b.id)})
		}
		wo.SetParentHash(parentHash, common.REGION_CTX)
		wo.SetNumber(new(big.Int).Add(parentNum, common.Big1), common.REGION_CTX)
		man := types.BlockManifest{}
		for _, z := range b.manifest {
			man = append(man, z.hash)
		}
		wo.Body().SetManifest(man)
		up := types.Transactions{}
		for _, z := range b.manifest {
			for _, e := range z.etxs {
				if e.prefix>>4 != h.region || !e.standard() {
					up = append(up, e.tx)
				}
			}
		}
		wo.Header().SetEtxRollupHash(types.DeriveSha(up, trie.NewStackTrie(nil)))
		sealWO(wo)
		got, err := node.StoreBlock(wo, b.order)
		if err != nil {
			fail("route-region:setup", err.Error())
			return
		}
		if len(got.Manifest()) != len(man) || !got.Location().Equal(b.loc) || got.ParentHash(common.REGION_CTX) != parentHash || got.ExpansionNumber() != b.exp {
			fail("route-region:setup", "a stored region block reads back differently")
			return
		}
		if o, err := node.CalcOrder(got); err != nil || o != b.order {
			fail("route-region:setup", "the calc-order cache does not serve the chosen order")
			return
		}
		b.wo = got
		if !register(b.own, got) {
			return
		}
		if b.own.hash != got.Hash() {
			fail("route-region:setup", "pending-ETX key of a coincident block differs from the block hash")
			return
		}
		if b.inbound != nil {
			in := types.Transactions{}
			for _, e := range b.inbound {
				in = append(in, e.tx)
			}
			node.WriteInboundEtxs(got.Hash(), in)
		}
	}

	// recovery scenarios: retry every collection past the threshold with the subordinate answering
	var rc *recCtx
	var recAns map[*rBlock][]types.Transactions
	if isRecover(d.Shape) {
		rc = &recCtx{level: "region", ctxN: common.REGION_CTX, node: node, h: h, d: d, idOfHash: idOfHash, fail: fail, cw: cw, guard: guard}
		recAns = recoverPhase(rc)
	}

	collect := func(b *rBlock, order int) rObs {
		l, err := node.CollectNewlyConfirmedEtxs(b.wo, order)
		// alias.go: content check, then the set is used as Slice.Append uses it (copies rewritten); every later call of
		// the scenario therefore runs on caches that have been through such a use
		guard.use(l, fmt.Sprintf("CollectNewlyConfirmedEtxs of region block %d at order %d", b.id, order))
		return rObs{classifyCollectErr(err), l}
	}
	idsOf := func(l types.Transactions) (string, bool) {
		var s []string
		ok := true
		for _, tx := range l {
			id, known := idOfHash[tx.Hash()]
			if !known {
				id, ok = unknownID, false
			}
			s = append(s, fmt.Sprint(id))
		}
		return "[" + strings.Join(s, ";") + "]", ok
	}

	// ---- observations
	r := hlib.NewRng(d.Sub ^ 0x5eed).Fork()
	var rollQ, ncQ []string
	handed := map[*rBlock]rObs{}
	for _, b := range h.blocks {
		// CollectSubRollup
		roll, err := node.CollectSubRollup(b.wo)
		guard.use(roll, fmt.Sprintf("CollectSubRollup of region block %d", b.id))
		var want types.Transactions
		complete := true
		for _, z := range b.manifest {
			if z.missing {
				complete = false
			}
			for _, e := range z.etxs {
				want = append(want, e.tx)
			}
		}
		if err != nil {
			rollQ = append(rollQ, fmt.Sprintf("(%d,None)", b.id))
			if complete {
				fail("route-region:sub-rollup:error", "CollectSubRollup fails although the region holds the pending ETXs of every block of the manifest: "+err.Error())
			}
		} else {
			ids, _ := idsOf(roll)
			rollQ = append(rollQ, fmt.Sprintf("(%d,Some %s)", b.id, ids))
			if complete && !sameHashes(roll, want) {
				fail("route-region:sub-rollup:content", fmt.Sprintf("the sub rollup of a region block is not the concatenation, in manifest order, of what its %d zone blocks emitted (got %d ETXs, want %d)", len(b.manifest), len(roll), len(want)))
			}
			if !complete {
				fail("route-region:sub-rollup:incomplete", "CollectSubRollup succeeds although the pending ETXs of a zone block of the manifest were never received")
			}
		}
		// what the region answers when prime asks again for the rollup of this block: prime accepts it only
		// if it hashes to the EtxRollupHash of the header (PendingEtxsRollup.IsValid), which commits to the
		// part of the sub rollup that leaves the region or is a conversion / coinbase ETX
		if complete {
			pr, err := node.RollupForDom(b.wo.Hash(), b.loc)
			up := types.Transactions{}
			intra := 0
			for _, z := range b.manifest {
				for _, e := range z.etxs {
					if e.prefix>>4 != h.region || !e.standard() {
						up = append(up, e.tx)
					} else {
						intra++
					}
				}
			}
			switch {
			case err != nil:
				fail("route-region:rollup-for-dom:error", "the region cannot answer prime's request for the rollup of a stored block: "+err.Error())
			case !pr.IsValid(trie.NewStackTrie(nil)) || !sameHashes(pr.EtxsRollup, up):
				rep.Count("region:rollup-for-dom:invalid")
				if rollupForDomReported {
					break
				}
				rollupForDomReported = true
				fail("route-region:rollup-for-dom:unfiltered", fmt.Sprintf("GetPendingEtxsRollupFromSub answers prime with a rollup of %d ETXs that does not hash to the block's EtxRollupHash (which commits to the %d that go up to prime; %d stay inside the region): prime refuses it (ErrPendingEtxRollupNotValid), so a missed rollup cannot be recovered by asking again", len(pr.EtxsRollup), len(up), intra))
			default:
				rep.Count("region:rollup-for-dom:valid")
			}
		}
		// CollectNewlyConfirmedEtxs at the block's own order (what Append uses for a block of region order) ...
		o := collect(b, b.order)
		ids, _ := idsOf(o.list)
		ncQ = append(ncQ, fmt.Sprintf("(%d,%d,%d,%s)", b.id, b.order, o.class, ids))
		// ... determinism: served from the sub-rollup memo, and again after a restart lost the memo
		o2 := collect(b, b.order)
		if r.Chance(30) {
			node.PurgeSubRollupCache()
		}
		o3 := collect(b, b.order)
		if o2.class != o.class || o3.class != o.class || !sameHashes(o.list, o2.list) || !sameHashes(o.list, o3.list) {
			fail("route-region:not-deterministic", "CollectNewlyConfirmedEtxs gives different answers for the same block (memo of sub rollups)")
		}
		// ... and, for the tie only, at the other orders
		for _, other := range []int{common.PRIME_CTX, common.REGION_CTX, common.ZONE_CTX} {
			if other != b.order && r.Chance(35) {
				oo := collect(b, other)
				ids, _ := idsOf(oo.list)
				ncQ = append(ncQ, fmt.Sprintf("(%d,%d,%d,%s)", b.id, other, oo.class, ids))
			}
		}
		// what Slice.Append hands to the zone of the block
		if b.order < common.REGION_CTX {
			in := types.Transactions{}
			for _, e := range b.inbound {
				in = append(in, e.tx)
			}
			handed[b] = rObs{0, rawdb.ReadInboundEtxs(node.Db, b.wo.Hash()).FilterToSub(b.wo.Location(), common.REGION_CTX, b.order)}
			if !sameHashes(rawdb.ReadInboundEtxs(node.Db, b.wo.Hash()), in) {
				fail("route-region:inbound-store", "the inbound ETX set stored for a dominant block reads back differently")
			}
		} else {
			handed[b] = o
		}
	}
	rep.TracesValidated++

	// ---- the Coq case
	var blocks, pend []string
	coqID := map[*rZone]int{h.genesis: rGenesisID} // manifests name a coincident block by the id of the region block
	for _, z := range h.zones {
		coqID[z] = z.id
	}
	for _, b := range h.blocks {
		coqID[b.own] = b.id
	}
	blocks = append(blocks, fmt.Sprintf("mkRB %d 0 [] 0 0 [] []", rGenesisID))
	pend = append(pend, fmt.Sprintf("(%d,[])", rGenesisID))
	for _, b := range h.blocks {
		parent := rGenesisID
		if b.parent != nil {
			parent = b.parent.id
		}
		if b.orphan {
			parent = 9
		}
		var man, inb []string
		for _, z := range b.manifest {
			man = append(man, fmt.Sprint(coqID[z]))
		}
		for _, e := range b.inbound {
			inb = append(inb, e.coq())
		}
		blocks = append(blocks, fmt.Sprintf("mkRB %d %d %s %d %d [%s] [%s]", b.id, parent, coqLoc(b.loc), b.order, b.exp, strings.Join(man, ";"), strings.Join(inb, ";")))
	}
	for _, z := range h.zones {
		if z.missing {
			continue
		}
		var l []string
		for _, e := range z.etxs {
			l = append(l, e.coq())
		}
		pend = append(pend, fmt.Sprintf("(%d,[%s])", coqID[z], strings.Join(l, ";")))
	}
	term := fmt.Sprintf("CH %d 1 [%d] [%s] [%s] [%s] [%s]", d.ID, rGenesisID, strings.Join(blocks, "; "), strings.Join(pend, "; "), strings.Join(rollQ, "; "), strings.Join(ncQ, "; "))
	cw.Add(term, d)

	// ---- the monitor: forward simulation of the property along the chain ending in each block
	nPrime, nFork, nDue := 0, 0, 0
	children := map[*rBlock]int{}
	for _, b := range h.blocks {
		if b.order == common.PRIME_CTX {
			nPrime++
		}
		children[b.parent]++
	}
	for _, c := range children {
		if c > 1 {
			nFork += c - 1
		}
	}
	primeBetween := false
	for _, b := range h.blocks {
		var path []*rBlock
		for a := b; a != nil; a = a.parent {
			path = append([]*rBlock{a}, path...)
		}
		ok, structOK := true, true
		for _, a := range path {
			if a.orphan {
				ok, structOK = false, false
			}
			for _, z := range a.manifest {
				if z.missing {
					ok = false // incomplete history
				}
			}
			// a prime-order ancestor under which the zone of b is not active yet ends the search by design
			if a != b && a.order == common.PRIME_CTX {
				regs, zs := common.GetHierarchySizeForExpansionNumber(a.exp)
				if b.loc.Region() > int(regs) || b.loc.Zone() > int(zs) {
					ok, structOK = false, false
				}
			}
		}
		got := handed[b]
		if !ok && (!structOK || len(recAns[b]) == 0) {
			rep.Count("region:monitor:not-applicable")
			continue
		}
		if ok && got.class != 0 {
			fail("route-region:error-on-complete-history", fmt.Sprintf("CollectNewlyConfirmedEtxs fails (class %d) on a complete history", got.class))
			continue
		}
		// pending bag per destination zone, delivered set
		pending := map[string][]*rEtx{}
		delivered := map[int]bool{}
		var due []*rEtx
		sawPrimeSame, sawStdPendingAtPrime := false, false
		for _, a := range path {
			due = nil
			if a.order == common.PRIME_CTX {
				for _, e := range a.inbound {
					if e.dest().Equal(a.loc) {
						due = append(due, e)
					} else {
						pending[string(e.dest())] = append(pending[string(e.dest())], e)
					}
				}
			}
			for _, z := range a.manifest {
				for _, e := range z.etxs {
					if e.standard() { // coinbase / conversion ETXs travel through prime
						pending[string(e.dest())] = append(pending[string(e.dest())], e)
					}
				}
			}
			if a.order == common.REGION_CTX {
				due = append(due, pending[string(a.loc)]...)
				delete(pending, string(a.loc))
				if a == b && sawPrimeSame && sawStdPendingAtPrime {
					primeBetween = true
				}
				if a.loc.Equal(b.loc) {
					sawPrimeSame, sawStdPendingAtPrime = false, false
				}
			} else if a.loc.Equal(b.loc) && a != b {
				sawPrimeSame = true
				if len(pending[string(a.loc)]) > 0 {
					sawStdPendingAtPrime = true
				}
			}
			if a != b {
				for _, e := range due {
					delivered[e.id] = true
				}
			}
		}
		// what succeeded while the node was recovering missing entries: only what the headers commit to
		if len(recAns[b]) > 0 {
			compareRecovered(rc, b, due, recAns[b], pathString(path))
		}
		if !ok {
			rep.Count("region:monitor:not-applicable")
			continue
		}
		nDue += len(due)
		wantCount := map[int]int{}
		byID := map[int]*rEtx{}
		for _, e := range due {
			wantCount[e.id]++
			byID[e.id] = e
		}
		gotCount := map[int]int{}
		for _, tx := range got.list {
			id, known := idOfHash[tx.Hash()]
			if !known {
				fail("route-region:altered", fmt.Sprintf("block %d hands down an ETX that nobody emitted (altered in transit)", b.id))
				continue
			}
			gotCount[id]++
			if !tx.To().Location().Equal(b.loc) {
				fail("route-region:wrong-zone", fmt.Sprintf("ETX %d destined to %v is handed to zone %v by a block of %s order", id, *tx.To().Location(), b.loc, ordName(b.order)))
			}
		}
		var ids []int
		for id := range wantCount {
			ids = append(ids, id)
		}
		for id := range gotCount {
			if wantCount[id] == 0 {
				ids = append(ids, id)
			}
		}
		sort.Ints(ids)
		for _, id := range ids {
			w, g := wantCount[id], gotCount[id]
			switch {
			case g < w:
				e := byID[id]
				fail("route-region:lost:"+ordName(b.order), fmt.Sprintf("ETX %d (type %d, to %v) is due at block %d (zone %v, %s order: the first block of its destination zone at or after the block that rolled it up) but is not handed down (%d of %d times); chain %s", id, e.typ, e.dest(), b.id, b.loc, ordName(b.order), g, w, pathString(path)))
			case g > w && delivered[id]:
				fail("route-region:duplicated", fmt.Sprintf("ETX %d is handed down again by block %d although an earlier block of the chain delivered it; chain %s", id, b.id, pathString(path)))
			case g > w && w > 0:
				fail("route-region:duplicated", fmt.Sprintf("ETX %d is handed down %d times by block %d; chain %s", id, g, b.id, pathString(path)))
			case g > w:
				fail("route-region:not-due", fmt.Sprintf("ETX %d is handed down by block %d (zone %v) where it is not due (never rolled up on this chain, not of a kind a region may route, or for a later block); chain %s", id, b.id, b.loc, pathString(path)))
			}
		}
		// order within one source: ETXs that reach the zone through the same bundle keep the order of that
		// bundle.  A source is the sub rollup entry of one zone block (only its standard ETXs travel this way)
		// or the inbound set prime handed down with one prime-order block.  A coinbase / conversion ETX of a
		// zone block comes back through prime, i.e. through ANOTHER source than the standard ETXs emitted
		// beside it: no relative order is promised between the two.
		pos := map[int]int{}
		for i, tx := range got.list {
			if id, known := idOfHash[tx.Hash()]; known {
				pos[id] = i
			}
		}
		checkSource := func(src []*rEtx, viaRollup bool, what string) {
			last := -1
			for _, e := range src {
				if viaRollup && !e.standard() {
					continue
				}
				if p, in := pos[e.id]; in && wantCount[e.id] == 1 && gotCount[e.id] == 1 {
					if p < last {
						fail("route-region:order", fmt.Sprintf("ETXs of %s are handed down by block %d in another order than in that bundle", what, b.id))
					}
					last = p
				}
			}
		}
		for _, a := range path {
			for _, z := range a.manifest {
				checkSource(z.etxs, true, "one zone block")
			}
			if a.order == common.PRIME_CTX {
				checkSource(a.inbound, false, "one inbound set handed down by prime")
			}
		}
	}
	rep.Count("region:shape:" + d.Shape)
	rep.Count("region:blocks:" + bucket(len(h.blocks)))
	rep.Count("region:prime-blocks:" + bucket(nPrime))
	rep.Count("region:forks:" + bucket(nFork))
	rep.CountN("region:due-items", nDue)
	if primeBetween {
		rep.Count("region:prime-block-of-destination-between-with-pending")
	}
	if nDue > 0 {
		rep.Nontrivial(fmt.Sprintf("region/%s/%d", d.Shape, d.Sub))
	}
	rep.Sample(d)
}

func ordName(o int) string {
	switch o {
	case common.PRIME_CTX:
		return "prime"
	case common.REGION_CTX:
		return "region"
	}
	return "zone"
}

func pathString(p []*rBlock) string {
	var s []string
	for _, b := range p {
		s = append(s, fmt.Sprintf("%d:z%d%d/%s", b.id, b.loc[0], b.loc[1], ordName(b.order)[:1]))
	}
	return strings.Join(s, " ")
}

package main

// Part (e), two real nodes: a region node and the prime node, each made of the real HeaderChain and Slice
// with the recovery path wired as in NewSlice; prime's client for the region answers the question "send
// me the rollup of region block h again" with the region node's REAL Slice.GetPendingEtxsRollupFromSub
// (which answers with its whole, unfiltered sub rollup: known finding route-region:rollup-for-dom:unfiltered).
//
//	zone A blocks emit ETXs: to zone B of the same region (ordinary: routed by the region alone), to
//	another region (through prime), coinbase/conversion ETXs for the own region (through prime);
//	region block RB1 (zone A) rolls them up, its header commits to the cross-prime part;
//	region block RB2 (zone B) is where the region hands the intra-region ETXs to zone B;
//	prime block PB1 (zone B's slice) refers to RB1 -- but prime never received RB1's rollup.
//
// Prime retries the collection of PB1 past the threshold (the region is asked), then the region's valid
// rollup message arrives late.  Monitor: every ETX reaches zone B at most once over both paths (region at
// RB2, prime at PB1 -> region -> zone), the intra-region ones exactly once; a collection of PB1 succeeds only
// once the validated store holds RB1's committed rollup.  Tie: case CF for the prime node.

import (
	"fmt"
	"math/big"
	"strings"

	"github.com/dominant-strategies/go-quai/common"
	"github.com/dominant-strategies/go-quai/core"
	"github.com/dominant-strategies/go-quai/core/rawdb"
	"github.com/dominant-strategies/go-quai/core/types"
	"github.com/dominant-strategies/go-quai/trie"

	"verifharness/hlib"
)

func runTwoNodes(d Desc, cw *hlib.CaseWriter) {
	fail := func(sig, what string) { rep.Fail(sig, what, d) }
	defer func() {
		if p := recover(); p != nil {
			fail("route-prime:recover:two-nodes:panic", fmt.Sprintf("the two-node recovery scenario panicked: %v", p))
		}
	}()
	rep.Evaluations++
	r := hlib.NewRng(d.Sub).Fork()
	u := newUni(r.Fork())
	reg := byte(r.Intn(2))
	other := 1 - reg
	zoneA, zoneB := common.Location{reg, byte(r.Intn(2))}, common.Location{}
	zoneB = common.Location{reg, 1 - zoneA[1]}
	slices := []common.Location{{0, 0}, {0, 1}, {1, 0}, {1, 1}}
	region, err := core.VerifC04NewDom(rawdb.NewMemoryDatabase(logger), common.Location{reg}, []common.Location{zoneA, zoneB}, 4, logger)
	if err != nil {
		fail("route-prime:setup", "cannot build the region node: "+err.Error())
		return
	}
	defer region.Close()
	prime, err := core.VerifC04NewDom(rawdb.NewMemoryDatabase(logger), common.Location{}, slices, 4, logger)
	if err != nil {
		fail("route-prime:setup", "cannot build the prime node: "+err.Error())
		return
	}
	defer prime.Close()
	if err := region.AddPendingEtxs(types.PendingEtxs{Header: region.Genesis, OutboundEtxs: types.Transactions{}}); err != nil {
		fail("route-prime:setup", "region genesis bundle: "+err.Error())
		return
	}
	if err := prime.AddPendingEtxsRollup(types.PendingEtxsRollup{Header: prime.Genesis, EtxsRollup: types.Transactions{}}); err != nil {
		fail("route-prime:setup", "prime genesis rollup: "+err.Error())
		return
	}
	prime.SetSubClient(int(reg), &core.VerifC04SubAnswers{Rollup: region.RollupForDom})

	// the ETXs
	var all []*rEtx
	eid := 0
	mk := func(prefix byte, typ uint64) *rEtx {
		eid++
		u.serial++
		tx := u.build(u.serial, prefix, false, typ, int64(1+r.Intn(1<<20)), 21000, nil, false, zoneA[0]<<4|zoneA[1], false)
		e := &rEtx{tx: tx, id: eid, prefix: prefix, typ: typ}
		all = append(all, e)
		return e
	}
	nonce := uint64(d.Sub<<8) | 1
	var manifest types.BlockManifest
	var rolled []*rEtx
	nIntra := 0
	for k := 1 + r.Intn(3); k > 0; k-- {
		var em []*rEtx
		for j := r.Intn(4); j > 0; j-- {
			switch r.Pick(45, 35, 20) {
			case 0:
				em = append(em, mk(zoneB[0]<<4|zoneB[1], types.DefaultType))
				nIntra++
			case 1:
				em = append(em, mk(other<<4|byte(r.Intn(2)), types.DefaultType))
			default:
				em = append(em, mk(zoneB[0]<<4|zoneB[1], uint64(1+r.Intn(2)))) // coinbase / conversion: through prime
			}
		}
		if k == 1 && nIntra == 0 {
			em = append(em, mk(zoneB[0]<<4|zoneB[1], types.DefaultType))
			nIntra++
		}
		txs := types.Transactions{}
		for _, e := range em {
			txs = append(txs, e.tx)
		}
		nonce++
		z := types.EmptyWorkObject(common.ZONE_CTX)
		z.WorkObjectHeader().SetLocation(zoneA)
		z.WorkObjectHeader().SetNonce(types.EncodeNonce(nonce))
		z.Header().SetOutboundEtxHash(types.DeriveSha(txs, trie.NewStackTrie(nil)))
		sealWO(z)
		pe := types.PendingEtxs{Header: z.ConvertToPEtxView(), OutboundEtxs: txs}
		if err := region.AddPendingEtxs(pe); err != nil {
			fail("route-prime:setup", "region AddPendingEtxs: "+err.Error())
			return
		}
		manifest = append(manifest, pe.Header.Hash())
		rolled = append(rolled, em...)
	}
	var up []*rEtx
	upTxs := types.Transactions{}
	for _, e := range rolled {
		if e.prefix>>4 != reg || !e.standard() {
			up = append(up, e)
			upTxs = append(upTxs, e.tx)
		}
	}
	mkBlock := func(loc common.Location) *types.WorkObject {
		nonce++
		wo := types.EmptyWorkObject(common.ZONE_CTX)
		wo.WorkObjectHeader().SetLocation(loc)
		wo.WorkObjectHeader().SetNonce(types.EncodeNonce(nonce))
		wo.Header().SetExpansionNumber(4)
		wo.Header().SetOutboundEtxHash(types.DeriveSha(types.Transactions{}, trie.NewStackTrie(nil)))
		return wo
	}
	rb1 := mkBlock(zoneA)
	rb1.SetParentHash(region.Genesis.Hash(), common.REGION_CTX)
	rb1.SetNumber(new(big.Int).Add(region.Genesis.Number(common.REGION_CTX), common.Big1), common.REGION_CTX)
	rb1.Body().SetManifest(manifest)
	rb1.Header().SetEtxRollupHash(types.DeriveSha(upTxs, trie.NewStackTrie(nil)))
	sealWO(rb1)
	rb1, err = region.StoreBlock(rb1, common.REGION_CTX)
	if err != nil {
		fail("route-prime:setup", err.Error())
		return
	}
	region.AddPendingEtxs(types.PendingEtxs{Header: rb1.ConvertToPEtxView(), OutboundEtxs: types.Transactions{}})
	rb2 := mkBlock(zoneB)
	rb2.SetParentHash(rb1.Hash(), common.REGION_CTX)
	rb2.SetNumber(new(big.Int).Add(rb1.Number(common.REGION_CTX), common.Big1), common.REGION_CTX)
	rb2.Body().SetManifest(types.BlockManifest{})
	sealWO(rb2)
	rb2, err = region.StoreBlock(rb2, common.REGION_CTX)
	if err != nil {
		fail("route-prime:setup", err.Error())
		return
	}
	viaRegion, err := region.CollectNewlyConfirmedEtxs(rb2, common.REGION_CTX)
	if err != nil {
		fail("route-region:error-on-complete-history", "the region cannot collect the ETXs of RB2: "+err.Error())
		return
	}
	pb1 := mkBlock(zoneB)
	pb1.SetParentHash(prime.Genesis.Hash(), common.PRIME_CTX)
	pb1.SetNumber(new(big.Int).Add(prime.Genesis.Number(common.PRIME_CTX), common.Big1), common.PRIME_CTX)
	pb1.Body().SetManifest(types.BlockManifest{rb1.Hash()})
	sealWO(pb1)
	pb1, err = prime.StoreBlock(pb1, common.PRIME_CTX)
	if err != nil {
		fail("route-prime:setup", err.Error())
		return
	}

	idOfHash := map[common.Hash]int{}
	for _, e := range all {
		idOfHash[e.tx.Hash()] = e.id
	}
	idsOf := func(l types.Transactions) string {
		var s []string
		for _, tx := range l {
			id, known := idOfHash[tx.Hash()]
			if !known {
				id = unknownID
			}
			s = append(s, fmt.Sprint(id))
		}
		return "[" + strings.Join(s, ";") + "]"
	}
	// what the region really answers (for the Coq case and the distribution)
	realAnswer, errAns := region.RollupForDom(rb1.Hash(), zoneA)
	var ans []string
	if errAns == nil {
		var l []*rEtx
		for _, tx := range realAnswer.EtxsRollup {
			for _, e := range all {
				if e.tx.Hash() == tx.Hash() {
					l = append(l, e)
				}
			}
		}
		ans = append(ans, fmt.Sprintf("(201,(201,%s))", coqEtxs(l)))
		if sameHashes(realAnswer.EtxsRollup, upTxs) {
			rep.Count("recover:two-nodes:region-answer-valid")
		} else {
			rep.Count("recover:two-nodes:region-answer-unfiltered")
		}
	}
	T := core.VerifC04RetryThreshold()
	var rounds []string
	var viaPrime types.Transactions
	collected := false
	for i := 0; i < 2*T+5 && !collected; i++ {
		l, err := prime.CollectNewlyConfirmedEtxs(pb1, common.PRIME_CTX)
		cls := classifyCollectErr(err)
		rounds = append(rounds, fmt.Sprintf("(11,0,%d,%s)", cls, idsOf(l)))
		if cls == 0 {
			collected, viaPrime = true, l
			present, valid, etxs := prime.StoredPending(rb1.Hash(), zoneA)
			if !present || !valid || !sameHashes(etxs, upTxs) {
				fail("route-prime:recover:unvalidated-entry-used", fmt.Sprintf("prime's collection of PB1 succeeds on try %d although its validated store does not hold the rollup RB1's header commits to (present %v, valid %v): the region's answer (%d ETXs, %d committed) was used as it came", i+1, present, valid, len(realAnswer.EtxsRollup), len(upTxs)))
			}
		} else if cls != 2 {
			fail("route-prime:recover:error", "prime's collection fails with something else than pending-ETXs-not-found: "+err.Error())
			return
		}
	}
	present, _, _ := prime.StoredPending(rb1.Hash(), zoneA)
	final := fmt.Sprintf("(201,%v)", present)
	cmIDs := []string{}
	for _, e := range up {
		cmIDs = append(cmIDs, fmt.Sprint(e.id))
	}
	cw.Add(fmt.Sprintf("CF %d 0 [1] [mkRB 1 0 [] 0 0 [] []; mkRB 11 1 %s 0 4 [201] []] [(1,[])] [(201,[%s])] [%s] %d [%s] [%s]",
		d.ID, coqLoc(zoneB), strings.Join(cmIDs, ";"), strings.Join(ans, "; "), T, strings.Join(rounds, "; "), final), d)
	if !collected {
		// the region's own (valid) rollup message for RB1 arrives late
		if err := prime.AddPendingEtxsRollup(types.PendingEtxsRollup{Header: rb1.ConvertToPEtxView(), EtxsRollup: upTxs}); err != nil {
			fail("route-prime:setup", "prime refuses the valid rollup of RB1: "+err.Error())
			return
		}
		viaPrime, err = prime.CollectNewlyConfirmedEtxs(pb1, common.PRIME_CTX)
		if err != nil {
			fail("route-prime:error-on-complete-history", "prime cannot collect PB1 after the valid rollup arrived: "+err.Error())
			return
		}
	}
	rep.TracesValidated++
	// deliveries to zone B over both paths
	deliveries := map[int]int{}
	for _, tx := range viaRegion {
		if tx.To().Location().Equal(zoneB) {
			deliveries[idOfHash[tx.Hash()]]++
		}
	}
	for _, tx := range viaPrime.FilterToSub(zoneB, common.REGION_CTX, common.PRIME_CTX) {
		deliveries[idOfHash[tx.Hash()]]++
	}
	for _, e := range all {
		n := deliveries[e.id]
		toB := e.dest().Equal(zoneB)
		switch {
		case n > 1:
			fail("route-prime:recover:two-nodes:duplicated", fmt.Sprintf("ETX %d (type %d, zone %v -> zone %v) is made available to its destination %d times: by the region at its block of that zone and again through the prime block", e.id, e.typ, zoneA, zoneB, n))
		case n == 1 && !toB:
			fail("route-prime:recover:two-nodes:wrong-zone", fmt.Sprintf("ETX %d for %v is handed to zone %v", e.id, e.dest(), zoneB))
		case n == 0 && toB:
			fail("route-prime:recover:two-nodes:lost", fmt.Sprintf("ETX %d (type %d) for zone %v reaches it neither through the region nor through prime", e.id, e.typ, zoneB))
		}
	}
	for _, tx := range viaPrime {
		if tx.To().Location().Region() != int(reg) {
			fail("route-prime:wrong-region", "a prime block hands an ETX for another region to its own")
		}
	}
	rep.Count("prime:shape:" + d.Shape)
	rep.CountN("recover:two-nodes:intra-region-etxs", nIntra)
	rep.Nontrivial(fmt.Sprintf("two-nodes/%d", d.Sub))
}

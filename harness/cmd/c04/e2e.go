package main

// End-to-end part of (b): the real StateProcessor.Process of a single-zone mini node
// (core.VerifNewZone: real HeaderChain, StateProcessor, TxPool, worker; stub PoW) is run on
// blocks assembled by the real worker and on variants of them whose ETX section was tampered
// with (shorter / longer prefix, swapped, duplicated, dropped, unknown, altered). Observable:
// accept, or the refusal site (classified with the error formats found in the source), or
// "refused elsewhere". Compared with the model (case CV) and with the property's predicate.

import (
	"fmt"
	"math/big"
	"os"
	"regexp"

	"github.com/dominant-strategies/go-quai/common"
	"github.com/dominant-strategies/go-quai/core"
	"github.com/dominant-strategies/go-quai/core/rawdb"
	"github.com/dominant-strategies/go-quai/core/types"
	"github.com/dominant-strategies/go-quai/ethdb/memorydb"
	"github.com/dominant-strategies/go-quai/params"

	"verifharness/hlib"
)

// memory database that knows the node location (like the disk backends of a node)
type locMem struct{ *memorydb.Database }

func (d *locMem) Location() common.Location { return nodeLoc }

type e2eVariant struct {
	name string
	txs  types.Transactions
}

func classifyProcessErr(err error) int {
	if err == nil {
		return vAccept
	}
	msg := err.Error()
	for _, c := range []struct {
		re    string
		class int
	}{{sites.NilRe, vPopNil}, {sites.CmpRe, vHash}, {sites.CountRe, vCountRule}, {sites.GasRe, vGasRule}} {
		if c.re == "" {
			continue
		}
		if ok, _ := regexp.MatchString(c.re, msg); ok {
			return c.class
		}
	}
	return 9
}

func sealWO(wo *types.WorkObject) { wo.WorkObjectHeader().SetHeaderHash(wo.Header().Hash()) }

func e2eInbound(u *uni, r *hlib.Rng, n int) types.Transactions {
	var in types.Transactions
	for i := 0; i < n; i++ {
		u.serial++
		// coinbase reward of a block mined in zone 1-0 paid to a fresh Quai account of this zone (before
		// TimeToStartTx blocks have a zero gas limit and only such zero-gas ETXs can be executed)
		data := append([]byte{0}, r.Bytes(32)...)
		tx := u.build(u.serial, 0x00, false, types.CoinbaseType, int64(1+r.Intn(1<<20)), 0, data, false, 0x10, false)
		u.reg(tx)
		in = append(in, tx)
	}
	return in
}

func etxsOf(b *types.WorkObject) types.Transactions {
	var l types.Transactions
	for _, tx := range b.Transactions() {
		if tx.Type() == types.ExternalTxType {
			l = append(l, tx)
		}
	}
	return l
}

func runE2E(d Desc, cw *hlib.CaseWriter, idBase int) {
	r := hlib.NewRng(d.Sub)
	u := newUni(r.Fork())
	fail := func(sig, what string) { rep.Fail(sig, what, d) }
	defer func() {
		if p := recover(); p != nil {
			fail("e2e:panic", fmt.Sprintf("end-to-end scenario panicked: %v", p))
		}
	}()
	if os.Getenv("C04_VERBOSE") != "" {
		logger.SetOutput(os.Stderr)
	}
	db := rawdb.NewDatabase(&locMem{memorydb.New(logger)})
	z, err := core.VerifNewZone(db, core.VerifZoneOptions{Location: nodeLoc, QuaiCoinbase: addr(0x00, false, 0xc1), QiCoinbase: addr(0x00, true, 0xc2), GenesisTime: 1000}, logger)
	if err != nil {
		rep.Note("e2e: cannot build the mini node: " + err.Error())
		fail("e2e:setup", "cannot build the single-zone node: "+err.Error())
		return
	}
	defer z.Close()
	// first block: nothing inbound
	b, err := z.Assemble(true)
	if err == nil {
		sealWO(b)
		err = z.Append(b)
	}
	if err != nil {
		fail("e2e:setup", "cannot append an empty first block: "+err.Error())
		return
	}
	var queue types.Transactions // pushed and still pending at the head
	oldest := int64(0)
	sizes := [][]int{{3, 0, 2}, {60, 0}, {49, 1}, {50}, {130, 0}, {101}, {1, 1, 1}, {7, 55}}
	plan := sizes[int(d.Sub%uint64(len(sizes)))]
	if d.Shape == "rand" {
		plan = nil
		for i := 0; i < 1+r.Intn(3); i++ {
			plan = append(plan, []int{0, 1, 2, 5, 48, 51, 70, 110}[r.Intn(8)])
		}
	}
	sub := 0
	for step, m := range plan {
		head := z.Hc.CurrentHeader()
		inbound := e2eInbound(u, r, m)
		if len(inbound) > 0 {
			rawdb.WriteInboundEtxs(db, head.Hash(), inbound)
		}
		q := append(append(types.Transactions{}, queue...), inbound...)
		blk, err := z.Assemble(true)
		if err != nil {
			fail("e2e:assemble", fmt.Sprintf("step %d: the worker cannot assemble on its head: %v", step, err))
			return
		}
		sealWO(blk)
		honest := etxsOf(blk)
		h := len(honest)
		num := blk.NumberU64(common.ZONE_CTX)
		gl := blk.GasLimit()
		rep.Count(fmt.Sprintf("e2e:honest-etxs:%s", bucket(h)))

		// ---- variants of the ETX section
		vs := []e2eVariant{{"honest", honest}}
		pref := func(k int) types.Transactions {
			if k < 0 {
				k = 0
			}
			if k > len(q) {
				k = len(q)
			}
			return append(types.Transactions{}, q[:k]...)
		}
		seen := map[int]bool{h: true}
		for _, k := range []int{0, h - 1, h + 1, int(params.MinEtxCount) - 1, int(params.MinEtxCount), int(params.MaxEtxCount), int(params.MaxEtxCount) + 1, len(q)} {
			if k < 0 || k > len(q) || seen[k] || k > 125 {
				continue
			}
			seen[k] = true
			vs = append(vs, e2eVariant{fmt.Sprintf("prefix-%d", k), pref(k)})
		}
		if h >= 2 {
			l := pref(h)
			i, j := r.Intn(h), r.Intn(h)
			if i == j {
				j = (i + 1) % h
			}
			l[i], l[j] = l[j], l[i]
			vs = append(vs, e2eVariant{"swap", l})
			vs = append(vs, e2eVariant{"drop-first", pref(h)[1:]})
		}
		if h >= 1 {
			l := pref(h)
			vs = append(vs, e2eVariant{"dup-first", append(types.Transactions{l[0]}, l...)})
			vs = append(vs, e2eVariant{"dup-last", append(l, l[h-1])})
			l = pref(h)
			i := r.Intn(h)
			l[i] = u.altered(l[i])
			vs = append(vs, e2eVariant{"altered", l})
			l = pref(h)
			l[r.Intn(h)] = e2eInbound(u, r, 1)[0]
			vs = append(vs, e2eVariant{"unknown-inside", l})
		}
		vs = append(vs, e2eVariant{"unknown-appended", append(pref(h), e2eInbound(u, r, 1)[0])})
		if len(q) > h && len(q) <= 125 {
			vs = append(vs, e2eVariant{"all-plus-unknown", append(pref(len(q)), e2eInbound(u, r, 1)[0])})
		}

		for _, v := range vs {
			sub++
			id := idBase + sub
			m := types.CopyWorkObject(blk)
			m.Body().SetTransactions(v.txs)
			batch := db.NewBatch()
			_, _, _, _, _, _, _, _, _, perr := z.Processor().Process(m, batch)
			batch.Reset()
			class := classifyProcessErr(perr)
			rep.Evaluations++
			rep.Count(fmt.Sprintf("e2e:variant:%s", v.name))
			rep.Count(fmt.Sprintf("e2e:class:%d", class))
			items := make([]item, len(v.txs))
			for i, tx := range v.txs {
				items[i] = item{tx: tx}
			}
			next, below, above, _ := inclusionPredicate(q, items, num, gl)
			vd := d
			vd.ID = id
			vd.Note = fmt.Sprintf("step %d, variant %s: %d ETXs on %d pending (%d queued + %d parent inbound), block %d -> class %d", step, v.name, len(v.txs), len(q), len(queue), len(inbound), num, class)
			if num > params.TimeToStartTx {
				below, above = false, false // gas window: the gas of the execution is not observable here
			}
			switch {
			case class == vAccept && !next:
				rep.Fail("process-real:accepted-not-next-items", "the real Process accepts a block whose ETXs are not the next items of the queue: "+vd.Note, vd)
			case class == vAccept && below:
				rep.Fail("process-real:min-inclusion-not-enforced", "the real Process accepts a block below the minimum inclusion while the queue stays non-empty: "+vd.Note, vd)
			case class == vAccept && above:
				rep.Fail("process-real:max-inclusion-not-enforced", "the real Process accepts a block above the maximum inclusion: "+vd.Note, vd)
			case class != vAccept && class != 9 && next && !below && !above && num <= params.TimeToStartTx:
				rep.Fail("process-real:rejected-next-items", "the real Process refuses, at an ETX check, a block containing exactly the next items within the inclusion window: "+vd.Note, vd)
			case v.name == "honest" && class != vAccept:
				rep.Fail("e2e:honest-block-refused", fmt.Sprintf("Process refuses the block the node's own worker assembled (%v): %s", perr, vd.Note), vd)
			}
			cw.Add(fmt.Sprintf("CV %d %d %s %s %s %d %d %d", id, oldest, u.rangesOf(queue), u.rangesOf(inbound), u.itemRanges(items), num, gl, class), vd)
			rep.TracesValidated++
			rep.Nontrivial(fmt.Sprintf("e2e/%d/%d/%s", d.Sub, step, v.name))
			if step == 0 && v.name == "swap" {
				rep.Sample(vd)
			}
		}

		// ---- the honest block becomes the head
		if err := z.Append(blk); err != nil {
			fail("e2e:honest-block-refused", fmt.Sprintf("step %d: the node refuses the block its own worker assembled: %v", step, err))
			return
		}
		okPrefix := h <= len(q)
		for i := 0; okPrefix && i < h; i++ {
			okPrefix = honest[i].Hash() == q[i].Hash()
		}
		if !okPrefix {
			fail("process-real:accepted-not-next-items", fmt.Sprintf("step %d: the appended block's %d ETXs are not the next items of the %d pending ones", step, h, len(q)))
			return
		}
		queue = q[h:]
		oldest += int64(h)
		// the header's ETX-set root commits exactly the pending items
		ref := &refq{oldest: big.NewInt(oldest), items: queue}
		want, err := expectedRoot(ref)
		if err == nil && blk.EtxSetRoot() != want {
			fail("e2e:etx-set-root", fmt.Sprintf("step %d: header EtxSetRoot %x is not the root %x of the trie holding exactly the %d pending items from index %d", step, blk.EtxSetRoot(), want, len(queue), oldest))
		}
		if st, err := z.StateAt(blk); err == nil {
			o, _ := st.GetOldestIndex()
			n, _ := st.GetNewestIndex()
			if o.Int64() != oldest || n.Int64() != oldest+int64(len(queue)) {
				fail("e2e:queue-after-block", fmt.Sprintf("step %d: queue indices [%s,%s) after the block, expected [%d,%d)", step, o, n, oldest, oldest+int64(len(queue))))
			}
		}
	}
}

package main

import (
	"fmt"
	"math/big"

	"github.com/dominant-strategies/go-quai/common"
	"github.com/dominant-strategies/go-quai/core/rawdb"
	"github.com/dominant-strategies/go-quai/core/state"
	"github.com/dominant-strategies/go-quai/core/types"

	"verifharness/hlib"
)

func mkEtx(i int, to byte, typ uint64) *types.Transaction {
	loc := common.Location{0, 0}
	toA := common.BytesToAddress(append([]byte{to}, make([]byte, 19)...), loc)
	snd := common.BytesToAddress(append([]byte{0x10}, make([]byte, 19)...), loc)
	var h common.Hash
	h[2] = 0x10
	h[31] = byte(i)
	return types.NewTx(&types.ExternalTx{OriginatingTxHash: h, ETXIndex: uint16(i), Gas: 21000, To: &toA, Value: big.NewInt(int64(i)), Data: []byte{1, 2}, Sender: snd, EtxType: typ,
		AccessList: types.AccessList{{Address: toA, StorageKeys: []common.Hash{h}}}})
}

func main() {
	lg := hlib.QuietLogs()
	loc := common.Location{0, 0}
	db := rawdb.NewMemoryDatabase(lg)
	sdb := state.NewDatabase(db)
	edb := state.NewDatabase(db)
	st, err := state.New(types.EmptyRootHash, types.EmptyRootHash, big.NewInt(0), sdb, edb, nil, loc, lg)
	fmt.Println(err, st.ETXRoot())
	e, err := st.PopETX()
	fmt.Println("pop empty", e, err, st.ETXRoot())
	fmt.Println(st.PushETXs(nil), st.ETXRoot())
	var l []*types.Transaction
	for i := 0; i < 5; i++ {
		l = append(l, mkEtx(i, 0x00, uint64(i%6)))
	}
	fmt.Println(st.PushETXs(l), st.ETXRoot())
	o, _ := st.GetOldestIndex()
	n, _ := st.GetNewestIndex()
	fmt.Println(o, n)
	for i := 0; i < 6; i++ {
		e, err := st.PopETX()
		if e != nil {
			fmt.Println(i, e.Hash() == l[i].Hash(), e.Hash(), err)
		} else {
			fmt.Println(i, e, err)
		}
	}
	o, _ = st.GetOldestIndex()
	n, _ = st.GetNewestIndex()
	fmt.Println(o, n, st.ETXRoot())
	r, err := st.CommitEtxs()
	fmt.Println(r, err, edb.TrieDB().Commit(r, false, nil))
	st2, err := state.New(types.EmptyRootHash, r, big.NewInt(0), sdb, edb, nil, loc, lg)
	fmt.Println(err)
	o, _ = st2.GetOldestIndex()
	n, _ = st2.GetNewestIndex()
	fmt.Println(o, n, st2.ETXRoot())
	x, err := st2.ReadETX(big.NewInt(2))
	fmt.Println(x, err)
}

// C04 harness: cross-chain transactions are delivered and executed exactly once, in order.
//
//	(a) queue:   random and targeted push/pop/read/commit/copy histories on the real StateDB ETX
//	             queue, compared item by item with the Coq model; monitors: plain Go slice (FIFO),
//	             ETX root == root of an independently built trie holding exactly the expected cells,
//	             ETX root equality of a second, different history with the same final content.
//	(b) blocks:  the ETX discipline of StateProcessor.Process -- as extracted from the current source
//	             text of core/state_processor.go (order and presence of push / pop / nil check / hash
//	             comparison / availability probe / the two inclusion guards as expression trees) --
//	             is interpreted over the real StateDB with real transactions and hashes; monitor:
//	             accepted <=> the block's ETXs are the next items of (queue ++ parent inbound) and
//	             the minimum/maximum inclusion rule holds (stated independently here).
//	(d) region:  see region.go -- the real Slice.CollectNewlyConfirmedEtxs / HeaderChain.CollectSubRollup on a
//	             region node fed random region chains; forward-simulation monitor of exactly-once delivery.
//	(c) routing: the real types.Transactions.FilterToSub / FilterToLocation on every
//	             (address byte, ETX type) for all contexts/orders and a family of slices; monitor:
//	             every in-hierarchy destination is selected by exactly one subordinate filter.
package main

import (
	"bytes"
	"fmt"
	"math/big"
	"os"
	"sort"
	"strings"

	"github.com/dominant-strategies/go-quai/common"
	"github.com/dominant-strategies/go-quai/core/rawdb"
	"github.com/dominant-strategies/go-quai/core/state"
	"github.com/dominant-strategies/go-quai/core/types"
	"github.com/dominant-strategies/go-quai/crypto"
	"github.com/dominant-strategies/go-quai/ethdb"
	"github.com/dominant-strategies/go-quai/log"
	"github.com/dominant-strategies/go-quai/params"
	"github.com/dominant-strategies/go-quai/rlp"
	"github.com/dominant-strategies/go-quai/trie"

	"verifharness/hlib"
)

var (
	logger  *log.Logger
	nodeLoc = common.Location{0, 0}
	sites   *hlib.C04Sites
	rep     *hlib.Report
)

// ---------------------------------------------------------------- case descriptors

type Desc struct {
	ID    int    `json:"id"`
	Kind  string `json:"kind"`  // queue block route
	Shape string `json:"shape"` // targeted shape or "rand"
	Sub   uint64 `json:"sub"`   // the case is a deterministic function of (kind, shape, sub)
	Note  string `json:"note,omitempty"`
}

// ---------------------------------------------------------------- ETX universe of one case

type uni struct {
	r      *hlib.Rng
	serial int
	ids    map[common.Hash]int
}

func newUni(r *hlib.Rng) *uni { return &uni{r: r, ids: map[common.Hash]int{}} }

func addr(prefix byte, qi bool, fill byte) common.Address {
	b := make([]byte, 20)
	for i := range b {
		b[i] = fill
	}
	b[0] = prefix
	if qi {
		b[1] |= 0x80
	} else {
		b[1] &= 0x7f
	}
	return common.BytesToAddress(b, nodeLoc)
}

func (u *uni) build(serial int, toPrefix byte, toQi bool, typ uint64, value int64, gas uint64, data []byte, al bool, sndPrefix byte, sndQi bool) *types.Transaction {
	to := addr(toPrefix, toQi, byte(serial))
	snd := addr(sndPrefix, sndQi, byte(serial>>8))
	var oh common.Hash
	oh[0], oh[2] = sndPrefix, sndPrefix
	oh[28], oh[29], oh[30], oh[31] = byte(serial>>24), byte(serial>>16), byte(serial>>8), byte(serial)
	inner := &types.ExternalTx{OriginatingTxHash: oh, ETXIndex: uint16(serial), Gas: gas, To: &to, Value: big.NewInt(value), Data: data, Sender: snd, EtxType: typ}
	if al {
		inner.AccessList = types.AccessList{{Address: to, StorageKeys: []common.Hash{oh}}}
	}
	return types.NewTx(inner)
}

// mk creates a fresh ETX of a random kind (all six ETX types, Quai and Qi destinations).
func (u *uni) mk() *types.Transaction {
	r := u.r
	u.serial++
	var data []byte
	if r.Chance(40) {
		data = r.Bytes(r.Intn(40))
	}
	tx := u.build(u.serial, byte(r.Intn(256)), r.Chance(40), uint64(r.Intn(6)), int64(r.Intn(1<<30)), 21000+uint64(r.Intn(100000)), data, r.Chance(25), byte(r.Intn(256)), r.Chance(40))
	u.reg(tx)
	return tx
}

func (u *uni) reg(tx *types.Transaction) {
	if _, ok := u.ids[tx.Hash()]; !ok {
		u.ids[tx.Hash()] = len(u.ids) + 1
	}
}

// altered returns an ETX equal to tx except for its value (different hash).
func (u *uni) altered(tx *types.Transaction) *types.Transaction {
	to := *tx.To()
	inner := &types.ExternalTx{OriginatingTxHash: tx.OriginatingTxHash(), ETXIndex: tx.ETXIndex(), Gas: tx.Gas(), To: &to,
		Value: new(big.Int).Add(tx.Value(), big.NewInt(1)), Data: tx.Data(), Sender: tx.ETXSender(), EtxType: tx.EtxType(), AccessList: tx.AccessList()}
	n := types.NewTx(inner)
	u.reg(n)
	return n
}

func (u *uni) mkN(n int) []*types.Transaction {
	l := make([]*types.Transaction, n)
	for i := range l {
		l[i] = u.mk()
	}
	return l
}

// idOf names a transaction by its hash: the Coq model sees ETX number i as the bytes be_min i.
const unknownID = 4294967295

func (u *uni) idOf(tx *types.Transaction) int {
	id, ok := u.ids[tx.Hash()]
	if !ok {
		return unknownID
	}
	return id
}

// ranges prints a list of ETX names as runs (first, length) of consecutive numbers.
func ranges(ids []int) string {
	var parts []string
	for i := 0; i < len(ids); {
		j := i + 1
		for j < len(ids) && ids[j] == ids[j-1]+1 {
			j++
		}
		parts = append(parts, fmt.Sprintf("(%d, %d)", ids[i], j-i))
		i = j
	}
	return hlib.CoqList(parts)
}

func (u *uni) rangesOf(l []*types.Transaction) string {
	ids := make([]int, len(l))
	for i, tx := range l {
		ids[i] = u.idOf(tx)
	}
	return ranges(ids)
}

// itemRanges prints block items as runs (first, length, gas) of consecutive names with equal gas.
func (u *uni) itemRanges(items []item) string {
	var parts []string
	for i := 0; i < len(items); {
		id0 := u.idOf(items[i].tx)
		j := i + 1
		for j < len(items) && u.idOf(items[j].tx) == id0+(j-i) && items[j].gas == items[i].gas {
			j++
		}
		parts = append(parts, fmt.Sprintf("(%d, %d, %d)", id0, j-i, items[i].gas))
		i = j
	}
	return hlib.CoqList(parts)
}

// ---------------------------------------------------------------- the real queue

type world struct {
	db    ethdb.Database
	sdb   state.Database
	edb   state.Database
	st    *state.StateDB
	fails []string
}

func beBytes(x *big.Int) []byte { return x.Bytes() }

// newWorld opens a StateDB whose ETX queue is positioned at index o0 (oldest = newest = o0, no
// item): the state after o0 pushes and o0 pops.
func newWorld(o0 *big.Int) (*world, error) {
	w := &world{}
	w.db = rawdb.NewMemoryDatabase(logger)
	w.sdb = state.NewDatabase(w.db)
	w.edb = state.NewDatabase(w.db)
	root := types.EmptyRootHash
	if o0.Sign() > 0 {
		tr, err := w.edb.OpenTrie(types.EmptyRootHash)
		if err != nil {
			return nil, err
		}
		if err := tr.TryUpdate(sites.Keys["oldestEtxKey"], beBytes(o0)); err != nil {
			return nil, err
		}
		if err := tr.TryUpdate(sites.Keys["newestEtxKey"], beBytes(o0)); err != nil {
			return nil, err
		}
		root, err = tr.Commit(nil)
		if err != nil {
			return nil, err
		}
		if err := w.edb.TrieDB().Commit(root, false, nil); err != nil {
			return nil, err
		}
	}
	st, err := state.New(types.EmptyRootHash, root, big.NewInt(0), w.sdb, w.edb, nil, nodeLoc, logger)
	if err != nil {
		return nil, err
	}
	w.st = st
	return w, nil
}

func (w *world) commitReopen() (common.Hash, error) {
	before := w.st.ETXRoot()
	root, err := w.st.CommitEtxs()
	if err != nil {
		return root, err
	}
	if root != before {
		return root, fmt.Errorf("CommitEtxs root %x differs from ETXRoot %x", root, before)
	}
	if err := w.edb.TrieDB().Commit(root, false, nil); err != nil {
		return root, err
	}
	st, err := state.New(types.EmptyRootHash, root, big.NewInt(0), w.sdb, w.edb, nil, nodeLoc, logger)
	if err != nil {
		return root, err
	}
	w.st = st
	if st.ETXRoot() != root {
		return root, fmt.Errorf("reopened state has ETX root %x, committed %x", st.ETXRoot(), root)
	}
	return root, nil
}

// reference queue: a plain slice
type refq struct {
	oldest *big.Int
	items  []*types.Transaction
	kquai  *big.Int // nil = never set
}

func (q *refq) newest() *big.Int {
	return new(big.Int).Add(q.oldest, big.NewInt(int64(len(q.items))))
}

// expectedRoot builds, with the plain (non-secure) trie and explicit keccak of the keys, the trie
// that holds exactly: index.Bytes() -> RLP(etx) for the pending items, the two index cells, the
// K-Quai cell; and returns its root.
func expectedRoot(q *refq) (common.Hash, error) {
	t, err := trie.New(types.EmptyRootHash, trie.NewDatabase(rawdb.NewMemoryDatabase(logger)))
	if err != nil {
		return common.Hash{}, err
	}
	put := func(k, v []byte) {
		if len(v) > 0 {
			t.Update(crypto.Keccak256(k), v)
		}
	}
	idx := new(big.Int).Set(q.oldest)
	for _, tx := range q.items {
		enc, err := rlp.EncodeToBytes(tx)
		if err != nil {
			return common.Hash{}, err
		}
		put(idx.Bytes(), enc)
		idx.Add(idx, big.NewInt(1))
	}
	put(sites.Keys["oldestEtxKey"], q.oldest.Bytes())
	put(sites.Keys["newestEtxKey"], q.newest().Bytes())
	if q.kquai != nil {
		put(sites.Keys["kQuaiKey"], q.kquai.Bytes())
	}
	return t.Hash(), nil
}

// ---------------------------------------------------------------- queue cases

type qop struct {
	k    string // push push1 pop read oldest newest commit copy setk getk
	txs  []*types.Transaction
	idx  *big.Int
	kval uint64
}

var boundaryStarts = []string{"0", "0", "0", "1", "250", "254", "255", "256", "65530", "65534", "65535", "65536", "16777214", "4294967295", "18446744073709551614", "340282366920938463463374607431768211455"}

func bigS(s string) *big.Int { x, _ := new(big.Int).SetString(s, 10); return x }

func genQueue(d Desc) (o0 *big.Int, ops []qop, u *uni) {
	r := hlib.NewRng(d.Sub)
	u = newUni(r.Fork())
	push := func(n int) qop { return qop{k: "push", txs: u.mkN(n)} }
	pops := func(n int) []qop {
		l := make([]qop, n)
		for i := range l {
			l[i] = qop{k: "pop"}
		}
		return l
	}
	rd := func(s string) qop { return qop{k: "read", idx: bigS(s)} }
	switch d.Shape {
	case "empty-pop":
		return big.NewInt(0), []qop{{k: "pop"}, {k: "oldest"}, {k: "newest"}, rd("0"), {k: "pop"}, {k: "commit"}, {k: "pop"}}, u
	case "push-empty-list":
		return big.NewInt(0), []qop{push(0), {k: "newest"}, {k: "pop"}, push(2), push(0), {k: "newest"}, {k: "pop"}, {k: "pop"}, {k: "pop"}, push(0), {k: "oldest"}, {k: "newest"}}, u
	case "index0-empty-key":
		return big.NewInt(0), append([]qop{push(1), rd("0"), rd("1"), {k: "commit"}, rd("0"), {k: "pop"}, rd("0"), {k: "oldest"}}, pops(1)...), u
	case "grow-255-256":
		ops = []qop{push(3), rd("254"), rd("255"), push(4), rd("255"), rd("256"), rd("257"), {k: "commit"}, {k: "newest"}}
		ops = append(ops, pops(8)...)
		ops = append(ops, qop{k: "oldest"}, rd("255"), rd("256"))
		return big.NewInt(253), ops, u
	case "grow-65535-65536":
		ops = []qop{push(9), rd("65535"), rd("65536"), {k: "commit"}, rd("65535"), rd("65536"), {k: "newest"}}
		ops = append(ops, pops(10)...)
		ops = append(ops, qop{k: "oldest"}, qop{k: "newest"})
		return big.NewInt(65531), ops, u
	case "push300-pop300":
		ops = []qop{push(300), {k: "newest"}, rd("299"), rd("300"), {k: "commit"}}
		ops = append(ops, pops(301)...)
		ops = append(ops, qop{k: "oldest"})
		return big.NewInt(0), ops, u
	case "grow-across-256-by-300":
		ops = []qop{push(300), {k: "newest"}, rd("255"), rd("256"), rd("409")}
		ops = append(ops, pops(150)...)
		ops = append(ops, qop{k: "commit"}, qop{k: "oldest"}, push(5))
		ops = append(ops, pops(156)...)
		return big.NewInt(110), ops, u
	case "kquai-tenant":
		return big.NewInt(0), []qop{{k: "getk"}, {k: "setk", kval: 77}, push(2), {k: "getk"}, {k: "pop"}, {k: "setk", kval: 0}, {k: "getk"}, {k: "pop"}, {k: "setk", kval: 1 << 40}, {k: "commit"}, {k: "getk"}, {k: "pop"}, {k: "newest"}}, u
	case "push1-vs-push":
		t := u.mkN(4)
		return big.NewInt(255), []qop{{k: "push1", txs: t[:1]}, {k: "push", txs: t[1:3]}, {k: "push1", txs: t[3:]}, {k: "newest"}, {k: "pop"}, {k: "pop"}, {k: "pop"}, {k: "pop"}, {k: "pop"}}, u
	case "copy-diverge":
		return big.NewInt(3), []qop{push(3), {k: "copy"}, {k: "pop"}, {k: "copy"}, push(1), {k: "commit"}, {k: "copy"}, {k: "pop"}, {k: "pop"}, {k: "pop"}, {k: "pop"}}, u
	case "huge-index":
		return bigS("340282366920938463463374607431768211455"), []qop{push(2), {k: "newest"}, {k: "pop"}, {k: "commit"}, {k: "pop"}, {k: "pop"}, {k: "oldest"}}, u
	}
	// random history
	o0 = bigS(boundaryStarts[r.Intn(len(boundaryStarts))])
	if r.Chance(15) {
		o0 = new(big.Int).SetUint64(r.Next() >> uint(r.Intn(64)))
	}
	n := 1 + r.Intn(40)
	pending := 0
	for i := 0; i < n; i++ {
		switch r.Pick(22, 6, 30, 10, 4, 4, 6, 3, 3, 3) {
		case 0:
			k := r.Intn(9)
			if r.Chance(10) {
				k = 40 + r.Intn(261)
			}
			if r.Chance(6) {
				k = 0
			}
			ops = append(ops, push(k))
			pending += k
		case 1:
			ops = append(ops, qop{k: "push1", txs: u.mkN(1)})
			pending++
		case 2:
			k := 1
			if r.Chance(30) {
				k = 1 + r.Intn(pending+2)
			}
			ops = append(ops, pops(k)...)
			pending -= k
			if pending < 0 {
				pending = 0
			}
		case 3:
			// around the live window, relative offsets resolved at run time
			ops = append(ops, qop{k: "read", idx: big.NewInt(int64(r.Intn(pending+5)) - 2), kval: 1})
		case 4:
			ops = append(ops, qop{k: "oldest"})
		case 5:
			ops = append(ops, qop{k: "newest"})
		case 6:
			ops = append(ops, qop{k: "commit"})
		case 7:
			ops = append(ops, qop{k: "copy"})
		case 8:
			ops = append(ops, qop{k: "setk", kval: r.Next() >> uint(r.Intn(64))})
		case 9:
			ops = append(ops, qop{k: "getk"})
		}
	}
	return o0, ops, u
}

func runQueue(d Desc, cw *hlib.CaseWriter) {
	o0, ops, u := genQueue(d)
	rep.Evaluations++
	rep.Count("queue:shape:" + d.Shape)
	fail := func(sig, what string) { rep.Fail(sig, what, d) }
	w, err := newWorld(o0)
	if err != nil {
		fail("queue:setup", "cannot open a StateDB with the queue at index "+o0.String()+": "+err.Error())
		return
	}
	ref := &refq{oldest: new(big.Int).Set(o0)}
	var terms []string
	popsOK, pushes := 0, 0
	// consecutive pops are written as one step: SPops k <runs of the items handed out> <number of nils>
	var popIDs []int
	popNones := 0
	flushPops := func() {
		if len(popIDs)+popNones > 0 {
			terms = append(terms, fmt.Sprintf("SPops %d %s %d", len(popIDs)+popNones, ranges(popIDs), popNones))
			popIDs, popNones = nil, 0
		}
	}
	add := func(step string) { flushPops(); terms = append(terms, step) }
	addPop := func(got *types.Transaction) {
		if got == nil {
			popNones++
			return
		}
		if popNones > 0 { // an item after a nil: not one run
			flushPops()
		}
		popIDs = append(popIDs, u.idOf(got))
	}
	checkRoot := func(where string) {
		want, err := expectedRoot(ref)
		if err != nil {
			fail("queue:root:reference", err.Error())
			return
		}
		if got := w.st.ETXRoot(); got != want {
			fail("queue:root:content", fmt.Sprintf("%s: ETXRoot %x is not the root %x of the trie holding exactly the %d pending items at %s.. and the index cells", where, got, want, len(ref.items), ref.oldest))
		}
	}
	for i, o := range ops {
		rep.Count("queue:op:" + o.k)
		func() {
			defer func() {
				if p := recover(); p != nil {
					fail("queue:panic:"+o.k, fmt.Sprintf("op #%d %s panicked: %v", i, o.k, p))
					add("SGetK 999999999")
				}
			}()
			switch o.k {
			case "push", "push1":
				pushes += len(o.txs)
				if o.k == "push" {
					err = w.st.PushETXs(o.txs)
					add("SPush " + u.rangesOf(o.txs))
					rep.Count(fmt.Sprintf("queue:pushlen:%s", bucket(len(o.txs))))
				} else {
					err = w.st.PushETX(o.txs[0])
					add(fmt.Sprintf("SPush1 %d", u.idOf(o.txs[0])))
				}
				if err != nil {
					fail("queue:push:error", fmt.Sprintf("op #%d push failed: %v", i, err))
				}
				ref.items = append(ref.items, o.txs...)
			case "pop":
				got, err := w.st.PopETX()
				if err != nil {
					fail("queue:pop:error", fmt.Sprintf("op #%d PopETX failed: %v", i, err))
				}
				addPop(got)
				// monitor: FIFO against the slice
				if len(ref.items) == 0 {
					if got != nil {
						fail("queue:fifo:pop-on-empty", fmt.Sprintf("op #%d: PopETX on an empty queue returned %x", i, got.Hash()))
					}
				} else {
					want := ref.items[0]
					ref.items = ref.items[1:]
					ref.oldest = new(big.Int).Add(ref.oldest, big.NewInt(1))
					if got == nil {
						fail("queue:fifo:lost", fmt.Sprintf("op #%d: PopETX returned nothing, %x is pending", i, want.Hash()))
					} else if got.Hash() != want.Hash() {
						fail("queue:fifo:order", fmt.Sprintf("op #%d: PopETX returned %x, the oldest pending ETX is %x", i, got.Hash(), want.Hash()))
					} else {
						popsOK++
						if !sameEtx(got, want) {
							fail("queue:fifo:altered", fmt.Sprintf("op #%d: popped ETX %x differs field-wise from the pushed one", i, got.Hash()))
						}
					}
				}
			case "read":
				idx := o.idx
				if o.kval == 1 { // relative to the current oldest
					idx = new(big.Int).Add(ref.oldest, o.idx)
					if idx.Sign() < 0 {
						idx = big.NewInt(0)
					}
				}
				got, err := w.st.ReadETX(idx)
				if err != nil {
					fail("queue:read:error", fmt.Sprintf("op #%d ReadETX(%s) failed: %v", i, idx, err))
				}
				if got != nil {
					add(fmt.Sprintf("SRead %s (Some %d)", idx, u.idOf(got)))
				} else {
					add(fmt.Sprintf("SRead %s None", idx))
				}
				off := new(big.Int).Sub(idx, ref.oldest)
				var want *types.Transaction
				if off.Sign() >= 0 && off.IsInt64() && off.Int64() < int64(len(ref.items)) {
					want = ref.items[off.Int64()]
				}
				if (want == nil) != (got == nil) || (want != nil && want.Hash() != got.Hash()) {
					fail("queue:read", fmt.Sprintf("op #%d ReadETX(%s): got %v, pending item at that index %v", i, idx, hashOf(got), hashOf(want)))
				}
			case "oldest":
				got, err := w.st.GetOldestIndex()
				if err != nil {
					fail("queue:index:error", err.Error())
					got = big.NewInt(0)
				}
				add("SOldest " + got.String())
				if got.Cmp(ref.oldest) != 0 {
					fail("queue:index:oldest", fmt.Sprintf("op #%d oldest index %s, expected %s", i, got, ref.oldest))
				}
			case "newest":
				got, err := w.st.GetNewestIndex()
				if err != nil {
					fail("queue:index:error", err.Error())
					got = big.NewInt(0)
				}
				add("SNewest " + got.String())
				if got.Cmp(ref.newest()) != 0 {
					fail("queue:index:newest", fmt.Sprintf("op #%d newest index %s, expected %s", i, got, ref.newest()))
				}
			case "commit":
				checkRoot(fmt.Sprintf("before commit at op #%d", i))
				if _, err := w.commitReopen(); err != nil {
					fail("queue:commit", fmt.Sprintf("op #%d commit/reopen: %v", i, err))
				}
				add("SCommit")
			case "copy":
				w.st = w.st.Copy()
				add("SCommit")
			case "setk":
				v := new(big.Int).SetUint64(o.kval)
				if err := w.st.UpdateKQuai(v); err != nil {
					fail("queue:kquai:error", err.Error())
				}
				ref.kquai = v
				add("SSetK " + v.String())
			case "getk":
				got, err := w.st.GetKQuai()
				if err != nil {
					fail("queue:kquai:error", err.Error())
					got = big.NewInt(0)
				}
				add("SGetK " + got.String())
				want := big.NewInt(0)
				if ref.kquai != nil {
					want = ref.kquai
				}
				if got.Cmp(want) != 0 {
					fail("queue:kquai:value", fmt.Sprintf("op #%d K-Quai cell reads %s, last written %s", i, got, want))
				}
			}
		}()
	}
	flushPops()
	checkRoot("end of history")
	// monitor: a different history with the same final content has the same ETX root
	if len(ref.items) <= 400 {
		if err := sameContentOtherHistory(w.st.ETXRoot(), ref, hlib.NewRng(d.Sub^0x5bd1e995)); err != nil {
			fail("queue:root:history-dependent", err.Error())
		}
	}
	rep.TracesValidated++
	if popsOK > 0 && pushes > 0 {
		rep.Nontrivial(fmt.Sprintf("queue/%s/%d", d.Shape, d.Sub))
	}
	d.Note = fmt.Sprintf("start index %s, %d ops, %d items pushed, %d popped", o0, len(ops), pushes, popsOK)
	cw.Add(fmt.Sprintf("CQ %d %s %s", d.ID, o0.String(), hlib.CoqList(terms)), d)
	rep.Sample(d)
}

func sameContentOtherHistory(root common.Hash, ref *refq, r *hlib.Rng) error {
	j := int64(r.Intn(6))
	if ref.oldest.IsInt64() && ref.oldest.Int64() < j {
		j = ref.oldest.Int64()
	}
	start := new(big.Int).Sub(ref.oldest, big.NewInt(j))
	w, err := newWorld(start)
	if err != nil {
		return err
	}
	u := newUni(r.Fork())
	u.serial = 1 << 20
	all := append(u.mkN(int(j)), ref.items...)
	if ref.kquai != nil && r.Bool() {
		w.st.UpdateKQuai(ref.kquai)
	}
	for len(all) > 0 {
		k := 1 + r.Intn(len(all))
		if r.Chance(50) && k > 3 {
			k = 1 + r.Intn(3)
		}
		if r.Chance(30) {
			if err := w.st.PushETX(all[0]); err != nil {
				return err
			}
			k = 1
		} else if err := w.st.PushETXs(all[:k]); err != nil {
			return err
		}
		all = all[k:]
		if r.Chance(20) {
			if _, err := w.commitReopen(); err != nil {
				return err
			}
		}
	}
	for i := int64(0); i < j; i++ {
		if _, err := w.st.PopETX(); err != nil {
			return err
		}
	}
	if ref.kquai != nil {
		w.st.UpdateKQuai(ref.kquai)
	}
	if got := w.st.ETXRoot(); got != root {
		return fmt.Errorf("two histories ending with oldest=%s and the same %d pending items have ETX roots %x and %x", ref.oldest, len(ref.items), root, got)
	}
	return nil
}

func hashOf(tx *types.Transaction) string {
	if tx == nil {
		return "<nil>"
	}
	return tx.Hash().Hex()
}

func sameEtx(a, b *types.Transaction) bool {
	if a.Type() != b.Type() || a.EtxType() != b.EtxType() || a.Gas() != b.Gas() || a.ETXIndex() != b.ETXIndex() ||
		a.OriginatingTxHash() != b.OriginatingTxHash() || a.Value().Cmp(b.Value()) != 0 || !bytes.Equal(a.Data(), b.Data()) {
		return false
	}
	if !bytes.Equal(a.To().Bytes(), b.To().Bytes()) || !bytes.Equal(a.ETXSender().Bytes(), b.ETXSender().Bytes()) {
		return false
	}
	ea, _ := rlp.EncodeToBytes(a.AccessList())
	eb, _ := rlp.EncodeToBytes(b.AccessList())
	return bytes.Equal(ea, eb)
}

func bucket(n int) string {
	switch {
	case n == 0:
		return "0"
	case n <= 8:
		return "1-8"
	case n <= 64:
		return "9-64"
	default:
		return "65-300"
	}
}

// ---------------------------------------------------------------- block acceptance

type item struct {
	tx  *types.Transaction
	gas uint64
}

const (
	vAccept = iota
	vPopNil
	vHash
	vCountRule
	vGasRule
	vPushErr
	vPopErr
	vPanic
)

// processETXDiscipline runs, over the real StateDB, the ETX-related statements of
// StateProcessor.Process in the order in which they occur in the current source text
// (sites), for a block whose external transactions are blk (with the gas each one is
// accounted for by its execution).
func processETXDiscipline(s *hlib.C04Sites, st *state.StateDB, inbound []*types.Transaction, blk []item, num, gasLimit uint64) (verdict int) {
	defer func() {
		if p := recover(); p != nil {
			verdict = vPanic
		}
	}()
	type act struct {
		name string
		pos  int
	}
	var acts []act
	for _, a := range []act{{"push", s.PosPush}, {"count", s.PosCount}, {"pop", s.PosPop}, {"nil", s.PosNil}, {"cmp", s.PosCmp},
		{"oldest", s.PosOldest}, {"read", s.PosRead}, {"avail", s.PosAvail}, {"countrule", s.PosCountRule}, {"gasrule", s.PosGasRule}} {
		if a.pos > 0 {
			acts = append(acts, a)
		}
	}
	sort.SliceStable(acts, func(i, j int) bool { return acts[i].pos < acts[j].pos })
	var (
		count, gas uint64
		avail      bool
		popped     *types.Transaction
		oldest     = big.NewInt(0)
		readRes    *types.Transaction
		cur        *item
	)
	exec := func(a act) (int, bool) {
		switch a.name {
		case "push":
			if s.PushGuardLen && len(inbound) == 0 {
				return 0, false
			}
			if !s.PushArgParentInbnd {
				return 0, false // pushes something that is not the parent's inbound set: nothing we can supply
			}
			if err := st.PushETXs(inbound); err != nil {
				return vPushErr, true
			}
		case "count":
			count++
		case "pop":
			e, err := st.PopETX()
			if err != nil && s.PopErrReturns {
				return vPopErr, true
			}
			popped = e
		case "nil":
			if popped == nil && s.NilReturnsErr {
				return vPopNil, true
			}
		case "cmp":
			differ := popped.Hash() != cur.tx.Hash() // nil popped => panic, as in the code
			cond := differ
			if s.CmpOp == "==" {
				cond = !differ
			}
			if cond && s.CmpReturnsErr {
				return vHash, true
			}
		case "oldest":
			o, err := st.GetOldestIndex()
			if err != nil {
				return vPopErr, true
			}
			oldest = o
		case "read":
			idx := oldest
			if !s.ReadArgIsOldest {
				idx = big.NewInt(0)
			}
			e, err := st.ReadETX(idx)
			if err != nil {
				return vPopErr, true
			}
			readRes = e
		case "avail":
			if readRes != nil {
				avail = true
			}
		case "countrule":
			if s.CountRule != nil && s.CountRule.EvalB(hlib.C04Env{Num: num, Count: count, Gas: gas, GasLimit: gasLimit, Avail: avail}) && s.CountRuleReturnsErr {
				return vCountRule, true
			}
		case "gasrule":
			if s.GasRule != nil && s.GasRule.EvalB(hlib.C04Env{Num: num, Count: count, Gas: gas, GasLimit: gasLimit, Avail: avail}) && s.GasRuleReturnsErr {
				return vGasRule, true
			}
		}
		return 0, false
	}
	for _, a := range acts {
		if a.pos < s.PosLoop {
			if v, stop := exec(a); stop {
				return v
			}
		}
	}
	for i := range blk {
		cur = &blk[i]
		popped = nil
		for _, a := range acts {
			if a.pos >= s.PosLoop && a.pos <= s.PosLoopEnd {
				if v, stop := exec(a); stop {
					return v
				}
			}
		}
		gas += cur.gas // execution of the ETX accounts its gas after the checks
	}
	for _, a := range acts {
		if a.pos > s.PosLoopEnd {
			if v, stop := exec(a); stop {
				return v
			}
		}
	}
	return vAccept
}

type blockCase struct {
	o0           *big.Int
	pre, inbound []*types.Transaction
	blk          []item
	num, gl      uint64
}

var blockShapes = []string{"prefix", "prefix", "prefix-all", "empty-block", "permuted", "duplicated", "unknown", "altered", "too-long", "skip-first", "inbound-first", "rand"}

func genBlock(d Desc) (blockCase, *uni) {
	r := hlib.NewRng(d.Sub)
	u := newUni(r.Fork())
	T := params.TimeToStartTx
	c := blockCase{}
	c.o0 = bigS(boundaryStarts[r.Intn(len(boundaryStarts))])
	early := r.Chance(50)
	if early {
		c.num = []uint64{0, 1, T - 1, T}[r.Intn(4)]
	} else {
		c.num = []uint64{T + 1, T + 2, 2 * T, 1 << 40}[r.Intn(4)]
	}
	c.gl = []uint64{5000000, 5000004, 12000000, 30000000, 7}[r.Pick(5, 2, 2, 2, 1)]
	minC, maxC := int(params.MinEtxCount), int(params.MaxEtxCount)
	// queue sizes around the count window
	nq := []int{0, 1, 3, minC - 1, minC, minC + 1, maxC, maxC + 1, maxC + 20, 8}[r.Intn(10)]
	if !early && r.Chance(60) {
		nq = r.Intn(12)
	}
	npre := 0
	if nq > 0 {
		npre = r.Intn(nq + 1)
	}
	if r.Chance(20) {
		npre = nq // empty parent inbound set
	}
	c.pre = u.mkN(npre)
	c.inbound = u.mkN(nq - npre)
	q := append(append([]*types.Transaction{}, c.pre...), c.inbound...)
	// how many to take
	k := 0
	if nq > 0 {
		k = []int{0, 1, nq, nq - 1, minC - 1, minC, maxC, maxC + 1, r.Intn(nq + 1)}[r.Intn(9)]
		if k > nq {
			k = nq
		}
		if k < 0 {
			k = 0
		}
	}
	take := func(l []*types.Transaction) []item {
		it := make([]item, len(l))
		for i, tx := range l {
			it[i] = item{tx: tx}
		}
		return it
	}
	shape := d.Shape
	if shape == "rand" {
		shape = blockShapes[r.Intn(len(blockShapes)-1)]
	}
	switch shape {
	case "prefix":
		c.blk = take(q[:k])
	case "prefix-all":
		c.blk = take(q)
	case "empty-block":
		c.blk = nil
	case "permuted":
		c.blk = take(q[:k])
		if len(c.blk) >= 2 {
			i, j := r.Intn(len(c.blk)), r.Intn(len(c.blk))
			c.blk[i], c.blk[j] = c.blk[j], c.blk[i]
		}
	case "duplicated":
		c.blk = take(q[:k])
		if len(c.blk) >= 1 {
			i := r.Intn(len(c.blk))
			dup := c.blk[i]
			pos := i + 1
			if r.Bool() {
				pos = len(c.blk)
			}
			c.blk = append(c.blk[:pos], append([]item{dup}, c.blk[pos:]...)...)
		}
	case "unknown":
		c.blk = take(q[:k])
		pos := r.Intn(len(c.blk) + 1)
		c.blk = append(c.blk[:pos], append([]item{{tx: u.mk()}}, c.blk[pos:]...)...)
	case "altered":
		c.blk = take(q[:k])
		if len(c.blk) >= 1 {
			i := r.Intn(len(c.blk))
			c.blk[i] = item{tx: u.altered(c.blk[i].tx)}
		}
	case "too-long":
		c.blk = take(q)
		c.blk = append(c.blk, item{tx: u.mk()})
	case "skip-first":
		if len(q) >= 1 {
			c.blk = take(q[1:])
		}
	case "inbound-first":
		c.blk = take(append(append([]*types.Transaction{}, c.inbound...), c.pre...))
	}
	// gas accounted per ETX: aim the total at the boundaries of the gas window
	minG := c.gl / uint64(params.MinimumEtxGasDivisor)
	maxG := minG * uint64(params.MaximumEtxGasMultiplier)
	if n := uint64(len(c.blk)); n > 0 {
		target := []uint64{0, minG - 1, minG, minG + 1, maxG - 1, maxG, maxG + 1, 21000 * n, maxG * 3}[r.Intn(9)]
		if minG == 0 && target > maxG*3+1 {
			target = 0
		}
		each := target / n
		for i := range c.blk {
			c.blk[i].gas = each
		}
		c.blk[len(c.blk)-1].gas += target - each*n
	}
	return c, u
}

func runBlock(d Desc, cw *hlib.CaseWriter) {
	c, u := genBlock(d)
	rep.Evaluations++
	rep.Count("block:shape:" + d.Shape)
	fail := func(sig, what string) { rep.Fail(sig, what, d) }
	w, err := newWorld(c.o0)
	if err != nil {
		fail("block:setup", err.Error())
		return
	}
	// the queue as left by the previous block (committed, reopened at its ETX root as Process does)
	if err := w.st.PushETXs(c.pre); err != nil {
		fail("block:setup", err.Error())
		return
	}
	if _, err := w.commitReopen(); err != nil {
		fail("block:setup", err.Error())
		return
	}
	verdict := processETXDiscipline(sites, w.st, c.inbound, c.blk, c.num, c.gl)
	oldest, _ := w.st.GetOldestIndex()
	newest, _ := w.st.GetNewestIndex()
	rep.Count(fmt.Sprintf("block:verdict:%d", verdict))

	// ---- monitor: the property's own predicate, stated on lists of hashes
	q := append(append([]*types.Transaction{}, c.pre...), c.inbound...)
	next, belowMin, aboveMax, total := inclusionPredicate(q, c.blk, c.num, c.gl)
	n := uint64(len(c.blk))
	accepted := verdict == vAccept
	switch {
	case accepted && !next:
		fail("process:accepted-not-next-items", fmt.Sprintf("a block whose %d ETXs are not the next items of the queue (%d queued + %d parent inbound; shape %s) passes the ETX checks of Process", len(c.blk), len(c.pre), len(c.inbound), d.Shape))
	case accepted && belowMin:
		fail("process:min-inclusion-not-enforced", fmt.Sprintf("a block with %d ETXs / %d ETX gas is accepted although the queue stays non-empty (block %d, gas limit %d)", n, total, c.num, c.gl))
	case accepted && aboveMax:
		fail("process:max-inclusion-not-enforced", fmt.Sprintf("a block with %d ETXs / %d ETX gas exceeds the maximum and is accepted (block %d, gas limit %d)", n, total, c.num, c.gl))
	case !accepted && next && !belowMin && !aboveMax:
		fail("process:rejected-next-items", fmt.Sprintf("a block containing exactly the next %d items within the inclusion window is refused (verdict class %d)", n, verdict))
	case verdict >= vPushErr:
		fail("process:error-or-panic", fmt.Sprintf("ETX discipline of Process ended in class %d (5 push error, 6 pop/read error, 7 panic)", verdict))
	}
	if accepted && next {
		// consumed exactly those items: the rest is still there, in order
		wantOld := new(big.Int).Add(c.o0, big.NewInt(int64(len(c.blk))))
		wantNew := new(big.Int).Add(c.o0, big.NewInt(int64(len(q))))
		if oldest.Cmp(wantOld) != 0 || newest.Cmp(wantNew) != 0 {
			fail("process:queue-after-accept", fmt.Sprintf("after acceptance the queue is [%s,%s), expected [%s,%s)", oldest, newest, wantOld, wantNew))
		}
		ref := &refq{oldest: wantOld, items: q[len(c.blk):]}
		if want, err := expectedRoot(ref); err == nil && want != w.st.ETXRoot() {
			fail("process:root-after-accept", fmt.Sprintf("ETX root after acceptance %x does not commit exactly the %d remaining items (%x)", w.st.ETXRoot(), len(ref.items), want))
		}
	}
	rep.TracesValidated++
	rep.Nontrivial(fmt.Sprintf("block/%s/%d", d.Shape, d.Sub))
	d.Note = fmt.Sprintf("queue at %s: %d queued + %d inbound, block of %d ETXs, gas %d, block number %d, gas limit %d -> verdict %d", c.o0, len(c.pre), len(c.inbound), len(c.blk), total, c.num, c.gl, verdict)
	cw.Add(fmt.Sprintf("CB %d %s %s %s %s %d %d %d %s %s", d.ID, c.o0, u.rangesOf(c.pre), u.rangesOf(c.inbound), u.itemRanges(c.blk), c.num, c.gl, verdict, oldest, newest), d)
	rep.Sample(d)
}

// inclusionPredicate is the property's own statement about one block: are the block's ETXs exactly
// the next items of q (by hash), and does the block respect the minimum / maximum inclusion rule.
func inclusionPredicate(q []*types.Transaction, blk []item, num, gl uint64) (next, belowMin, aboveMax bool, total uint64) {
	next = len(blk) <= len(q)
	if next {
		for i := range blk {
			if blk[i].tx.Hash() != q[i].Hash() {
				next = false
				break
			}
		}
	}
	for _, it := range blk {
		total += it.gas
	}
	remaining := len(q) > len(blk)
	n := uint64(len(blk))
	minG := gl / uint64(params.MinimumEtxGasDivisor)
	maxG := minG * uint64(params.MaximumEtxGasMultiplier)
	if num <= params.TimeToStartTx {
		belowMin = remaining && n < uint64(params.MinEtxCount)
		aboveMax = n > uint64(params.MaxEtxCount)
	} else {
		belowMin = remaining && total < minG
		aboveMax = total > maxG
	}
	return
}

// ---------------------------------------------------------------- chains of blocks

type candidate struct {
	blk     []item
	num, gl uint64
	next    []*types.Transaction
}

func genChain(d Desc) (o0 *big.Int, inb0 []*types.Transaction, cs []candidate, u *uni) {
	r := hlib.NewRng(d.Sub)
	u = newUni(r.Fork())
	o0 = bigS(boundaryStarts[r.Intn(len(boundaryStarts))])
	inb0 = u.mkN(r.Intn(7))
	T := params.TimeToStartTx
	var queue []*types.Transaction // pushed, pending
	cur := inb0                    // inbound set of the head, not yet pushed
	num := T + 1 + uint64(r.Intn(1000))
	nc := 1 + r.Intn(8)
	for i := 0; i < nc; i++ {
		q := append(append([]*types.Transaction{}, queue...), cur...)
		c := candidate{num: num, gl: []uint64{5000000, 12000000}[r.Intn(2)]}
		if r.Chance(8) {
			c.num = uint64(r.Intn(int(T)))
		}
		k := r.Intn(len(q) + 1)
		if r.Chance(40) {
			k = len(q)
		}
		for _, tx := range q[:k] {
			c.blk = append(c.blk, item{tx: tx})
		}
		switch r.Pick(70, 6, 6, 6, 6, 6) {
		case 1:
			if len(c.blk) >= 2 {
				c.blk[0], c.blk[len(c.blk)-1] = c.blk[len(c.blk)-1], c.blk[0]
			}
		case 2:
			if len(c.blk) >= 1 {
				c.blk = append(c.blk, c.blk[r.Intn(len(c.blk))])
			}
		case 3:
			c.blk = append(c.blk, item{tx: u.mk()})
		case 4:
			if len(c.blk) >= 1 {
				j := r.Intn(len(c.blk))
				c.blk[j] = item{tx: u.altered(c.blk[j].tx)}
			}
		case 5:
			if len(q) >= 2 {
				c.blk = []item{{tx: q[1]}}
			}
		}
		minG := c.gl / uint64(params.MinimumEtxGasDivisor)
		maxG := minG * uint64(params.MaximumEtxGasMultiplier)
		if n := uint64(len(c.blk)); n > 0 {
			target := minG + uint64(r.Intn(int(maxG-minG+1)))
			switch r.Pick(80, 7, 7, 6) {
			case 1:
				target = minG - 1
			case 2:
				target = maxG + 1
			case 3:
				target = 21000 * n
			}
			each := target / n
			for j := range c.blk {
				c.blk[j].gas = each
			}
			c.blk[len(c.blk)-1].gas += target - each*n
		}
		c.next = u.mkN(r.Intn(6))
		cs = append(cs, c)
		if next, below, above, _ := inclusionPredicate(q, c.blk, c.num, c.gl); next && !below && !above {
			queue = q[len(c.blk):]
			cur = c.next
			num++
		}
	}
	return
}

func runChain(d Desc, cw *hlib.CaseWriter) {
	o0, inb0, cs, u := genChain(d)
	rep.Evaluations++
	rep.Count("chain:len:" + fmt.Sprint(len(cs)))
	fail := func(sig, what string) { rep.Fail(sig, what, d) }
	w, err := newWorld(o0)
	if err != nil {
		fail("chain:setup", err.Error())
		return
	}
	headRoot := w.st.ETXRoot()
	var queue, executed, delivered []*types.Transaction
	delivered = append(delivered, inb0...)
	cur := inb0
	var verdicts []string
	accepted := 0
	type acc struct {
		parent, result common.Hash
		inbound        []*types.Transaction
		c              candidate
	}
	var accs []acc
	for i, c := range cs {
		// Process opens the state at the parent's committed ETX-set root
		st, err := state.New(types.EmptyRootHash, headRoot, big.NewInt(0), w.sdb, w.edb, nil, nodeLoc, logger)
		if err != nil {
			fail("chain:reopen", fmt.Sprintf("candidate %d: cannot open the state at the head's ETX root: %v", i, err))
			return
		}
		v := processETXDiscipline(sites, st, cur, c.blk, c.num, c.gl)
		verdicts = append(verdicts, fmt.Sprint(v))
		rep.Count(fmt.Sprintf("chain:verdict:%d", v))
		q := append(append([]*types.Transaction{}, queue...), cur...)
		next, below, above, _ := inclusionPredicate(q, c.blk, c.num, c.gl)
		want := next && !below && !above
		if (v == vAccept) != want {
			sig := "process:rejected-next-items"
			if v == vAccept {
				sig = "process:accepted-not-next-items"
				if next {
					sig = "process:min-inclusion-not-enforced"
					if above {
						sig = "process:max-inclusion-not-enforced"
					}
				}
			}
			fail(sig, fmt.Sprintf("chain candidate %d (%d ETXs on %d pending): verdict class %d, the property's predicate says accept=%v", i, len(c.blk), len(q), v, want))
		}
		if v == vAccept {
			root, err := st.CommitEtxs()
			if err == nil {
				err = w.edb.TrieDB().Commit(root, false, nil)
			}
			if err != nil {
				fail("chain:commit", err.Error())
				return
			}
			accs = append(accs, acc{headRoot, root, cur, c})
			headRoot = root
			accepted++
			for _, it := range c.blk {
				executed = append(executed, it.tx)
			}
			if len(c.blk) <= len(q) {
				queue = q[len(c.blk):]
			} else {
				queue = nil
			}
			cur = c.next
			delivered = append(delivered, c.next...)
		}
	}
	// reorganisation: re-processing an earlier block from its parent's root (as after a switch of
	// branch), in reverse order and on the same trie database, reproduces the same ETX root
	for k := len(accs) - 1; k >= 0; k-- {
		a := accs[k]
		st, err := state.New(types.EmptyRootHash, a.parent, big.NewInt(0), w.sdb, w.edb, nil, nodeLoc, logger)
		if err != nil {
			fail("chain:reopen", fmt.Sprintf("cannot reopen the state at an earlier head: %v", err))
			break
		}
		if v := processETXDiscipline(sites, st, a.inbound, a.c.blk, a.c.num, a.c.gl); v != vAccept || st.ETXRoot() != a.result {
			fail("chain:fork-dependence", fmt.Sprintf("re-processing accepted block %d from its parent's ETX root gives verdict class %d and root %x, first time accepted with root %x", k, v, st.ETXRoot(), a.result))
		}
	}
	st, err := state.New(types.EmptyRootHash, headRoot, big.NewInt(0), w.sdb, w.edb, nil, nodeLoc, logger)
	if err != nil {
		fail("chain:reopen", err.Error())
		return
	}
	oldest, _ := st.GetOldestIndex()
	newest, _ := st.GetNewestIndex()
	// monitor: executed ++ still pending == delivered, in order, each once (by hash)
	all := append(append(append([]*types.Transaction{}, executed...), queue...), cur...)
	ok := len(all) == len(delivered)
	for i := 0; ok && i < len(all); i++ {
		ok = all[i].Hash() == delivered[i].Hash()
	}
	if !ok {
		fail("chain:exactly-once", fmt.Sprintf("after %d accepted blocks: executed (%d) ++ pending (%d+%d) is not the sequence of the %d delivered ETXs", accepted, len(executed), len(queue), len(cur), len(delivered)))
	}
	ref := &refq{oldest: new(big.Int).Add(o0, big.NewInt(int64(len(executed)))), items: queue}
	if want, err := expectedRoot(ref); err == nil && want != headRoot && ok {
		fail("chain:root", fmt.Sprintf("head ETX root %x does not commit exactly the %d pending items from index %s (%x)", headRoot, len(queue), ref.oldest, want))
	}
	rep.TracesValidated++
	if accepted > 0 {
		rep.Nontrivial(fmt.Sprintf("chain/%d", d.Sub))
	}
	terms := make([]string, len(cs))
	for i, c := range cs {
		terms[i] = fmt.Sprintf("(%s, %d, %d, %s)", u.itemRanges(c.blk), c.num, c.gl, u.rangesOf(c.next))
	}
	d.Note = fmt.Sprintf("queue at %s, %d candidate blocks, %d accepted, verdicts %v", o0, len(cs), accepted, verdicts)
	cw.Add(fmt.Sprintf("CC %d %s %s %s %s %s %s", d.ID, o0, u.rangesOf(inb0), hlib.CoqList(terms), hlib.CoqList(verdicts), oldest, newest), d)
	rep.Sample(d)
}

// ---------------------------------------------------------------- routing

var allTxs types.Transactions
var allIdx map[*types.Transaction]int

func buildAllTxs() {
	allIdx = map[*types.Transaction]int{}
	u := newUni(hlib.NewRng(1))
	for p := 0; p < 256; p++ {
		for ty := 0; ty < 6; ty++ {
			tx := u.build(len(allTxs)+1, byte(p), p%2 == 1, uint64(ty), 1, 21000, nil, false, 0x00, false)
			allIdx[tx] = len(allTxs)
			allTxs = append(allTxs, tx)
		}
	}
}

func coqLoc(l common.Location) string { return hlib.CoqBytes([]byte(l)) }

func routeSlices() []common.Location {
	ls := []common.Location{{}, {0, 0, 0}, {16, 0}, {1, 16}}
	for _, r := range []byte{0, 1, 2, 3, 15} {
		ls = append(ls, common.Location{r})
		for _, z := range []byte{0, 1, 2, 3, 15} {
			ls = append(ls, common.Location{r, z})
		}
	}
	return ls
}

func runRouteX(d Desc, slice common.Location, ctx, order int, cw *hlib.CaseWriter) {
	rep.Evaluations++
	rep.Count(fmt.Sprintf("route:ctx%d:order%d", ctx, order))
	var sel []string
	func() {
		defer func() {
			if p := recover(); p != nil {
				rep.Fail("route:panic", fmt.Sprintf("FilterToSub(%v,%d,%d) panicked: %v", slice, ctx, order, p), d)
			}
		}()
		got := allTxs.FilterToSub(slice, ctx, order)
		last := -1
		for _, tx := range got {
			i, ok := allIdx[tx]
			if !ok || i <= last {
				rep.Fail("route:filter-output", "FilterToSub returned a transaction that was not in its input, or out of order", d)
				continue
			}
			last = i
			sel = append(sel, fmt.Sprint(i))
		}
		if len(got) > 0 {
			rep.Nontrivial(fmt.Sprintf("route/%v/%d/%d", slice, ctx, order))
		}
	}()
	rep.TracesValidated++
	d.Note = fmt.Sprintf("FilterToSub(slice=%v, nodeCtx=%d, order=%d) on all 256x6 (address byte, ETX type): %d selected", []byte(slice), ctx, order, len(sel))
	cw.Add(fmt.Sprintf("CRX %d %s %d %d %s", d.ID, coqLoc(slice), ctx, order, hlib.CoqList(sel)), d)
}

func runLocX(d Desc, l common.Location, cw *hlib.CaseWriter) {
	rep.Evaluations++
	rep.Count("route:FilterToLocation")
	var sel []string
	for _, tx := range allTxs.FilterToLocation(l) {
		sel = append(sel, fmt.Sprint(allIdx[tx]))
	}
	rep.TracesValidated++
	d.Note = fmt.Sprintf("FilterToLocation(%v): %d selected", []byte(l), len(sel))
	cw.Add(fmt.Sprintf("CLX %d %s %s", d.ID, coqLoc(l), hlib.CoqList(sel)), d)
}

// random explicit lists with arbitrary ETX type values
func runRouteRand(d Desc, cw *hlib.CaseWriter) {
	r := hlib.NewRng(d.Sub)
	u := newUni(r.Fork())
	n := 1 + r.Intn(30)
	var txs types.Transactions
	var pairs []string
	for i := 0; i < n; i++ {
		ty := uint64(r.Intn(8))
		if r.Chance(15) {
			ty = r.Next()
		}
		p := byte(r.Intn(256))
		if r.Chance(50) {
			p = byte(r.Intn(3)<<4 | r.Intn(3))
		}
		txs = append(txs, u.build(i+1, p, r.Bool(), ty, 5, 21000, nil, false, 0, false))
		pairs = append(pairs, fmt.Sprintf("(%d, %d)", p, ty))
	}
	ss := routeSlices()
	slice := ss[r.Intn(len(ss))]
	ctx, order := r.Intn(3), r.Intn(3)
	rep.Evaluations++
	rep.Count("route:rand")
	in := map[*types.Transaction]bool{}
	if r.Chance(80) {
		for _, tx := range txs.FilterToSub(slice, ctx, order) {
			in[tx] = true
		}
		flags := make([]string, n)
		for i, tx := range txs {
			flags[i] = hlib.CoqBool(in[tx])
		}
		cw.Add(fmt.Sprintf("CR %d %s %d %d %s %s", d.ID, coqLoc(slice), ctx, order, hlib.CoqList(pairs), hlib.CoqList(flags)), d)
	} else {
		for _, tx := range txs.FilterToLocation(slice) {
			in[tx] = true
		}
		flags := make([]string, n)
		for i, tx := range txs {
			flags[i] = hlib.CoqBool(in[tx])
		}
		cw.Add(fmt.Sprintf("CL %d %s %s %s", d.ID, coqLoc(slice), hlib.CoqList(pairs), hlib.CoqList(flags)), d)
	}
	rep.TracesValidated++
}

// monitor: every ETX whose destination lies in a WxZ hierarchy is selected by exactly one
// region filter at prime and, inside that region, by exactly one zone filter (at prime order
// for every type, at region order for the standard types), and by none that is not its
// destination.
func routeMonitor() {
	for _, dim := range [][2]int{{3, 3}, {1, 1}, {16, 16}, {2, 4}} {
		W, Z := dim[0], dim[1]
		primeSel := map[*types.Transaction][]int{}
		for r := 0; r < W; r++ {
			for _, order := range []int{0, 1, 2} {
				got := allTxs.FilterToSub(common.Location{byte(r), 0}, common.PRIME_CTX, order)
				if order == 0 {
					for _, tx := range got {
						primeSel[tx] = append(primeSel[tx], r)
					}
				}
			}
		}
		zoneSel := map[int]map[*types.Transaction][][2]int{0: {}, 1: {}}
		for r := 0; r < W; r++ {
			for z := 0; z < Z; z++ {
				for _, order := range []int{0, 1} {
					for _, tx := range allTxs.FilterToSub(common.Location{byte(r), byte(z)}, common.REGION_CTX, order) {
						zoneSel[order][tx] = append(zoneSel[order][tx], [2]int{r, z})
					}
				}
			}
		}
		for _, tx := range allTxs {
			loc := *tx.To().Location()
			r, z := int(loc[0]), int(loc[1])
			c := map[string]any{"id": -1, "kind": "route", "shape": fmt.Sprintf("monitor %dx%d", W, Z), "to": fmt.Sprintf("%x", tx.To().Bytes()[0]), "etxType": tx.EtxType()}
			wantP := 0
			if r < W {
				wantP = 1
			}
			if len(primeSel[tx]) != wantP || (wantP == 1 && primeSel[tx][0] != r) {
				rep.Fail("route:prime-partition", fmt.Sprintf("ETX to region %d zone %d (type %d) is selected by the prime-level filters of regions %v in a %dx%d hierarchy", r, z, tx.EtxType(), primeSel[tx], W, Z), c)
			}
			standard := tx.EtxType() != types.CoinbaseType && tx.EtxType() != types.ConversionType
			for _, order := range []int{0, 1} {
				want := 0
				if r < W && z < Z && (order == 0 || standard) {
					want = 1
				}
				got := zoneSel[order][tx]
				if len(got) != want || (want == 1 && got[0] != [2]int{r, z}) {
					rep.Fail("route:region-partition", fmt.Sprintf("ETX to region %d zone %d (type %d) is selected by the region-level filters of zones %v at order %d in a %dx%d hierarchy", r, z, tx.EtxType(), got, order, W, Z), c)
				}
			}
		}
	}
}

// ---------------------------------------------------------------- main

func main() {
	f := hlib.ParseFlags()
	logger = hlib.QuietLogs()
	rep = hlib.NewReport("C04", "cases: (queue) push/pop/read/commit/copy histories on the real StateDB ETX queue started at boundary indices; "+
		"(block) the ETX discipline of Process as read from the current source, interpreted over the real StateDB for blocks whose ETX section is a prefix / permuted / duplicated / unknown / altered / too long list with counts and gas around the inclusion window; "+
		"(route) FilterToSub/FilterToLocation on all 256x6 (address byte, ETX type); "+
		"(region) random region chains (2-3 zones, 5-12 region blocks, prime-order blocks at random positions, forks, 0-3 zone blocks between coincident blocks, ETXs of all 7 types to zones of the region / absent zones / other regions, prime inbound sets incl. returning coinbase/conversion ETXs) on a region node made of the real HeaderChain: the real CollectNewlyConfirmedEtxs / CollectSubRollup for every block. non-trivial = queue history with at least one pushed and one successfully popped item, every block case, every routing case that selects something, every region chain on which at least one ETX is due at some block; distinct by (kind, shape, sub-seed)")
	repo := os.Getenv("VERIF_REPO")
	if repo == "" {
		repo = "/repo"
	}
	var err error
	sites, err = hlib.ExtractC04Sites(repo, hlib.C04Params())
	if err != nil {
		fmt.Fprintln(os.Stderr, "cannot read the sources:", err)
		os.Exit(1)
	}
	for _, p := range sites.Problems {
		rep.Fail("process-sites:"+strings.SplitN(p, ":", 2)[0]+":"+classOf(p), "the ETX discipline could not be located in the source: "+p, map[string]any{"id": -2, "kind": "sites"})
		rep.Note("sites: " + p)
	}
	for _, k := range []string{"newestEtxKey", "oldestEtxKey", "kQuaiKey"} {
		if len(sites.Keys[k]) != 32 {
			fmt.Fprintln(os.Stderr, "control-cell key not found in statedb.go:", k)
			sites.Keys[k] = make([]byte, 32)
		}
	}
	cw := hlib.NewCaseWriter(f.Out, "From Coq Require Import List NArith Bool.\nFrom GQ Require Import Lib.Key Lib.SMap Model.C04.\nImport ListNotations.\nLocal Open Scope N_scope.\n", "C04.case", 100)
	buildAllTxs()

	if f.Replay != "" {
		var d Desc
		hlib.ReadReplayCase(f.Replay, &d)
		switch d.Kind {
		case "queue":
			runQueue(d, cw)
		case "block":
			runBlock(d, cw)
		case "chain":
			runChain(d, cw)
		case "e2e":
			runE2E(d, cw, 200000+1000*int(d.Sub%97))
		case "region":
			runRegion(d, cw)
		case "copy":
			runCopyIndependence()
		case "prime":
			runPrime(d, cw)
		case "route":
			if d.Shape == "rand" {
				runRouteRand(d, cw)
			} else {
				routeAll(cw, &d)
				routeMonitor()
			}
		}
		cw.Close()
		rep.Write(f.Out)
		return
	}

	rng := hlib.NewRng(f.Seed)
	id := 0
	next := func(kind, shape string, sub uint64) Desc {
		id++
		return Desc{ID: id, Kind: kind, Shape: shape, Sub: sub}
	}
	// corpus first
	runCopyIndependence() // alias.go: the copy primitives of an ETX, every type, boundary amounts (monitor only, no case)
	for i, s := range []string{"empty-pop", "push-empty-list", "index0-empty-key", "grow-255-256", "grow-65535-65536", "push300-pop300", "grow-across-256-by-300", "kquai-tenant", "push1-vs-push", "copy-diverge", "huge-index"} {
		runQueue(next("queue", s, uint64(1000+i)), cw)
	}
	for i, s := range blockShapes[:len(blockShapes)-1] {
		for j := 0; j < 3; j++ {
			runBlock(next("block", s, uint64(2000+10*i+j)), cw)
		}
	}
	for i := 0; i < 6; i++ {
		runChain(next("chain", "rand", uint64(3000+i)), cw)
	}
	for i := 0; i < 8; i++ {
		runE2E(Desc{ID: 200000 + 1000*i, Kind: "e2e", Shape: "plan", Sub: uint64(i)}, cw, 200000+1000*i)
	}
	for i, s := range regionShapes[:len(regionShapes)-1] {
		for j := 0; j < 4; j++ {
			runRegion(next("region", s, uint64(4000+10*i+j)), cw)
		}
	}
	for i, s := range primeShapes[:len(primeShapes)-1] {
		for j := 0; j < 3; j++ {
			runPrime(next("prime", s, uint64(5000+10*i+j)), cw)
		}
	}
	routeAll(cw, nil)
	id += 1000
	routeMonitor()
	// generated
	for i := 0; i < f.N; i++ {
		runQueue(next("queue", "rand", rng.Next()), cw)
	}
	for i := 0; i < 3*f.N; i++ {
		runBlock(next("block", blockShapes[rng.Intn(len(blockShapes))], rng.Next()), cw)
	}
	for i := 0; i < f.N; i++ {
		runChain(next("chain", "rand", rng.Next()), cw)
	}
	for i := 0; i < f.N/30; i++ {
		runE2E(Desc{ID: 300000 + 1000*i, Kind: "e2e", Shape: "rand", Sub: rng.Next()}, cw, 300000+1000*i)
	}
	for i := 0; i < f.N/4+5; i++ {
		runRouteRand(next("route", "rand", rng.Next()), cw)
	}
	for i := 0; i < f.N/2+10; i++ {
		runRegion(next("region", regionShapes[rng.Intn(len(regionShapes))], rng.Next()), cw)
	}
	for i := 0; i < f.N/4+5; i++ {
		runPrime(next("prime", primeShapes[rng.Intn(len(primeShapes))], rng.Next()), cw)
	}
	cw.Close()
	rep.Exhaustive = false
	rep.Write(f.Out)
}

func classOf(p string) string {
	w := strings.Fields(p)
	if len(w) > 3 {
		w = w[:3]
	}
	return strings.Join(w, "-")
}

// routeAll writes the exhaustive routing cases (ids 100001..). With only != nil, just that one.
func routeAll(cw *hlib.CaseWriter, only *Desc) {
	id := 100000
	for _, slice := range routeSlices() {
		for ctx := 0; ctx < 3; ctx++ {
			for order := 0; order < 3; order++ {
				id++
				d := Desc{ID: id, Kind: "route", Shape: "all", Sub: 0}
				if only == nil || only.ID == id {
					runRouteX(d, slice, ctx, order, cw)
				}
			}
		}
		id++
		if only == nil || only.ID == id {
			runLocX(Desc{ID: id, Kind: "route", Shape: "loc"}, slice, cw)
		}
	}
}

package main

import (
	"fmt"
	"math/big"

	"github.com/dominant-strategies/go-quai/core/vm"

	"verifharness/cmd/c15/kit"
	"verifharness/hlib"
)

func pow2(n uint) *big.Int { return new(big.Int).Lsh(big.NewInt(1), n) }
func bi(x uint64) *big.Int { return new(big.Int).SetUint64(x) }
func sub1(x *big.Int) *big.Int {
	return new(big.Int).Sub(x, big.NewInt(1))
}

type shape struct {
	name     string
	off, len *big.Int
	gas      []uint64 // budgets to try
}

var (
	gDefault = uint64(30_000_000)
)

// the sizes named by the property: 0, 1, 32, 1 KiB, 1 MiB, 64 MiB, the fee-function limit, uint64 overflow
func shapes() []shape {
	return []shape{
		{"zero", bi(0), bi(0), []uint64{gDefault}},
		{"zero-len-huge-off", pow2(200), bi(0), []uint64{gDefault}},
		{"1B", bi(0), bi(1), []uint64{gDefault, 2}},
		{"32B", bi(0), bi(32), []uint64{gDefault}},
		{"unaligned", bi(31), bi(2), []uint64{gDefault}},
		{"1KiB", bi(0), bi(1024), []uint64{gDefault, 21_050}},
		{"1KiB-off", bi(1000), bi(56), []uint64{gDefault}},
		{"1MiB", bi(0), bi(1 << 20), []uint64{gDefault, 3_000_000, 2_000_000}},
		{"1MiB-off", bi(1 << 20), bi(32), []uint64{3_000_000}},
		{"64MiB", bi(0), bi(64 << 20), []uint64{gDefault}},
		{"fee-limit", bi(0), bi(0x1FFFFFFFE0), []uint64{gDefault}},
		{"fee-limit+1", bi(0), bi(0x1FFFFFFFE1), []uint64{gDefault}},
		{"2^56", bi(0), pow2(56), []uint64{gDefault}},
		{"sum-overflow", sub1(pow2(64)), bi(1), []uint64{gDefault}},
		{"round-overflow", bi(0), sub1(pow2(64)), []uint64{gDefault}},
		{"len-not-u64", bi(0), pow2(64), []uint64{gDefault}},
		{"off-not-u64", pow2(64), bi(1), []uint64{gDefault}},
	}
}

var zero = "0"

// argument layouts (top of stack first) for one (offset,length) request; several variants per opcode.
func layouts(row vm.VerifC15Row, off, ln *big.Int) [][]string {
	o, l := hx(off), hx(ln)
	other := hx(new(big.Int).SetBytes(kit.Addr(3).Bytes()))
	inScope := other
	switch row.Name {
	case "MLOAD":
		return [][]string{{o}, {l}}
	case "MSTORE", "MSTORE8":
		return [][]string{{o, "ab"}, {l, "ab"}}
	case "SHA3", "RETURN", "REVERT", "LOG0":
		return [][]string{{o, l}}
	case "LOG1":
		return [][]string{{o, l, "1"}}
	case "LOG2":
		return [][]string{{o, l, "1", "2"}}
	case "LOG3":
		return [][]string{{o, l, "1", "2", "3"}}
	case "LOG4":
		return [][]string{{o, l, "1", "2", "3", "4"}}
	case "CALLDATACOPY", "CODECOPY", "RETURNDATACOPY":
		return [][]string{{o, zero, l}}
	case "MCOPY":
		return [][]string{{o, zero, l}, {zero, o, l}}
	case "EXTCODECOPY":
		return [][]string{{other, o, zero, l}}
	case "CREATE":
		return [][]string{{zero, o, l}}
	case "CREATE2":
		return [][]string{{zero, o, l, "5"}}
	case "CALL", "CALLCODE":
		return [][]string{{zero, other, zero, o, l, zero, zero}, {zero, other, zero, zero, zero, o, l}, {zero, other, zero, "20", "20", o, l}}
	case "DELEGATECALL", "STATICCALL":
		return [][]string{{zero, other, o, l, zero, zero}, {zero, other, zero, zero, o, l}}
	case "ETX":
		// destination inside the own zone: opETX returns right after the pops ("following opCall protocol"),
		// the memory was already resized by the interpreter
		return [][]string{
			{zero, inScope, zero, zero, zero, zero, o, l, zero, zero},
			{zero, inScope, zero, zero, zero, zero, zero, zero, o, l},
			{zero, inScope, zero, zero, zero, zero, o, l, o, l},
		}
	}
	// an opcode this harness has no layout for (a new one): fill the validated depth with (off,len) pairs
	var a []string
	for i := 0; i < row.MinStack; i++ {
		if i%2 == 0 {
			a = append(a, o)
		} else {
			a = append(a, l)
		}
	}
	return [][]string{a}
}

func corpus(r *runner, full bool) []Prog {
	var ps []Prog
	pid := 3_000_000
	add := func(note string, fork int, gas uint64, code []Ins) {
		ps = append(ps, Prog{ID: pid, Kind: "prog", Note: note, Fork: fork, Gas: gas, Code: code})
		pid++
	}
	// the recorded finding first: 64 MiB for 21030 gas = ten PUSH32 + ETX (Props/C15.v metered_memory_bound_refuted)
	etx := r.rows[byte(vm.ETX)]
	if etx.Defined {
		add("etx-64MiB (F4 witness)", 1, 21030, []Ins{{Op: byte(vm.ETX), Args: layouts(etx, bi(0), bi(64<<20))[0]}})
	}
	// verdict classes of the charge phase
	for fork := 0; fork < 2; fork++ {
		add("invalid opcode 0xfe", fork, 1000, []Ins{{Op: 0xfe}})
		add("underflow", fork, 1000, []Ins{{Op: byte(vm.MSTORE)}})
		var many []Ins
		for i := 0; i < 1026; i++ {
			many = append(many, Ins{Op: byte(vm.ADDRESS)})
		}
		add("stack overflow", fork, 100000, many)
		add("constant gas oog", fork, 1, []Ins{{Op: byte(vm.ADDRESS)}})
	}
	// ascending sizes so that an opcode found to grow memory unpaid at a small size is capped before the large ones
	forkShapes := map[string]bool{"zero": true, "1KiB": true, "1MiB": true, "round-overflow": true} // fork 0 differs only by the gate
	afterShapes := map[string]bool{"1B": true, "1KiB-off": true, "1MiB": true, "fee-limit+1": true} // same request on a non-empty memory
	for _, sh := range shapes() {
		for op := 0; op < 256; op++ {
			row := r.rows[op]
			if !row.Defined || !row.HasMemorySize {
				continue
			}
			for fork := 1; fork >= 0; fork-- {
				if fork == 0 && !full && !forkShapes[sh.name] {
					continue
				}
				for li, lay := range layouts(row, sh.off, sh.len) {
					if li > 0 && fork == 0 && !full {
						continue
					}
					for gi, g := range sh.gas {
						if gi > 0 && li > 0 {
							continue
						}
						note := fmt.Sprintf("%s %s layout %d", row.Name, sh.name, li)
						add(note, fork, g, []Ins{{Op: byte(op), Args: lay}})
						if gi == 0 && li == 0 && (full || (fork == 1 && afterShapes[sh.name])) {
							add(note+" after 1KiB", fork, g, []Ins{{Op: byte(vm.MSTORE), Args: []string{u(0x3e0), "1"}}, {Op: byte(op), Args: lay}})
						}
					}
				}
			}
		}
	}
	// nested frames: CALL a contract that expands its own memory, with and without gas
	for fork := 0; fork < 2; fork++ {
		callee := hx(new(big.Int).SetBytes(kit.Addr(4).Bytes()))
		for _, g := range []uint64{0, 100, 5000, 100000} {
			add(fmt.Sprintf("nested call gas %d", g), fork, 200000, []Ins{
				{Op: byte(vm.MSTORE), Args: []string{u(0x7e0), "1"}},
				{Op: byte(vm.CALL), Args: []string{u(g), callee, zero, zero, u(64), u(0x800), u(64)}},
				{Op: byte(vm.STATICCALL), Args: []string{u(g), callee, zero, u(32), u(0x1000), u(32)}},
				{Op: byte(vm.MLOAD), Args: []string{u(0x2000)}},
			})
		}
	}
	return ps
}

// ---------- random programs ----------

func randSize(rng *hlib.Rng) *big.Int {
	switch rng.Pick(30, 25, 12, 6, 10) {
	case 0:
		return bi(uint64(rng.Intn(200)))
	case 1:
		return bi(uint64(rng.Intn(8192)))
	case 2:
		return bi(uint64(rng.Intn(1 << 20)))
	case 3:
		return bi(uint64(rng.Intn(4 << 20)))
	default:
		consts := []*big.Int{bi(0), bi(1), bi(31), bi(32), bi(33), bi(1024), bi(0xffffffff), bi(0x1FFFFFFFE0), bi(0x1FFFFFFFC1), pow2(63), sub1(pow2(64)), pow2(64), sub1(pow2(256)), new(big.Int).Sub(pow2(64), bi(32)), new(big.Int).Sub(pow2(64), bi(31))}
		return consts[rng.Intn(len(consts))]
	}
}

func genProg(r *runner, rng *hlib.Rng) Prog {
	var memops []int
	for op := 0; op < 256; op++ {
		if r.rows[op].Defined && r.rows[op].HasMemorySize {
			memops = append(memops, op)
		}
	}
	gases := []uint64{30, 2500, 21_000, 50_000, 300_000, 3_000_000, 30_000_000}
	for try := 0; ; try++ {
		p := Prog{ID: 4_000_000 + int(rng.Next()%1_000_000), Kind: "prog", Note: "random", Fork: rng.Intn(2), Gas: gases[rng.Intn(len(gases))]}
		n := 1 + rng.Intn(5)
		for i := 0; i < n; i++ {
			op := memops[rng.Intn(len(memops))]
			row := r.rows[op]
			ls := layouts(row, randSize(rng), randSize(rng))
			args := ls[rng.Intn(len(ls))]
			if rng.Chance(15) && (row.Name == "CALL" || row.Name == "STATICCALL" || row.Name == "DELEGATECALL" || row.Name == "CALLCODE") {
				// call the memory-expanding callee with some gas
				args = append([]string{}, args...)
				args[0] = u(uint64(rng.Intn(100000)))
				args[1] = hx(new(big.Int).SetBytes(kit.Addr(4).Bytes()))
			}
			if rng.Chance(3) && len(args) > 0 {
				args = args[:len(args)-1] // stack underflow
			}
			p.Code = append(p.Code, Ins{Op: byte(op), Args: args})
			if rng.Chance(20) {
				p.Code = append(p.Code, Ins{Op: byte(vm.MSIZE)})
			}
		}
		if r.admissible(&p) || try > 20 {
			return p
		}
	}
}

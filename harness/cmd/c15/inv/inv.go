// Package inv: inventory of the decode entry points DEFINED in the go-quai source tree
// (property C15 (A)).  A decode entry point is a method named ProtoDecode, UnmarshalJSON,
// UnmarshalText, DecodeRLP, UnmarshalBinary or Deserialize on a named type, in a
// non-test file that is not a verif hook and not generated protobuf code.  The scan is
// purely syntactic (go/parser) over the tree given by -repo / VERIF_REPO, so that a
// decoder ADDED to the source shows up without any edit of the framework.  Used by the
// generator harness/gen/c15decoders (-> coq/Generated/C15Decoders.v) and by the
// harness monitor `inventory:<decoder>:not-swept`.
package inv

import (
	"go/ast"
	"go/parser"
	"go/token"
	"io/fs"
	"os"
	"path/filepath"
	"sort"
	"strings"
)

// Methods are the method names that make a type a decoder of outside bytes.
var Methods = []string{"ProtoDecode", "UnmarshalJSON", "UnmarshalText", "DecodeRLP", "UnmarshalBinary", "Deserialize"}

func isMethod(n string) bool {
	for _, m := range Methods {
		if m == n {
			return true
		}
	}
	return false
}

// Scan returns the sorted list "<package dir>.<Type>.<Method>" of all decoders under root.
func Scan(root string) ([]string, error) {
	var out []string
	seen := map[string]bool{}
	fset := token.NewFileSet()
	err := filepath.WalkDir(root, func(path string, d fs.DirEntry, err error) error {
		if err != nil {
			return err
		}
		name := d.Name()
		if d.IsDir() {
			if path != root && (strings.HasPrefix(name, ".") || name == "vendor" || name == "testdata" || name == "build" || name == "node_modules") {
				return filepath.SkipDir
			}
			return nil
		}
		if !strings.HasSuffix(name, ".go") || strings.HasSuffix(name, "_test.go") || strings.HasPrefix(name, "verif_") || strings.HasSuffix(name, ".pb.go") {
			return nil
		}
		src, err := os.ReadFile(path)
		if err != nil {
			return err
		}
		// cheap pre-filter: most files define none of the methods
		hit := false
		for _, m := range Methods {
			if strings.Contains(string(src), ") "+m+"(") {
				hit = true
				break
			}
		}
		if !hit {
			return nil
		}
		f, err := parser.ParseFile(fset, path, src, parser.SkipObjectResolution)
		if err != nil {
			return nil // a file that does not parse does not build either; the build reports it
		}
		rel, _ := filepath.Rel(root, filepath.Dir(path))
		rel = filepath.ToSlash(rel)
		for _, decl := range f.Decls {
			fd, ok := decl.(*ast.FuncDecl)
			if !ok || fd.Recv == nil || len(fd.Recv.List) != 1 || !isMethod(fd.Name.Name) {
				continue
			}
			t := fd.Recv.List[0].Type
			if st, ok := t.(*ast.StarExpr); ok {
				t = st.X
			}
			if ix, ok := t.(*ast.IndexExpr); ok { // generic receiver
				t = ix.X
			}
			id, ok := t.(*ast.Ident)
			if !ok {
				continue
			}
			key := rel + "." + id.Name + "." + fd.Name.Name
			if !seen[key] {
				seen[key] = true
				out = append(out, key)
			}
		}
		return nil
	})
	sort.Strings(out)
	return out, err
}

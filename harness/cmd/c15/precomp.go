package main

// Precompile resource sweep (round 3 of the blind changes, C15_5): "executing any transaction
// consumes memory bounded by the gas it pays for" for the native contracts.  A precompile
// prices its work from LENGTH FIELDS it reads out of the caller's input; the buffers it then
// allocates must be bounded by what was charged (or by the bytes really supplied), never by
// a declared length alone.  Every address 0x01..0x20 of the node's location (defined
// precompiles, the lockup contract, undefined ones) is called through the production
// EVM.Call / EVM.StaticCall with inputs whose 32-byte header words run over a ladder of
// boundary lengths (the operands themselves not supplied, or supplied short), under recover
// with an allocation meter.
//
// Monitors (model independent):
//   precompile:<nn>:panic:<top go-quai function>   a panic escapes EVM.Call
//   precompile:<nn>:alloc-unpaid                   allocated > 4 MiB + 64*gasUsed + 64*len(input)
//   precompile:<nn>:gas-increased                  more gas handed back than given
//
// Lengths between 2^27 and 2^48 would be REAL allocation attempts on a tree that trusts them:
// they are never generated; after the first alloc-unpaid of an address the MiB-sized rungs are
// skipped for it, so a broken tree costs the harness one 32..128 MiB allocation per address.

import (
	"encoding/hex"
	"fmt"
	"math/big"
	"runtime"
	"runtime/debug"
	"runtime/metrics"

	"github.com/dominant-strategies/go-quai/common"
	"github.com/dominant-strategies/go-quai/core/vm"

	"verifharness/cmd/c15/kit"
	"verifharness/hlib"
)

type PreCase struct {
	ID     int    `json:"id"`
	Kind   string `json:"kind"` // "pre"
	Addr   int    `json:"addr"` // last byte of the precompile address
	Input  string `json:"input"`
	Gas    uint64 `json:"gas"`
	Static bool   `json:"static"`
	Note   string `json:"note"`
}

var preAllocSample = []metrics.Sample{{Name: "/gc/heap/allocs:bytes"}}

func preHeapAllocs() uint64 {
	metrics.Read(preAllocSample)
	return preAllocSample[0].Value.Uint64()
}

const (
	preGas    = 10_000_000
	preAllocK = 4 << 20
	preAllocC = 64
)

// ladder of declared lengths, ascending; big = MiB-sized rungs that a tree trusting them really allocates
var preLadder = []struct {
	v   *big.Int
	big bool
}{
	{bi(0), false}, {bi(1), false}, {bi(31), false}, {bi(32), false}, {bi(33), false}, {bi(64), false}, {bi(96), false}, {bi(97), false},
	{bi(128), false}, {bi(192), false}, {bi(213), false}, {pow2(16), false}, {pow2(20), true}, {pow2(24), true}, {pow2(26), true},
	{pow2(56), false}, {pow2(62), false}, {new(big.Int).Sub(pow2(63), bi(1)), false}, {pow2(63), false}, {new(big.Int).Sub(pow2(64), bi(1)), false},
	{pow2(64), false}, {pow2(255), false}, {new(big.Int).Sub(pow2(256), bi(1)), false},
}

func word32(v *big.Int) []byte {
	out := make([]byte, 32)
	b := v.Bytes()
	if len(b) > 32 {
		b = b[len(b)-32:]
	}
	copy(out[32-len(b):], b)
	return out
}

func preAddr(n int) common.Address {
	raw := make([]byte, 20)
	raw[0] = kit.Loc.BytePrefix()
	raw[19] = byte(n)
	return common.BytesToAddress(raw, kit.Loc)
}

func (r *runner) runPre(env *kit.Env, c *PreCase, capped map[int]bool) {
	in, err := hex.DecodeString(c.Input)
	if err != nil {
		return
	}
	addr := preAddr(c.Addr)
	var (
		panicked any
		stack    string
		left     uint64
		alloc    uint64
	)
	func() {
		a0 := preHeapAllocs()
		defer func() {
			alloc = preHeapAllocs() - a0
			if p := recover(); p != nil {
				panicked = p
				stack = string(debug.Stack())
			}
		}()
		if c.Static {
			_, left, _ = env.EVM.StaticCall(vm.AccountRef(env.Origin), addr, in, c.Gas)
		} else {
			_, left, _, _ = env.EVM.Call(vm.AccountRef(env.Origin), addr, in, c.Gas, big.NewInt(0))
		}
	}()
	r.rep.Evaluations++
	r.rep.Count(fmt.Sprintf("precompile:%02x", c.Addr))
	nn := fmt.Sprintf("%02x", c.Addr)
	if panicked != nil {
		r.rep.Count("precompile-outcome:panic")
		r.fail("precompile:"+nn+":panic:"+panicSite(stack), fmt.Sprintf("EVM call to precompile 0x..%s panicked (%v) on a %d-byte input (%s)", nn, panicked, len(in), c.Note), c)
		return
	}
	if left > c.Gas {
		r.fail("precompile:"+nn+":gas-increased", fmt.Sprintf("precompile 0x..%s handed back %d gas of %d given (%s)", nn, left, c.Gas, c.Note), c)
		return
	}
	used := c.Gas - left
	if used < c.Gas {
		r.rep.Count("precompile-outcome:ran")
		r.rep.Nontrivial(fmt.Sprintf("pre/%s/%v/%d", nn, c.Static, used))
	} else {
		r.rep.Count("precompile-outcome:all-gas")
	}
	if bound := uint64(preAllocK) + preAllocC*used + preAllocC*uint64(len(in)); alloc > bound {
		capped[c.Addr] = true
		r.fail("precompile:"+nn+":alloc-unpaid", fmt.Sprintf("a call to precompile 0x..%s that used %d gas on a %d-byte input made the node allocate %d bytes (bound %d) (%s)", nn, used, len(in), alloc, bound, c.Note), c)
		runtime.GC()
	}
}

// precompiles runs the fixed corpus and n random cases.
func (r *runner) precompiles(rng *hlib.Rng, n int, thorough bool) {
	env := kit.NewEnv(r.logger, kit.ForkBlock(1), nil)
	capped := map[int]bool{}
	id := 8_000_000
	maxAddr := 0x10
	if thorough {
		maxAddr = 0x20
	}
	run := func(addr int, in []byte, static bool, hasBig bool, note string) {
		if hasBig && capped[addr] {
			return
		}
		c := &PreCase{ID: id, Kind: "pre", Addr: addr, Input: hex.EncodeToString(in), Gas: preGas, Static: static, Note: note}
		id++
		r.runPre(env, c, capped)
	}
	// plain payloads: empty, one byte, exact record sizes of the defined precompiles
	for addr := 1; addr <= maxAddr; addr++ {
		for _, ln := range []int{0, 1, 20, 31, 32, 33, 40, 64, 96, 127, 128, 129, 192, 193, 212, 213, 214, 384, 1000} {
			for _, fill := range []byte{0x00, 0x01, 0xff} {
				in := make([]byte, ln)
				for i := range in {
					in[i] = fill
				}
				run(addr, in, false, false, fmt.Sprintf("payload %d x %#x", ln, fill))
			}
		}
	}
	// header words over the ladder: 1, 2 and 3 words (all combinations), operands absent / 1 byte / 64 bytes
	tails := [][]byte{nil, {1}, make([]byte, 64)}
	// (three words: the sub-ladder sub3 in the quick tier, and only at addresses that answer)
	sub3 := []int{0, 1, 3, 4, 6, 11, 13, 14, 15, 16, 18, 19, 20, 22}
	for addr := 1; addr <= maxAddr; addr++ {
		_, defined := vm.PrecompiledContracts[preAddr(addr).Bytes20()]
		defined = defined || addr == 0x0a
		for k := 1; k <= 3; k++ {
			if k == 3 && !defined && !thorough {
				continue
			}
			lad := make([]int, len(preLadder))
			for i := range lad {
				lad[i] = i
			}
			if k == 3 && !thorough {
				lad = sub3
			}
			idx := make([]int, k)
			for {
				var in []byte
				hasBig := false
				note := "header"
				for _, jj := range idx {
					j := lad[jj]
					in = append(in, word32(preLadder[j].v)...)
					hasBig = hasBig || preLadder[j].big
					note += " " + preLadder[j].v.Text(16)
				}
				for ti, tl := range tails {
					if ti > 0 && !thorough && k == 3 && (idx[0]+idx[1]+idx[2])%3 != 0 {
						continue
					}
					run(addr, append(append([]byte{}, in...), tl...), ti == 1, hasBig, fmt.Sprintf("%s +%d", note, len(tl)))
				}
				// next combination (ascending, last word fastest)
				p := k - 1
				for p >= 0 {
					idx[p]++
					if idx[p] < len(lad) {
						break
					}
					idx[p] = 0
					p--
				}
				if p < 0 {
					break
				}
			}
		}
	}
	// random: 1..6 header words from the ladder +- 2, random tail
	for i := 0; i < n; i++ {
		addr := 1 + rng.Intn(maxAddr)
		k := 1 + rng.Intn(6)
		var in []byte
		hasBig := false
		for j := 0; j < k; j++ {
			l := preLadder[rng.Intn(len(preLadder))]
			v := new(big.Int).Add(l.v, bi(uint64(rng.Intn(5))))
			v.Sub(v, bi(2))
			if v.Sign() < 0 {
				v.SetUint64(0)
			}
			hasBig = hasBig || l.big
			in = append(in, word32(v)...)
		}
		in = append(in, rng.Bytes(rng.Intn(300))...)
		run(addr, in, rng.Bool(), hasBig, "random header")
	}
	r.rep.Distribution["precompile:cases"] = id - 8_000_000
}

package main

import (
	"bytes"
	"encoding/hex"
	"fmt"
	"runtime/debug"

	"github.com/dominant-strategies/go-quai/core/types"

	"verifharness/hlib"
)

// (A) tie of Lib/C15_Wire.v to core/types/auxpow_coinbase_utils.go: the real
// ExtractScriptSigFromCoinbaseTx / ExtractSealHashFromCoinbase on coinbase transactions with
// every framing region truncated, every CompactSize form, inflated and zero lengths, bad push
// opcodes, wrong magic; observed results are compared with the model inside Coq.

type WireCase struct {
	ID   int    `json:"id"`
	Kind string `json:"kind"` // "wire"
	Note string `json:"note"`
	Tx   string `json:"tx"`
}

func le(v uint64, n int) []byte {
	b := make([]byte, n)
	for i := 0; i < n; i++ {
		b[i] = byte(v >> (8 * uint(i)))
	}
	return b
}

// compactSize in a chosen form (1, 3, 5 or 9 bytes)
func compactSize(v uint64, form int) []byte {
	switch form {
	case 3:
		return append([]byte{0xfd}, le(v, 2)...)
	case 5:
		return append([]byte{0xfe}, le(v, 4)...)
	case 9:
		return append([]byte{0xff}, le(v, 8)...)
	}
	return []byte{byte(v)}
}

func scriptSigOf(height []byte, payload []byte, tail []byte) []byte {
	s := append([]byte{byte(len(height))}, height...)
	s = append(s, byte(len(payload)))
	s = append(s, payload...)
	return append(s, tail...)
}

func commitment(magic []byte, n int) []byte {
	p := append([]byte{}, magic...)
	for i := 0; len(p) < n; i++ {
		p = append(p, byte(0x10+i))
	}
	return p
}

func coinbaseTx(inCount []byte, scriptLen []byte, script []byte, tail []byte) []byte {
	tx := []byte{2, 0, 0, 0}
	tx = append(tx, inCount...)
	tx = append(tx, make([]byte, 32)...)
	tx = append(tx, 0xff, 0xff, 0xff, 0xff)
	tx = append(tx, scriptLen...)
	tx = append(tx, script...)
	return append(tx, tail...)
}

func wireCorpus(rng *hlib.Rng) []WireCase {
	var cs []WireCase
	add := func(note string, tx []byte) {
		cs = append(cs, WireCase{Kind: "wire", Note: note, Tx: hex.EncodeToString(tx)})
	}
	magic := []byte{0xfa, 0xbe, 0x6d, 0x6d}
	good := scriptSigOf([]byte{0x40, 0x0d, 0x03}, commitment(magic, 44), []byte{4, 1, 2, 3, 4})
	seq := []byte{0xff, 0xff, 0xff, 0xff, 0}
	base := coinbaseTx([]byte{1}, []byte{byte(len(good))}, good, seq)
	add("well-formed", base)
	// the coinbase the node itself builds, for two donor chains (longer: only two of them)
	add("NewAuxPowCoinbaseTx kawpow", types.NewAuxPowCoinbaseTx(types.Kawpow, 800000, []byte{0x76, 0xa9, 0x14, 1, 2, 3, 0x88, 0xac}, [32]byte{9}, 1699999999))
	add("NewAuxPowCoinbaseTx scrypt", types.NewAuxPowCoinbaseTx(types.Scrypt, 800000, []byte{0x76, 0xa9, 0x14, 1, 2, 3, 0x88, 0xac}, [32]byte{9}, 1699999999))
	// truncation inside every region: version | count | prevout | length | script
	for _, n := range []int{0, 1, 3, 4, 5, 6, 20, 40, 41, 42, 43, 44, 46, 47, 48, 60, 89, 90, 91, 92, len(base) - 1} {
		if n < len(base) {
			add(fmt.Sprintf("truncate to %d", n), base[:n])
		}
	}
	// every CompactSize form for the input count and for the script length; consistent and inconsistent values
	for _, form := range []int{1, 3, 5, 9} {
		add(fmt.Sprintf("count form %d", form), coinbaseTx(compactSize(1, form), []byte{byte(len(good))}, good, seq))
		add(fmt.Sprintf("length form %d exact", form), coinbaseTx([]byte{1}, compactSize(uint64(len(good)), form), good, nil))
		add(fmt.Sprintf("length form %d one more than remains", form), coinbaseTx([]byte{1}, compactSize(uint64(len(good)+1), form), good, nil))
		add(fmt.Sprintf("length form %d short read", form), coinbaseTx([]byte{1}, compactSize(uint64(len(good)), form)[:form/2+1], nil, nil))
	}
	add("length 2^16-1", coinbaseTx([]byte{1}, compactSize(0xffff, 3), good, seq))
	add("length 2^32-1", coinbaseTx([]byte{1}, compactSize(0xffffffff, 5), good, seq))
	add("length 2^63", coinbaseTx([]byte{1}, compactSize(1<<63, 9), good, seq))
	add("length 2^64-1", coinbaseTx([]byte{1}, compactSize(^uint64(0), 9), good, seq))
	add("length 0", coinbaseTx([]byte{1}, []byte{0}, nil, seq))
	add("length 0 nothing follows", coinbaseTx([]byte{1}, []byte{0}, nil, nil))
	add("length 1", coinbaseTx([]byte{1}, []byte{1}, []byte{0}, seq))
	// script level: pushes
	script := func(note string, s []byte) { add(note, coinbaseTx([]byte{1}, compactSize(uint64(len(s)), 1), s, seq)) }
	script("height push of 6 bytes", scriptSigOf([]byte{1, 2, 3, 4, 5, 6}, commitment(magic, 44), nil))
	script("height push of 5 bytes", scriptSigOf([]byte{1, 2, 3, 4, 5}, commitment(magic, 44), nil))
	script("empty height push", scriptSigOf(nil, commitment(magic, 44), nil))
	script("commitment 43 bytes", scriptSigOf([]byte{1}, commitment(magic, 43), nil))
	script("commitment 45 bytes", scriptSigOf([]byte{1}, commitment(magic, 45), nil))
	script("wrong magic", scriptSigOf([]byte{1}, commitment([]byte{0xfa, 0xbe, 0x6d, 0x6c}, 44), nil))
	script("opcode 76 (PUSHDATA1)", append([]byte{76, 3, 1, 2, 3}, commitment(magic, 44)...))
	script("opcode 75 beyond bounds", []byte{75, 1, 2, 3})
	script("second push beyond bounds", append([]byte{1, 9, 44}, commitment(magic, 20)...))
	script("only the height push", []byte{2, 7, 7})
	script("single zero byte", []byte{0})
	// random damage of the well-formed one
	for i := 0; i < 24; i++ {
		b := append([]byte{}, base...)
		switch rng.Intn(3) {
		case 0:
			b[rng.Intn(len(b))] ^= 1 << uint(rng.Intn(8))
		case 1:
			b[rng.Intn(len(b))] = []byte{0, 0xfd, 0xfe, 0xff, 75, 76}[rng.Intn(6)]
		default:
			b = b[:rng.Intn(len(b))]
		}
		add("random damage", b)
	}
	return cs
}

// independent reference of the transaction framing (Bitcoin serialisation): version(4) | CompactSize count |
// prev_txid(32) prev_vout(4) | CompactSize scriptLen | script.  ok=false: malformed (the Go function returns nil).
func refCompactSize(b []byte) (v uint64, rest []byte, ok bool) {
	if len(b) == 0 {
		return 0, nil, false
	}
	n := map[byte]int{0xfd: 2, 0xfe: 4, 0xff: 8}[b[0]]
	if n == 0 {
		return uint64(b[0]), b[1:], true
	}
	if len(b) < 1+n {
		return 0, nil, false
	}
	for i := n; i >= 1; i-- {
		v = v<<8 | uint64(b[i])
	}
	return v, b[1+n:], true
}

func refScriptSig(tx []byte) ([]byte, bool) {
	if len(tx) < 4 {
		return nil, false
	}
	_, rest, ok := refCompactSize(tx[4:])
	if !ok || len(rest) < 36 {
		return nil, false
	}
	n, rest, ok := refCompactSize(rest[36:])
	if !ok || n > uint64(len(rest)) {
		return nil, false
	}
	return rest[:n], true
}

func (r *runner) runWire(c *WireCase) {
	tx, err := hex.DecodeString(c.Tx)
	if err != nil {
		return
	}
	var sig, seal []byte
	var sealErr error
	var panicked any
	var stack string
	func() {
		defer func() {
			if x := recover(); x != nil {
				panicked = x
				stack = string(debug.Stack())
			}
		}()
		sig = types.ExtractScriptSigFromCoinbaseTx(tx)
		var hsh [32]byte
		hsh, sealErr = types.ExtractSealHashFromCoinbase(sig)
		seal = hsh[:]
	}()
	r.rep.Evaluations++
	r.rep.Count("wire:" + map[bool]string{true: "scriptSig", false: "nil"}[sig != nil])
	if panicked != nil {
		r.fail("donor.coinbase:panic:"+panicSite(stack), fmt.Sprintf("coinbase parser panics (%v) on %s", panicked, c.Note), c)
		return
	}
	// model-independent: the scriptSig is a piece of the input, never longer than it
	if sig != nil && (len(sig) > len(tx) || !bytes.Contains(tx, sig)) {
		r.fail("donor.coinbase:scriptSig-not-within-input", fmt.Sprintf("%d-byte scriptSig from a %d-byte transaction (%s)", len(sig), len(tx), c.Note), c)
	}
	if want, ok := refScriptSig(tx); ok != (sig != nil) || (ok && !bytes.Equal(want, sig)) {
		r.fail("donor.coinbase:scriptSig-differs-from-reference",
			fmt.Sprintf("ExtractScriptSigFromCoinbaseTx returns %x (nil=%v), the transaction framing says %x (well-formed=%v) (%s)", sig, sig == nil, want, ok, c.Note), c)
	}
	if sealErr == nil && !bytes.Contains(tx, seal) {
		r.fail("donor.coinbase:seal-hash-not-within-input", c.Note, c)
	}
	c.ID = r.nextID
	r.nextID++
	so, se := "None", "None"
	if sig != nil {
		so = hlib.CoqSome(hlib.CoqBytes(sig))
	}
	if sealErr == nil {
		se = hlib.CoqSome(hlib.CoqBytes(seal))
		r.rep.Nontrivial("wire/seal/" + c.Note)
	}
	if sig != nil && len(sig) > 0 {
		r.rep.Nontrivial("wire/sig/" + c.Note)
	}
	r.cw.Add(fmt.Sprintf("mkWire %d %s %s %s", c.ID, hlib.CoqBytes(tx), so, se), *c)
}

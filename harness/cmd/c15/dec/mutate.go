package dec

import (
	"encoding/json"
	"fmt"
	"sort"
	"strings"

	"github.com/dominant-strategies/go-quai/rlp"

	"google.golang.org/protobuf/proto"
	"google.golang.org/protobuf/reflect/protoreflect"

	"verifharness/hlib"
)

// ---------- structured mutations at the protobuf message level ----------

// A site is one field of one (sub)message of a message tree, in deterministic walk order.
type site struct {
	msg  protoreflect.Message
	fd   protoreflect.FieldDescriptor
	path string
}

func sites(root proto.Message) []site {
	var out []site
	var walk func(m protoreflect.Message, path string, depth int)
	walk = func(m protoreflect.Message, path string, depth int) {
		if depth > 12 {
			return
		}
		fds := m.Descriptor().Fields()
		for i := 0; i < fds.Len(); i++ {
			fd := fds.Get(i)
			p := path + "." + string(fd.Name())
			out = append(out, site{m, fd, p})
			if !m.Has(fd) {
				continue
			}
			switch {
			case fd.IsList() && fd.Kind() == protoreflect.MessageKind:
				l := m.Get(fd).List()
				for j := 0; j < l.Len() && j < 3; j++ {
					walk(l.Get(j).Message(), fmt.Sprintf("%s[%d]", p, j), depth+1)
				}
			case fd.IsMap():
			case fd.Kind() == protoreflect.MessageKind:
				walk(m.Get(fd).Message(), p, depth+1)
			}
		}
	}
	m := root.ProtoReflect()
	walk(m, string(m.Descriptor().Name()), 0)
	return out
}

var byteLens = []int{0, 1, 19, 21, 31, 33, 65, 1000}

// mutationsFor lists the mutation kinds applicable to a field.
func mutationsFor(fd protoreflect.FieldDescriptor) []string {
	ms := []string{"clear"}
	switch {
	case fd.IsMap():
	case fd.IsList():
		ms = append(ms, "list-empty-elem", "list-dup-1000", "list-one")
		if fd.Kind() == protoreflect.BytesKind {
			for _, n := range []int{0, 1, 31, 33} {
				ms = append(ms, fmt.Sprintf("list-elem-len-%d", n))
			}
		}
	case fd.Kind() == protoreflect.MessageKind:
		ms = append(ms, "empty-msg")
	case fd.Kind() == protoreflect.BytesKind:
		for _, n := range byteLens {
			ms = append(ms, fmt.Sprintf("len-%d", n))
		}
		// a bytes field may carry a big-endian integer (difficulties, targets, numbers, amounts, entropies):
		// the values {zero, one, max}; "absent" is clear, "empty bytes" is len-0
		ms = append(ms, bigKinds[:3]...)
		if allKinds {
			ms = append(ms, bigKinds[3:]...)
		}
	case fd.Kind() == protoreflect.StringKind:
		ms = append(ms, "str-empty", "str-long")
	case fd.Kind() == protoreflect.BoolKind:
		ms = append(ms, "flip")
	default: // numeric / enum
		ms = append(ms, "num-0", "num-1", "num-2", "num-3", "num-max32", "num-max64", "num-max31", "num-max63")
	}
	return ms
}

// integer values for bytes fields: present-but-zero (one 0x00 byte: what PowShareDiffAndCount.ProtoEncode
// writes for 0), one, 2^64-1, 2^64, 2^256-1, 2^256
// (the first three in every tier, the others in the thorough tier and in the random part)
var bigKinds = []string{"big-zero", "big-one", "big-max256", "big-max64", "big-2e64", "big-2e256"}

// allKinds: mutationsFor lists every kind (thorough tier; random part of the quick tier)
var allKinds = false

func bigValue(kind string) ([]byte, bool) {
	switch kind {
	case "big-zero":
		return []byte{0}, true
	case "big-one":
		return []byte{1}, true
	case "big-max64":
		return fill(8, 0xff), true
	case "big-2e64":
		return append([]byte{1}, make([]byte, 8)...), true
	case "big-max256":
		return fill(32, 0xff), true
	case "big-2e256":
		return append([]byte{1}, make([]byte, 32)...), true
	}
	return nil, false
}

func numValue(fd protoreflect.FieldDescriptor, v uint64) protoreflect.Value {
	switch fd.Kind() {
	case protoreflect.Int32Kind, protoreflect.Sint32Kind, protoreflect.Sfixed32Kind:
		return protoreflect.ValueOfInt32(int32(v))
	case protoreflect.Uint32Kind, protoreflect.Fixed32Kind:
		return protoreflect.ValueOfUint32(uint32(v))
	case protoreflect.Int64Kind, protoreflect.Sint64Kind, protoreflect.Sfixed64Kind:
		return protoreflect.ValueOfInt64(int64(v))
	case protoreflect.Uint64Kind, protoreflect.Fixed64Kind:
		return protoreflect.ValueOfUint64(v)
	case protoreflect.EnumKind:
		return protoreflect.ValueOfEnum(protoreflect.EnumNumber(int32(v)))
	case protoreflect.FloatKind:
		return protoreflect.ValueOfFloat32(float32(v))
	case protoreflect.DoubleKind:
		return protoreflect.ValueOfFloat64(float64(v))
	}
	return protoreflect.Value{}
}

func fill(n int, b byte) []byte {
	x := make([]byte, n)
	for i := range x {
		x[i] = b
	}
	return x
}

// applyMutation mutates field fd of m in place; returns false when not applicable.
func applyMutation(m protoreflect.Message, fd protoreflect.FieldDescriptor, kind string) bool {
	var n int
	switch {
	case kind == "clear":
		if !m.Has(fd) {
			return false
		}
		m.Clear(fd)
	case kind == "empty-msg":
		m.Set(fd, protoreflect.ValueOfMessage(m.NewField(fd).Message()))
	case kind == "list-empty-elem":
		l := m.Mutable(fd).List()
		l.Append(l.NewElement())
	case kind == "list-one":
		l := m.Mutable(fd).List()
		if l.Len() < 2 {
			return false
		}
		l.Truncate(1)
	case kind == "list-dup-1000":
		l := m.Mutable(fd).List()
		if l.Len() == 0 {
			l.Append(l.NewElement())
		}
		first := l.Get(0)
		sz := 8
		if fd.Kind() == protoreflect.MessageKind {
			sz = proto.Size(first.Message().Interface()) + 4
		} else if fd.Kind() == protoreflect.BytesKind {
			sz = len(first.Bytes()) + 4
		}
		cnt := 1000
		if sz*cnt > 600_000 {
			cnt = 600_000 / sz
		}
		for i := 0; i < cnt; i++ {
			l.Append(first)
		}
	case scan(kind, "list-elem-len-%d", &n):
		l := m.Mutable(fd).List()
		if l.Len() == 0 {
			l.Append(protoreflect.ValueOfBytes(fill(n, 0xAB)))
		} else {
			l.Set(0, protoreflect.ValueOfBytes(fill(n, 0xAB)))
		}
	case scan(kind, "len-%d", &n):
		m.Set(fd, protoreflect.ValueOfBytes(fill(n, 0xAB)))
	case strings.HasPrefix(kind, "big-"):
		v, ok := bigValue(kind)
		if !ok {
			return false
		}
		m.Set(fd, protoreflect.ValueOfBytes(v))
	case kind == "num-max31":
		m.Set(fd, numValue(fd, 0x7FFFFFFF))
	case kind == "num-max63":
		m.Set(fd, numValue(fd, 0x7FFFFFFFFFFFFFFF))
	case kind == "str-empty":
		m.Set(fd, protoreflect.ValueOfString(""))
	case kind == "str-long":
		m.Set(fd, protoreflect.ValueOfString(string(fill(1000, 'a'))))
	case kind == "flip":
		m.Set(fd, protoreflect.ValueOfBool(!m.Get(fd).Bool()))
	case kind == "num-max32":
		m.Set(fd, numValue(fd, 0xFFFFFFFF))
	case kind == "num-max64":
		m.Set(fd, numValue(fd, 0xFFFFFFFFFFFFFFFF))
	case scan(kind, "num-%d", &n):
		m.Set(fd, numValue(fd, uint64(n)))
	default:
		return false
	}
	return true
}

func scan(s, format string, n *int) bool {
	k, err := fmt.Sscanf(s, format, n)
	return err == nil && k == 1
}

// mutateAt clones root, applies mutation kind at the idx-th site and marshals. ok=false if not applicable.
func mutateAt(root proto.Message, idx int, kind string) (out []byte, path string, ok bool) {
	out, _, path, ok = mutateAtMsg(root, idx, kind)
	return
}

// mutateAtMsg is mutateAt that also hands back the mutated message (for a re-commit, see reseal.go).
func mutateAtMsg(root proto.Message, idx int, kind string) (out []byte, msg proto.Message, path string, ok bool) {
	c := proto.Clone(root)
	ss := sites(c)
	if idx >= len(ss) {
		return nil, nil, "", false
	}
	s := ss[idx]
	defer func() {
		if r := recover(); r != nil {
			ok = false
		}
	}()
	if !applyMutation(s.msg, s.fd, kind) {
		return nil, nil, s.path, false
	}
	b, err := proto.MarshalOptions{AllowPartial: true}.Marshal(c)
	if err != nil || len(b) > 1<<20 {
		return nil, nil, s.path, false
	}
	return b, c, s.path, true
}

// ---------- byte-level mutations ----------

func byteMutate(rng *hlib.Rng, valid []byte) ([]byte, string) {
	b := append([]byte{}, valid...)
	switch rng.Pick(25, 20, 20, 10, 10, 15) {
	case 0: // bit flips
		if len(b) == 0 {
			return b, "flip-empty"
		}
		k := 1 + rng.Intn(3)
		for i := 0; i < k; i++ {
			p := rng.Intn(len(b))
			b[p] ^= 1 << uint(rng.Intn(8))
		}
		return b, "bitflip"
	case 1: // truncation
		if len(b) == 0 {
			return b, "trunc-empty"
		}
		return b[:rng.Intn(len(b))], "truncate"
	case 2: // byte substitution with boundary values
		if len(b) == 0 {
			return b, "subst-empty"
		}
		vals := []byte{0x00, 0x01, 0x7f, 0x80, 0xff, 0x0a, 0x12, 0x1a}
		k := 1 + rng.Intn(4)
		for i := 0; i < k; i++ {
			b[rng.Intn(len(b))] = vals[rng.Intn(len(vals))]
		}
		return b, "subst"
	case 3: // extension
		return append(b, rng.Bytes(1+rng.Intn(40))...), "extend"
	case 4: // length-prefix inflation: replace a byte by a 5- or 10-byte varint of a huge value
		if len(b) < 2 {
			return b, "inflate-short"
		}
		p := 1 + rng.Intn(len(b)-1)
		big := []byte{0xff, 0xff, 0xff, 0xff, 0x0f}
		if rng.Bool() {
			big = []byte{0xff, 0xff, 0xff, 0xff, 0xff, 0xff, 0xff, 0xff, 0x7f}
		}
		nb := append(append(append([]byte{}, b[:p]...), big...), b[p+1:]...)
		return nb, "inflate-length"
	default: // splice two halves of the same message
		if len(b) < 4 {
			return b, "splice-short"
		}
		p, q := rng.Intn(len(b)), rng.Intn(len(b))
		return append(append([]byte{}, b[:p]...), b[q:]...), "splice"
	}
}

// ---------- structured mutations of JSON documents and RLP trees ----------

type variant struct {
	desc string
	b    []byte
}

// jsonVariants: for every key at every depth of the document: delete it, set it to null, and replace
// its value by a value of another JSON type (type confusion) or an over-long string.
func jsonVariants(seed []byte) []variant {
	var root any
	if json.Unmarshal(seed, &root) != nil {
		return nil
	}
	var out []variant
	emit := func(desc string) {
		if b, err := json.Marshal(root); err == nil {
			out = append(out, variant{desc, b})
		}
	}
	repl := []struct {
		name string
		v    any
	}{{"null", nil}, {"num", 1.0}, {"str", "0x"}, {"badhex", "0xzz"}, {"oddhex", "0x123"}, {"empty-str", ""}, {"long-hex", "0x" + strings.Repeat("ab", 600)},
		{"arr", []any{}}, {"arr-null", []any{nil}}, {"obj", map[string]any{}}, {"bool", true}, {"neg", -1.0}, {"huge", 1e300}}
	var walk func(node any, path string, depth int)
	walk = func(node any, path string, depth int) {
		if depth > 8 {
			return
		}
		switch n := node.(type) {
		case map[string]any:
			keys := make([]string, 0, len(n))
			for k := range n {
				keys = append(keys, k)
			}
			sort.Strings(keys)
			for _, k := range keys {
				old := n[k]
				delete(n, k)
				emit("json-delete " + path + "." + k)
				for _, r := range repl {
					n[k] = r.v
					emit("json-" + r.name + " " + path + "." + k)
				}
				n[k] = old
				walk(old, path+"."+k, depth+1)
			}
		case []any:
			for i := 0; i < len(n) && i < 3; i++ {
				old := n[i]
				for _, r := range repl {
					n[i] = r.v
					emit(fmt.Sprintf("json-%s %s[%d]", r.name, path, i))
				}
				n[i] = old
				walk(old, fmt.Sprintf("%s[%d]", path, i), depth+1)
			}
		}
	}
	walk(root, "$", 0)
	return out
}

// rlpVariants: for every node of the RLP tree: drop it, replace it by an empty string / empty list /
// strings of boundary lengths / a nested list, duplicate it.
func rlpVariants(seed []byte, prefix int) []variant {
	if prefix > len(seed) {
		return nil
	}
	var root any
	if rlp.DecodeBytes(seed[prefix:], &root) != nil {
		return nil
	}
	var out []variant
	emitRoot := func(desc string, r any) {
		if b, err := rlp.EncodeToBytes(r); err == nil && len(b) < 1<<20 {
			out = append(out, variant{desc, append(append([]byte{}, seed[:prefix]...), b...)})
		}
	}
	repl := []struct {
		name string
		v    any
	}{{"empty-str", []byte{}}, {"empty-list", []any{}}, {"len1", []byte{1}}, {"len19", fill(19, 0xab)}, {"len20", fill(20, 0xab)}, {"len21", fill(21, 0xab)},
		{"len31", fill(31, 0xab)}, {"len32", fill(32, 0xab)}, {"len33", fill(33, 0xab)}, {"len64", fill(64, 0xab)}, {"len65", fill(65, 0xab)}, {"len1000", fill(1000, 0xab)},
		{"nested", []any{[]any{[]byte{1}}}}}
	var walk func(list []any, set func([]any), path string, depth int)
	walk = func(list []any, set func([]any), path string, depth int) {
		if depth > 8 {
			return
		}
		for i := 0; i < len(list) && i < 24; i++ {
			p := fmt.Sprintf("%s[%d]", path, i)
			// drop
			dropped := append(append([]any{}, list[:i]...), list[i+1:]...)
			set(dropped)
			emitRoot("rlp-drop "+p, root)
			// duplicate
			dup := append(append(append([]any{}, list[:i+1]...), list[i]), list[i+1:]...)
			set(dup)
			emitRoot("rlp-dup "+p, root)
			for _, r := range repl {
				c := append([]any{}, list...)
				c[i] = r.v
				set(c)
				emitRoot("rlp-"+r.name+" "+p, root)
			}
			set(list)
			if sub, ok := list[i].([]any); ok {
				i := i
				walk(sub, func(ns []any) {
					c := append([]any{}, list...)
					c[i] = ns
					set(c)
				}, p, depth+1)
				set(list)
			}
		}
	}
	if l, ok := root.([]any); ok {
		walk(l, func(ns []any) { root = ns }, "$", 0)
		root = l
	}
	for _, r := range repl {
		emitRoot("rlp-"+r.name+" $", r.v)
	}
	return out
}

package dec

import (
	"fmt"
	"regexp"
	"runtime/debug"
	"runtime/metrics"
	"strings"
	"time"
)

// outcome of one guarded call of an entry point
type outcome struct {
	deep     bool
	err      error
	panicked bool
	fatal    bool   // the code under test called logger.Fatal (os.Exit in production)
	site     string // panic site: top go-quai function
	val      string
	stack    string
	alloc    uint64
	timeout  bool
	dur      time.Duration
}

type fatalExit struct{ code int }

const modulePrefix = "github.com/dominant-strategies/go-quai/"

// topRepoFrame extracts, from debug.Stack() taken inside the deferred recover, the first
// function of the go-quai module below the panic (no file names, no line numbers).
func topRepoFrame(stack string) string {
	lines := strings.Split(stack, "\n")
	seenPanic := false
	for _, l := range lines {
		if strings.HasPrefix(l, "panic(") {
			seenPanic = true
			continue
		}
		if !seenPanic || strings.HasPrefix(l, "\t") {
			continue
		}
		if i := strings.Index(l, modulePrefix); i == 0 {
			f := l[len(modulePrefix):]
			if j := strings.LastIndex(f, "("); j > 0 {
				f = f[:j]
			}
			return cleanFrame(f)
		}
	}
	return "unknown"
}

var allocSample = []metrics.Sample{{Name: "/gc/heap/allocs:bytes"}}

func heapAllocs() uint64 {
	metrics.Read(allocSample)
	if allocSample[0].Value.Kind() == metrics.KindUint64 {
		return allocSample[0].Value.Uint64()
	}
	return 0
}

const callTimeout = 20 * time.Second

// guarded runs fn(in) under recover, with an allocation meter and a watchdog.
func guarded(fn func([]byte) (bool, error), in []byte) outcome {
	done := make(chan outcome, 1)
	go func() {
		var o outcome
		t0 := time.Now()
		a0 := heapAllocs()
		defer func() {
			o.alloc = heapAllocs() - a0
			o.dur = time.Since(t0)
			if r := recover(); r != nil {
				if fe, ok := r.(fatalExit); ok {
					_ = fe
					o.fatal = true
					o.stack = string(debug.Stack())
					o.site = fatalSite(o.stack)
				} else {
					o.panicked = true
					o.val = fmt.Sprint(r)
					o.stack = string(debug.Stack())
					o.site = topRepoFrame(o.stack)
				}
			}
			done <- o
		}()
		o.deep, o.err = fn(in)
	}()
	select {
	case o := <-done:
		return o
	case <-time.After(callTimeout):
		return outcome{timeout: true}
	}
}

// fatalSite: the go-quai function that called logger.Fatal (first module frame that is not the log package / harness).
func fatalSite(stack string) string {
	for _, l := range strings.Split(stack, "\n") {
		if strings.HasPrefix(l, modulePrefix) && !strings.HasPrefix(l, modulePrefix+"log.") {
			f := l[len(modulePrefix):]
			if j := strings.LastIndex(f, "("); j > 0 {
				f = f[:j]
			}
			return cleanFrame(f)
		}
	}
	return "unknown"
}

var hookSeg = regexp.MustCompile(`VerifC15\w+\.`)

// cleanFrame drops closure suffixes ("func1") and the names of verif hook functions a
// production closure was inlined into, so that the signature names production code only.
func cleanFrame(f string) string {
	if k := strings.Index(f, ".func"); k > 0 {
		f = f[:k]
	}
	return hookSeg.ReplaceAllString(f, "")
}

func shortStack(s string) string {
	lines := strings.Split(s, "\n")
	var keep []string
	for _, l := range lines {
		if strings.HasPrefix(l, modulePrefix) || strings.HasPrefix(l, "panic(") {
			keep = append(keep, strings.TrimPrefix(l, modulePrefix))
		}
		if len(keep) >= 6 {
			break
		}
	}
	return strings.Join(keep, " < ")
}

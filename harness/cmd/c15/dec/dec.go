// Package dec: decoder sweep of property C15 (A): every production decode +
// pre-validation entry point is fed structurally valid messages with single fields
// cleared / resized / type-confused (mutated at the protobuf message level), byte-level
// damage of valid encodings and garbage; every call runs under recover with an
// allocation meter and a watchdog.  A panic, a logger.Fatal (process exit), an
// over-proportional allocation or a hang is a monitor failure.
package dec

import (
	"bytes"
	"encoding/hex"
	"fmt"
	"strings"
	"time"

	"github.com/dominant-strategies/go-quai/log"
	"google.golang.org/protobuf/proto"

	"verifharness/hlib"
)

type Case struct {
	ID    int    `json:"id"`
	Kind  string `json:"kind"` // "dec"
	Entry string `json:"entry"`
	Input string `json:"input"` // hex of the exact bytes fed
	Mut   string `json:"mut"`
}

type sweep struct {
	rep      *hlib.Report
	entries  []*Entry
	byName   map[string]*Entry
	nextID   int
	seen     map[string]int
	okDeep   map[string]bool // entries of which a valid seed ran to the end without error in this run
	start    time.Time
	budget   time.Duration
	Warnings []string
}

func allEntries() []*Entry {
	var es []*Entry
	es = append(es, networkEntries()...)
	es = append(es, donorEntries()...)
	es = append(es, typesEntries()...)
	es = append(es, rlpEntries()...)
	es = append(es, jsonEntries()...)
	es = append(es, rawdbEntries()...)
	es = append(es, extraEntries()...)
	for _, e := range es {
		e.Covers = coversFor(e.Name)
		if e.AllocC == 0 {
			e.AllocC = 200
		}
		if e.AllocK == 0 {
			e.AllocK = 4 << 20 // constant work of one call (error values, log formatting, fixed-size tables) stays below 2.5 MB
		}
		if strings.Contains(e.Name, "Receipt") {
			e.AllocC = 12000 // (ReadReceipts runs two readers) an empty stored receipt (2 bytes on the wire) decodes to a Receipt with a 256-byte bloom, log slice, big.Ints: ~11 KB
		}
	}
	return es
}

func newSweep(rep *hlib.Report, budget time.Duration) *sweep {
	// logger.Fatal would end the harness: turn the exit into a panic the guard recognises
	log.Global.ExitFunc = func(code int) { panic(fatalExit{code}) }
	s := &sweep{rep: rep, nextID: 1_000_000, seen: map[string]int{}, okDeep: map[string]bool{}, byName: map[string]*Entry{}, start: time.Now(), budget: budget}
	s.entries = allEntries()
	for _, e := range s.entries {
		s.byName[e.Name] = e
	}
	return s
}

func (s *sweep) warn(m string) { s.Warnings = append(s.Warnings, m) }

func (s *sweep) over() bool { return time.Since(s.start) > s.budget }

func mutClass(mut string) string {
	if i := strings.Index(mut, " "); i > 0 {
		return mut[:i]
	}
	return mut
}

func (s *sweep) fail(sig, what string, c Case) {
	s.seen[sig]++
	if s.seen[sig] <= 2 {
		s.rep.Fail(sig, what, c)
	}
}

func (s *sweep) exec(e *Entry, in []byte, mut string) outcome {
	o := guarded(e.Fn, in)
	Times[e.Name] += o.dur
	s.rep.Evaluations++
	s.rep.Count("entry:" + e.Name)
	cl := mutClass(mut)
	s.rep.Count("mut:" + cl)
	c := Case{ID: s.nextID, Kind: "dec", Entry: e.Name, Input: hex.EncodeToString(in), Mut: mut}
	s.nextID++
	switch {
	case o.timeout:
		s.rep.Count("outcome:timeout")
		s.fail(e.Name+":timeout", fmt.Sprintf("%s did not return within %s on a %d-byte input (%s)", e.Name, callTimeout, len(in), mut), c)
	case o.fatal:
		s.rep.Count("outcome:fatal-exit")
		sig := e.Name + ":fatal-exit:" + o.site
		if strings.HasPrefix(e.Name, "rawdb.") {
			sig = "rawdb:fatal-exit:" + o.site // one class: the chain-database readers end the process on an undecodable stored value
		}
		s.fail(sig, fmt.Sprintf("%s calls logger.Fatal (process exit) on a %d-byte input (%s): %s", e.Name, len(in), mut, shortStack(o.stack)), c)
	case o.panicked:
		s.rep.Count("outcome:panic")
		s.fail(e.Name+":panic:"+o.site, fmt.Sprintf("%s panics (%s) on a %d-byte input (%s): %s", e.Name, o.val, len(in), mut, shortStack(o.stack)), c)
	case o.err != nil:
		s.rep.Count("outcome:error")
	default:
		s.rep.Count("outcome:ok")
	}
	if o.deep && o.err == nil && !o.panicked && !o.fatal && !o.timeout && strings.HasPrefix(mut, "valid ") {
		s.okDeep[e.Name] = true
	}
	if o.deep {
		s.rep.Count("depth:past-first-guard")
		s.rep.Nontrivial(e.Name + "/" + mut)
	}
	if !o.timeout && o.alloc > e.AllocC*uint64(len(in))+e.AllocK {
		s.fail(e.Name+":alloc:"+cl, fmt.Sprintf("%s allocated %d bytes for a %d-byte input (bound %d*len+%d) (%s)", e.Name, o.alloc, len(in), e.AllocC, e.AllocK, mut), c)
	}
	return o
}

// fixed corpus: deterministic, independent of the seed
func (s *sweep) corpus(tier string) {
	type enc struct {
		name string
		b    []byte
	}
	var valid []enc
	for _, e := range s.entries {
		for pi, p := range e.Protos {
			b, err := proto.Marshal(p)
			if err != nil {
				panic(err)
			}
			o := s.exec(e, b, fmt.Sprintf("valid proto#%d", pi))
			if !o.deep || o.err != nil {
				s.warn(fmt.Sprintf("valid message #%d of %s: deep=%v err=%v", pi, e.Name, o.deep, o.err))
			}
			valid = append(valid, enc{e.Name, b})
		}
		for si, b := range e.Seeds {
			o := s.exec(e, b, fmt.Sprintf("valid seed#%d", si))
			if !o.deep || o.err != nil {
				s.warn(fmt.Sprintf("valid seed #%d of %s: deep=%v err=%v", si, e.Name, o.deep, o.err))
			}
			valid = append(valid, enc{e.Name, b})
		}
	}
	// one field at a time: every site x every applicable mutation
	for _, e := range s.entries {
		for pi, p := range e.Protos {
			if tier != "thorough" {
				q := e.Quick
				if q == 0 {
					q = 1
				}
				if pi >= q {
					continue // swept field by field in the thorough tier; mutated randomly in quick
				}
			}
			ss := sites(p)
			for idx, st := range ss {
				for _, kind := range mutationsFor(st.fd) {
					b, msg, path, ok := mutateAtMsg(p, idx, kind)
					if !ok {
						continue
					}
					s.exec(e, b, fmt.Sprintf("field:%s proto#%d %s", kind, pi, path))
					// the same mutation in a message whose commitments were repaired afterwards (reseal.go)
					// (quick tier: every site of the work-object header incl. its AuxPow, one in three of the body sites)
					if e.Fix != nil && (tier == "thorough" || strings.Contains(path, ".wo_header") || idx%3 == 0) && timedFix(e, msg) {
						if fb, err := (proto.MarshalOptions{AllowPartial: true}).Marshal(msg); err == nil && len(fb) <= 1<<20 && !bytes.Equal(fb, b) {
							o := s.exec(e, fb, fmt.Sprintf("field+reseal:%s proto#%d %s", kind, pi, path))
							if o.err == nil && !o.panicked {
								s.rep.Count("reseal:accepted")
							}
						}
					}
				}
			}
		}
	}
	// JSON documents / RLP trees: one node at a time
	for _, e := range s.entries {
		for si, seed := range e.Seeds {
			var vs []variant
			switch e.Format {
			case "json":
				vs = jsonVariants(seed)
			case "rlp":
				vs = rlpVariants(seed, 0)
			case "rlp1":
				vs = rlpVariants(seed, 1)
			}
			for _, v := range vs {
				s.exec(e, v.b, fmt.Sprintf("node:%s seed#%d", v.desc, si))
			}
		}
	}
	// every prefix of the short valid inputs, sampled prefixes of the long ones; empty input
	for _, e := range s.entries {
		var all [][]byte
		for _, p := range e.Protos {
			b, _ := proto.Marshal(p)
			all = append(all, b)
		}
		all = append(all, e.Seeds...)
		s.exec(e, []byte{}, "truncate to 0")
		for i, b := range all {
			if i >= 2 && tier != "thorough" {
				break
			}
			step := 1
			if len(b) > 300 {
				step = len(b) / 150
			}
			for n := 1; n < len(b); n += step {
				s.exec(e, b[:n], fmt.Sprintf("truncate to %d of %d", n, len(b)))
			}
		}
	}
	// type confusion: every valid encoding into every entry
	for _, e := range s.entries {
		for _, v := range valid {
			if v.name == e.Name {
				continue
			}
			s.exec(e, v.b, "confuse valid encoding of "+v.name)
		}
	}
}

func (s *sweep) random(rng *hlib.Rng, n int) {
	for i := 0; i < n && !s.over(); i++ {
		e := s.entries[rng.Intn(len(s.entries))]
		var base []byte
		desc := ""
		if len(e.Protos) > 0 && (len(e.Seeds) == 0 || rng.Bool()) {
			pi := rng.Intn(len(e.Protos))
			p := e.Protos[pi]
			// 1-3 stacked structured mutations
			k := rng.Pick(20, 50, 20, 10)
			cur := proto.Clone(p)
			for j := 0; j < k; j++ {
				ss := sites(cur)
				idx := rng.Intn(len(ss))
				kinds := mutationsFor(ss[idx].fd)
				kind := kinds[rng.Intn(len(kinds))]
				func() {
					defer func() { recover() }()
					if applyMutation(ss[idx].msg, ss[idx].fd, kind) {
						desc += fmt.Sprintf("%s@%s ", kind, ss[idx].path)
					}
				}()
			}
			b, err := proto.MarshalOptions{AllowPartial: true}.Marshal(cur)
			if err != nil || len(b) > 1<<20 {
				continue
			}
			base = b
			desc = fmt.Sprintf("random-struct proto#%d %s", pi, desc)
		} else if len(e.Seeds) > 0 {
			si := rng.Intn(len(e.Seeds))
			base = e.Seeds[si]
			desc = fmt.Sprintf("random-seed seed#%d", si)
		}
		switch rng.Pick(35, 50, 15) {
		case 0: // structured only
			s.exec(e, base, desc)
		case 1:
			b, what := byteMutate(rng, base)
			s.exec(e, b, "random-bytes-of-valid "+what+" | "+desc)
		default:
			ln := rng.Intn(2000)
			if rng.Chance(30) {
				ln = rng.Intn(40)
			}
			b := rng.Bytes(ln)
			if rng.Chance(40) && len(base) > 0 {
				cut := rng.Intn(len(base))
				b = append(append([]byte{}, base[:cut]...), b...)
			}
			s.exec(e, b, "garbage")
		}
	}
}

// Run executes the decoder sweep: fixed targeted corpus first, then n generated cases derived only from rng.
func Run(rng *hlib.Rng, rep *hlib.Report, n int, tier string, budget time.Duration) *Inventory {
	s := newSweep(rep, budget)
	allKinds = tier == "thorough"
	s.corpus(tier)
	allKinds = true
	rep.Distribution["dec:corpus-cases"] = s.nextID - 1_000_000
	rep.Note(fmt.Sprintf("decoder corpus: %d cases in %.1fs", s.nextID-1_000_000, time.Since(s.start).Seconds()))
	before := s.nextID
	// the random part gets its own slice of time even when the corpus was slow
	s.start, s.budget = time.Now(), budget/2
	s.random(rng, n)
	rep.Distribution["dec:random-cases"] = s.nextID - before
	iv := s.inventory()
	iv.report(rep)
	Warnings = s.Warnings
	return iv
}

func timedFix(e *Entry, m proto.Message) bool {
	t0 := time.Now()
	ok := e.Fix(m)
	Times["(reseal) "+e.Name] += time.Since(t0)
	return ok
}

// Warnings of the last Run (valid seeds that are rejected): diagnostics for the dev driver.
var Warnings []string

// Times: cumulated time per entry (dev diagnostics).
var Times = map[string]time.Duration{}

// ReplayMap runs exactly one recorded case.
func ReplayMap(c map[string]any, rep *hlib.Report) {
	s := newSweep(rep, time.Hour)
	name, _ := c["entry"].(string)
	in, _ := c["input"].(string)
	mut, _ := c["mut"].(string)
	e := s.byName[name]
	if e == nil {
		rep.Note("replay: unknown entry " + name)
		return
	}
	b, err := hex.DecodeString(in)
	if err != nil {
		rep.Note("replay: bad input hex")
		return
	}
	if id, ok := c["id"].(float64); ok {
		s.nextID = int(id)
	}
	s.exec(e, b, mut)
}

// CheckFixtures runs only the valid seeds of every entry and reports those that do not decode to the end.
func CheckFixtures(rep *hlib.Report) []string {
	s := newSweep(rep, time.Hour)
	var out []string
	for _, e := range s.entries {
		for pi, p := range e.Protos {
			b, _ := proto.Marshal(p)
			if o := s.exec(e, b, fmt.Sprintf("valid proto#%d", pi)); !o.deep || o.err != nil || o.panicked {
				out = append(out, fmt.Sprintf("%s proto#%d: deep=%v err=%v panic=%v %s", e.Name, pi, o.deep, o.err, o.panicked, o.val))
			}
		}
		for si, b := range e.Seeds {
			if o := s.exec(e, b, fmt.Sprintf("valid seed#%d", si)); !o.deep || o.err != nil || o.panicked {
				out = append(out, fmt.Sprintf("%s seed#%d: deep=%v err=%v panic=%v %s | %.200s", e.Name, si, o.deep, o.err, o.panicked, o.val, string(b)))
			}
		}
		if len(e.Protos)+len(e.Seeds) == 0 {
			out = append(out, e.Name+": no fixture")
		}
	}
	return out
}

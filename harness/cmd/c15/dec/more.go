package dec

func typesEntries() []*Entry { return nil }
func rlpEntries() []*Entry   { return nil }
func jsonEntries() []*Entry  { return nil }
func rawdbEntries() []*Entry { return nil }

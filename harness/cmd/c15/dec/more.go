package dec

import (
	"encoding/json"
	"fmt"
	"math/big"
	"sort"

	"github.com/dominant-strategies/go-quai/common"
	"github.com/dominant-strategies/go-quai/common/hexutil"
	"github.com/dominant-strategies/go-quai/core/rawdb"
	"github.com/dominant-strategies/go-quai/core/types"
	"github.com/dominant-strategies/go-quai/ethdb"
	"github.com/dominant-strategies/go-quai/log"
	"github.com/dominant-strategies/go-quai/params"
	"github.com/dominant-strategies/go-quai/rlp"
	"google.golang.org/protobuf/proto"
)

// ---------- ProtoDecode of the individual wire / storage types ----------

// pd builds the entry "types.<name>.ProtoDecode": unmarshal into a fresh M, then decode.
func pd[M proto.Message](name string, fresh func() M, valid []M, decode func(M) error) *Entry {
	protos := make([]proto.Message, len(valid))
	for i, v := range valid {
		protos[i] = v
	}
	return &Entry{Name: "types." + name + ".ProtoDecode", Protos: protos, Fn: func(in []byte) (bool, error) {
		m := fresh()
		if err := proto.Unmarshal(in, m); err != nil {
			return false, err
		}
		return true, decode(m)
	}}
}

func touchTx(tx *types.Transaction) {
	_ = tx.Hash()
	_ = tx.Type()
	if tx.Type() != types.QiTxType {
		_ = tx.To() // (*QiTx).to panics by contract: production callers check the type first
	}
	_ = tx.Data()
	_ = tx.Size()
	if tx.Type() == types.QiTxType {
		_ = tx.TxIn()
		_ = tx.TxOut()
	}
}

func richReceipt() *types.Receipt {
	r := types.NewReceipt(nil, false, 21000)
	r.TxHash = h(100)
	r.ContractAddress = addrIn(9)
	r.GasUsed = 21000
	r.Logs = []*types.Log{{Address: addrIn(10), Topics: []common.Hash{h(101), h(102)}, Data: []byte{1, 2, 3}}}
	r.OutboundEtxs = types.Transactions{richEtx()}
	r.Bloom = types.CreateBloom(types.Receipts{r})
	return r
}

func typesEntries() []*Entry {
	var es []*Entry
	es = append(es, pd("Header", func() *types.ProtoHeader { return new(types.ProtoHeader) },
		[]*types.ProtoHeader{must(richHeader().ProtoEncode())},
		func(m *types.ProtoHeader) error {
			hd := &types.Header{}
			if err := hd.ProtoDecode(m, loc00); err != nil {
				return err
			}
			_ = hd.Hash()
			return nil
		}))
	var whs []*types.ProtoWorkObjectHeader
	for _, v := range []struct {
		id  types.PowID
		aux bool
	}{{types.Kawpow, true}, {types.Scrypt, true}, {types.Progpow, false}, {types.SHA_BTC, true}, {types.SHA_BCH, true}} {
		whs = append(whs, must(richWOHeader(v.id, v.aux).ProtoEncode()))
	}
	es = append(es, pd("WorkObjectHeader", func() *types.ProtoWorkObjectHeader { return new(types.ProtoWorkObjectHeader) }, whs,
		func(m *types.ProtoWorkObjectHeader) error {
			wh := &types.WorkObjectHeader{}
			if err := wh.ProtoDecode(m, loc00); err != nil {
				return err
			}
			_ = wh.Hash()
			_ = wh.SealHash()
			return nil
		}))
	views := []types.WorkObjectView{types.BlockObject, types.BlockObjects, types.PEtxObject, types.HeaderObject, types.WorkShareObject, types.WorkShareTxObject}
	for _, view := range views {
		view := view
		wo := richWO(types.Kawpow, true)
		valid := []*types.ProtoWorkObject{must(wo.ProtoEncode(view)), must(richWO(types.Scrypt, true).ProtoEncode(view))}
		es = append(es, pd(fmt.Sprintf("WorkObject[view=%d]", view), func() *types.ProtoWorkObject { return new(types.ProtoWorkObject) }, valid,
			func(m *types.ProtoWorkObject) error {
				w := &types.WorkObject{}
				if err := w.ProtoDecode(m, loc00, view); err != nil {
					return err
				}
				touchWO(w)
				return nil
			}))
		body := must(richBody().ProtoEncode(view))
		es = append(es, pd(fmt.Sprintf("WorkObjectBody[view=%d]", view), func() *types.ProtoWorkObjectBody { return new(types.ProtoWorkObjectBody) },
			[]*types.ProtoWorkObjectBody{body},
			func(m *types.ProtoWorkObjectBody) error {
				b := &types.WorkObjectBody{}
				return b.ProtoDecode(m, loc00, view)
			}))
	}
	var ptxs []*types.ProtoTransaction
	for _, tx := range richTxs() {
		ptxs = append(ptxs, must(tx.ProtoEncode()))
	}
	for _, l := range []common.Location{loc00, {1, 2}} {
		l := l
		es = append(es, pd(fmt.Sprintf("Transaction@%v", []byte(l)), func() *types.ProtoTransaction { return new(types.ProtoTransaction) }, ptxs,
			func(m *types.ProtoTransaction) error {
				tx := &types.Transaction{}
				if err := tx.ProtoDecode(m, l); err != nil {
					return err
				}
				touchTx(tx)
				return nil
			}))
	}
	es = append(es, pd("Transactions", func() *types.ProtoTransactions { return new(types.ProtoTransactions) },
		[]*types.ProtoTransactions{must(types.Transactions(richTxs()).ProtoEncode())},
		func(m *types.ProtoTransactions) error {
			txs := types.Transactions{}
			if err := txs.ProtoDecode(m, loc00); err != nil {
				return err
			}
			for _, tx := range txs {
				touchTx(tx)
			}
			return nil
		}))
	es = append(es, pd("AccessList", func() *types.ProtoAccessList { return new(types.ProtoAccessList) },
		[]*types.ProtoAccessList{types.AccessList{{Address: addrIn(3), StorageKeys: []common.Hash{h(62), h(63)}}}.ProtoEncode()},
		func(m *types.ProtoAccessList) error { al := types.AccessList{}; return al.ProtoDecode(m, loc00) }))
	var aps []*types.ProtoAuxPow
	for _, id := range []types.PowID{types.Kawpow, types.SHA_BTC, types.SHA_BCH, types.Scrypt} {
		aps = append(aps, richAuxPow(id).ProtoEncode())
	}
	es = append(es, pd("AuxPow", func() *types.ProtoAuxPow { return new(types.ProtoAuxPow) }, aps,
		func(m *types.ProtoAuxPow) error {
			ap := &types.AuxPow{}
			if err := ap.ProtoDecode(m); err != nil {
				return err
			}
			if ap.Header() != nil {
				_ = ap.Header().PowHash()
				_ = ap.Header().MerkleRoot()
				_ = ap.ConvertToTemplate().Hash()
			}
			_ = types.CalculateMerkleRoot(ap.PowID(), ap.Transaction(), ap.MerkleBranch())
			return nil
		}))
	rs := types.ReceiptsForStorage{(*types.ReceiptForStorage)(richReceipt()), (*types.ReceiptForStorage)(richReceipt())}
	es = append(es, pd("ReceiptsForStorage", func() *types.ProtoReceiptsForStorage { return new(types.ProtoReceiptsForStorage) },
		[]*types.ProtoReceiptsForStorage{must(rs.ProtoEncode())},
		func(m *types.ProtoReceiptsForStorage) error {
			x := types.ReceiptsForStorage{}
			return x.ProtoDecode(m, loc00)
		}))
	es = append(es, pd("ReceiptForStorage", func() *types.ProtoReceiptForStorage { return new(types.ProtoReceiptForStorage) },
		[]*types.ProtoReceiptForStorage{must(rs[0].ProtoEncode())},
		func(m *types.ProtoReceiptForStorage) error {
			x := &types.ReceiptForStorage{}
			return x.ProtoDecode(m, loc00)
		}))
	es = append(es, pd("LogForStorage", func() *types.ProtoLogForStorage { return new(types.ProtoLogForStorage) },
		[]*types.ProtoLogForStorage{types.LogForStorage(*richReceipt().Logs[0]).ProtoEncode()},
		func(m *types.ProtoLogForStorage) error { x := &types.LogForStorage{}; return x.ProtoDecode(m, loc00) }))
	qi := richQiTx()
	es = append(es, pd("TxIns", func() *types.ProtoTxIns { return new(types.ProtoTxIns) }, []*types.ProtoTxIns{must(qi.TxIn().ProtoEncode())},
		func(m *types.ProtoTxIns) error { x := types.TxIns{}; return x.ProtoDecode(m) }))
	es = append(es, pd("TxOuts", func() *types.ProtoTxOuts { return new(types.ProtoTxOuts) }, []*types.ProtoTxOuts{must(qi.TxOut().ProtoEncode())},
		func(m *types.ProtoTxOuts) error { x := types.TxOuts{}; return x.ProtoDecode(m) }))
	es = append(es, pd("TxIn", func() *types.ProtoTxIn { return new(types.ProtoTxIn) }, []*types.ProtoTxIn{must(qi.TxIn()[0].ProtoEncode())},
		func(m *types.ProtoTxIn) error { x := &types.TxIn{}; return x.ProtoDecode(m) }))
	es = append(es, pd("TxOut+UtxoEntry", func() *types.ProtoTxOut { return new(types.ProtoTxOut) }, []*types.ProtoTxOut{must(qi.TxOut()[1].ProtoEncode())},
		func(m *types.ProtoTxOut) error {
			x := &types.TxOut{}
			e1 := x.ProtoDecode(m)
			y := &types.UtxoEntry{}
			e2 := y.ProtoDecode(m)
			if e1 != nil {
				return e1
			}
			return e2
		}))
	prev := h(71)
	es = append(es, pd("OutPoint", func() *types.ProtoOutPoint { return new(types.ProtoOutPoint) }, []*types.ProtoOutPoint{must(types.NewOutPoint(&prev, 3).ProtoEncode())},
		func(m *types.ProtoOutPoint) error { x := &types.OutPoint{}; return x.ProtoDecode(m) }))
	oad := types.OutpointAndDenomination{TxHash: h(72), Index: 2, Denomination: 3, Lock: big.NewInt(5)}
	es = append(es, pd("OutpointAndDenomination", func() *types.ProtoOutPointAndDenomination { return new(types.ProtoOutPointAndDenomination) },
		[]*types.ProtoOutPointAndDenomination{must(oad.ProtoEncode())},
		func(m *types.ProtoOutPointAndDenomination) error {
			x := &types.OutpointAndDenomination{}
			return x.ProtoDecode(m)
		}))
	sutxo := &types.SpentUtxoEntry{OutPoint: *types.NewOutPoint(&prev, 3), UtxoEntry: &types.UtxoEntry{Denomination: 4, Address: qiAddrIn(4).Bytes(), Lock: big.NewInt(9)}}
	es = append(es, pd("SpentUtxoEntry", func() *types.ProtoSpentUTXO { return new(types.ProtoSpentUTXO) }, []*types.ProtoSpentUTXO{must(sutxo.ProtoEncode())},
		func(m *types.ProtoSpentUTXO) error { x := &types.SpentUtxoEntry{}; return x.ProtoDecode(m) }))
	set := types.NewEtxSet()
	set.ETXHashes = append(set.ETXHashes, h(1).Bytes()...)
	es = append(es, pd("EtxSet", func() *types.ProtoEtxSet { return new(types.ProtoEtxSet) }, []*types.ProtoEtxSet{set.ProtoEncode()},
		func(m *types.ProtoEtxSet) error { x := types.NewEtxSet(); return x.ProtoDecode(m) }))
	tcs := types.NewTokenChoiceSet()
	es = append(es, pd("TokenChoiceSet", func() *types.ProtoTokenChoiceSet { return new(types.ProtoTokenChoiceSet) },
		[]*types.ProtoTokenChoiceSet{must(tcs.ProtoEncode())},
		func(m *types.ProtoTokenChoiceSet) error { x := types.NewTokenChoiceSet(); return x.ProtoDecode(m) }))
	betas := types.NewBetas(big.NewFloat(1.5), big.NewFloat(-0.25))
	es = append(es, pd("Betas", func() *types.ProtoBetas { return new(types.ProtoBetas) }, []*types.ProtoBetas{must(betas.ProtoEncode())},
		func(m *types.ProtoBetas) error { x := &types.Betas{}; return x.ProtoDecode(m) }))
	pe := &types.PendingEtxs{Header: richWO(types.Kawpow, true), OutboundEtxs: types.Transactions{richEtx()}}
	es = append(es, pd("PendingEtxs", func() *types.ProtoPendingEtxs { return new(types.ProtoPendingEtxs) }, []*types.ProtoPendingEtxs{must(pe.ProtoEncode())},
		func(m *types.ProtoPendingEtxs) error {
			x := &types.PendingEtxs{}
			if err := x.ProtoDecode(m, loc00); err != nil {
				return err
			}
			touchWO(x.Header)
			return nil
		}))
	per := &types.PendingEtxsRollup{Header: richWO(types.Kawpow, true), EtxsRollup: types.Transactions{richEtx()}}
	es = append(es, pd("PendingEtxsRollup", func() *types.ProtoPendingEtxsRollup { return new(types.ProtoPendingEtxsRollup) },
		[]*types.ProtoPendingEtxsRollup{must(per.ProtoEncode())},
		func(m *types.ProtoPendingEtxsRollup) error {
			x := &types.PendingEtxsRollup{}
			if err := x.ProtoDecode(m, loc00); err != nil {
				return err
			}
			touchWO(x.Header)
			return nil
		}))
	termini := types.EmptyTermini()
	ph := types.NewPendingHeader(richWO(types.Kawpow, true), termini)
	es = append(es, pd("PendingHeader", func() *types.ProtoPendingHeader { return new(types.ProtoPendingHeader) },
		[]*types.ProtoPendingHeader{must(ph.ProtoEncode())},
		func(m *types.ProtoPendingHeader) error {
			x := &types.PendingHeader{}
			if err := x.ProtoDecode(m, loc00); err != nil {
				return err
			}
			touchWO(x.WorkObject())
			t := x.Termini()
			_ = t.IsValid()
			return nil
		}))
	es = append(es, pd("Termini", func() *types.ProtoTermini { return new(types.ProtoTermini) }, []*types.ProtoTermini{termini.ProtoEncode()},
		func(m *types.ProtoTermini) error {
			x := &types.Termini{}
			if err := x.ProtoDecode(m); err != nil {
				return err
			}
			_ = x.IsValid() // accessors index fixed positions: production callers must check IsValid first
			return nil
		}))
	es = append(es, pd("BlockManifest", func() *types.ProtoManifest { return new(types.ProtoManifest) },
		[]*types.ProtoManifest{must(types.BlockManifest{h(1), h(2)}.ProtoEncode())},
		func(m *types.ProtoManifest) error { x := types.BlockManifest{}; return x.ProtoDecode(m) }))
	es = append(es, pd("common.Address", func() *common.ProtoAddress { return new(common.ProtoAddress) },
		[]*common.ProtoAddress{addrIn(1).ProtoEncode()},
		func(m *common.ProtoAddress) error {
			x := &common.Address{}
			if err := x.ProtoDecode(m, loc00); err != nil {
				return err
			}
			_ = x.Hex()
			_ = x.Location()
			_, _ = x.InternalAddress()
			return nil
		}))
	es = append(es, pd("common.Hashes", func() *common.ProtoHashes { return new(common.ProtoHashes) },
		[]*common.ProtoHashes{common.Hashes{h(1), h(2)}.ProtoEncode()},
		func(m *common.ProtoHashes) error { x := common.Hashes{}; x.ProtoDecode(m); return nil }))
	es = append(es, pd("common.Location", func() *common.ProtoLocation { return new(common.ProtoLocation) },
		[]*common.ProtoLocation{loc00.ProtoEncode()},
		func(m *common.ProtoLocation) error {
			x := common.Location{}
			x.ProtoDecode(m)
			_ = x.Context()
			_ = x.Name()
			_ = x.Region()
			_ = x.Zone()
			return nil
		}))
	return es
}

// ---------- RLP ----------

func rlpEntries() []*Entry {
	var es []*Entry
	var txBins [][]byte
	for _, tx := range richTxs() {
		txBins = append(txBins, must(tx.MarshalBinary()))
	}
	es = append(es, &Entry{Name: "rlp.Transaction.UnmarshalBinary", Seeds: txBins, Format: "rlp1", Fn: func(in []byte) (bool, error) {
		tx := &types.Transaction{}
		if err := tx.UnmarshalBinary(in); err != nil {
			return len(in) > 0 && in[0] <= 2, err
		}
		touchTx(tx)
		return true, nil
	}})
	into := func(name string, seeds [][]byte, fresh func() interface{}) {
		es = append(es, &Entry{Name: "rlp.DecodeBytes/" + name, Seeds: seeds, Format: "rlp", Fn: func(in []byte) (bool, error) {
			v := fresh()
			if err := rlp.DecodeBytes(in, v); err != nil {
				return false, err
			}
			if tx, ok := v.(*types.Transaction); ok {
				touchTx(tx)
			}
			return true, nil
		}})
	}
	var txRlps [][]byte
	for _, tx := range richTxs() {
		txRlps = append(txRlps, must(rlp.EncodeToBytes(tx)))
	}
	into("Transaction", txRlps, func() interface{} { return new(types.Transaction) })
	into("Transactions", [][]byte{must(rlp.EncodeToBytes(types.Transactions(richTxs())))}, func() interface{} { return new(types.Transactions) })
	into("Receipt", [][]byte{must(rlp.EncodeToBytes(richReceipt()))}, func() interface{} { return new(types.Receipt) })
	into("ReceiptForStorage", [][]byte{must(rlp.EncodeToBytes((*types.ReceiptForStorage)(richReceipt())))}, func() interface{} { return new(types.ReceiptForStorage) })
	into("Log", [][]byte{must(rlp.EncodeToBytes(richReceipt().Logs[0]))}, func() interface{} { return new(types.Log) })
	into("LogForStorage", [][]byte{must(rlp.EncodeToBytes((*types.LogForStorage)(richReceipt().Logs[0])))}, func() interface{} { return new(types.LogForStorage) })
	into("AccessList", [][]byte{must(rlp.EncodeToBytes(types.AccessList{{Address: addrIn(3), StorageKeys: []common.Hash{h(62)}}}))}, func() interface{} { return new(types.AccessList) })
	into("Address", [][]byte{must(rlp.EncodeToBytes(addrIn(3)))}, func() interface{} { return new(common.Address) })
	return es
}

// ---------- JSON / hex arguments ----------

func jsonEntries() []*Entry {
	var es []*Entry
	into := func(name string, seeds [][]byte, fresh func() interface{}, after func(interface{})) {
		es = append(es, &Entry{Name: "json.Unmarshal/" + name, Seeds: seeds, Format: "json", Fn: func(in []byte) (bool, error) {
			v := fresh()
			if err := json.Unmarshal(in, v); err != nil {
				return json.Valid(in), err
			}
			if after != nil {
				after(v)
			}
			return true, nil
		}})
	}
	q := func(s string) []byte { return []byte(`"` + s + `"`) }
	into("hexutil.Bytes", [][]byte{q("0x0102ff"), q("0x")}, func() interface{} { return new(hexutil.Bytes) }, nil)
	into("hexutil.Big", [][]byte{q("0x1234567890abcdef1234567890"), q("0x0")}, func() interface{} { return new(hexutil.Big) }, nil)
	into("hexutil.Uint64", [][]byte{q("0xffffffffffffffff"), q("0x1")}, func() interface{} { return new(hexutil.Uint64) }, nil)
	into("hexutil.Uint", [][]byte{q("0xff")}, func() interface{} { return new(hexutil.Uint) }, nil)
	into("common.Hash", [][]byte{q(h(1).Hex())}, func() interface{} { return new(common.Hash) }, nil)
	into("common.AddressBytes", [][]byte{q(addrIn(1).Hex())}, func() interface{} { return new(common.AddressBytes) }, nil)
	into("common.MixedcaseAddress", [][]byte{q(addrIn(1).Hex())}, func() interface{} { return new(common.MixedcaseAddress) }, nil)
	into("common.UnprefixedHash", [][]byte{q(h(1).Hex()[2:])}, func() interface{} { return new(common.UnprefixedHash) }, nil)
	var txJSON [][]byte
	for _, tx := range richTxs() {
		txJSON = append(txJSON, must(json.Marshal(tx)))
	}
	into("types.Transaction", txJSON, func() interface{} { return new(types.Transaction) }, func(v interface{}) { touchTx(v.(*types.Transaction)) })
	into("types.Header", [][]byte{must(json.Marshal(richHeader()))}, func() interface{} { return new(types.Header) }, func(v interface{}) { _ = v.(*types.Header).Hash() })
	into("types.Receipt", [][]byte{must(json.Marshal(richReceipt()))}, func() interface{} { return new(types.Receipt) }, nil)
	into("types.Log", [][]byte{must(json.Marshal(richReceipt().Logs[0]))}, func() interface{} { return new(types.Log) }, nil)
	into("types.AccessList", [][]byte{must(json.Marshal(types.AccessList{{Address: addrIn(3), StorageKeys: []common.Hash{h(62)}}}))}, func() interface{} { return new(types.AccessList) }, nil)
	into("types.OutpointAndDenomination", [][]byte{[]byte(`{"txHash":"` + h(72).Hex() + `","index":"0x2","denomination":"0x3","lock":"0x5"}`), // (the type has no MarshalJSON: the default encoding writes numbers its UnmarshalJSON refuses)
		must(json.Marshal(&types.OutpointAndDenomination{TxHash: h(72), Index: 2, Denomination: 3, Lock: big.NewInt(5)}))},
		func() interface{} { return new(types.OutpointAndDenomination) }, nil)
	// raw hex decoders
	es = append(es, &Entry{Name: "hexutil.Decode*", Seeds: [][]byte{[]byte("0x0102ff"), []byte("0x1234")}, Fn: func(in []byte) (bool, error) {
		s := string(in)
		_, e1 := hexutil.Decode(s)
		_, e2 := hexutil.DecodeBig(s)
		_, e3 := hexutil.DecodeUint64(s)
		_ = common.FromHex(s)
		_ = common.HexToHash(s)
		_ = common.HexToAddress(s, loc00)
		_ = common.IsHexAddress(s)
		if e1 != nil && e2 != nil && e3 != nil {
			return false, e1
		}
		return true, nil
	}})
	return es
}

// ---------- rawdb readers on corrupted stored values ----------

type kv struct{ k, v []byte }

func dump(db ethdb.Database) []kv {
	var out []kv
	it := db.NewIterator(nil, nil)
	defer it.Release()
	for it.Next() {
		out = append(out, kv{append([]byte{}, it.Key()...), append([]byte{}, it.Value()...)})
	}
	sort.Slice(out, func(i, j int) bool { return string(out[i].k) < string(out[j].k) })
	return out
}

// rawdbCase: write valid objects, then for every stored value one entry that replaces that value
// by the input and calls the reader(s).
func rawdbCase(name string, write func(db ethdb.Database), read func(db ethdb.Database)) []*Entry {
	db := rawdb.NewMemoryDatabase(log.Global)
	write(db)
	pairs := dump(db)
	var es []*Entry
	for i := range pairs {
		i := i
		es = append(es, &Entry{Name: fmt.Sprintf("rawdb.%s[value#%d]", name, i), Seeds: [][]byte{pairs[i].v}, Fn: func(in []byte) (bool, error) {
			d := rawdb.NewMemoryDatabase(log.Global)
			for j, p := range pairs {
				if j == i {
					d.Put(p.k, in)
				} else {
					d.Put(p.k, p.v)
				}
			}
			read(d)
			return true, nil
		}})
	}
	return es
}

func rawdbEntries() []*Entry {
	var es []*Entry
	wo := zoneBlockWO(types.Kawpow, true)
	hash := wo.Hash()
	num := wo.NumberU64(common.ZONE_CTX)
	add := func(name string, write func(db ethdb.Database), read func(db ethdb.Database)) {
		es = append(es, rawdbCase(name, write, read)...)
	}
	add("ReadWorkObject", func(db ethdb.Database) { rawdb.WriteWorkObject(db, hash, wo, types.BlockObject, common.ZONE_CTX) },
		func(db ethdb.Database) {
			touchWO(rawdb.ReadWorkObject(db, num, hash, types.BlockObject))
			_ = rawdb.ReadWorkObjectHeader(db, num, hash, types.BlockObject)
			_ = rawdb.ReadWorkObjectBody(db, hash, types.BlockObject)
			_ = rawdb.ReadWorkObjectBodyHeaderOnly(db, hash)
			_ = rawdb.ReadWorkObjectHeaderOnly(db, num, hash, types.BlockObject)
			_ = rawdb.ReadHeader(db, num, hash)
			_ = rawdb.ReadHeaderNumber(db, hash)
			_ = rawdb.ReadWorkObjectWithWorkShares(db, num, hash)
		})
	add("ReadTermini", func(db ethdb.Database) { rawdb.WriteTermini(db, hash, types.EmptyTermini()) },
		func(db ethdb.Database) { _ = rawdb.ReadTermini(db, hash) })
	add("ReadReceipts", func(db ethdb.Database) {
		rawdb.WriteReceipts(db, hash, num, types.Receipts{richReceipt(), richReceipt()})
	},
		func(db ethdb.Database) {
			_ = rawdb.ReadRawReceipts(db, hash, num)
			_ = rawdb.ReadReceipts(db, hash, num, &params.ChainConfig{ChainID: big.NewInt(1), Location: loc00})
		})
	add("ReadPendingEtxs", func(db ethdb.Database) {
		rawdb.WritePendingEtxs(db, types.PendingEtxs{Header: wo, OutboundEtxs: types.Transactions{richEtx()}})
	}, func(db ethdb.Database) { _ = rawdb.ReadPendingEtxs(db, hash) })
	add("ReadPendingEtxsRollup", func(db ethdb.Database) {
		rawdb.WritePendingEtxsRollup(db, types.PendingEtxsRollup{Header: wo, EtxsRollup: types.Transactions{richEtx()}})
	}, func(db ethdb.Database) { _ = rawdb.ReadPendingEtxsRollup(db, hash) })
	add("ReadManifest", func(db ethdb.Database) { rawdb.WriteManifest(db, hash, types.BlockManifest{h(1), h(2)}) },
		func(db ethdb.Database) { _ = rawdb.ReadManifest(db, hash) })
	add("ReadInterlinkHashes", func(db ethdb.Database) { rawdb.WriteInterlinkHashes(db, hash, common.Hashes{h(1), h(2)}) },
		func(db ethdb.Database) { _ = rawdb.ReadInterlinkHashes(db, hash) })
	add("ReadBloom", func(db ethdb.Database) {
		b := types.CreateBloom(types.Receipts{richReceipt()})
		rawdb.WriteBloomProto(db, hash, must(b.ProtoEncode()))
	}, func(db ethdb.Database) { _ = rawdb.ReadBloom(db, hash) })
	add("ReadInboundEtxs", func(db ethdb.Database) { rawdb.WriteInboundEtxs(db, hash, types.Transactions{richEtx(), richEtx()}) },
		func(db ethdb.Database) { _ = rawdb.ReadInboundEtxs(db, hash) })
	add("ReadGenesisHashes", func(db ethdb.Database) { rawdb.WriteGenesisHashes(db, common.Hashes{h(1), h(2)}) },
		func(db ethdb.Database) { _ = rawdb.ReadGenesisHashes(db) })
	add("ReadBestPendingHeader", func(db ethdb.Database) { rawdb.WriteBestPendingHeader(db, wo) },
		func(db ethdb.Database) { touchWO(rawdb.ReadBestPendingHeader(db)) })
	add("ReadPbCacheBody", func(db ethdb.Database) { rawdb.WritePbCacheBody(db, hash, wo) },
		func(db ethdb.Database) { touchWO(rawdb.ReadPbCacheBody(db, hash)) })
	add("ReadTokenChoicesSet", func(db ethdb.Database) { tcs := types.NewTokenChoiceSet(); rawdb.WriteTokenChoicesSet(db, hash, &tcs) },
		func(db ethdb.Database) { _ = rawdb.ReadTokenChoicesSet(db, hash) })
	prev := h(71)
	sutxos := []*types.SpentUtxoEntry{{OutPoint: *types.NewOutPoint(&prev, 3), UtxoEntry: &types.UtxoEntry{Denomination: 4, Address: qiAddrIn(4).Bytes(), Lock: big.NewInt(9)}}}
	add("ReadSpentUTXOs", func(db ethdb.Database) { rawdb.WriteSpentUTXOs(db, hash, sutxos) },
		func(db ethdb.Database) { _, _ = rawdb.ReadSpentUTXOs(db, hash) })
	add("ReadTrimmedUTXOs", func(db ethdb.Database) { rawdb.WriteTrimmedUTXOs(db, hash, sutxos) },
		func(db ethdb.Database) { _, _ = rawdb.ReadTrimmedUTXOs(db, hash) })
	add("ReadCreatedUTXOKeys", func(db ethdb.Database) { rawdb.WriteCreatedUTXOKeys(db, hash, [][]byte{h(1).Bytes(), h(2).Bytes()}) },
		func(db ethdb.Database) { _, _ = rawdb.ReadCreatedUTXOKeys(db, hash) })
	add("ReadPrunedUTXOKeys", func(db ethdb.Database) { rawdb.WritePrunedUTXOKeys(db, 7, [][]byte{h(1).Bytes(), h(2).Bytes()}) },
		func(db ethdb.Database) { _, _ = rawdb.ReadPrunedUTXOKeys(db, 7) })
	var a20 [20]byte
	copy(a20[:], qiAddrIn(4).Bytes())
	add("ReadAddressOutpoints", func(db ethdb.Database) {
		rawdb.WriteAddressOutpoints(db, map[[20]byte][]*types.OutpointAndDenomination{a20: {{TxHash: h(72), Index: 2, Denomination: 3, Lock: big.NewInt(5)}}})
	}, func(db ethdb.Database) {
		_, _ = rawdb.ReadOutpointsForAddressAtBlock(db, a20)
		_, _ = rawdb.ReadAddressUTXOs(db, a20)
	})
	add("ReadUtxoToBlockHeight", func(db ethdb.Database) { rawdb.WriteUtxoToBlockHeight(db, h(72), 2, 99) },
		func(db ethdb.Database) { _ = rawdb.ReadUtxoToBlockHeight(db, h(72), 2) })
	add("ReadTransaction", func(db ethdb.Database) {
		rawdb.WriteWorkObject(db, hash, wo, types.BlockObject, common.ZONE_CTX)
		rawdb.WriteTxLookupEntriesByBlock(db, wo, common.ZONE_CTX)
	}, func(db ethdb.Database) {
		for _, tx := range wo.Transactions() {
			_, _, _, _ = rawdb.ReadTransaction(db, tx.Hash())
			_ = rawdb.ReadTxLookupEntry(db, tx.Hash())
		}
	})
	return es
}

package dec

import (
	"math/big"

	"github.com/dominant-strategies/go-quai/common"
	"github.com/dominant-strategies/go-quai/core/types"
	"github.com/dominant-strategies/go-quai/trie"
	"google.golang.org/protobuf/proto"
)

// Re-commit ("reseal") of a structurally mutated gossip message.
//
// A one-field mutation of a valid work object almost always breaks one of the commitments the
// gossip validator checks first (transaction / uncle / etx / manifest roots, the donor coinbase's
// commitment to the share's seal hash, the donor header's merkle root), so the mutated value never
// reaches the code behind those checks.  An attacker does not have that problem: none of these
// commitments needs work or a key.  reseal repairs them AFTER the mutation, exactly as a sender
// would, leaving the mutated field as it is on the wire:
//
//	body roots     recomputed from the (mutated) body lists into the body header / work-object header
//	seal           the donor coinbase is rebuilt to commit to the seal hash of the mutated header
//	               (Scrypt: to the aux merkle root of auxpow2 and that seal hash), with a signature
//	               time that is not after the donor header's time nor the share's time
//	merkle root    bytes 36..68 of the serialized donor header are overwritten with the merkle root
//	               of the new coinbase under the (possibly mutated) merkle branch
//
// Every step runs under recover and is skipped when the mutated message does not decode far enough
// to compute it (then the message is the same as the unsealed variant, which is always run too).

type resealView int

const (
	resealBlock resealView = iota
	resealHeader
	resealShare
)

func protoHash(h common.Hash) *common.ProtoHash { return &common.ProtoHash{Value: h.Bytes()} }

func try(f func()) (ok bool) {
	defer func() {
		if r := recover(); r != nil {
			ok = false
		}
	}()
	f()
	return true
}

// wireMerkleRoot returns the 32 bytes a donor header of chain id carries at offset 36 for root.
func wireMerkleRoot(id types.PowID, root common.Hash) []byte {
	var out []byte
	try(func() {
		var hdr *types.AuxPowHeader
		if id == types.Kawpow {
			hdr = types.NewAuxPowHeader(&types.RavencoinBlockHeader{Version: 4, HashMerkleRoot: root, Time: 1700000000, Bits: 0x1d00ffff})
		} else {
			hdr = types.NewBlockHeader(id, 0x20000000, common.Hash{}, root, 1700000000, 0x1d00ffff, 0, 0)
		}
		b := types.NewAuxPow(id, hdr, []byte{}, make([]byte, 64), nil, []byte{1}).ProtoEncode().GetHeader()
		if len(b) >= 68 {
			out = append([]byte{}, b[36:68]...)
		}
	})
	return out
}

// resealWorkObject repairs the commitments of pwo in place for a node of context nodeCtx; reports
// whether anything was changed.
func resealWorkObject(pwo *types.ProtoWorkObject, view resealView, nodeCtx int) bool {
	loc, ok := protoWorkObjectLocation(pwo)
	if !ok || pwo.GetWoHeader() == nil {
		return false
	}
	changed := false
	body := pwo.GetWoBody()
	// ---- body roots ----
	if body != nil {
		var txs, etxs types.Transactions
		txsOK := body.GetTransactions() != nil && try(func() {
			if err := txs.ProtoDecode(body.GetTransactions(), loc); err != nil {
				panic(err)
			}
		})
		etxsOK := body.GetOutboundEtxs() != nil && try(func() {
			if err := etxs.ProtoDecode(body.GetOutboundEtxs(), loc); err != nil {
				panic(err)
			}
		})
		sha := func(l types.DerivableList) (h common.Hash, ok bool) {
			ok = try(func() { h = types.DeriveSha(l, trie.NewStackTrie(nil)) })
			return
		}
		switch view {
		case resealShare:
			if txsOK {
				if h, ok := sha(txs); ok {
					pwo.WoHeader.TxHash = protoHash(h)
					changed = true
				}
			}
		case resealBlock, resealHeader:
			hd := body.GetHeader()
			if hd == nil {
				break
			}
			if nodeCtx == common.ZONE_CTX {
				if txsOK && view == resealBlock {
					if h, ok := sha(txs); ok {
						hd.TxHash = protoHash(h)
						changed = true
					}
				}
				if etxsOK {
					if h, ok := sha(etxs); ok {
						hd.OutboundEtxHash = protoHash(h)
						changed = true
					}
				}
				if view == resealBlock && body.GetUncles() != nil {
					var uncles []*types.WorkObjectHeader
					uok := try(func() {
						for _, pu := range body.GetUncles().GetWoHeaders() {
							u := new(types.WorkObjectHeader)
							if err := u.ProtoDecode(pu, loc); err != nil {
								panic(err)
							}
							uncles = append(uncles, u)
						}
					})
					if uok {
						var uh common.Hash
						if try(func() { uh = types.CalcUncleHash(uncles) }) {
							hd.UncleHash = protoHash(uh)
							changed = true
						}
					}
				}
			} else {
				if body.GetManifest() != nil {
					var m types.BlockManifest
					if try(func() {
						if err := m.ProtoDecode(body.GetManifest()); err != nil {
							panic(err)
						}
					}) {
						if h, ok := sha(m); ok && len(hd.ManifestHash) > nodeCtx+1 {
							hd.ManifestHash[nodeCtx+1] = protoHash(h)
							changed = true
						}
					}
				}
				if nodeCtx == common.PRIME_CTX && body.GetInterlinkHashes() != nil {
					var il common.Hashes
					if try(func() { il.ProtoDecode(body.GetInterlinkHashes()) }) {
						if h, ok := sha(il); ok {
							hd.InterlinkRootHash = protoHash(h)
							changed = true
						}
					}
				}
			}
		}
	}
	if view != resealShare {
		return changed
	}
	// ---- seal commitment of the donor coinbase, merkle root of the donor header ----
	ph := pwo.GetWoHeader()
	pa := ph.GetAuxPow()
	if pa == nil {
		return changed
	}
	wh := new(types.WorkObjectHeader)
	if !try(func() {
		if err := wh.ProtoDecode(ph, loc); err != nil {
			panic(err)
		}
	}) || wh.AuxPow() == nil {
		return changed
	}
	try(func() {
		id := wh.AuxPow().PowID()
		seal := wh.SealHash()
		commit := seal
		if id == types.Scrypt && len(pa.GetAuxpow2()) >= common.HashLength {
			commit = types.CreateAuxMerkleRoot(common.BytesToHash(pa.GetAuxpow2()[:common.HashLength]), seal)
		}
		sigTime := uint32(1699999999)
		if t := wh.Time(); t < uint64(sigTime) {
			sigTime = uint32(t)
		}
		if hd := wh.AuxPow().Header(); hd != nil {
			if t := hd.Timestamp(); t < sigTime {
				sigTime = t
			}
		}
		tx := types.NewAuxPowCoinbaseTx(id, 800000, coinbaseOut(), commit, sigTime)
		if len(tx) == 0 {
			return
		}
		root := types.CalculateMerkleRoot(id, tx, pa.GetMerkleBranch())
		wire := wireMerkleRoot(id, root)
		if wire == nil || len(pa.GetHeader()) < 68 {
			return
		}
		nh := append([]byte{}, pa.GetHeader()...)
		copy(nh[36:68], wire)
		pa.Header = nh
		pa.Transaction = tx
		changed = true
	})
	return changed
}

// resealer returns the Fix function of a gossip / view entry.
func resealer(view resealView, nodeCtx int) func(m proto.Message) bool {
	return func(m proto.Message) bool {
		switch v := m.(type) {
		case *types.ProtoWorkObjectBlockView:
			return v.GetWorkObject() != nil && resealWorkObject(v.GetWorkObject(), view, nodeCtx)
		case *types.ProtoWorkObjectHeaderView:
			return v.GetWorkObject() != nil && resealWorkObject(v.GetWorkObject(), view, nodeCtx)
		case *types.ProtoWorkObjectShareView:
			return v.GetWorkObject() != nil && resealWorkObject(v.GetWorkObject(), view, nodeCtx)
		}
		return false
	}
}

var _ = big.NewInt

package dec

import (
	"math/big"

	"github.com/btcsuite/btcd/btcec/v2"
	"github.com/btcsuite/btcd/btcec/v2/schnorr"
	"github.com/dominant-strategies/go-quai/common"
	"github.com/dominant-strategies/go-quai/core/types"
	"github.com/dominant-strategies/go-quai/params"
	"github.com/dominant-strategies/go-quai/trie"
)

// Valid, fully populated objects: the starting points of every structured mutation.

var loc00 = common.Location{0, 0}

func h(b byte) common.Hash {
	var x common.Hash
	for i := range x {
		x[i] = b + byte(i)
	}
	return x
}

func addrIn(b byte) common.Address {
	raw := make([]byte, 20)
	raw[0] = 0x00
	raw[1] = 0x12
	raw[19] = b
	return common.BytesToAddress(raw, loc00)
}
func qiAddrIn(b byte) common.Address {
	raw := make([]byte, 20)
	raw[0] = 0x00
	raw[1] = 0x92
	raw[19] = b
	return common.BytesToAddress(raw, loc00)
}
func addrOut(b byte) common.Address {
	raw := make([]byte, 20)
	raw[0] = 0x21
	raw[1] = 0x12
	raw[19] = b
	return common.BytesToAddress(raw, loc00)
}

func richHeader() *types.Header {
	hd := types.EmptyHeader()
	for ctx := 0; ctx < common.HierarchyDepth; ctx++ {
		if ctx < 2 {
			hd.SetParentHash(h(byte(1+ctx)), ctx)
			hd.SetNumber(big.NewInt(int64(77+ctx)), ctx)
		}
		hd.SetParentEntropy(big.NewInt(int64(1000+ctx)), ctx)
		hd.SetParentDeltaEntropy(big.NewInt(int64(2000+ctx)), ctx)
		hd.SetParentUncledDeltaEntropy(big.NewInt(int64(3000+ctx)), ctx)
		hd.SetManifestHash(h(byte(10+ctx)), ctx)
	}
	hd.SetUncleHash(h(20))
	hd.SetEVMRoot(h(21))
	hd.SetQuaiStateSize(big.NewInt(123456))
	hd.SetUTXORoot(h(22))
	hd.SetTxHash(h(23))
	hd.SetOutboundEtxHash(h(24))
	hd.SetEtxSetRoot(h(25))
	hd.SetEtxRollupHash(h(26))
	hd.SetPrimeTerminusHash(h(27))
	hd.SetUncledEntropy(big.NewInt(999))
	hd.SetInterlinkRootHash(h(28))
	hd.SetReceiptHash(h(29))
	hd.SetGasLimit(30_000_000)
	hd.SetGasUsed(21_000)
	hd.SetEfficiencyScore(12)
	hd.SetThresholdCount(3)
	hd.SetExpansionNumber(1)
	hd.SetEtxEligibleSlices(h(30))
	hd.SetBaseFee(big.NewInt(1_000_000_000))
	hd.SetStateLimit(5_000_000)
	hd.SetStateUsed(100)
	hd.SetExtra([]byte("c15 extra"))
	hd.SetExchangeRate(big.NewInt(123456789))
	hd.SetAvgTxFees(big.NewInt(1000))
	hd.SetTotalFees(big.NewInt(2000))
	hd.SetKQuaiDiscount(big.NewInt(3000))
	hd.SetConversionFlowAmount(big.NewInt(4000))
	hd.SetMinerDifficulty(big.NewInt(5000))
	hd.SetPrimeStateRoot(h(31))
	hd.SetRegionStateRoot(h(32))
	return hd
}

func diffCount() *types.PowShareDiffAndCount {
	return types.NewPowShareDiffAndCount(big.NewInt(123456789), big.NewInt(42), big.NewInt(43))
}

func coinbaseOut() []byte {
	return []byte{0x76, 0xa9, 0x14, 0x89, 0xab, 0xcd, 0xef, 0x01, 0x02, 0x03, 0x04, 0x05, 0x06, 0x07, 0x08, 0x09, 0x0a, 0x0b, 0x0c, 0x0d, 0x0e, 0x0f, 0x10, 0x88, 0xac}
}

// one AuxPow per donor chain
func richAuxPow(id types.PowID) *types.AuxPow {
	var hdr *types.AuxPowHeader
	switch id {
	case types.Kawpow:
		hdr = types.NewAuxPowHeader(&types.RavencoinBlockHeader{Version: 4, HashPrevBlock: h(40), HashMerkleRoot: h(41), Time: 1700000000,
			Bits: 0x1d00ffff, Nonce64: 367899, Height: 298899, MixHash: h(42)})
	default:
		hdr = types.NewBlockHeader(id, 0x20000000, h(43), h(44), 1700000000, 0x1d00ffff, 12345, 800000)
	}
	tx := types.NewAuxPowCoinbaseTx(id, 800000, coinbaseOut(), h(45), 1699999999)
	branch := [][]byte{h(46).Bytes(), h(47).Bytes()}
	aux2 := []byte{}
	if id == types.Scrypt {
		aux2 = h(48).Bytes()
	}
	return types.NewAuxPow(id, hdr, aux2, make([]byte, 64), branch, tx)
}

func richWOHeader(id types.PowID, withAux bool) *types.WorkObjectHeader {
	var aux *types.AuxPow
	ptn := big.NewInt(42)
	if withAux {
		aux = richAuxPow(id)
		ptn = big.NewInt(int64(params.KawPowForkBlock) + 1)
	}
	return types.NewWorkObjectHeader(h(50), h(51), big.NewInt(1234), big.NewInt(123456789), ptn, h(52), types.EncodeNonce(77), 0, 1700000001,
		loc00, addrIn(1), []byte{0, 1, 2, 3}, aux, diffCount(), diffCount(), big.NewInt(1000), big.NewInt(1001), big.NewInt(10000))
}

func richQuaiTx() *types.Transaction {
	to := addrIn(2)
	ph, mh := h(60), h(61)
	wn := types.EncodeNonce(5)
	return types.NewTx(&types.QuaiTx{ChainID: big.NewInt(1), Nonce: 7, GasPrice: big.NewInt(1_000_000_000), Gas: 50000, To: &to, Value: big.NewInt(100),
		Data: []byte{1, 2, 3, 4}, AccessList: types.AccessList{{Address: addrIn(3), StorageKeys: []common.Hash{h(62), h(63)}}},
		V: big.NewInt(1), R: new(big.Int).SetBytes(h(64).Bytes()), S: new(big.Int).SetBytes(h(65).Bytes()), ParentHash: &ph, MixHash: &mh, WorkNonce: &wn})
}

func richQiTx() *types.Transaction {
	priv, _ := btcec.PrivKeyFromBytes(h(70).Bytes())
	prev := h(71)
	in := types.TxIn{PreviousOutPoint: *types.NewOutPoint(&prev, 3), PubKey: priv.PubKey().SerializeUncompressed()}
	out1 := types.TxOut{Denomination: 1, Address: qiAddrIn(4).Bytes(), Lock: big.NewInt(0)}
	out2 := types.TxOut{Denomination: 5, Address: qiAddrIn(5).Bytes(), Lock: big.NewInt(99)}
	msg := h(72)
	sig, err := schnorr.Sign(priv, msg[:])
	if err != nil {
		panic(err)
	}
	ph, mh := h(73), h(74)
	wn := types.EncodeNonce(6)
	return types.NewTx(&types.QiTx{ChainID: big.NewInt(1), TxIn: types.TxIns{in, in}, TxOut: types.TxOuts{out1, out2}, Signature: sig, Data: []byte{9, 9},
		ParentHash: &ph, MixHash: &mh, WorkNonce: &wn})
}

func richEtx() *types.Transaction {
	to := addrIn(6)
	return types.NewTx(&types.ExternalTx{OriginatingTxHash: h(80), ETXIndex: 1, Gas: 21000, To: &to, Value: big.NewInt(5), Data: []byte{4},
		AccessList: types.AccessList{{Address: addrIn(7), StorageKeys: []common.Hash{h(81)}}}, Sender: addrOut(8), EtxType: 0})
}

func richTxs() []*types.Transaction { return []*types.Transaction{richQuaiTx(), richQiTx(), richEtx()} }

func richBody() *types.WorkObjectBody {
	uncles := []*types.WorkObjectHeader{richWOHeader(types.Kawpow, true), richWOHeader(types.Progpow, false)}
	return types.NewWoBody(richHeader(), richTxs(), []*types.Transaction{richEtx()}, uncles, types.BlockManifest{h(90), h(91)}, common.Hashes{h(92), h(93), h(94), h(95)})
}

func richWO(id types.PowID, withAux bool) *types.WorkObject {
	return types.NewWorkObject(richWOHeader(id, withAux), richBody(), richQuaiTx())
}

// ---------- objects that pass the gossip sanity checks of their view (core/block_validator.go) ----------

func sha(l types.DerivableList) common.Hash { return types.DeriveSha(l, trie.NewStackTrie(nil)) }

// zone block view: uncle / tx / outbound-etx roots of the body header match the body
func zoneBlockWO(id types.PowID, withAux bool) *types.WorkObject {
	txs := types.Transactions(richTxs())
	etxs := types.Transactions{richEtx()}
	uncles := []*types.WorkObjectHeader{richWOHeader(types.Kawpow, true), richWOHeader(types.Progpow, false)}
	hd := richHeader()
	hd.SetUncleHash(types.CalcUncleHash(uncles))
	hd.SetTxHash(sha(txs))
	hd.SetOutboundEtxHash(sha(etxs))
	body := types.NewWoBody(hd, txs, etxs, uncles, types.BlockManifest{}, common.Hashes{})
	return types.NewWorkObject(richWOHeader(id, withAux), body, nil)
}

// zone header view: no transactions, etx root matches
func zoneHeaderWO(id types.PowID, withAux bool) *types.WorkObject {
	etxs := types.Transactions{richEtx(), richEtx()}
	hd := richHeader()
	hd.SetOutboundEtxHash(sha(etxs))
	body := types.NewWoBody(hd, nil, etxs, nil, types.BlockManifest{}, common.Hashes{})
	return types.NewWorkObject(richWOHeader(id, withAux), body, nil)
}

// work share: only transactions, whose root is the work-object header's txHash
func shareWO(id types.PowID, withAux bool) *types.WorkObject {
	txs := types.Transactions(richTxs())
	wh := richWOHeader(id, withAux)
	wh.SetTxHash(sha(txs))
	body := types.NewWoBody(richHeader(), txs, nil, nil, types.BlockManifest{}, common.Hashes{})
	return types.NewWorkObject(wh, body, nil)
}

// region / prime block: only a manifest (and interlink hashes in prime) matching the header
func domBlockWO(nodeCtx int) *types.WorkObject {
	manifest := types.BlockManifest{h(90), h(91), h(92)}
	interlink := common.Hashes{h(93), h(94), h(95), h(96)}
	hd := richHeader()
	hd.SetManifestHash(sha(manifest), nodeCtx+1)
	if nodeCtx == common.PRIME_CTX {
		hd.SetInterlinkRootHash(sha(interlink))
	} else {
		interlink = common.Hashes{}
	}
	body := types.NewWoBody(hd, nil, nil, nil, manifest, interlink)
	wh := richWOHeader(types.Kawpow, true)
	if nodeCtx == common.PRIME_CTX {
		wh.SetLocation(common.Location{})
	} else {
		wh.SetLocation(common.Location{0})
	}
	return types.NewWorkObject(wh, body, nil)
}

// A SHA / Scrypt work share that gets through the whole gossip validator: the donor coinbase
// commits to the share's seal hash, the donor header to the coinbase's merkle root, the share
// difficulty is 1 (any pow hash meets the target) and the primary coinbase is external, which
// exempts the share from the template-signature check (IsShaOrScryptShareWithInvalidAddress).
func deepShareWO(id types.PowID) *types.WorkObject {
	txs := types.Transactions(richTxs())
	one := types.NewPowShareDiffAndCount(big.NewInt(1), big.NewInt(1), big.NewInt(0))
	wh := types.NewWorkObjectHeader(h(50), h(51), big.NewInt(1234), big.NewInt(123456789), big.NewInt(int64(params.KawPowForkBlock)+1), sha(txs),
		types.EncodeNonce(77), 0, 1700000001, loc00, addrOut(9), []byte{0, 1, 2, 3}, nil, one, one, big.NewInt(1000), big.NewInt(1001), big.NewInt(10000))
	seal := wh.SealHash()
	commit := seal
	aux2 := []byte{}
	if id == types.Scrypt {
		doge := h(48)
		aux2 = doge.Bytes()
		commit = types.CreateAuxMerkleRoot(doge, seal)
	}
	tx := types.NewAuxPowCoinbaseTx(id, 800000, coinbaseOut(), commit, 1699999999)
	branch := [][]byte{h(46).Bytes(), h(47).Bytes()}
	root := types.CalculateMerkleRoot(id, tx, branch)
	var hdr *types.AuxPowHeader
	if id == types.Kawpow {
		hdr = types.NewAuxPowHeader(&types.RavencoinBlockHeader{Version: 4, HashPrevBlock: h(40), HashMerkleRoot: root, Time: 1700000000,
			Bits: 0x1d00ffff, Nonce64: 367899, Height: 298899, MixHash: h(42)})
	} else {
		hdr = types.NewBlockHeader(id, 0x20000000, h(43), root, 1700000000, 0x1d00ffff, 12345, 800000)
	}
	wh.SetAuxPow(types.NewAuxPow(id, hdr, aux2, make([]byte, 64), branch, tx))
	body := types.NewWoBody(richHeader(), txs, nil, nil, types.BlockManifest{}, common.Hashes{})
	return types.NewWorkObject(wh, body, nil)
}

// the node's current header for the gossip validator: same height, share difficulties 1
func currentHeaderWO() *types.WorkObject { return deepShareWO(types.SHA_BTC) }

// dev driver for the decoder sweep: go run -tags verif ./cmd/c15/dec/devmain -seed 1 -n 2000 -budget 60s
package main

import (
	"encoding/json"
	"flag"
	"fmt"
	"os"
	"sort"
	"time"

	"verifharness/cmd/c15/dec"
	"verifharness/hlib"
)

func main() {
	seed := flag.Uint64("seed", 1, "")
	n := flag.Int("n", 2000, "")
	tier := flag.String("tier", "quick", "")
	budget := flag.Duration("budget", 60*time.Second, "")
	full := flag.Bool("full", false, "print failure cases")
	flag.Parse()
	hlib.QuietLogs()
	rep := hlib.NewReport("C15", "dev")
	t0 := time.Now()
	dec.Run(hlib.NewRng(*seed), rep, *n, *tier, *budget)
	fmt.Fprintf(os.Stderr, "%.1fs evaluations=%d\n", time.Since(t0).Seconds(), rep.Evaluations)
	for _, k := range hlib.SortedKeys(rep.Distribution) {
		fmt.Printf("%-60s %d\n", k, rep.Distribution[k])
	}
	type kt struct {
		k string
		t time.Duration
	}
	var ts []kt
	for k, t := range dec.Times {
		ts = append(ts, kt{k, t})
	}
	sort.Slice(ts, func(i, j int) bool { return ts[i].t > ts[j].t })
	for i, x := range ts {
		if i < 25 {
			fmt.Printf("TIME %-55s %8.2fs %d calls\n", x.k, x.t.Seconds(), rep.Distribution["entry:"+x.k])
		}
	}
	for _, w := range dec.Warnings {
		fmt.Println("WARN", w)
	}
	for _, nt := range rep.Notes {
		fmt.Println("NOTE", nt)
	}
	for _, f := range rep.Failures {
		fmt.Println("FAIL", f.Signature, "|", f.What)
		if *full {
			b, _ := json.Marshal(f.Case)
			fmt.Println("  ", string(b))
		}
	}
}

package dec

// Extension round (model growth): entry points that the generated inventory of decoders
// (harness/cmd/c15/inv -> coq/Generated/C15Decoders.v) showed to be defined in the source
// but not swept: JSON unmarshalers of the work-object family / AuxPow / UtxoEntry /
// RPC argument types, every encoding.TextUnmarshaler, and generic RLP targets (rlp/decode.go paths that no
// go-quai type reaches: big.Int, uint64, fixed arrays, optional / tail fields, raw values).

import (
	"bytes"
	"encoding"
	"encoding/hex"
	"encoding/json"
	"math/big"

	"github.com/dominant-strategies/go-quai/common"
	"github.com/dominant-strategies/go-quai/common/hexutil"
	qmath "github.com/dominant-strategies/go-quai/common/math"
	"github.com/dominant-strategies/go-quai/core/types"
	"github.com/dominant-strategies/go-quai/quai/filters"
	"github.com/dominant-strategies/go-quai/rlp"
	"github.com/dominant-strategies/go-quai/rpc"
)

// safeJSON marshals v; a type whose encoder fails or panics on the fixture yields nil
// (the entry then has no valid seed and its decoders are reported as not swept).
func safeJSON(v interface{}) (out []byte) {
	defer func() {
		if recover() != nil {
			out = nil
		}
	}()
	b, err := json.Marshal(v)
	if err != nil {
		return nil
	}
	return b
}

// withAuxPow: the MarshalJSON of the work-object family writes an AuxPow as an object its own UnmarshalJSON
// refuses (AuxPow has no MarshalJSON: "{}" without powId), so a marshalled work object does not decode.  The
// fixture puts the document AuxPow.UnmarshalJSON reads under every "auxpow" key.
func withAuxPow(doc []byte, id types.PowID) []byte {
	if doc == nil {
		return nil
	}
	var root interface{}
	if json.Unmarshal(doc, &root) != nil {
		return nil
	}
	var ap interface{}
	_ = json.Unmarshal(auxPowJSON(id), &ap)
	var walk func(n interface{})
	walk = func(n interface{}) {
		switch x := n.(type) {
		case map[string]interface{}:
			for k, v := range x {
				if k == "auxpow" {
					x[k] = ap
				} else {
					walk(v)
				}
			}
		case []interface{}:
			for _, v := range x {
				walk(v)
			}
		}
	}
	walk(root)
	return safeJSON(root)
}

func hx(b []byte) string { return "0x" + hex.EncodeToString(b) }

func auxPowJSON(id types.PowID) []byte {
	ap := richAuxPow(id)
	p := ap.ProtoEncode()
	br := []string{}
	for _, b := range ap.MerkleBranch() {
		br = append(br, hx(b))
	}
	return must(json.Marshal(map[string]interface{}{
		"powId": hexutil.Uint64(id), "header": hx(p.GetHeader()), "auxpow2": hx(ap.AuxPow2()), "signature": hx(ap.Signature()),
		"merkleBranch": br, "transaction": hx(ap.Transaction()),
	}))
}

type rlpOpt struct {
	A uint64
	B *big.Int
	C []byte   `rlp:"optional"`
	D [][]byte `rlp:"optional"`
}

type rlpTail struct {
	A    [4]byte
	B    bool
	S    string
	P    *rlpOpt `rlp:"nil"`
	Raw  rlp.RawValue
	Tail []uint16 `rlp:"tail"`
}

func extraEntries() []*Entry {
	var es []*Entry
	// ----- JSON -----
	jinto := func(name string, seeds [][]byte, fresh func() interface{}) {
		var ss [][]byte
		for _, s := range seeds {
			if s != nil {
				ss = append(ss, s)
			}
		}
		es = append(es, &Entry{Name: "json.Unmarshal/" + name, Seeds: ss, Format: "json", Fn: func(in []byte) (bool, error) {
			v := fresh()
			if err := json.Unmarshal(in, v); err != nil {
				return json.Valid(in), err
			}
			return true, nil
		}})
	}
	q := func(s string) []byte { return []byte(`"` + s + `"`) }
	wo := richWO(types.Kawpow, true)
	jinto("types.WorkObject", [][]byte{withAuxPow(safeJSON(wo), types.Kawpow), withAuxPow(safeJSON(richWO(types.Scrypt, true)), types.Scrypt)}, func() interface{} { return new(types.WorkObject) })
	jinto("types.WorkObjectHeader", [][]byte{withAuxPow(safeJSON(richWOHeader(types.Kawpow, true)), types.Kawpow), withAuxPow(safeJSON(richWOHeader(types.Scrypt, true)), types.Scrypt), withAuxPow(safeJSON(richWOHeader(types.SHA_BTC, true)), types.SHA_BTC)},
		func() interface{} { return new(types.WorkObjectHeader) })
	jinto("types.WorkObjectBody", [][]byte{withAuxPow(safeJSON(richBody()), types.Kawpow)}, func() interface{} { return new(types.WorkObjectBody) })
	jinto("types.Termini", [][]byte{[]byte(`{"domTermini":["` + h(1).Hex() + `","` + h(2).Hex() + `","` + h(3).Hex() + `"],"subTermini":["` + h(4).Hex() + `","` + h(5).Hex() + `","` + h(6).Hex() + `"]}`)}, func() interface{} { return new(types.Termini) })
	jinto("types.AuxPow", [][]byte{auxPowJSON(types.Kawpow), auxPowJSON(types.SHA_BTC), auxPowJSON(types.SHA_BCH), auxPowJSON(types.Scrypt)},
		func() interface{} { return new(types.AuxPow) })
	jinto("types.PowShareDiffAndCount", [][]byte{[]byte(`{"difficulty":"0x1000","count":"0x2","uncled":"0x1"}`)}, func() interface{} { return new(types.PowShareDiffAndCount) })
	jinto("types.UtxoEntry", [][]byte{[]byte(`{"denomination":"0x4","address":"` + qiAddrIn(4).Hex() + `","lock":"0x9"}`)}, func() interface{} { return new(types.UtxoEntry) })
	jinto("common.Address", [][]byte{q(addrIn(1).Hex())}, func() interface{} { return new(common.Address) })
	jinto("common.InternalAddress", [][]byte{q(addrIn(1).Hex())}, func() interface{} { return new(common.InternalAddress) })
	jinto("common.ExternalAddress", [][]byte{q(addrIn(1).Hex())}, func() interface{} { return new(common.ExternalAddress) })
	jinto("rpc.BlockNumber", [][]byte{q("0x10"), q("latest"), q("pending"), q("earliest")}, func() interface{} { return new(rpc.BlockNumber) })
	jinto("rpc.BlockNumberOrHash", [][]byte{q("0x10"), q("latest"), q(h(1).Hex()), []byte(`{"blockHash":"` + h(1).Hex() + `","requireCanonical":true}`), []byte(`{"blockNumber":"0x5"}`)},
		func() interface{} { return new(rpc.BlockNumberOrHash) })
	jinto("rpc.DecimalOrHex", [][]byte{q("0x10"), []byte("16"), q("16")}, func() interface{} { return new(rpc.DecimalOrHex) })
	jinto("filters.FilterCriteria", [][]byte{
		[]byte(`{"fromBlock":"0x1","toBlock":"latest","address":"` + addrIn(1).Hex() + `","topics":["` + h(1).Hex() + `",null,["` + h(2).Hex() + `","` + h(3).Hex() + `"]]}`),
		[]byte(`{"blockHash":"` + h(1).Hex() + `","address":["` + addrIn(1).Hex() + `","` + addrIn(2).Hex() + `"],"topics":[]}`),
	}, func() interface{} { return new(filters.FilterCriteria) })

	// ----- encoding.TextUnmarshaler -----
	tinto := func(name string, seeds []string, fresh func() encoding.TextUnmarshaler) {
		var ss [][]byte
		for _, s := range seeds {
			ss = append(ss, []byte(s))
		}
		es = append(es, &Entry{Name: "text.Unmarshal/" + name, Seeds: ss, Fn: func(in []byte) (bool, error) {
			v := fresh()
			if err := v.UnmarshalText(in); err != nil {
				return len(in) >= 2 && in[0] == '0', err
			}
			return true, nil
		}})
	}
	tinto("common.Address", []string{addrIn(1).Hex()}, func() encoding.TextUnmarshaler { return new(common.Address) })
	tinto("common.InternalAddress", []string{addrIn(1).Hex()}, func() encoding.TextUnmarshaler { return new(common.InternalAddress) })
	tinto("common.ExternalAddress", []string{addrIn(1).Hex()}, func() encoding.TextUnmarshaler { return new(common.ExternalAddress) })
	tinto("common.UnprefixedAddress", []string{addrIn(1).Hex()[2:]}, func() encoding.TextUnmarshaler { return new(common.UnprefixedAddress) })
	tinto("common.Hash", []string{h(1).Hex()}, func() encoding.TextUnmarshaler { return new(common.Hash) })
	tinto("common.UnprefixedHash", []string{h(1).Hex()[2:]}, func() encoding.TextUnmarshaler { return new(common.UnprefixedHash) })
	tinto("hexutil.Bytes", []string{"0x0102ff", "0x"}, func() encoding.TextUnmarshaler { return new(hexutil.Bytes) })
	tinto("hexutil.Big", []string{"0x1234567890abcdef1234567890", "0x0"}, func() encoding.TextUnmarshaler { return new(hexutil.Big) })
	tinto("hexutil.Uint64", []string{"0xffffffffffffffff", "0x1"}, func() encoding.TextUnmarshaler { return new(hexutil.Uint64) })
	tinto("hexutil.Uint", []string{"0xff"}, func() encoding.TextUnmarshaler { return new(hexutil.Uint) })
	tinto("math.HexOrDecimal256", []string{"0x1234", "1234"}, func() encoding.TextUnmarshaler { return new(qmath.HexOrDecimal256) })
	tinto("math.HexOrDecimal64", []string{"0x1234", "1234"}, func() encoding.TextUnmarshaler { return new(qmath.HexOrDecimal64) })
	tinto("math.Decimal256", []string{"1234", "0"}, func() encoding.TextUnmarshaler { return new(qmath.Decimal256) })
	tinto("types.BlockNonce", []string{"0x0102030405060708"}, func() encoding.TextUnmarshaler { return new(types.BlockNonce) })
	bloom := types.CreateBloom(types.Receipts{richReceipt()})
	tinto("types.Bloom", []string{hx(bloom.Bytes())}, func() encoding.TextUnmarshaler { return new(types.Bloom) })

	// ----- generic RLP targets: the paths of rlp/decode.go itself -----
	rinto := func(name string, seeds [][]byte, fresh func() interface{}) {
		es = append(es, &Entry{Name: "rlp.DecodeBytes/" + name, Seeds: seeds, Format: "rlp", Fn: func(in []byte) (bool, error) {
			v := fresh()
			if err := rlp.DecodeBytes(in, v); err != nil {
				return false, err
			}
			return true, nil
		}})
	}
	rinto("generic.big.Int", [][]byte{must(rlp.EncodeToBytes(new(big.Int).Lsh(big.NewInt(1), 200))), must(rlp.EncodeToBytes(big.NewInt(0)))}, func() interface{} { return new(big.Int) })
	rinto("generic.uint64", [][]byte{must(rlp.EncodeToBytes(uint64(1) << 63))}, func() interface{} { return new(uint64) })
	rinto("generic.bytes", [][]byte{must(rlp.EncodeToBytes(bytes.Repeat([]byte{7}, 60)))}, func() interface{} { return new([]byte) })
	rinto("generic.hashes", [][]byte{must(rlp.EncodeToBytes([]common.Hash{h(1), h(2), h(3)}))}, func() interface{} { return new([]common.Hash) })
	rinto("generic.nested", [][]byte{must(rlp.EncodeToBytes([][][]byte{{{1}, {2, 3}}, {}, {{4}}}))}, func() interface{} { return new([][][]byte) })
	opt := &rlpOpt{A: 5, B: big.NewInt(9), C: []byte{1, 2}, D: [][]byte{{3}, {4, 5}}}
	rinto("generic.optional", [][]byte{must(rlp.EncodeToBytes(opt)), must(rlp.EncodeToBytes(&rlpOpt{A: 1, B: big.NewInt(1)}))}, func() interface{} { return new(rlpOpt) })
	tail := &rlpTail{A: [4]byte{1, 2, 3, 4}, B: true, S: "quai", P: opt, Raw: rlp.RawValue{0xc2, 0x01, 0x02}, Tail: []uint16{1, 2, 65535}}
	rinto("generic.tail", [][]byte{must(rlp.EncodeToBytes(tail))}, func() interface{} { return new(rlpTail) })
	rinto("generic.interface", [][]byte{must(rlp.EncodeToBytes(tail)), must(rlp.EncodeToBytes(opt))}, func() interface{} { var x interface{}; return &x })
	return es
}

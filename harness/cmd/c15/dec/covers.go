package dec

import (
	"fmt"
	"os"
	"sort"
	"strings"

	"verifharness/cmd/c15/inv"
	"verifharness/hlib"
)

// Which decode entry points of the source inventory (inv.Scan: "<package dir>.<Type>.<Method>")
// an entry of the sweep exercises: the method the entry calls itself, or one that the called
// method reaches on EVERY valid seed (noted).  An entry counts only if at least one of its valid
// seeds ran through without error in this run (sweep.okDeep), so a fixture that stopped
// decoding cannot keep a decoder "swept".
const ty = "core/types."

var coverTable = []struct {
	prefix string // entry name or a prefix of it
	covers []string
}{
	{"pb.UnmarshalAndConvert/BlockView", []string{ty + "WorkObjectBlockView.ProtoDecode"}},
	{"pb.UnmarshalAndConvert/HeaderView", []string{ty + "WorkObjectHeaderView.ProtoDecode"}},
	{"pb.UnmarshalAndConvert/ShareView", []string{ty + "WorkObjectShareView.ProtoDecode"}},
	{"pb.UnmarshalAndConvert/Hash", []string{"common.Hash.ProtoDecode"}},
	{"pb.UnmarshalAndConvert/AuxTemplate", []string{ty + "AuxTemplate.ProtoDecode"}},
	{"types.Header.ProtoDecode", []string{ty + "Header.ProtoDecode"}},
	// WorkObjectHeader.ProtoDecode decodes sha/scrypt DiffAndCount of every fixture through PowShareDiffAndCount.ProtoDecode
	{"types.WorkObjectHeader.ProtoDecode", []string{ty + "WorkObjectHeader.ProtoDecode", ty + "PowShareDiffAndCount.ProtoDecode"}},
	{"types.WorkObject[view=", []string{ty + "WorkObject.ProtoDecode"}},
	{"types.WorkObjectBody[view=", []string{ty + "WorkObjectBody.ProtoDecode"}},
	{"types.Transaction@", []string{ty + "Transaction.ProtoDecode"}},
	{"types.Transactions.ProtoDecode", []string{ty + "Transactions.ProtoDecode"}},
	{"types.AccessList.ProtoDecode", []string{ty + "AccessList.ProtoDecode"}},
	{"types.AuxPow.ProtoDecode", []string{ty + "AuxPow.ProtoDecode"}},
	{"types.ReceiptsForStorage.ProtoDecode", []string{ty + "ReceiptsForStorage.ProtoDecode"}},
	{"types.ReceiptForStorage.ProtoDecode", []string{ty + "ReceiptForStorage.ProtoDecode"}},
	{"types.LogForStorage.ProtoDecode", []string{ty + "LogForStorage.ProtoDecode"}},
	{"types.TxIns.ProtoDecode", []string{ty + "TxIns.ProtoDecode"}},
	{"types.TxOuts.ProtoDecode", []string{ty + "TxOuts.ProtoDecode"}},
	{"types.TxIn.ProtoDecode", []string{ty + "TxIn.ProtoDecode"}},
	{"types.TxOut+UtxoEntry.ProtoDecode", []string{ty + "TxOut.ProtoDecode", ty + "UtxoEntry.ProtoDecode"}},
	{"types.OutPoint.ProtoDecode", []string{ty + "OutPoint.ProtoDecode"}},
	{"types.OutpointAndDenomination.ProtoDecode", []string{ty + "OutpointAndDenomination.ProtoDecode"}},
	{"types.SpentUtxoEntry.ProtoDecode", []string{ty + "SpentUtxoEntry.ProtoDecode"}},
	{"types.EtxSet.ProtoDecode", []string{ty + "EtxSet.ProtoDecode"}},
	{"types.TokenChoiceSet.ProtoDecode", []string{ty + "TokenChoiceSet.ProtoDecode"}},
	{"types.Betas.ProtoDecode", []string{ty + "Betas.ProtoDecode"}},
	{"types.PendingEtxs.ProtoDecode", []string{ty + "PendingEtxs.ProtoDecode"}},
	{"types.PendingEtxsRollup.ProtoDecode", []string{ty + "PendingEtxsRollup.ProtoDecode"}},
	{"types.PendingHeader.ProtoDecode", []string{ty + "PendingHeader.ProtoDecode"}},
	{"types.Termini.ProtoDecode", []string{ty + "Termini.ProtoDecode"}},
	{"types.BlockManifest.ProtoDecode", []string{ty + "BlockManifest.ProtoDecode"}},
	{"types.common.Address.ProtoDecode", []string{"common.Address.ProtoDecode"}},
	{"types.common.Hashes.ProtoDecode", []string{"common.Hashes.ProtoDecode"}},
	{"types.common.Location.ProtoDecode", []string{"common.Location.ProtoDecode"}},
	{"donor.RavencoinBlockHeader.Deserialize", []string{ty + "RavencoinBlockHeader.Deserialize"}},
	{"donor.BitcoinHeaderWrapper.Deserialize", []string{ty + "BitcoinHeaderWrapper.Deserialize"}},
	{"donor.BitcoinCashHeaderWrapper.Deserialize", []string{ty + "BitcoinCashHeaderWrapper.Deserialize"}},
	{"donor.LitecoinHeaderWrapper.Deserialize", []string{ty + "LitecoinHeaderWrapper.Deserialize"}},
	{"rlp.Transaction.UnmarshalBinary", []string{ty + "Transaction.UnmarshalBinary"}},
	{"rlp.DecodeBytes/Transaction", []string{ty + "Transaction.DecodeRLP"}},
	{"rlp.DecodeBytes/Receipt", []string{ty + "Receipt.DecodeRLP"}},
	{"rlp.DecodeBytes/ReceiptForStorage", []string{ty + "ReceiptForStorage.DecodeRLP"}},
	{"rlp.DecodeBytes/Log", []string{ty + "Log.DecodeRLP"}},
	{"rlp.DecodeBytes/LogForStorage", []string{ty + "LogForStorage.DecodeRLP"}},
	{"rlp.DecodeBytes/Address", []string{"common.Address.DecodeRLP"}},
	{"json.Unmarshal/hexutil.Bytes", []string{"common/hexutil.Bytes.UnmarshalJSON"}},
	{"json.Unmarshal/hexutil.Big", []string{"common/hexutil.Big.UnmarshalJSON"}},
	{"json.Unmarshal/hexutil.Uint64", []string{"common/hexutil.Uint64.UnmarshalJSON"}},
	{"json.Unmarshal/hexutil.Uint", []string{"common/hexutil.Uint.UnmarshalJSON"}},
	{"json.Unmarshal/common.Hash", []string{"common.Hash.UnmarshalJSON"}},
	{"json.Unmarshal/common.AddressBytes", []string{"common.AddressBytes.UnmarshalJSON"}},
	{"json.Unmarshal/common.MixedcaseAddress", []string{"common.MixedcaseAddress.UnmarshalJSON"}},
	{"json.Unmarshal/common.Address", []string{"common.Address.UnmarshalJSON"}},
	{"json.Unmarshal/common.InternalAddress", []string{"common.InternalAddress.UnmarshalJSON"}},
	{"json.Unmarshal/common.ExternalAddress", []string{"common.ExternalAddress.UnmarshalJSON"}},
	{"json.Unmarshal/types.Transaction", []string{ty + "Transaction.UnmarshalJSON"}},
	{"json.Unmarshal/types.Header", []string{ty + "Header.UnmarshalJSON"}},
	{"json.Unmarshal/types.Receipt", []string{ty + "Receipt.UnmarshalJSON"}},
	{"json.Unmarshal/types.Log", []string{ty + "Log.UnmarshalJSON"}},
	// AccessList has no unmarshaler of its own: encoding/json calls AccessTuple.UnmarshalJSON per element
	{"json.Unmarshal/types.AccessList", []string{ty + "AccessTuple.UnmarshalJSON"}},
	{"json.Unmarshal/types.OutpointAndDenomination", []string{ty + "OutpointAndDenomination.UnmarshalJSON"}},
	{"json.Unmarshal/types.WorkObjectHeader", []string{ty + "WorkObjectHeader.UnmarshalJSON"}},
	{"json.Unmarshal/types.WorkObjectBody", []string{ty + "WorkObjectBody.UnmarshalJSON"}},
	{"json.Unmarshal/types.WorkObject", []string{ty + "WorkObject.UnmarshalJSON"}},
	{"json.Unmarshal/types.Termini", []string{ty + "Termini.UnmarshalJSON"}},
	{"json.Unmarshal/types.AuxPow", []string{ty + "AuxPow.UnmarshalJSON"}},
	{"json.Unmarshal/types.PowShareDiffAndCount", []string{ty + "PowShareDiffAndCount.UnmarshalJSON"}},
	{"json.Unmarshal/types.UtxoEntry", []string{ty + "UtxoEntry.UnmarshalJSON"}},
	{"json.Unmarshal/rpc.BlockNumberOrHash", []string{"rpc.BlockNumberOrHash.UnmarshalJSON"}},
	{"json.Unmarshal/rpc.BlockNumber", []string{"rpc.BlockNumber.UnmarshalJSON"}},
	{"json.Unmarshal/rpc.DecimalOrHex", []string{"rpc.DecimalOrHex.UnmarshalJSON"}},
	{"json.Unmarshal/filters.FilterCriteria", []string{"quai/filters.FilterCriteria.UnmarshalJSON"}},
	{"text.Unmarshal/common.Address", []string{"common.Address.UnmarshalText"}},
	{"text.Unmarshal/common.InternalAddress", []string{"common.InternalAddress.UnmarshalText"}},
	{"text.Unmarshal/common.ExternalAddress", []string{"common.ExternalAddress.UnmarshalText"}},
	{"text.Unmarshal/common.UnprefixedAddress", []string{"common.UnprefixedAddress.UnmarshalText"}},
	{"text.Unmarshal/common.Hash", []string{"common.Hash.UnmarshalText"}},
	{"text.Unmarshal/common.UnprefixedHash", []string{"common.UnprefixedHash.UnmarshalText"}},
	{"text.Unmarshal/hexutil.Bytes", []string{"common/hexutil.Bytes.UnmarshalText"}},
	{"text.Unmarshal/hexutil.Big", []string{"common/hexutil.Big.UnmarshalText"}},
	{"text.Unmarshal/hexutil.Uint64", []string{"common/hexutil.Uint64.UnmarshalText"}},
	{"text.Unmarshal/hexutil.Uint", []string{"common/hexutil.Uint.UnmarshalText"}},
	{"text.Unmarshal/math.HexOrDecimal256", []string{"common/math.HexOrDecimal256.UnmarshalText"}},
	{"text.Unmarshal/math.HexOrDecimal64", []string{"common/math.HexOrDecimal64.UnmarshalText"}},
	{"text.Unmarshal/math.Decimal256", []string{"common/math.Decimal256.UnmarshalText"}},
	{"text.Unmarshal/types.BlockNonce", []string{ty + "BlockNonce.UnmarshalText"}},
	{"text.Unmarshal/types.Bloom", []string{ty + "Bloom.UnmarshalText"}},
	// rawdb.ReadBloom: proto.Unmarshal into ProtoBloom, then Bloom.ProtoDecode
	{"rawdb.ReadBloom[", []string{ty + "Bloom.ProtoDecode"}},
}

// Exempt: decoders of the inventory that are deliberately NOT swept, with the reason.  The same
// list is `decoders_exempt` in coq/Model/C15.v; the mkInv case compares the two.
var Exempt = map[string]string{
	"core.Genesis.UnmarshalJSON":                        "operator-supplied genesis file (configuration), not peer / RPC / disk-readback input",
	"core.storageJSON.UnmarshalText":                    "part of the genesis file decoder",
	"core/rawdb.LegacyTxLookupEntry.ProtoDecode":        "no caller in the tree (dead code)",
	"core/types.AuxPowTx.Deserialize":                   "no implementation of AuxPowTxData and no caller in the tree (dead code)",
	"p2p/node/peerManager/peerdb.AddrInfo.ProtoDecode":  "peer database record: linking the package needs modules that harness/go.mod does not list (not covered, see design/C15.md)",
	"p2p/node/peerManager/peerdb.PeerInfo.ProtoDecode":  "peer database record: as above",
	"core/vm.StructLog.UnmarshalJSON":                   "tracer OUTPUT type; never decoded by the node",
	"crypto/blake2b.digest.UnmarshalBinary":             "hash-state serialisation of the vendored blake2b; no caller",
	"quai/abi.ABI.UnmarshalJSON":                        "contract ABI for local binding tools, not a node input",
	"quai/abi.Argument.UnmarshalJSON":                   "contract ABI for local binding tools, not a node input",
	"quaiclient/ethclient.rpcTransaction.UnmarshalJSON": "client library (decodes a node's answers), not the node",
	"trie.StackTrie.UnmarshalBinary":                    "no caller outside tests",
}

func coversFor(name string) []string {
	var out []string
	for _, r := range coverTable {
		if name == r.prefix || strings.HasPrefix(name, r.prefix) && (strings.HasSuffix(r.prefix, "[") || strings.HasSuffix(r.prefix, "=") || strings.HasSuffix(r.prefix, "@")) {
			out = append(out, r.covers...)
		}
	}
	return out
}

// Inventory is the outcome of one run: what the source defines, what the sweep exercised.
type Inventory struct {
	Source  []string // inv.Scan of the tree under test
	Swept   []string // decoders covered by an entry that ran a valid seed to the end
	Exempt  []string
	Missing []string // Source - Swept - Exempt
}

func (s *sweep) inventory() *Inventory {
	root := os.Getenv("VERIF_REPO")
	if root == "" {
		root = "/repo"
	}
	iv := &Inventory{}
	src, err := inv.Scan(root)
	if err != nil {
		s.warn("inventory scan: " + err.Error())
	}
	iv.Source = src
	set := map[string]bool{}
	for _, e := range s.entries {
		if !s.okDeep[e.Name] {
			continue
		}
		for _, c := range e.Covers {
			set[c] = true
		}
	}
	for c := range set {
		iv.Swept = append(iv.Swept, c)
	}
	sort.Strings(iv.Swept)
	for c := range Exempt {
		iv.Exempt = append(iv.Exempt, c)
	}
	sort.Strings(iv.Exempt)
	for _, d := range src {
		if !set[d] && Exempt[d] == "" {
			iv.Missing = append(iv.Missing, d)
		}
	}
	return iv
}

// CoqStrings prints a Coq list of strings.
func CoqStrings(xs []string) string {
	var sb strings.Builder
	sb.WriteString("[")
	for i, x := range xs {
		if i > 0 {
			sb.WriteString(";")
		}
		sb.WriteString("\"" + strings.ReplaceAll(x, "\"", "\"\"") + "\"")
	}
	sb.WriteString("]")
	return sb.String()
}

// report: monitor `inventory:<decoder>:not-swept` (model independent: source scan vs what ran).
func (iv *Inventory) report(rep *hlib.Report) {
	rep.Distribution["inventory:source-decoders"] = len(iv.Source)
	rep.Distribution["inventory:swept"] = len(iv.Swept)
	rep.Distribution["inventory:exempt"] = len(iv.Exempt)
	for _, d := range iv.Missing {
		rep.Fail("inventory:"+d+":not-swept",
			fmt.Sprintf("the source tree defines the decode entry point %s, which no entry of the decoder sweep exercised in this run (new decoder, or the fixture of its entry no longer decodes) and which is not listed as out of scope", d),
			map[string]any{"id": 9_999_999, "kind": "inv", "decoder": d})
	}
}

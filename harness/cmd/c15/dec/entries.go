package dec

import (
	"bytes"
	"errors"
	"math/big"
	"strings"

	"github.com/dominant-strategies/go-quai/common"
	"github.com/dominant-strategies/go-quai/core"
	"github.com/dominant-strategies/go-quai/core/types"
	"github.com/dominant-strategies/go-quai/p2p/node/pubsubManager"
	"github.com/dominant-strategies/go-quai/p2p/pb"
	"github.com/dominant-strategies/go-quai/params"
	pubsub "github.com/libp2p/go-libp2p-pubsub"
	"google.golang.org/protobuf/proto"
)

// Entry = one production decode (+ pre-validation) entry point, fed with bytes.
type Entry struct {
	Name   string
	Fn     func(in []byte) (deep bool, err error) // deep: got past the outer unmarshal / first guard
	Protos []proto.Message                        // valid messages whose mutations are fed to Fn
	Seeds  [][]byte                               // valid raw inputs (for non-protobuf entries)
	Format string                                 // "json" / "rlp" / "rlp1" (one type byte, then RLP): seeds also get per-node structured mutations
	Quick  int                                    // protos that get the exhaustive one-field-at-a-time sweep in the quick tier: 0 = the first, n > 0 = the first n, -1 = none (all of them in thorough)
	AllocC uint64                                 // allocation bound: AllocC*len(in) + AllocK
	AllocK uint64
	// Fix re-commits a mutated message in place so that it passes the validation stages in front of the
	// mutated field (roots, seal commitment; reseal.go); reports whether it changed anything.  Every
	// structured mutation of an entry with a Fix is fed twice: as mutated, and re-committed.
	Fix func(m proto.Message) bool
	// Covers: the decode entry points of the source inventory (harness/cmd/c15/inv) this entry exercises (covers.go)
	Covers []string
}

func must[T any](v T, err error) T {
	if err != nil {
		panic(err)
	}
	return v
}

var (
	zoneValidator   = core.NewBlockValidator(&params.ChainConfig{ChainID: big.NewInt(1), Location: common.Location{0, 0}}, nil, nil)
	regionValidator = core.NewBlockValidator(&params.ChainConfig{ChainID: big.NewInt(1), Location: common.Location{0}}, nil, nil)
	primeValidator  = core.NewBlockValidator(&params.ChainConfig{ChainID: big.NewInt(1), Location: common.Location{}}, nil, nil)
)

// what production code does with a decoded work object right after decoding (logging fields,
// cache keys): hashes and accessors.  Only reached when decoding succeeded.
func touchWO(wo *types.WorkObject) {
	if wo == nil || wo.WorkObjectHeader() == nil {
		return
	}
	_ = wo.Hash()
	_ = wo.SealHash()
	_ = wo.Location()
	_ = wo.WorkObjectHeader().Hash()
	if wo.Body() != nil {
		for _, tx := range wo.Transactions() {
			_ = tx.Hash()
		}
		for _, tx := range wo.OutboundEtxs() {
			_ = tx.Hash()
		}
		for _, u := range wo.Uncles() {
			_ = u.Hash()
		}
	}
}

func protoWorkObjectLocation(p *types.ProtoWorkObject) (common.Location, bool) {
	if p == nil || p.GetWoHeader() == nil || p.GetWoHeader().GetLocation() == nil {
		return nil, false
	}
	return p.GetWoHeader().GetLocation().GetValue(), true
}

var errReject = errors.New("rejected")
var errSanity = errors.New("sanity check failed in every context")

func networkEntries() []*Entry {
	var es []*Entry
	// ----- valid views -----
	var blockViews, headerViews, shareViews []proto.Message
	bv := func(wo *types.WorkObject) {
		blockViews = append(blockViews, must((&types.WorkObjectBlockView{WorkObject: wo}).ProtoEncode()))
	}
	hv := func(wo *types.WorkObject) {
		headerViews = append(headerViews, must((&types.WorkObjectHeaderView{WorkObject: wo}).ProtoEncode()))
	}
	sv := func(wo *types.WorkObject) {
		shareViews = append(shareViews, must((&types.WorkObjectShareView{WorkObject: wo}).ProtoEncode()))
	}
	// the first two of each list get the exhaustive one-field-at-a-time sweep in the quick tier
	bv(zoneBlockWO(types.Kawpow, true))
	bv(richWO(types.Kawpow, true)) // every body field populated at once (fails the sanity check late)
	bv(zoneBlockWO(types.Progpow, false))
	bv(domBlockWO(common.REGION_CTX))
	bv(domBlockWO(common.PRIME_CTX))
	hv(zoneHeaderWO(types.Kawpow, true))
	hv(richWO(types.Kawpow, true))
	hv(zoneHeaderWO(types.Progpow, false))
	hv(domBlockWO(common.REGION_CTX))
	hv(domBlockWO(common.PRIME_CTX))
	sv(deepShareWO(types.Scrypt))
	sv(deepShareWO(types.SHA_BTC))
	sv(shareWO(types.Scrypt, true))
	sv(shareWO(types.Kawpow, true))
	sv(deepShareWO(types.SHA_BCH))
	sv(deepShareWO(types.Kawpow))
	sv(shareWO(types.SHA_BTC, true))
	sv(shareWO(types.SHA_BCH, true))
	sv(shareWO(types.Progpow, false))
	sv(richWO(types.Scrypt, true))
	auxTemplates := []proto.Message{}
	for _, at := range []*types.AuxTemplate{types.DefaultKawpowAuxTemplate(), types.DefaultScryptAuxTemplate(), types.DefaultShaBchAuxTemplate()} {
		at.SetMerkleBranch([][]byte{h(1).Bytes(), h(2).Bytes()})
		at.SetSigs(make([]byte, 64))
		at.SetCoinbaseOut(coinbaseOut())
		auxTemplates = append(auxTemplates, at.ProtoEncode())
	}

	// 1. p2p/pb UnmarshalAndConvert per datatype
	uac := func(name string, datatype interface{}, protos []proto.Message, loc common.Location) {
		quick := 2
		if strings.Contains(name, "@") {
			quick = -1
		}
		if name == "ShareView" {
			quick = 3
		}
		es = append(es, &Entry{Name: "pb.UnmarshalAndConvert/" + name, Protos: protos, AllocK: 8 << 20, Quick: quick, Fn: func(in []byte) (bool, error) {
			var out interface{}
			err := pb.UnmarshalAndConvert(in, loc, &out, datatype)
			if err != nil {
				return false, err
			}
			switch v := out.(type) {
			case types.WorkObjectBlockView:
				touchWO(v.WorkObject)
			case types.WorkObjectHeaderView:
				touchWO(v.WorkObject)
			case types.WorkObjectShareView:
				touchWO(v.WorkObject)
			case *types.AuxTemplate:
				_ = v.Hash()
				_ = v.VerifySignature()
			}
			return true, nil
		}})
	}
	uac("BlockView", &types.WorkObjectBlockView{}, blockViews, loc00)
	uac("HeaderView", &types.WorkObjectHeaderView{}, headerViews, loc00)
	uac("ShareView", &types.WorkObjectShareView{}, shareViews, loc00)
	uac("BlockView@region", &types.WorkObjectBlockView{}, blockViews, common.Location{0})
	uac("BlockView@prime", &types.WorkObjectBlockView{}, blockViews, common.Location{})
	uac("Hash", common.Hash{}, []proto.Message{h(3).ProtoEncode()}, loc00)
	uac("AuxTemplate", &types.AuxTemplate{}, auxTemplates, loc00)

	// 2. request/response stream frames: DecodeQuaiMessage then DecodeQuaiRequest / DecodeQuaiResponse (p2p/protocol/handler.go handleMessage)
	var frames []proto.Message
	addFrame := func(b []byte, err error) {
		if err != nil {
			panic(err)
		}
		m := &pb.QuaiMessage{}
		if err := proto.Unmarshal(b, m); err != nil {
			panic(err)
		}
		frames = append(frames, m)
	}
	hash := h(4)
	wo := richWO(types.Kawpow, true)
	// the first three get the one-field-at-a-time sweep in the quick tier: a request, a block response, a hash response
	addFrame(pb.EncodeQuaiRequest(7, loc00, hash, &types.WorkObjectBlockView{}))
	addFrame(pb.EncodeQuaiResponse(11, loc00, &types.WorkObjectBlockView{}, &types.WorkObjectBlockView{WorkObject: wo}))
	addFrame(pb.EncodeQuaiResponse(14, loc00, &common.Hash{}, hash))
	addFrame(pb.EncodeQuaiRequest(8, loc00, big.NewInt(99), common.Hash{}))
	addFrame(pb.EncodeQuaiRequest(9, loc00, hash, &types.WorkObjectHeaderView{}))
	addFrame(pb.EncodeQuaiRequest(10, loc00, hash, []*types.WorkObjectBlockView{}))
	addFrame(pb.EncodeQuaiResponse(12, loc00, &types.WorkObjectHeaderView{}, &types.WorkObjectHeaderView{WorkObject: wo}))
	addFrame(pb.EncodeQuaiResponse(13, loc00, []*types.WorkObjectBlockView{}, []*types.WorkObjectBlockView{{WorkObject: wo}, {WorkObject: richWO(types.Progpow, false)}}))
	es = append(es, &Entry{Name: "pb.DecodeQuaiMessage+Request/Response", Protos: frames, Quick: 3, AllocK: 8 << 20, Fn: func(in []byte) (bool, error) {
		msg, err := pb.DecodeQuaiMessage(in)
		if err != nil {
			return false, err
		}
		switch {
		case msg.GetRequest() != nil:
			_, _, _, _, err := pb.DecodeQuaiRequest(msg.GetRequest())
			return true, err
		case msg.GetResponse() != nil:
			_, v, err := pb.DecodeQuaiResponse(msg.GetResponse())
			if err != nil {
				return true, err
			}
			switch x := v.(type) {
			case *types.WorkObjectBlockView:
				touchWO(x.WorkObject)
			case *types.WorkObjectHeaderView:
				touchWO(x.WorkObject)
			case []*types.WorkObjectBlockView:
				for _, b := range x {
					touchWO(b.WorkObject)
				}
			}
			return true, nil
		}
		return true, errReject
	}})

	// 3. gossip validators: the PRODUCTION PubsubManager.ValidatorFunc (through the verif hook
	// p2p/node/pubsubManager/verif_c15_export.go: stub consensus backend, real SanityCheck* methods),
	// for a zone, a region and a prime node.
	current := currentHeaderWO()
	nodes := []struct {
		name string
		ctx  int
		g    *pubsubManager.VerifC15Gossip
	}{
		{"zone", common.ZONE_CTX, pubsubManager.VerifC15NewGossip(common.Location{0, 0}, current)},
		{"region", common.REGION_CTX, pubsubManager.VerifC15NewGossip(common.Location{0}, current)},
		{"prime", common.PRIME_CTX, pubsubManager.VerifC15NewGossip(common.Location{}, current)},
	}
	gossip := func(name string, datatype interface{}, protos []proto.Message, shallow func(in []byte) bool) {
		for _, nd := range nodes {
			nd := nd
			if nd.name != "zone" && (name == "ShareView" || name == "AuxTemplate") {
				continue
			}
			quick := 2
			if nd.name != "zone" {
				quick = -1
			}
			if name == "ShareView" {
				quick = 3
			}
			var fix func(m proto.Message) bool
			switch name {
			case "BlockView":
				fix = resealer(resealBlock, nd.ctx)
			case "HeaderView":
				fix = resealer(resealHeader, nd.ctx)
			case "ShareView":
				fix = resealer(resealShare, nd.ctx)
			}
			es = append(es, &Entry{Name: "gossip." + name + "@" + nd.name, Protos: protos, Quick: quick, Fix: fix, AllocK: 8 << 20, // signature verification: constant ~1.5 MB of big-number work
				Fn: func(in []byte) (bool, error) {
					res, err := nd.g.Validate(datatype, in)
					if err != nil {
						return false, err
					}
					deep := shallow(in)
					if res != pubsub.ValidationAccept {
						return deep, errReject
					}
					return deep, nil
				}})
		}
	}
	gossip("BlockView", &types.WorkObjectBlockView{}, blockViews, func(in []byte) bool {
		p := new(types.ProtoWorkObjectBlockView)
		if proto.Unmarshal(in, p) != nil {
			return false
		}
		_, ok := protoWorkObjectLocation(p.GetWorkObject())
		return ok
	})
	gossip("HeaderView", &types.WorkObjectHeaderView{}, headerViews, func(in []byte) bool {
		p := new(types.ProtoWorkObjectHeaderView)
		if proto.Unmarshal(in, p) != nil {
			return false
		}
		_, ok := protoWorkObjectLocation(p.GetWorkObject())
		return ok
	})
	gossip("ShareView", &types.WorkObjectShareView{}, shareViews, func(in []byte) bool {
		p := new(types.ProtoWorkObjectShareView)
		if proto.Unmarshal(in, p) != nil {
			return false
		}
		_, ok := protoWorkObjectLocation(p.GetWorkObject())
		return ok
	})
	gossip("AuxTemplate", &types.AuxTemplate{}, auxTemplates, func(in []byte) bool {
		return proto.Unmarshal(in, new(types.ProtoAuxTemplate)) == nil
	})
	return es
}

// ---------- donor chain parsers ----------

func donorEntries() []*Entry {
	var es []*Entry
	hdrSeeds := func(id types.PowID) [][]byte {
		ap := richAuxPow(id)
		return [][]byte{ap.ProtoEncode().GetHeader()}
	}
	es = append(es, &Entry{Name: "donor.RavencoinBlockHeader.Deserialize", Seeds: hdrSeeds(types.Kawpow), Fn: func(in []byte) (bool, error) {
		hd := &types.RavencoinBlockHeader{}
		if err := hd.Deserialize(bytes.NewReader(in)); err != nil {
			return false, err
		}
		x := types.NewAuxPowHeader(hd)
		_ = x.PowHash()
		_ = x.MerkleRoot()
		_ = x.Timestamp()
		return true, nil
	}})
	es = append(es, &Entry{Name: "donor.BitcoinHeaderWrapper.Deserialize", Seeds: hdrSeeds(types.SHA_BTC), Fn: func(in []byte) (bool, error) {
		hd := &types.BitcoinHeaderWrapper{}
		if err := hd.Deserialize(bytes.NewReader(in)); err != nil {
			return false, err
		}
		x := types.NewAuxPowHeader(hd)
		_ = x.PowHash()
		return true, nil
	}})
	es = append(es, &Entry{Name: "donor.BitcoinCashHeaderWrapper.Deserialize", Seeds: hdrSeeds(types.SHA_BCH), Fn: func(in []byte) (bool, error) {
		hd := &types.BitcoinCashHeaderWrapper{}
		if err := hd.Deserialize(bytes.NewReader(in)); err != nil {
			return false, err
		}
		x := types.NewAuxPowHeader(hd)
		_ = x.PowHash()
		return true, nil
	}})
	es = append(es, &Entry{Name: "donor.LitecoinHeaderWrapper.Deserialize", Seeds: hdrSeeds(types.Scrypt), Fn: func(in []byte) (bool, error) {
		hd := &types.LitecoinHeaderWrapper{}
		if err := hd.Deserialize(bytes.NewReader(in)); err != nil {
			return false, err
		}
		x := types.NewAuxPowHeader(hd)
		_ = x.PowHash()
		return true, nil
	}})
	// coinbase utilities on a raw donor coinbase transaction
	var cbSeeds [][]byte
	for _, id := range []types.PowID{types.Kawpow, types.SHA_BTC, types.SHA_BCH, types.Scrypt} {
		cbSeeds = append(cbSeeds, richAuxPow(id).Transaction())
	}
	for _, id := range []types.PowID{types.Kawpow, types.SHA_BTC, types.SHA_BCH, types.Scrypt} {
		id := id
		es = append(es, &Entry{Name: "donor.coinbase/" + id.String(), Seeds: cbSeeds, Fn: func(in []byte) (bool, error) {
			scriptSig := types.ExtractScriptSigFromCoinbaseTx(in)
			_ = types.AuxPowTxHash(id, in)
			_ = types.CalculateMerkleRoot(id, in, [][]byte{h(1).Bytes(), h(2).Bytes()})
			_ = types.CalculateMerkleRoot(id, in, [][]byte{{1, 2, 3}, {}})
			err0 := types.ValidatePrevOutPointIndexAndSequenceOfCoinbase(in)
			if len(scriptSig) == 0 {
				return false, errReject
			}
			_, err1 := types.ExtractSignatureTimeFromCoinbase(scriptSig)
			_, err2 := types.ExtractSealHashFromCoinbase(scriptSig)
			_, _, err3 := types.ExtractMerkleSizeAndNonceFromCoinbase(scriptSig)
			if err0 != nil || err1 != nil || err2 != nil || err3 != nil {
				return true, errReject
			}
			return true, nil
		}})
	}
	// the scriptSig parsers directly on arbitrary bytes
	var ssSeeds [][]byte
	for _, tx := range cbSeeds {
		ssSeeds = append(ssSeeds, types.ExtractScriptSigFromCoinbaseTx(tx))
	}
	es = append(es, &Entry{Name: "donor.scriptSig", Seeds: ssSeeds, Fn: func(in []byte) (bool, error) {
		_, err1 := types.ExtractSignatureTimeFromCoinbase(in)
		_, err2 := types.ExtractSealHashFromCoinbase(in)
		_, _, err3 := types.ExtractMerkleSizeAndNonceFromCoinbase(in)
		if err1 != nil && err2 != nil && err3 != nil {
			return false, errReject
		}
		return true, nil
	}})
	return es
}

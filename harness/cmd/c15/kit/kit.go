// Package kit is shared by the C15 generator (harness/gen/c15jumptable) and the
// C15 harness (harness/cmd/c15): a minimal real EVM environment, the reference
// memory-fee formula and the probes that decide, by CALLING the real dynamicGas
// functions, whether a jump-table row charges memory expansion.
package kit

import (
	"fmt"
	"math/big"

	"github.com/dominant-strategies/go-quai/common"
	"github.com/dominant-strategies/go-quai/core"
	"github.com/dominant-strategies/go-quai/core/rawdb"
	"github.com/dominant-strategies/go-quai/core/state"
	"github.com/dominant-strategies/go-quai/core/types"
	"github.com/dominant-strategies/go-quai/core/vm"
	"github.com/dominant-strategies/go-quai/log"
	"github.com/dominant-strategies/go-quai/params"
	"github.com/holiman/uint256"
)

var Loc = common.Location{0, 0}

// MemGas is the reference total memory fee for w words: 3w + w^2/512 (yellow paper
// C_mem; core/vm/gas_table.go memoryGasCost computes the same total and charges the
// difference to the previous total).  Written with literals on purpose: it is the
// specification the code is compared against, not a copy of params.
func MemGas(w uint64) *big.Int {
	x := new(big.Int).SetUint64(w)
	sq := new(big.Int).Mul(x, x)
	sq.Div(sq, big.NewInt(512))
	return sq.Add(sq, new(big.Int).Mul(x, big.NewInt(3)))
}

func MemGas64(w uint64) uint64 {
	g := MemGas(w)
	if !g.IsUint64() {
		panic("MemGas64 overflow")
	}
	return g.Uint64()
}

// Words = ceil(bytes/32) without wrap-around.
func Words(bytes uint64) uint64 {
	return bytes/32 + b2u(bytes%32 != 0)
}
func b2u(b bool) uint64 {
	if b {
		return 1
	}
	return 0
}

// Addr returns the internal Quai-ledger address 0x0000..00<b> of zone 0-0.
func Addr(b byte) common.Address {
	raw := make([]byte, 20)
	raw[19] = b
	raw[18] = 0xc1
	return common.BytesToAddress(raw, Loc)
}

// ExtAddr returns an address of another zone (region 1, zone 0), Quai ledger.
func ExtAddr(b byte) common.Address {
	raw := make([]byte, 20)
	raw[0] = 0x10
	raw[19] = b
	return common.BytesToAddress(raw, Loc)
}

type Env struct {
	EVM     *vm.EVM
	State   *state.StateDB
	Origin  common.Address
	Self    common.Address // the contract whose code the programs are
	Other   common.Address // a second account without code
	BlockNo uint64
}

// ForkBlock returns a block number before (fork 0) / after (fork 1) the height at
// which the opcodes of vm.NewOpCodes become valid (interpreter.go Run).
func ForkBlock(fork int) uint64 {
	if fork == 0 {
		return params.MaxCodeSizeForkHeight - 10
	}
	return params.MaxCodeSizeForkHeight + 10
}

func NewEnv(logger *log.Logger, blockNo uint64, tracer vm.Tracer) *Env {
	return NewEnvAt(logger, blockNo, params.SelfDestructRefundForkBlock+10, tracer)
}

// PTN returns a prime terminus number before (0) / after (1) params.SelfDestructRefundForkBlock, the
// height that switches the overflow handling of opETX / opConvert and the SELFDESTRUCT refund.
func PTN(after int) uint64 {
	if after == 0 {
		return params.SelfDestructRefundForkBlock - 10
	}
	return params.SelfDestructRefundForkBlock + 10
}

// NewEnvAt is NewEnv with an explicit prime terminus number.
func NewEnvAt(logger *log.Logger, blockNo uint64, primeTerminusNumber uint64, tracer vm.Tracer) *Env {
	vm.InitializePrecompiles(Loc)
	db := rawdb.NewMemoryDatabase(logger)
	sdb, err := state.New(types.EmptyRootHash, types.EmptyRootHash, big.NewInt(0), state.NewDatabase(db), state.NewDatabase(db), nil, Loc, logger)
	if err != nil {
		panic(err)
	}
	sdb.ConfigureAccessListChecks(false)
	e := &Env{State: sdb, Origin: Addr(1), Self: Addr(2), Other: Addr(3), BlockNo: blockNo}
	for _, a := range []common.Address{e.Origin, e.Self, e.Other} {
		ia, err := a.InternalAndQuaiAddress()
		if err != nil {
			panic(fmt.Sprintf("kit: address %x not internal quai: %v", a.Bytes(), err))
		}
		sdb.AddBalance(ia, new(big.Int).Lsh(big.NewInt(1), 80))
	}
	blockCtx := vm.BlockContext{
		CanTransfer:         core.CanTransfer,
		Transfer:            core.Transfer,
		GetHash:             func(uint64) common.Hash { return common.Hash{} },
		CheckIfEtxEligible:  func(common.Hash, common.Location) bool { return true },
		PrimaryCoinbase:     e.Origin,
		GasLimit:            30000000,
		BlockNumber:         new(big.Int).SetUint64(blockNo),
		Time:                big.NewInt(1700000000),
		Difficulty:          big.NewInt(1000000),
		BaseFee:             big.NewInt(1),
		QuaiStateSize:       new(big.Int).Lsh(big.NewInt(1), 20),
		PrimeTerminusNumber: primeTerminusNumber,
	}
	txCtx := vm.TxContext{Origin: e.Origin, GasPrice: big.NewInt(1), Hash: common.BytesToHash([]byte{0xc1, 0x5})}
	cfg := vm.Config{}
	if tracer != nil {
		cfg = vm.Config{Debug: true, Tracer: tracer}
	}
	e.EVM = vm.NewEVM(blockCtx, txCtx, sdb, &params.ChainConfig{ChainID: big.NewInt(1), Location: Loc}, cfg, nil)
	return e
}

// SetCode installs the program as the code of Self.
func (e *Env) SetCode(code []byte) {
	ia, _ := e.Self.InternalAndQuaiAddress()
	e.State.SetCode(ia, code)
}

// NewContract builds a frame object for Self with the given gas (used by the probes).
func (e *Env) NewContract(gas uint64) *vm.Contract {
	return vm.NewContract(vm.AccountRef(e.Origin), vm.AccountRef(e.Self), big.NewInt(0), gas)
}

// ---------- probes on the real dynamicGas / memorySize functions ----------

type ProbeResult struct {
	Charges bool   // dynamicGas includes exactly the memory-expansion fee and updates lastGasCost
	Safe    bool   // memorySize and dynamicGas do not panic on a stack of exactly minStack items
	Detail  string // first failed sub-probe (diagnostics only)
}

const probeGas = uint64(1) << 50

func zeros(n int) []uint256.Int { return make([]uint256.Int, n) }

// callDyn calls the row's dynamicGas on an all-zero stack under recover, inside a state snapshot.
func callDyn(e *Env, table string, op byte, depth int, memLen, last, size uint64) (gas, newLast uint64, err error, panicked bool) {
	snap := e.State.Snapshot()
	defer e.State.RevertToSnapshot(snap)
	defer func() {
		if r := recover(); r != nil {
			panicked = true
		}
	}()
	c := e.NewContract(probeGas)
	gas, newLast, err, _ = vm.VerifC15DynamicGas(e.EVM, c, table, op, zeros(depth), memLen, last, size)
	return
}

// ProbeRow decides Charges/Safe for one defined row.  Charges: with all other
// arguments fixed (zero stack: zero sizes, zero value, zero requested call gas),
//
//	P1 empty memory:        dyn(size=L) - dyn(size=0) = MemGas(words L),      lastGasCost' = MemGas(words L)
//	P2 32 words already paid: dyn(size=L) - dyn(size=0) = MemGas(words L) - MemGas(32)
//	P3 request inside memory: dyn(size=L) - dyn(size=0) = 0,                 lastGasCost unchanged
//	P4 non-multiple of 32 is rounded up to whole words
//	P5 size above 0x1FFFFFFFE0 is refused (error), the maximum itself is priced
//	P6 2 words paid, 3 requested: one more word is charged (word count below the old byte length)
func ProbeRow(e *Env, table string, op byte, row vm.VerifC15Row) ProbeResult {
	res := ProbeResult{Safe: true}
	if !row.Defined {
		return res
	}
	// safety at exactly minStack items
	if row.HasMemorySize {
		func() {
			defer func() {
				if r := recover(); r != nil {
					res.Safe = false
					res.Detail = fmt.Sprintf("memorySize panics at minStack=%d: %v", row.MinStack, r)
				}
			}()
			vm.VerifC15MemorySize(table, op, zeros(row.MinStack))
		}()
	}
	if row.HasDynamicGas {
		if _, _, _, p := callDyn(e, table, op, row.MinStack, 0, 0, 0); p {
			res.Safe = false
			res.Detail = fmt.Sprintf("dynamicGas panics at minStack=%d", row.MinStack)
		}
	}
	if !row.HasDynamicGas || !row.HasMemorySize || !res.Safe {
		return res
	}
	depth := row.MinStack
	fail := func(s string, a ...any) ProbeResult {
		res.Charges = false
		if res.Detail == "" {
			res.Detail = fmt.Sprintf(s, a...)
		}
		return res
	}
	const L = uint64(1 << 20) // 32768 words
	wl := Words(L)
	// P1
	g0, l0, err0, p0 := callDyn(e, table, op, depth, 0, 0, 0)
	g1, l1, err1, p1 := callDyn(e, table, op, depth, 0, 0, L)
	if p0 || p1 || err0 != nil || err1 != nil {
		return fail("P1 error/panic: %v %v", err0, err1)
	}
	if l0 != 0 || g1 < g0 || g1-g0 != MemGas64(wl) || l1 != MemGas64(wl) {
		return fail("P1: dyn(L)-dyn(0)=%d want %d; last'=%d", int64(g1-g0), MemGas64(wl), l1)
	}
	// P2
	g2, l2, err2, p2 := callDyn(e, table, op, depth, 1024, MemGas64(32), L)
	if p2 || err2 != nil || g2 < g0 || g2-g0 != MemGas64(wl)-MemGas64(32) || l2 != MemGas64(wl) {
		return fail("P2: %d want %d (err %v)", int64(g2-g0), MemGas64(wl)-MemGas64(32), err2)
	}
	// P3
	g3, l3, err3, p3 := callDyn(e, table, op, depth, 2*L, MemGas64(2*wl), L)
	if p3 || err3 != nil || g3 != g0 || l3 != MemGas64(2*wl) {
		return fail("P3: %d want 0 (err %v)", int64(g3-g0), err3)
	}
	// P4: the interpreter always passes a multiple of 32, the fee function rounds anyway
	g4, l4, err4, p4 := callDyn(e, table, op, depth, 0, 0, 33)
	if p4 || err4 != nil || g4-g0 != MemGas64(2) || l4 != MemGas64(2) {
		return fail("P4: %d want %d (err %v)", int64(g4-g0), MemGas64(2), err4)
	}
	// P5
	const maxMem = uint64(0x1FFFFFFFE0)
	g5, l5, err5, p5 := callDyn(e, table, op, depth, 0, 0, maxMem)
	if p5 || err5 != nil || g5-g0 != MemGas64(maxMem/32) || l5 != MemGas64(maxMem/32) {
		return fail("P5a: %d want %d (err %v)", int64(g5-g0), MemGas64(maxMem/32), err5)
	}
	_, _, err6, p6 := callDyn(e, table, op, depth, 0, 0, maxMem+32)
	if p6 || err6 == nil {
		return fail("P5b: size above the maximum is priced instead of refused")
	}
	// P6: growth by one word of a small memory (the new word count is below the old BYTE length:
	// catches a comparison of words with bytes)
	g7, l7, err7, p7 := callDyn(e, table, op, depth, 64, MemGas64(2), 96)
	if p7 || err7 != nil || g7 < g0 || g7-g0 != MemGas64(3)-MemGas64(2) || l7 != MemGas64(3) {
		return fail("P6: %d want %d (err %v)", int64(g7-g0), MemGas64(3)-MemGas64(2), err7)
	}
	res.Charges = true
	return res
}

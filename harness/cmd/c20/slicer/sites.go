package slicer

// Source-level inventories added for the origin side (core/vm/evm.go) and for the
// redemption of converted Quai (core/state_processor.go RedeemLockedQuai).  They are
// emitted by harness/gen/c20params into coq/Generated/C20Params.v where they become
// vm_compute obligations: every function of *EVM that runs a frame must take the FULL
// snapshot (account state + len(ETXCache)) and roll back through revertToSnapshot, and
// revertToSnapshot must truncate the cache.

import (
	"fmt"
	"go/ast"
	"go/parser"
	"go/token"
	"path/filepath"
	"sort"
)

// FrameSite describes one method of *EVM that opens a frame.
type FrameSite struct {
	Name       string
	Runs       bool // runs code or emits an ETX: interpreter.Run / RunPrecompiledContract / CreateETX / RunLockupContract
	FullSnap   int  // number of calls evm.snapshot()
	FullRevert int  // number of calls evm.revertToSnapshot(..)
	RawSnap    int  // number of direct calls evm.StateDB.Snapshot()
	RawRevert  int  // number of direct calls evm.StateDB.RevertToSnapshot(..)
}

func recvName(fd *ast.FuncDecl) string {
	if fd.Recv == nil || len(fd.Recv.List) != 1 {
		return ""
	}
	t := fd.Recv.List[0].Type
	if s, ok := t.(*ast.StarExpr); ok {
		t = s.X
	}
	if id, ok := t.(*ast.Ident); ok {
		return id.Name
	}
	return ""
}

// selPath returns "a.b.c" for a selector chain of identifiers, "" otherwise.
func selPath(e ast.Expr) string {
	switch x := e.(type) {
	case *ast.Ident:
		return x.Name
	case *ast.SelectorExpr:
		p := selPath(x.X)
		if p == "" {
			return ""
		}
		return p + "." + x.Sel.Name
	}
	return ""
}

// EvmFrameSites parses core/vm/evm.go.  truncates = revertToSnapshot contains the
// statement evm.ETXCache = evm.ETXCache[:<snapshot>.etxCacheLen] and snapshot() stores
// len(evm.ETXCache) into etxCacheLen.
func EvmFrameSites(repo string) (sites []FrameSite, truncates bool, err error) {
	fset := token.NewFileSet()
	f, err := parser.ParseFile(fset, filepath.Join(repo, "core", "vm", "evm.go"), nil, 0)
	if err != nil {
		return nil, false, err
	}
	recordsLen, cuts := false, false
	for _, d := range f.Decls {
		fd, ok := d.(*ast.FuncDecl)
		if !ok || fd.Body == nil || recvName(fd) != "EVM" {
			continue
		}
		recv := ""
		if len(fd.Recv.List[0].Names) == 1 {
			recv = fd.Recv.List[0].Names[0].Name
		}
		s := FrameSite{Name: fd.Name.Name}
		ast.Inspect(fd.Body, func(n ast.Node) bool {
			switch x := n.(type) {
			case *ast.CallExpr:
				switch selPath(x.Fun) {
				case recv + ".snapshot":
					s.FullSnap++
				case recv + ".revertToSnapshot":
					s.FullRevert++
				case recv + ".StateDB.Snapshot":
					s.RawSnap++
				case recv + ".StateDB.RevertToSnapshot":
					s.RawRevert++
				case recv + ".interpreter.Run", "RunPrecompiledContract", recv + ".CreateETX", "RunLockupContract":
					s.Runs = true
				}
			case *ast.AssignStmt:
				if len(x.Lhs) == 1 && len(x.Rhs) == 1 {
					l := selPath(x.Lhs[0])
					if fd.Name.Name == "revertToSnapshot" && l == recv+".ETXCache" {
						if sl, ok := x.Rhs[0].(*ast.SliceExpr); ok && selPath(sl.X) == recv+".ETXCache" && sl.Low == nil && sl.High != nil {
							if se, ok := sl.High.(*ast.SelectorExpr); ok && se.Sel.Name == "etxCacheLen" {
								cuts = true
							}
						}
					}
					if fd.Name.Name == "snapshot" {
						if se, ok := x.Lhs[0].(*ast.SelectorExpr); ok && se.Sel.Name == "etxCacheLen" {
							if c, ok := x.Rhs[0].(*ast.CallExpr); ok && selPath(c.Fun) == "len" && len(c.Args) == 1 && selPath(c.Args[0]) == recv+".ETXCache" {
								recordsLen = true
							}
						}
					}
				}
			}
			return true
		})
		if fd.Name.Name == "snapshot" || fd.Name.Name == "revertToSnapshot" {
			continue
		}
		if s.Runs || s.FullSnap+s.FullRevert+s.RawSnap+s.RawRevert > 0 {
			sites = append(sites, s)
		}
	}
	sort.Slice(sites, func(i, j int) bool { return sites[i].Name < sites[j].Name })
	if len(sites) == 0 {
		return nil, false, fmt.Errorf("no frame-opening method of *EVM found in core/vm/evm.go")
	}
	return sites, recordsLen && cuts, nil
}

// FuncShape returns the statement shape (see shape) of a top-level function or method.
func FuncShape(repo, rel, recv, name string) ([]string, error) {
	fset := token.NewFileSet()
	f, err := parser.ParseFile(fset, filepath.Join(repo, rel), nil, 0)
	if err != nil {
		return nil, err
	}
	var found *ast.FuncDecl
	for _, d := range f.Decls {
		fd, ok := d.(*ast.FuncDecl)
		if !ok || fd.Body == nil || fd.Name.Name != name || recvName(fd) != recv {
			continue
		}
		if found != nil {
			return nil, fmt.Errorf("%s: function %s declared twice", rel, name)
		}
		found = fd
	}
	if found == nil {
		return nil, fmt.Errorf("%s: function %s not found", rel, name)
	}
	return shape(fset, found.Body.List), nil
}

// Package slicer re-slices, on every run, the conversion repricing loop that is
// written inline in (*Slice).Append (core/slice.go, PRIME branch) into a callable
// Go function of package core.  Nothing is written into the repository: the
// generated file is handed to the go tool through `-overlay`.
//
// The statement list is located by SEMANTIC anchors, never by line numbers:
//
//	func (sl *Slice) Append
//	  if nodeCtx == common.PRIME_CTX { ...            (an if whose subtree calls
//	      sl.verifyParentExchangeRateAndFlowAmount)
//	        <block B that directly contains>
//	          sort.SliceStable(newInboundEtxs, ...)    <- first sliced statement
//	          ...
//	          <expression statement containing the string "Conversion Stats">   <- last
//
// and the verify call must textually precede the sort inside the same PRIME if.
// The source text between the two anchors is copied VERBATIM as the body of
//
//	func VerifRepriceConversions(<free variables of the text>) (types.Transactions, error)
//
// Free variables of the text (identifiers declared in Append outside the slice)
// become parameters; their types come from a reviewed table below -- an unknown free
// variable, a missing anchor or an ambiguous anchor is an error (the correspondence is
// reported as broken, the check never silently skips).  The rate controller
// (CalculateTokenChoicesSet, CalculateBetaFromMiningChoiceAndConversions) is not part of
// property C20: those two package-level names and the package name `misc` are shadowed
// by parameters, so that the harness supplies the new exchange rate and records every
// helper call (QiToQuai, QuaiToQi, ApplyCubicDiscount, ComputeConversionAmountInQuai)
// the real text makes.
package slicer

import (
	"bytes"
	"fmt"
	"go/ast"
	"go/parser"
	"go/printer"
	"go/token"
	"os"
	"path/filepath"
	"sort"
	"strconv"
	"strings"
)

// Result of slicing.
type Result struct {
	GoFile      string   // content of the generated file (package core, build tag verif)
	Body        string   // verbatim sliced text
	FreeVars    []string // free local variables of the text, sorted
	Shape       []string // one entry per statement (pre-order), formatting independent
	StartLine   int
	EndLine     int
	NumTopStmts int
	// slices of (*StateProcessor).Process (destination branches)
	Blocks []Block
}

type Block struct {
	Name, What string
	Body       string
	FreeVars   []string
	Shape      []string
	StartLine  int
	EndLine    int
}

// reviewed table: free variable of the sliced text -> parameter type
var paramTypes = map[string]string{
	"sl":                     "*VerifC20Slice",
	"header":                 "*types.WorkObject",
	"block":                  "*types.WorkObject",
	"parent":                 "*types.WorkObject",
	"newInboundEtxs":         "types.Transactions",
	"exchangeRateIncreasing": "bool",
	"batch":                  "ethdb.KeyValueWriter",
}

// fixed parameter order (free variables not in the text are still accepted as unused parameters)
var paramOrder = []string{"sl", "header", "block", "parent", "newInboundEtxs", "exchangeRateIncreasing", "batch"}

// locals of the sliced text exported to the harness after the last statement
var exported = []struct{ field, local, typ string }{
	{"OriginalEtxValues", "originalEtxValues", "[]*big.Int"},
	{"EtxValuesBeforeConversion", "etxValuesBeforeConversion", "[]*big.Int"},
	{"ActualConversionAmountInQuai", "actualConversionAmountInQuai", "*big.Int"},
	{"RealizedConversionAmountInQuai", "realizedConversionAmountInQuai", "*big.Int"},
	{"ExchangeRate", "exchangeRate", "*big.Int"},
	{"ConversionsReverted", "conversionsReverted", "int"},
	{"TotalConversions", "totalConversions", "int"},
}

func isSel(e ast.Expr, x, sel string) bool {
	s, ok := e.(*ast.SelectorExpr)
	if !ok || s.Sel.Name != sel {
		return false
	}
	id, ok := s.X.(*ast.Ident)
	return ok && id.Name == x
}

func isPrimeCond(e ast.Expr) bool {
	b, ok := e.(*ast.BinaryExpr)
	if !ok || b.Op != token.EQL {
		return false
	}
	id, ok := b.X.(*ast.Ident)
	return ok && id.Name == "nodeCtx" && isSel(b.Y, "common", "PRIME_CTX")
}

func containsVerifyCall(n ast.Node) (token.Pos, bool) {
	var at token.Pos
	found := false
	ast.Inspect(n, func(m ast.Node) bool {
		if c, ok := m.(*ast.CallExpr); ok {
			if s, ok := c.Fun.(*ast.SelectorExpr); ok && s.Sel.Name == "verifyParentExchangeRateAndFlowAmount" {
				if !found {
					at, found = c.Pos(), true
				}
			}
		}
		return true
	})
	return at, found
}

func isSortStable(s ast.Stmt) bool {
	es, ok := s.(*ast.ExprStmt)
	if !ok {
		return false
	}
	c, ok := es.X.(*ast.CallExpr)
	if !ok || !isSel(c.Fun, "sort", "SliceStable") || len(c.Args) < 1 {
		return false
	}
	id, ok := c.Args[0].(*ast.Ident)
	return ok && id.Name == "newInboundEtxs"
}

func hasStringLit(n ast.Node, want string) bool {
	found := false
	ast.Inspect(n, func(m ast.Node) bool {
		if l, ok := m.(*ast.BasicLit); ok && l.Kind == token.STRING {
			if s, err := strconv.Unquote(l.Value); err == nil && s == want {
				found = true
			}
		}
		return true
	})
	return found
}

// Slice parses <repo>/core/slice.go and produces the generated file.
func Slice(repo string) (*Result, error) {
	path := filepath.Join(repo, "core", "slice.go")
	src, err := os.ReadFile(path)
	if err != nil {
		return nil, fmt.Errorf("cannot read %s: %w", path, err)
	}
	fset := token.NewFileSet()
	file, err := parser.ParseFile(fset, path, src, parser.ParseComments)
	if err != nil {
		return nil, fmt.Errorf("cannot parse %s: %w", path, err)
	}
	// imports of slice.go: name -> path
	imports := map[string]string{}
	for _, im := range file.Imports {
		p, _ := strconv.Unquote(im.Path.Value)
		name := filepath.Base(p)
		if im.Name != nil {
			name = im.Name.Name
		}
		imports[name] = p
	}
	var fn *ast.FuncDecl
	for _, d := range file.Decls {
		f, ok := d.(*ast.FuncDecl)
		if !ok || f.Name.Name != "Append" || f.Recv == nil || len(f.Recv.List) != 1 {
			continue
		}
		if st, ok := f.Recv.List[0].Type.(*ast.StarExpr); ok {
			if id, ok := st.X.(*ast.Ident); ok && id.Name == "Slice" {
				if fn != nil {
					return nil, fmt.Errorf("anchor ambiguous: two (*Slice).Append in core/slice.go")
				}
				fn = f
			}
		}
	}
	if fn == nil {
		return nil, fmt.Errorf("anchor not found: func (sl *Slice) Append in core/slice.go")
	}
	if len(fn.Recv.List[0].Names) != 1 || fn.Recv.List[0].Names[0].Name != "sl" {
		return nil, fmt.Errorf("anchor changed: receiver of Append is not named sl")
	}
	// result types must be (types.Transactions, error) for the verbatim `return nil, err`
	if fn.Type.Results == nil || len(fn.Type.Results.List) != 2 {
		return nil, fmt.Errorf("anchor changed: Append no longer returns (types.Transactions, error)")
	}
	var rt bytes.Buffer
	printer.Fprint(&rt, fset, fn.Type.Results.List[0].Type)
	if rt.String() != "types.Transactions" {
		return nil, fmt.Errorf("anchor changed: Append's first result is %s, not types.Transactions", rt.String())
	}

	// PRIME if-statements whose subtree calls verifyParentExchangeRateAndFlowAmount, outermost first
	type cand struct {
		block      *ast.BlockStmt
		start, end int
		primeIf    *ast.IfStmt
	}
	var cands []cand
	var primeStack []*ast.IfStmt
	var walk func(n ast.Node)
	walk = func(n ast.Node) {
		if n == nil {
			return
		}
		pushed := false
		if is, ok := n.(*ast.IfStmt); ok && isPrimeCond(is.Cond) {
			if _, ok := containsVerifyCall(is); ok {
				primeStack = append(primeStack, is)
				pushed = true
			}
		}
		if b, ok := n.(*ast.BlockStmt); ok && len(primeStack) > 0 {
			for i, s := range b.List {
				if isSortStable(s) {
					end := -1
					for j := i + 1; j < len(b.List); j++ {
						if es, ok := b.List[j].(*ast.ExprStmt); ok && hasStringLit(es, "Conversion Stats") {
							end = j
							break
						}
					}
					cands = append(cands, cand{b, i, end, primeStack[0]})
				}
			}
		}
		// children
		ast.Inspect(n, func(m ast.Node) bool {
			if m == nil || m == n {
				return true
			}
			walk(m)
			return false
		})
		if pushed {
			primeStack = primeStack[:len(primeStack)-1]
		}
	}
	walk(fn.Body)
	if len(cands) == 0 {
		return nil, fmt.Errorf("anchor not found: no `sort.SliceStable(newInboundEtxs, ...)` statement inside an `if nodeCtx == common.PRIME_CTX` block of (*Slice).Append that calls verifyParentExchangeRateAndFlowAmount")
	}
	if len(cands) > 1 {
		return nil, fmt.Errorf("anchor ambiguous: %d `sort.SliceStable(newInboundEtxs, ...)` statements under the PRIME branch of (*Slice).Append", len(cands))
	}
	c := cands[0]
	if c.end < 0 {
		return nil, fmt.Errorf("anchor not found: no statement logging \"Conversion Stats\" after the sort in the same block")
	}
	vpos, _ := containsVerifyCall(c.primeIf)
	if !(vpos < c.block.List[c.start].Pos()) {
		return nil, fmt.Errorf("anchor changed: verifyParentExchangeRateAndFlowAmount is no longer called before the conversion sort")
	}
	stmts := c.block.List[c.start : c.end+1]
	lo, hi := stmts[0].Pos(), stmts[len(stmts)-1].End()
	body := string(src[fset.Position(lo).Offset:fset.Position(hi).Offset])

	// free variables: identifiers resolved by the parser to a declaration that lies in Append but outside the slice
	free := map[string]bool{}
	usedPkgs := map[string]bool{}
	unresolved := map[string]bool{}
	selectorSel := map[*ast.Ident]bool{}
	keyIdents := map[*ast.Ident]bool{}
	for _, s := range stmts {
		ast.Inspect(s, func(m ast.Node) bool {
			switch x := m.(type) {
			case *ast.SelectorExpr:
				selectorSel[x.Sel] = true
			case *ast.KeyValueExpr:
				if id, ok := x.Key.(*ast.Ident); ok {
					keyIdents[id] = true
				}
			}
			return true
		})
	}
	for _, s := range stmts {
		ast.Inspect(s, func(m ast.Node) bool {
			id, ok := m.(*ast.Ident)
			if !ok || selectorSel[id] || id.Name == "_" {
				return true
			}
			if id.Obj == nil {
				if _, isImp := imports[id.Name]; isImp {
					usedPkgs[id.Name] = true
				} else if !keyIdents[id] {
					unresolved[id.Name] = true
				}
				return true
			}
			if id.Obj.Kind == ast.Pkg {
				usedPkgs[id.Name] = true
				return true
			}
			dp := id.Obj.Pos()
			if dp < lo || dp >= hi {
				if dp >= fn.Pos() && dp < fn.End() {
					free[id.Name] = true
				} else {
					unresolved[id.Name] = true // package level object of slice.go
				}
			}
			return true
		})
	}
	var frees []string
	for v := range free {
		frees = append(frees, v)
	}
	sort.Strings(frees)
	for _, v := range frees {
		if _, ok := paramTypes[v]; !ok {
			return nil, fmt.Errorf("sliced text has a new free variable %q (declared in Append outside the conversion block): the reviewed parameter table of harness/cmd/c20/slicer does not know its type", v)
		}
	}
	// shadowed names
	shadowPkgs := map[string]bool{"misc": true}
	shadowFuncs := []string{"CalculateTokenChoicesSet", "CalculateBetaFromMiningChoiceAndConversions"}
	for _, f := range shadowFuncs {
		if !unresolved[f] {
			return nil, fmt.Errorf("anchor changed: the conversion block no longer calls %s", f)
		}
	}
	if !usedPkgs["misc"] {
		return nil, fmt.Errorf("anchor changed: the conversion block no longer uses package misc")
	}
	// the generated file's own needs
	need := map[string]bool{"types": true, "ethdb": true, "common": true, "log": true}
	need["big"] = true
	for p := range usedPkgs {
		if !shadowPkgs[p] {
			need[p] = true
		}
	}
	var impNames []string
	for p := range need {
		impNames = append(impNames, p)
	}
	sort.Strings(impNames)

	var g strings.Builder
	g.WriteString("//go:build verif\n\n")
	g.WriteString("// Code generated by verif harness/cmd/c20/slicer from core/slice.go; DO NOT EDIT.\n")
	g.WriteString("// The body of VerifRepriceConversions is the verbatim text of the conversion block of (*Slice).Append.\n")
	g.WriteString("package core\n\nimport (\n")
	for _, n := range impNames {
		p, ok := imports[n]
		if !ok {
			switch n {
			case "big":
				p = "math/big"
			default:
				return nil, fmt.Errorf("generated file needs package %q which core/slice.go does not import", n)
			}
		}
		if filepath.Base(p) == n {
			fmt.Fprintf(&g, "\t%q\n", p)
		} else {
			fmt.Fprintf(&g, "\t%s %q\n", n, p)
		}
	}
	g.WriteString(")\n\n")
	g.WriteString(`// VerifC20HC stands for the header chain: the only thing the conversion block asks it
// directly is the stored exchange rate and the update bit.
type VerifC20HC struct {
	Stored    *big.Int
	UpdateBit uint8
	Err       error
}

func (h *VerifC20HC) GetKQuaiAndUpdateBit(hash common.Hash) (*big.Int, uint8, error) {
	return h.Stored, h.UpdateBit, h.Err
}

type VerifC20Slice struct {
	hc     *VerifC20HC
	logger *log.Logger
}

func NewVerifC20Slice(hc *VerifC20HC, logger *log.Logger) *VerifC20Slice {
	return &VerifC20Slice{hc: hc, logger: logger}
}

// VerifC20Misc shadows package misc inside the sliced text.
type VerifC20Misc interface {
	QiToQuai(block *types.WorkObject, exchangeRate *big.Int, difficulty *big.Int, qiAmt *big.Int) *big.Int
	QuaiToQi(block *types.WorkObject, exchangeRate *big.Int, difficulty *big.Int, quaiAmt *big.Int) *big.Int
	ApplyCubicDiscount(valueInt, meanInt *big.Int) *big.Float
	ComputeConversionAmountInQuai(header *types.WorkObject, newInboundEtxs types.Transactions) *big.Int
}

type VerifC20Out struct {
`)
	for _, e := range exported {
		fmt.Fprintf(&g, "\t%s %s\n", e.field, e.typ)
	}
	g.WriteString("}\n\n")
	g.WriteString("func VerifRepriceConversions(")
	for _, p := range paramOrder {
		fmt.Fprintf(&g, "%s %s, ", p, paramTypes[p])
	}
	g.WriteString("misc VerifC20Misc, ")
	g.WriteString("CalculateTokenChoicesSet func(hc *VerifC20HC, block, parent *types.WorkObject, exchangeRate *big.Int, etxs types.Transactions, actualConversionAmountInHash, realizedConversionAmountInHash *big.Int, minerDifficulty *big.Int) (types.TokenChoiceSet, error), ")
	g.WriteString("CalculateBetaFromMiningChoiceAndConversions func(hc *VerifC20HC, block *types.WorkObject, parentExchangeRate *big.Int, newTokenChoiceSet types.TokenChoiceSet) (*big.Int, error), ")
	g.WriteString("verifOut *VerifC20Out) (types.Transactions, error) {\n")
	for _, p := range paramOrder {
		if !free[p] {
			fmt.Fprintf(&g, "\t_ = %s\n", p)
		}
	}
	g.WriteString("\t// ---- begin verbatim text of core/slice.go ----\n")
	fmt.Fprintf(&g, "//line %s:%d\n", path, fset.Position(lo).Line)
	g.WriteString("\t\t\t")
	g.WriteString(body)
	g.WriteString("\n//line verif_c20_sliced_gen.go:1000\n")
	g.WriteString("\t// ---- end verbatim text ----\n")
	for _, e := range exported {
		fmt.Fprintf(&g, "\tverifOut.%s = %s\n", e.field, e.local)
	}
	g.WriteString("\treturn newInboundEtxs, nil\n}\n")

	res := &Result{Body: body, FreeVars: frees,
		StartLine: fset.Position(lo).Line, EndLine: fset.Position(hi).Line, NumTopStmts: len(stmts)}
	res.Shape = shape(fset, stmts)
	mint, err := sliceMint(repo, res)
	if err != nil {
		return nil, err
	}
	// imports the mint function needs beyond those already written: emitted as a second import block is not
	// allowed after declarations, so the file is assembled here: header+imports / decls
	file1 := g.String()
	idx := strings.Index(file1, "import (\n")
	end := idx + strings.Index(file1[idx:], ")\n")
	have := file1[idx:end]
	var extra strings.Builder
	for _, line := range mint.imports {
		if !strings.Contains(have, line) {
			extra.WriteString(line)
		}
	}
	res.GoFile = file1[:end] + extra.String() + file1[end:] + "\n" + mint.code
	return res, nil
}

// ---------------------------------------------------------------------------------------------
// Second slice: the destination side of a Quai->Qi conversion, inline in (*StateProcessor).Process:
// the body of the if-statement whose condition is
//     etx.ETXSender().Location().Equal(*etx.To().Location())
// and whose body calls misc.FindMinDenominations (the lock/mint loop).  The text is copied verbatim
// into a loop that runs once, so that the `continue` statements of the text (next transaction)
// leave it; `return nil, ..., err` statements keep their meaning because the generated function has
// Process's result list.

var mintParamTypes = map[string]string{
	"p":                   "*StateProcessor",
	"block":               "*types.WorkObject",
	"nodeCtx":             "int",
	"etx":                 "*types.Transaction",
	"tx":                  "*types.Transaction",
	"gp":                  "*types.GasPool",
	"usedGas":             "*uint64",
	"batch":               "ethdb.Batch",
	"supplyAddedQi":       "*big.Int",
	"utxosCreatedDeleted": "*UtxosCreatedDeleted",
	"sender":              "common.Address",
	"to":                  "*common.Address",
	"statedb":             "*state.StateDB",
}
var mintParamOrder = []string{"p", "block", "nodeCtx", "etx", "tx", "gp", "usedGas", "batch", "supplyAddedQi", "utxosCreatedDeleted", "sender", "to", "statedb"}

// free variables that are accumulators of Process: declared as locals and handed back
var mintLocals = []struct{ name, typ, field string }{
	{"receipt", "*types.Receipt", ""},
	{"receipts", "types.Receipts", "Receipts"},
	{"allLogs", "[]*types.Log", "AllLogs"},
	{"totalEtxGas", "uint64", "TotalEtxGas"},
}

// the three inline destination branches of Process that are sliced
var processSpecs = []struct{ Name, Func, Cond, MustCall, What string }{
	{"mint", "VerifMintQuaiToQi", "etx.ETXSender().Location().Equal(*etx.To().Location())", "FindMinDenominations", "Quai->Qi conversion branch (lock + mint loop)"},
	{"revert_qi", "VerifRevertToQi", "sender.IsInQiLedgerScope() && to.IsInQuaiLedgerScope()", "FindMinDenominations", "ConversionRevert branch refunding Qi"},
	{"revert_quai", "VerifRevertToQuai", "sender.IsInQuaiLedgerScope() && to.IsInQiLedgerScope()", "AddBalance", "ConversionRevert branch refunding Quai"},
}

type mintOut struct {
	code    string
	imports []string
}

func sliceMint(repo string, res *Result) (*mintOut, error) {
	path := filepath.Join(repo, "core", "state_processor.go")
	src, err := os.ReadFile(path)
	if err != nil {
		return nil, fmt.Errorf("cannot read %s: %w", path, err)
	}
	fset := token.NewFileSet()
	file, err := parser.ParseFile(fset, path, src, parser.ParseComments)
	if err != nil {
		return nil, fmt.Errorf("cannot parse %s: %w", path, err)
	}
	imports := map[string]string{}
	for _, im := range file.Imports {
		p, _ := strconv.Unquote(im.Path.Value)
		name := filepath.Base(p)
		if im.Name != nil {
			name = im.Name.Name
		}
		imports[name] = p
	}
	var fn *ast.FuncDecl
	for _, d := range file.Decls {
		f, ok := d.(*ast.FuncDecl)
		if !ok || f.Name.Name != "Process" || f.Recv == nil || len(f.Recv.List) != 1 {
			continue
		}
		if st, ok := f.Recv.List[0].Type.(*ast.StarExpr); ok {
			if id, ok := st.X.(*ast.Ident); ok && id.Name == "StateProcessor" {
				if fn != nil {
					return nil, fmt.Errorf("anchor ambiguous: two (*StateProcessor).Process")
				}
				fn = f
			}
		}
	}
	if fn == nil {
		return nil, fmt.Errorf("anchor not found: func (p *StateProcessor) Process in core/state_processor.go")
	}
	if len(fn.Recv.List[0].Names) != 1 || fn.Recv.List[0].Names[0].Name != "p" {
		return nil, fmt.Errorf("anchor changed: receiver of Process is not named p")
	}
	pr := func(n ast.Node) string {
		var b bytes.Buffer
		cfg := printer.Config{Mode: printer.RawFormat}
		cfg.Fprint(&b, token.NewFileSet(), n)
		return strings.Join(strings.Fields(b.String()), " ")
	}
	// result list of Process, verbatim, with names so that the trailing bare return is legal
	if fn.Type.Results == nil {
		return nil, fmt.Errorf("anchor changed: Process has no results")
	}
	usedPkgs := map[string]bool{}
	var results []string
	for i, f := range fn.Type.Results.List {
		if len(f.Names) != 0 {
			return nil, fmt.Errorf("anchor changed: Process has named results")
		}
		results = append(results, fmt.Sprintf("verifR%d %s", i, pr(f.Type)))
		ast.Inspect(f.Type, func(m ast.Node) bool {
			if x, ok := m.(*ast.SelectorExpr); ok {
				if id, ok := x.X.(*ast.Ident); ok {
					if _, isImp := imports[id.Name]; isImp {
						usedPkgs[id.Name] = true
					}
				}
			}
			return true
		})
	}
	isLocal := map[string]bool{}
	for _, l := range mintLocals {
		isLocal[l.name] = true
	}
	var g strings.Builder
	g.WriteString("// ---- slices of (*StateProcessor).Process ----\n\n")
	g.WriteString("func NewVerifC20StateProcessor(config *params.ChainConfig, logger *log.Logger) *StateProcessor {\n\treturn &StateProcessor{config: config, logger: logger}\n}\n\n")
	g.WriteString("type VerifC20MintOut struct {\n\tReached bool\n")
	for _, l := range mintLocals {
		if l.field != "" {
			fmt.Fprintf(&g, "\t%s %s\n", l.field, l.typ)
		}
	}
	g.WriteString("}\n\n")

	for _, spec := range processSpecs {
		var found []*ast.IfStmt
		ast.Inspect(fn.Body, func(n ast.Node) bool {
			is, ok := n.(*ast.IfStmt)
			if !ok || pr(is.Cond) != spec.Cond {
				return true
			}
			calls := false
			ast.Inspect(is.Body, func(m ast.Node) bool {
				if c, ok := m.(*ast.CallExpr); ok {
					if se, ok := c.Fun.(*ast.SelectorExpr); ok && se.Sel.Name == spec.MustCall {
						calls = true
					}
				}
				return true
			})
			if calls {
				found = append(found, is)
			}
			return true
		})
		if len(found) == 0 {
			return nil, fmt.Errorf("anchor not found: no `if %s { ... %s(...) ... }` in (*StateProcessor).Process (%s)", spec.Cond, spec.MustCall, spec.What)
		}
		if len(found) > 1 {
			return nil, fmt.Errorf("anchor ambiguous: %d candidates for the %s in (*StateProcessor).Process", len(found), spec.What)
		}
		stmts := found[0].Body.List
		if len(stmts) == 0 {
			return nil, fmt.Errorf("anchor changed: empty %s", spec.What)
		}
		lo, hi := stmts[0].Pos(), stmts[len(stmts)-1].End()
		body := string(src[fset.Position(lo).Offset:fset.Position(hi).Offset])

		free := map[string]bool{}
		selectorSel := map[*ast.Ident]bool{}
		for _, st := range stmts {
			ast.Inspect(st, func(m ast.Node) bool {
				if x, ok := m.(*ast.SelectorExpr); ok {
					selectorSel[x.Sel] = true
				}
				return true
			})
		}
		for _, st := range stmts {
			ast.Inspect(st, func(m ast.Node) bool {
				id, ok := m.(*ast.Ident)
				if !ok || selectorSel[id] || id.Name == "_" {
					return true
				}
				if id.Obj == nil {
					if _, isImp := imports[id.Name]; isImp {
						usedPkgs[id.Name] = true
					}
					return true
				}
				dp := id.Obj.Pos()
				if (dp < lo || dp >= hi) && dp >= fn.Pos() && dp < fn.End() {
					free[id.Name] = true
				}
				return true
			})
		}
		var frees []string
		for v := range free {
			frees = append(frees, v)
		}
		sort.Strings(frees)
		for _, v := range frees {
			if _, ok := mintParamTypes[v]; !ok && !isLocal[v] {
				return nil, fmt.Errorf("the %s of Process has a new free variable %q: the reviewed parameter table of harness/cmd/c20/slicer does not know its type", spec.What, v)
			}
		}
		fmt.Fprintf(&g, "// %s\nfunc %s(", spec.What, spec.Func)
		for _, p := range mintParamOrder {
			fmt.Fprintf(&g, "%s %s, ", p, mintParamTypes[p])
		}
		g.WriteString("verifOut *VerifC20MintOut) (" + strings.Join(results, ", ") + ") {\n")
		for _, p := range mintParamOrder {
			if !free[p] {
				fmt.Fprintf(&g, "\t_ = %s\n", p)
			}
		}
		for _, l := range mintLocals {
			if free[l.name] {
				fmt.Fprintf(&g, "\tvar %s %s\n\t_ = %s\n", l.name, l.typ, l.name)
			}
		}
		g.WriteString("\tfor verifOnce := true; verifOnce; verifOnce = false {\n")
		g.WriteString("\t\t// ---- begin verbatim text of core/state_processor.go ----\n")
		fmt.Fprintf(&g, "//line %s:%d\n", path, fset.Position(lo).Line)
		g.WriteString("\t\t\t\t\t")
		g.WriteString(body)
		g.WriteString("\n//line verif_c20_sliced_gen.go:2000\n")
		g.WriteString("\t\t// ---- end verbatim text ----\n\t}\n")
		g.WriteString("\tverifOut.Reached = true\n")
		for _, l := range mintLocals {
			if l.field != "" && free[l.name] {
				fmt.Fprintf(&g, "\tverifOut.%s = %s\n", l.field, l.name)
			}
		}
		g.WriteString("\treturn\n}\n\n")
		res.Blocks = append(res.Blocks, Block{Name: spec.Name, What: spec.What, Body: body, FreeVars: frees, Shape: shape(fset, stmts),
			StartLine: fset.Position(lo).Line, EndLine: fset.Position(hi).Line})
	}
	for _, n := range []string{"types", "ethdb", "big", "params", "log", "state", "common"} {
		usedPkgs[n] = true
	}
	out := &mintOut{}
	var names []string
	for n := range usedPkgs {
		names = append(names, n)
	}
	sort.Strings(names)
	for _, n := range names {
		p, ok := imports[n]
		if !ok {
			if n == "big" {
				p = "math/big"
			} else {
				return nil, fmt.Errorf("generated functions need package %q which core/state_processor.go does not import", n)
			}
		}
		if filepath.Base(p) == n {
			out.imports = append(out.imports, fmt.Sprintf("\t%q\n", p))
		} else {
			out.imports = append(out.imports, fmt.Sprintf("\t%s %q\n", n, p))
		}
	}
	out.code = g.String()
	return out, nil
}

// shape: pre-order list of statement descriptors "<depth>:<kind>:<normalised text of the head>"
// independent of formatting and comments (printed through go/printer on a comment-free AST).
func shape(fset *token.FileSet, stmts []ast.Stmt) []string {
	var out []string
	pr := func(n ast.Node) string {
		if n == nil || n == ast.Expr(nil) {
			return "_"
		}
		var b bytes.Buffer
		cfg := printer.Config{Mode: printer.RawFormat}
		cfg.Fprint(&b, token.NewFileSet(), n)
		return strings.Join(strings.Fields(b.String()), " ")
	}
	var rec func(depth int, s ast.Stmt)
	list := func(depth int, l []ast.Stmt) {
		for _, s := range l {
			rec(depth, s)
		}
	}
	rec = func(depth int, s ast.Stmt) {
		add := func(kind, head string) { out = append(out, fmt.Sprintf("%d:%s:%s", depth, kind, head)) }
		switch x := s.(type) {
		case *ast.IfStmt:
			if x.Init != nil {
				add("if", pr(x.Init)+"; "+pr(x.Cond))
			} else {
				add("if", pr(x.Cond))
			}
			list(depth+1, x.Body.List)
			if x.Else != nil {
				add("else", "")
				switch e := x.Else.(type) {
				case *ast.BlockStmt:
					list(depth+1, e.List)
				default:
					rec(depth+1, e)
				}
			}
		case *ast.RangeStmt:
			k, v := "_", "_"
			if x.Key != nil {
				k = pr(x.Key)
			}
			if x.Value != nil {
				v = pr(x.Value)
			}
			add("range", k+","+v+" over "+pr(x.X))
			list(depth+1, x.Body.List)
		case *ast.ForStmt:
			h := ""
			if x.Init != nil {
				h += pr(x.Init)
			}
			h += "; "
			if x.Cond != nil {
				h += pr(x.Cond)
			}
			h += "; "
			if x.Post != nil {
				h += pr(x.Post)
			}
			add("for", h)
			list(depth+1, x.Body.List)
		case *ast.BlockStmt:
			add("block", "")
			list(depth+1, x.List)
		case *ast.ExprStmt:
			if c, ok := x.X.(*ast.CallExpr); ok && isSel(c.Fun, "sort", "SliceStable") {
				add("sort", pr(c.Args[0]))
				if fl, ok := c.Args[1].(*ast.FuncLit); ok {
					list(depth+1, fl.Body.List)
				}
			} else {
				add("expr", pr(x.X))
			}
		case *ast.DeclStmt:
			if gd, ok := x.Decl.(*ast.GenDecl); ok {
				gd.Doc = nil
				for _, sp := range gd.Specs {
					if vs, ok := sp.(*ast.ValueSpec); ok {
						vs.Doc, vs.Comment = nil, nil
					}
				}
			}
			add("stmt", pr(s))
		default:
			add("stmt", pr(s))
		}
	}
	list(0, stmts)
	return out
}

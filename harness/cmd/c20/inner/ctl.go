//go:build verif && c20inner

// C20 harness, exchange-rate controller (extension round).
//
// Drives the REAL misc.CalculateKQuai and core.CalculateBetaFromMiningChoiceAndConversions on
// boundary + random inputs (every fork regime of the controller, rising / falling / frozen
// windows), records inputs and result for the comparison with C20.calc_kquai / C20.beta_rate
// inside Coq, and evaluates model-independent monitors.  common.LogBig is an input of the model:
// it is computed here with the real function.
package main

import (
	"fmt"
	"math/big"

	"github.com/dominant-strategies/go-quai/common"
	"github.com/dominant-strategies/go-quai/consensus/misc"
	"github.com/dominant-strategies/go-quai/core"
	"github.com/dominant-strategies/go-quai/core/types"
	"github.com/dominant-strategies/go-quai/params"

	"verifharness/hlib"
)

type KQuaiJS struct {
	ID   int    `json:"id"`
	Kind string `json:"kind"`
	K    string `json:"k"`
	D    string `json:"d"`
	BN   uint64 `json:"bn"`
	XB   string `json:"xb"`
}

type BetaJS struct {
	ID     int         `json:"id"`
	Kind   string      `json:"kind"`
	Label  string      `json:"label,omitempty"`
	Parent string      `json:"parent"`
	BN     uint64      `json:"bn"`
	MD     string      `json:"md"`
	Runs   [][2]string `json:"runs"` // (Diff, count); counts add up to TokenChoiceSetSize
}

func logBigOr0(x *big.Int) *big.Int {
	if x.Sign() <= 0 {
		return big.NewInt(0) // the real LogBig panics; the model's division guard makes it None as well
	}
	return common.LogBig(x)
}

func optZ(x *big.Int) string {
	if x == nil {
		return "None"
	}
	return "(Some " + z(x) + ")"
}

// monitors shared by both case kinds: the controller step proper (CalculateKQuai semantics)
func checkKQuaiStep(where string, k, d, d2, xb, r *big.Int, c any, rep *hlib.Report) {
	if r.Sign() < 0 {
		rep.Fail("controller:negative-rate:"+where, fmt.Sprintf("new exchange rate %s is negative (parent %s)", r, k), c)
	}
	// direction: the rate rises only when xbStar*log(d) > 2^64*d, falls only when it is smaller
	num := new(big.Int).Sub(new(big.Int).Mul(xb, d2), new(big.Int).Mul(two64, d))
	switch {
	case num.Sign() > 0 && r.Cmp(k) < 0:
		rep.Fail("controller:direction:"+where, fmt.Sprintf("window says the rate should rise, it fell from %s to %s", k, r), c)
	case num.Sign() < 0 && r.Cmp(k) > 0:
		rep.Fail("controller:direction:"+where, fmt.Sprintf("window says the rate should fall, it rose from %s to %s", k, r), c)
	case num.Sign() == 0 && r.Cmp(k) != 0:
		rep.Fail("controller:direction:"+where, fmt.Sprintf("balanced window but the rate moved from %s to %s", k, r), c)
	}
	// one step never takes away more than 1/OneOverAlpha of the rate (plus one unit of rounding)
	lhs := new(big.Int).Sub(new(big.Int).Mul(k, new(big.Int).Sub(params.OneOverAlpha, big.NewInt(1))), params.OneOverAlpha)
	if lhs.Cmp(new(big.Int).Mul(r, params.OneOverAlpha)) >= 0 {
		rep.Fail("controller:drop-beyond-alpha:"+where, fmt.Sprintf("rate fell from %s to %s, more than 1/%s in one step", k, r, params.OneOverAlpha), c)
	}
	// the rate is frozen only by the fork schedule: when even a third of the adjustment moves the rate by a
	// whole unit, the new rate must differ from the old one
	if r.Cmp(k) == 0 && num.Sign() != 0 && d.Sign() > 0 {
		d1a := new(big.Int).Mul(new(big.Int).Mul(two64, d), params.OneOverAlpha)
		third := new(big.Int).Quo(new(big.Int).Abs(num), big.NewInt(3))
		if new(big.Int).Mul(third, k).Cmp(d1a) >= 0 {
			rep.Fail("controller:frozen-although-window-moved:"+where, fmt.Sprintf("rate stays at %s although the window moves it by at least one unit", k), c)
		}
	}
	// a falling step is bounded the other way round as well: with xb, d2 >= 0 the adjustment is >= -1/alpha;
	// a rising step is k * (1 + num/(d1*alpha)) (or a third of it in the slow-down window): never more than that
	if num.Sign() > 0 {
		d1a := new(big.Int).Mul(new(big.Int).Mul(two64, d), params.OneOverAlpha)
		ub := new(big.Int).Add(new(big.Int).Mul(num, k), new(big.Int).Mul(k, d1a))
		ub.Quo(ub, d1a)
		if r.Cmp(ub) > 0 {
			rep.Fail("controller:rise-beyond-formula:"+where, fmt.Sprintf("rate rose from %s to %s, the documented formula gives at most %s", k, r, ub), c)
		}
	}
}

func runKQuai(c KQuaiJS, cw *hlib.CaseWriter, rep *hlib.Report) {
	k, d, xb := bi(c.K), bi(c.D), bi(c.XB)
	d2 := logBigOr0(d)
	var r *big.Int
	func() {
		defer func() { _ = recover() }()
		r = misc.CalculateKQuai(new(big.Int).Set(k), new(big.Int).Set(d), c.BN, new(big.Int).Set(xb))
	}()
	rep.Evaluations++
	rep.TracesValidated++
	cw.Add(fmt.Sprintf("(%d%%N, CKQuai %s %s %s %d %s %s)", c.ID, z(k), z(d), z(d2), c.BN, z(xb), optZ(r)), c)
	if r == nil {
		if d.Sign() > 0 {
			rep.Fail("controller:panic:kquai", "CalculateKQuai panics on a positive difficulty", c)
		} else {
			rep.Count("kquai:panic-on-zero-difficulty")
		}
		return
	}
	checkKQuaiStep("kquai", k, d, d2, xb, r, c, rep)
	switch r.Cmp(k) {
	case 1:
		rep.Count("kquai:rising")
	case -1:
		rep.Count("kquai:falling")
	default:
		rep.Count("kquai:frozen")
	}
	if c.BN > params.KQuaiChangeBlock && c.BN < params.KawPowForkBlock {
		rep.Count("kquai:slow-down-window")
	}
	if r.Cmp(k) != 0 {
		rep.Nontrivial(fmt.Sprintf("kquai/%s/%s/%s/%d", c.K, c.D, c.XB, c.BN))
	}
}

// which fork regime of CalculateBetaFromMiningChoiceAndConversions a prime block number is in,
// computed from params alone (expected result: "const:<rate>", "parent", "pct:<n>", or "" = controller)
func betaRegime(bn uint64) (name string, want func(parent *big.Int) *big.Int) {
	same := func(p *big.Int) *big.Int { return p }
	konst := func(x *big.Int) func(*big.Int) *big.Int { return func(*big.Int) *big.Int { return x } }
	if bn < params.ControllerKickInBlock+params.TokenChoiceSetSize {
		return "before-window-full", konst(params.ExchangeRate)
	}
	switch {
	case bn < params.KawPowForkBlock:
		for _, e := range params.KQuaiChangeTable {
			if bn == e[0] {
				if bn == params.KQuaiChangeBlock {
					return "kquai-change-block", konst(params.ExchangeRate)
				}
				pct := int64(e[1])
				return "table-reduction", func(p *big.Int) *big.Int {
					return new(big.Int).Div(new(big.Int).Mul(p, big.NewInt(pct)), big.NewInt(100))
				}
			}
			if bn > e[0] && bn < e[0]+params.KQuaiChangeHoldInterval {
				return "table-hold", same
			}
		}
	case bn < params.ShaEquivalentDifficultyForkBlock:
		if bn == params.KQuaiResetAfterKawPowForkBlock {
			return "kawpow-reset", konst(params.ExchangeRateResetValueAfterKawpowFork)
		}
		if bn > params.KQuaiResetAfterKawPowForkBlock && bn < params.KQuaiResetAfterKawPowForkBlock+params.ExchangeRateHoldInterval {
			return "kawpow-hold", same
		}
	default:
		if bn == params.ShaEquivalentDifficultyForkBlock {
			return "sha-reset", konst(params.ExchangeRateAfterShaEquivalentDifficultyFork)
		}
		if bn > params.ShaEquivalentDifficultyForkBlock && bn < params.ShaEquivalentDifficultyForkBlock+params.ExchangeRateHoldIntervalAfterShaEquivalentDifficulty {
			return "sha-hold", same
		}
	}
	return "controller", nil
}

func runBeta(c BetaJS, cw *hlib.CaseWriter, rep *hlib.Report) {
	parent, md := bi(c.Parent), bi(c.MD)
	block := types.EmptyWorkObject(common.PRIME_CTX)
	block.Header().SetNumber(new(big.Int).SetUint64(c.BN), common.PRIME_CTX)
	block.Header().SetMinerDifficulty(new(big.Int).Set(md))
	set := types.NewTokenChoiceSet()
	total := big.NewInt(0)
	idx := 0
	var runTerms []string
	for _, rn := range c.Runs {
		dv, n := bi(rn[0]), int(bi(rn[1]).Int64())
		for j := 0; j < n && idx < len(set); j++ {
			set[idx] = types.TokenChoices{Quai: uint64(idx % 3), Qi: uint64(idx % 5), Diff: new(big.Int).Set(dv)}
			idx++
		}
		total.Add(total, new(big.Int).Mul(dv, big.NewInt(int64(n))))
		runTerms = append(runTerms, fmt.Sprintf("(%s, %d)", z(dv), n))
	}
	if idx != len(set) {
		panic(fmt.Sprintf("beta case %d: runs cover %d of %d window entries", c.ID, idx, len(set)))
	}
	best := new(big.Int).Div(total, new(big.Int).SetUint64(params.TokenChoiceSetSize))
	logbest, logmd := logBigOr0(best), logBigOr0(md)
	var r *big.Int
	var err error
	func() {
		defer func() {
			if rec := recover(); rec != nil {
				r = nil
			}
		}()
		var hc *core.HeaderChain
		r, err = core.CalculateBetaFromMiningChoiceAndConversions(hc, block, new(big.Int).Set(parent), set)
	}()
	rep.Evaluations++
	if err != nil {
		rep.Fail("controller:error", "CalculateBetaFromMiningChoiceAndConversions returned "+err.Error(), c)
		return
	}
	rep.TracesValidated++
	cw.Add(fmt.Sprintf("(%d%%N, CBeta %s (mkCtl %d %s %s %s %s) %s)", c.ID, z(parent), c.BN, hlib.CoqList(runTerms), z(logbest), z(md), z(logmd), optZ(r)), c)
	regime, want := betaRegime(c.BN)
	rep.Count("beta:" + regime)
	if r == nil {
		if regime == "controller" && (best.Cmp(big.NewInt(1)) <= 0 || md.Sign() <= 0) {
			rep.Count("beta:panic-on-degenerate-window")
		} else {
			rep.Fail("controller:panic:beta", "CalculateBetaFromMiningChoiceAndConversions panics (regime "+regime+")", c)
		}
		return
	}
	if r.Sign() < 0 {
		rep.Fail("controller:negative-rate:beta", fmt.Sprintf("new exchange rate %s is negative (parent %s, regime %s)", r, parent, regime), c)
	}
	if want != nil {
		if w := want(parent); r.Cmp(w) != 0 {
			rep.Fail("controller:fork-regime:"+regime, fmt.Sprintf("prime block %d (%s): rate %s, the fork schedule says %s (parent %s)", c.BN, regime, r, w, parent), c)
		}
		rep.Nontrivial("beta/" + regime + "/" + c.Parent)
		return
	}
	xb := new(big.Int).Div(new(big.Int).Mul(best, two64), logbest)
	checkKQuaiStep("beta", parent, md, logmd, xb, r, c, rep)
	switch r.Cmp(parent) {
	case 1:
		rep.Count("beta:rising")
	case -1:
		rep.Count("beta:falling")
	default:
		rep.Count("beta:frozen")
	}
	rep.Nontrivial(fmt.Sprintf("beta/%d/%s/%s/%s", c.BN, c.Parent, c.MD, best))
}

func fullRun(d *big.Int) [][2]string {
	return [][2]string{{d.String(), fmt.Sprint(params.TokenChoiceSetSize)}}
}

func corpusKQuai() []KQuaiJS {
	k0 := params.ExchangeRate
	d := mul(e(12), 5)
	ld := common.LogBig(d)
	// xb that balances exactly does not exist in general; take the floor and its neighbours
	bal := new(big.Int).Div(new(big.Int).Mul(two64, d), ld)
	var out []KQuaiJS
	for _, bn := range []uint64{params.KQuaiChangeBlock, params.KQuaiChangeBlock + 1, params.KawPowForkBlock - 1, params.KawPowForkBlock, params.ControllerKickInBlock + params.TokenChoiceSetSize} {
		for _, xb := range []*big.Int{big0, bal, new(big.Int).Add(bal, big.NewInt(1)), mul(bal, 2), mul(bal, 1000), new(big.Int).Div(bal, big.NewInt(2))} {
			out = append(out, KQuaiJS{Kind: "kquai", K: k0.String(), D: d.String(), BN: bn, XB: xb.String()})
		}
	}
	// the rate can reach zero and then stays there (theorem controller_rate_positive_refuted)
	out = append(out, KQuaiJS{Kind: "kquai", K: "1", D: d.String(), BN: 2000000, XB: "0"},
		KQuaiJS{Kind: "kquai", K: "0", D: d.String(), BN: 2000000, XB: mul(bal, 50).String()},
		KQuaiJS{Kind: "kquai", K: "2", D: "1", BN: 2000000, XB: "0"},
		KQuaiJS{Kind: "kquai", K: k0.String(), D: "1", BN: 2000000, XB: "12345678901234567890"}, // LogBig(1) = 0
		KQuaiJS{Kind: "kquai", K: k0.String(), D: "0", BN: 2000000, XB: "5"})                    // panics (unreachable)
	return out
}

func corpusBeta() []BetaJS {
	k0 := params.ExchangeRate
	p := new(big.Int).Div(mul(k0, 173), big.NewInt(100))
	d := mul(e(12), 5)
	var out []BetaJS
	add := func(label string, bn uint64, parent *big.Int, runs [][2]string, md *big.Int) {
		out = append(out, BetaJS{Kind: "beta", Label: label, Parent: parent.String(), BN: bn, MD: md.String(), Runs: runs})
	}
	full := params.ControllerKickInBlock + params.TokenChoiceSetSize
	var bns []uint64
	bns = append(bns, full-1, full, full+1)
	for _, t := range params.KQuaiChangeTable {
		bns = append(bns, t[0]-1, t[0], t[0]+1, t[0]+params.KQuaiChangeHoldInterval-1, t[0]+params.KQuaiChangeHoldInterval)
	}
	kp, sh := params.KawPowForkBlock, params.ShaEquivalentDifficultyForkBlock
	bns = append(bns, kp-1, kp, kp+1, kp+params.ExchangeRateHoldInterval-1, kp+params.ExchangeRateHoldInterval,
		sh-1, sh, sh+1, sh+params.ExchangeRateHoldIntervalAfterShaEquivalentDifficulty-1, sh+params.ExchangeRateHoldIntervalAfterShaEquivalentDifficulty,
		sh+params.ExchangeRateHoldIntervalAfterShaEquivalentDifficulty+100000)
	for _, bn := range bns {
		add("regime-boundary-rising", bn, p, fullRun(mul(d, 3)), d)
		add("regime-boundary-falling", bn, p, fullRun(new(big.Int).Div(d, big.NewInt(3))), d)
	}
	late := sh + params.ExchangeRateHoldIntervalAfterShaEquivalentDifficulty + 5
	half := fmt.Sprint(params.TokenChoiceSetSize / 2)
	add("window-two-runs", late, p, [][2]string{{mul(d, 2).String(), half}, {d.String(), half}}, d)
	add("window-equals-difficulty", late, p, fullRun(d), d)
	add("window-of-ones", late, p, fullRun(big.NewInt(1)), d)  // bestDiff 1: LogBig = 0, division by zero
	add("window-of-zeros", late, p, fullRun(big.NewInt(0)), d) // bestDiff 0: LogBig panics
	add("zero-parent", late, big0, fullRun(mul(d, 3)), d)      // rate 0 is absorbing
	add("unit-parent-falling", late, big.NewInt(1), fullRun(big.NewInt(2)), d)
	add("zero-miner-difficulty", late, p, fullRun(d), big0)
	return out
}

func genKQuai(r *hlib.Rng, id int) KQuaiJS {
	k := new(big.Int).Set(params.ExchangeRate)
	switch r.Pick(5, 2, 2, 1) {
	case 0:
		k = new(big.Int).Div(mul(k, int64(20+r.Intn(9000))), big.NewInt(100))
	case 1:
		k = new(big.Int).SetUint64(r.Next() % 5000)
	case 2:
		k = new(big.Int).SetBytes(r.Bytes(1 + r.Intn(14)))
	}
	d := mul(e(9+r.Intn(9)), int64(1+r.Intn(999)))
	if r.Chance(5) {
		d = big.NewInt(int64(1 + r.Intn(5)))
	}
	bal := new(big.Int).Div(new(big.Int).Mul(two64, d), new(big.Int).Add(common.LogBig(d), big.NewInt(1)))
	var xb *big.Int
	switch r.Pick(4, 4, 1, 1) {
	case 0:
		xb = new(big.Int).Div(mul(bal, int64(r.Intn(1000))), big.NewInt(1000))
	case 1:
		xb = new(big.Int).Div(mul(bal, int64(1000+r.Intn(5000))), big.NewInt(1000))
	case 2:
		xb = new(big.Int).Add(bal, big.NewInt(int64(r.Intn(5))-2))
		if xb.Sign() < 0 {
			xb = big.NewInt(0)
		}
	default:
		xb = mul(bal, int64(1+r.Intn(100000)))
	}
	var bn uint64
	switch r.Pick(3, 3, 1) {
	case 0:
		bn = params.KQuaiChangeBlock - 1000 + uint64(r.Intn(int(params.KawPowForkBlock-params.KQuaiChangeBlock)+2000))
	case 1:
		bn = params.KawPowForkBlock + uint64(r.Intn(3000000))
	default:
		bn = []uint64{params.KQuaiChangeBlock, params.KQuaiChangeBlock + 1, params.KawPowForkBlock - 1, params.KawPowForkBlock}[r.Intn(4)]
	}
	return KQuaiJS{ID: id, Kind: "kquai", K: k.String(), D: d.String(), BN: bn, XB: xb.String()}
}

func genBeta(r *hlib.Rng, id int) BetaJS {
	p := new(big.Int).Div(mul(params.ExchangeRate, int64(10+r.Intn(9000))), big.NewInt(100))
	if r.Chance(10) {
		p = new(big.Int).SetUint64(r.Next() % 3000)
	}
	md := mul(e(9+r.Intn(9)), int64(1+r.Intn(999)))
	// window: 1-4 runs around the miner difficulty (rising, falling, mixed)
	nr := 1 + r.Intn(4)
	left := int(params.TokenChoiceSetSize)
	var runs [][2]string
	for i := 0; i < nr; i++ {
		n := left
		if i < nr-1 {
			n = 1 + r.Intn(left-(nr-1-i))
		}
		left -= n
		dv := new(big.Int).Div(mul(md, int64(1+r.Intn(4000))), big.NewInt(1000))
		if r.Chance(3) {
			dv = big.NewInt(int64(r.Intn(3)))
		}
		runs = append(runs, [2]string{dv.String(), fmt.Sprint(n)})
	}
	kick, kp, sh := params.ControllerKickInBlock, params.KawPowForkBlock, params.ShaEquivalentDifficultyForkBlock
	var bn uint64
	switch r.Pick(2, 3, 2, 3, 2) {
	case 0:
		bn = kick + uint64(r.Intn(int(params.TokenChoiceSetSize)+50))
	case 1:
		bn = kick + params.TokenChoiceSetSize + uint64(r.Intn(int(kp-kick-params.TokenChoiceSetSize)))
	case 2:
		t := params.KQuaiChangeTable[r.Intn(len(params.KQuaiChangeTable))]
		bn = t[0] - 2 + uint64(r.Intn(int(params.KQuaiChangeHoldInterval)+4))
		if r.Chance(30) {
			bn = t[0]
		}
	case 3:
		bn = kp - 2 + uint64(r.Intn(int(sh-kp)+4))
	default:
		bn = sh - 2 + uint64(r.Intn(int(params.ExchangeRateHoldIntervalAfterShaEquivalentDifficulty)*2))
	}
	return BetaJS{ID: id, Kind: "beta", Parent: p.String(), BN: bn, MD: md.String(), Runs: runs}
}

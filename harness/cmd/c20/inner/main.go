//go:build verif && c20inner

// C20 harness, inner part (built by the launcher cmd/c20 with the sliced conversion
// block of (*Slice).Append overlaid into package core as core.VerifRepriceConversions).
//
// Drives the REAL code:
//   - misc.CalculateQuaiReward / CalculateQiReward / QiToQuai / QuaiToQi      (CRate cases)
//   - misc.ApplyCubicDiscount                                                 (CDisc cases)
//   - misc.FindMinDenominations                                               (CDenoms cases)
//   - the verbatim conversion block of (*Slice).Append                        (CReprice cases)
//
// and evaluates model-independent monitors (see design/C20.md).
package main

import (
	"encoding/hex"
	"fmt"
	"math/big"
	"os"
	"sort"
	"strings"

	"github.com/dominant-strategies/go-quai/common"
	"github.com/dominant-strategies/go-quai/consensus/misc"
	"github.com/dominant-strategies/go-quai/core"
	"github.com/dominant-strategies/go-quai/core/rawdb"
	"github.com/dominant-strategies/go-quai/core/state"
	"github.com/dominant-strategies/go-quai/core/types"
	"github.com/dominant-strategies/go-quai/log"
	"github.com/dominant-strategies/go-quai/params"

	"verifharness/hlib"
)

var (
	logger *log.Logger
	big0   = big.NewInt(0)
	two64  = new(big.Int).Lsh(big.NewInt(1), 64)
)

func bi(s string) *big.Int {
	x, ok := new(big.Int).SetString(s, 10)
	if !ok {
		panic("bad integer " + s)
	}
	return x
}
func e(n int) *big.Int { return new(big.Int).Exp(big.NewInt(10), big.NewInt(int64(n)), nil) }
func mul(a *big.Int, b int64) *big.Int { return new(big.Int).Mul(a, big.NewInt(b)) }

// ---------- header ----------

type HdrJS struct {
	Number      uint64 `json:"number"`       // prime number of the header
	K           string `json:"k"`            // exchange rate
	MinerDiff   string `json:"miner_diff"`   // header.MinerDifficulty()
	PTN         uint64 `json:"ptn"`          // prime terminus number (selects the reward forks)
	ZoneNum     uint64 `json:"zone_num"`     // zone number (OneOverKqi)
	KQD         string `json:"kqd"`          // KQuaiDiscount
	Flow        string `json:"flow"`         // ConversionFlowAmount
	Inc         bool   `json:"inc"`          // exchangeRateIncreasing
	ShaCount    string `json:"sha_count"`    // share counts / sha difficulty for the post-KawPow normalisation
	ScryptCount string `json:"scrypt_count"`
	ShaDiff     string `json:"sha_diff"`
}

func buildHeader(h HdrJS) *types.WorkObject {
	wo := types.EmptyWorkObject(common.PRIME_CTX)
	wo.Header().SetNumber(new(big.Int).SetUint64(h.Number), common.PRIME_CTX)
	wo.Header().SetExchangeRate(bi(h.K))
	wo.Header().SetMinerDifficulty(bi(h.MinerDiff))
	wo.Header().SetKQuaiDiscount(bi(h.KQD))
	wo.Header().SetConversionFlowAmount(bi(h.Flow))
	wh := wo.WorkObjectHeader()
	wh.SetPrimeTerminusNumber(new(big.Int).SetUint64(h.PTN))
	wh.SetNumber(new(big.Int).SetUint64(h.ZoneNum))
	// the block's own difficulty differs from its miner difficulty (falling / rising / equal, derived from the
	// other fields): a helper that reads header.Difficulty() instead of its `difficulty` argument must show
	wh.SetDifficulty(blockDifficulty(h))
	wh.SetLocation(common.Location{0, 0})
	wh.SetShaDiffAndCount(types.NewPowShareDiffAndCount(bi(h.ShaDiff), bi(h.ShaCount), big.NewInt(0)))
	wh.SetScryptDiffAndCount(types.NewPowShareDiffAndCount(big.NewInt(0), bi(h.ScryptCount), big.NewInt(0)))
	return wo
}

func blockDifficulty(h HdrJS) *big.Int {
	f := []int64{2, 3, 4, 6, 12}[(h.Number+h.ZoneNum+h.PTN)%5] // x0.5, x0.75, x1, x1.5, x3
	d := new(big.Int).Div(mul(bi(h.MinerDiff), f), big.NewInt(4))
	if d.Sign() == 0 {
		d = big.NewInt(1)
	}
	return d
}

// the inputs of the model's quai_reward / qi_reward: the head of CalculateQuaiReward /
// CalculateQiReward (difficulty normalisation, LogBig, divisor log) is NOT modelled, it is
// computed here with the real functions and handed to the model.
func rateInputs(wo *types.WorkObject, diff *big.Int) (logdiff, deff, kqi *big.Int) {
	wh := wo.WorkObjectHeader()
	deff = new(big.Int).Set(diff)
	if wh.PrimeTerminusNumber().Uint64() >= params.KawPowForkBlock {
		deff = misc.ForkAwareKawPowEquivalentDifficulty(wh, deff)
	}
	logdiff = common.LogBig(deff)
	if wh.PrimeTerminusNumber().Uint64() >= params.KQuaiResetAfterKawPowForkBlock {
		logdiff = new(big.Int).Sub(logdiff, common.LogBig(new(big.Int).SetUint64(params.KQuaiDifficultyDivisor)))
	}
	kqi = params.OneOverKqi(wh.NumberU64())
	return
}

func genHdr(r *hlib.Rng) HdrJS {
	h := HdrJS{ShaCount: "0", ScryptCount: "0", ShaDiff: "0"}
	switch r.Pick(3, 6, 1) {
	case 0: // before the slip-change fork
		h.Number = params.ControllerKickInBlock + 1 + uint64(r.Intn(int(params.ConversionSlipChangeBlock-params.ControllerKickInBlock)))
	case 1:
		h.Number = params.ConversionSlipChangeBlock + 1 + uint64(r.Intn(3000000))
	default:
		h.Number = params.ConversionSlipChangeBlock + uint64(r.Intn(2)) // both sides of the boundary
	}
	k := new(big.Int).Set(params.ExchangeRate)
	switch r.Pick(5, 2, 2, 1) {
	case 0:
		k = new(big.Int).Div(mul(k, int64(50+r.Intn(400))), big.NewInt(100))
	case 1:
		k = mul(k, int64(1+r.Intn(100)))
	case 2:
		k = new(big.Int).Div(k, big.NewInt(int64(1+r.Intn(1000))))
	default:
		k = new(big.Int).SetUint64(1 + r.Next()%1000000)
	}
	h.K = k.String()
	d := mul(e(11+r.Intn(6)), int64(1+r.Intn(999)))
	h.MinerDiff = d.String()
	switch r.Pick(6, 2, 2) {
	case 0:
		h.PTN = uint64(r.Intn(int(params.KawPowForkBlock)))
	case 1:
		h.PTN = params.KawPowForkBlock + uint64(r.Intn(int(params.ShaEquivalentDifficultyForkBlock-params.KawPowForkBlock)))
		h.ShaCount = new(big.Int).SetUint64(r.Next() % (10 << 32)).String()
		h.ScryptCount = new(big.Int).SetUint64(r.Next() % (10 << 32)).String()
	default:
		h.PTN = params.ShaEquivalentDifficultyForkBlock + uint64(r.Intn(1000000))
		h.ShaCount = new(big.Int).SetUint64(r.Next() % (10 << 32)).String()
		h.ScryptCount = new(big.Int).SetUint64(r.Next() % (10 << 32)).String()
		h.ShaDiff = mul(e(10+r.Intn(8)), int64(1+r.Intn(999))).String()
	}
	if r.Chance(50) {
		h.ZoneNum = uint64(r.Intn(int(params.QiActivationBlock) + 1))
	} else {
		h.ZoneNum = params.QiActivationBlock + 1 + uint64(r.Intn(40000000))
	}
	switch r.Pick(5, 3, 1, 1) {
	case 0:
		h.KQD = params.StartingKQuaiDiscount.String()
	case 1:
		h.KQD = fmt.Sprint(r.Intn(int(params.KQuaiDiscountMultiplier) + 1))
	case 2:
		h.KQD = "0"
	default:
		h.KQD = fmt.Sprint(params.KQuaiDiscountMultiplier)
	}
	switch r.Pick(3, 5, 1) {
	case 0:
		h.Flow = params.StartingConversionFlowAmount.String()
	case 1:
		h.Flow = mul(e(18+r.Intn(5)), int64(100+r.Intn(9900))).String()
	default:
		h.Flow = params.MinConversionFlowAmount.String()
	}
	h.Inc = r.Bool()
	return h
}

// ---------- helper cases ----------

type RateJS struct {
	ID   int    `json:"id"`
	Kind string `json:"kind"`
	H    HdrJS  `json:"h"`
	X    string `json:"x"`
}
type DiscJS struct {
	ID   int    `json:"id"`
	Kind string `json:"kind"`
	V    string `json:"v"`
	M    string `json:"m"`
}
type DenJS struct {
	ID   int    `json:"id"`
	Kind string `json:"kind"`
	V    string `json:"v"`
}

func z(x *big.Int) string { return hlib.CoqBig(x) }

func runRate(c RateJS, cw *hlib.CaseWriter, rep *hlib.Report) {
	wo := buildHeader(c.H)
	// the exchangeRate and difficulty ARGUMENTS differ from every field of the header (ExchangeRate,
	// MinerDifficulty, Difficulty): the helpers are functions of their arguments
	k, d, x := bi(c.H.K), bi(c.H.MinerDiff), bi(c.X)
	if c.ID%3 != 0 {
		k = new(big.Int).Add(new(big.Int).Div(mul(k, 7), big.NewInt(5)), big.NewInt(3))
		d = new(big.Int).Add(new(big.Int).Div(mul(d, 5), big.NewInt(4)), big.NewInt(1))
	}
	logdiff, deff, kqi := rateInputs(wo, d)
	var qr, qir, q2q, q2qi, back1, back2 *big.Int
	func() {
		defer func() {
			if r := recover(); r != nil {
				rep.Fail("helpers:panic", fmt.Sprintf("rate helpers panic: %v", r), c)
			}
		}()
		qr = misc.CalculateQuaiReward(wo.WorkObjectHeader(), d, k)
		qir = misc.CalculateQiReward(wo.WorkObjectHeader(), d)
		q2q = misc.QiToQuai(wo, k, d, x)
		q2qi = misc.QuaiToQi(wo, k, d, x)
		back1 = misc.QiToQuai(wo, k, d, q2qi) // Quai -> Qi -> Quai
		back2 = misc.QuaiToQi(wo, k, d, q2q)  // Qi -> Quai -> Qi
	}()
	rep.Evaluations++
	if qr == nil || back2 == nil {
		return
	}
	rep.TracesValidated++
	cw.Add(fmt.Sprintf("(%d%%N, CRate %s %s %s %s %s %s %s %s %s)", c.ID, z(k), z(logdiff), z(deff), z(kqi), z(x), z(qr), z(qir), z(q2q), z(q2qi)), c)
	if qr.Sign() <= 0 || qir.Sign() <= 0 {
		rep.Count("rate:nonpositive-reward")
		return
	}
	// monitors: a round trip at a fixed rate never yields more than was started with
	if back1.Cmp(x) > 0 {
		rep.Fail("helpers:roundtrip-gain:quai", fmt.Sprintf("QiToQuai(QuaiToQi(%s)) = %s > start", x, back1), c)
	}
	if back2.Cmp(x) > 0 {
		rep.Fail("helpers:roundtrip-gain:qi", fmt.Sprintf("QuaiToQi(QiToQuai(%s)) = %s > start", x, back2), c)
	}
	if q2q.Sign() < 0 || q2qi.Sign() < 0 {
		rep.Fail("helpers:negative", "negative conversion result for non-negative input", c)
	}
	if q2q.Sign() > 0 && q2qi.Sign() > 0 {
		rep.Nontrivial(fmt.Sprintf("rate/%s/%s/%s", c.H.K, c.H.MinerDiff, c.X))
	}
	rep.Count("rate:" + map[bool]string{true: "post-kawpow", false: "pre-kawpow"}[c.H.PTN >= params.KawPowForkBlock])
}

// exact rational value of the discount the comments of ApplyCubicDiscount describe, floored
func discIdeal(v, m *big.Int) *big.Int {
	if v.Cmp(m) <= 0 {
		r := new(big.Int).Mul(v, new(big.Int).SetUint64(params.MinCubicDiscountDivisor-params.MinCubicDiscountBasisPoint))
		return r.Div(r, new(big.Int).SetUint64(params.MinCubicDiscountDivisor))
	}
	if new(big.Int).Mul(m, big.NewInt(10)).Cmp(v) < 0 {
		return big.NewInt(0)
	}
	m3 := new(big.Int).Exp(m, big.NewInt(3), nil)
	v3 := new(big.Int).Exp(v, big.NewInt(3), nil)
	num := new(big.Int).Sub(new(big.Int).Mul(big.NewInt(999), m3), v3)
	num.Mul(num, v)
	den := new(big.Int).Mul(big.NewInt(1000), m3)
	q := new(big.Int).Div(num, den) // Euclidean = floor for den > 0
	if q.Sign() < 0 {
		return big.NewInt(0)
	}
	return q
}
func discTol(v *big.Int) *big.Int {
	t := new(big.Int).Rsh(v, 48)
	return t.Add(t, big.NewInt(2))
}

// checks one real ApplyCubicDiscount result; returns false if the recorded hypothesis fails
func checkDisc(v, m, obs *big.Int, where string, c any, rep *hlib.Report) bool {
	ok := true
	if v.Sign() < 0 {
		return true
	}
	if obs.Sign() < 0 || obs.Cmp(v) > 0 {
		rep.Fail("disc:outside-0..value:"+where, fmt.Sprintf("ApplyCubicDiscount(%s,%s) = %s is not within [0, value]", v, m, obs), c)
		ok = false
	}
	if m.Sign() >= 0 {
		d := new(big.Int).Sub(obs, discIdeal(v, m))
		if d.Abs(d).Cmp(discTol(v)) > 0 {
			rep.Fail("disc:far-from-cubic-formula:"+where, fmt.Sprintf("ApplyCubicDiscount(%s,%s) = %s, the documented formula gives %s", v, m, obs, discIdeal(v, m)), c)
			ok = false
		}
	}
	return ok
}

func runDisc(c DiscJS, cw *hlib.CaseWriter, rep *hlib.Report) {
	v, m := bi(c.V), bi(c.M)
	var obs *big.Int
	func() {
		defer func() {
			if r := recover(); r != nil {
				rep.Fail("helpers:panic", fmt.Sprintf("ApplyCubicDiscount panic: %v", r), c)
			}
		}()
		obs, _ = misc.ApplyCubicDiscount(v, m).Int(nil)
	}()
	rep.Evaluations++
	if obs == nil {
		return
	}
	rep.TracesValidated++
	cw.Add(fmt.Sprintf("(%d%%N, CDisc %s %s %s)", c.ID, z(v), z(m), z(obs)), c)
	checkDisc(v, m, obs, "direct", c, rep)
	switch {
	case v.Cmp(m) <= 0:
		rep.Count("disc:value<=mean")
	case new(big.Int).Mul(m, big.NewInt(10)).Cmp(v) < 0:
		rep.Count("disc:value>10*mean")
	default:
		rep.Count("disc:cubic")
		rep.Nontrivial("disc/" + c.V + "/" + c.M)
	}
}

func denomGuard() *big.Int {
	return new(big.Int).Mul(two64, types.Denominations[uint8(types.MaxDenomination)])
}

func runDen(c DenJS, cw *hlib.CaseWriter, rep *hlib.Report) {
	v := bi(c.V)
	var m map[uint8]uint64
	func() {
		defer func() {
			if r := recover(); r != nil {
				rep.Fail("helpers:panic", fmt.Sprintf("FindMinDenominations panic: %v", r), c)
			}
		}()
		m = misc.FindMinDenominations(v)
	}()
	rep.Evaluations++
	if m == nil {
		return
	}
	rep.TracesValidated++
	keys := make([]int, 0, len(m))
	for k := range m {
		keys = append(keys, int(k))
	}
	sort.Sort(sort.Reverse(sort.IntSlice(keys)))
	items := make([]string, len(keys))
	sum := big.NewInt(0)
	for i, k := range keys {
		items[i] = fmt.Sprintf("(%d, %d)", k, m[uint8(k)])
		sum.Add(sum, new(big.Int).Mul(new(big.Int).SetUint64(m[uint8(k)]), types.Denominations[uint8(k)]))
	}
	cw.Add(fmt.Sprintf("(%d%%N, CDenoms %s %s)", c.ID, z(v), hlib.CoqList(items)), c)
	if v.Cmp(denomGuard()) < 0 {
		// monitor: the split loses nothing
		if sum.Cmp(v) != 0 {
			rep.Fail("denoms:sum-differs", fmt.Sprintf("FindMinDenominations(%s) sums to %s", v, sum), c)
		}
		// greedy over a canonical system: below the top denomination no count reaches the next denomination
		for _, k := range keys {
			if k < types.MaxDenomination {
				lim := new(big.Int).Div(types.Denominations[uint8(k+1)], types.Denominations[uint8(k)])
				if new(big.Int).SetUint64(m[uint8(k)]).Cmp(lim) >= 0 {
					rep.Fail("denoms:not-greedy", fmt.Sprintf("FindMinDenominations(%s): %d pieces of denomination %d", v, m[uint8(k)], k), c)
				}
			}
		}
		rep.Count("denoms:within-guard")
		if len(keys) > 1 {
			rep.Nontrivial("den/" + c.V)
		}
	} else {
		rep.Count("denoms:beyond-uint64-guard")
	}
}

// ---------- the conversion block ----------

type EtxJS struct {
	ID    int    `json:"id"`
	Type  uint64 `json:"type"`
	ToQi  bool   `json:"to_qi"`
	Value string `json:"value"`
	Data  string `json:"data"` // hex
}
type OutJS struct {
	ID    int    `json:"id"`
	Type  uint64 `json:"type"`
	Value string `json:"value"`
}
type RepriceJS struct {
	ID            int     `json:"id"`
	Kind          string  `json:"kind"`
	Label         string  `json:"label,omitempty"`
	H             HdrJS   `json:"h"`
	KNew          string  `json:"k_new"`
	ViaStored     bool    `json:"via_stored"` // new rate delivered through GetKQuaiAndUpdateBit (update paused) instead of the controller
	Etxs          []EtxJS `json:"etxs"`
	ObservedPanic string  `json:"observed_panic,omitempty"`
	Observed      []OutJS `json:"observed,omitempty"`
}

type discCall struct{ v, m, r *big.Int }
type recorder struct {
	disc  []discCall
	convs int
}

func (r *recorder) QiToQuai(b *types.WorkObject, k, d, x *big.Int) *big.Int {
	r.convs++
	return misc.QiToQuai(b, k, d, x)
}
func (r *recorder) QuaiToQi(b *types.WorkObject, k, d, x *big.Int) *big.Int {
	r.convs++
	return misc.QuaiToQi(b, k, d, x)
}
func (r *recorder) ApplyCubicDiscount(v, m *big.Int) *big.Float {
	f := misc.ApplyCubicDiscount(v, m)
	i, _ := new(big.Float).Copy(f).Int(nil)
	r.disc = append(r.disc, discCall{new(big.Int).Set(v), new(big.Int).Set(m), i})
	return f
}
func (r *recorder) ComputeConversionAmountInQuai(h *types.WorkObject, etxs types.Transactions) *big.Int {
	return misc.ComputeConversionAmountInQuai(h, etxs)
}

func toAddr(qi bool, id int) common.Address {
	b := make([]byte, 20)
	b[0] = 0x00
	if qi {
		b[1] = 0x80 | byte(id&0x7f)
	} else {
		b[1] = byte(id & 0x7f)
	}
	b[19] = byte(id)
	b[18] = byte(id >> 8)
	return common.BytesToAddress(b, common.Location{0, 0})
}

func slipOf(data []byte) *big.Int {
	s := new(big.Int).Set(params.MaxSlip)
	if len(data) > 1 {
		s = new(big.Int).SetBytes(data[:2])
		if s.Cmp(params.MaxSlip) > 0 {
			s = new(big.Int).Set(params.MaxSlip)
		}
		if s.Cmp(params.MinSlip) < 0 {
			s = new(big.Int).Set(params.MinSlip)
		}
	}
	return s
}

func runReprice(c *RepriceJS, cw *hlib.CaseWriter, rep *hlib.Report) {
	header := buildHeader(c.H)
	knew := bi(c.KNew)
	mdiff := bi(c.H.MinerDiff)
	etxs := make(types.Transactions, len(c.Etxs))
	orig := map[int]EtxJS{}
	for i, x := range c.Etxs {
		to := toAddr(x.ToQi, x.ID)
		data, _ := hex.DecodeString(x.Data)
		var h common.Hash
		h[0], h[30], h[31] = 0xc2, byte(x.ID>>8), byte(x.ID)
		etxs[i] = types.NewTx(&types.ExternalTx{OriginatingTxHash: h, ETXIndex: uint16(x.ID), Gas: 100000, To: &to, Value: bi(x.Value),
			Data: data, Sender: common.ZeroAddress(common.Location{0, 0}), EtxType: x.Type})
		orig[x.ID] = x
	}
	parent := types.EmptyWorkObject(common.PRIME_CTX)
	hc := &core.VerifC20HC{Stored: new(big.Int).Set(knew), UpdateBit: 0}
	if c.ViaStored {
		parent.WorkObjectHeader().SetNumber(big.NewInt(1000))
	} else if c.ID%2 == 0 {
		parent.WorkObjectHeader().SetNumber(new(big.Int).SetUint64(params.BlocksPerYear + 5))
		hc.Stored = big.NewInt(12345) // must not be used
	} else {
		parent.WorkObjectHeader().SetNumber(big.NewInt(1000))
		hc.UpdateBit = 1
		hc.Stored = big.NewInt(12345)
	}
	sl := core.NewVerifC20Slice(hc, logger)
	batch := rawdb.NewMemoryDatabase(logger).NewBatch()
	rec := &recorder{}
	var ctsActual, ctsRealized *big.Int
	cts := func(_ *core.VerifC20HC, block, par *types.WorkObject, rate *big.Int, txs types.Transactions, actual, realized, md *big.Int) (types.TokenChoiceSet, error) {
		ctsActual, ctsRealized = new(big.Int).Set(actual), new(big.Int).Set(realized)
		return types.NewTokenChoiceSet(), nil
	}
	betaCalled := false
	beta := func(_ *core.VerifC20HC, par *types.WorkObject, rate *big.Int, set types.TokenChoiceSet) (*big.Int, error) {
		betaCalled = true
		return new(big.Int).Set(knew), nil
	}
	out := &core.VerifC20Out{}
	var res types.Transactions
	var err error
	panicked := ""
	func() {
		defer func() {
			if r := recover(); r != nil {
				panicked = fmt.Sprint(r)
			}
		}()
		res, err = core.VerifRepriceConversions(sl, header, header, parent, etxs, c.H.Inc, batch, rec, cts, beta, out)
	}()
	rep.Evaluations++
	if err != nil {
		rep.Fail("reprice:harness-error", "the sliced block returned an error the harness does not inject: "+err.Error(), c)
		return
	}
	rep.TracesValidated++

	// ----- Coq case -----
	logdiff, deff, kqi := rateInputs(header, mdiff)
	hdrTerm := fmt.Sprintf("(mkHdr %d %s %s %s %s %s %s %s)", c.H.Number, z(bi(c.H.K)), z(logdiff), z(deff), z(kqi), z(bi(c.H.KQD)), z(bi(c.H.Flow)), hlib.CoqBool(c.H.Inc))
	seen := map[string]bool{}
	var table []string
	for _, d := range rec.disc {
		key := d.v.String() + "/" + d.m.String()
		if !seen[key] {
			seen[key] = true
			table = append(table, fmt.Sprintf("(%s, %s, %s)", z(d.v), z(d.m), z(d.r)))
		}
	}
	etxTerms := make([]string, len(c.Etxs))
	for i, x := range c.Etxs {
		data, _ := hex.DecodeString(x.Data)
		slip := "None"
		if len(data) > 1 {
			slip = fmt.Sprintf("(Some %d)", int(data[0])<<8|int(data[1]))
		}
		etxTerms[i] = fmt.Sprintf("mkEtx %d%%N %s %s %s %s", x.ID, hlib.CoqBool(x.Type == types.ConversionType), hlib.CoqBool(x.ToQi), z(bi(x.Value)), slip)
	}
	obsTerm := "None"
	if panicked == "" {
		items := make([]string, len(res))
		for i, tx := range res {
			id := int(tx.ETXIndex())
			in := orig[id]
			code := 9
			if in.Type == types.ConversionType {
				switch tx.EtxType() {
				case types.ConversionType:
					code = 1
				case types.ConversionRevertType:
					code = 2
				}
			} else if tx.EtxType() == in.Type {
				code = 0
			}
			items[i] = fmt.Sprintf("(%d%%N, %d%%N, %s)", id, code, z(tx.Value()))
			c.Observed = append(c.Observed, OutJS{id, tx.EtxType(), tx.Value().String()})
		}
		obsTerm = fmt.Sprintf("(Some (%s, %s, %s))", hlib.CoqList(items), z(out.ActualConversionAmountInQuai), z(out.RealizedConversionAmountInQuai))
	} else {
		c.ObservedPanic = panicked
	}
	cw.Add(fmt.Sprintf("(%d%%N, CReprice %s %s %s %s %s)", c.ID, hdrTerm, z(knew), hlib.CoqList(table), hlib.CoqList(etxTerms), obsTerm), c)

	// ----- distribution -----
	nconv := 0
	realistic := true // every conversion carries at least the origin-side minimum and has a non-zero Quai equivalent
	dirs := map[bool]int{}
	for _, x := range c.Etxs {
		if x.Type == types.ConversionType {
			nconv++
			dirs[x.ToQi]++
			v := bi(x.Value)
			if v.Sign() <= 0 {
				realistic = false
			} else if !x.ToQi && misc.QiToQuai(header, bi(c.H.K), mdiff, v).Sign() == 0 {
				realistic = false
			}
		}
	}
	rep.Count(fmt.Sprintf("reprice:conversions:%s", bucket(nconv)))
	postfork := c.H.Number > params.ConversionSlipChangeBlock
	rep.Count("reprice:" + map[bool]string{true: "post-slip-fork", false: "pre-slip-fork"}[postfork])
	if dirs[true] > 0 && dirs[false] > 0 {
		rep.Count("reprice:both-directions")
	}

	// ----- monitors -----
	fork := map[bool]string{true: "", false: ":pre-slip-change-fork"}[postfork]
	for _, d := range rec.disc {
		checkDisc(d.v, d.m, d.r, "in-loop", c, rep)
	}
	if panicked != "" {
		if realistic {
			rep.Fail("reprice:panic", "the conversion block panics on a realistic inbound set: "+panicked, c)
		} else {
			rep.Count("reprice:panic-on-unreachable-input")
		}
		return
	}
	// the new rate must have come from where the block says
	if c.ViaStored == betaCalled {
		rep.Fail("reprice:rate-source", "new exchange rate taken from the wrong source", c)
	}
	if out.ExchangeRate == nil || out.ExchangeRate.Cmp(knew) != 0 {
		rep.Fail("reprice:rate-source", "new exchange rate is not the one supplied", c)
	}
	if ctsActual == nil || ctsActual.Cmp(out.ActualConversionAmountInQuai) != 0 || ctsRealized.Cmp(out.RealizedConversionAmountInQuai) != 0 {
		rep.Fail("reprice:controller-inputs", "amounts handed to CalculateTokenChoicesSet differ from the block's totals", c)
	}
	// every inbound ETX comes out exactly once
	if len(res) != len(c.Etxs) {
		rep.Fail("reprice:etx-lost-or-duplicated", fmt.Sprintf("%d ETXs in, %d out", len(c.Etxs), len(res)), c)
		return
	}
	got := map[int]bool{}
	reverted, converted := 0, 0
	// index of the last converted ETX, provided no pass-one-accepted conversion follows it in processing order
	lastConverted := -1
	for i, tx := range res {
		if in, ok := orig[int(tx.ETXIndex())]; ok && in.Type == types.ConversionType && bi(in.Value).Sign() > 0 {
			switch tx.EtxType() {
			case types.ConversionType:
				lastConverted = i
			case types.ConversionRevertType:
				// rejected by pass one (never reached pass two): adds nothing to the total; a revert that did
				// reach pass two (its converted value rounded to zero) was part of the total
				if i < len(out.EtxValuesBeforeConversion) && out.EtxValuesBeforeConversion[i] != nil {
					lastConverted = -1
				}
			}
		}
	}
	kinds := ""
	for i, tx := range res {
		id := int(tx.ETXIndex())
		in, ok := orig[id]
		if !ok || got[id] {
			rep.Fail("reprice:etx-lost-or-duplicated", fmt.Sprintf("ETX id %d appears twice or was never sent", id), c)
			return
		}
		got[id] = true
		v := tx.Value()
		if v.Sign() < 0 {
			rep.Fail("reprice:negative-value", fmt.Sprintf("ETX %d leaves with value %s", id, v), c)
		}
		if tx.To().IsInQiLedgerScope() != in.ToQi {
			rep.Fail("reprice:recipient-changed", fmt.Sprintf("ETX %d changed ledger", id), c)
		}
		if in.Type != types.ConversionType {
			if tx.EtxType() != in.Type || v.Cmp(bi(in.Value)) != 0 {
				rep.Fail("reprice:non-conversion-touched", fmt.Sprintf("ETX %d (type %d) left as type %d value %s", id, in.Type, tx.EtxType(), v), c)
			}
			continue
		}
		ov := bi(in.Value)
		if ov.Sign() == 0 {
			continue
		}
		data, _ := hex.DecodeString(in.Data)
		switch tx.EtxType() {
		case types.ConversionRevertType:
			reverted++
			kinds += "r"
			if v.Cmp(ov) != 0 {
				rep.Fail("reprice:revert-not-original", fmt.Sprintf("reverted conversion %d carries %s, original %s", id, v, ov), c)
			}
		case types.ConversionType:
			converted++
			kinds += "c"
			var implied, floor *big.Int
			ten := new(big.Int).Div(new(big.Int).Mul(ov, big.NewInt(10)), big.NewInt(100))
			if in.ToQi {
				implied = misc.QuaiToQi(header, knew, mdiff, ov)
				floor = misc.QuaiToQi(header, knew, mdiff, ten)
			} else {
				implied = misc.QiToQuai(header, knew, mdiff, ov)
				floor = misc.QiToQuai(header, knew, mdiff, ten)
			}
			if v.Cmp(implied) > 0 {
				rep.Fail("reprice:credit-exceeds-rate-amount"+fork, fmt.Sprintf("conversion %d of %s is credited %s, the new rate implies at most %s", id, ov, v, implied), c)
			}
			if v.Cmp(floor) < 0 {
				rep.Fail("reprice:credit-below-floor"+fork, fmt.Sprintf("conversion %d of %s is credited %s, below the 10%% floor %s", id, ov, v, floor), c)
			}
			// the sender's slippage bound against the amount that is finally converted (origin units)
			after := new(big.Int).Div(new(big.Int).Mul(ov, new(big.Int).Sub(params.SlipAmountRange, slipOf(data))), params.SlipAmountRange)
			if bf := out.EtxValuesBeforeConversion[i]; bf != nil && bf.Cmp(after) < 0 {
				// For the LAST conversion accepted by pass one the cumulative amount it was tested against IS the
				// final total, so pass-one value and final value coincide: there the bound must hold.  Only an
				// earlier conversion can be dragged below its bound by later ones (recorded finding).
				where := ""
				if i == lastConverted {
					where = ":last-accepted"
				}
				rep.Fail("reprice:final-value-below-sender-slip-bound"+where+fork, fmt.Sprintf("conversion %d of %s with slip bound %s/%s is converted from %s < %s and not reverted", id, ov, slipOf(data), params.SlipAmountRange, bf, after), c)
			}
		default:
			rep.Fail("reprice:conversion-left-in-no-outcome", fmt.Sprintf("conversion %d left with type %d", id, tx.EtxType()), c)
		}
	}
	// the sort really is by descending slip and stable
	for i := 1; i < len(res); i++ {
		a, b := orig[int(res[i-1].ETXIndex())], orig[int(res[i].ETXIndex())]
		ka, kb := sortKey(a), sortKey(b)
		if ka < kb {
			rep.Fail("reprice:not-sorted-by-slip", "conversions are not processed in descending slip order", c)
			break
		}
		if ka == kb && pos(c.Etxs, a.ID) > pos(c.Etxs, b.ID) {
			rep.Fail("reprice:not-sorted-by-slip", "equal slips are reordered (sort not stable)", c)
			break
		}
	}
	if out.ConversionsReverted != reverted {
		rep.Fail("reprice:revert-count", fmt.Sprintf("block counts %d reverts, %d ETXs are marked", out.ConversionsReverted, reverted), c)
	}
	if converted > 0 && reverted > 0 {
		rep.Count("reprice:converted-and-reverted-mixed")
	}
	if converted+reverted > 0 {
		rep.Nontrivial(fmt.Sprintf("reprice/%v/%s", c.H.Number > params.ConversionSlipChangeBlock, fingerprint(c, kinds)))
	}
	rep.CountN("reprice:etx-converted", converted)
	rep.CountN("reprice:etx-reverted", reverted)
}

func sortKey(x EtxJS) int64 {
	if x.Type != types.ConversionType {
		return 0
	}
	d, _ := hex.DecodeString(x.Data)
	return slipOf(d).Int64()
}
func pos(l []EtxJS, id int) int {
	for i, x := range l {
		if x.ID == id {
			return i
		}
	}
	return -1
}
func bucket(n int) string {
	switch {
	case n == 0:
		return "0"
	case n == 1:
		return "1"
	case n <= 5:
		return "2-5"
	case n <= 15:
		return "6-15"
	default:
		return "16+"
	}
}
func fingerprint(c *RepriceJS, kinds string) string {
	var sb strings.Builder
	sb.WriteString(kinds + "/" + c.H.K + "/" + c.H.Flow + "/")
	for _, x := range c.Etxs {
		sb.WriteString(x.Value[:min(6, len(x.Value))] + ",")
	}
	return sb.String()
}

// ----- generators -----

func slipData(r *hlib.Rng, toQi bool) []byte {
	var d []byte
	switch r.Pick(2, 1, 4, 3, 1) {
	case 0:
		d = nil // no slip: 90 %
	case 1:
		d = []byte{byte(r.Next())} // one byte: ignored
	case 2:
		s := []int{30, 31, 45, 50, 100, 200, 500, 1000, 2500, 5000, 8999, 9000}[r.Intn(12)]
		d = []byte{byte(s >> 8), byte(s)}
	case 3:
		s := r.Intn(9200)
		d = []byte{byte(s >> 8), byte(s)}
	default:
		d = []byte{byte(r.Next()), byte(r.Next())} // garbage, clamped
	}
	if len(d) == 2 && (!toQi || r.Chance(30)) {
		d = append(d, r.Bytes(20)...) // Qi->Quai carries 2 byte slip + 20 byte refund address
	}
	return d
}

// amount in Quai "its" relative to the flow amount
func genQuaiAmount(r *hlib.Rng, flow *big.Int) *big.Int {
	switch r.Pick(2, 5, 3, 2, 1, 1) {
	case 0:
		return new(big.Int).Add(params.MinQuaiConversionAmount, new(big.Int).SetUint64(r.Next()%1000))
	case 1: // a fraction of the flow
		return new(big.Int).Div(mul(flow, int64(1+r.Intn(1000))), big.NewInt(1000))
	case 2: // 1..10 x flow
		return new(big.Int).Div(mul(flow, int64(1000+r.Intn(9500))), big.NewInt(1000))
	case 3: // beyond ten times the running average
		return new(big.Int).Div(mul(flow, int64(10000+r.Intn(50000))), big.NewInt(1000))
	case 4:
		return new(big.Int).Div(flow, big.NewInt(int64(1000+r.Intn(100000))))
	default:
		return mul(flow, 10)
	}
}

func genReprice(r *hlib.Rng, id int) *RepriceJS {
	c := &RepriceJS{ID: id, Kind: "reprice", H: genHdr(r)}
	// the loop needs a positive Quai reward: keep the post-KawPow difficulties above the divisor
	if c.H.PTN >= params.KawPowForkBlock {
		c.H.MinerDiff = mul(e(12+r.Intn(4)), int64(1+r.Intn(999))).String()
	}
	k := bi(c.H.K)
	switch r.Pick(3, 3, 3, 1) {
	case 0:
		c.KNew = c.H.K // frozen
	case 1:
		c.KNew = new(big.Int).Div(mul(k, int64(1000+r.Intn(500))), big.NewInt(1000)).String() // rising
	case 2:
		c.KNew = new(big.Int).Div(mul(k, int64(500+r.Intn(500))), big.NewInt(1000)).String() // falling
	default:
		c.KNew = new(big.Int).Div(mul(k, int64(1+r.Intn(5000))), big.NewInt(100)).String()
	}
	if bi(c.KNew).Sign() == 0 {
		c.KNew = "1"
	}
	c.ViaStored = r.Chance(30)
	header := buildHeader(c.H)
	flow := bi(c.H.Flow)
	mdiff := bi(c.H.MinerDiff)
	n := r.Pick(1, 2, 6, 5, 2)
	switch n {
	case 0:
		n = 0
	case 1:
		n = 1
	case 2:
		n = 2 + r.Intn(4)
	case 3:
		n = 6 + r.Intn(10)
	default:
		n = 16 + r.Intn(25)
	}
	mode := r.Pick(6, 2, 2) // mixed / only Quai->Qi / only Qi->Quai
	for i := 0; i < n; i++ {
		x := EtxJS{ID: i + 1}
		if r.Chance(12) { // not a conversion
			x.Type = []uint64{types.DefaultType, types.CoinbaseType, types.CoinbaseLockupType, types.WrappingQiType, types.UnwrapQiType}[r.Intn(5)]
			x.ToQi = r.Bool()
			x.Value = new(big.Int).SetUint64(r.Next() % 1000000000000).String()
			x.Data = hex.EncodeToString(r.Bytes(r.Intn(24)))
		} else {
			x.Type = types.ConversionType
			x.ToQi = mode == 1 || (mode == 0 && r.Bool())
			amt := genQuaiAmount(r, flow)
			if !x.ToQi { // Qi -> Quai: value is in qits
				amt = misc.QuaiToQi(header, k, mdiff, amt)
				if amt.Sign() <= 0 {
					amt = big.NewInt(1)
				}
			}
			x.Value = amt.String()
			x.Data = hex.EncodeToString(slipData(r, x.ToQi))
		}
		c.Etxs = append(c.Etxs, x)
	}
	return c
}

func corpusReprice() []*RepriceJS {
	mk := func(label string, number uint64, kqd string, inc bool, flow *big.Int, knewPct int64, etxs ...EtxJS) *RepriceJS {
		h := HdrJS{Number: number, K: params.ExchangeRate.String(), MinerDiff: mul(e(12), 5).String(), PTN: 300000, ZoneNum: 2000000,
			KQD: kqd, Flow: flow.String(), Inc: inc, ShaCount: "0", ScryptCount: "0", ShaDiff: "0"}
		for i := range etxs {
			etxs[i].ID = i + 1
			etxs[i].Type = types.ConversionType
		}
		return &RepriceJS{Kind: "reprice", Label: label, H: h, KNew: new(big.Int).Div(mul(params.ExchangeRate, knewPct), big.NewInt(100)).String(), Etxs: etxs}
	}
	post := params.ConversionSlipChangeBlock + 1000
	pre := params.ConversionSlipChangeBlock - 1000
	flow := new(big.Int).Set(params.StartingConversionFlowAmount)
	slip := func(s int) string { return hex.EncodeToString([]byte{byte(s >> 8), byte(s)}) }
	hdrFor := func(c *RepriceJS) *types.WorkObject { return buildHeader(c.H) }
	var cs []*RepriceJS
	// empty set, single minimum conversion, exactly ten times the flow, just above
	cs = append(cs, mk("empty", post, "100", true, flow, 100))
	cs = append(cs, mk("minimum", post, "100", true, flow, 100, EtxJS{ToQi: true, Value: params.MinQuaiConversionAmount.String()}))
	cs = append(cs, mk("ten-times-flow", post, "100", false, flow, 100, EtxJS{ToQi: true, Value: mul(flow, 10).String()}))
	cs = append(cs, mk("above-ten-times-flow", post, "100", false, flow, 100, EtxJS{ToQi: true, Value: new(big.Int).Add(mul(flow, 10), big.NewInt(1)).String()}))
	cs = append(cs, mk("above-ten-times-flow-min-slip", post, "100", false, flow, 100, EtxJS{ToQi: true, Value: mul(flow, 11).String(), Data: slip(30)}))
	// equal slips keep their order, low slips revert behind a large tolerant conversion
	cs = append(cs, mk("revert-behind-whale", post, "100", true, flow, 120,
		EtxJS{ToQi: true, Value: mul(flow, 1).String(), Data: slip(30)},
		EtxJS{ToQi: true, Value: mul(flow, 6).String(), Data: slip(9000)},
		EtxJS{ToQi: true, Value: mul(flow, 1).String(), Data: slip(30)},
		EtxJS{ToQi: true, Value: new(big.Int).Div(flow, big.NewInt(2)).String(), Data: slip(5000)}))
	// F-slip: bound checked against the pass-one amount only; a later conversion in the other
	// direction (which escapes the k-Quai discount) is accepted on a larger total and drags the first below its bound
	{
		c := mk("final-slip-below-bound", post, "50000", true, flow, 100,
			EtxJS{ToQi: true, Value: flow.String(), Data: slip(6000)},
			EtxJS{ToQi: false, Value: "0", Data: slip(5000) + strings.Repeat("00", 20)})
		qi := misc.QuaiToQi(hdrFor(c), bi(c.H.K), bi(c.H.MinerDiff), mul(flow, 6))
		c.Etxs[1].Value = qi.String()
		cs = append(cs, c)
		c2 := mk("final-slip-below-bound-small-kqd", post, "100", true, flow, 100,
			EtxJS{ToQi: true, Value: flow.String(), Data: slip(45)},
			EtxJS{ToQi: false, Value: "0", Data: slip(40) + strings.Repeat("00", 20)})
		c2.Etxs[1].Value = misc.QuaiToQi(hdrFor(c2), bi(c2.H.K), bi(c2.H.MinerDiff), new(big.Int).Div(mul(flow, 42), big.NewInt(100))).String()
		cs = append(cs, c2)
	}
	// before the slip-change fork the discount is taken of the flow amount, not of the converted amount
	cs = append(cs, mk("pre-fork-half-flow", pre, "100", true, flow, 100, EtxJS{ToQi: true, Value: new(big.Int).Div(flow, big.NewInt(2)).String()}))
	cs = append(cs, mk("pre-fork-mixed", pre, "100", false, flow, 90,
		EtxJS{ToQi: true, Value: new(big.Int).Div(flow, big.NewInt(3)).String(), Data: slip(100)},
		EtxJS{ToQi: true, Value: mul(flow, 3).String()}))
	// unreachable inputs the origin guards exclude: zero value conversion (SetValue(nil)), zero Quai equivalent (Div by zero)
	cs = append(cs, mk("zero-value-conversion", post, "100", true, flow, 100, EtxJS{ToQi: true, Value: "0"}))
	{
		c := mk("qi-dust-zero-quai-equivalent", post, "100", true, flow, 100, EtxJS{ToQi: false, Value: "1", Data: slip(100) + strings.Repeat("00", 20)})
		c.H.K = "1"
		c.KNew = "1"
		c.H.MinerDiff = mul(e(16), 9).String()
		cs = append(cs, c)
	}
	// value converts to zero at the new rate
	{
		c := mk("falls-to-zero-at-new-rate", post, "0", true, flow, 100, EtxJS{ToQi: true, Value: params.MinQuaiConversionAmount.String()})
		c.KNew = mul(params.ExchangeRate, 1000000000).String()
		cs = append(cs, c)
	}
	return cs
}

// ---------- destination: the Quai->Qi conversion branch of Process ----------

type MintJS struct {
	ID       int    `json:"id"`
	Kind     string `json:"kind"`
	Value    string `json:"value"`
	Gas      uint64 `json:"gas"`      // etx gas
	PoolGas  uint64 `json:"pool_gas"` // block gas pool
	BlockNum uint64 `json:"block_num"`
	PTN      uint64 `json:"ptn"`
	Index    bool   `json:"index"` // IndexAddressUtxos
}

func runMint(c MintJS, cw *hlib.CaseWriter, rep *hlib.Report) {
	loc := common.Location{0, 0}
	block := types.EmptyWorkObject(common.ZONE_CTX)
	block.WorkObjectHeader().SetNumber(new(big.Int).SetUint64(c.BlockNum))
	block.WorkObjectHeader().SetPrimeTerminusNumber(new(big.Int).SetUint64(c.PTN))
	block.WorkObjectHeader().SetLocation(loc)
	to := toAddr(true, c.ID)
	var oh common.Hash
	oh[0], oh[30], oh[31] = 0xc3, byte(c.ID>>8), byte(c.ID)
	value := bi(c.Value)
	etx := types.NewTx(&types.ExternalTx{OriginatingTxHash: oh, ETXIndex: 0, Gas: c.Gas, To: &to, Value: value,
		Sender: toAddr(false, c.ID), EtxType: types.ConversionType})
	gp := new(types.GasPool).AddGas(c.PoolGas)
	usedGas := new(uint64)
	db := rawdb.NewMemoryDatabase(logger)
	batch := db.NewBatch()
	supply := big.NewInt(0)
	ucd := &core.UtxosCreatedDeleted{AddressOutpointsToAddMap: map[[20]byte][]*types.OutpointAndDenomination{}}
	p := core.NewVerifC20StateProcessor(&params.ChainConfig{ChainID: big.NewInt(1), Location: loc, IndexAddressUtxos: c.Index}, logger)
	out := &core.VerifC20MintOut{}
	var err error
	panicked := ""
	func() {
		defer func() {
			if r := recover(); r != nil {
				panicked = fmt.Sprint(r)
			}
		}()
		_, _, _, _, _, _, _, _, _, err = core.VerifMintQuaiToQi(p, block, common.ZONE_CTX, etx, etx, gp, usedGas, batch, supply, ucd, common.Address{}, nil, nil, out)
	}()
	rep.Evaluations++
	if panicked != "" {
		rep.Fail("mint:panic", "the Quai->Qi conversion branch of Process panics: "+panicked, c)
		return
	}
	if err != nil {
		// only the block gas pool can make the branch fail
		if c.PoolGas >= c.Gas {
			rep.Fail("mint:unexpected-error", "branch returned "+err.Error()+" although the gas pool covers the ETX gas", c)
		}
		rep.Count("mint:gas-pool-exhausted")
		return
	}
	rep.TracesValidated++
	if !out.Reached || len(out.Receipts) != 1 {
		rep.Fail("mint:no-single-receipt", fmt.Sprintf("%d receipts", len(out.Receipts)), c)
		return
	}
	rc := out.Receipts[0]
	created := len(ucd.UtxosCreatedKeys)
	if err := batch.Write(); err != nil {
		panic(err)
	}
	// what was really written: denominations, lock, owner
	minted := big.NewInt(0)
	lockWant := new(big.Int).SetUint64(c.BlockNum + params.ConversionLockPeriod)
	for i := 0; i < created; i++ {
		u := rawdb.GetUTXO(db, etx.Hash(), uint16(i))
		if u == nil {
			rep.Fail("mint:utxo-missing", fmt.Sprintf("output %d reported created but not in the batch", i), c)
			return
		}
		minted.Add(minted, types.Denominations[u.Denomination])
		if u.Lock == nil || u.Lock.Cmp(lockWant) != 0 {
			rep.Fail("mint:wrong-lock", fmt.Sprintf("output %d locked until %v, want block+ConversionLockPeriod = %s", i, u.Lock, lockWant), c)
		}
		if string(u.Address) != string(to.Bytes()) {
			rep.Fail("mint:wrong-owner", fmt.Sprintf("output %d not owned by the ETX recipient", i), c)
		}
	}
	if rawdb.GetUTXO(db, etx.Hash(), uint16(created)) != nil && created < 65535 {
		rep.Fail("mint:unreported-utxo", "an output beyond the reported ones exists", c)
	}
	logTotal := big.NewInt(0)
	if len(rc.Logs) == 1 {
		logTotal = new(big.Int).SetBytes(rc.Logs[0].Data)
	}
	prekick := c.PTN < params.ControllerKickInBlock
	switch {
	case prekick:
		rep.Count("mint:before-controller-kick-in")
		if created != 0 || *usedGas != 0 || rc.Status != types.ReceiptStatusFailed {
			rep.Fail("mint:pre-kick-in-not-inert", "conversion before the controller kick-in block is not a failed no-op", c)
		}
		cw.Add(fmt.Sprintf("(%d%%N, CSettleQi %d %d %s %s)", c.ID, c.PTN, c.Gas, z(value), z(minted)), c)
		return
	case c.Gas < params.TxGas:
		rep.Count("mint:etx-gas-below-txgas")
		if created != 0 || rc.Status != types.ReceiptStatusFailed || *usedGas != c.Gas {
			rep.Fail("mint:low-gas-not-inert", "conversion with less than TxGas is not a failed no-op charging its gas", c)
		}
		cw.Add(fmt.Sprintf("(%d%%N, CSettleQi %d %d %s %s)", c.ID, c.PTN, c.Gas, z(value), z(minted)), c)
		return
	}
	ok := rc.Status == types.ReceiptStatusLocked
	gasLeft := c.Gas - params.TxGas - uint64(created)*params.CallValueTransferGas
	cw.Add(fmt.Sprintf("(%d%%N, CMint %s %d %s %d %d %s)", c.ID, z(value), c.Gas-params.TxGas, z(minted), created, gasLeft, hlib.CoqBool(ok)), c)
	// monitors
	if minted.Cmp(value) > 0 {
		rep.Fail("mint:minted-more-than-value", fmt.Sprintf("minted %s for a conversion of %s", minted, value), c)
	}
	if ok && minted.Cmp(value) != 0 && value.Cmp(denomGuard()) < 0 {
		rep.Fail("mint:locked-status-but-value-lost", fmt.Sprintf("status Locked but minted %s of %s", minted, value), c)
	}
	if !ok && rc.Status != types.ReceiptStatusFailed {
		rep.Fail("mint:status", fmt.Sprintf("unexpected receipt status %d", rc.Status), c)
	}
	if supply.Cmp(minted) != 0 || logTotal.Cmp(minted) != 0 {
		rep.Fail("mint:accounting", fmt.Sprintf("supplyAddedQi %s / logged total %s differ from the minted outputs %s", supply, logTotal, minted), c)
	}
	if *usedGas != params.TxGas+uint64(created)*params.CallValueTransferGas || out.TotalEtxGas != *usedGas || gp.Gas() != c.PoolGas-*usedGas {
		rep.Fail("mint:gas-accounting", fmt.Sprintf("usedGas %d totalEtxGas %d pool %d for %d outputs", *usedGas, out.TotalEtxGas, gp.Gas(), created), c)
	}
	if *usedGas > c.Gas {
		rep.Fail("mint:gas-beyond-etx-limit", fmt.Sprintf("the conversion consumed %d gas, its ETX carries only %d", *usedGas, c.Gas), c)
	}
	wantUsed := *usedGas
	if !ok {
		wantUsed = c.Gas
	}
	if rc.GasUsed != wantUsed {
		rep.Fail("mint:receipt-gas", fmt.Sprintf("receipt reports %d gas", rc.GasUsed), c)
	}
	// the loss is only what gas (or the output index) did not pay for
	if !ok {
		short := c.Gas-params.TxGas < uint64(created+1)*params.CallValueTransferGas
		if !short && created < 65535 {
			rep.Fail("mint:lost-without-shortage", fmt.Sprintf("%d outputs minted, gas would pay for more", created), c)
		}
		rep.Count("mint:partial")
	} else {
		rep.Count("mint:complete")
	}
	if c.Index && len(ucd.AddressOutpointsToAddMap[to.Bytes20()]) != created {
		rep.Fail("mint:index", "address outpoint index does not list every created output", c)
	}
	if created > 1 {
		rep.Nontrivial(fmt.Sprintf("mint/%s/%d/%v", c.Value, created, ok))
	}
}

// ---------- destination: the two ConversionRevert branches of Process ----------

type RevertJS struct {
	ID       int    `json:"id"`
	Kind     string `json:"kind"` // revert_qi | revert_quai
	Value    string `json:"value"`
	Gas      uint64 `json:"gas"`
	PoolGas  uint64 `json:"pool_gas"`
	BlockNum uint64 `json:"block_num"`
	Index    bool   `json:"index"`
}

// a reverted Qi->Quai conversion: the original Qi must come back to the refund address in the ETX data
func runRevertQi(c RevertJS, cw *hlib.CaseWriter, rep *hlib.Report) {
	loc := common.Location{0, 0}
	block := types.EmptyWorkObject(common.ZONE_CTX)
	block.WorkObjectHeader().SetNumber(new(big.Int).SetUint64(c.BlockNum))
	block.WorkObjectHeader().SetLocation(loc)
	to := toAddr(false, c.ID)
	refund := toAddr(true, c.ID)
	var oh common.Hash
	oh[0], oh[30], oh[31] = 0xc4, byte(c.ID>>8), byte(c.ID)
	value := bi(c.Value)
	data := append([]byte{0, 100}, refund.Bytes()...)
	etx := types.NewTx(&types.ExternalTx{OriginatingTxHash: oh, ETXIndex: 0, Gas: c.Gas, To: &to, Value: value, Data: data,
		Sender: common.ZeroAddress(loc), EtxType: types.ConversionRevertType})
	sender := common.BytesToAddress(etx.Data()[2:22], loc) // as Process derives it
	gp := new(types.GasPool).AddGas(c.PoolGas)
	usedGas := new(uint64)
	db := rawdb.NewMemoryDatabase(logger)
	batch := db.NewBatch()
	supply := big.NewInt(0)
	ucd := &core.UtxosCreatedDeleted{AddressOutpointsToAddMap: map[[20]byte][]*types.OutpointAndDenomination{}}
	p := core.NewVerifC20StateProcessor(&params.ChainConfig{ChainID: big.NewInt(1), Location: loc, IndexAddressUtxos: c.Index}, logger)
	out := &core.VerifC20MintOut{}
	var err error
	panicked := ""
	func() {
		defer func() {
			if r := recover(); r != nil {
				panicked = fmt.Sprint(r)
			}
		}()
		_, _, _, _, _, _, _, _, _, err = core.VerifRevertToQi(p, block, common.ZONE_CTX, etx, etx, gp, usedGas, batch, supply, ucd, sender, &to, nil, out)
	}()
	rep.Evaluations++
	if panicked != "" {
		rep.Fail("revert-qi:panic", "the Qi refund branch of Process panics: "+panicked, c)
		return
	}
	if err != nil {
		if c.PoolGas >= c.Gas {
			rep.Fail("revert-qi:unexpected-error", "branch returned "+err.Error()+" although the gas pool covers the ETX gas", c)
		}
		rep.Count("revert-qi:gas-pool-exhausted")
		return
	}
	rep.TracesValidated++
	if !out.Reached || len(out.Receipts) != 1 {
		rep.Fail("revert-qi:no-single-receipt", fmt.Sprintf("%d receipts", len(out.Receipts)), c)
		return
	}
	rc := out.Receipts[0]
	created := len(ucd.UtxosCreatedKeys)
	if err := batch.Write(); err != nil {
		panic(err)
	}
	refunded := big.NewInt(0)
	lockWant := new(big.Int).SetUint64(c.BlockNum + params.ConversionLockPeriod)
	for i := 0; i < created; i++ {
		u := rawdb.GetUTXO(db, etx.Hash(), uint16(i))
		if u == nil {
			rep.Fail("revert-qi:utxo-missing", fmt.Sprintf("output %d reported created but not in the batch", i), c)
			return
		}
		refunded.Add(refunded, types.Denominations[u.Denomination])
		if u.Lock == nil || u.Lock.Cmp(lockWant) != 0 {
			rep.Fail("revert-qi:wrong-lock", fmt.Sprintf("refund output %d locked until %v, want %s", i, u.Lock, lockWant), c)
		}
		if string(u.Address) != string(refund.Bytes()) {
			rep.Fail("revert-qi:wrong-owner", fmt.Sprintf("refund output %d is not owned by the refund address of the conversion", i), c)
		}
	}
	gasLeft := c.Gas - uint64(created)*params.CallValueTransferGas
	cw.Add(fmt.Sprintf("(%d%%N, CRefund %s %d %s %d %d)", c.ID, z(value), c.Gas, z(refunded), created, gasLeft), c)
	// what the trim rule may drop: the pieces of denomination <= MaxTrimDenomination
	dust := big.NewInt(0)
	pieces := uint64(0)
	for d, cnt := range misc.FindMinDenominations(value) {
		if int(d) <= types.MaxTrimDenomination {
			dust.Add(dust, new(big.Int).Mul(new(big.Int).SetUint64(cnt), types.Denominations[d]))
		} else {
			pieces += cnt
		}
	}
	want := new(big.Int).Sub(value, dust)
	if refunded.Cmp(value) > 0 {
		rep.Fail("revert-qi:refund-exceeds-original", fmt.Sprintf("refunded %s of %s", refunded, value), c)
	}
	if dust.Cmp(types.Denominations[uint8(types.MaxTrimDenomination+1)]) >= 0 {
		rep.Fail("revert-qi:dust-rule", fmt.Sprintf("trim rule drops %s, not less than the smallest refundable denomination", dust), c)
	}
	switch {
	case refunded.Cmp(want) == 0:
		rep.Count("revert-qi:refund-complete-up-to-dust")
	case refunded.Cmp(want) < 0:
		// exactly the original (less dust) must come back; the only thing that can stand in the way is the ETX gas
		// recorded finding: the refund loop is metered by the ETX gas (the fee surplus of the origin tx), 9000 per
		// output, largest first.  Anything else that shortens the refund is not known.
		cause := ""
		paid := c.Gas / params.CallValueTransferGas
		if paid > 65535 {
			paid = 65535
		}
		if uint64(created) == paid && paid < pieces {
			cause = ":etx-gas-limited"
		}
		rep.Fail("revert-qi:refund-short-of-original"+cause, fmt.Sprintf("reverted conversion of %s qits with ETX gas %d refunds only %s (dust rule would allow %s): %d of %d outputs were paid for",
			value, c.Gas, refunded, want, created, pieces), c)
	default:
		rep.Fail("revert-qi:trimmed-denomination-minted", fmt.Sprintf("refunded %s, more than value minus dust %s", refunded, want), c)
	}
	if supply.Cmp(refunded) != 0 || (len(rc.Logs) == 1 && new(big.Int).SetBytes(rc.Logs[0].Data).Cmp(refunded) != 0) {
		rep.Fail("revert-qi:accounting", "supplyAddedQi / logged total differ from the refunded outputs", c)
	}
	if *usedGas != uint64(created)*params.CallValueTransferGas || out.TotalEtxGas != *usedGas || gp.Gas() != c.PoolGas-*usedGas || rc.GasUsed != *usedGas {
		rep.Fail("revert-qi:gas-accounting", fmt.Sprintf("usedGas %d totalEtxGas %d receipt %d for %d outputs", *usedGas, out.TotalEtxGas, rc.GasUsed, created), c)
	}
	if *usedGas > c.Gas {
		rep.Fail("revert-qi:gas-beyond-etx-limit", fmt.Sprintf("the refund consumed %d gas, its ETX carries only %d", *usedGas, c.Gas), c)
	}
	if created > 1 {
		rep.Nontrivial(fmt.Sprintf("revert-qi/%s/%d", c.Value, created))
	}
}

// a reverted Quai->Qi conversion: the original Quai must be added back to the sender's balance
func runRevertQuai(c RevertJS, cw *hlib.CaseWriter, rep *hlib.Report) {
	loc := common.Location{0, 0}
	to := toAddr(true, c.ID)
	sender := toAddr(false, c.ID)
	var oh common.Hash
	oh[0], oh[30], oh[31] = 0xc5, byte(c.ID>>8), byte(c.ID)
	value := bi(c.Value)
	etx := types.NewTx(&types.ExternalTx{OriginatingTxHash: oh, ETXIndex: 0, Gas: c.Gas, To: &to, Value: value,
		Sender: sender, EtxType: types.ConversionRevertType})
	gp := new(types.GasPool).AddGas(c.PoolGas)
	usedGas := new(uint64)
	db := rawdb.NewMemoryDatabase(logger)
	statedb, err := state.New(types.EmptyRootHash, types.EmptyRootHash, big.NewInt(0), state.NewDatabase(db), state.NewDatabase(db), nil, loc, logger)
	if err != nil {
		panic(err)
	}
	internal, ierr := sender.InternalAddress()
	if ierr != nil {
		panic(ierr)
	}
	before := big.NewInt(int64(c.ID) * 1000)
	statedb.AddBalance(internal, before)
	out := &core.VerifC20MintOut{}
	panicked := ""
	func() {
		defer func() {
			if r := recover(); r != nil {
				panicked = fmt.Sprint(r)
			}
		}()
		_, _, _, _, _, _, _, _, _, err = core.VerifRevertToQuai(nil, nil, common.ZONE_CTX, etx, etx, gp, usedGas, nil, nil, nil, sender, &to, statedb, out)
	}()
	rep.Evaluations++
	if panicked != "" {
		rep.Fail("revert-quai:panic", "the Quai refund branch of Process panics: "+panicked, c)
		return
	}
	if err != nil {
		if c.PoolGas >= params.QiToQuaiConversionGas {
			rep.Fail("revert-quai:unexpected-error", "branch returned "+err.Error(), c)
		}
		rep.Count("revert-quai:gas-pool-exhausted")
		return
	}
	rep.TracesValidated++
	got := new(big.Int).Sub(statedb.GetBalance(internal), before)
	if got.Cmp(value) != 0 {
		rep.Fail("revert-quai:refund-not-original", fmt.Sprintf("reverted conversion of %s credits %s back", value, got), c)
	}
	if !out.Reached || len(out.Receipts) != 1 || out.Receipts[0].Status != types.ReceiptStatusSuccessful || *usedGas != params.QiToQuaiConversionGas {
		rep.Fail("revert-quai:receipt", "no single successful receipt charging QiToQuaiConversionGas", c)
	}
	rep.Count("revert-quai:refund-exact")
	rep.Nontrivial("revert-quai/" + c.Value)
}

type anyCase struct {
	Kind string `json:"kind"`
}

func main() {
	f := hlib.ParseFlags()
	logger = hlib.QuietLogs()
	rng := hlib.NewRng(f.Seed)
	rep := hlib.NewReport("C20", "helper cases: one call each of the reward/unit-conversion helpers, ApplyCubicDiscount, FindMinDenominations on boundary+random arguments; "+
		"reprice cases: the verbatim conversion block of (*Slice).Append (re-sliced from core/slice.go on this run, lines "+os.Getenv("VERIF_C20_SLICE")+") on a generated inbound ETX set "+
		"(0-40 ETXs, both directions, slips none/min/max/garbage, amounts from the origin minimum to beyond 10x the flow amount, both sides of ConversionSlipChangeBlock, rising/falling/frozen new rate). "+
		"controller cases: one call each of misc.CalculateKQuai / core.CalculateBetaFromMiningChoiceAndConversions (every boundary of every fork regime, rising/falling/frozen windows). "+
		"Non-trivial = a reprice case with at least one positive conversion (distinct by outcome pattern and amounts), a cubic-branch discount, a multi-denomination split, a non-zero rate conversion, a controller step that moves the rate or is decided by the fork schedule")
	cw := hlib.NewCaseWriter(f.Out, "From Coq Require Import List ZArith NArith Bool.\nFrom GQ Require Import Model.C20.\nImport ListNotations.\nLocal Open Scope Z_scope.\n", "C20.case", 40)
	defer func() {
		cw.Close()
		rep.Write(f.Out)
	}()

	if f.Replay != "" {
		var k anyCase
		hlib.ReadReplayCase(f.Replay, &k)
		switch k.Kind {
		case "rate":
			var c RateJS
			hlib.ReadReplayCase(f.Replay, &c)
			runRate(c, cw, rep)
		case "disc":
			var c DiscJS
			hlib.ReadReplayCase(f.Replay, &c)
			runDisc(c, cw, rep)
		case "denoms":
			var c DenJS
			hlib.ReadReplayCase(f.Replay, &c)
			runDen(c, cw, rep)
		case "revert_qi", "revert_quai":
			var c RevertJS
			hlib.ReadReplayCase(f.Replay, &c)
			if c.Kind == "revert_qi" {
				runRevertQi(c, cw, rep)
			} else {
				runRevertQuai(c, cw, rep)
			}
		case "mint":
			var c MintJS
			hlib.ReadReplayCase(f.Replay, &c)
			runMint(c, cw, rep)
		case "origin":
			var c OriginJS
			hlib.ReadReplayCase(f.Replay, &c)
			runOrigin(c, cw, rep)
		case "redeem":
			var c RedeemJS
			hlib.ReadReplayCase(f.Replay, &c)
			runRedeemConv(c, f.Out, cw, rep)
		case "kquai":
			var c KQuaiJS
			hlib.ReadReplayCase(f.Replay, &c)
			runKQuai(c, cw, rep)
		case "beta":
			var c BetaJS
			hlib.ReadReplayCase(f.Replay, &c)
			runBeta(c, cw, rep)
		case "reprice":
			var c RepriceJS
			hlib.ReadReplayCase(f.Replay, &c)
			c.Observed, c.ObservedPanic = nil, ""
			runReprice(&c, cw, rep)
		default:
			fmt.Fprintln(os.Stderr, "replay: unknown case kind", k.Kind)
			os.Exit(2)
		}
		return
	}

	id := 0
	next := func() int { id++; return id }

	// ---- corpus: helpers ----
	baseH := HdrJS{Number: 300000, K: params.ExchangeRate.String(), MinerDiff: mul(e(12), 5).String(), PTN: 300000, ZoneNum: 2000000, KQD: "100",
		Flow: params.StartingConversionFlowAmount.String(), ShaCount: "0", ScryptCount: "0", ShaDiff: "0"}
	for _, x := range []string{"0", "1", "2", "999", "1000", params.MinQuaiConversionAmount.String(), e(18).String(), e(24).String(), e(30).String()} {
		runRate(RateJS{ID: next(), Kind: "rate", H: baseH, X: x}, cw, rep)
	}
	{ // rewards clamp to 1: tiny rate, tiny difficulty
		h := baseH
		h.K = "1"
		runRate(RateJS{ID: next(), Kind: "rate", H: h, X: "12345678901234567890"}, cw, rep)
		h = baseH
		h.MinerDiff = "1000"
		runRate(RateJS{ID: next(), Kind: "rate", H: h, X: "12345678901234567890"}, cw, rep)
		h = baseH
		h.PTN = params.KawPowForkBlock
		h.ShaCount, h.ScryptCount = "8589934592", "4294967296"
		runRate(RateJS{ID: next(), Kind: "rate", H: h, X: e(20).String()}, cw, rep)
		h.PTN = params.ShaEquivalentDifficultyForkBlock
		h.ShaDiff = e(15).String()
		runRate(RateJS{ID: next(), Kind: "rate", H: h, X: e(20).String()}, cw, rep)
	}
	flow := params.StartingConversionFlowAmount
	for _, p := range [][2]*big.Int{{big0, flow}, {big.NewInt(1), flow}, {flow, flow}, {new(big.Int).Add(flow, big.NewInt(1)), flow},
		{mul(flow, 10), flow}, {new(big.Int).Add(mul(flow, 10), big.NewInt(1)), flow}, {new(big.Int).Sub(mul(flow, 10), big.NewInt(1)), flow},
		{mul(flow, 5), flow}, {flow, big0}, {big0, big0}, {big.NewInt(7), big.NewInt(1)}, {big.NewInt(10), big.NewInt(1)}, {e(40), e(39)}} {
		runDisc(DiscJS{ID: next(), Kind: "disc", V: p[0].String(), M: p[1].String()}, cw, rep)
	}
	guard := denomGuard()
	denC := []*big.Int{big0, big.NewInt(1), big.NewInt(4), big.NewInt(9999), big.NewInt(123456789), e(18), new(big.Int).Sub(guard, big.NewInt(1)), guard,
		new(big.Int).Add(guard, big.NewInt(20001)), types.MaxQi}
	for i := 0; i <= types.MaxDenomination; i++ {
		d := types.Denominations[uint8(i)]
		denC = append(denC, d, new(big.Int).Sub(d, big.NewInt(1)), new(big.Int).Add(d, big.NewInt(1)))
	}
	for _, v := range denC {
		runDen(DenJS{ID: next(), Kind: "denoms", V: v.String()}, cw, rep)
	}
	// ---- corpus: conversion block ----
	for _, c := range corpusReprice() {
		c.ID = next()
		runReprice(c, cw, rep)
		if c.Label == "revert-behind-whale" {
			rep.Sample(c)
		}
	}

	// ---- corpus: origin side (real EVM, frames of every call kind) and redemption of converted Quai ----
	for i, c := range corpusOrigin() {
		c.ID = next()
		runOrigin(c, cw, rep)
		if i == 2 {
			rep.Sample(c)
		}
	}
	for _, c := range corpusRedeem() {
		c.ID, c.Kind = next(), "redeem"
		runRedeemConv(c, f.Out, cw, rep)
	}

	// ---- corpus: destination mint ----
	kick := params.ControllerKickInBlock
	for _, m := range []MintJS{
		{Value: "0", Gas: 100000}, {Value: "1", Gas: 21000}, {Value: "1", Gas: 20999}, {Value: "1", Gas: 29999}, {Value: "1", Gas: 30000},
		{Value: "123456789", Gas: 21000 + 26*9000}, {Value: "123456789", Gas: 21000 + 27*9000}, {Value: "123456789", Gas: 21000 + 27*9000 + 8999},
		{Value: "123456789", Gas: 21000 + 27*9000, PTN: kick - 1}, {Value: "999999999", Gas: 5000000, Index: true},
		{Value: "70000000000000", Gas: 21000 + 70000*9000, PoolGas: 2000000000}, // output index limit: 70000 pieces of the top denomination
		{Value: "5000000000", Gas: 1000000, PoolGas: 50000},                      // block gas pool runs out
	} {
		m.ID, m.Kind = next(), "mint"
		if m.PTN == 0 {
			m.PTN = kick + 1000
		}
		if m.PoolGas == 0 {
			m.PoolGas = 50000000
		}
		m.BlockNum = 3000000
		runMint(m, cw, rep)
	}

	// ---- corpus: reverts ----
	for _, m := range []RevertJS{
		{Kind: "revert_qi", Value: "5000000", Gas: 1000000}, // ample gas
		{Kind: "revert_qi", Value: "1234", Gas: 1000000},    // 234 qits of dust
		{Kind: "revert_qi", Value: "999", Gas: 1000000},     // all dust
		{Kind: "revert_qi", Value: "5000000", Gas: 0},       // conversion paid exactly the minimum fee: ETX gas 0
		{Kind: "revert_qi", Value: "123456789", Gas: 9000 * 3},
		{Kind: "revert_qi", Value: "123456789", Gas: 9000*17 - 1}, {Kind: "revert_qi", Value: "123456789", Gas: 9000 * 17},
		{Kind: "revert_quai", Value: params.MinQuaiConversionAmount.String(), Gas: 0},
		{Kind: "revert_quai", Value: "123456789012345678901234567890", Gas: 100000},
	} {
		m.ID = next()
		m.PoolGas, m.BlockNum = 50000000, 3000000
		if m.Kind == "revert_qi" {
			runRevertQi(m, cw, rep)
		} else {
			runRevertQuai(m, cw, rep)
		}
	}
	for i := 0; i < f.N/3+10; i++ {
		r := rng.Fork()
		m := RevertJS{ID: next(), Kind: "revert_qi", BlockNum: uint64(1 + r.Intn(40000000)), PoolGas: 50000000, Index: r.Bool()}
		var v *big.Int
		switch r.Pick(4, 3, 2) {
		case 0:
			v = new(big.Int).SetUint64(r.Next() % 10000000000)
		case 1:
			v = new(big.Int).SetUint64(r.Next() % 200000)
		default:
			v = mul(types.Denominations[uint8(r.Intn(types.MaxDenomination+1))], int64(1+r.Intn(30)))
		}
		m.Value = v.String()
		need := uint64(0)
		for d, cnt := range misc.FindMinDenominations(v) {
			if int(d) > types.MaxTrimDenomination {
				need += cnt
			}
		}
		// ETX gas of a Qi->Quai conversion is what the fee left after the required minimum: anything from 0 up
		switch r.Pick(5, 2, 2, 1) {
		case 0:
			m.Gas = need*params.CallValueTransferGas + uint64(r.Intn(100000))
		case 1:
			m.Gas = uint64(r.Intn(int(need*params.CallValueTransferGas + 1)))
		case 2:
			m.Gas = need*params.CallValueTransferGas - uint64(r.Intn(2))
			if need == 0 {
				m.Gas = 0
			}
		default:
			m.Gas = 0
		}
		runRevertQi(m, cw, rep)
		if i%3 == 0 {
			q := RevertJS{ID: next(), Kind: "revert_quai", Value: genQuaiAmount(r, params.StartingConversionFlowAmount).String(), Gas: uint64(r.Intn(200000)), PoolGas: 50000000}
			runRevertQuai(q, cw, rep)
		}
	}

	// ---- random ----
	for i := 0; i < f.N/2+20; i++ {
		r := rng.Fork()
		m := MintJS{ID: next(), Kind: "mint", PTN: params.ControllerKickInBlock + uint64(r.Intn(2000000)), BlockNum: uint64(1 + r.Intn(40000000)), PoolGas: 50000000, Index: r.Bool()}
		var v *big.Int
		switch r.Pick(4, 3, 2, 1) {
		case 0:
			v = new(big.Int).SetUint64(r.Next() % 10000000000)
		case 1:
			v = new(big.Int).SetUint64(r.Next() % 200000)
		case 2:
			v = mul(types.Denominations[uint8(r.Intn(types.MaxDenomination+1))], int64(1+r.Intn(30)))
		default:
			v = new(big.Int).SetUint64(r.Next() % 400000000000)
		}
		m.Value = v.String()
		need := uint64(0)
		for _, cnt := range misc.FindMinDenominations(v) {
			need += cnt
		}
		switch r.Pick(4, 3, 2, 1) {
		case 0:
			m.Gas = params.TxGas + need*params.CallValueTransferGas + uint64(r.Intn(20000))
		case 1: // too small to mint every denomination
			m.Gas = params.TxGas + uint64(r.Intn(int(need*params.CallValueTransferGas+1)))
		case 2:
			m.Gas = params.TxGas + need*params.CallValueTransferGas - uint64(r.Intn(2))
		default:
			m.Gas = uint64(r.Intn(30000))
		}
		if r.Chance(3) {
			m.PTN = uint64(r.Intn(int(params.ControllerKickInBlock)))
		}
		runMint(m, cw, rep)
	}
	nRep := f.N
	for i := 0; i < nRep; i++ {
		r := rng.Fork()
		c := genReprice(r, next())
		runReprice(c, cw, rep)
		if i == 0 {
			rep.Sample(c)
		}
	}
	for i := 0; i < f.N/2+20; i++ {
		r := rng.Fork()
		h := genHdr(r)
		var x *big.Int
		switch r.Pick(3, 3, 1, 1) {
		case 0:
			x = new(big.Int).SetUint64(r.Next() % 100000000)
		case 1:
			x = mul(e(15+r.Intn(12)), int64(1+r.Intn(9999)))
		case 2:
			x = new(big.Int).SetBytes(r.Bytes(1 + r.Intn(20)))
		default:
			x = big.NewInt(int64(r.Intn(3)))
		}
		runRate(RateJS{ID: next(), Kind: "rate", H: h, X: x.String()}, cw, rep)
	}
	for i := 0; i < f.N/2+20; i++ {
		r := rng.Fork()
		m := mul(e(r.Intn(26)), int64(1+r.Intn(9999)))
		var v *big.Int
		switch r.Pick(2, 5, 1, 1) {
		case 0:
			v = new(big.Int).Div(mul(m, int64(r.Intn(1001))), big.NewInt(1000))
		case 1:
			v = new(big.Int).Div(mul(m, int64(1000+r.Intn(9001))), big.NewInt(1000))
		case 2:
			v = new(big.Int).Div(mul(m, int64(10000+r.Intn(90000))), big.NewInt(1000))
		default:
			v = new(big.Int).SetBytes(r.Bytes(1 + r.Intn(12)))
		}
		runDisc(DiscJS{ID: next(), Kind: "disc", V: v.String(), M: m.String()}, cw, rep)
	}
	for i := 0; i < f.N/2+20; i++ {
		r := rng.Fork()
		var v *big.Int
		switch r.Pick(4, 3, 2, 1) {
		case 0:
			v = new(big.Int).SetUint64(r.Next() % 10000000000000)
		case 1:
			v = new(big.Int).SetBytes(r.Bytes(1 + r.Intn(11)))
		case 2:
			v = mul(types.Denominations[uint8(r.Intn(types.MaxDenomination+1))], int64(1+r.Intn(30)))
		default:
			v = new(big.Int).SetBytes(r.Bytes(12 + r.Intn(4))) // around and beyond the uint64 guard
		}
		runDen(DenJS{ID: next(), Kind: "denoms", V: v.String()}, cw, rep)
	}
	// ---- random: origin side and redemption (after everything else: the streams of the older kinds stay as they were) ----
	for i := 0; i < f.N+40; i++ {
		r := rng.Fork()
		runOrigin(genOrigin(r, next()), cw, rep)
	}
	for i := 0; i < f.N/4+8; i++ {
		r := rng.Fork()
		runRedeemConv(genRedeem(r, next()), f.Out, cw, rep)
	}
	// ---- exchange-rate controller (extension round): corpus, then random ----
	for _, c := range corpusKQuai() {
		c.ID = next()
		runKQuai(c, cw, rep)
	}
	for _, c := range corpusBeta() {
		c.ID = next()
		runBeta(c, cw, rep)
	}
	for i := 0; i < f.N/2+20; i++ {
		r := rng.Fork()
		runKQuai(genKQuai(r, next()), cw, rep)
	}
	for i := 0; i < f.N/2+20; i++ {
		r := rng.Fork()
		runBeta(genBeta(r, next()), cw, rep)
	}
}

//go:build verif && c20inner

// C20, origin side: "a conversion removes the converted amount from the origin ledger
// exactly once".  A Quai->Qi conversion leaves the EVM as an entry of evm.ETXCache
// (CONVERT, or a top level call to a Qi address of the own zone -> CreateETX); the
// Quai is taken from the sender with SubBalance at the same moment.  Both must share
// one fate when a frame fails: every call kind opens its frame with evm.snapshot()
// (account state revision + len(ETXCache)) and rolls BOTH back.
//
// The cases are trees of frames executed by the REAL interpreter: every frame is a
// contract (or the init code of a CREATE) assembled here from a list of operations
// (CONVERT, ETX, nested CALL / CALLCODE / DELEGATECALL / STATICCALL / CREATE with the
// result swallowed) and an ending (STOP, RETURN, REVERT, invalid opcode, out of gas).
//
// Monitors (no model involved):
//   origin:debit-differs-from-emitted-etxs   sum of all Quai balances before - after  ==  sum over the
//                                            ETXs left in evm.ETXCache of value + fee
//   origin:etx-survives-failed-frame:<kind>  no ETX of the cache was emitted inside a frame that ended
//                                            with REVERT / invalid / out of gas, or under a STATICCALL
//   origin:negative-balance                  no account ends below zero (an emission is refused when unaffordable)
//   origin:etx-fields                        each surviving ETX: known target, once, ETXIndex = position,
//                                            ConversionType iff the target is a Qi address of the zone,
//                                            sender = the executing context, value and gas as requested
//
// The same cases are compared inside Coq with the frame model (C20.orun).
package main

import (
	"fmt"
	"math/big"
	"strings"

	"github.com/dominant-strategies/go-quai/common"
	"github.com/dominant-strategies/go-quai/core"
	"github.com/dominant-strategies/go-quai/core/rawdb"
	"github.com/dominant-strategies/go-quai/core/state"
	"github.com/dominant-strategies/go-quai/core/types"
	"github.com/dominant-strategies/go-quai/core/vm"
	"github.com/dominant-strategies/go-quai/params"

	"verifharness/hlib"
)

type OOp struct {
	K     string  `json:"k"` // convert | etx | callqi | callext | sub
	ID    int     `json:"id"`
	Value string  `json:"value,omitempty"`
	Gas   uint64  `json:"gas,omitempty"` // convert/etx: ETX gas limit; callqi/callext/sub: gas operand of the call
	Tip   uint64  `json:"tip,omitempty"` // etx only
	Cap   uint64  `json:"cap,omitempty"` // etx only
	Kind  string  `json:"kind,omitempty"`
	Child *OFrame `json:"child,omitempty"`
}

type OFrame struct {
	ID  int    `json:"id"`
	Bal string `json:"bal,omitempty"` // initial balance of the frame's own account (ignored for CREATE children)
	Ops []OOp  `json:"ops"`
	End string `json:"end"` // stop | return | revert | invalid | oog
}

type OriginJS struct {
	ID        int     `json:"id"`
	Kind      string  `json:"kind"` // origin
	Label     string  `json:"label,omitempty"`
	Top       string  `json:"top"` // call | create | direct
	PTN       uint64  `json:"ptn"`
	GasPrice  uint64  `json:"gas_price"`
	OriginBal string  `json:"origin_bal"`
	TopValue  string  `json:"top_value"`
	TopGas    uint64  `json:"top_gas"`
	DirectQi  bool    `json:"direct_qi,omitempty"` // direct: target is a Qi address of the zone (conversion), else a Quai address of another zone
	Untied    bool    `json:"untied,omitempty"`    // monitors only: the gas left to the callers is not what the frame model assumes (ample)
	Root      *OFrame `json:"root,omitempty"`
}

var oLoc = common.Location{0, 0}

func oFrameAddr(id int) common.Address {
	b := make([]byte, 20)
	b[0], b[1], b[18], b[19] = 0x00, 0x10, byte(id>>8), byte(id)
	return common.BytesToAddress(b, oLoc)
}
func oOriginAddr() common.Address {
	b := make([]byte, 20)
	b[0], b[1], b[19] = 0x00, 0x09, 0x09
	return common.BytesToAddress(b, oLoc)
}

// target of an emission: a Qi address of the own zone (conversion) or a Quai address of zone {0,1}
func oTarget(qi bool, id int) common.Address {
	b := make([]byte, 20)
	if qi {
		b[0], b[1] = 0x00, 0x90
	} else {
		b[0], b[1] = 0x01, 0x10
	}
	b[18], b[19] = byte(id>>8), byte(id)
	return common.BytesToAddress(b, oLoc)
}
func oTargetID(a common.Address) (id int, qi bool, ok bool) {
	b := a.Bytes()
	for _, x := range b[2:18] {
		if x != 0 {
			return 0, false, false
		}
	}
	id = int(b[18])<<8 | int(b[19])
	switch {
	case b[0] == 0x00 && b[1] == 0x90:
		return id, true, true
	case b[0] == 0x01 && b[1] == 0x10:
		return id, false, true
	case b[0] == 0x00 && b[1] == 0x11: // Quai address of the OWN zone (target of an "etxhome" operation)
		return id, false, true
	}
	return 0, false, false
}

// target of an ETX opcode that stays inside the emitting zone (must be refused): the Qi address
// a conversion would use, or a Quai address of the zone
func oHomeTarget(qi bool, id int) common.Address {
	if qi {
		return oTarget(true, id)
	}
	b := make([]byte, 20)
	b[0], b[1], b[18], b[19] = 0x00, 0x11, byte(id>>8), byte(id)
	return common.BytesToAddress(b, oLoc)
}

// ---------- assembler ----------

type asm struct{ b []byte }

func (a *asm) op(o vm.OpCode) { a.b = append(a.b, byte(o)) }
func (a *asm) push(x []byte) {
	for len(x) > 1 && x[0] == 0 {
		x = x[1:]
	}
	if len(x) == 0 {
		x = []byte{0}
	}
	if len(x) > 32 {
		panic("push too long")
	}
	a.b = append(a.b, byte(vm.PUSH1)+byte(len(x)-1))
	a.b = append(a.b, x...)
}
func (a *asm) pushU(x uint64) { a.push(new(big.Int).SetUint64(x).Bytes()) }
func (a *asm) pushBig(s string) {
	if s == "" {
		s = "0"
	}
	a.push(bi(s).Bytes())
}
func (a *asm) push2(x int) { a.b = append(a.b, byte(vm.PUSH2), byte(x>>8), byte(x)) }
func (a *asm) push20(ad common.Address) {
	a.b = append(a.b, byte(vm.PUSH20))
	a.b = append(a.b, ad.Bytes()...)
}

// code of a frame; the init code of CREATE children is appended behind the main code and copied
// into memory with CODECOPY (the offsets are PUSH2, so the layout is known after a dry pass)
func assemble(f *OFrame) []byte {
	var blobs [][]byte
	for i := range f.Ops {
		if f.Ops[i].K == "sub" && f.Ops[i].Kind == "create" {
			blobs = append(blobs, assemble(f.Ops[i].Child))
		}
	}
	main := assembleMain(f, blobs, 0)
	main = assembleMain(f, blobs, len(main))
	for _, b := range blobs {
		main = append(main, b...)
	}
	return main
}

func assembleMain(f *OFrame, blobs [][]byte, base int) []byte {
	a := &asm{}
	bi := 0
	off := base
	for _, o := range f.Ops {
		switch o.K {
		case "convert": // CONVERT pops: gas(temp), addr, value, etxGasLimit
			a.pushU(o.Gas)
			a.pushBig(o.Value)
			a.push20(oTarget(true, o.ID))
			a.pushU(0)
			a.op(vm.CONVERT)
			a.op(vm.POP)
		case "etx", "etxhome": // ETX pops: temp, addr, value, etxGasLimit, gasTipCap, gasFeeCap, inOffset, inSize, accessListOffset, accessListSize
			a.pushU(0)
			a.pushU(0)
			a.pushU(0)
			a.pushU(0)
			a.pushU(o.Cap)
			a.pushU(o.Tip)
			a.pushU(o.Gas)
			a.pushBig(o.Value)
			if o.K == "etxhome" {
				a.push20(oHomeTarget(o.Kind == "qi", o.ID))
			} else {
				a.push20(oTarget(false, o.ID))
			}
			a.pushU(0)
			a.op(vm.ETX)
			a.op(vm.POP)
		case "callqi", "callext": // CALL pops: gas, addr, value, inOffset, inSize, retOffset, retSize
			a.pushU(0)
			a.pushU(0)
			a.pushU(0)
			a.pushU(0)
			a.pushBig(o.Value)
			a.push20(oTarget(o.K == "callqi", o.ID))
			a.pushU(o.Gas)
			a.op(vm.CALL)
			a.op(vm.POP)
		case "sub":
			switch o.Kind {
			case "call", "callcode":
				a.pushU(0)
				a.pushU(0)
				a.pushU(0)
				a.pushU(0)
				a.pushBig(o.Value)
				a.push20(oFrameAddr(o.Child.ID))
				a.pushU(o.Gas)
				if o.Kind == "call" {
					a.op(vm.CALL)
				} else {
					a.op(vm.CALLCODE)
				}
				a.op(vm.POP)
			case "delegatecall", "staticcall": // pops: gas, addr, inOffset, inSize, retOffset, retSize
				a.pushU(0)
				a.pushU(0)
				a.pushU(0)
				a.pushU(0)
				a.push20(oFrameAddr(o.Child.ID))
				a.pushU(o.Gas)
				if o.Kind == "delegatecall" {
					a.op(vm.DELEGATECALL)
				} else {
					a.op(vm.STATICCALL)
				}
				a.op(vm.POP)
			case "create":
				blob := blobs[bi]
				bi++
				// CODECOPY pops: memOffset, codeOffset, length
				a.push2(len(blob))
				a.push2(off)
				a.pushU(0)
				a.op(vm.CODECOPY)
				off += len(blob)
				// CREATE pops: value, offset, size ; pushes the address (0 on failure)
				a.push2(len(blob))
				a.pushU(0)
				a.pushBig(o.Value)
				a.op(vm.CREATE)
				// remember the created address in the storage of the executing context: slot = child id
				a.pushU(uint64(o.Child.ID))
				a.op(vm.SSTORE)
			default:
				panic("sub kind " + o.Kind)
			}
		default:
			panic("op " + o.K)
		}
	}
	switch f.End {
	case "stop":
		a.op(vm.STOP)
	case "return":
		a.pushU(0)
		a.pushU(0)
		a.op(vm.RETURN)
	case "revert":
		a.pushU(0)
		a.pushU(0)
		a.op(vm.REVERT)
	case "invalid":
		a.b = append(a.b, 0xfe) // the designated invalid opcode
	case "oog":
		pc := len(a.b)
		a.op(vm.JUMPDEST)
		a.push2(pc)
		a.op(vm.JUMP)
	default:
		panic("end " + f.End)
	}
	return a.b
}

// ---------- static facts of a case ----------

type oInfo struct {
	op      *OOp
	ctx     int    // account id of the executing context (frame id; created accounts = id of the create child)
	doomed  string // "" or the call kind / ending that must wipe the emission
	inFrame bool
}

func endOK(e string) bool { return e == "stop" || e == "return" }

type oWalk struct {
	ops     map[int]*oInfo
	frames  []*OFrame
	created map[int][2]int // create child id -> (ctx id of the creator, _)
	events  []string
	tied    bool
	subs    map[string]int
	fee     func(o *OOp) *big.Int
}

func (w *oWalk) walk(f *OFrame, ctx int, doomed string) {
	w.frames = append(w.frames, f)
	for i := range f.Ops {
		o := &f.Ops[i]
		switch o.K {
		case "convert", "etx":
			w.ops[o.ID] = &oInfo{op: o, ctx: ctx, doomed: doomed, inFrame: true}
			w.events = append(w.events, fmt.Sprintf("EEmit %d %d %s false %s %s %d", o.ID, ctx, hlib.CoqBool(o.K == "convert"), z(bi(o.Value)), z(w.fee(o)), o.Gas))
		case "etxhome": // ETX opcode with a destination inside the emitting zone: refused, nothing happens
			w.ops[o.ID] = &oInfo{op: o, ctx: ctx, doomed: doomed, inFrame: true}
			// the Coq model has no in-zone guard: the event carries ETX gas 0, which the model refuses at its TxGas
			// guard (and which still fails the frame under STATICCALL, as the real write protection does)
			w.events = append(w.events, fmt.Sprintf("EEmit %d %d false false %s %s 0", o.ID, ctx, z(bi(o.Value)), z(w.fee(o))))
		case "callqi", "callext":
			w.ops[o.ID] = &oInfo{op: o, ctx: ctx, doomed: doomed, inFrame: true}
			w.tied = false // the behaviour of CALL on a non-internal target inside a frame is not part of the model
		case "sub":
			cctx, k, d := o.Child.ID, "", doomed
			switch o.Kind {
			case "call":
				k = "KCall"
			case "callcode":
				cctx, k = ctx, "KCallCode"
			case "delegatecall":
				cctx, k = ctx, "KDelegate"
			case "staticcall":
				k = "KStatic"
				if d == "" {
					d = "static"
				}
			case "create":
				k = "KCreate"
				w.created[o.Child.ID] = [2]int{ctx, 0}
			}
			if d == "" && !endOK(o.Child.End) { // an outer reason, if any, is kept
				d = o.Kind + ":" + o.Child.End
			}
			w.subs[o.Kind+"/"+o.Child.End]++
			v := o.Value
			if v == "" || o.Kind == "delegatecall" || o.Kind == "staticcall" {
				v = "0"
			}
			w.events = append(w.events, fmt.Sprintf("EEnter %s %d %d %s", k, ctx, cctx, z(bi(v))))
			w.walk(o.Child, cctx, d)
			w.events = append(w.events, "ELeave "+hlib.CoqBool(endOK(o.Child.End)))
		}
	}
}

func topDoom(f *OFrame) string {
	if endOK(f.End) {
		return ""
	}
	return "top:" + f.End
}

// ---------- run ----------

func runOrigin(c OriginJS, cw *hlib.CaseWriter, rep *hlib.Report) {
	vm.InitializePrecompiles(oLoc)
	db := rawdb.NewMemoryDatabase(logger)
	sdb, err := state.New(types.EmptyRootHash, types.EmptyRootHash, big.NewInt(0), state.NewDatabase(db), state.NewDatabase(db), nil, oLoc, logger)
	if err != nil {
		panic(err)
	}
	sdb.ConfigureAccessListChecks(false)
	gasPrice := new(big.Int).SetUint64(c.GasPrice)
	w := &oWalk{ops: map[int]*oInfo{}, created: map[int][2]int{}, tied: !c.Untied, subs: map[string]int{}}
	w.fee = func(o *OOp) *big.Int {
		switch o.K {
		case "convert":
			return new(big.Int).Mul(gasPrice, new(big.Int).SetUint64(o.Gas))
		case "etx", "etxhome":
			return new(big.Int).Mul(new(big.Int).SetUint64(o.Tip+o.Cap), new(big.Int).SetUint64(o.Gas))
		}
		return big.NewInt(0)
	}
	origin := oOriginAddr()
	originI, err := origin.InternalAndQuaiAddress()
	if err != nil {
		panic(err)
	}
	sdb.AddBalance(originI, bi(c.OriginBal))
	topValue := bi(c.TopValue)
	const directID = 1
	switch c.Top {
	case "call":
		w.events = append(w.events, fmt.Sprintf("EEnter KCall 0 %d %s", c.Root.ID, z(topValue)))
		w.walk(c.Root, c.Root.ID, topDoom(c.Root))
		w.events = append(w.events, "ELeave "+hlib.CoqBool(endOK(c.Root.End)))
	case "create":
		w.created[c.Root.ID] = [2]int{0, 0}
		w.events = append(w.events, fmt.Sprintf("EEnter KCreate 0 %d %s", c.Root.ID, z(topValue)))
		w.walk(c.Root, c.Root.ID, topDoom(c.Root))
		w.events = append(w.events, "ELeave "+hlib.CoqBool(endOK(c.Root.End)))
	case "direct":
		o := &OOp{K: "direct", ID: directID, Value: c.TopValue, Gas: c.TopGas}
		w.ops[directID] = &oInfo{op: o, ctx: 0}
		w.events = append(w.events, fmt.Sprintf("EEmit %d 0 %s true %s 0 %d", directID, hlib.CoqBool(c.DirectQi), z(topValue), c.TopGas))
	default:
		panic("top " + c.Top)
	}
	// accounts: frame contracts (not the CREATE children: their account is made by the run)
	acct := map[int]common.Address{0: origin}
	var initial []string
	initial = append(initial, fmt.Sprintf("(0%%N, %s)", z(bi(c.OriginBal))))
	for _, f := range w.frames {
		if _, isCreated := w.created[f.ID]; isCreated {
			continue
		}
		a := oFrameAddr(f.ID)
		ia, err := a.InternalAndQuaiAddress()
		if err != nil {
			panic(err)
		}
		sdb.CreateAccount(ia)
		sdb.SetCode(ia, assemble(f))
		b := big.NewInt(0)
		if f.Bal != "" {
			b = bi(f.Bal)
		}
		sdb.AddBalance(ia, b)
		acct[f.ID] = a
		initial = append(initial, fmt.Sprintf("(%d%%N, %s)", f.ID, z(b)))
	}
	total := func() *big.Int {
		t := big.NewInt(0)
		for _, a := range acct {
			ia, err := a.InternalAndQuaiAddress()
			if err != nil {
				panic(err)
			}
			t.Add(t, sdb.GetBalance(ia))
		}
		return t
	}
	before := total()

	bc := vm.BlockContext{CanTransfer: core.CanTransfer, Transfer: core.Transfer,
		CheckIfEtxEligible: func(common.Hash, common.Location) bool { return true },
		BlockNumber:        big.NewInt(4000000), GasLimit: 100000000, Time: big.NewInt(1), Difficulty: big.NewInt(1), BaseFee: big.NewInt(1),
		QuaiStateSize: big.NewInt(0), PrimeTerminusNumber: c.PTN, GetHash: func(uint64) common.Hash { return common.Hash{} }}
	var th common.Hash
	th[0], th[30], th[31] = 0xc2, byte(c.ID>>8), byte(c.ID)
	evm := vm.NewEVM(bc, vm.TxContext{Origin: origin, GasPrice: gasPrice, Hash: th}, sdb, &params.ChainConfig{ChainID: big.NewInt(1), Location: oLoc}, vm.Config{}, nil)

	var topErr error
	panicked := ""
	func() {
		defer func() {
			if r := recover(); r != nil {
				panicked = fmt.Sprint(r)
			}
		}()
		switch c.Top {
		case "call":
			_, _, _, topErr = evm.Call(vm.AccountRef(origin), oFrameAddr(c.Root.ID), nil, c.TopGas, topValue)
		case "create":
			var ca common.Address
			_, ca, _, _, topErr = evm.Create(vm.AccountRef(origin), assemble(c.Root), c.TopGas, topValue)
			if topErr == nil {
				if _, err := ca.InternalAndQuaiAddress(); err == nil {
					acct[c.Root.ID] = ca
				}
			}
		case "direct":
			_, _, _, topErr = evm.Call(vm.AccountRef(origin), oTarget(c.DirectQi, directID), nil, c.TopGas, topValue)
		}
	}()
	rep.Evaluations++
	if panicked != "" {
		rep.Fail("origin:panic", "the EVM panics on a generated contract: "+panicked, c)
		return
	}
	rep.TracesValidated++
	if topErr != nil {
		rep.Count("origin:top-level-error")
	} else {
		rep.Count("origin:top-level-ok")
	}
	// created accounts, found through the storage slots written after CREATE (slot = child id), parents first
	for _, f := range w.frames {
		cr, ok := w.created[f.ID]
		if !ok || f == c.Root {
			continue
		}
		pa, ok := acct[cr[0]]
		if !ok {
			continue
		}
		pi, err := pa.InternalAndQuaiAddress()
		if err != nil {
			continue
		}
		h := sdb.GetState(pi, common.BigToHash(big.NewInt(int64(f.ID))))
		if h == (common.Hash{}) {
			continue
		}
		ca := common.BytesToAddress(h[12:], oLoc)
		if _, err := ca.InternalAndQuaiAddress(); err == nil {
			acct[f.ID] = ca
		}
	}
	after := total()
	debit := new(big.Int).Sub(before, after)
	for id, a := range acct {
		ia, _ := a.InternalAndQuaiAddress()
		if sdb.GetBalance(ia).Sign() < 0 {
			rep.Fail("origin:negative-balance", fmt.Sprintf("account %d ends with balance %s: an emission took more than the account held", id, sdb.GetBalance(ia)), c)
		}
	}

	// ---- what is left in the cache ----
	byAddr := map[string]int{}
	for id, a := range acct {
		byAddr[string(a.Bytes())] = id
	}
	cache := append([]*types.Transaction{}, evm.ETXCache...)
	emitted := big.NewInt(0)
	seen := map[int]bool{}
	var obsCache []string
	survivors, conversions := 0, 0
	for i, etx := range cache {
		id, qi, ok := oTargetID(*etx.To())
		info := w.ops[id]
		if !ok || info == nil {
			rep.Fail("origin:etx-fields", fmt.Sprintf("ETX %d of the cache goes to %x, which no operation of the case addresses", i, etx.To().Bytes()), c)
			emitted.Add(emitted, etx.Value())
			obsCache = append(obsCache, fmt.Sprintf("(65535%%N, 65535%%N, %s)", z(etx.Value())))
			continue
		}
		emitted.Add(emitted, etx.Value())
		emitted.Add(emitted, w.fee(info.op))
		sid, known := byAddr[string(etx.ETXSender().Bytes())]
		if !known {
			sid = 65535
		}
		obsCache = append(obsCache, fmt.Sprintf("(%d%%N, %d%%N, %s)", id, sid, z(etx.Value())))
		survivors++
		if types.IsConversionTx(etx) {
			conversions++
		}
		wantGas := info.op.Gas
		switch info.op.K {
		case "direct": // CreateETX: everything the call carried after ETXGas goes to the ETX
			wantGas = c.TopGas - params.ETXGas
		case "callqi", "callext":
			wantGas = etx.Gas()
		}
		if info.op.K == "etxhome" {
			// only a conversion (CONVERT / CreateETX: repriced by Prime) may address the emitting zone; the ETX
			// opcode must refuse every destination inside it, whatever the ledger
			rep.Fail("origin:etx-opcode-emits-inside-own-zone:"+info.op.Kind, fmt.Sprintf("operation %d (ETX opcode, value %s) targets %x inside the emitting zone and its ETX (type %d) is in evm.ETXCache: it would be credited in the zone without being repriced by Prime",
				id, info.op.Value, etx.To().Bytes(), etx.EtxType()), c)
		}
		switch {
		case seen[id]:
			rep.Fail("origin:etx-fields", fmt.Sprintf("the emission of operation %d is %d times in the cache", id, 2), c)
		case int(etx.ETXIndex()) != i:
			rep.Fail("origin:etx-fields", fmt.Sprintf("cache position %d carries ETXIndex %d", i, etx.ETXIndex()), c)
		case (etx.EtxType() == types.ConversionType) != qi:
			rep.Fail("origin:etx-fields", fmt.Sprintf("ETX to %x has type %d", etx.To().Bytes(), etx.EtxType()), c)
		case etx.Value().Cmp(bi(info.op.Value)) != 0:
			rep.Fail("origin:etx-fields", fmt.Sprintf("operation %d asked for %s, the ETX carries %s", id, info.op.Value, etx.Value()), c)
		case etx.Gas() != wantGas:
			rep.Fail("origin:etx-fields", fmt.Sprintf("operation %d: ETX gas %d, want %d", id, etx.Gas(), wantGas), c)
		case known && sid != info.ctx:
			rep.Fail("origin:etx-fields", fmt.Sprintf("operation %d runs in the context of account %d, the ETX names account %d as sender", id, info.ctx, sid), c)
		case !known:
			rep.Fail("origin:etx-fields", fmt.Sprintf("operation %d: sender %x is no account of the case", id, etx.ETXSender().Bytes()), c)
		case etx.OriginatingTxHash() != th:
			rep.Fail("origin:etx-fields", "originating tx hash differs from the transaction context", c)
		}
		seen[id] = true
		if info.doomed != "" {
			rep.Fail("origin:etx-survives-failed-frame:"+info.doomed, fmt.Sprintf("operation %d (%s of %s to %x) was executed inside a frame that cannot succeed (%s), its ETX is still in evm.ETXCache after the transaction (%d ETXs, top-level error: %v)",
				id, info.op.K, info.op.Value, etx.To().Bytes(), info.doomed, len(cache), topErr), c)
		}
	}
	if debit.Cmp(emitted) != 0 {
		cls := "more-emitted-than-debited"
		if debit.Cmp(emitted) > 0 {
			cls = "more-debited-than-emitted"
		}
		rep.Fail("origin:debit-differs-from-emitted-etxs:"+cls, fmt.Sprintf("the accounts of the case lost %s in total, the %d ETXs left in evm.ETXCache carry value+fee %s (conversions: %d)", debit, len(cache), emitted, conversions), c)
	}
	// ---- Coq case ----
	if w.tied {
		var obsBal []string
		ids := make([]int, 0, len(w.frames)+1)
		ids = append(ids, 0)
		for _, f := range w.frames {
			ids = append(ids, f.ID)
		}
		for _, id := range ids {
			b := big.NewInt(0)
			if a, ok := acct[id]; ok {
				ia, _ := a.InternalAndQuaiAddress()
				b = sdb.GetBalance(ia)
			}
			obsBal = append(obsBal, fmt.Sprintf("(%d%%N, %s)", id, z(b)))
		}
		cw.Add(fmt.Sprintf("(%d%%N, COrigin %d %s %s %s %s)", c.ID, c.PTN, hlib.CoqList(initial), hlib.CoqList(w.events), hlib.CoqList(obsCache), hlib.CoqList(obsBal)), c)
	}
	// ---- distribution ----
	nDoomed := 0
	for _, i := range w.ops {
		if i.doomed != "" {
			nDoomed++
		}
	}
	for k, n := range w.subs {
		rep.CountN("origin:frame/"+k, n)
	}
	rep.Count(fmt.Sprintf("origin:top/%s", c.Top))
	if survivors > 0 && nDoomed > 0 {
		rep.Count("origin:survivors-and-wiped-emissions")
	}
	if survivors > 0 {
		rep.Nontrivial(fmt.Sprintf("origin/%s/%d/%d/%s", c.Top, survivors, nDoomed, debit))
	}
}

// ---------- corpus and generator ----------

var oMin = params.MinQuaiConversionAmount

func oq(n int64) string { return new(big.Int).Mul(oMin, big.NewInt(n)).String() } // n times the minimum conversion

const oPTN = 2100000 // past every conversion related fork and hold interval

type oIDs struct{ n int }

func (i *oIDs) next() int { i.n++; return i.n }

// a frame that converts and ends as told
func oLeaf(ids *oIDs, end string, n int64) *OFrame {
	return &OFrame{ID: ids.next(), Bal: oq(1000), End: end, Ops: []OOp{{K: "convert", ID: ids.next(), Value: oq(n), Gas: 21000 + uint64(n)}}}
}

func corpusOrigin() []OriginJS {
	var out []OriginJS
	add := func(label, top string, root *OFrame) {
		out = append(out, OriginJS{Kind: "origin", Label: label, Top: top, PTN: oPTN, GasPrice: 3, OriginBal: oq(100000), TopValue: "0", TopGas: 60000000, Root: root})
	}
	kinds := []string{"call", "callcode", "delegatecall", "staticcall", "create"}
	ends := []string{"stop", "return", "revert", "invalid", "oog"}
	// every call kind x every ending: the inner frame converts (and sends an ETX), the caller converts before and
	// after and swallows the result
	for _, k := range kinds {
		for _, e := range ends {
			ids := &oIDs{n: 1}
			child := oLeaf(ids, e, 5)
			child.Ops = append(child.Ops, OOp{K: "etx", ID: ids.next(), Value: "12345", Gas: 21000, Tip: 1, Cap: 2})
			root := &OFrame{ID: ids.next(), Bal: oq(1000), End: "stop"}
			root.Ops = []OOp{{K: "convert", ID: ids.next(), Value: oq(2), Gas: 21000},
				{K: "sub", ID: ids.next(), Kind: k, Gas: 400000, Child: child},
				{K: "convert", ID: ids.next(), Value: oq(3), Gas: 30000}}
			if k == "create" {
				root.Ops[1].Value = oq(50) // the created account needs Quai to convert
			}
			add("kind-"+k+"-"+e, "call", root)
		}
	}
	// under STATICCALL every single emitting instruction must fail the frame by itself (writes: true)
	for _, e := range ends {
		for _, what := range []string{"convert", "etx"} {
			ids := &oIDs{n: 1}
			child := &OFrame{ID: ids.next(), Bal: oq(1000), End: e}
			if what == "convert" {
				child.Ops = []OOp{{K: "convert", ID: ids.next(), Value: oq(5), Gas: 21000}}
			} else {
				child.Ops = []OOp{{K: "etx", ID: ids.next(), Value: "12345", Gas: 21000, Tip: 1, Cap: 2}}
			}
			// one level deeper the read-only flag is inherited by a plain CALL
			inner := &OFrame{ID: ids.next(), Bal: oq(1000), End: "stop", Ops: []OOp{{K: what, ID: ids.next(), Value: oq(6), Gas: 21000, Tip: 1}}}
			child.Ops = append([]OOp{{K: "sub", ID: ids.next(), Kind: "call", Gas: 200000, Child: inner}}, child.Ops...)
			root := &OFrame{ID: ids.next(), Bal: oq(1000), End: "stop", Ops: []OOp{{K: "sub", ID: ids.next(), Kind: "staticcall", Gas: 1000000, Child: child},
				{K: "convert", ID: ids.next(), Value: oq(3), Gas: 30000}}}
			add("static-"+what+"-only-"+e, "call", root)
		}
	}
	// two levels: the failing frame is the outer one, the converting frame below it succeeds
	for _, k := range kinds {
		for _, k2 := range []string{"call", "delegatecall", "create"} {
			ids := &oIDs{n: 1}
			leaf := oLeaf(ids, "stop", 7)
			mid := &OFrame{ID: ids.next(), Bal: oq(1000), End: "revert", Ops: []OOp{{K: "sub", ID: ids.next(), Kind: k2, Gas: 300000, Child: leaf}, {K: "convert", ID: ids.next(), Value: oq(1), Gas: 21000}}}
			if k2 == "create" {
				mid.Ops[0].Value = oq(20)
			}
			root := &OFrame{ID: ids.next(), Bal: oq(1000), End: "stop", Ops: []OOp{{K: "sub", ID: ids.next(), Kind: k, Gas: 2000000, Child: mid}, {K: "convert", ID: ids.next(), Value: oq(4), Gas: 21000}}}
			if k == "create" {
				root.Ops[0].Value = oq(100)
			}
			add("outer-"+k+"-reverts-inner-"+k2+"-ok", "call", root)
		}
	}
	// the whole transaction fails / is a contract creation
	for _, e := range ends {
		ids := &oIDs{n: 1}
		add("top-call-"+e, "call", oLeaf(ids, e, 9))
		ids = &oIDs{n: 1}
		c := OriginJS{Kind: "origin", Label: "top-create-" + e, Top: "create", PTN: oPTN, GasPrice: 1, OriginBal: oq(100000), TopValue: oq(500), TopGas: 60000000, Root: oLeaf(ids, e, 9)}
		out = append(out, c)
	}
	// guards of the emission itself: below the minimum, more than the balance, gas limit below TxGas, zero value+fee
	{
		ids := &oIDs{n: 1}
		root := &OFrame{ID: ids.next(), Bal: oq(10), End: "stop", Ops: []OOp{
			{K: "convert", ID: ids.next(), Value: new(big.Int).Sub(oMin, big.NewInt(1)).String(), Gas: 21000},
			{K: "convert", ID: ids.next(), Value: oMin.String(), Gas: 21000},
			{K: "convert", ID: ids.next(), Value: oq(10), Gas: 21000}, // balance no longer suffices (value + fee)
			{K: "convert", ID: ids.next(), Value: oq(2), Gas: 20999},
			{K: "etx", ID: ids.next(), Value: "0", Gas: 21000},
			{K: "etx", ID: ids.next(), Value: "1", Gas: 21000},
			{K: "convert", ID: ids.next(), Value: oq(2), Gas: 21000}}}
		add("emission-guards", "call", root)
	}
	// nested value transfers that are rolled back together with the conversion paid out of them
	{
		ids := &oIDs{n: 1}
		poor := &OFrame{ID: ids.next(), Bal: "0", End: "revert", Ops: []OOp{{K: "convert", ID: ids.next(), Value: oq(30), Gas: 21000}}}
		poor2 := &OFrame{ID: ids.next(), Bal: "0", End: "stop", Ops: []OOp{{K: "convert", ID: ids.next(), Value: oq(30), Gas: 21000}}}
		root := &OFrame{ID: ids.next(), Bal: oq(100), End: "stop", Ops: []OOp{
			{K: "sub", ID: ids.next(), Kind: "call", Gas: 300000, Value: oq(40), Child: poor},
			{K: "sub", ID: ids.next(), Kind: "call", Gas: 300000, Value: oq(40), Child: poor2},
			{K: "sub", ID: ids.next(), Kind: "call", Gas: 300000, Value: oq(400), Child: oLeaf(ids, "stop", 1)}, // cannot be afforded: never entered
			{K: "convert", ID: ids.next(), Value: oq(50), Gas: 21000}}}
		add("value-into-frame", "call", root)
	}
	// conversion windows of the prime terminus
	for _, ptn := range []uint64{params.ControllerKickInBlock - 1, params.ControllerKickInBlock, params.KawPowForkBlock - 1, params.KawPowForkBlock,
		params.KawPowForkBlock + params.KQuaiChangeHoldInterval - 1, params.KawPowForkBlock + params.KQuaiChangeHoldInterval,
		params.ShaEquivalentDifficultyForkBlock - 1, params.ShaEquivalentDifficultyForkBlock, params.ShaEquivalentDifficultyForkBlock + params.KQuaiChangeHoldInterval - 1,
		params.ShaEquivalentDifficultyForkBlock + params.KQuaiChangeHoldInterval, params.SelfDestructRefundForkBlock - 1, params.SelfDestructRefundForkBlock} {
		ids := &oIDs{n: 1}
		child := oLeaf(ids, "revert", 5)
		root := &OFrame{ID: ids.next(), Bal: oq(1000), End: "stop", Ops: []OOp{{K: "sub", ID: ids.next(), Kind: "delegatecall", Gas: 300000, Child: child},
			{K: "convert", ID: ids.next(), Value: oq(2), Gas: 21000}, {K: "etx", ID: ids.next(), Value: "77", Gas: 21000, Tip: 1}}}
		out = append(out, OriginJS{Kind: "origin", Label: fmt.Sprintf("ptn-%d", ptn), Top: "call", PTN: ptn, GasPrice: 2, OriginBal: oq(1000), TopValue: "0", TopGas: 30000000, Root: root})
		out = append(out, OriginJS{Kind: "origin", Label: fmt.Sprintf("direct-ptn-%d", ptn), Top: "direct", DirectQi: true, PTN: ptn, GasPrice: 2, OriginBal: oq(1000), TopValue: oq(3), TopGas: 100000})
	}
	// top level conversion through CreateETX: value and gas boundaries, and the plain cross-zone transfer
	for _, d := range []struct {
		qi    bool
		value string
		gas   uint64
		bal   string
	}{{true, oq(1), 42000, oq(10)}, {true, oq(1), 41999, oq(10)}, {true, oq(1), 20999, oq(10)}, {true, new(big.Int).Sub(oMin, big.NewInt(1)).String(), 100000, oq(10)},
		{true, oq(10), 100000, oq(10)}, {true, new(big.Int).Add(bi(oq(10)), big.NewInt(1)).String(), 100000, oq(10)}, {true, "0", 100000, oq(10)},
		{false, "0", 100000, oq(10)}, {false, "1", 42000, oq(10)}, {false, oq(10), 100000, oq(10)}, {false, oq(11), 100000, oq(10)}, {false, "5", 41999, oq(10)}} {
		out = append(out, OriginJS{Kind: "origin", Label: "direct", Top: "direct", DirectQi: d.qi, PTN: oPTN, GasPrice: 1, OriginBal: d.bal, TopValue: d.value, TopGas: d.gas})
	}
	// CALL on a Qi / foreign address from inside a frame (monitors only)
	for _, e := range []string{"stop", "revert"} {
		ids := &oIDs{n: 1}
		child := &OFrame{ID: ids.next(), Bal: oq(100), End: e, Ops: []OOp{{K: "callqi", ID: ids.next(), Value: oq(2), Gas: 100000}, {K: "convert", ID: ids.next(), Value: oq(2), Gas: 21000}}}
		child2 := &OFrame{ID: ids.next(), Bal: oq(100), End: e, Ops: []OOp{{K: "convert", ID: ids.next(), Value: oq(2), Gas: 21000}, {K: "callext", ID: ids.next(), Value: "9", Gas: 100000}}}
		root := &OFrame{ID: ids.next(), Bal: oq(100), End: "stop", Ops: []OOp{{K: "sub", ID: ids.next(), Kind: "call", Gas: 500000, Child: child}, {K: "sub", ID: ids.next(), Kind: "delegatecall", Gas: 500000, Child: child2},
			{K: "convert", ID: ids.next(), Value: oq(1), Gas: 21000}}}
		add("call-to-qi-inside-frame-"+e, "call", root)
	}
	// the ETX opcode aimed at the emitting zone itself (Qi address a conversion would use / Quai address of the
	// zone): must be a no-op, alone, next to a real conversion, and inside every call kind (class of seeded/C20_5)
	for _, led := range []string{"qi", "quai"} {
		ids := &oIDs{n: 1}
		add("etx-opcode-own-zone-"+led, "call", &OFrame{ID: ids.next(), Bal: oq(1000), End: "stop", Ops: []OOp{
			{K: "etxhome", Kind: led, ID: ids.next(), Value: oq(3), Gas: 100000, Tip: 1, Cap: 2},
			{K: "convert", ID: ids.next(), Value: oq(2), Gas: 21000},
			{K: "etxhome", Kind: led, ID: ids.next(), Value: "12345", Gas: 21000}}})
		for _, k := range kinds {
			ids := &oIDs{n: 1}
			child := &OFrame{ID: ids.next(), Bal: oq(1000), End: "stop", Ops: []OOp{{K: "etxhome", Kind: led, ID: ids.next(), Value: oq(1), Gas: 50000, Tip: 1, Cap: 1}}}
			root := &OFrame{ID: ids.next(), Bal: oq(1000), End: "stop", Ops: []OOp{{K: "sub", ID: ids.next(), Kind: k, Gas: 2000000, Child: child},
				{K: "etx", ID: ids.next(), Value: "777", Gas: 21000, Tip: 1, Cap: 2}}}
			add("etx-opcode-own-zone-"+led+"-under-"+k, "call", root)
		}
	}
	return out
}

// gas handed to a frame at a given depth: a failing callee burns everything it was given, so every
// nested call gets a sixth of what its caller's level owns (at most four calls per frame): the callers
// always keep enough to finish, which is what the frame model assumes
func oGasAt(depth int) uint64 {
	g := uint64(80000000)
	for i := 1; i < depth; i++ {
		g /= 6
	}
	return g
}

func genOFrame(r *hlib.Rng, ids *oIDs, depth int, budget *int, untied *bool) *OFrame {
	f := &OFrame{ID: ids.next()}
	switch r.Pick(5, 2, 1) {
	case 0:
		f.Bal = oq(int64(100 + r.Intn(2000)))
	case 1:
		f.Bal = oq(int64(r.Intn(30)))
	default:
		f.Bal = "0"
	}
	f.End = []string{"stop", "return", "revert", "invalid", "oog"}[r.Pick(8, 2, 5, 2, 1)]
	n := 1 + r.Intn(4)
	for i := 0; i < n && *budget > 0; i++ {
		*budget--
		switch k := r.Pick(6, 2, 7); {
		case k == 0:
			o := OOp{K: "convert", ID: ids.next(), Gas: 21000 + uint64(r.Intn(50000))}
			switch r.Pick(8, 1, 1) {
			case 0:
				o.Value = oq(int64(1 + r.Intn(40)))
			case 1:
				o.Value = new(big.Int).Sub(oMin, big.NewInt(int64(r.Intn(2)))).String()
			default:
				o.Value = oq(int64(1000 + r.Intn(5000)))
			}
			if r.Chance(4) {
				o.Gas = 20999
			}
			f.Ops = append(f.Ops, o)
		case k == 1:
			o := OOp{K: "etx", ID: ids.next(), Value: new(big.Int).SetUint64(r.Next() % 1000000007).String(), Gas: 21000 + uint64(r.Intn(1000)), Tip: uint64(r.Intn(3)), Cap: uint64(r.Intn(5))}
			switch o.Gas % 8 { // a share of the ETX opcodes aims at the emitting zone itself (derived, no randomness consumed)
			case 0:
				o.K, o.Kind = "etxhome", "qi"
			case 1:
				o.K, o.Kind = "etxhome", "quai"
			}
			f.Ops = append(f.Ops, o)
		case depth < 4:
			kind := []string{"call", "callcode", "delegatecall", "staticcall", "create"}[r.Pick(4, 2, 5, 2, 3)]
			if kind == "create" && depth > 2 {
				kind = "delegatecall" // address grinding needs a caller with plenty of gas
			}
			o := OOp{K: "sub", ID: ids.next(), Kind: kind, Gas: oGasAt(depth + 1)}
			if kind == "call" || kind == "callcode" || kind == "create" {
				switch r.Pick(4, 4, 1) {
				case 1:
					o.Value = oq(int64(1 + r.Intn(60)))
				case 2:
					o.Value = oq(int64(3000 + r.Intn(60)))
				}
			}
			o.Child = genOFrame(r, ids, depth+1, budget, untied)
			if kind == "create" && (o.Child.End == "oog" || o.Child.End == "invalid") {
				// a CREATE frame owns 63/64 of the caller's gas and burns it all when it fails this way
				if r.Chance(70) {
					o.Child.End = "revert"
				} else {
					o.Child.End = "invalid"
					*untied = true
				}
			}
			f.Ops = append(f.Ops, o)
		default:
			f.Ops = append(f.Ops, OOp{K: "convert", ID: ids.next(), Value: oq(int64(1 + r.Intn(9))), Gas: 21000})
		}
	}
	return f
}

func genOrigin(r *hlib.Rng, id int) OriginJS {
	c := OriginJS{ID: id, Kind: "origin", Top: "call", PTN: oPTN + uint64(r.Intn(1000000)), GasPrice: uint64(r.Intn(4)), OriginBal: oq(100000), TopValue: "0", TopGas: 80000000}
	if r.Chance(10) {
		c.PTN = []uint64{params.ControllerKickInBlock - 5, 300000, params.KawPowForkBlock + 7, params.ShaEquivalentDifficultyForkBlock + 7, 1800000}[r.Intn(5)]
	}
	if r.Chance(8) {
		c.Top, c.DirectQi = "direct", r.Chance(70)
		c.TopGas = []uint64{100000, 42000, 41999, 21000, 1000000}[r.Pick(5, 2, 1, 1, 2)]
		c.OriginBal = oq(50)
		c.TopValue = oq(int64(r.Intn(60)))
		return c
	}
	ids := &oIDs{n: 1}
	budget := 14
	c.Root = genOFrame(r, ids, 1, &budget, &c.Untied)
	if r.Chance(15) {
		c.Top = "create"
		if c.Root.End == "oog" {
			c.Root.End = "revert"
		}
	}
	if r.Chance(40) {
		c.TopValue = oq(int64(1 + r.Intn(500)))
	}
	return c
}

// short description for samples
func (c OriginJS) String() string {
	var sb strings.Builder
	var rec func(f *OFrame)
	rec = func(f *OFrame) {
		sb.WriteString("{")
		for _, o := range f.Ops {
			if o.K == "sub" {
				sb.WriteString(o.Kind)
				rec(o.Child)
			} else {
				sb.WriteString(o.K + ";")
			}
		}
		sb.WriteString(f.End + "}")
	}
	if c.Root != nil {
		rec(c.Root)
	}
	return c.Top + sb.String()
}

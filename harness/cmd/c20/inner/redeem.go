//go:build verif && c20inner

// C20, destination side of a Qi->Quai conversion: the repriced ETX is only RECORDED by the
// block that includes it; the Quai is credited later by core.RedeemLockedQuai, which every zone
// block runs over the blocks sitting one lockup depth behind it.  The clause checked here:
// "the recipient is credited exactly once, at inclusion + ConversionLockPeriod, with exactly
// the amount carried by the ETX (less the account creation fee for a new account)".
//
// Each case fabricates a canonical chain (blocks with conversion ETXs of both directions,
// reverted conversions, coinbase and plain ETXs) in a hook-built HeaderChain
// (core.VerifC13NewHeaderChain, property C13's hook) and runs the REAL RedeemLockedQuai on ONE
// state at every height that looks back at one of the blocks through ANY of the depths of
// params.LockupByteToBlockDepth (one before, at, one after).
package main

import (
	"fmt"
	"math/big"
	"os"
	"sort"

	"github.com/dominant-strategies/go-quai/common"
	"github.com/dominant-strategies/go-quai/core"
	"github.com/dominant-strategies/go-quai/core/rawdb"
	"github.com/dominant-strategies/go-quai/core/state"
	"github.com/dominant-strategies/go-quai/core/types"
	"github.com/dominant-strategies/go-quai/ethdb"
	"github.com/dominant-strategies/go-quai/ethdb/leveldb"
	"github.com/dominant-strategies/go-quai/params"

	"verifharness/hlib"
)

type RQEtx struct {
	ID    int    `json:"id"`
	K     string `json:"k"` // conv_quai (Qi->Quai, the one that is redeemed) | conv_qi (Quai->Qi) | revert | coinbase | plain
	Value string `json:"value"`
	To    int    `json:"to"`             // recipient account id
	Lock  byte   `json:"lock,omitempty"` // coinbase: lockup byte
}
type RQBlock struct {
	Number uint64  `json:"number"`
	Etxs   []RQEtx `json:"etxs"`
}
type RedeemJS struct {
	ID        int       `json:"id"`
	Kind      string    `json:"kind"` // redeem
	Label     string    `json:"label,omitempty"`
	Blocks    []RQBlock `json:"blocks"`
	Existing  []int     `json:"existing"` // recipients whose account exists beforehand
	StateSize string    `json:"state_size"`
	Extra     []uint64  `json:"extra,omitempty"` // further heights to run
}

func rqAddr(k string, id int) common.Address {
	b := make([]byte, 20)
	b[0], b[1] = 0x00, 0x20
	switch k {
	case "conv_qi":
		b[1] = 0xa0 // Qi ledger of the zone
	case "coinbase":
		b[1] = 0x30
	}
	b[18], b[19] = byte(id>>8), byte(id)
	return common.BytesToAddress(b, oLoc)
}

func rqTx(x RQEtx, n uint64, idx int) *types.Transaction {
	to := rqAddr(x.K, x.To)
	var oh common.Hash
	oh[0], oh[1], oh[2], oh[3], oh[30], oh[31] = 0xc2, 0x0d, byte(n), byte(n>>8), byte(x.ID>>8), byte(x.ID)
	in := &types.ExternalTx{To: &to, Sender: common.ZeroAddress(oLoc), Value: bi(x.Value), Gas: 21000, OriginatingTxHash: oh, ETXIndex: uint16(idx)}
	switch x.K {
	case "conv_quai":
		in.EtxType = types.ConversionType
		in.Data = append([]byte{0, 100}, rqAddr("conv_qi", x.To).Bytes()...) // slip + Qi refund address, as the origin builds it
	case "conv_qi":
		in.EtxType = types.ConversionType
	case "revert":
		in.EtxType = types.ConversionRevertType
	case "coinbase":
		in.EtxType = types.CoinbaseType
		in.Data = append([]byte{x.Lock}, make([]byte, common.HashLength)...)
	default:
		in.EtxType = types.DefaultType
	}
	return types.NewTx(in)
}

func rqWriteBlock(db ethdb.Database, n uint64, etxs []RQEtx) {
	wo := types.EmptyWorkObject(common.ZONE_CTX)
	wo.WorkObjectHeader().SetNumber(new(big.Int).SetUint64(n))
	wo.WorkObjectHeader().SetLocation(oLoc)
	txs := make([]*types.Transaction, len(etxs))
	for i, x := range etxs {
		txs[i] = rqTx(x, n, i)
	}
	wo.Body().SetTransactions(txs)
	wo.WorkObjectHeader().SetTxHash(common.Hash{byte(n), byte(n >> 8), byte(n >> 16), byte(n >> 24), byte(len(etxs)), 0xc2})
	h := wo.Hash()
	rawdb.WriteTermini(db, h, types.EmptyTermini())
	rawdb.WriteWorkObject(db, h, wo, types.BlockObject, common.ZONE_CTX)
	rawdb.WriteCanonicalHash(db, h, n)
}

func rqHeights(c *RedeemJS) []uint64 {
	set := map[uint64]bool{}
	for _, b := range c.Blocks {
		if len(b.Etxs) == 0 {
			continue
		}
		set[b.Number+1] = true
		for _, d := range params.LockupByteToBlockDepth {
			for _, h := range []uint64{b.Number + d - 1, b.Number + d, b.Number + d + 1} {
				set[h] = true
			}
		}
	}
	for _, h := range c.Extra {
		set[h] = true
	}
	var hs []uint64
	for h := range set {
		if h >= 2 {
			hs = append(hs, h)
		}
	}
	sort.Slice(hs, func(i, j int) bool { return hs[i] < hs[j] })
	return hs
}

func runRedeemConv(c RedeemJS, dir string, cw *hlib.CaseWriter, rep *hlib.Report) {
	// the chain lives in a leveldb: blocks read back from the database are decoded with the location of the
	// database, which the in-memory one does not have
	p, err := os.MkdirTemp(dir, "c20lv")
	if err != nil {
		panic(err)
	}
	ldb, err := leveldb.New(p, 16, 16, "", false, logger, oLoc)
	if err != nil {
		panic(err)
	}
	db := rawdb.NewDatabase(ldb)
	defer func() { db.Close(); os.RemoveAll(p) }()
	mdb := rawdb.NewMemoryDatabase(logger)
	sdb, err := state.New(types.EmptyRootHash, types.EmptyRootHash, big.NewInt(0), state.NewDatabase(mdb), state.NewDatabase(mdb), nil, oLoc, logger)
	if err != nil {
		panic(err)
	}
	blocks := map[uint64][]RQEtx{}
	for _, b := range c.Blocks {
		blocks[b.Number] = b.Etxs
		rqWriteBlock(db, b.Number, b.Etxs)
	}
	heights := rqHeights(&c)
	// every block a run looks back to must exist
	for _, h := range heights {
		for _, d := range params.LockupByteToBlockDepth {
			if h > d {
				if _, ok := blocks[h-d]; !ok {
					blocks[h-d] = nil
					rqWriteBlock(db, h-d, nil)
				}
			}
		}
	}
	exists := map[int]bool{}
	for _, id := range c.Existing {
		ia, err := rqAddr("conv_quai", id).InternalAddress()
		if err != nil {
			panic(err)
		}
		sdb.CreateAccount(ia)
		sdb.AddBalance(ia, big.NewInt(1))
		exists[id] = true
	}
	// recipients of the Quai ledger named by conversions, reverts and plain ETXs
	recip := map[int]bool{}
	for _, b := range c.Blocks {
		for _, x := range b.Etxs {
			if x.K != "coinbase" && x.K != "conv_qi" {
				recip[x.To] = true
			}
		}
	}
	var rids []int
	for id := range recip {
		rids = append(rids, id)
	}
	sort.Ints(rids)
	bal := func(id int) *big.Int {
		ia, _ := rqAddr("conv_quai", id).InternalAddress()
		return new(big.Int).Set(sdb.GetBalance(ia))
	}
	ss := bi(c.StateSize)
	fee := new(big.Int).Mul(new(big.Int).SetUint64(params.CallNewAccountGas(ss)), big.NewInt(params.InitialBaseFee))
	hc := core.VerifC13NewHeaderChain(db, &params.ChainConfig{ChainID: big.NewInt(1), Location: oLoc}, logger)
	P := params.ConversionLockPeriod

	credited := map[int]*big.Int{}
	for _, id := range rids {
		credited[id] = big.NewInt(0)
	}
	var obs []string
	ok := true
	extraCredits, expiryCredits := 0, 0
	for _, h := range heights {
		hdr := types.EmptyWorkObject(common.ZONE_CTX)
		hdr.WorkObjectHeader().SetNumber(new(big.Int).SetUint64(h))
		hdr.WorkObjectHeader().SetLocation(oLoc)
		parent := types.EmptyWorkObject(common.ZONE_CTX)
		parent.WorkObjectHeader().SetNumber(new(big.Int).SetUint64(h - 1))
		parent.WorkObjectHeader().SetLocation(oLoc)
		parent.Header().SetQuaiStateSize(ss)
		pre := map[int]*big.Int{}
		for _, id := range rids {
			pre[id] = bal(id)
		}
		var unlocks []common.Unlock
		var rerr error
		panicked := ""
		func() {
			defer func() {
				if r := recover(); r != nil {
					panicked = fmt.Sprint(r)
				}
			}()
			unlocks, rerr = core.RedeemLockedQuai(hc, hdr, parent, sdb, nil)
		}()
		rep.Evaluations++
		if panicked != "" || rerr != nil {
			rep.Fail("redeem:refused-on-complete-chain", fmt.Sprintf("RedeemLockedQuai at height %d fails (%v %s) although every block it looks back to is present", h, rerr, panicked), c)
			ok = false
			break
		}
		// what the model-independent rule allows at this height: the conversions to the Quai ledger included at h - P
		want := map[int]*big.Int{}
		var wantList []string
		if h > P {
			for _, x := range blocks[h-P] {
				if x.K != "conv_quai" {
					continue
				}
				amt := bi(x.Value)
				if !exists[x.To] {
					if amt.Cmp(fee) < 0 {
						continue
					}
					amt.Sub(amt, fee)
					exists[x.To] = true
				}
				if want[x.To] == nil {
					want[x.To] = big.NewInt(0)
				}
				want[x.To].Add(want[x.To], amt)
				wantList = append(wantList, fmt.Sprintf("%d:%s", x.To, amt))
			}
		}
		var row []string
		var gotList []string
		for _, u := range unlocks {
			b := u.Addr.Bytes()
			if b[1] != 0x20 {
				continue // coinbase recipients: property C13
			}
			id := int(b[18])<<8 | int(b[19])
			row = append(row, fmt.Sprintf("(%d%%N, %s)", id, z(u.Amt)))
			gotList = append(gotList, fmt.Sprintf("%d:%s", id, u.Amt))
		}
		obs = append(obs, hlib.CoqList(row))
		for _, id := range rids {
			d := new(big.Int).Sub(bal(id), pre[id])
			credited[id].Add(credited[id], d)
			w := want[id]
			if w == nil {
				w = big0
			}
			if d.Cmp(w) == 0 {
				if d.Sign() > 0 {
					expiryCredits++
				}
				continue
			}
			// classify: is there a conversion to this recipient at h - d for another lockup depth / not yet expired?
			cls := "credit-differs-from-etx-value"
			if w.Sign() == 0 {
				cls = "credited-without-expiring-conversion"
				for _, dd := range params.LockupByteToBlockDepth {
					if dd == P || h <= dd {
						continue
					}
					for _, x := range blocks[h-dd] {
						if x.K == "conv_quai" && x.To == id {
							cls = "credited-again-at-later-lockup-depth"
						}
					}
				}
				for _, b := range c.Blocks {
					for _, x := range b.Etxs {
						if x.K == "conv_quai" && x.To == id && h < b.Number+P && cls == "credited-without-expiring-conversion" {
							cls = "credited-before-lock-period"
						}
					}
				}
				extraCredits++
			} else if d.Sign() == 0 {
				cls = "not-credited-at-lock-expiry"
			}
			rep.Fail("redeem:"+cls, fmt.Sprintf("height %d: recipient %d balance moves by %s; the Qi->Quai conversions included at height %d (= height - ConversionLockPeriod) allow %s (unlocks for conversion recipients %v, allowed %v)",
				h, id, d, int64(h)-int64(P), w, gotList, wantList), c)
			ok = false
		}
		if fmt.Sprint(gotList) != fmt.Sprint(wantList) && ok {
			rep.Fail("redeem:unlock-list", fmt.Sprintf("height %d: unlock list %v, allowed %v", h, gotList, wantList), c)
		}
	}
	rep.TracesValidated++
	// over the whole life of the chain: never more than the conversions carried
	for _, id := range rids {
		sum := big.NewInt(0)
		for _, b := range c.Blocks {
			for _, x := range b.Etxs {
				if x.K == "conv_quai" && x.To == id && b.Number >= 1 {
					sum.Add(sum, bi(x.Value))
				}
			}
		}
		if credited[id].Cmp(sum) > 0 {
			rep.Fail("redeem:total-credit-exceeds-conversion-value", fmt.Sprintf("recipient %d received %s over heights %v, the Qi->Quai conversion ETXs addressed to it carry %s", id, credited[id], heights, sum), c)
		}
	}
	// ---- Coq case ----
	var chain []string
	for _, b := range c.Blocks {
		var l []string
		for _, x := range b.Etxs {
			if x.K == "coinbase" || x.K == "conv_qi" {
				continue // not paid to the tracked recipients by any rule of this property (coinbases: C13)
			}
			l = append(l, fmt.Sprintf("mkQetx %d %s %d %s", x.ID, hlib.CoqBool(x.K == "conv_quai"), x.To, z(bi(x.Value))))
		}
		chain = append(chain, fmt.Sprintf("(%d, %s)", b.Number, hlib.CoqList(l)))
	}
	var ex, hs []string
	for _, id := range c.Existing {
		ex = append(ex, fmt.Sprintf("%d%%N", id))
	}
	for _, h := range heights {
		hs = append(hs, fmt.Sprint(h))
	}
	if len(obs) == len(heights) {
		cw.Add(fmt.Sprintf("(%d%%N, CRedeem %s %s %s %s %s)", c.ID, z(fee), hlib.CoqList(ex), hlib.CoqList(chain), hlib.CoqList(hs), hlib.CoqList(obs)), c)
	}
	rep.Count(fmt.Sprintf("redeem:heights/%s", bucket(len(heights))))
	rep.CountN("redeem:credits-at-lock-expiry", expiryCredits)
	if expiryCredits > 0 {
		rep.Nontrivial(fmt.Sprintf("redeem/%d/%d/%s", len(c.Blocks), expiryCredits, c.StateSize))
	}
}

func corpusRedeem() []RedeemJS {
	q := func(n int64) string { return new(big.Int).Mul(big.NewInt(n), e(18)).String() }
	var out []RedeemJS
	// one priced conversion followed through the whole life of the chain (existing / new recipient)
	out = append(out, RedeemJS{Label: "single-existing", Blocks: []RQBlock{{Number: 10, Etxs: []RQEtx{{ID: 1, K: "conv_quai", Value: q(123), To: 1}}}}, Existing: []int{1}, StateSize: "0"})
	out = append(out, RedeemJS{Label: "single-new-account", Blocks: []RQBlock{{Number: 10, Etxs: []RQEtx{{ID: 1, K: "conv_quai", Value: q(123), To: 1}}}}, StateSize: "0"})
	out = append(out, RedeemJS{Label: "single-new-account-below-fee", Blocks: []RQBlock{{Number: 10, Etxs: []RQEtx{{ID: 1, K: "conv_quai", Value: "1000", To: 1}, {ID: 2, K: "conv_quai", Value: q(1), To: 1}, {ID: 3, K: "conv_quai", Value: "999", To: 1}}}}, StateSize: "1000000"})
	// inclusion at the first blocks (the depth guard is currentBlockHeight <= blockDepth)
	out = append(out, RedeemJS{Label: "inclusion-at-1-and-2", Blocks: []RQBlock{{Number: 1, Etxs: []RQEtx{{ID: 1, K: "conv_quai", Value: q(5), To: 1}}}, {Number: 2, Etxs: []RQEtx{{ID: 2, K: "conv_quai", Value: q(7), To: 2}}}}, Existing: []int{1, 2}, StateSize: "0"})
	// everything that must NOT be redeemed next to the one that must
	out = append(out, RedeemJS{Label: "mixed-kinds", Blocks: []RQBlock{{Number: 5000, Etxs: []RQEtx{
		{ID: 1, K: "conv_qi", Value: "777000", To: 1}, {ID: 2, K: "revert", Value: q(50), To: 2}, {ID: 3, K: "plain", Value: q(60), To: 3},
		{ID: 4, K: "coinbase", Value: q(9), To: 4, Lock: 0}, {ID: 5, K: "coinbase", Value: q(9), To: 5, Lock: 1}, {ID: 6, K: "coinbase", Value: q(9), To: 6, Lock: 3},
		{ID: 7, K: "conv_quai", Value: q(70), To: 7}, {ID: 8, K: "conv_quai", Value: q(80), To: 7}}}}, Existing: []int{2, 3, 7}, StateSize: "0"})
	// two conversions whose inclusion heights differ by exactly the distance of two lockup depths: at one height the
	// scan sees one of them through the conversion depth and the other through the 3 month depth
	d01 := params.LockupByteToBlockDepth[1] - params.LockupByteToBlockDepth[0]
	out = append(out, RedeemJS{Label: "depth-distance-apart", Blocks: []RQBlock{{Number: 100, Etxs: []RQEtx{{ID: 1, K: "conv_quai", Value: q(11), To: 1}}},
		{Number: 100 + d01, Etxs: []RQEtx{{ID: 2, K: "conv_quai", Value: q(13), To: 2}}}}, Existing: []int{1, 2}, StateSize: "0"})
	return out
}

func genRedeem(r *hlib.Rng, id int) RedeemJS {
	c := RedeemJS{ID: id, Kind: "redeem", StateSize: []string{"0", "1000000", "500000000"}[r.Intn(3)]}
	nb := 1 + r.Intn(3)
	next := 0
	base := uint64(1 + r.Intn(3000000))
	for i := 0; i < nb; i++ {
		n := base
		switch r.Pick(3, 2, 2) {
		case 1: // a lockup depth (or the distance of two) apart from the previous one
			d := params.LockupByteToBlockDepth[r.Intn(4)]
			if r.Bool() {
				d -= params.LockupByteToBlockDepth[0]
			}
			if d == 0 {
				d = 1
			}
			n = base + d
		case 2:
			n = base + uint64(1+r.Intn(3))
		default:
			n = base + uint64(1+r.Intn(8000000))
		}
		base = n
		b := RQBlock{Number: n}
		for j, m := 0, 1+r.Intn(4); j < m; j++ {
			next++
			x := RQEtx{ID: next, To: 1 + r.Intn(6)}
			x.K = []string{"conv_quai", "conv_qi", "revert", "coinbase", "plain"}[r.Pick(8, 2, 2, 3, 1)]
			switch r.Pick(5, 2, 1) {
			case 0:
				x.Value = genQuaiAmount(r, params.StartingConversionFlowAmount).String()
			case 1:
				x.Value = new(big.Int).SetUint64(r.Next() % 100000000000000).String() // around the account creation fee
			default:
				x.Value = big.NewInt(int64(r.Intn(3))).String()
			}
			if x.K == "coinbase" {
				x.Lock = byte(r.Intn(4))
				x.To += 100
			}
			b.Etxs = append(b.Etxs, x)
		}
		c.Blocks = append(c.Blocks, b)
	}
	for id := 1; id <= 6; id++ {
		if r.Chance(60) {
			c.Existing = append(c.Existing, id)
		}
	}
	return c
}

// C20 harness, outer part: a thin launcher.
//
// The conversion repricing loop is written inline in (*Slice).Append and cannot be
// called.  On every run this launcher re-slices the CURRENT text of core/slice.go
// (package slicer, semantic anchors), hands the generated file to the go tool as an
// overlay of package core (nothing is written into the repository), builds the inner
// harness (cmd/c20/inner) against it and runs it with the same flags.  If the anchors
// are not found, or the sliced text no longer compiles against the reviewed parameter
// table, the correspondence is broken: the launcher says so and exits non-zero (no
// report), which the check driver turns into a VIOLATION -- it never silently skips.
package main

import (
	"context"
	"crypto/sha256"
	"encoding/hex"
	"encoding/json"
	"fmt"
	"os"
	"os/exec"
	"path/filepath"
	"strings"
	"syscall"
	"time"

	"verifharness/cmd/c20/slicer"
)

func fail(format string, a ...any) {
	fmt.Fprintf(os.Stderr, "C20 correspondence broken: "+format+"\n", a...)
	os.Exit(3)
}

func main() {
	repo := os.Getenv("VERIF_REPO")
	if repo == "" {
		repo = "/repo"
	}
	repo, _ = filepath.Abs(repo)
	verif := os.Getenv("VERIF_DIR")
	if verif == "" {
		verif = "/verif"
	}
	harness := filepath.Join(verif, "harness")

	res, err := slicer.Slice(repo)
	if err != nil {
		fail("cannot slice the conversion block out of %s/core/slice.go: %v", repo, err)
	}
	// stable build directory per repository path: the go build cache (and the up-to-date test of the
	// output binary) then make an unchanged tree cost seconds; serialised by a file lock
	hh := sha256.Sum256([]byte(repo))
	tmp := filepath.Join(verif, "build", "c20-"+hex.EncodeToString(hh[:4]))
	if err := os.MkdirAll(tmp, 0o755); err != nil {
		fail("build dir: %v", err)
	}
	lock, err := os.OpenFile(filepath.Join(tmp, ".lock"), os.O_CREATE|os.O_RDWR, 0o644)
	if err != nil {
		fail("lock: %v", err)
	}
	defer lock.Close()
	if err := syscall.Flock(int(lock.Fd()), syscall.LOCK_EX); err != nil {
		fail("lock: %v", err)
	}
	gen := filepath.Join(tmp, "verif_c20_sliced_gen.go")
	if old, err := os.ReadFile(gen); err != nil || string(old) != res.GoFile {
		if err := os.WriteFile(gen, []byte(res.GoFile), 0o644); err != nil {
			fail("write: %v", err)
		}
	}
	target := filepath.Join(repo, "core", "verif_c20_sliced_gen.go")
	if _, err := os.Stat(target); err == nil {
		fail("%s exists in the repository: the overlay would shadow it", target)
	}
	ov, _ := json.Marshal(map[string]any{"Replace": map[string]string{target: gen}})
	ovPath := filepath.Join(tmp, "overlay.json")
	os.WriteFile(ovPath, ov, 0o644)
	inner := filepath.Join(tmp, "c20inner")

	env := append(os.Environ(), "GOFLAGS=-mod=mod", "GOPROXY=off", "GOSUMDB=off", "GOTOOLCHAIN=local")
	ctx, cancel := context.WithTimeout(context.Background(), 25*time.Minute)
	defer cancel()
	build := exec.CommandContext(ctx, "go", "build", "-tags", "verif c20inner", "-overlay", ovPath, "-o", inner, "./cmd/c20/inner")
	build.Dir = harness
	build.Env = env
	out, err := build.CombinedOutput()
	if err != nil && strings.Contains(string(out), "undefined: core.Verif") {
		// the go tool did not see the overlaid file (observed once under heavy parallel load): retry once with
		// the generated file under a fresh name before declaring the correspondence broken
		os.Stderr.WriteString("c20: overlay not picked up by the go tool, retrying once\n" + string(out))
		gen2 := filepath.Join(tmp, fmt.Sprintf("verif_c20_sliced_gen_%d.go", os.Getpid()))
		os.WriteFile(gen2, []byte(res.GoFile), 0o644)
		defer os.Remove(gen2)
		ov2, _ := json.Marshal(map[string]any{"Replace": map[string]string{target: gen2}})
		os.WriteFile(ovPath, ov2, 0o644)
		build = exec.CommandContext(ctx, "go", "build", "-tags", "verif c20inner", "-overlay", ovPath, "-o", inner, "./cmd/c20/inner")
		build.Dir = harness
		build.Env = env
		out, err = build.CombinedOutput()
	}
	if err != nil {
		os.Stderr.Write(out)
		fail("the sliced text of (*Slice).Append lines %d-%d (free variables %v) does not build as core.VerifRepriceConversions: %v", res.StartLine, res.EndLine, res.FreeVars, err)
	}
	// run a private copy so that the lock can be released before the (long) run
	priv, err := os.CreateTemp("", "verif-c20-inner-")
	if err != nil {
		fail("tempfile: %v", err)
	}
	bin, err := os.ReadFile(inner)
	if err != nil {
		fail("read inner binary: %v", err)
	}
	priv.Write(bin)
	priv.Chmod(0o755)
	priv.Close()
	defer os.Remove(priv.Name())
	syscall.Flock(int(lock.Fd()), syscall.LOCK_UN)
	run := exec.Command(priv.Name(), os.Args[1:]...)
	run.Env = append(env, "VERIF_REPO="+repo, fmt.Sprintf("VERIF_C20_SLICE=%d-%d", res.StartLine, res.EndLine))
	run.Stdout, run.Stderr, run.Stdin = os.Stdout, os.Stderr, nil
	if err := run.Run(); err != nil {
		fmt.Fprintln(os.Stderr, "c20 inner harness:", err)
		os.Remove(priv.Name())
		os.Exit(1)
	}
}

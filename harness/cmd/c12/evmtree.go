// EVM frame matrix of C12: call TREES compiled to real bytecode and run on the real EVM.
//
// A tree node is one frame, entered by one of the call kinds
//     CALL, CALLCODE, DELEGATECALL, STATICCALL, CREATE, CREATE2
// (the root by the top-level EVM.Call), performing actions
//     sstore / tstore / log / pay (valued CALL creating a fresh account) /
//     etx (ETX opcode) / convert (CONVERT opcode) / claim (CALL to the lockup contract) / child frame
// and ending in  stop | suicide | revert | invalid | oog | underflow.  A parent always swallows the
// status word of a child and goes on.
//
// Monitors (all on the real code, independent of the Coq model):
//   frame  (tracer)   at every call-kind opcode the EVM side lists (ETXCache, CoinbaseDeletedHashes,
//                     CoinbasesDeleted) and the state of every known account are recorded; if the
//                     status word pushed by that opcode is 0 they must be what they were;
//   top               a failed top-level call leaves side lists and state as at entry;
//   erasure           the same tree in which every failing frame fails at once (its actions are
//                     skipped through a BLOCKHASH switch, so all code and addresses are identical)
//                     gives the same ETX cache, deleted-hash list, undo map, logs, refund and
//                     IntermediateRoot;
//   outbound          ETXCache == the sends of frames that, with all their ancestors, ended well,
//                     in program order, ETXIndex = position;
//   f9 (known)        a lockup record is gone after the block's batch write iff its payout is in the cache.
package main

import (
	"encoding/binary"
	"encoding/hex"
	"fmt"
	"math/big"
	"sort"
	"encoding/json"
	"os"
	"strings"
	"time"

	"github.com/dominant-strategies/go-quai/common"
	"github.com/dominant-strategies/go-quai/core"
	"github.com/dominant-strategies/go-quai/core/rawdb"
	"github.com/dominant-strategies/go-quai/core/state"
	"github.com/dominant-strategies/go-quai/core/types"
	"github.com/dominant-strategies/go-quai/core/vm"
	"github.com/dominant-strategies/go-quai/crypto"
	"github.com/dominant-strategies/go-quai/ethdb"
	"github.com/dominant-strategies/go-quai/params"

	"verifharness/hlib"
)

// ---------- trees ----------

type TAct struct {
	K     string `json:"k"` // sstore tstore log pay etx convert claim reclaim child
	Tag   int    `json:"t,omitempty"`
	Slot  int    `json:"s,omitempty"`
	Epoch int    `json:"e,omitempty"`
	Child *TNode `json:"c,omitempty"`
}

type TNode struct {
	ID    int    `json:"id"`
	Kind  string `json:"kind"` // top call callcode delegatecall staticcall create create2
	Value bool   `json:"value,omitempty"`
	Acts  []TAct `json:"acts,omitempty"`
	End   string `json:"end"` // stop suicide revert invalid oog underflow
}

type TreeCase struct {
	ID   int    `json:"id"`
	Mode string `json:"mode"` // "tree"
	Ptn  uint64 `json:"ptn"`
	Tree *TNode `json:"tree"`
	Src  string `json:"src,omitempty"`
}

func endFails(e string) bool { return e == "revert" || e == "invalid" || e == "oog" || e == "underflow" }
func isCreate(k string) bool { return k == "create" || k == "create2" }
func sharesCtx(k string) bool { return k == "delegatecall" || k == "callcode" }

func (n *TNode) walk(f func(*TNode)) {
	f(n)
	for _, a := range n.Acts {
		if a.Child != nil {
			a.Child.walk(f)
		}
	}
}

func (n *TNode) String() string {
	var sb strings.Builder
	sb.WriteString(n.Kind)
	if n.Value {
		sb.WriteString("+v")
	}
	sb.WriteString("{")
	for i, a := range n.Acts {
		if i > 0 {
			sb.WriteString(" ")
		}
		if a.Child != nil {
			sb.WriteString(a.Child.String())
		} else {
			sb.WriteString(a.K)
		}
	}
	sb.WriteString("}" + n.End)
	return sb.String()
}

// ---------- addresses ----------

func nodeAddr(id int) common.Address { // in zone, Quai ledger
	b := make([]byte, 20)
	b[18] = 0xC0
	b[19] = byte(id)
	return common.BytesToAddress(b, loc)
}
func freshAddr(k int) common.Address { // never exists before the transaction
	b := make([]byte, 20)
	b[18] = 0xF0
	b[19] = byte(k)
	return common.BytesToAddress(b, loc)
}

var (
	treeOrigin      = mkAddrFull(0x55)
	treeBeneficiary = mkAddrFull(0x66)
	treePayoutTo    = mkAddrFull(0x67)
)

func extQuaiAddr() common.Address { // zone [0 1], Quai ledger
	b := make([]byte, 20)
	b[0] = 0x01
	b[19] = 0x99
	return common.BytesToAddress(b, loc)
}
func qiAddr() common.Address { // in zone, Qi ledger
	b := make([]byte, 20)
	b[1] = 0x80
	b[19] = 0x98
	return common.BytesToAddress(b, loc)
}

var minConv = new(big.Int).Set(params.MinQuaiConversionAmount)

func etxValue(tag int) *big.Int     { return big.NewInt(int64(100000 + tag)) }
func convertValue(tag int) *big.Int { return new(big.Int).Add(minConv, big.NewInt(int64(tag))) }
func lockupBalance(tag int) *big.Int { return big.NewInt(int64(500000 + tag)) }

// ---------- assembler ----------

type asm struct{ b []byte }

func (a *asm) op(o vm.OpCode) { a.b = append(a.b, byte(o)) }
func (a *asm) push(v uint64) {
	var buf [8]byte
	binary.BigEndian.PutUint64(buf[:], v)
	i := 0
	for i < 7 && buf[i] == 0 {
		i++
	}
	a.b = append(a.b, byte(vm.PUSH1)+byte(7-i))
	a.b = append(a.b, buf[i:]...)
}
func (a *asm) push2(v int) { a.b = append(a.b, byte(vm.PUSH2), byte(v>>8), byte(v)) }
func (a *asm) pushBytes(p []byte) {
	if len(p) == 0 || len(p) > 32 {
		panic("pushBytes")
	}
	a.b = append(a.b, byte(vm.PUSH1)+byte(len(p)-1))
	a.b = append(a.b, p...)
}
func (a *asm) pushBig(x *big.Int) {
	if x.Sign() == 0 {
		a.push(0)
		return
	}
	a.pushBytes(x.Bytes())
}

const (
	hashWindowSkip = 0   // BLOCKHASH(base+id)      != 0  <=> node id skips its actions
	hashWindowSalt = 100 // BLOCKHASH(base+100+id)  = CREATE2 salt of node id
	maxTreeNodes   = 100
	treeBlock      = params.MaxCodeSizeForkHeight + 10
	hashBase       = treeBlock - 256
)

// endowment of a contract created by a frame at this depth; the accounts of the tree hold 1e27
func endowment(depth int) *big.Int {
	x, _ := new(big.Int).SetString("1000000000000000000000000000", 10)
	for i := 0; i < depth; i++ {
		x.Div(x, big.NewInt(30))
	}
	return x
}

func gasBudget(depth int) uint64 { // gas handed to a child frame at this depth (root = 0)
	// 1.6e19, 8e14, 4e10, 2e6: a frame that loses 63/64 of its gas twice (two creations ending in INVALID /
	// out of gas) can still pay its remaining actions and hand the next level its budget
	g := uint64(16e18)
	for i := 0; i < depth; i++ {
		g /= 20000
	}
	return g
}

type compiled struct {
	code  map[int][]byte // node id -> runtime code (call kinds) or init code (create kinds)
	depth map[int]int
}

// compileNode returns the code of n; children entered by CALL kinds get their own account, children
// entered by CREATE kinds are embedded as data after the ending.
func compileNode(n *TNode, depth int, out *compiled) []byte {
	out.depth[n.ID] = depth
	type emb struct {
		id   int
		code []byte
	}
	var embeds []emb
	for _, a := range n.Acts {
		if a.Child != nil {
			c := compileNode(a.Child, depth+1, out)
			if isCreate(a.Child.Kind) {
				embeds = append(embeds, emb{a.Child.ID, c})
			}
		}
	}
	gen := func(endLabel int, dataOff map[int]int) []byte {
		a := &asm{}
		a.push2(n.ID) // marker read by the tracer
		a.op(vm.POP)
		a.push(uint64(hashBase + hashWindowSkip + n.ID))
		a.op(vm.BLOCKHASH)
		a.push2(endLabel)
		a.op(vm.JUMPI)
		for _, act := range n.Acts {
			switch act.K {
			case "sstore":
				a.push2(act.Tag)
				a.push(uint64(act.Slot))
				a.op(vm.SSTORE)
			case "tstore":
				a.push2(act.Tag)
				a.push(uint64(act.Slot))
				a.op(vm.TSTORE)
			case "log":
				a.push2(act.Tag)
				a.push(0)
				a.op(vm.MSTORE)
				a.push(32)
				a.push(0)
				a.op(vm.LOG0)
			case "pay":
				for i := 0; i < 4; i++ {
					a.push(0)
				}
				a.push(7)
				a.pushBytes(freshAddr(act.Slot).Bytes())
				a.op(vm.GAS)
				a.op(vm.CALL)
				a.op(vm.POP)
			case "etx":
				for i := 0; i < 6; i++ { // alSize alOff inSize inOff feeCap tipCap
					a.push(0)
				}
				a.push(params.TxGas)
				a.pushBig(etxValue(act.Tag))
				a.pushBytes(extQuaiAddr().Bytes())
				a.push(0)
				a.op(vm.ETX)
				a.op(vm.POP)
			case "convert":
				a.push(params.TxGas)
				a.pushBig(convertValue(act.Tag))
				a.pushBytes(qiAddr().Bytes())
				a.push(0)
				a.op(vm.CONVERT)
				a.op(vm.POP)
			case "claim", "reclaim":
				in := make([]byte, 64)
				copy(in[:20], treeBeneficiary.Bytes())
				copy(in[20:40], treePayoutTo.Bytes())
				in[40] = 1
				binary.BigEndian.PutUint32(in[41:45], uint32(act.Epoch))
				binary.BigEndian.PutUint64(in[45:53], params.TxGas)
				a.pushBytes(in[:32])
				a.push(0)
				a.op(vm.MSTORE)
				a.pushBytes(in[32:])
				a.push(32)
				a.op(vm.MSTORE)
				a.push(0)
				a.push(0)
				a.push(53)
				a.push(0)
				a.push(0)
				a.pushBytes(vm.LockupContractAddresses[[2]byte{0, 0}].Bytes())
				a.push(200000)
				a.op(vm.CALL)
				a.op(vm.POP)
			case "child":
				c := act.Child
				val := uint64(0)
				if c.Value {
					val = 9
				}
				switch c.Kind {
				case "call", "callcode":
					for i := 0; i < 4; i++ {
						a.push(0)
					}
					a.push(val)
					a.pushBytes(nodeAddr(c.ID).Bytes())
					a.push(gasBudget(depth + 1))
					if c.Kind == "call" {
						a.op(vm.CALL)
					} else {
						a.op(vm.CALLCODE)
					}
				case "delegatecall", "staticcall":
					for i := 0; i < 4; i++ {
						a.push(0)
					}
					a.pushBytes(nodeAddr(c.ID).Bytes())
					a.push(gasBudget(depth + 1))
					if c.Kind == "delegatecall" {
						a.op(vm.DELEGATECALL)
					} else {
						a.op(vm.STATICCALL)
					}
				case "create", "create2":
					var sz int
					for _, e := range embeds {
						if e.id == c.ID {
							sz = len(e.code)
						}
					}
					a.push2(sz)
					a.push2(dataOff[c.ID])
					a.push(0)
					a.op(vm.CODECOPY)
					endow := endowment(depth + 1) // a created contract always gets funds: its sends must be able to pay
					if c.Kind == "create2" {
						a.push(uint64(hashBase + hashWindowSalt + c.ID))
						a.op(vm.BLOCKHASH)
					}
					a.push2(sz)
					a.push(0)
					a.pushBig(endow)
					if c.Kind == "create2" {
						a.op(vm.CREATE2)
					} else {
						a.op(vm.CREATE)
					}
				default:
					panic("child kind " + c.Kind)
				}
				a.op(vm.POP)
			default:
				panic("action " + act.K)
			}
		}
		if len(a.b) != endLabel && endLabel != 0 {
			panic("label moved")
		}
		a.op(vm.JUMPDEST)
		switch n.End {
		case "stop":
			a.op(vm.STOP)
		case "suicide":
			a.pushBytes(treeOrigin.Bytes())
			a.op(vm.SELFDESTRUCT)
		case "revert":
			a.push(0)
			a.push(0)
			a.op(vm.REVERT)
		case "invalid":
			a.op(vm.OpCode(0xfe))
		case "oog":
			a.pushBytes([]byte{0xff, 0xff, 0xff, 0xff, 0xff}) // memory beyond 0x1FFFFFFFE0: the gas function errs, nothing is allocated
			a.op(vm.MLOAD)
		case "underflow":
			a.op(vm.POP)
		default:
			panic("ending " + n.End)
		}
		return a.b
	}
	// pass 1: sizes (every label / offset is a PUSH2, so lengths do not depend on their values)
	p1 := gen(0, map[int]int{})
	jd := -1
	{
		// position of the JUMPDEST = length of everything before the ending
		endLen := map[string]int{"stop": 1, "suicide": 22, "revert": 5, "invalid": 1, "oog": 7, "underflow": 1}[n.End]
		jd = len(p1) - endLen - 1
	}
	off := map[int]int{}
	pos := len(p1)
	for _, e := range embeds {
		off[e.id] = pos
		pos += len(e.code)
	}
	code := gen(jd, off)
	if len(code) != len(p1) || code[jd] != byte(vm.JUMPDEST) {
		panic("assembler: unstable layout")
	}
	for _, e := range embeds {
		code = append(code, e.code...)
	}
	out.code[n.ID] = code
	return code
}

// ---------- intended semantics (what the property says must remain) ----------

type emitInfo struct {
	node  int
	kind  string // etx convert claim
	tag   int
	epoch int
}

type plan struct {
	fails     map[int]bool   // node id -> the frame ends in failure (declared ending, or a write in a static context)
	status    map[string]int // "node/k" (k-th call-kind opcode executed by the node) -> intended status word (0/1), -1 = a created address
	kept      []emitInfo     // sends that must be in the cache at the end, in order
	claimsAll []emitInfo     // every claim that deletes a record (kept or not)
	ctx       map[int]string // node id -> hex address of the executing context
	eframe    string         // the call tree as a term of Model/C12.v
	nEmits    int
	keptClaim map[int]bool // epoch -> kept claim
}

// simulate walks the tree the way the property prescribes.
// It also derives the address of every executing context (CREATE: sender+nonce, ground into scope as
// EVM.Create does; CREATE2: a salt is chosen so that the address is in scope and handed to the code through BLOCKHASH).
func simulate(root *TNode, salts map[int]common.Hash, codes *compiled) *plan {
	p := &plan{fails: map[int]bool{}, status: map[string]int{}, ctx: map[int]string{}, keptClaim: map[int]bool{}}
	nonce := map[string]uint64{} // context -> account nonce (absent = 1: every account of the tree starts with nonce 1)
	getNonce := func(c string) uint64 {
		if v, ok := nonce[c]; ok {
			return v
		}
		return 1
	}
	type frameRes struct {
		emits  []emitInfo
		claims []emitInfo
		term   string
		fails  bool
	}
	claimed := map[int]bool{} // epochs whose record is deleted in the batch (F9: a reverted claim stays deleted)
	var run func(n *TNode, static bool, ctx string) frameRes
	run = func(n *TNode, static bool, ctx string) frameRes {
		p.ctx[n.ID] = ctx
		var r frameRes
		var body []string
		k := 0
		violated := false
		for _, a := range n.Acts {
			if violated {
				break
			}
			switch a.K {
			case "sstore", "tstore", "log":
				if static {
					violated = true
				}
			case "etx", "convert":
				if static {
					violated = true
					break
				}
				r.emits = append(r.emits, emitInfo{n.ID, a.K, a.Tag, 0})
				body = append(body, fmt.Sprintf("EEmit %d", a.Tag))
				p.nEmits++
			case "pay":
				if static {
					violated = true
					break
				}
				p.status[fmt.Sprintf("%d/%d", n.ID, k)] = 1
				k++
			case "claim", "reclaim":
				ok := !static && ctx != "" && !claimed[a.Epoch]
				if ok {
					claimed[a.Epoch] = true
					e := emitInfo{n.ID, "claim", a.Tag, a.Epoch}
					r.emits = append(r.emits, e)
					r.claims = append(r.claims, e)
					p.claimsAll = append(p.claimsAll, e)
					body = append(body, fmt.Sprintf("ECall [EClaim [%d] %d %d] false", a.Epoch, a.Tag, a.Epoch))
					p.status[fmt.Sprintf("%d/%d", n.ID, k)] = 1
					p.nEmits++
				} else {
					body = append(body, "ECall [] true")
					p.status[fmt.Sprintf("%d/%d", n.ID, k)] = 0
				}
				k++
			case "child":
				c := a.Child
				if static && (isCreate(c.Kind) || (c.Kind == "call" && c.Value)) {
					violated = true
					break
				}
				cctx := ""
				switch {
				case sharesCtx(c.Kind):
					cctx = ctx
				case isCreate(c.Kind):
					parent := common.BytesToAddress(common.FromHex(ctx), loc)
					nn := getNonce(ctx)
					nonce[ctx] = nn + 1 // EVM.create bumps the creator's nonce before its snapshot
					code := codes.code[c.ID]
					var ad common.Address
					if c.Kind == "create2" {
						h := crypto.Keccak256(code)
						for i := uint64(1); ; i++ {
							var salt common.Hash
							binary.BigEndian.PutUint64(salt[24:], i)
							ad = crypto.CreateAddress2(parent, salt, h, loc)
							if _, err := ad.InternalAndQuaiAddress(); err == nil {
								salts[c.ID] = salt
								break
							}
						}
					} else {
						ad = crypto.CreateAddress(parent, nn, code, loc)
						if _, err := ad.InternalAndQuaiAddress(); err != nil {
							words := int64((len(code) + 31) / 32)
							g, _, gerr := vm.GrindContract(parent, nn, 1<<62, int64(params.Sha3Gas)+words*int64(params.Sha3WordGas), crypto.Keccak256Hash(code), new(big.Int).SetUint64(treeBlock), loc)
							if gerr != nil {
								panic(gerr)
							}
							ad = g
						}
					}
					cctx = hex.EncodeToString(ad.Bytes())
					nonce[cctx] = 1
				default:
					cctx = hex.EncodeToString(nodeAddr(c.ID).Bytes())
				}
				saved := map[string]uint64{}
				for k, v := range nonce {
					saved[k] = v
				}
				cr := run(c, static || c.Kind == "staticcall", cctx)
				key := fmt.Sprintf("%d/%d", n.ID, k)
				k++
				body = append(body, cr.term)
				if cr.fails {
					p.status[key] = 0
					for k := range nonce {
						delete(nonce, k)
					}
					for k, v := range saved {
						nonce[k] = v
					}
				} else {
					if isCreate(c.Kind) {
						p.status[key] = -1
					} else {
						p.status[key] = 1
					}
					r.emits = append(r.emits, cr.emits...)
					r.claims = append(r.claims, cr.claims...)
				}
			}
		}
		if n.End == "suicide" && static {
			violated = true
		}
		r.fails = violated || endFails(n.End)
		p.fails[n.ID] = r.fails
		r.term = fmt.Sprintf("ECall %s %s", hlib.CoqList(body), hlib.CoqBool(r.fails))
		if r.fails {
			r.emits, r.claims = nil, nil
		}
		return r
	}
	rr := run(root, false, hex.EncodeToString(nodeAddr(root.ID).Bytes()))
	p.kept = rr.emits
	for _, c := range rr.claims {
		p.keptClaim[c.epoch] = true
	}
	p.eframe = "(" + rr.term + ")"
	return p
}

// ---------- tracer ----------

type acctSnap struct {
	exists, suicided bool
	nonce            uint64
	balance          string
	codeHash         common.Hash
	slots            [4]common.Hash
	trans            [4]common.Hash
}

type frameSnap struct {
	etxs    []*types.Transaction
	hashes  []*common.Hash
	delKeys []string
	accts   []acctSnap
	logs    int
	refund  uint64
}

type site struct {
	node, k int
	op      vm.OpCode
	ctx     common.Address
	pre     *frameSnap
}

type treeTracer struct {
	s        *state.StateDB
	watch    []common.InternalAddress
	nodeAt   map[int]int // depth -> node id
	kAt      map[int]int // depth -> call-kind opcodes executed so far by that node
	pending  map[int]*site
	observed map[string]int // "node/k" -> status word class (0, 1, -1 = other non-zero)
	fails    []failure
	sites    int
	failed   int
}

var defaultSlotKeys = [4]common.Hash{common.BytesToHash([]byte{0}), common.BytesToHash([]byte{1}), common.BytesToHash([]byte{2}), common.BytesToHash([]byte{3})}

func takeSnap(env *vm.EVM, s *state.StateDB, watch []common.InternalAddress) *frameSnap {
	return takeSnapKeys(env, s, watch, defaultSlotKeys)
}

func takeSnapKeys(env *vm.EVM, s *state.StateDB, watch []common.InternalAddress, keys [4]common.Hash) *frameSnap {
	f := &frameSnap{}
	f.etxs = append(f.etxs, env.ETXCache...)
	f.hashes = append(f.hashes, env.CoinbaseDeletedHashes...)
	for k := range env.CoinbasesDeleted {
		f.delKeys = append(f.delKeys, hex.EncodeToString(k[:])+"="+hex.EncodeToString(env.CoinbasesDeleted[k]))
	}
	sort.Strings(f.delKeys)
	for _, a := range watch {
		as := acctSnap{exists: s.Exist(a), suicided: s.HasSuicided(a), nonce: s.GetNonce(a), balance: s.GetBalance(a).String(), codeHash: s.GetCodeHash(a)}
		for i := 0; i < 4; i++ {
			as.slots[i] = s.GetState(a, keys[i])
			as.trans[i] = s.GetTransientState(a, keys[i])
		}
		f.accts = append(f.accts, as)
	}
	f.logs = len(s.Logs())
	f.refund = s.GetRefund()
	return f
}

// diffSnap names the fields in which the state after a failed frame differs from the state at its entry.
func diffSnap(pre, post *frameSnap, watch []common.InternalAddress, skipNonce *common.InternalAddress) []string {
	var out []string
	add := func(s string) {
		for _, x := range out {
			if x == s {
				return
			}
		}
		out = append(out, s)
	}
	if len(pre.etxs) != len(post.etxs) {
		add("etxcache")
	} else {
		for i := range pre.etxs {
			if pre.etxs[i] != post.etxs[i] {
				add("etxcache")
			}
		}
	}
	if len(pre.hashes) != len(post.hashes) {
		add("deleted-hashes")
	} else {
		for i := range pre.hashes {
			if *pre.hashes[i] != *post.hashes[i] {
				add("deleted-hashes")
			}
		}
	}
	if strings.Join(pre.delKeys, ",") != strings.Join(post.delKeys, ",") {
		add("undo-map")
	}
	for i := range pre.accts {
		a, b := pre.accts[i], post.accts[i]
		if a.exists != b.exists {
			add("acct.exists")
		}
		if a.suicided != b.suicided {
			add("acct.suicided")
		}
		if a.nonce != b.nonce && !(skipNonce != nil && watch[i] == *skipNonce && b.nonce == a.nonce+1) {
			add("acct.nonce")
		}
		if a.balance != b.balance {
			add("acct.balance")
		}
		if a.codeHash != b.codeHash {
			add("acct.code")
		}
		if a.slots != b.slots {
			add("acct.storage")
		}
		if a.trans != b.trans {
			add("transient")
		}
	}
	if pre.logs != post.logs {
		add("logs")
	}
	if pre.refund != post.refund {
		add("refund")
	}
	return out
}

func isCallKind(op vm.OpCode) bool {
	switch op {
	case vm.CALL, vm.CALLCODE, vm.DELEGATECALL, vm.STATICCALL, vm.CREATE, vm.CREATE2:
		return true
	}
	return false
}

func (t *treeTracer) CaptureStart(env *vm.EVM, from common.Address, to common.Address, create bool, input []byte, gas uint64, value *big.Int) {
}
func (t *treeTracer) CaptureEnd(output []byte, gasUsed uint64, d time.Duration, err error) {}
func (t *treeTracer) CaptureFault(env *vm.EVM, pc uint64, op vm.OpCode, gas, cost uint64, scope *vm.ScopeContext, depth int, err error) {
}
func (t *treeTracer) CaptureState(env *vm.EVM, pc uint64, op vm.OpCode, gas, cost uint64, scope *vm.ScopeContext, rData []byte, depth int, err error, l common.Location) {
	if st := t.pending[depth]; st != nil {
		// first step of the same frame after the call-kind opcode: its status word is on top of the stack
		delete(t.pending, depth)
		if err == nil && len(scope.Stack.Data()) > 0 {
			top := scope.Stack.Back(0)
			cls := -1
			if top.IsZero() {
				cls = 0
			} else if top.IsUint64() && top.Uint64() == 1 {
				cls = 1
			}
			t.observed[fmt.Sprintf("%d/%d", st.node, st.k)] = cls
			t.sites++
			if cls == 0 {
				t.failed++
				post := takeSnap(env, t.s, t.watch)
				var skip *common.InternalAddress
				if st.op == vm.CREATE || st.op == vm.CREATE2 {
					if ia, e := st.ctx.InternalAndQuaiAddress(); e == nil {
						skip = &ia
					}
				}
				for _, f := range diffSnap(st.pre, post, t.watch, skip) {
					t.fails = append(t.fails, failure{"frame-failed-left-trace/" + strings.ToLower(st.op.String()) + "/" + f,
						fmt.Sprintf("%s executed by node %d pushed status 0, but %s is not what it was before the opcode (ETXCache %d->%d, deleted hashes %d->%d, undo map %d->%d)",
							st.op, st.node, f, len(st.pre.etxs), len(post.etxs), len(st.pre.hashes), len(post.hashes), len(st.pre.delKeys), len(post.delKeys))})
				}
			}
		}
	}
	if err != nil {
		return
	}
	if pc == 0 && op == vm.PUSH2 && len(scope.Contract.Code) >= 3 {
		t.nodeAt[depth] = int(scope.Contract.Code[1])<<8 | int(scope.Contract.Code[2])
		t.kAt[depth] = 0
		return
	}
	if isCallKind(op) {
		t.pending[depth] = &site{node: t.nodeAt[depth], k: t.kAt[depth], op: op, ctx: scope.Contract.Address(), pre: takeSnap(env, t.s, t.watch)}
		t.kAt[depth]++
	}
}

// ---------- running a tree ----------

type treeRun struct {
	err      int // 0 ok 1 reverted 2 other
	panicked bool
	etxs     []string // type/sender/to/value/index/gas
	etxVals  []string
	etxIdx   []int
	nHashes  int
	nDel     int
	logs     []string
	refund   uint64
	root     common.Hash
	lockups  map[int]bool // epoch -> record still readable after undo-if-failed and batch write
	tr       *treeTracer
	topDiff  []string
	what     string
}

type treeEnv struct {
	codes  *compiled
	salts  map[int]common.Hash
	plan   *plan
	epochs map[int]emitInfo // claim epoch -> (node, tag)
	owners map[int]common.Address
}

func etxDesc(tx *types.Transaction) string {
	return fmt.Sprintf("%d/%x/%x/%s/%d/%d", tx.EtxType(), tx.ETXSender().Bytes(), tx.To().Bytes(), tx.Value(), tx.ETXIndex(), tx.Gas())
}

func treeBlockCtx(ptn uint64, getHash func(uint64) common.Hash, eligible bool) vm.BlockContext {
	return vm.BlockContext{
		CanTransfer: core.CanTransfer, Transfer: core.Transfer,
		GetHash:            getHash,
		CheckIfEtxEligible: func(common.Hash, common.Location) bool { return eligible },
		PrimaryCoinbase:    treeOrigin, GasLimit: 30000000,
		BlockNumber:        new(big.Int).SetUint64(treeBlock),
		Time:               big.NewInt(1700000000), Difficulty: big.NewInt(1000000), BaseFee: big.NewInt(1),
		QuaiStateSize:       new(big.Int).Lsh(big.NewInt(1), 20),
		PrimeTerminusNumber: ptn,
	}
}

// prepareTree compiles the tree, picks the CREATE2 salts and derives the intended outcome.
func prepareTree(root *TNode) *treeEnv {
	codes := &compiled{code: map[int][]byte{}, depth: map[int]int{}}
	compileNode(root, 0, codes)
	env := &treeEnv{codes: codes, salts: map[int]common.Hash{}, epochs: map[int]emitInfo{}, owners: map[int]common.Address{}}
	env.plan = simulate(root, env.salts, codes)
	root.walk(func(n *TNode) {
		for _, a := range n.Acts {
			if a.K == "claim" {
				env.epochs[a.Epoch] = emitInfo{n.ID, "claim", a.Tag, a.Epoch}
				if cx := env.plan.ctx[n.ID]; cx != "" {
					env.owners[a.Epoch] = common.BytesToAddress(common.FromHex(cx), loc)
				}
			}
		}
	})
	return env
}

func runTree(root *TNode, env *treeEnv, ptn uint64, pruned bool, traced bool) (res *treeRun) {
	res = &treeRun{lockups: map[int]bool{}}
	vm.InitializePrecompiles(loc)
	raw := rawdb.NewMemoryDatabase(logger)
	s := newState(types.EmptyRootHash, state.NewDatabase(raw))
	s.ConfigureAccessListChecks(false)
	big1e24 := endowment(0)
	var watch []common.InternalAddress
	root.walk(func(n *TNode) {
		if isCreate(n.Kind) {
			if cx := env.plan.ctx[n.ID]; cx != "" {
				ia, _ := common.BytesToAddress(common.FromHex(cx), loc).InternalAndQuaiAddress()
				watch = append(watch, ia)
			}
			return
		}
		ia, err := nodeAddr(n.ID).InternalAndQuaiAddress()
		if err != nil {
			panic(err)
		}
		s.SetCode(ia, env.codes.code[n.ID])
		s.SetNonce(ia, 1)
		s.SetBalance(ia, big1e24)
		watch = append(watch, ia)
	})
	for k := 0; k < 3; k++ {
		ia, _ := freshAddr(k).InternalAndQuaiAddress()
		watch = append(watch, ia)
	}
	oi, _ := treeOrigin.InternalAndQuaiAddress()
	s.SetBalance(oi, big1e24)
	watch = append(watch, oi)
	for ep, owner := range env.owners {
		if _, err := rawdb.WriteCoinbaseLockup(raw, owner, treeBeneficiary, 1, uint32(ep), lockupBalance(env.epochs[ep].tag), 5, 3, common.Zero); err != nil {
			panic(err)
		}
	}
	var batch ethdb.Batch = raw.NewBatch()
	batch.SetPending(true)
	getHash := func(n uint64) common.Hash {
		if n < hashBase {
			return common.Hash{}
		}
		i := int(n - hashBase)
		if i < hashWindowSalt {
			if pruned && env.plan.fails[i] {
				return common.BytesToHash([]byte{1})
			}
			return common.Hash{}
		}
		return env.salts[i-hashWindowSalt]
	}
	cfg := vm.Config{}
	if traced {
		res.tr = &treeTracer{s: s, watch: watch, nodeAt: map[int]int{}, kAt: map[int]int{}, pending: map[int]*site{}, observed: map[string]int{}}
		cfg = vm.Config{Debug: true, Tracer: res.tr}
	}
	txCtx := vm.TxContext{Origin: treeOrigin, GasPrice: big.NewInt(1), Hash: common.BytesToHash([]byte{0xc1, 0x4})}
	evm := vm.NewEVM(treeBlockCtx(ptn, getHash, true), txCtx, s, &params.ChainConfig{ChainID: big.NewInt(1), Location: loc}, cfg, batch)
	pre := takeSnap(evm, s, watch)
	var err error
	res.panicked = safe(func() { _, _, _, err = evm.Call(vm.AccountRef(treeOrigin), nodeAddr(root.ID), nil, gasBudget(0), big.NewInt(0)) })
	if res.panicked {
		return res
	}
	switch {
	case err == nil:
	case err == vm.ErrExecutionReverted:
		res.err = 1
	default:
		res.err = 2
		res.what = err.Error()
	}
	if res.err != 0 {
		res.topDiff = diffSnap(pre, takeSnap(evm, s, watch), watch, nil)
	}
	for i, tx := range evm.ETXCache {
		if tx == nil {
			res.etxs = append(res.etxs, fmt.Sprintf("nil@%d", i))
			continue
		}
		res.etxs = append(res.etxs, etxDesc(tx))
		res.etxVals = append(res.etxVals, tx.Value().String())
		res.etxIdx = append(res.etxIdx, int(tx.ETXIndex()))
	}
	res.nHashes = len(evm.CoinbaseDeletedHashes)
	res.nDel = len(evm.CoinbasesDeleted)
	lg := s.Logs()
	sort.SliceStable(lg, func(i, j int) bool { return lg[i].Index < lg[j].Index })
	for _, l := range lg {
		res.logs = append(res.logs, fmt.Sprintf("%x/%x", l.Address.Bytes(), l.Data))
	}
	res.refund = s.GetRefund()
	if res.err != 0 {
		evm.UndoCoinbasesDeleted() // core/state_processor.go applyTransaction on a failed result
	}
	if e := batch.Write(); e != nil {
		panic(e)
	}
	fresh := raw.NewBatch()
	for ep, owner := range env.owners {
		_, h, _, _ := rawdb.ReadCoinbaseLockup(raw, fresh, owner, treeBeneficiary, 1, uint32(ep))
		res.lockups[ep] = h != 0
	}
	res.root = s.IntermediateRoot(true)
	return res
}

// ---------- evaluation ----------

func (c *ctx) fail(sig, what string, cj any) {
	c.rep.Count("monitor-failure:" + sig)
	if os.Getenv("C12_DEBUG") != "" && !strings.HasPrefix(sig, "f8-") && !strings.HasPrefix(sig, "f9-") && !strings.HasPrefix(sig, "sizechange-") { // experiments only
		b, _ := json.Marshal(cj)
		fmt.Fprintf(os.Stderr, "c12 debug: %s %s\n", sig, b)
	}
	if c.perSig[sig] < 3 {
		c.perSig[sig]++
		c.rep.Fail(sig, what, cj)
	}
}

func (c *ctx) evalTree(root *TNode, ptn uint64, src string, emit bool) {
	n := 0
	root.walk(func(*TNode) { n++ })
	if n > maxTreeNodes {
		panic("tree too large")
	}
	env := prepareTree(root)
	p := env.plan
	cj := TreeCase{ID: -1, Mode: "tree", Ptn: ptn, Tree: root, Src: src}
	if emit {
		cj.ID = c.treeID
	}
	c.rep.Evaluations++
	c.rep.Count("tree:src:" + src)
	full := runTree(root, env, ptn, false, true)
	plain := runTree(root, env, ptn, false, false)
	erased := runTree(root, env, ptn, true, false)
	if full.panicked || plain.panicked || erased.panicked {
		c.fail("evm/panic", "EVM call panicked on tree "+root.String(), cj)
		return
	}
	seen := map[string]bool{}
	report := func(sig, what string) {
		if !seen[sig] {
			seen[sig] = true
			c.fail(sig, what+"  [tree "+root.String()+"]", cj)
		}
	}
	// 0. the harness did what it meant to do (otherwise the predictions below mean nothing)
	intentOK := true
	if (full.err != 0) != p.fails[root.ID] {
		intentOK = false
		report("evm/tree-harness", fmt.Sprintf("top-level frame: intended fails=%v, observed err class %d %s", p.fails[root.ID], full.err, full.what))
	}
	for k, want := range p.status {
		got, reached := full.tr.observed[k]
		if reached && got != want {
			intentOK = false
			report("evm/tree-harness", fmt.Sprintf("call site %s: intended status %d, observed %d", k, want, got))
		}
	}
	if strings.Join(full.etxs, ",") != strings.Join(plain.etxs, ",") || full.root != plain.root || full.err != plain.err {
		report("evm/tracer-changes-behaviour", "the run with a tracer and the run without differ")
	}
	// 1. frame monitor
	for _, f := range full.tr.fails {
		report(f.sig, f.what)
	}
	c.rep.CountN("tree:call-sites", full.tr.sites)
	c.rep.CountN("tree:call-sites-failed", full.tr.failed)
	// 2. failed top-level frame
	for _, f := range full.topDiff {
		report("top-call-failed-left-trace/tree/"+f, fmt.Sprintf("the transaction's top-level call failed (class %d) but %s is not what it was at entry", full.err, f))
	}
	// 3. erasure
	if strings.Join(full.etxs, ",") != strings.Join(erased.etxs, ",") {
		report("tree-erasure/etxcache", fmt.Sprintf("ETX cache %v, with the failing frames emptied %v", full.etxVals, erased.etxVals))
	}
	if full.nHashes != erased.nHashes || full.nDel != erased.nDel {
		report("tree-erasure/lockup-lists", fmt.Sprintf("deleted hashes/undo map %d/%d, with the failing frames emptied %d/%d", full.nHashes, full.nDel, erased.nHashes, erased.nDel))
	}
	if strings.Join(full.logs, ",") != strings.Join(erased.logs, ",") || full.refund != erased.refund {
		report("tree-erasure/logs-refund", "logs or refund counter differ from the run with the failing frames emptied")
	}
	if full.root != erased.root {
		report("tree-erasure/root", fmt.Sprintf("state root %x, with the failing frames emptied %x", full.root[:6], erased.root[:6]))
	}
	// 4. outbound set
	if intentOK {
		var want []string
		for _, e := range p.kept {
			switch e.kind {
			case "etx":
				want = append(want, etxValue(e.tag).String())
			case "convert":
				want = append(want, convertValue(e.tag).String())
			case "claim":
				want = append(want, lockupBalance(e.tag).String())
			}
		}
		if strings.Join(want, ",") != strings.Join(full.etxVals, ",") {
			report("outbound-set-differs", fmt.Sprintf("ETX cache holds values %v, the frames that ended well sent %v", full.etxVals, want))
		}
		for i, ix := range full.etxIdx {
			if ix != i {
				report("outbound-index-not-position", fmt.Sprintf("ETX at position %d carries index %d", i, ix))
				break
			}
		}
		nk := 0
		for range p.keptClaim {
			nk++
		}
		if full.nHashes != nk || full.nDel != nk {
			report("lockup-lists-differ", fmt.Sprintf("deleted hashes %d / undo map %d entries, %d claims ended well", full.nHashes, full.nDel, nk))
		}
		// 5. lockup records (F9)
		for _, cl := range p.claimsAll {
			gone := !full.lockups[cl.epoch]
			paid := p.keptClaim[cl.epoch] && full.err == 0
			if gone != paid {
				report("f9-lockup-claim-reverted/tree", fmt.Sprintf("lockup record of epoch %d gone=%v after the block's batch write, payout in the outbound set=%v", cl.epoch, gone, paid))
			}
		}
	}
	// distribution / non-triviality
	kinds := map[string]bool{}
	root.walk(func(x *TNode) {
		if x != root {
			f := "ok"
			if p.fails[x.ID] {
				f = "fails:" + x.End
			}
			c.rep.Count("tree:frame:" + x.Kind + ":" + f)
			acts := map[string]bool{}
			for _, a := range x.Acts {
				acts[a.K] = true
			}
			kinds[x.Kind+":"+f+":"+strings.Join(hlib.SortedKeys(acts), "+")] = true
		}
	})
	if full.tr.failed > 0 || full.err != 0 {
		c.rep.Nontrivial("tree|" + strings.Join(hlib.SortedKeys(kinds), ",") + fmt.Sprintf("|%d", full.err))
	}
	if emit {
		var db []string
		eps := make([]int, 0, len(env.owners))
		for ep := range env.owners {
			eps = append(eps, ep)
		}
		sort.Ints(eps)
		for _, ep := range eps {
			db = append(db, fmt.Sprintf("([%d], [3;232])", ep))
		}
		var obs []string
		for i := range full.etxVals {
			obs = append(obs, fmt.Sprint(tagOfValue(full.etxVals[i])))
		}
		c.addOld(fmt.Sprintf("CM %d %s %s %s %d %d", c.treeID, hlib.CoqList(db), p.eframe, hlib.CoqList(obs), full.nHashes, full.nDel), cj)
		c.rep.TracesValidated++
		c.rep.Sample(cj)
		c.treeID++
	}
}

// tagOfValue maps an ETX value back to the tag of the action that sent it (0 = not one of ours).
func tagOfValue(v string) int {
	x, _ := new(big.Int).SetString(v, 10)
	for _, base := range []*big.Int{minConv, big.NewInt(500000), big.NewInt(100000)} {
		d := new(big.Int).Sub(x, base)
		if d.Sign() >= 0 && d.Cmp(big.NewInt(60000)) < 0 {
			return int(d.Int64())
		}
	}
	return 0
}

// ---------- generators ----------

type treeBuilder struct {
	nextID, nextTag, nextEpoch, nextFresh int
}

func (b *treeBuilder) node(kind string, value bool, end string, acts ...TAct) *TNode {
	n := &TNode{ID: b.nextID, Kind: kind, Value: value, End: end, Acts: acts}
	b.nextID++
	return n
}
func (b *treeBuilder) tag() int { b.nextTag++; return b.nextTag }
func (b *treeBuilder) act(k string) TAct {
	switch k {
	case "claim":
		b.nextEpoch++
		return TAct{K: k, Tag: b.tag(), Epoch: b.nextEpoch}
	case "pay":
		f := b.nextFresh % 3
		b.nextFresh++
		return TAct{K: k, Slot: f}
	case "sstore", "tstore":
		return TAct{K: k, Tag: b.tag(), Slot: b.nextTag % 4}
	}
	return TAct{K: k, Tag: b.tag()}
}
func child(n *TNode) TAct { return TAct{K: "child", Child: n} }

// renumber assigns ids in pre-order with the root first (ids are positions in the BLOCKHASH window).
func renumber(root *TNode) *TNode {
	i := 0
	root.walk(func(n *TNode) { n.ID = i; i++ })
	return root
}

var callKinds = []string{"call", "callcode", "delegatecall", "staticcall", "create", "create2"}
var failEnds = []string{"revert", "invalid", "oog", "underflow"}

// treeCorpus: every call kind x every kind of effect x every failing ending, the caller swallowing
// the failure; plus nesting, siblings and failing callers.
func treeCorpus() []*TNode {
	var out []*TNode
	effects := [][]string{{"etx"}, {"convert"}, {"claim"}, {"sstore", "log", "tstore"}, {"pay"}, {"etx", "claim", "convert", "sstore"}}
	for _, kind := range callKinds {
		for ei, eff := range effects {
			for _, end := range append([]string{"stop"}, failEnds...) {
				for outer := 0; outer < 3; outer++ {
					if outer == 2 && (ei%2 == 1 || end == "invalid" || end == "underflow") {
						continue // thin out the failing-caller variants
					}
					b := &treeBuilder{}
					var acts []TAct
					for _, e := range eff {
						acts = append(acts, b.act(e))
					}
					inner := b.node(kind, kind == "call" || kind == "callcode" || isCreate(kind), end, acts...)
					var root *TNode
					switch outer {
					case 0: // the caller swallows the result and stops
						root = b.node("top", false, "stop", child(inner))
					case 1: // the caller sends before and after
						root = b.node("top", false, "stop", b.act("etx"), b.act("claim"), child(inner), b.act("convert"), b.act("sstore"))
					case 2: // the caller fails after a child that ended well or not
						root = b.node("top", false, "revert", b.act("etx"), child(inner), b.act("claim"))
					}
					out = append(out, renumber(root))
				}
			}
		}
	}
	// nesting: a failing frame around a completed one and the reverse, through every pair of kinds
	for _, k1 := range callKinds {
		for _, k2 := range callKinds {
			for v := 0; v < 2; v++ {
				b := &treeBuilder{}
				e1, e2 := "revert", "stop"
				if v == 1 {
					e1, e2 = "stop", "oog"
				}
				a2 := []TAct{b.act("etx"), b.act("sstore")}
				a2 = append(a2, b.act("claim"))
				in2 := b.node(k2, k2 == "call" || isCreate(k2), e2, a2...)
				in1 := b.node(k1, isCreate(k1), e1, b.act("convert"), child(in2), b.act("etx"))
				root := b.node("top", false, "stop", b.act("etx"), child(in1), b.act("etx"))
				out = append(out, renumber(root))
			}
		}
	}
	// siblings: completed, failed, completed; a self-destruct inside a failing frame; a second claim of a claimed record
	{
		b := &treeBuilder{}
		s1 := b.node("call", true, "stop", b.act("etx"), b.act("claim"))
		s2 := b.node("delegatecall", false, "invalid", b.act("etx"), b.act("claim"), b.act("convert"))
		s3 := b.node("callcode", true, "stop", b.act("convert"))
		out = append(out, renumber(b.node("top", false, "stop", child(s1), child(s2), child(s3))))
	}
	{
		b := &treeBuilder{}
		sd := b.node("call", true, "suicide", b.act("etx"), b.act("sstore"))
		mid := b.node("call", false, "revert", child(sd), b.act("etx"))
		out = append(out, renumber(b.node("top", false, "stop", child(mid), b.act("etx"))))
	}
	{
		b := &treeBuilder{}
		sd := b.node("create2", true, "suicide", b.act("etx"))
		out = append(out, renumber(b.node("top", false, "stop", child(sd), b.act("etx"))))
	}
	{
		b := &treeBuilder{}
		cl := b.act("claim")
		again := TAct{K: "reclaim", Tag: cl.Tag, Epoch: cl.Epoch}
		in := b.node("delegatecall", false, "stop", again)
		out = append(out, renumber(b.node("top", false, "stop", cl, child(in), again)))
	}
	return out
}

func randomTree(r *hlib.Rng) *TNode {
	b := &treeBuilder{}
	budget := 3 + r.Intn(10)
	var gen func(kind string, depth int) *TNode
	gen = func(kind string, depth int) *TNode {
		end := "stop"
		if kind != "top" || r.Chance(20) {
			switch r.Pick(45, 25, 8, 10, 7, 5) {
			case 1:
				end = "revert"
			case 2:
				end = "invalid"
			case 3:
				end = "oog"
			case 4:
				end = "underflow"
			case 5:
				if kind == "call" || isCreate(kind) || kind == "top" {
					end = "suicide"
				}
			}
		}
		n := b.node(kind, isCreate(kind) || (kind == "call" || kind == "callcode") && r.Chance(70), end)
		na := 1 + r.Intn(4)
		eaters := 0
		for i := 0; i < na; i++ {
			switch r.Pick(14, 12, 12, 8, 5, 5, 5, 30) {
			case 0:
				n.Acts = append(n.Acts, b.act("etx"))
			case 1:
				n.Acts = append(n.Acts, b.act("convert"))
			case 2:
				n.Acts = append(n.Acts, b.act("claim"))
			case 3:
				n.Acts = append(n.Acts, b.act("sstore"))
			case 4:
				n.Acts = append(n.Acts, b.act("tstore"))
			case 5:
				n.Acts = append(n.Acts, b.act("log"))
			case 6:
				n.Acts = append(n.Acts, b.act("pay"))
			case 7:
				if depth < 3 && budget > 0 {
					budget--
					ck := callKinds[r.Intn(len(callKinds))]
					ch := gen(ck, depth+1)
					if isCreate(ck) && endFails(ch.End) && ch.End != "revert" {
						eaters++
						if eaters > 2 {
							ch.End = "revert" // a failing creation eats 63/64 of the gas: keep the caller alive
						}
					}
					n.Acts = append(n.Acts, child(ch))
				}
			}
		}
		return n
	}
	root := gen("top", 0)
	return renumber(root)
}

func treeCases(c *ctx, rng *hlib.Rng, nRandom int) {
	ptns := []uint64{2000000, params.ShaEquivalentDifficultyForkBlock + params.KQuaiChangeHoldInterval + 5}
	for i, t := range treeCorpus() {
		c.evalTree(t, ptns[0], "corpus", i%3 == 0)
	}
	for i := 0; i < nRandom; i++ {
		c.evalTree(randomTree(rng.Fork()), ptns[rng.Intn(2)], "random", i%4 == 0)
	}
}
